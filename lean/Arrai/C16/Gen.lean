/-
  C16 case generator.
  (i)   `imp`    : one local import `//{.<raw>}` / `//{<raw>}` evaluated over the fixed directory chain
                   (marker script at every level, inside and outside the module); observable = paths
                   opened + outcome.  Exhaustive over short strings in `thorough`, random otherwise.
  (ii)  `pathfn` : the model's Clean/Join/Dir/Base/Ext/Abs against Go's, on the same strings.
  (iii) `fsrun`  : import graphs (DAGs, diamonds, cycles of length 1–4, several spellings of one file).
-/
import Arrai.C16.Model

namespace Arrai.C16
open Impl Impl.Path Impl.Strs Impl.Cache

def str (s : Str) : String := String.ofList s

/-! ## the fixed directory chain of the `imp` operation -/
def levelComps (l : Nat) : List Str :=
  match l with
  | 0 => []
  | 1 => ["tmp".toList]
  | l + 2 => ["tmp".toList, "vc16".toList] ++ List.replicate l ['a']

def cwdLevel : Nat := 5
def cwdStr : Str := render true (levelComps cwdLevel)
def maxLevel : Nat := 8
def marker : Str := "a.arrai".toList

def chainWorld (modLevel : Option Nat) : World :=
  { cwd := cwdStr,
    files := (List.range (maxLevel + 1)).map (fun l => levelComps l ++ [marker]) ++
      (match modLevel with | some m => [levelComps m ++ [sentinel]] | none => []) }

/-- the marker's content: the level of its directory -/
def markerLevel (cs : List Str) : Option Nat :=
  (List.range (maxLevel + 1)).find? (fun l => levelComps l ++ [marker] = cs)

/-- source directory at level `l`, absolute or relative to the working directory -/
def srcDirAt (l : Nat) (absolute : Bool) : Str :=
  if absolute then render true (levelComps l)
  else if l ≥ cwdLevel then render false (List.replicate (l - cwdLevel) ['a'])
  else render false (List.replicate (cwdLevel - l) dd)

def mainPathIn (srcDir : Str) : Str :=
  if srcDir = dot1 then "main.arrai".toList
  else if srcDir = slash then "/main.arrai".toList
  else srcDir ++ "/main.arrai".toList

structure ImpCfg where
  dot : Bool
  absolute : Bool
  srcLevel : Nat
  modLevel : Option Nat
  deriving Inhabited

def impObs (w : World) (r : Except Err Str) : String :=
  match r with
  | .error _ => "open=|out=error"
  | .ok f =>
    let cs := comps w.cwd f
    let out := match (if w.fileExists cs then markerLevel cs else none) with
      | some l => toString l
      | none => "error"
    s!"open={str (render true cs)}|out={out}"

/-- is the file the model reads beneath the module root (or the source directory without a module)? -/
def confinedOk (w : World) (srcDir : Str) (r : Except Err Str) : Bool :=
  match r with
  | .error _ => true
  | .ok f =>
    let base := match findRoot w srcDir with
      | some root => root
      | none => comps w.cwd srcDir
    decide (Spec.Under base (comps w.cwd f))

def impCase (id stratum : String) (cfg : ImpCfg) (s : Str) : Case :=
  let w := chainWorld cfg.modLevel
  let main := mainPathIn (srcDirAt cfg.srcLevel cfg.absolute)
  let srcDir := sourceDir main
  let raw := '/' :: s
  let r := resolve w srcDir cfg.dot raw
  let model := impObs w r
  let spec := if confinedOk w srcDir r then model else "open=|out=error"
  let src := "//{" ++ (if cfg.dot then "." else "") ++ str raw ++ "}"
  { id := id, cls := "good", kind := "imp",
    stratum := s!"{stratum}/{if cfg.dot then "dot" else "root"}/{if cfg.absolute then "abs" else "rel"}/" ++
      (match cfg.modLevel with | some _ => "mod" | none => "nomod"),
    model := model, spec := spec,
    payload := [str main, src, match cfg.modLevel with | some m => toString m | none => "-"] }

def pathfnObs (s t : Str) : String :=
  s!"clean={str (clean s)}|fclean={str (clean s)}|join={str (join [s, t])}|dir={str (dir s)}|" ++
  s!"base={str (base s)}|ext={str (ext s)}|abs={str (abs cwdStr s)}"

def pathfnCase (id stratum : String) (s t : Str) : Case :=
  { id := id, cls := "good", kind := "pathfn", stratum := stratum,
    model := pathfnObs s t, spec := pathfnObs s t, payload := [str s, str t] }

/-! ## configurations -/
/-- module at level 2..6 or none; source directory 0..3 levels below the module root (or at 3..7) -/
def allCfgs : List ImpCfg := Id.run do
  let mut out := []
  for dot in [true, false] do
    for absolute in [true, false] do
      for depth in [0, 1, 2, 3] do
        for m in [none, some 3, some 5] do
          let base := match m with | some l => l | none => 4
          out := { dot, absolute, srcLevel := base + depth, modLevel := m } :: out
  pure out.reverse

def genCfg : Gen ImpCfg := do
  let dot ← chance 1 2
  let absolute ← chance 1 2
  let m ← pick [none, none, some 2, some 3, some 4, some 5, some 6]
  let depth ← rand 4
  let base := match m with | some l => l | none => 3
  let lvl := min (base + depth) maxLevel
  pure { dot, absolute, srcLevel := lvl, modLevel := m }

def alphabet : List Char := ['.', '/', 'a', ' ', '\t']

/-- all strings of length `n` over the alphabet -/
def allStrings : Nat → List Str
  | 0 => [[]]
  | n + 1 => (allStrings n).flatMap (fun s => alphabet.map (fun c => c :: s))

def tokens : List Str :=
  ["..", ".", "/", "a", " ", "\t", "../", " ..", ".. ", "a..", "...", "//", "./", "a/", "/..", " ../", "\n", "a.a", ".a",
   "\\", "\\\\", "..\\", "\\..", "a\\..\\..\\a", "x\\..\\..\\..\\a", "\\../", "/..\\"].map
    String.toList

def compTokens : List Str :=
  ["a", "a", "a", "a", "..", ".", "", " ..", ".. ", " a", "a ", "a..", "...", "\t..", "a.arrai", "a.a", " ",
   "x\\..\\..\\a", "x\\..\\..\\..\\a", "a\\\\..\\\\..\\\\a", "x\\..", "..\\a", "a\\a", "x\\..\\..\\a.arrai"].map String.toList

/-- half of the time a token soup, otherwise a '/'-separated list of component-like tokens (mostly the
name of the marker script, so that many imports find a file) with optional outer whitespace -/
def genRaw : Gen Str := do
  let mode ← rand 4
  if mode ≤ 1 then
    let n ← rand 7
    let parts ← genList (n + 1) (pick tokens)
    pure parts.flatten
  else if mode == 2 then
    -- a path that names a marker script through harmless detours
    let n ← rand 4
    let parts ← genList n (pick (["a", "a", "a", ".", "", "a/..", "zz/.."].map String.toList))
    let post ← pick ["", "", ".arrai", " ", ".arrai\t"]
    pure (joinSlash (parts ++ [['a']]) ++ post.toList)
  else
    let n ← rand 4
    let parts ← genList (n + 1) (pick compTokens)
    let pre ← pick ["", "", "", " ", "/", "\t"]
    let post ← pick ["", "", "", " ", "/", "\n", " \t"]
    pure (pre.toList ++ joinSlash parts ++ post.toList)

def joinArgs : List Str := ["", ".", "..", "a", "/a", "a/", "../a", " .", "a/../..", "//"].map String.toList

/-! ## import graphs -/

/-- content language of the generated scripts: a constant tuple with the list of imports, optionally a
reference `f: <name>` / `f: .` to a name, and optionally a binder around the whole body
(`let n = k; …`, `(\n …)(k)`, `k -> …`).  A script whose reference is not bound by its OWN binder is an
open term: imported code is evaluated in a scope that holds only `//`, so it must fail whatever its
importers bind. -/
structure Script where
  path : List Str            -- absolute components
  id : Nat
  imports : List (Bool × Str)  -- (dot, raw)
  wrap : Nat := 0            -- 0 none, 1 let, 2 function parameter, 3 arrow (binds `.`)
  wname : String := "base"
  wval : Nat := 0
  ref : Nat := 0             -- 0 none, 1 the name `rname`, 2 `.`
  rname : String := "base"

def importSrc (i : Bool × Str) : String := "//{" ++ (if i.1 then "." else "") ++ str i.2 ++ "}"

def Script.closed (s : Script) : Bool :=
  s.ref == 0 || (s.ref == 1 && (s.wrap == 1 || s.wrap == 2) && s.wname == s.rname) || (s.ref == 2 && s.wrap == 3)

def scriptSrc (s : Script) : String :=
  let refSrc := if s.ref == 1 then s!", f: {s.rname}" else if s.ref == 2 then ", f: ." else ""
  let body := s!"(id: {s.id}, imps: [" ++ ", ".intercalate (s.imports.map importSrc) ++ "]" ++ refSrc ++ ")"
  match s.wrap with
  | 1 => s!"let {s.wname} = {s.wval}; {body}"
  | 2 => s!"(\\{s.wname} {body})({s.wval})"
  | 3 => s!"{s.wval} -> {body}"
  | _ => body

def Script.value (s : Script) (kids : List V) : V :=
  V.mkTup ([("id", .num s.id), ("imps", V.mkArr kids)] ++ (if s.ref != 0 then [("f", .num s.wval)] else []))

structure Layout where
  cwd : Str
  root : List Str
  /-- the directories that hold a go.mod (several: nested modules) -/
  sentinels : List (List Str)
  scripts : List Script

def Layout.hasMod (l : Layout) : Bool := !l.sentinels.isEmpty

def Layout.world (l : Layout) : World :=
  { cwd := l.cwd, files := l.scripts.map (·.path) ++ l.sentinels.map (· ++ [sentinel]) }

def Layout.scriptAt (l : Layout) (cs : List Str) : Option Script := l.scripts.find? (fun s => s.path = cs)

/-- the cache keys the imports of the script read as `key` resolve to -/
def Layout.edges (l : Layout) (key : Str) (s : Script) : List (Option Str) :=
  s.imports.map (fun i =>
    match resolve l.world (sourceDir key) i.1 i.2 with
    | .ok f => some f
    | .error _ => none)

/-- the abstract import graph reachable from the keys in `todo` (keys are file-name strings) -/
def Layout.explore (l : Layout) : Nat → List Str → List (Str × List (Option Str)) → List (Str × List (Option Str))
  | 0, _, acc => acc
  | _, [], acc => acc
  | fuel + 1, k :: todo, acc =>
    if acc.any (fun p => p.1 = k) then l.explore fuel todo acc
    else match l.scriptAt (comps l.cwd k) with
      | none => l.explore fuel todo acc
      | some s =>
        let es := l.edges k s
        l.explore fuel (todo ++ es.filterMap id) ((k, es) :: acc)

mutual
def treeV (l : Layout) : Tree Str → V
  | .node k kids =>
    match l.scriptAt (comps l.cwd k) with
    | some s => s.value (treesV l kids)
    | none => V.mkTup []
def treesV (l : Layout) : List (Tree Str) → List V
  | [] => []
  | t :: r => treeV l t :: treesV l r
end

/- does the evaluation reach an open script? (everything compiled is evaluated: the bodies are strict) -/
mutual
def treeOpen (l : Layout) : Tree Str → Bool
  | .node k kids =>
    (match l.scriptAt (comps l.cwd k) with | some s => !s.closed | none => false) || treesOpen l kids
def treesOpen (l : Layout) : List (Tree Str) → Bool
  | [] => false
  | t :: r => treeOpen l t || treesOpen l r
end

/-- evaluate `main` (given by the path string `mainPath`) over the layout with the model -/
def Layout.run (l : Layout) (mainPath : Str) (main : Script) : String :=
  let imps := l.edges mainPath main
  let g : Graph Str := ⟨l.explore 200 (imps.filterMap id) []⟩
  match compileMain g imps with
  | .ok ts =>
    if !main.closed || treesOpen l ts then "error"       -- a free name: an error regardless of the importers
    else (main.value (treesV l ts)).canon
  | .error (.err _) => "error"
  | .error .hang => "timeout"
  | .error .fuel => "model-out-of-fuel"

/-- the files `afero.ReadFile` is asked for, in the order of the compile: `fileValue` reads the file
before the cache is consulted; the first failure aborts everything -/
structure Tr where
  reads : List (List Str)
  done : List Str

def Layout.traceImports (l : Layout) (fuel : Nat) (chain : List Str) (st : Tr) (srcDir : Str)
    (imps : List (Bool × Str)) : Bool × Tr :=
  match imps with
  | [] => (true, st)
  | i :: r =>
    match resolve l.world srcDir i.1 i.2 with
    | .error _ => (false, st)
    | .ok f =>
      let cs := comps l.cwd f
      let st := { st with reads := cs :: st.reads }
      match l.scriptAt cs with
      | none => (false, st)
      | some s =>
        if f ∈ chain then (false, st)
        else if f ∈ st.done then l.traceImports fuel chain st srcDir r
        else match fuel with
          | 0 => (false, st)
          | fuel' + 1 =>
            match l.traceImports fuel' (f :: chain) st (sourceDir f) s.imports with
            | (false, st') => (false, st')
            | (true, st') => l.traceImports (fuel' + 1) chain { st' with done := f :: st'.done } srcDir r
termination_by (fuel, imps.length)

def Layout.opens (l : Layout) (mainPath : Str) (main : Script) : String :=
  let (_, st) := l.traceImports 60 [] { reads := [], done := [] } (sourceDir mainPath) main.imports
  ",".intercalate (dedupAdj (sortStrs (st.reads.map (fun cs => str (render true cs)))))

def Layout.obs (l : Layout) (mainPath : Str) (main : Script) : String :=
  s!"open={l.opens mainPath main}|out={l.run mainPath main}"

/-- binders and references: mode 0 none; mode 1 binders (and self-bound references) everywhere, all
scripts closed — importers' bindings must not change anything; mode 2 one script is OPEN and every other
script binds the name it refers to, each with a different value -/
def decorate (scripts : List Script) : Gen (List Script × String) := do
  let mode ← pick [0, 0, 1, 2, 2]
  let nm ← pick ["base", "x"]
  match mode with
  | 0 => pure (scripts, "")
  | 1 =>
    let mut out := []
    let mut i := 0
    for s in scripts do
      let w ← rand 6
      let selfRef ← chance 1 3
      let s' : Script :=
        if w == 0 || w > 3 then s
        else { s with wrap := w, wname := nm, wval := 5 + i,
                      ref := if selfRef then (if w == 3 then 2 else 1) else 0, rname := nm }
      out := s' :: out
      i := i + 1
    pure (out.reverse, "/binders")
  | _ =>
    let kind ← pick [1, 2]
    let victim ← (do let k ← rand (scripts.length - 1); pure (k + 1))
    let other := if nm == "base" then "x" else "base"
    let mut out := []
    let mut i := 0
    for s in scripts do
      let w ← rand 2
      let s' : Script :=
        if i == victim then
          -- refers to a name it does not bind itself (it may bind another one)
          { s with ref := kind, rname := nm, wrap := if w == 0 then 0 else 1, wname := other, wval := 3 }
        else if kind == 1 then { s with wrap := 1 + w, wname := nm, wval := 5 + i }
        else { s with wrap := 3, wval := 5 + i }
      out := s' :: out
      i := i + 1
    pure (out.reverse, "/open")

def relDirs : List (List Str) := [[], [], ["d".toList], ["d".toList, "e".toList], ["lib".toList], ["d".toList, "x y".toList]]

/-- spell the import of `target` from a script in directory `fromDir` of a layout rooted at `root` -/
def genSpelling (hasMod : Bool) (root fromDir target : List Str) : Gen (Bool × Str) := do
  let under := fromDir <+: target
  let useDot ← if under && hasMod then chance 1 2 else pure under
  let rel := if useDot then target.drop fromDir.length else target.drop root.length
  -- drop the default extension half of the time
  let dropExt ← chance 1 2
  let rel := match rel.reverse with
    | last :: up =>
      if dropExt && last.length > 6 then (last.take (last.length - 6) :: up).reverse else rel
    | [] => rel
  let noise ← rand 6
  let body : Str :=
    match noise with
    | 0 => joinSlash ("zz".toList :: dd :: rel)
    | 1 => joinSlash (dot1 :: rel)
    | 2 => '/' :: joinSlash rel
    | _ => joinSlash rel
  let trail ← rand 8
  let body := if trail == 0 then body ++ [' '] else if trail == 1 then body ++ ['\t'] else body
  pure (useDot, '/' :: body)

def natStr (n : Nat) : Str := (toString n).toList

def genLayout (shape : Nat) : Gen (Layout × Str × Script) := do
  let place ← rand 3
  let root : List Str := match place with
    | 0 => levelComps cwdLevel
    | 1 => levelComps cwdLevel ++ ["proj".toList]
    | _ => ["srv".toList, "m".toList]
  let hasMod ← chance 3 4
  let n0 ← (do let k ← rand 5; pure (k + 2))
  let n := if shape == 1 then max n0 4 else if shape == 2 then max n0 3 else n0
  -- directories: without a module every target must be below its importer, so keep scripts in a chain of dirs
  let dirs ← genList n (pick relDirs)
  let dirs := if hasMod then dirs else (List.range n).map (fun i => List.replicate (min i 2) ['d'])
  let paths := (List.range n).map (fun i => root ++ dirs.getD i [] ++ [("f".toList ++ natStr i ++ arraiExt)])
  -- edges
  let mut edges : List (Nat × Nat) := []
  match shape with
  | 0 => -- random DAG
    for i in [0:n] do
      for j in [i+1:n] do
        if ← chance 2 5 then edges := (i, j) :: edges
  | 1 => -- diamond 0 → 1,2 → last
    edges := [(0, 1), (0, min 2 (n - 1)), (1, n - 1), (min 2 (n - 1), n - 1)]
  | 2 => -- same file through several spellings
    edges := [(0, n - 1), (0, n - 1), (0, n - 1), (0, 1), (1, n - 1)]
  | _ => -- a cycle of length 1..4 somewhere behind main, plus a random DAG
    for i in [0:n] do
      for j in [i+1:n] do
        if ← chance 1 4 then edges := (i, j) :: edges
    let len ← (do let k ← rand 4; pure (min (k + 1) n))
    let start ← rand (n - len + 1)
    for i in [0:len] do
      let a := start + i
      let b := if i + 1 = len then start else start + i + 1
      edges := (a, b) :: edges
    if start > 0 then edges := (0, start) :: edges
  let edges1 := edges.reverse
  let edges2 := if hasMod then edges1
    else edges1.filter (fun e => (paths.getD e.1 []).dropLast <+: (paths.getD e.2 []))
  let mut scripts : List Script := []
  for i in [0:n] do
    let mine := edges2.filter (fun e => e.1 = i)
    let mut imps := []
    for e in mine do
      let sp ← genSpelling hasMod root (paths.getD i []).dropLast (paths.getD e.2 [])
      imps := sp :: imps
    -- now and then an import of a file that does not exist
    if ← chance 1 25 then imps := (true, "/nosuch".toList) :: imps
    scripts := { path := paths.getD i [], id := i, imports := imps.reverse } :: scripts
  let scriptsR := scripts.reverse
  let absolute ← chance 1 2
  let mainCs := paths.getD 0 []
  let cwdCs := levelComps cwdLevel
  let mainPath : Str :=
    if !absolute && cwdCs <+: mainCs then joinSlash (mainCs.drop cwdCs.length) else render true mainCs
  let (scriptsD, _) ← decorate scriptsR
  let l : Layout := { cwd := cwdStr, root, sentinels := if hasMod then [root] else [], scripts := scriptsD }
  pure (l, mainPath, scriptsD.headD { path := [], id := 0, imports := [] })

def graphCaseOf (id stratum : String) (l : Layout) (mainPath : Str) (main : Script) : Case :=
  let obs := l.obs mainPath main
  let files := l.scripts.flatMap (fun s => [str (render true s.path), scriptSrc s]) ++
    l.sentinels.flatMap (fun d => [str (render true (d ++ [sentinel])), "module m\n"])
  { id := id, cls := "good", kind := "fsrun", stratum := stratum, model := obs, spec := obs,
    payload := [str mainPath, scriptSrc main] ++ files }

def shapeName : Nat → String
  | 0 => "dag" | 1 => "diamond" | 2 => "spellings" | _ => "cycle"

def genGraphCase (idx : Nat) : Gen Case := do
  let shape ← pick [0, 0, 1, 2, 3, 3, 3]
  let (l, mainPath, main) ← genLayout shape
  pure (graphCaseOf s!"C16-g{idx}" ("graph/" ++ shapeName shape ++ (if l.hasMod then "" else "/nomod")) l mainPath main)

/-! ## nested modules: go.mod at several depths, the same relative names in every directory with
different contents, module-rooted imports from scripts at every depth (also directly in a nested root),
and several imports in one evaluation — in both orders, so that the root cache is warm from an earlier
import when a later one resolves -/

def treeDirs : List (List Str) :=
  [[], ["s".toList], ["s".toList, "t".toList], ["u".toList], ["s".toList, "v".toList]]

def nestedChoices : List (List (List Str)) :=
  [ [["s".toList]], [["s".toList], ["s".toList, "t".toList]], [["u".toList]], [["s".toList, "t".toList]],
    [["s".toList], ["u".toList]], [["s".toList], ["s".toList, "v".toList]] ]

/-- a layout with nested modules and two main scripts that differ only in the order of their imports -/
def genNested : Gen (Layout × Str × Script × Script) := do
  let place ← rand 3
  let root : List Str := match place with
    | 0 => levelComps cwdLevel
    | 1 => levelComps cwdLevel ++ ["proj".toList]
    | _ => ["srv".toList, "m".toList]
  let outer ← chance 5 6
  let nested ← pick nestedChoices
  let sentinels := (if outer then [root] else []) ++ nested.map (root ++ ·)
  -- every directory has data (distinct ids), util, and lib which imports /data (and more)
  let mut scripts : List Script := []
  let mut j := 0
  for d in treeDirs do
    let dir := root ++ d
    let extra ← rand 4
    let libImps : List (Bool × Str) :=
      [(false, "/data".toList)] ++
      (match extra with
       | 0 => [(true, "/data".toList)]
       | 1 => [(false, "/util".toList)]
       | 2 => [(false, "/data.arrai ".toList), (true, "/util".toList)]
       | _ => [])
    scripts := { path := dir ++ ["lib.arrai".toList], id := 10 + j, imports := libImps } ::
      { path := dir ++ ["util.arrai".toList], id := 200 + j, imports := [] } ::
      { path := dir ++ ["data.arrai".toList], id := 100 + j, imports := [] } :: scripts
    j := j + 1
  let mainDirRel ← pick treeDirs
  let mainDir := root ++ mainDirRel
  let mainCs := mainDir ++ ["main.arrai".toList]
  let w : World := { cwd := cwdStr, files := scripts.map (·.path) ++ sentinels.map (· ++ [sentinel]) }
  let mainRoot := findRoot w (render true mainDir)
  -- candidates: lib/data/util of every directory that main can name
  let k ← (do let x ← rand 3; pure (x + 2))
  let mut imps : List (Bool × Str) := []
  for _ in [0:k] do
    let d ← pick treeDirs
    let name ← pick ["lib.arrai", "lib.arrai", "lib.arrai", "data.arrai", "util.arrai"]
    let target := root ++ d ++ [name.toList]
    let canDot := mainDir <+: target
    let canRoot := match mainRoot with | some r => r <+: target | none => false
    if canDot || canRoot then
      let sp ← genSpelling mainRoot.isSome (mainRoot.getD []) mainDir target
      imps := sp :: imps
  -- a module-rooted import of main's own module, to warm the root cache for main's directory chain
  if mainRoot.isSome then
    let nm ← pick ["/util", "/data", "/lib"]
    let front ← chance 1 2
    imps := if front then imps ++ [(false, nm.toList)] else (false, nm.toList) :: imps
  let absolute ← chance 1 2
  let cwdCs := levelComps cwdLevel
  let mainPath : Str :=
    if !absolute && cwdCs <+: mainCs then joinSlash (mainCs.drop cwdCs.length) else render true mainCs
  let fwd : Script := { path := mainCs, id := 0, imports := imps }
  let rev : Script := { path := mainCs, id := 0, imports := imps.reverse }
  pure ({ cwd := cwdStr, root, sentinels, scripts := scripts.reverse }, mainPath, fwd, rev)

def genNestedCases (idx : Nat) : Gen (List Case) := do
  let (l, mainPath, fwd0, _) ← genNested
  let (deco, tag) ← decorate (fwd0 :: l.scripts)
  let fwd := deco.headD fwd0
  let rev : Script := { fwd with imports := fwd.imports.reverse }
  let rest := deco.drop 1
  let lf : Layout := { l with scripts := fwd :: rest }
  let lr : Layout := { l with scripts := rev :: rest }
  pure [ graphCaseOf s!"C16-n{idx}-fwd" ("nested/fwd" ++ tag) lf mainPath fwd,
         graphCaseOf s!"C16-n{idx}-rev" ("nested/rev" ++ tag) lr mainPath rev ]

/-! ## sequences: 2–3 evaluations over one file system that share ONE context (the root cache, and with
`share` also the import cache).  Each evaluation must behave as in a fresh context: the root cache is a
transparent memo (`root_cache_sound`), the import cache is transparent (`cache_transparent`).  With a
shared import cache only the set of files opened shrinks: a cached script is read again, its imports not. -/

def Layout.obsSeq (l : Layout) (share : Bool) : List Str → List (Str × Script) → List String
  | _, [] => []
  | done, (mp, m) :: r =>
    let (_, st) := l.traceImports 60 [] { reads := [], done := done } (sourceDir mp) m.imports
    let opens := ",".intercalate (dedupAdj (sortStrs (st.reads.map (fun cs => str (render true cs)))))
    s!"open={opens}|out={l.run mp m}" :: l.obsSeq share (if share then st.done else []) r

def genSeqCase (idx : Nat) : Gen Case := do
  let (l0, _, _, _) ← genNested
  -- half of the time no module at the base: scripts there (and above) have no module root at all
  let dropOuter ← chance 1 2
  let sentinels := if dropOuter then l0.sentinels.filter (· ≠ l0.root) else l0.sentinels
  -- the same names at the root of the file system (what a root "" would resolve to)
  let fsRoot : List Script :=
    [ { path := ["data.arrai".toList], id := 900, imports := [] },
      { path := ["util.arrai".toList], id := 901, imports := [] },
      { path := ["lib.arrai".toList], id := 902, imports := [] } ]
  let k ← (do let x ← rand 2; pure (x + 2))
  let nMains ← (do let x ← rand 2; pure (x + 1))
  let mut mains : List Script := []
  for j in [0:nMains] do
    let d ← pick (treeDirs ++ [[]])
    let dir := l0.root ++ d
    let n ← (do let x ← rand 3; pure (x + 1))
    let mut imps : List (Bool × Str) := []
    for _ in [0:n] do
      let r ← rand 6
      let nm ← pick ["data", "util", "lib", "data.arrai"]
      let sub ← pick ["s", "u", "s/t"]
      let i : Bool × Str :=
        if r < 3 then (false, ("/" ++ nm).toList)                  -- module-rooted, whether or not there is a module
        else if r == 3 then (true, ("/" ++ nm).toList)
        else if r == 4 then (true, ("/" ++ sub ++ "/lib").toList)
        else (false, ("/" ++ sub ++ "/" ++ nm).toList)
      imps := i :: imps
    mains := { path := dir ++ [(s!"m{j}.arrai").toList], id := j, imports := imps } :: mains
  let mainsR := mains.reverse
  let picks ← genList k (rand nMains)
  -- make sure something is evaluated twice in a row now and then
  let twice ← chance 1 2
  let picks2 := if k ≥ 2 && twice then (picks.take 1 ++ picks.take 1 ++ picks.drop 2) else picks
  let absolute ← chance 1 2
  let cwdCs := levelComps cwdLevel
  let l : Layout := { l0 with sentinels, scripts := mainsR ++ l0.scripts ++ fsRoot }
  let seq : List (Str × Script) := picks2.map (fun i =>
    let m := mainsR.getD i { path := [], id := 0, imports := [] }
    let mp : Str := if !absolute && cwdCs <+: m.path then joinSlash (m.path.drop cwdCs.length) else render true m.path
    (mp, m))
  let share ← chance 1 2
  let obs := " ;; ".intercalate (l.obsSeq share [] seq)
  let files := l.scripts.flatMap (fun s => [str (render true s.path), scriptSrc s]) ++
    l.sentinels.flatMap (fun d => [str (render true (d ++ [sentinel])), "module m\n"])
  pure { id := s!"C16-q{idx}", cls := "good", kind := "fsseq",
         stratum := "seq/" ++ (if share then "shared-imports" else "shared-roots") ++ (if dropOuter then "/nomod-base" else ""),
         model := obs, spec := obs,
         payload := [if share then "1" else "0", toString seq.length] ++ seq.flatMap (fun e => [str e.1, scriptSrc e.2]) ++ files }

/-! ## corpus: witnesses of the repaired defects and minimised past failures -/
def mkScript (path : String) (id : Nat) (imports : List (Bool × String)) : Script :=
  { path := (splitSlash path.toList).filter (· ≠ []), id, imports := imports.map (fun i => (i.1, i.2.toList)) }

def corpusGraphs : List Case :=
  let root := levelComps cwdLevel
  let r := str (render true root)
  let self := mkScript (r ++ "/main.arrai") 0 [(true, "/main")]
  let a := mkScript (r ++ "/a.arrai") 1 [(true, "/b")]
  let b := mkScript (r ++ "/b.arrai") 2 [(true, "/a.arrai")]
  let m := mkScript (r ++ "/main.arrai") 0 [(true, "/a")]
  let mr := mkScript (r ++ "/main.arrai") 0 [(false, "/main"), (true, "/main")]
  [ graphCaseOf "C16-corpus-cycle-self" "corpus/cycle" { cwd := cwdStr, root, sentinels := [root], scripts := [self] }
      "main.arrai".toList self,
    graphCaseOf "C16-corpus-cycle-ab" "corpus/cycle" { cwd := cwdStr, root, sentinels := [root], scripts := [m, a, b] }
      (render true m.path) m,
    graphCaseOf "C16-corpus-cycle-rel-abs" "corpus/cycle" { cwd := cwdStr, root, sentinels := [root], scripts := [mr] }
      "main.arrai".toList mr ]

/-- minimised past failure (root cache consulted for the PARENT directory): a script directly in a
nested module root must resolve `//{/data}` against the nested module, whatever was resolved before -/
def corpusNested : List Case :=
  let root := ["srv".toList, "m".toList]
  let mk (order : Bool) : Script :=
    mkScript "/srv/m/main.arrai" 0 (if order then [(false, "/util"), (true, "/sub/lib")] else [(true, "/sub/lib"), (false, "/util")])
  let files := [ mkScript "/srv/m/sub/lib.arrai" 1 [(false, "/data")], mkScript "/srv/m/data.arrai" 100 [],
                 mkScript "/srv/m/sub/data.arrai" 10 [], mkScript "/srv/m/util.arrai" 2 [] ]
  let lay (m : Script) : Layout :=
    { cwd := cwdStr, root, sentinels := [root, root ++ ["sub".toList]], scripts := m :: files }
  [ graphCaseOf "C16-corpus-nested-root-warm" "corpus/nested" (lay (mk true)) "/srv/m/main.arrai".toList (mk true),
    graphCaseOf "C16-corpus-nested-root-cold" "corpus/nested" (lay (mk false)) "/srv/m/main.arrai".toList (mk false) ]

def corpus : List Case :=
  [ -- the escape: relative source directory, `//{./ ../a}` read the marker one level above go.mod
    impCase "C16-corpus-escape" "corpus" { dot := true, absolute := false, srcLevel := 5, modLevel := some 5 } " ../a".toList,
    impCase "C16-corpus-escape-tab" "corpus" { dot := true, absolute := false, srcLevel := 6, modLevel := some 6 } "\t../a".toList,
    impCase "C16-corpus-escape-nomod" "corpus" { dot := true, absolute := false, srcLevel := 5, modLevel := none } " ../a".toList,
    -- `//{./}` read <dir>.arrai next to the source directory
    impCase "C16-corpus-dir-import" "corpus" { dot := true, absolute := true, srcLevel := 4, modLevel := some 4 } [],
    impCase "C16-corpus-dir-import-2" "corpus" { dot := true, absolute := true, srcLevel := 4, modLevel := some 4 } "a/..".toList,
    impCase "C16-corpus-root-dd" "corpus" { dot := false, absolute := false, srcLevel := 5, modLevel := some 5 } " ..".toList,
    impCase "C16-corpus-plain" "corpus" { dot := true, absolute := true, srcLevel := 4, modLevel := some 3 } "a/a".toList,
    impCase "C16-corpus-root" "corpus" { dot := false, absolute := false, srcLevel := 6, modLevel := some 4 } "a/a".toList,
    pathfnCase "C16-corpus-pathfn" "corpus" "a/../..//b/".toList "../x".toList ] ++ corpusGraphs ++ corpusNested

def gen (seed n : Nat) (thorough : Bool) : List Case := Id.run do
  let mut out := corpus.reverse
  let nGraphs := if thorough then 10000 else n * 300 / 5300
  let nStrings := if thorough then n else n - nGraphs
  -- random strings
  for i in [0:nStrings] do
    let ((cfg, s, t), _) := (do
      let cfg ← genCfg
      let s ← genRaw
      let t ← pick joinArgs
      pure (cfg, s, t)).run (seedOf seed (1600000 + i))
    if i % 5 == 4 then out := pathfnCase s!"C16-p{i}" "pathfn/random" s t :: out
    else out := impCase s!"C16-s{i}" "imp/random" cfg s :: out
  -- graphs
  for i in [0:nGraphs] do
    let (c, _) := (genGraphCase i).run (seedOf seed (1650000 + i))
    out := c :: out
  -- nested modules, each layout with its imports in both orders
  let nNested := if thorough then 5000 else n * 200 / 5300
  for i in [0:nNested] do
    let (cs, _) := (genNestedCases i).run (seedOf seed (1670000 + i))
    for c in cs do
      out := c :: out
  -- sequences of evaluations sharing one context
  let nSeq := if thorough then 5000 else n * 300 / 5300
  for i in [0:nSeq] do
    let (c, _) := (genSeqCase i).run (seedOf seed (1690000 + i))
    out := c :: out
  if thorough then
    -- exhaustive: every string up to length 4 in every configuration; length 5 to 7 in two
    -- configurations each (rotating); every string also through pathfn
    let cfgs := allCfgs
    let mut idx := 0
    for len in [0:8] do
      for s in allStrings len do
        idx := idx + 1
        if len ≤ 4 then
          let mut ci := 0
          for cfg in cfgs do
            out := impCase s!"C16-x{idx}-{ci}" s!"imp/exh{len}" cfg s :: out
            ci := ci + 1
        else
          let c1 := cfgs.getD (idx % cfgs.length) default
          let c2 := cfgs.getD ((idx / 7 + 13) % cfgs.length) default
          out := impCase s!"C16-x{idx}-a" s!"imp/exh{len}" c1 s :: out
          out := impCase s!"C16-x{idx}-b" s!"imp/exh{len}" { c2 with dot := !c1.dot } s :: out
        out := pathfnCase s!"C16-xp{idx}" s!"pathfn/exh{len}" s (joinArgs.getD (idx % joinArgs.length) []) :: out
  pure out.reverse

end Arrai.C16
