/-
  C16 — helper lemmas (core Lean only).
  Part A: strings (ReplaceAll "../" "" as a three-rune scan), split/join on '/'.
  Part B: the component normal form (`norm`), `clean`, `comps`.
  Part C: a four-state automaton relating "every component is Normal" before and after the scan.
  Part D: the resolution pipeline.
  Part E: the import cache.
-/
import Arrai.C16.Model

namespace Arrai.C16
open Impl Impl.Strs Impl.Path Spec

/-! ## Part A — strings -/

/-- `strings.ReplaceAll(s, "../", "")` as a direct scan -/
def removeDDS : Str → Str
  | '.' :: '.' :: '/' :: r => removeDDS r
  | c :: r => c :: removeDDS r
  | [] => []

theorem hasPrefix_dds_false (c : Char) (r : Str) (h : ∀ r', c = '.' → r = '.' :: '/' :: r' → False) :
    hasPrefix (c :: r) ['.', '.', '/'] = false := by
  by_cases h1 : c = '.'
  · subst h1
    cases r with
    | nil => simp [hasPrefix]
    | cons d r =>
      by_cases h2 : d = '.'
      · subst h2
        cases r with
        | nil => simp [hasPrefix]
        | cons e r =>
          by_cases h3 : e = '/'
          · subst h3; exact absurd rfl (fun e => h r rfl e)
          · simp [hasPrefix, h3]
      · simp [hasPrefix, h2]
  · simp [hasPrefix, h1]

theorem replaceGo_dds (s : Str) : replaceGo ['.', '.', '/'] [] 0 s = removeDDS s := by
  induction s using removeDDS.induct with
  | case1 r ih => simp [replaceGo, hasPrefix, removeDDS, ih]
  | case2 c r h ih =>
    have hp := hasPrefix_dds_false c r h
    rw [removeDDS]
    · simp [replaceGo, hp, ih]
    · exact h
  | case3 => simp [replaceGo, removeDDS]

theorem replaceAll_dds (s : Str) : replaceAll s ['.', '.', '/'] [] = removeDDS s := by
  simp [replaceAll, replaceGo_dds]

theorem splitSlash_exists (s : Str) : ∃ h t, splitSlash s = h :: t := by
  cases s with
  | nil => exact ⟨[], [], rfl⟩
  | cons c r =>
    rw [splitSlash]
    split
    · exact ⟨_, _, rfl⟩
    · split
      · exact ⟨_, _, rfl⟩
      · exact ⟨_, _, rfl⟩

theorem splitSlash_ne_nil (s : Str) : splitSlash s ≠ [] := by
  obtain ⟨h, t, e⟩ := splitSlash_exists s
  simp [e]

theorem splitSlash_slash (r : Str) : splitSlash ('/' :: r) = [] :: splitSlash r := by
  rw [splitSlash]; simp

theorem splitSlash_cons_ne (c : Char) (r h : Str) (t : List Str) (hc : c ≠ '/') (hs : splitSlash r = h :: t) :
    splitSlash (c :: r) = (c :: h) :: t := by
  rw [splitSlash]; simp [hc, hs]

theorem splitSlash_append_slash (a b : Str) : splitSlash (a ++ '/' :: b) = splitSlash a ++ splitSlash b := by
  induction a with
  | nil => simp [splitSlash]
  | cons c a ih =>
    by_cases h : c = '/'
    · subst h; simp [splitSlash_slash, ih]
    · obtain ⟨x, t, hs⟩ := splitSlash_exists a
      rw [List.cons_append, splitSlash_cons_ne c a x t h hs,
        splitSlash_cons_ne c (a ++ '/' :: b) x (t ++ splitSlash b) h (by rw [ih, hs]; simp)]
      simp

theorem splitSlash_noslash (c : Str) (h : '/' ∉ c) : splitSlash c = [c] := by
  induction c with
  | nil => simp [splitSlash]
  | cons x c ih =>
    have hx : x ≠ '/' := fun e => h (by simp [e])
    have hc : '/' ∉ c := fun e => h (by simp [e])
    exact splitSlash_cons_ne x c c [] hx (ih hc)

theorem splitSlash_joinSlash (cs : List Str) (hne : cs ≠ []) (h : ∀ c ∈ cs, '/' ∉ c) :
    splitSlash (joinSlash cs) = cs := by
  induction cs with
  | nil => exact absurd rfl hne
  | cons c r ih =>
    cases r with
    | nil => simpa [joinSlash] using splitSlash_noslash c (h c (by simp))
    | cons d r =>
      rw [joinSlash, splitSlash_append_slash, splitSlash_noslash c (h c (by simp)),
        ih (by simp) (fun x hx => h x (by simp [hx]))]
      simp

theorem joinSlash_splitSlash (s : Str) : joinSlash (splitSlash s) = s := by
  induction s with
  | nil => simp [splitSlash, joinSlash]
  | cons c r ih =>
    obtain ⟨x, t, hs⟩ := splitSlash_exists r
    rw [hs] at ih
    by_cases h : c = '/'
    · subst h
      rw [splitSlash_slash, hs, joinSlash, ih]; simp
    · rw [splitSlash_cons_ne c r x t h hs]
      cases t with
      | nil => simp [joinSlash] at ih ⊢; exact ih
      | cons y t => simp [joinSlash] at ih ⊢; exact ih

theorem splitSlash_noslash_mem (s : Str) : ∀ c ∈ splitSlash s, '/' ∉ c := by
  induction s with
  | nil => simp [splitSlash]
  | cons x r ih =>
    obtain ⟨y, t, hs⟩ := splitSlash_exists r
    rw [hs] at ih
    by_cases h : x = '/'
    · subst h; rw [splitSlash_slash, hs]
      intro c hc
      simp at hc
      rcases hc with rfl | rfl | hc
      · simp
      · exact ih _ (by simp)
      · exact ih c (by simp [hc])
    · rw [splitSlash_cons_ne x r y t h hs]
      intro c hc
      simp at hc
      rcases hc with rfl | hc
      · have := ih y (by simp)
        simp [this]
        exact fun e => h e.symm
      · exact ih c (by simp [hc])

theorem joinSlash_append_last (xs : List Str) (l s : Str) :
    joinSlash (xs ++ [l]) ++ s = joinSlash (xs ++ [l ++ s]) := by
  induction xs with
  | nil => simp [joinSlash]
  | cons x xs ih =>
    cases xs with
    | nil => simp [joinSlash]
    | cons y ys =>
      simp only [List.cons_append, joinSlash, List.append_assoc] at ih ⊢
      rw [← ih]

theorem joinSlash_append (a b : List Str) (ha : a ≠ []) (hb : b ≠ []) :
    joinSlash (a ++ b) = joinSlash a ++ '/' :: joinSlash b := by
  induction a with
  | nil => exact absurd rfl ha
  | cons x a ih =>
    cases a with
    | nil =>
      cases b with
      | nil => exact absurd rfl hb
      | cons y b => simp [joinSlash]
    | cons z a =>
      have := ih (by simp)
      simp only [List.cons_append, joinSlash] at this ⊢
      rw [this]; simp

/-! ## Part B — the component normal form -/

theorem normStep_normal (r : Bool) (st : List Str) (c : Str) (h : Normal c) : normStep r st c = c :: st := by
  simp [normStep, h.1, h.2.1, h.2.2.1]

theorem foldl_normStep_normal (r : Bool) (ys : List Str) (st : List Str) (h : ∀ c ∈ ys, Normal c) :
    ys.foldl (normStep r) st = ys.reverse ++ st := by
  induction ys generalizing st with
  | nil => simp
  | cons y ys ih =>
    simp only [List.foldl_cons]
    rw [normStep_normal r st y (h y (by simp)), ih _ (fun c hc => h c (by simp [hc]))]
    simp

theorem norm_append_normal (r : Bool) (xs ys : List Str) (h : ∀ c ∈ ys, Normal c) :
    norm r (xs ++ ys) = norm r xs ++ ys := by
  simp [norm, List.foldl_append, foldl_normStep_normal r ys _ h]

theorem norm_normal (r : Bool) (ys : List Str) (h : ∀ c ∈ ys, Normal c) : norm r ys = ys := by
  simpa [norm] using norm_append_normal r [] ys h

/-- a slash-free component is Normal, empty, "." or ".." -/
theorem normal_or (c : Str) (hs : '/' ∉ c) : Normal c ∨ c = [] ∨ c = dot1 ∨ c = dd := by
  by_cases h1 : c = []
  · exact Or.inr (Or.inl h1)
  by_cases h2 : c = dot1
  · exact Or.inr (Or.inr (Or.inl h2))
  by_cases h3 : c = dd
  · exact Or.inr (Or.inr (Or.inr h3))
  exact Or.inl ⟨h1, h2, h3, hs⟩

theorem normStep_rooted_normal (st : List Str) (c : Str) (hst : ∀ x ∈ st, Normal x) (hc : '/' ∉ c) :
    ∀ x ∈ normStep true st c, Normal x := by
  rcases normal_or c hc with h | h | h | h
  · rw [normStep_normal _ _ _ h]
    intro x hx
    simp at hx
    rcases hx with rfl | hx
    · exact h
    · exact hst x hx
  · subst h; simpa [normStep] using hst
  · subst h; simpa [normStep] using hst
  · subst h
    cases st with
    | nil => simp [normStep, dd, dot1]
    | cons top rest =>
      have htop : top ≠ dd := (hst top (by simp)).2.2.1
      have : normStep true (top :: rest) dd = rest := by
        simp [normStep, htop]; simp [dd, dot1]
      rw [this]
      exact fun x hx => hst x (by simp [hx])

theorem foldl_rooted_normal (xs st : List Str) (hst : ∀ x ∈ st, Normal x) (hxs : ∀ c ∈ xs, '/' ∉ c) :
    ∀ x ∈ xs.foldl (normStep true) st, Normal x := by
  induction xs generalizing st with
  | nil => simpa using hst
  | cons c xs ih =>
    simp only [List.foldl_cons]
    exact ih _ (normStep_rooted_normal st c hst (hxs c (by simp))) (fun c hc => hxs c (by simp [hc]))

theorem norm_rooted_normal (xs : List Str) (hxs : ∀ c ∈ xs, '/' ∉ c) : ∀ x ∈ norm true xs, Normal x := by
  intro x hx
  simp [norm] at hx
  exact foldl_rooted_normal xs [] (by simp) hxs x hx

theorem comps_normal (cwd s : Str) : ∀ x ∈ comps cwd s, Normal x :=
  norm_rooted_normal _ (splitSlash_noslash_mem _)

/-- shape of the stack in relative mode (top first): Normal components on top of ".." components -/
def RelOk (st : List Str) : Prop := ∃ ns k, st = ns ++ List.replicate k dd ∧ ∀ c ∈ ns, Normal c

theorem relOk_mem (st : List Str) (h : RelOk st) : ∀ x ∈ st, Normal x ∨ x = dd := by
  obtain ⟨ns, k, rfl, hn⟩ := h
  intro x hx
  simp at hx
  rcases hx with hx | hx
  · exact Or.inl (hn x hx)
  · exact Or.inr hx.2

theorem normStep_relOk (st : List Str) (c : Str) (hst : RelOk st) (hc : '/' ∉ c) : RelOk (normStep false st c) := by
  rcases normal_or c hc with h | h | h | h
  · rw [normStep_normal _ _ _ h]
    obtain ⟨ns, k, rfl, hn⟩ := hst
    refine ⟨c :: ns, k, by simp, ?_⟩
    intro x hx
    simp at hx
    rcases hx with rfl | hx
    · exact h
    · exact hn x hx
  · subst h; simpa [normStep] using hst
  · subst h; simpa [normStep] using hst
  · subst h
    obtain ⟨ns, k, rfl, hn⟩ := hst
    cases ns with
    | nil =>
      cases k with
      | zero => exact ⟨[], 1, by simp [normStep, dd, dot1, List.replicate], by simp⟩
      | succ k =>
        refine ⟨[], k + 2, ?_, by simp⟩
        simp [normStep, List.replicate]
        simp [dd, dot1]
    | cons top rest =>
      have htop : top ≠ dd := (hn top (by simp)).2.2.1
      have : normStep false ((top :: rest) ++ List.replicate k dd) dd = rest ++ List.replicate k dd := by
        simp [normStep, htop]; simp [dd, dot1]
      rw [this]
      exact ⟨rest, k, rfl, fun x hx => hn x (by simp [hx])⟩

theorem foldl_relOk (xs st : List Str) (hst : RelOk st) (hxs : ∀ c ∈ xs, '/' ∉ c) :
    RelOk (xs.foldl (normStep false) st) := by
  induction xs generalizing st with
  | nil => simpa using hst
  | cons c xs ih =>
    simp only [List.foldl_cons]
    exact ih _ (normStep_relOk st c hst (hxs c (by simp))) (fun c hc => hxs c (by simp [hc]))

/-- normalising a segment in relative mode first does not change what the rooted machine computes -/
theorem rooted_step_rel (acc st : List Str) (c : Str) (hst : RelOk st) (hc : '/' ∉ c) :
    (normStep false st c).reverse.foldl (normStep true) acc =
      normStep true (st.reverse.foldl (normStep true) acc) c := by
  rcases normal_or c hc with h | h | h | h
  · rw [normStep_normal _ _ _ h]
    simp [List.foldl_append]
  · subst h; simp [normStep]
  · subst h; simp [normStep]
  · subst h
    obtain ⟨ns, k, rfl, hn⟩ := hst
    cases ns with
    | nil =>
      cases k with
      | zero => simp [normStep, dd, dot1]
      | succ k =>
        have : normStep false ([] ++ List.replicate (k + 1) dd) dd = dd :: List.replicate (k + 1) dd := by
          simp [normStep, List.replicate]; simp [dd, dot1]
        rw [this]
        simp [List.foldl_append]
    | cons top rest =>
      have htop : Normal top := hn top (by simp)
      have : normStep false ((top :: rest) ++ List.replicate k dd) dd = rest ++ List.replicate k dd := by
        simp [normStep, htop.2.2.1]; simp [dd, dot1]
      rw [this]
      have e : ((top :: rest) ++ List.replicate k dd).reverse = (rest ++ List.replicate k dd).reverse ++ [top] := by
        simp
      rw [e, List.foldl_append]
      simp only [List.foldl_cons, List.foldl_nil]
      rw [normStep_normal true _ top htop]
      simp [normStep, htop.2.2.1]; simp [dd, dot1]

theorem rooted_foldl_rel (xs : List Str) (acc st : List Str) (hst : RelOk st) (hxs : ∀ c ∈ xs, '/' ∉ c) :
    (xs.foldl (normStep false) st).reverse.foldl (normStep true) acc =
      xs.foldl (normStep true) (st.reverse.foldl (normStep true) acc) := by
  induction xs generalizing st with
  | nil => simp
  | cons c xs ih =>
    simp only [List.foldl_cons]
    rw [ih _ (normStep_relOk st c hst (hxs c (by simp))) (fun c hc => hxs c (by simp [hc])),
      rooted_step_rel acc st c hst (hxs c (by simp))]

theorem rooted_norm_rel (xs acc : List Str) (hxs : ∀ c ∈ xs, '/' ∉ c) :
    (norm false xs).foldl (normStep true) acc = xs.foldl (normStep true) acc := by
  have := rooted_foldl_rel xs acc [] ⟨[], 0, by simp, by simp⟩ hxs
  simpa [norm] using this

/-! ### render, clean, comps -/

theorem isAbs_cons (c : Char) (s : Str) : isAbs (c :: s) = decide (c = '/') := by
  by_cases h : c = '/' <;> simp [isAbs, slash, hasPrefix, h]

theorem isAbs_append (a b : Str) (h : a ≠ []) : isAbs (a ++ b) = isAbs a := by
  cases a with
  | nil => exact absurd rfl h
  | cons c a => simp [isAbs_cons]

theorem isAbs_nil : isAbs [] = false := by simp [isAbs, slash, hasPrefix]

theorem isAbs_joinSlash (c : Str) (r : List Str) (h1 : c ≠ []) (h2 : '/' ∉ c) : isAbs (joinSlash (c :: r)) = false := by
  cases c with
  | nil => exact absurd rfl h1
  | cons x c =>
    have hx : x ≠ '/' := fun e => h2 (by simp [e])
    cases r with
    | nil => simp [joinSlash, isAbs_cons, hx]
    | cons d r => simp [joinSlash, isAbs_cons, hx]

theorem comps_abs (cwd s : Str) (h : isAbs s = true) : comps cwd s = norm true (splitSlash s) := by
  simp [comps, h]

theorem comps_rel (cwd s : Str) (h : isAbs s = false) :
    comps cwd s = norm true (splitSlash cwd ++ splitSlash s) := by
  simp [comps, h, splitSlash_append_slash]

theorem norm_cons_nil (r : Bool) (xs : List Str) : norm r ([] :: xs) = norm r xs := by
  simp [norm, normStep]

theorem norm_split_render (ns : List Str) (h : ∀ c ∈ ns, Normal c) :
    norm true (splitSlash (render true ns)) = ns := by
  simp only [render, if_true]
  rw [splitSlash_slash, norm_cons_nil]
  cases ns with
  | nil => simp [joinSlash, splitSlash, norm, normStep]
  | cons c r =>
    rw [splitSlash_joinSlash _ (by simp) (fun x hx => (h x hx).2.2.2)]
    exact norm_normal true _ h

theorem isAbs_render_true (ns : List Str) : isAbs (render true ns) = true := by
  simp [render, isAbs_cons]

theorem norm_false_mem (xs : List Str) (hxs : ∀ c ∈ xs, '/' ∉ c) : ∀ x ∈ norm false xs, Normal x ∨ x = dd := by
  intro x hx
  simp [norm] at hx
  exact relOk_mem _ (foldl_relOk xs [] ⟨[], 0, by simp, by simp⟩ hxs) x hx

theorem normal_or_dd_props (x : Str) (h : Normal x ∨ x = dd) : x ≠ [] ∧ '/' ∉ x := by
  rcases h with h | h
  · exact ⟨h.1, h.2.2.2⟩
  · subst h; simp [dd]

theorem rel_render (cs : List Str) (h : ∀ x ∈ cs, Normal x ∨ x = dd) (acc : List Str) :
    isAbs (render false cs) = false ∧
    (splitSlash (render false cs)).foldl (normStep true) acc = cs.foldl (normStep true) acc := by
  cases cs with
  | nil => simp [render, dot1, isAbs_cons, splitSlash, normStep]
  | cons c r =>
    have hc := normal_or_dd_props c (h c (by simp))
    refine ⟨by simpa [render] using isAbs_joinSlash c r hc.1 hc.2, ?_⟩
    simp only [render]
    rw [if_neg (by simp), if_neg (by simp),
      splitSlash_joinSlash _ (by simp) (fun x hx => (normal_or_dd_props x (h x hx)).2)]

theorem clean_abs (z : Str) (h : isAbs z = true) : clean z = render true (norm true (splitSlash z)) := by
  simp [clean, h]

theorem clean_rel (z : Str) (h : isAbs z = false) : clean z = render false (norm false (splitSlash z)) := by
  simp [clean, h]

theorem isAbs_clean (z : Str) : isAbs (clean z) = isAbs z := by
  cases h : isAbs z with
  | true => rw [clean_abs z h, isAbs_render_true]
  | false =>
    rw [clean_rel z h]
    exact (rel_render _ (norm_false_mem _ (splitSlash_noslash_mem z)) []).1

/-- cleaning a path string does not change the file it denotes -/
theorem comps_clean (cwd z : Str) : comps cwd (clean z) = comps cwd z := by
  cases h : isAbs z with
  | true =>
    rw [clean_abs z h, comps_abs _ _ (isAbs_render_true _), comps_abs _ _ h,
      norm_split_render _ (norm_rooted_normal _ (splitSlash_noslash_mem z))]
  | false =>
    have hm := norm_false_mem _ (splitSlash_noslash_mem z)
    have key : ∀ ys, norm true (splitSlash cwd ++ ys) =
        (ys.foldl (normStep true) ((splitSlash cwd).foldl (normStep true) [])).reverse := by
      intro ys; simp [norm, List.foldl_append]
    rw [clean_rel z h, comps_rel _ _ (rel_render _ hm []).1, comps_rel _ _ h, key, key,
      (rel_render _ hm _).2, rooted_norm_rel _ _ (splitSlash_noslash_mem z)]

theorem comps_append_normal (cwd base : Str) (ns : List Str) (hb : base ≠ []) (hne : ns ≠ [])
    (hn : ∀ c ∈ ns, Normal c) : comps cwd (base ++ '/' :: joinSlash ns) = comps cwd base ++ ns := by
  have hs : splitSlash (joinSlash ns) = ns := splitSlash_joinSlash ns hne (fun x hx => (hn x hx).2.2.2)
  cases h : isAbs base with
  | true =>
    rw [comps_abs _ _ (by rw [isAbs_append _ _ hb, h]), comps_abs _ _ h, splitSlash_append_slash, hs,
      norm_append_normal _ _ _ hn]
  | false =>
    rw [comps_rel _ _ (by rw [isAbs_append _ _ hb, h]), comps_rel _ _ h, splitSlash_append_slash, hs,
      ← List.append_assoc, norm_append_normal _ _ _ hn]

theorem join2 (a x : Str) (h : a ≠ []) : join [a, x] = clean (a ++ '/' :: x) := by
  simp [join, h, joinSlash]

theorem clean_append_normal (base : Str) (ns : List Str) (hb : base ≠ []) (hne : ns ≠ [])
    (hn : ∀ c ∈ ns, Normal c) :
    clean (base ++ '/' :: joinSlash ns) = render (isAbs base) (norm (isAbs base) (splitSlash base) ++ ns) := by
  have hs : splitSlash (joinSlash ns) = ns := splitSlash_joinSlash ns hne (fun x hx => (hn x hx).2.2.2)
  simp only [clean]
  rw [isAbs_append _ _ hb, splitSlash_append_slash, hs, norm_append_normal _ _ _ hn]

theorem render_append_last (r : Bool) (xs : List Str) (l s : Str) :
    render r (xs ++ [l]) ++ s = render r (xs ++ [l ++ s]) := by
  cases r with
  | true => simp [render, joinSlash_append_last]
  | false => simp [render, joinSlash_append_last]

theorem normal_append_ext (l : Str) (h : Normal l) : Normal (l ++ arraiExt) := by
  refine ⟨?_, ?_, ?_, ?_⟩
  · intro e; have := congrArg List.length e; simp [arraiExt] at this
  · intro e; have := congrArg List.length e; simp [arraiExt, dot1] at this
  · intro e; have := congrArg List.length e; simp [arraiExt, dd] at this
  · intro e
    simp at e
    rcases e with e | e
    · exact h.2.2.2 e
    · simp [arraiExt] at e

/-- `fileValue`'s default extension only changes the last component, which stays Normal -/
theorem fileName_clean_append (base : Str) (ns : List Str) (hb : base ≠ []) (hne : ns ≠ [])
    (hn : ∀ c ∈ ns, Normal c) :
    ∃ ns', ns' ≠ [] ∧ (∀ c ∈ ns', Normal c) ∧
      fileName (clean (base ++ '/' :: joinSlash ns)) = clean (base ++ '/' :: joinSlash ns') := by
  obtain ⟨xs, l, rfl⟩ : ∃ xs l, ns = xs ++ [l] :=
    ⟨ns.dropLast, ns.getLast hne, (List.dropLast_concat_getLast hne).symm⟩
  unfold fileName
  split
  · have hl : Normal l := hn l (by simp)
    have hn' : ∀ c ∈ xs ++ [l ++ arraiExt], Normal c := by
      intro c hc
      simp at hc
      rcases hc with hc | rfl
      · exact hn c (by simp [hc])
      · exact normal_append_ext _ hl
    refine ⟨xs ++ [l ++ arraiExt], by simp, hn', ?_⟩
    rw [clean_append_normal base _ hb (by simp) hn', clean_append_normal base _ hb hne hn,
      ← List.append_assoc, render_append_last, List.append_assoc]
  · exact ⟨_, hne, hn, rfl⟩

/-! ## Part C — an automaton for "every component is Normal"

State of the component read so far: 0 = empty, 1 = ".", 2 = "..", 3 = anything else. -/

def dstep (st : Nat) (c : Char) : Nat :=
  if c = '.' then (if st = 0 then 1 else if st = 1 then 2 else 3) else 3

def okIn : Nat → Str → Bool
  | st, [] => st == 3
  | st, c :: r => if c = '/' then (st == 3 && okIn 0 r) else okIn (dstep st c) r

theorem dstep_mono (i o : Nat) (c : Char) (h : i ≤ o) (_ho : o ≤ 3) : dstep i c ≤ dstep o c ∧ dstep o c ≤ 3 := by
  unfold dstep
  by_cases hc : c = '.'
  · simp only [hc, if_true]
    constructor
    · split <;> split <;> (try split) <;> (try split) <;> omega
    · split <;> (try split) <;> omega
  · simp [hc]

/-- the scan only ever moves the output state ahead of the input state -/
theorem okIn_removeDDS (l : Str) : ∀ i o, i ≤ o → o ≤ 3 → okIn i l = true → okIn o (removeDDS l) = true := by
  induction l using removeDDS.induct with
  | case1 r ih =>
    intro i o hio ho h
    rw [removeDDS]
    simp only [okIn] at h
    have h0 : okIn 0 r = true := by
      simp at h
      exact h.2
    exact ih 0 o (Nat.zero_le _) ho h0
  | case2 c r hne ih =>
    intro i o hio ho h
    rw [removeDDS]
    · by_cases hc : c = '/'
      · subst hc
        simp [okIn] at h ⊢
        have : o = 3 := by omega
        exact ⟨this, ih 0 0 (Nat.le_refl _) (by omega) h.2⟩
      · simp [okIn, hc] at h ⊢
        have := dstep_mono i o c hio ho
        exact ih _ _ this.1 this.2 h
    · exact hne
  | case3 =>
    intro i o hio ho h
    simp [removeDDS, okIn] at h ⊢
    omega

def pst (p : Str) : Nat := p.foldl dstep 0

theorem foldl_dstep_3 (r : Str) : r.foldl dstep 3 = 3 := by
  induction r with
  | nil => rfl
  | cons c r ih => simp [List.foldl_cons, dstep, ih]

theorem normal_iff_pst (p : Str) (hs : '/' ∉ p) : pst p = 3 ↔ Normal p := by
  have hN : Normal p ↔ p ≠ [] ∧ p ≠ dot1 ∧ p ≠ dd := by
    simp [Normal, hs]
  rw [hN]
  match p with
  | [] => simp [pst]
  | [a] =>
    by_cases ha : a = '.' <;> simp [pst, dstep, ha, dot1, dd]
  | [a, b] =>
    by_cases ha : a = '.' <;> by_cases hb : b = '.' <;> simp [pst, dstep, ha, hb, dot1, dd]
  | a :: b :: c :: r =>
    have : pst (a :: b :: c :: r) = 3 := by
      simp only [pst, List.foldl_cons]
      have : dstep (dstep (dstep 0 a) b) c = 3 := by
        by_cases ha : a = '.' <;> by_cases hb : b = '.' <;> by_cases hc : c = '.' <;> simp [dstep, ha, hb, hc]
      rw [this, foldl_dstep_3]
    simp [this, dot1, dd]

theorem okIn_iff (x : Str) : ∀ (p h : Str) (t : List Str), '/' ∉ p → splitSlash x = h :: t →
    (okIn (pst p) x = true ↔ Normal (p ++ h) ∧ ∀ c ∈ t, Normal c) := by
  induction x with
  | nil =>
    intro p h t hp hs
    simp [splitSlash] at hs
    obtain ⟨rfl, rfl⟩ := hs
    simp [okIn, normal_iff_pst p hp]
  | cons c r ih =>
    intro p h t hp hs
    obtain ⟨h', t', hs'⟩ := splitSlash_exists r
    by_cases hc : c = '/'
    · subst hc
      rw [splitSlash_slash, hs'] at hs
      simp at hs
      obtain ⟨rfl, rfl⟩ := hs
      have := ih [] h' t' (by simp) hs'
      simp only [pst, List.foldl_nil, List.nil_append] at this
      simp [okIn, this, normal_iff_pst p hp]
    · rw [splitSlash_cons_ne c r h' t' hc hs'] at hs
      simp at hs
      obtain ⟨rfl, rfl⟩ := hs
      have hp' : '/' ∉ p ++ [c] := by
        simp [hp]; exact fun e => hc e.symm
      have := ih (p ++ [c]) h' t' hp' hs'
      have e : pst (p ++ [c]) = dstep (pst p) c := by simp [pst, List.foldl_append]
      rw [e] at this
      simp [okIn, hc, this]

theorem okIn_zero_iff (x : Str) : okIn 0 x = true ↔ ∀ c ∈ splitSlash x, Normal c := by
  obtain ⟨h, t, hs⟩ := splitSlash_exists x
  have := okIn_iff x [] h t (by simp) hs
  simp only [pst, List.foldl_nil, List.nil_append] at this
  rw [this, hs]
  simp

/-- removing every "../" from a relative path of Normal components leaves Normal components -/
theorem removeDDS_normal (ns : List Str) (hne : ns ≠ []) (hn : ∀ c ∈ ns, Normal c) :
    ∀ c ∈ splitSlash (removeDDS (joinSlash ns)), Normal c := by
  have h0 : okIn 0 (joinSlash ns) = true := by
    rw [okIn_zero_iff, splitSlash_joinSlash ns hne (fun x hx => (hn x hx).2.2.2)]
    exact hn
  exact (okIn_zero_iff _).1 (okIn_removeDDS _ 0 0 (Nat.le_refl _) (by omega) h0)

/-! ## Part D — the resolution pipeline -/

theorem trimLeft_cons_not (cut : List Char) (c : Char) (r : Str) (h : c ∉ cut) : trimLeft cut (c :: r) = c :: r := by
  simp [trimLeft, h]

theorem joinSlash_head (x : Char) (c : Str) (r : List Str) : ∃ tl, joinSlash ((x :: c) :: r) = x :: tl := by
  cases r with
  | nil => exact ⟨c, rfl⟩
  | cons d r => exact ⟨_, rfl⟩

theorem trim_slash_joinSlash (ns : List Str) (hne : ns ≠ []) (hn : ∀ c ∈ ns, Normal c) :
    trim ['/'] (joinSlash ns) = joinSlash ns := by
  -- first rune
  have h1 : trimLeft ['/'] (joinSlash ns) = joinSlash ns := by
    cases ns with
    | nil => exact absurd rfl hne
    | cons c r =>
      have hc := hn c (by simp)
      cases c with
      | nil => exact absurd rfl hc.1
      | cons x c =>
        obtain ⟨tl, e⟩ := joinSlash_head x c r
        rw [e]
        exact trimLeft_cons_not _ _ _ (by simp; exact fun e => hc.2.2.2 (by simp [e]))
  -- last rune
  obtain ⟨xs, l, rfl⟩ : ∃ xs l, ns = xs ++ [l] :=
    ⟨ns.dropLast, ns.getLast hne, (List.dropLast_concat_getLast hne).symm⟩
  have hl := hn l (by simp)
  obtain ⟨l', z, rfl⟩ : ∃ l' z, l = l' ++ [z] :=
    ⟨l.dropLast, l.getLast hl.1, (List.dropLast_concat_getLast hl.1).symm⟩
  have hz : z ≠ '/' := fun e => hl.2.2.2 (by simp [e])
  have e : joinSlash (xs ++ [l' ++ [z]]) = joinSlash (xs ++ [l']) ++ [z] := (joinSlash_append_last xs l' [z]).symm
  unfold trim trimRight
  rw [h1, e]
  simp only [List.reverse_append, List.reverse_cons, List.reverse_nil, List.nil_append, List.singleton_append]
  rw [trimLeft_cons_not _ _ _ (by simp [hz])]
  simp

theorem trim_slash_render_true (ns : List Str) (hne : ns ≠ []) (hn : ∀ c ∈ ns, Normal c) :
    trim ['/'] ('/' :: joinSlash ns) = joinSlash ns := by
  have := trim_slash_joinSlash ns hne hn
  unfold trim at this ⊢
  have e : trimLeft ['/'] ('/' :: joinSlash ns) = trimLeft ['/'] (joinSlash ns) := by simp [trimLeft]
  rw [e, this]

theorem hasPrefix_cons_slash (name : Str) (h : hasPrefix name slash = true) : ∃ rest, name = '/' :: rest := by
  cases name with
  | nil => simp [hasPrefix, slash] at h
  | cons c r =>
    by_cases hc : c = '/'
    · exact ⟨r, by rw [hc]⟩
    · simp [hasPrefix, slash, hc] at h

theorem hasPrefix_joinSlash_dd (r : List Str) : hasPrefix (joinSlash (dd :: r)) dd = true := by
  cases r with
  | nil => simp [joinSlash, dd, hasPrefix]
  | cons d r => simp [joinSlash, dd, hasPrefix]

theorem clean_joinSlash_normal (ns : List Str) (hne : ns ≠ []) (hn : ∀ c ∈ ns, Normal c) :
    clean (joinSlash ns) = joinSlash ns := by
  cases ns with
  | nil => exact absurd rfl hne
  | cons c r =>
    have hc := hn c (by simp)
    have ha : isAbs (joinSlash (c :: r)) = false := isAbs_joinSlash c r hc.1 hc.2.2.2
    rw [clean_rel _ ha, splitSlash_joinSlash _ (by simp) (fun x hx => (hn x hx).2.2.2), norm_normal _ _ hn]
    simp [render]

theorem localPath_root (srcDir raw : Str) (fr : Bool) (ip : Str) (h : localPath srcDir false raw = .ok (fr, ip)) :
    fr = true ∧ ∃ ns, ns ≠ [] ∧ (∀ c ∈ ns, Normal c) ∧ ip = joinSlash ns := by
  unfold localPath at h
  simp only [Bool.not_false, Bool.not_true, Bool.false_eq_true, if_false] at h
  split at h
  · cases h
  rename_i h1
  split at h
  · cases h
  split at h
  · cases h
  rename_i h3
  split at h
  · cases h
  injection h with h
  injection h with hfr hip
  simp at h1
  obtain ⟨rest, hname⟩ := hasPrefix_cons_slash _ h1
  have habs : isAbs (trim ws raw) = true := by rw [hname, isAbs_cons]; simp
  have hn := norm_rooted_normal _ (splitSlash_noslash_mem (trim ws raw))
  rw [clean_abs _ habs] at h3 hip
  generalize norm true (splitSlash (trim ws raw)) = ns at hn h3 hip
  have hne : ns ≠ [] := by
    intro e; subst e
    apply h3
    left
    simp [render, joinSlash, trim, trimRight, trimLeft]
  refine ⟨hfr.symm, ns, hne, hn, ?_⟩
  simp only [render, if_true] at hip
  rw [trim_slash_render_true ns hne hn, clean_joinSlash_normal ns hne hn] at hip
  exact hip.symm

theorem localPath_dot (srcDir raw : Str) (fr : Bool) (ip : Str) (h : localPath srcDir true raw = .ok (fr, ip)) :
    fr = false ∧ srcDir ≠ [] ∧ ∃ ns, ns ≠ [] ∧ (∀ c ∈ ns, Normal c) ∧ ip = clean (srcDir ++ '/' :: joinSlash ns) := by
  unfold localPath at h
  simp only [Bool.not_false, Bool.not_true, if_true] at h
  split at h
  · cases h
  rename_i h1
  split at h
  · cases h
  rename_i h2
  split at h
  · cases h
  rename_i h3
  split at h
  · cases h
  rename_i h4
  injection h with h
  injection h with hfr hip
  have habs : isAbs ('.' :: trim ws raw) = false := by rw [isAbs_cons]; simp
  rw [clean_rel _ habs] at h2 h3 hip
  have hsl := splitSlash_noslash_mem ('.' :: trim ws raw)
  have hrel := foldl_relOk (splitSlash ('.' :: trim ws raw)) [] ⟨[], 0, by simp, by simp⟩ hsl
  obtain ⟨ms, k, hst, hms⟩ := hrel
  have hcs : norm false (splitSlash ('.' :: trim ws raw)) = List.replicate k dd ++ ms.reverse := by
    simp [norm, hst]
  rw [hcs] at h2 h3 hip
  have hk : k = 0 := by
    cases k with
    | zero => rfl
    | succ k =>
      exfalso
      apply h2
      have : render false (List.replicate (k + 1) dd ++ ms.reverse) = joinSlash (dd :: (List.replicate k dd ++ ms.reverse)) := by
        simp [render, List.replicate]
      rw [this, hasPrefix_joinSlash_dd]
  subst hk
  simp only [List.replicate, List.nil_append] at h2 h3 hip
  have hn : ∀ c ∈ ms.reverse, Normal c := fun c hc => hms c (by simpa using hc)
  have hne : ms.reverse ≠ [] := by
    intro e
    apply h3
    right
    rw [e]
    simp [render, dot1, trim, trimRight, trimLeft]
  refine ⟨hfr.symm, h4, ms.reverse, hne, hn, ?_⟩
  have hr : render false ms.reverse = joinSlash ms.reverse := by simp [render, hne]
  rw [hr, trim_slash_joinSlash _ hne hn, join2 _ _ h4] at hip
  exact hip.symm


theorem findRootUp_prefix (w : World) (up r : List Str) (h : findRootUp w up = some r) : r <+: up.reverse := by
  induction up with
  | nil =>
    simp [findRootUp] at h
    simp [h.2]
  | cons c up ih =>
    simp only [findRootUp] at h
    split at h
    · injection h with h; rw [← h]; exact List.prefix_refl _
    · exact List.IsPrefix.trans (ih h) (by simp)

theorem findRoot_prefix (w : World) (d : Str) (r : List Str) (h : findRoot w d = some r) : r <+: comps w.cwd d := by
  have := findRootUp_prefix w _ r h
  simpa using this

theorem render_true_ne_nil (cs : List Str) : render true cs ≠ [] := by simp [render]

theorem fileName_append (a : Str) (ms : List Str) (hne : ms ≠ []) (hn : ∀ c ∈ ms, Normal c) :
    ∃ ms', ms' ≠ [] ∧ (∀ c ∈ ms', Normal c) ∧ fileName (a ++ '/' :: joinSlash ms) = a ++ '/' :: joinSlash ms' := by
  obtain ⟨xs, l, rfl⟩ : ∃ xs l, ms = xs ++ [l] :=
    ⟨ms.dropLast, ms.getLast hne, (List.dropLast_concat_getLast hne).symm⟩
  unfold fileName
  split
  · have hl : Normal l := hn l (by simp)
    refine ⟨xs ++ [l ++ arraiExt], by simp, ?_, ?_⟩
    · intro c hc
      simp at hc
      rcases hc with hc | rfl
      · exact hn c (by simp [hc])
      · exact normal_append_ext _ hl
    · rw [← joinSlash_append_last]; simp
  · exact ⟨_, hne, hn, rfl⟩

/-- what a successful `//{./…}` import reads: Normal components below the source directory -/
theorem resolve_dot (w : World) (srcDir raw f : Str) (h : resolve w srcDir true raw = .ok f) :
    srcDir ≠ [] ∧ ∃ ns, ns ≠ [] ∧ (∀ c ∈ ns, Normal c) ∧ f = clean (srcDir ++ '/' :: joinSlash ns) ∧
      comps w.cwd f = comps w.cwd srcDir ++ ns := by
  unfold resolve at h
  split at h
  · cases h
  rename_i fr ip hl
  obtain ⟨hfr, hsd, ns, hne, hn, hip⟩ := localPath_dot _ _ _ _ hl
  subst hfr
  simp only [importLocalFile, Bool.false_eq_true, if_false] at h
  injection h with h
  obtain ⟨ns', hne', hn', hf⟩ := fileName_clean_append srcDir ns hsd hne hn
  rw [hip, hf] at h
  refine ⟨hsd, ns', hne', hn', h.symm, ?_⟩
  rw [← h, comps_clean, comps_append_normal _ _ _ hsd hne' hn']

/-- what a successful `//{/…}` import reads: Normal components below the module root -/
theorem resolve_root (w : World) (srcDir raw f : Str) (h : resolve w srcDir false raw = .ok f) :
    ∃ root ms, findRoot w srcDir = some root ∧ ms ≠ [] ∧ (∀ c ∈ ms, Normal c) ∧
      f = render true root ++ '/' :: joinSlash ms ∧ comps w.cwd f = root ++ ms := by
  unfold resolve at h
  split at h
  · cases h
  rename_i fr ip hl
  obtain ⟨hfr, ns, hne, hn, hip⟩ := localPath_root _ _ _ _ hl
  subst hfr
  simp only [importLocalFile, if_true] at h
  split at h
  · cases h
  rename_i root hroot
  injection h with h
  have hrel : hasPrefix ip slash = false := by
    rw [hip]
    cases ns with
    | nil => exact absurd rfl hne
    | cons c r =>
      have hc := hn c (by simp)
      exact isAbs_joinSlash c r hc.1 hc.2.2.2
  simp only [hrel, Bool.not_false, if_true, replaceAll_dds] at h
  have hms := removeDDS_normal ns hne hn
  have hj := joinSlash_splitSlash (removeDDS (joinSlash ns))
  rw [hip, ← hj] at h
  obtain ⟨ms', hne', hn', hf⟩ := fileName_append (render true root) _ (splitSlash_ne_nil _) hms
  rw [hf] at h
  have hrn : ∀ c ∈ root, Normal c := by
    intro c hc
    exact comps_normal w.cwd srcDir c ((findRoot_prefix w srcDir root hroot).subset hc)
  refine ⟨root, ms', hroot, hne', hn', h.symm, ?_⟩
  rw [← h, comps_append_normal _ _ _ (render_true_ne_nil root) hne' hn',
    comps_abs _ _ (isAbs_render_true root), norm_split_render root hrn]

/-! ## Part E — the factored form: which components an import appends (used by C15) -/

theorem takeWhile_append_all {α : Type} (p : α → Bool) (a b : List α) (h : ∀ x ∈ a, p x = true) :
    (a ++ b).takeWhile p = a ++ b.takeWhile p := by
  induction a with
  | nil => rfl
  | cons x a ih =>
    simp only [List.cons_append, List.takeWhile_cons, h x (by simp), if_true]
    rw [ih (fun y hy => h y (by simp [hy]))]

/-- `filepath.Ext` only looks at the last component -/
theorem ext_append_last (A l : Str) (hl : '/' ∉ l) (hA : A = [] ∨ ∃ B, A = B ++ ['/']) :
    (ext (A ++ l) = [] ↔ '.' ∉ l) := by
  have htw : (A ++ l).reverse.takeWhile (· ≠ '/') = l.reverse := by
    rw [List.reverse_append, takeWhile_append_all _ _ _ (by
      intro x hx
      have : x ∈ l := by simpa using hx
      simp
      intro e; subst e; exact hl this)]
    rcases hA with rfl | ⟨B, rfl⟩
    · simp
    · simp
  unfold ext
  simp only [htw]
  constructor
  · intro h hm
    have : '.' ∈ l.reverse := by simpa using hm
    simp [this] at h
  · intro h
    have : '.' ∉ l.reverse := by simpa using h
    simp [this]

theorem joinSlash_last_split (ys : List Str) (l : Str) :
    ∃ A, joinSlash (ys ++ [l]) = A ++ l ∧ (A = [] ∨ ∃ B, A = B ++ ['/']) := by
  refine ⟨joinSlash (ys ++ [[]]), ?_, ?_⟩
  · have := joinSlash_append_last ys [] l
    simpa using this.symm
  · cases ys with
    | nil => left; simp [joinSlash]
    | cons y ys =>
      right
      refine ⟨joinSlash (y :: ys), ?_⟩
      rw [joinSlash_append (y :: ys) [[]] (by simp) (by simp)]
      simp [joinSlash]

theorem render_last_split (r : Bool) (ys : List Str) (l : Str) :
    ∃ A, render r (ys ++ [l]) = A ++ l ∧ (A = [] ∨ ∃ B, A = B ++ ['/']) := by
  obtain ⟨A, hA, hA'⟩ := joinSlash_last_split ys l
  cases r with
  | true =>
    refine ⟨'/' :: A, by simp [render, hA], ?_⟩
    rcases hA' with rfl | ⟨B, rfl⟩
    · right; exact ⟨[], rfl⟩
    · right; exact ⟨'/' :: B, rfl⟩
  | false =>
    refine ⟨A, by simp [render, hA], hA'⟩

theorem extAdj_snoc (xs : List Str) (l : Str) :
    extAdj (xs ++ [l]) = if '.' ∈ l then xs ++ [l] else xs ++ [l ++ arraiExt] := by
  unfold extAdj
  simp

/-- `fileValue`'s default extension is `extAdj` on the components (dot imports) -/
theorem fileName_clean_append_eq (base : Str) (ns : List Str) (hb : base ≠ []) (hne : ns ≠ [])
    (hn : ∀ c ∈ ns, Normal c) :
    fileName (clean (base ++ '/' :: joinSlash ns)) = clean (base ++ '/' :: joinSlash (extAdj ns)) ∧
    extAdj ns ≠ [] ∧ (∀ c ∈ extAdj ns, Normal c) := by
  obtain ⟨xs, l, rfl⟩ : ∃ xs l, ns = xs ++ [l] :=
    ⟨ns.dropLast, ns.getLast hne, (List.dropLast_concat_getLast hne).symm⟩
  have hl : Normal l := hn l (by simp)
  have hn' : ∀ c ∈ xs ++ [l ++ arraiExt], Normal c := by
    intro c hc
    simp at hc
    rcases hc with hc | rfl
    · exact hn c (by simp [hc])
    · exact normal_append_ext _ hl
  rw [extAdj_snoc]
  have hcl := clean_append_normal base (xs ++ [l]) hb hne hn
  obtain ⟨A, hA, hA'⟩ := render_last_split (isAbs base) (norm (isAbs base) (splitSlash base) ++ xs) l
  rw [List.append_assoc] at hA
  have hext := ext_append_last A l hl.2.2.2 hA'
  unfold fileName
  by_cases hdot : '.' ∈ l
  · have : ext (clean (base ++ '/' :: joinSlash (xs ++ [l]))) ≠ [] := by
      rw [hcl, hA]; exact fun e => (hext.1 e) hdot
    simp only [this, if_false, hdot, if_true]
    exact ⟨trivial, by simp, hn⟩
  · have : ext (clean (base ++ '/' :: joinSlash (xs ++ [l]))) = [] := by
      rw [hcl, hA]; exact hext.2 hdot
    simp only [this, if_true, hdot, if_false]
    refine ⟨?_, by simp, hn'⟩
    rw [clean_append_normal base _ hb (by simp) hn', hcl, ← List.append_assoc, render_append_last,
      List.append_assoc]

/-- …and for module-rooted imports -/
theorem fileName_append_eq (a : Str) (ms : List Str) (hne : ms ≠ []) (hn : ∀ c ∈ ms, Normal c) :
    fileName (a ++ '/' :: joinSlash ms) = a ++ '/' :: joinSlash (extAdj ms) ∧
    extAdj ms ≠ [] ∧ (∀ c ∈ extAdj ms, Normal c) := by
  obtain ⟨xs, l, rfl⟩ : ∃ xs l, ms = xs ++ [l] :=
    ⟨ms.dropLast, ms.getLast hne, (List.dropLast_concat_getLast hne).symm⟩
  have hl : Normal l := hn l (by simp)
  have hn' : ∀ c ∈ xs ++ [l ++ arraiExt], Normal c := by
    intro c hc
    simp at hc
    rcases hc with hc | rfl
    · exact hn c (by simp [hc])
    · exact normal_append_ext _ hl
  rw [extAdj_snoc]
  obtain ⟨A, hA, hA'⟩ := joinSlash_last_split xs l
  have hA2 : a ++ '/' :: joinSlash (xs ++ [l]) = (a ++ '/' :: A) ++ l := by rw [hA]; simp
  have hA2' : (a ++ '/' :: A) = [] ∨ ∃ B, (a ++ '/' :: A) = B ++ ['/'] := by
    right
    rcases hA' with rfl | ⟨B, rfl⟩
    · exact ⟨a, rfl⟩
    · exact ⟨a ++ '/' :: B, by simp⟩
  have hext := ext_append_last (a ++ '/' :: A) l hl.2.2.2 hA2'
  unfold fileName
  by_cases hdot : '.' ∈ l
  · have : ext (a ++ '/' :: joinSlash (xs ++ [l])) ≠ [] := by
      rw [hA2]; exact fun e => (hext.1 e) hdot
    simp only [this, if_false, hdot, if_true]
    exact ⟨trivial, by simp, hn⟩
  · have : ext (a ++ '/' :: joinSlash (xs ++ [l])) = [] := by
      rw [hA2]; exact hext.2 hdot
    simp only [this, if_true, hdot, if_false]
    refine ⟨?_, by simp, hn'⟩
    rw [← joinSlash_append_last]; simp

theorem localPath_root_rel (srcDir raw : Str) (fr : Bool) (ip : Str) (h : localPath srcDir false raw = .ok (fr, ip)) :
    ∃ ns, ns ≠ [] ∧ (∀ c ∈ ns, Normal c) ∧ ip = joinSlash ns ∧
      rootRel raw = .ok (extAdj (splitSlash (removeDDS (joinSlash ns)))) := by
  unfold localPath at h
  simp only [Bool.not_false, Bool.not_true, Bool.false_eq_true, if_false] at h
  split at h
  · cases h
  rename_i h1
  split at h
  · cases h
  split at h
  · cases h
  rename_i h3
  split at h
  · cases h
  injection h with h
  injection h with hfr hip
  have h1' : hasPrefix (trim ws raw) slash = true := by simpa using h1
  obtain ⟨rest, hname⟩ := hasPrefix_cons_slash _ h1'
  have habs : isAbs (trim ws raw) = true := by rw [hname, isAbs_cons]; simp
  have hn := norm_rooted_normal _ (splitSlash_noslash_mem (trim ws raw))
  rw [clean_abs _ habs] at h3 hip
  have hrr : rootRel raw = (if norm true (splitSlash (trim ws raw)) = [] then Except.error Err.noFile
      else Except.ok (extAdj (splitSlash (replaceAll (joinSlash (norm true (splitSlash (trim ws raw)))) ['.', '.', '/'] [])))) := by
    unfold rootRel
    simp [h1']
  generalize norm true (splitSlash (trim ws raw)) = ns at hn h3 hip hrr
  have hne : ns ≠ [] := by
    intro e; subst e
    apply h3
    left
    simp [render, joinSlash, trim, trimRight, trimLeft]
  refine ⟨ns, hne, hn, ?_, ?_⟩
  · simp only [render, if_true] at hip
    rw [trim_slash_render_true ns hne hn, clean_joinSlash_normal ns hne hn] at hip
    exact hip.symm
  · rw [hrr, if_neg hne, replaceAll_dds]

theorem localPath_dot_rel (srcDir raw : Str) (fr : Bool) (ip : Str) (h : localPath srcDir true raw = .ok (fr, ip)) :
    srcDir ≠ [] ∧ ∃ ns, ns ≠ [] ∧ (∀ c ∈ ns, Normal c) ∧ ip = clean (srcDir ++ '/' :: joinSlash ns) ∧
      dotRel raw = .ok (extAdj ns) := by
  unfold localPath at h
  simp only [Bool.not_false, Bool.not_true, if_true] at h
  split at h
  · cases h
  rename_i h1
  split at h
  · cases h
  rename_i h2
  split at h
  · cases h
  rename_i h3
  split at h
  · cases h
  rename_i h4
  injection h with h
  injection h with hfr hip
  have h1' : hasPrefix (trim ws raw) slash = true := by simpa using h1
  have habs : isAbs ('.' :: trim ws raw) = false := by rw [isAbs_cons]; simp
  rw [clean_rel _ habs] at h2 h3 hip
  have hdr : dotRel raw = (if hasPrefix (render false (norm false (splitSlash ('.' :: trim ws raw)))) dd = true
      then Except.error Err.outside
      else if norm false (splitSlash ('.' :: trim ws raw)) = [] then Except.error Err.noFile
      else Except.ok (extAdj (norm false (splitSlash ('.' :: trim ws raw))))) := by
    unfold dotRel
    simp [h1']
  have hsl := splitSlash_noslash_mem ('.' :: trim ws raw)
  have hrel := foldl_relOk (splitSlash ('.' :: trim ws raw)) [] ⟨[], 0, by simp, by simp⟩ hsl
  obtain ⟨ms, k, hst, hms⟩ := hrel
  have hcs : norm false (splitSlash ('.' :: trim ws raw)) = List.replicate k dd ++ ms.reverse := by
    simp [norm, hst]
  rw [hcs] at h2 h3 hip hdr
  have hk : k = 0 := by
    cases k with
    | zero => rfl
    | succ k =>
      exfalso
      apply h2
      have : render false (List.replicate (k + 1) dd ++ ms.reverse) = joinSlash (dd :: (List.replicate k dd ++ ms.reverse)) := by
        simp [render, List.replicate]
      rw [this, hasPrefix_joinSlash_dd]
  subst hk
  simp only [List.replicate, List.nil_append] at h2 h3 hip hdr
  have hn : ∀ c ∈ ms.reverse, Normal c := fun c hc => hms c (by simpa using hc)
  have hne : ms.reverse ≠ [] := by
    intro e
    apply h3
    right
    rw [e]
    simp [render, dot1, trim, trimRight, trimLeft]
  refine ⟨h4, ms.reverse, hne, hn, ?_, ?_⟩
  · have hr : render false ms.reverse = joinSlash ms.reverse := by simp [render, hne]
    rw [hr, trim_slash_joinSlash _ hne hn, join2 _ _ h4] at hip
    exact hip.symm
  · rw [hdr, if_neg h2, if_neg hne]

/-- `//{./raw}`: whenever the string-level pipeline resolves, the factored form `dotRel` gives the
components it appends to the source directory -/
theorem resolve_dot_rel (w : World) (srcDir raw f : Str) (h : resolve w srcDir true raw = .ok f) :
    ∃ ns, dotRel raw = .ok ns ∧ comps w.cwd f = comps w.cwd srcDir ++ ns := by
  unfold resolve at h
  split at h
  · cases h
  rename_i fr ip hl
  obtain ⟨hsd, ns, hne, hn, hip, hdr⟩ := localPath_dot_rel _ _ _ _ hl
  have hfr : fr = false := (localPath_dot _ _ _ _ hl).1
  subst hfr
  simp only [importLocalFile, Bool.false_eq_true, if_false] at h
  injection h with h
  obtain ⟨hf, hne', hn'⟩ := fileName_clean_append_eq srcDir ns hsd hne hn
  rw [hip, hf] at h
  refine ⟨extAdj ns, hdr, ?_⟩
  rw [← h, comps_clean, comps_append_normal _ _ _ hsd hne' hn']

/-- `//{raw}`: whenever the string-level pipeline resolves, `rootRel` gives the components it appends to
the module root -/
theorem resolve_root_rel (w : World) (srcDir raw f : Str) (h : resolve w srcDir false raw = .ok f) :
    ∃ ms root, rootRel raw = .ok ms ∧ findRoot w srcDir = some root ∧ comps w.cwd f = root ++ ms := by
  unfold resolve at h
  split at h
  · cases h
  rename_i fr ip hl
  obtain ⟨ns, hne, hn, hip, hrr⟩ := localPath_root_rel _ _ _ _ hl
  have hfr : fr = true := (localPath_root _ _ _ _ hl).1
  subst hfr
  simp only [importLocalFile, if_true] at h
  split at h
  · cases h
  rename_i root hroot
  injection h with h
  have hrel : hasPrefix ip slash = false := by
    rw [hip]
    cases ns with
    | nil => exact absurd rfl hne
    | cons c r =>
      have hc := hn c (by simp)
      exact isAbs_joinSlash c r hc.1 hc.2.2.2
  simp only [hrel, Bool.not_false, if_true, replaceAll_dds] at h
  have hms := removeDDS_normal ns hne hn
  have hj := joinSlash_splitSlash (removeDDS (joinSlash ns))
  rw [hip, ← hj] at h
  obtain ⟨hf, hne', hn'⟩ := fileName_append_eq (render true root) _ (splitSlash_ne_nil _) hms
  rw [hf] at h
  have hrn : ∀ c ∈ root, Normal c := by
    intro c hc
    exact comps_normal w.cwd srcDir c ((findRoot_prefix w srcDir root hroot).subset hc)
  refine ⟨_, root, hrr, hroot, ?_⟩
  rw [← h, comps_append_normal _ _ _ (render_true_ne_nil root) hne' hn',
    comps_abs _ _ (isAbs_render_true root), norm_split_render root hrn]

end Arrai.C16
