/-
  C16 — lemmas about the import cache and the compile-time recursion over an import graph.
-/
import Arrai.C16.Model

namespace Arrai.C16
open Impl Impl.Cache

variable {κ : Type} [DecidableEq κ]

/-! ## the cache as a finite map -/

theorem lookup_filter_ne (c : Cache κ) (k k' : κ) (h : k' ≠ k) :
    List.lookup k' (c.filter (fun p => !decide (p.1 = k))) = List.lookup k' c := by
  induction c with
  | nil => rfl
  | cons p c ih =>
    obtain ⟨a, v⟩ := p
    by_cases ha : a = k
    · subst ha
      have : (k' == a) = false := by simp [h]
      simp [List.lookup_cons, this, ih]
    · by_cases hk : k' = a
      · subst hk; simp [ha]
      · have : (k' == a) = false := by simp [hk]
        simp [ha, List.lookup_cons, this, ih]

theorem lookup_filter_same (c : Cache κ) (k : κ) :
    List.lookup k (c.filter (fun p => !decide (p.1 = k))) = none := by
  induction c with
  | nil => rfl
  | cons p c ih =>
    obtain ⟨a, v⟩ := p
    by_cases ha : a = k
    · subst ha; simp [ih]
    · have : (k == a) = false := by simp; exact fun e => ha e.symm
      simp [ha, List.lookup_cons, this, ih]

theorem get_set_same (c : Cache κ) (k : κ) (v : Option (Tree κ)) : Cache.get (Cache.set c k v) k = some v := by
  simp [Cache.get, Cache.set]

theorem get_set_other (c : Cache κ) (k k' : κ) (v : Option (Tree κ)) (h : k' ≠ k) :
    Cache.get (Cache.set c k v) k' = Cache.get c k' := by
  have : (k' == k) = false := by simp [h]
  simp [Cache.get, Cache.set, Cache.del, List.lookup_cons, this, lookup_filter_ne c k k' h]

theorem get_del_same (c : Cache κ) (k : κ) : Cache.get (Cache.del c k) k = none := by
  simp [Cache.get, Cache.del, lookup_filter_same]

theorem get_del_other (c : Cache κ) (k k' : κ) (h : k' ≠ k) : Cache.get (Cache.del c k) k' = Cache.get c k' := by
  simp [Cache.get, Cache.del, lookup_filter_ne c k k' h]

/-! ## the unfolding relation: the recursive definition of "compile k" -/
mutual
inductive Unfolds (g : Graph κ) : κ → Tree κ → Prop
  | node (k : κ) (imps : List (Option κ)) (ts : List (Tree κ)) :
      Graph.lookup g k = some imps → UnfoldsL g imps ts → Unfolds g k (.node k ts)
inductive UnfoldsL (g : Graph κ) : List (Option κ) → List (Tree κ) → Prop
  | nil : UnfoldsL g [] []
  | cons (k : κ) (t : Tree κ) (r : List (Option κ)) (ts : List (Tree κ)) :
      Unfolds g k t → UnfoldsL g r ts → UnfoldsL g (some k :: r) (t :: ts)
end

def Graph.keys (g : Graph κ) : List κ := g.files.map (·.1)

theorem lookup_mem_keys (l : List (κ × List (Option κ))) (k : κ) (v : List (Option κ))
    (h : List.lookup k l = some v) : k ∈ l.map (·.1) ∧ (k, v) ∈ l := by
  induction l with
  | nil => simp at h
  | cons p l ih =>
    obtain ⟨a, w⟩ := p
    by_cases hk : k = a
    · subst hk
      simp at h
      simp [h]
    · have : (k == a) = false := by simp [hk]
      simp [List.lookup_cons, this] at h
      have := ih h
      simp [this.1, this.2]

/-- every import of every script resolves to a script that exists -/
def Closed (g : Graph κ) : Prop :=
  ∀ k imps, Graph.lookup g k = some imps → ∀ o ∈ imps, ∃ k', o = some k' ∧ Graph.lookup g k' ≠ none

/-- `rank` strictly decreases along every import edge: the graph is acyclic -/
def Ranked (g : Graph κ) (rank : κ → Nat) : Prop :=
  ∀ k imps, Graph.lookup g k = some imps → ∀ k', some k' ∈ imps → rank k' < rank k

/-! ## invariants of the recursion -/

structure Inv (g : Graph κ) (chain : List κ) (c : Cache κ) : Prop where
  inflight : ∀ k, Cache.get c k = some none → k ∈ chain
  sound : ∀ k t, Cache.get c k = some (some t) → Unfolds g k t

/-- what one `importFile` call guarantees about its result -/
structure Post (g : Graph κ) (rank : κ → Nat) (chain : List κ) (k : κ) (r : Except Fail (Tree κ)) : Prop where
  noHang : r ≠ .error .hang
  noFuel : r ≠ .error .fuel
  sound : ∀ t, r = .ok t → Unfolds g k t
  kinds : ∀ e, r = .error (.err e) → e = .notFound ∨ e = .importCycle
  closed : Closed g → Graph.lookup g k ≠ none → r ≠ .error (.err .notFound)
  dag : Ranked g rank → (∀ a ∈ chain, rank k < rank a) → r ≠ .error (.err .importCycle)

structure PostL (g : Graph κ) (rank : κ → Nat) (chain : List κ) (imps : List (Option κ))
    (r : Except Fail (List (Tree κ))) : Prop where
  noHang : r ≠ .error .hang
  noFuel : r ≠ .error .fuel
  sound : ∀ ts, r = .ok ts → UnfoldsL g imps ts
  kinds : ∀ e, r = .error (.err e) → e = .notFound ∨ e = .importCycle
  closed : Closed g → (∀ o ∈ imps, ∃ k', o = some k' ∧ Graph.lookup g k' ≠ none) → r ≠ .error (.err .notFound)
  dag : Ranked g rank → (∀ k', some k' ∈ imps → ∀ a ∈ chain, rank k' < rank a) → r ≠ .error (.err .importCycle)

/-- the list recursion, given the guarantee for single imports -/
theorem compileImports_spec (g : Graph κ) (rank : κ → Nat) (chain : List κ)
    (rec : Cache κ → κ → Res κ (Tree κ))
    (hrec : ∀ c k, Inv g chain c → Inv g chain (rec c k).2 ∧ Post g rank chain k (rec c k).1)
    (imps : List (Option κ)) : ∀ c, Inv g chain c →
      Inv g chain (compileImports rec c imps).2 ∧ PostL g rank chain imps (compileImports rec c imps).1 := by
  induction imps with
  | nil =>
    intro c hc
    refine ⟨hc, ⟨by simp [compileImports], by simp [compileImports], ?_, by simp [compileImports],
      by simp [compileImports], by simp [compileImports]⟩⟩
    intro ts h
    simp [compileImports] at h
    subst h
    exact .nil
  | cons o imps ih =>
    intro c hc
    cases o with
    | none =>
      refine ⟨hc, ⟨by simp [compileImports], by simp [compileImports], by simp [compileImports], ?_, ?_,
        by simp [compileImports]⟩⟩
      · intro e h
        simp [compileImports] at h
        exact Or.inl h.symm
      · intro _ hall
        obtain ⟨k', hk', _⟩ := hall none (by simp)
        cases hk'
    | some k =>
      obtain ⟨hinv1, hpost1⟩ := hrec c k hc
      simp only [compileImports]
      cases h1 : rec c k with
      | mk r1 c1 =>
        rw [h1] at hinv1 hpost1
        cases r1 with
        | error f =>
          simp only
          refine ⟨hinv1, ⟨?_, ?_, ?_, ?_, ?_, ?_⟩⟩
          · intro h; injection h with h; exact hpost1.noHang (by rw [h])
          · intro h; injection h with h; exact hpost1.noFuel (by rw [h])
          · intro ts h; cases h
          · intro e h; injection h with h; exact hpost1.kinds e (by rw [h])
          · intro hcl hall h
            injection h with h
            obtain ⟨k', hk', hex⟩ := hall (some k) (by simp)
            injection hk' with hk'
            subst hk'
            exact hpost1.closed hcl hex (by rw [h])
          · intro hr hall h
            injection h with h
            exact hpost1.dag hr (hall k (by simp)) (by rw [h])
        | ok t =>
          simp only
          obtain ⟨hinv2, hpost2⟩ := ih c1 hinv1
          cases h2 : compileImports rec c1 imps with
          | mk r2 c2 =>
            rw [h2] at hinv2 hpost2
            cases r2 with
            | error f =>
              simp only
              refine ⟨hinv2, ⟨?_, ?_, ?_, ?_, ?_, ?_⟩⟩
              · intro h; injection h with h; exact hpost2.noHang (by rw [h])
              · intro h; injection h with h; exact hpost2.noFuel (by rw [h])
              · intro ts h; cases h
              · intro e h; injection h with h; exact hpost2.kinds e (by rw [h])
              · intro hcl hall h
                injection h with h
                exact hpost2.closed hcl (fun o ho => hall o (by simp [ho])) (by rw [h])
              · intro hr hall h
                injection h with h
                exact hpost2.dag hr (fun k' hk' => hall k' (by simp [hk'])) (by rw [h])
            | ok ts =>
              simp only
              refine ⟨hinv2, ⟨by simp, by simp, ?_, by simp, by simp, by simp⟩⟩
              intro ts' h
              injection h with h
              subst h
              exact .cons k t imps ts (hpost1.sound t rfl) (hpost2.sound ts rfl)

omit [DecidableEq κ] in
theorem keys_length (g : Graph κ) : (Graph.keys g).length = g.files.length := by simp [Graph.keys]

theorem lookup_keys (g : Graph κ) (k : κ) (imps : List (Option κ)) (h : Graph.lookup g k = some imps) :
    k ∈ Graph.keys g := (lookup_mem_keys g.files k imps h).1

theorem inv_set_inflight (g : Graph κ) (chain : List κ) (c : Cache κ) (k : κ) (hc : Inv g chain c)
    (hk : Cache.get c k = none) : Inv g (k :: chain) (Cache.set c k none) := by
  constructor
  · intro k' h
    by_cases e : k' = k
    · simp [e]
    · rw [get_set_other c k k' none e] at h
      exact List.mem_cons_of_mem _ (hc.inflight k' h)
  · intro k' t h
    by_cases e : k' = k
    · subst e; rw [get_set_same] at h; cases h
    · rw [get_set_other c k k' none e] at h
      exact hc.sound k' t h

theorem inv_set_done (g : Graph κ) (chain : List κ) (c2 : Cache κ) (k : κ) (t : Tree κ)
    (hc : Inv g (k :: chain) c2) (ht : Unfolds g k t) : Inv g chain (Cache.set c2 k (some t)) := by
  constructor
  · intro k' h
    by_cases e : k' = k
    · subst e; rw [get_set_same] at h; cases h
    · rw [get_set_other c2 k k' _ e] at h
      have := hc.inflight k' h
      simp [e] at this
      exact this
  · intro k' t' h
    by_cases e : k' = k
    · subst e; rw [get_set_same] at h
      injection h with h; injection h with h
      subst h; exact ht
    · rw [get_set_other c2 k k' _ e] at h
      exact hc.sound k' t' h

theorem inv_del (g : Graph κ) (chain : List κ) (c2 : Cache κ) (k : κ)
    (hc : Inv g (k :: chain) c2) : Inv g chain (Cache.del c2 k) := by
  constructor
  · intro k' h
    by_cases e : k' = k
    · subst e; rw [get_del_same] at h; cases h
    · rw [get_del_other c2 k k' e] at h
      have := hc.inflight k' h
      simp [e] at this
      exact this
  · intro k' t' h
    by_cases e : k' = k
    · subst e; rw [get_del_same] at h; cases h
    · rw [get_del_other c2 k k' e] at h
      exact hc.sound k' t' h

/-- the guarantee of one `importFile` call, by induction on the fuel -/
theorem importFile_spec (g : Graph κ) (rank : κ → Nat) : ∀ fuel chain c k,
    Inv g chain c → chain.Nodup → (∀ a ∈ chain, a ∈ Graph.keys g) →
    (Graph.keys g).length + 1 ≤ chain.length + fuel →
    Inv g chain (importFile g fuel chain c k).2 ∧ Post g rank chain k (importFile g fuel chain c k).1 := by
  intro fuel
  induction fuel with
  | zero =>
    intro chain c k _ hnd hsub hb
    have := List.Nodup.length_le_of_subset hnd (fun a ha => hsub a ha)
    omega
  | succ fuel ih =>
    intro chain c k hc hnd hsub hb
    simp only [importFile]
    cases hl : Graph.lookup g k with
    | none =>
      simp only
      refine ⟨hc, ⟨by simp, by simp, by simp, ?_, ?_, by simp⟩⟩
      · intro e h; injection h with h; injection h with h; exact Or.inl h.symm
      · intro _ hne; exact absurd hl hne
    | some imps =>
      simp only
      by_cases hk : k ∈ chain
      · simp only [hk, if_true]
        refine ⟨hc, ⟨by simp, by simp, by simp, ?_, by simp, ?_⟩⟩
        · intro e h; injection h with h; injection h with h; exact Or.inr h.symm
        · intro _ hall _
          exact absurd (hall k hk) (Nat.lt_irrefl _)
      · simp only [hk, if_false]
        simp only [getOrAdd]
        cases hg : Cache.get c k with
        | some o =>
          cases o with
          | some v =>
            simp only
            exact ⟨hc, ⟨by simp, by simp, fun t h => by
              injection h with h; subst h; exact hc.sound k v hg, by simp, by simp, by simp⟩⟩
          | none => exact absurd (hc.inflight k hg) hk
        | none =>
          simp only
          have hkeys : k ∈ Graph.keys g := lookup_keys g k imps hl
          have hinv1 := inv_set_inflight g chain c k hc hg
          have hrec : ∀ c' k', Inv g (k :: chain) c' →
              Inv g (k :: chain) (importFile g fuel (k :: chain) c' k').2 ∧
              Post g rank (k :: chain) k' (importFile g fuel (k :: chain) c' k').1 := by
            intro c' k' hc'
            refine ih (k :: chain) c' k' hc' (List.nodup_cons.2 ⟨hk, hnd⟩) ?_ ?_
            · intro a ha
              simp at ha
              rcases ha with rfl | ha
              · exact hkeys
              · exact hsub a ha
            · simp only [List.length_cons]; omega
          obtain ⟨hinv2, hpost2⟩ := compileImports_spec g rank (k :: chain) _ hrec imps _ hinv1
          cases h2 : compileImports (importFile g fuel (k :: chain)) (Cache.set c k none) imps with
          | mk r2 c2 =>
            rw [h2] at hinv2 hpost2
            cases r2 with
            | ok ts =>
              simp only
              have hu : Unfolds g k (.node k ts) := .node k imps ts hl (hpost2.sound ts rfl)
              refine ⟨inv_set_done g chain c2 k _ hinv2 hu, ⟨by simp, by simp, ?_, by simp, by simp, by simp⟩⟩
              intro t h; injection h with h; subst h; exact hu
            | error f =>
              simp only
              refine ⟨inv_del g chain c2 k hinv2, ⟨?_, ?_, by simp, ?_, ?_, ?_⟩⟩
              · intro h; injection h with h; exact hpost2.noHang (by rw [h])
              · intro h; injection h with h; exact hpost2.noFuel (by rw [h])
              · intro e h; injection h with h; exact hpost2.kinds e (by rw [h])
              · intro hcl _ h
                injection h with h
                exact hpost2.closed hcl (hcl k imps hl) (by rw [h])
              · intro hr hall h
                injection h with h
                refine hpost2.dag hr ?_ (by rw [h])
                intro k' hk' a ha
                have h1 : rank k' < rank k := hr k imps hl k' hk'
                simp at ha
                rcases ha with rfl | ha
                · exact h1
                · exact Nat.lt_trans h1 (hall a ha)

/-- the guarantee for a main script -/
theorem compileMain_spec (g : Graph κ) (rank : κ → Nat) (imps : List (Option κ)) :
    PostL g rank [] imps (compileMain g imps) := by
  have hrec : ∀ c k, Inv g [] c →
      Inv g [] (importFile g (g.files.length + 1) [] c k).2 ∧
      Post g rank [] k (importFile g (g.files.length + 1) [] c k).1 := by
    intro c k hc
    exact importFile_spec g rank _ [] c k hc List.nodup_nil (by simp) (by simp [keys_length])
  have hinv : Inv g [] ([] : Cache κ) := ⟨by simp [Cache.get], by simp [Cache.get]⟩
  exact (compileImports_spec g rank [] _ hrec imps [] hinv).2

/-! ## a finite unfolding rules out reachable cycles -/

mutual
def Tree.size : Tree κ → Nat
  | .node _ kids => 1 + Tree.sizeL kids
def Tree.sizeL : List (Tree κ) → Nat
  | [] => 0
  | t :: r => Tree.size t + Tree.sizeL r
end

/-- `b` is imported by `a` -/
def Edge (g : Graph κ) (a b : κ) : Prop := ∃ imps, Graph.lookup g a = some imps ∧ some b ∈ imps

inductive Reach (g : Graph κ) : κ → κ → Prop
  | refl (a : κ) : Reach g a a
  | step (a b c : κ) : Edge g a b → Reach g b c → Reach g a c

theorem unfoldsL_mem (g : Graph κ) (imps : List (Option κ)) (ts : List (Tree κ)) (h : UnfoldsL g imps ts)
    (k' : κ) (hk : some k' ∈ imps) : ∃ t', Unfolds g k' t' ∧ Tree.size t' ≤ Tree.sizeL ts := by
  induction imps generalizing ts with
  | nil => simp at hk
  | cons o imps ih =>
    cases h with
    | cons k t r ts' h1 h2 =>
      simp at hk
      rcases hk with rfl | hk
      · exact ⟨t, h1, by simp [Tree.sizeL]⟩
      · obtain ⟨t', ht', hs⟩ := ih ts' h2 hk
        exact ⟨t', ht', by simp [Tree.sizeL]; omega⟩

theorem unfolds_edge (g : Graph κ) (k k' : κ) (t : Tree κ) (h : Unfolds g k t) (he : Edge g k k') :
    ∃ t', Unfolds g k' t' ∧ Tree.size t' < Tree.size t := by
  obtain ⟨imps, hl, hm⟩ := he
  cases h with
  | node _ imps' ts hl' hu =>
    rw [hl] at hl'
    injection hl' with hl'
    subst hl'
    obtain ⟨t', ht', hs⟩ := unfoldsL_mem g imps ts hu k' hm
    exact ⟨t', ht', by simp [Tree.size]; omega⟩

theorem unfolds_reach (g : Graph κ) (a b : κ) (hr : Reach g a b) :
    ∀ t, Unfolds g a t → ∃ t', Unfolds g b t' ∧ Tree.size t' ≤ Tree.size t := by
  induction hr with
  | refl a => intro t h; exact ⟨t, h, Nat.le_refl _⟩
  | step a b c he _ ih =>
    intro t h
    obtain ⟨t1, h1, hs1⟩ := unfolds_edge g a b t h he
    obtain ⟨t2, h2, hs2⟩ := ih t1 h1
    exact ⟨t2, h2, by omega⟩

/-- a script on an import cycle has no finite unfolding -/
theorem no_unfold_on_cycle (g : Graph κ) (k k' : κ) (he : Edge g k k') (hr : Reach g k' k) :
    ∀ n t, Tree.size t = n → ¬ Unfolds g k t := by
  intro n
  induction n using Nat.strongRecOn with
  | _ n ih =>
    intro t hs hu
    obtain ⟨t1, h1, hs1⟩ := unfolds_edge g k k' t hu he
    obtain ⟨t2, h2, hs2⟩ := unfolds_reach g k' k hr t1 h1
    exact ih (Tree.size t2) (by omega) t2 rfl h2

end Arrai.C16
