/-
  C16 — local imports stay inside the module, are consistent, and cycles fail fast.

  `Impl.Strs`  : Go `strings.HasPrefix/TrimPrefix/Trim/ReplaceAll`, literally, on rune lists.
  `Impl.Path`  : `path.Clean`, `filepath.Join/Dir/Base/Ext/Abs` by their *documented* meaning on path
                 components (split on '/', drop empty and "." components, cancel "x/..", drop leading
                 ".." of rooted paths, "." for empty) — DESIGN §3.3; agreement with Go's byte loop is
                 checked on every generated string by the `pathfn` harness operation.
  `Impl`       : the pipeline compilePackage → importLocalFile → findRootFromModule → fileValue of
                 syntax/compile.go + syntax/import.go (as repaired), and `Unrepaired.*`, the same
                 pipeline as it was before the repairs.
  `Impl.Cache` : pkg/importcache `getOrAdd` / `GetOrAddFromCacheCtx` for one goroutine, and the
                 compile-time recursion bytesValue → Compile → compilePackage over an import graph.
  Core-only.
-/
import Arrai.Core.Canon

namespace Arrai.C16

/-- Go strings are modelled as rune lists (kernel-friendly). -/
abbrev Str := List Char

def dd : Str := ['.', '.']
def dot1 : Str := ['.']
def slash : Str := ['/']
/-- the cut set of `strings.Trim(importPath, " \t\n")` -/
def ws : List Char := [' ', '\t', '\n']
def arraiExt : Str := ".arrai".toList
def sentinel : Str := "go.mod".toList

namespace Impl

/-! ## strings.* -/
namespace Strs

/-- `strings.HasPrefix(s, p)` -/
def hasPrefix : Str → Str → Bool
  | _, [] => true
  | [], _ :: _ => false
  | c :: s, d :: p => if c = d then hasPrefix s p else false

/-- `strings.TrimPrefix(s, p)` -/
def trimPrefix (s p : Str) : Str := if hasPrefix s p then s.drop p.length else s

/-- `strings.TrimLeft(s, cutset)` -/
def trimLeft (cut : List Char) : Str → Str
  | [] => []
  | c :: r => if c ∈ cut then trimLeft cut r else c :: r

/-- `strings.TrimRight(s, cutset)` -/
def trimRight (cut : List Char) (s : Str) : Str := (trimLeft cut s.reverse).reverse

/-- `strings.Trim(s, cutset)` -/
def trim (cut : List Char) (s : Str) : Str := trimRight cut (trimLeft cut s)

/-- the scan of `strings.ReplaceAll(s, old, new)` for a non-empty `old`: leftmost, non-overlapping
(`skip` = runes of the current match still to be consumed) -/
def replaceGo (old new : Str) : Nat → Str → Str
  | _, [] => []
  | skip + 1, _ :: r => replaceGo old new skip r
  | 0, c :: r =>
    if hasPrefix (c :: r) old then new ++ replaceGo old new (old.length - 1) r
    else c :: replaceGo old new 0 r

/-- `strings.ReplaceAll(s, old, new)`; only used with a non-empty `old` -/
def replaceAll (s old new : Str) : Str := if old = [] then s else replaceGo old new 0 s

end Strs

/-! ## path / filepath (unix) on components -/
namespace Path

def isAbs (s : Str) : Bool := Strs.hasPrefix s slash

/-- `strings.Split(s, "/")` -/
def splitSlash : Str → List Str
  | [] => [[]]
  | c :: r =>
    if c = '/' then [] :: splitSlash r
    else match splitSlash r with
      | h :: t => (c :: h) :: t
      | [] => [[c]]

/-- `strings.Join(cs, "/")` -/
def joinSlash : List Str → Str
  | [] => []
  | [c] => c
  | c :: d :: r => c ++ '/' :: joinSlash (d :: r)

/-- one step of the lexical normalisation; `st` is the stack of kept components, top first -/
def normStep (rooted : Bool) (st : List Str) (c : Str) : List Str :=
  if c = [] ∨ c = dot1 then st
  else if c = dd then
    match st with
    | [] => if rooted then [] else [dd]
    | top :: rest => if top = dd then dd :: top :: rest else rest
  else c :: st

/-- the normal form of a component list -/
def norm (rooted : Bool) (cs : List Str) : List Str := (cs.foldl (normStep rooted) []).reverse

/-- render a normal form -/
def render (rooted : Bool) (cs : List Str) : Str :=
  if rooted then '/' :: joinSlash cs else if cs = [] then dot1 else joinSlash cs

/-- `path.Clean` = `filepath.Clean` (unix) -/
def clean (s : Str) : Str := render (isAbs s) (norm (isAbs s) (splitSlash s))

/-- `filepath.Join(elems...)`: empty leading elements are ignored, the rest is joined and cleaned -/
def join : List Str → Str
  | [] => []
  | e :: r => if e = [] then join r else clean (joinSlash (e :: r))

/-- `filepath.Dir`: everything up to and including the last separator, cleaned -/
def dir (s : Str) : Str := clean (s.reverse.dropWhile (· ≠ '/')).reverse

/-- `filepath.Base` -/
def base (s : Str) : Str :=
  if s = [] then dot1
  else
    let b := ((s.reverse.dropWhile (· = '/')).takeWhile (· ≠ '/')).reverse
    if b = [] then slash else b

/-- `filepath.Ext`: the suffix of the last element starting at its last dot -/
def ext (s : Str) : Str :=
  let last := s.reverse.takeWhile (· ≠ '/')
  if '.' ∈ last then '.' :: (last.takeWhile (· ≠ '.')).reverse else []

/-- `filepath.Abs` relative to an explicit working directory -/
def abs (cwd p : Str) : Str := if isAbs p then clean p else join [cwd, p]

/-- Spec-level denotation of a path string: the components of the file the operating system (or an
afero file system) opens for it, given the working directory -/
def comps (cwd s : Str) : List Str :=
  norm true (splitSlash (if isAbs s then s else cwd ++ '/' :: s))

end Path

open Strs Path

/-! ## the world: working directory and the files that exist -/
structure World where
  cwd : Str
  /-- cleaned absolute component lists of the regular files -/
  files : List (List Str)

def World.fileExists (w : World) (cs : List Str) : Bool := decide (cs ∈ w.files)

/-- the loop of `findRootFromModule` on the components of the current path (`up` is reversed):
look for the sentinel, stop at the system root, otherwise continue with `filepath.Dir` -/
def findRootUp (w : World) : List Str → Option (List Str)
  | [] => if w.fileExists [sentinel] then some [] else none
  | c :: up =>
    if w.fileExists ((c :: up).reverse ++ [sentinel]) then some (c :: up).reverse
    else findRootUp w up

/-- `findRootFromModule(ctx, modulePath)` (the root cache only memoises this function) -/
def findRoot (w : World) (modulePath : Str) : Option (List Str) :=
  findRootUp w (comps w.cwd modulePath).reverse

inductive Err
  | external      -- not a local import (outside this model)
  | outside       -- "import path can not be pointing outside of the script's module directory"
  | noFile        -- "local import does not name a file"
  | noContext     -- "no local context"
  | noModule      -- errModuleNotExist
  | notFound      -- the file system has no such file
  | importCycle
  deriving DecidableEq, Repr

/-- `fileValue`: the default extension -/
def fileName (p : Str) : Str := if ext p = [] then p ++ arraiExt else p

/-- `compilePackage` for a PKGPATH `raw`, up to the call of `importLocalFile`:
returns `(fromRoot, importPath)` -/
def localPath (srcDir : Str) (dot : Bool) (raw : Str) : Except Err (Bool × Str) :=
  let name := trim ws raw
  if !hasPrefix name slash then .error .external
  else
    let fromRoot := !dot
    let name := if !fromRoot then '.' :: name else name
    let name := clean name
    if hasPrefix name dd then .error .outside
    else
      let filePath := trim ['/'] name
      if filePath = [] ∨ filePath = dot1 then .error .noFile
      else if srcDir = [] then .error .noContext
      else
        let importPath := clean filePath
        let importPath := if !fromRoot then join [srcDir, filePath] else importPath
        .ok (fromRoot, importPath)

/-- `importLocalFile` → `fileValue`: the file name handed to `afero.ReadFile` (and, for scripts,
the key of the import cache) -/
def importLocalFile (w : World) (fromRoot : Bool) (importPath srcDir : Str) : Except Err Str :=
  if fromRoot then
    match findRoot w srcDir with
    | none => .error .noModule
    | some root =>
      let rootPath := render true root
      let importPath :=
        if !hasPrefix importPath slash then rootPath ++ '/' :: replaceAll importPath ['.', '.', '/'] []
        else importPath
      .ok (fileName importPath)
  else .ok (fileName importPath)

/-- the whole pipeline for `//{.raw}` (`dot`) or `//{raw}` in a script whose `SourceDir` is `srcDir` -/
def resolve (w : World) (srcDir : Str) (dot : Bool) (raw : Str) : Except Err Str :=
  match localPath srcDir dot raw with
  | .error e => .error e
  | .ok (fromRoot, importPath) => importLocalFile w fromRoot importPath srcDir

/-! ### the same pipeline, factored: which components does an import append to its base directory?
(`Lemmas.resolve_dot_rel` / `resolve_root_rel`: whenever `resolve` succeeds, the file it names is the base
directory followed by exactly these components; the failure cases are tied by the correspondence runs.) -/

/-- `fileValue`'s default extension, on the last component -/
def extAdj (ns : List Str) : List Str :=
  match ns.reverse with
  | [] => []
  | l :: up => if '.' ∈ l then ns else ((l ++ arraiExt) :: up).reverse

/-- the components `//{.raw}` appends to the source directory -/
def dotRel (raw : Str) : Except Err (List Str) :=
  let name := trim ws raw
  if !hasPrefix name slash then .error .external
  else
    let cs := norm false (splitSlash ('.' :: name))
    if hasPrefix (render false cs) dd then .error .outside
    else if cs = [] then .error .noFile
    else .ok (extAdj cs)

/-- the components `//{raw}` appends to the module root -/
def rootRel (raw : Str) : Except Err (List Str) :=
  let name := trim ws raw
  if !hasPrefix name slash then .error .external
  else
    let cs := norm true (splitSlash name)
    if cs = [] then .error .noFile
    else .ok (extAdj (splitSlash (replaceAll (joinSlash cs) ['.', '.', '/'] [])))

/-- `Compile(ctx, filePath, source)`: the `SourceDir` of a script -/
def sourceDir (filePath : Str) : Str := if filePath = [] then dot1 else dir filePath

end Impl

/-! ## the pipeline before the repairs (kept to state what was wrong) -/
namespace Unrepaired
open Impl Impl.Strs Impl.Path

def localPath (srcDir : Str) (dot : Bool) (raw : Str) : Except Err (Bool × Str) :=
  let name := raw
  if !hasPrefix name slash then .error .external
  else
    let fromRoot := !dot
    let name := if !fromRoot then '.' :: name else name
    let name := clean name
    if hasPrefix name dd then .error .outside
    else
      let filePath := trim ['/'] name
      if srcDir = [] then .error .noContext
      else
        let importPath := clean filePath
        let importPath := if !fromRoot then join [srcDir, filePath] else importPath
        .ok (fromRoot, importPath)

def importLocalFile (w : World) (fromRoot : Bool) (importPath srcDir : Str) : Except Err Str :=
  let importPath := trim ws importPath
  if fromRoot then
    match findRoot w srcDir with
    | none => .error .noModule
    | some root =>
      let rootPath := render true root
      let importPath :=
        if !hasPrefix importPath slash then rootPath ++ '/' :: replaceAll importPath ['.', '.', '/'] []
        else importPath
      .ok (fileName importPath)
  else .ok (fileName importPath)

def resolve (w : World) (srcDir : Str) (dot : Bool) (raw : Str) : Except Err Str :=
  match localPath srcDir dot raw with
  | .error e => .error e
  | .ok (fromRoot, importPath) => importLocalFile w fromRoot importPath srcDir

end Unrepaired

/-! ## Spec -/
namespace Spec
/-- `Under root p`: component-wise prefix on cleaned absolute paths -/
def Under (root p : List Str) : Prop := root <+: p

instance (root p : List Str) : Decidable (Under root p) := by unfold Under; infer_instance

/-- a component that survives normalisation unchanged -/
def Normal (c : Str) : Prop := c ≠ [] ∧ c ≠ dot1 ∧ c ≠ dd ∧ '/' ∉ c

instance (c : Str) : Decidable (Normal c) := by unfold Normal; infer_instance
end Spec

/-! ## the import cache and the compile-time recursion over an import graph -/

/-- the compiled form of a script: its key and the compiled forms of its imports, in order -/
inductive Tree (κ : Type) where
  | node (k : κ) (kids : List (Tree κ))

inductive Fail where
  | err (e : Impl.Err)
  | hang          -- `cond.Wait()` with nobody left to `Broadcast`
  | fuel          -- model artefact; proved unreachable
  deriving DecidableEq

/-- an import graph: the scripts that exist, each with the cache keys its imports resolve to, in
source order (`none`: the import does not resolve, or names a file that does not exist) -/
structure Graph (κ : Type) where
  files : List (κ × List (Option κ))

namespace Impl.Cache
variable {κ : Type} [DecidableEq κ]

def Graph.lookup (g : Graph κ) (k : κ) : Option (List (Option κ)) := (g.files.lookup k)

/-- `map[string]rel.Expr`; value `none` is the `nil` "somebody is adding it" marker -/
abbrev Cache (κ : Type) := List (κ × Option (Tree κ))

def Cache.get (c : Cache κ) (k : κ) : Option (Option (Tree κ)) := c.lookup k
def Cache.del (c : Cache κ) (k : κ) : Cache κ := c.filter (fun p => !decide (p.1 = k))
def Cache.set (c : Cache κ) (k : κ) (v : Option (Tree κ)) : Cache κ := (k, v) :: Cache.del c k

abbrev Res (κ : Type) (α : Type) := Except Fail α × Cache κ

/-- `(*importCache).getOrAdd(key, add)` as seen by a single goroutine. `add` runs with the lock
released and may use (and change) the cache. -/
def getOrAdd (c : Cache κ) (key : κ) (add : Cache κ → Res κ (Tree κ)) : Res κ (Tree κ) :=
  match Cache.get c key with
  | some (some v) => (.ok v, c)
  | some none => (.error .hang, c)
  | none =>
    match add (Cache.set c key none) with
    | (.ok v, c2) => (.ok v, Cache.set c2 key (some v))
    | (.error f, c2) => (.error f, Cache.del c2 key)

/-- the imports of one script are compiled in source order; the first failure aborts -/
def compileImports (rec : Cache κ → κ → Res κ (Tree κ)) : Cache κ → List (Option κ) → Res κ (List (Tree κ))
  | c, [] => (.ok [], c)
  | c, none :: _ => (.error (.err .notFound), c)
  | c, some k :: r =>
    match rec c k with
    | (.error f, c1) => (.error f, c1)
    | (.ok t, c1) =>
      match compileImports rec c1 r with
      | (.ok ts, c2) => (.ok (t :: ts), c2)
      | (.error f, c2) => (.error f, c2)

/-- `fileValue` → `bytesValue` → `GetOrAddFromCacheCtx` → `Compile` for the script with key `k`;
`chain` = the keys in flight along this call chain (carried in the context) -/
def importFile (g : Graph κ) : Nat → List κ → Cache κ → κ → Res κ (Tree κ)
  | 0, _, c, _ => (.error .fuel, c)
  | fuel + 1, chain, c, k =>
    match Graph.lookup g k with
    | none => (.error (.err .notFound), c)
    | some imps =>
      if k ∈ chain then (.error (.err .importCycle), c)
      else getOrAdd c k (fun c1 =>
        match compileImports (importFile g fuel (k :: chain)) c1 imps with
        | (.ok ts, c2) => (.ok (.node k ts), c2)
        | (.error f, c2) => (.error f, c2))

/-- compile a main script (which is itself neither cached nor in the chain) with imports `imps` -/
def compileMain (g : Graph κ) (imps : List (Option κ)) : Except Fail (List (Tree κ)) :=
  (compileImports (importFile g (g.files.length + 1) []) [] imps).1

/-- before the repair: no chain, so a key in flight is waited for -/
def importFileU (g : Graph κ) : Nat → Cache κ → κ → Res κ (Tree κ)
  | 0, c, _ => (.error .fuel, c)
  | fuel + 1, c, k =>
    match Graph.lookup g k with
    | none => (.error (.err .notFound), c)
    | some imps =>
      getOrAdd c k (fun c1 =>
        match compileImports (importFileU g fuel) c1 imps with
        | (.ok ts, c2) => (.ok (.node k ts), c2)
        | (.error f, c2) => (.error f, c2))

def compileMainU (g : Graph κ) (imps : List (Option κ)) : Except Fail (List (Tree κ)) :=
  (compileImports (importFileU g (g.files.length + 1)) [] imps).1

end Impl.Cache

/-! ## Spec for graphs: the unfolding -/
namespace Spec
variable {κ : Type} [DecidableEq κ]
open Impl.Cache

/-- the recursive definition of "compile `k`": no cache, no chain -/
def unfold (g : Graph κ) : Nat → κ → Option (Tree κ)
  | 0, _ => none
  | fuel + 1, k =>
    match Graph.lookup g k with
    | none => none
    | some imps =>
      (imps.mapM (fun o => match o with | none => none | some k' => unfold g fuel k')).map (Tree.node k)

end Spec

end Arrai.C16
