import Arrai.Core.DriverMain
import Arrai.C09.Gen

def main (args : List String) : IO UInt32 := Arrai.driverMain Arrai.C09.gen args
