/-
  C09: the transliterated Go matcher (`Impl.bind`) computes `Spec.bind` on supported patterns.
  The loop lemmas take the equality for the component patterns as a hypothesis (`hsub`);
  `impl_eq` at the end ties the knot by structural recursion on the pattern.
-/
import Arrai.C09.Lemmas

namespace Arrai.C09
open Arrai

/-- the component patterns are already known to be handled as specified -/
def SubOK (ρ : Env) (p : Pat) : Prop := ∀ w, Impl.bind ρ p w = Res.ofOption (Spec.bind ρ p w)

@[simp] theorem ofOption_some {α} (a : α) : Res.ofOption (some a) = .ok a := rfl
@[simp] theorem ofOption_none {α} : (Res.ofOption (none : Option α)) = .err := rfl

/-! ## tuple patterns -/

theorem filter_filter_ne (nms : List String) (n : String) (A : List String) :
    (nms.filter (fun m => m != n)).filter (fun m => !A.contains m) = nms.filter (fun m => !(n :: A).contains m) := by
  rw [List.filter_filter]
  apply List.filter_congr
  intro m _
  simp only [List.contains_cons, Bool.not_or]
  cases h : (m == n) <;> simp [bne, h]

theorem attrs_refine (ρ : Env) (kvs : List (String × V)) :
    ∀ (attrs : List (String × Pat × Option FExpr)) (acc : Env) (nms : List String) (extra : Option String),
    (∀ q, q ∈ attrs → SubOK ρ q.2.1) → (attrNames attrs).Nodup →
    (∀ n, n ∈ attrNames attrs → (kvs.lookup n).isSome = true → n ∈ nms) →
    (extra.isSome = true → restsAttrs attrs = []) → (restsAttrs attrs).length ≤ 1 →
    Impl.bindAttrs ρ kvs acc nms extra attrs =
      (match Spec.bindAttrs ρ acc attrs kvs with
       | some σ => .ok (σ, nms.filter (fun m => !(attrNames attrs).contains m),
                        match restsAttrs attrs with | t :: _ => some t | [] => extra)
       | none => .err) := by
  intro attrs
  induction attrs with
  | nil =>
    intro acc nms extra _ _ _ _ _
    have : nms.filter (fun _ => true) = nms := List.filter_eq_self.2 (fun _ _ => rfl)
    simp [Impl.bindAttrs, Spec.bindAttrs, attrNames, restsAttrs, this]
  | cons a r ih =>
    obtain ⟨n, p, fb⟩ := a
    intro acc nms extra hsub hnd hnms hextra hlen
    have hsubr : ∀ q, q ∈ r → SubOK ρ q.2.1 := fun q hq => hsub q (List.mem_cons_of_mem _ hq)
    cases hp : restName p with
    | some t =>
      have hisr : p.isRest = true := (isRest_iff p).2 ⟨t, hp⟩
      have hr : restsAttrs ((n, p, fb) :: r) = t :: restsAttrs r := by simp [restsAttrs, hp]
      have hextra' : extra = none := by
        cases extra with
        | none => rfl
        | some e => have := hextra rfl; rw [hr] at this; cases this
      have hrr : restsAttrs r = [] := by
        rw [hr] at hlen
        cases hh : restsAttrs r with
        | nil => rfl
        | cons _ _ => rw [hh] at hlen; simp at hlen
      have han : attrNames ((n, p, fb) :: r) = attrNames r := by simp [attrNames, hisr]
      subst hextra'
      simp only [Impl.bindAttrs, Spec.bindAttrs, hp, Option.isSome_none, Bool.false_eq_true, if_false]
      rw [ih acc nms (some t) hsubr (by rw [han] at hnd; exact hnd)
        (fun n' hn' => hnms n' (by rw [han]; exact hn')) (fun _ => hrr) (by rw [hrr]; simp)]
      rw [han, hr, hrr]
    | none =>
      have hisr : p.isRest = false := by
        cases hh : p.isRest with
        | false => rfl
        | true => obtain ⟨t, ht⟩ := (isRest_iff p).1 hh; rw [hp] at ht; cases ht
      have han : attrNames ((n, p, fb) :: r) = n :: attrNames r := by simp [attrNames, hisr]
      have hr : restsAttrs ((n, p, fb) :: r) = restsAttrs r := by simp [restsAttrs, hp]
      rw [han] at hnd hnms
      rw [hr] at hextra hlen
      have hndr := (List.nodup_cons.1 hnd).2
      have hnotin := (List.nodup_cons.1 hnd).1
      simp only [Impl.bindAttrs, Spec.bindAttrs, hp]
      cases hcv : compValue ρ (kvs.lookup n) fb with
      | none =>
        simp only
        split <;> rfl
      | some w =>
        -- the shortcut test cannot fire: the attribute is present (then its name is still in nms) or has a fallback
        have hshort : (fb.isNone && nms.isEmpty) = false := by
          cases hfb : fb with
          | some d => simp
          | none =>
            rw [hfb] at hcv
            cases hl : kvs.lookup n with
            | none => rw [hl] at hcv; simp [compValue, fbVal] at hcv
            | some w' =>
              have := hnms n (by simp) (by simp [hl])
              cases nms with
              | nil => simp at this
              | cons _ _ => simp
        simp only [hshort, Bool.false_eq_true, if_false]
        rw [hsub (n, p, fb) (by simp) w]
        cases hb : Spec.bind ρ p w with
        | none => simp
        | some s =>
          simp only [ofOption_some]
          cases hm : matchedUpdate acc s with
          | none => simp
          | some acc' =>
            simp only
            rw [ih acc' (nms.filter (fun m => m != n)) extra hsubr hndr ?_ hextra hlen]
            · rw [filter_filter_ne, han, hr]
            · intro n' hn' hl'
              have h1 := hnms n' (List.mem_cons_of_mem _ hn') hl'
              have h2 : n' ≠ n := fun e => hnotin (e ▸ hn')
              simp [h1, h2]

theorem lookup_isSome_mem_keys {kvs : List (String × V)} {n : String} (h : (kvs.lookup n).isSome = true) :
    n ∈ kvs.map (·.1) := by
  cases hl : kvs.lookup n with
  | none => rw [hl] at h; cases h
  | some w =>
    obtain ⟨v', hv'⟩ := lookup_mem_key hl
    exact List.mem_map.2 ⟨(n, v'), hv', rfl⟩

theorem isEmpty_filter_not_contains (A : List String) (ks : List (String × V)) :
    ((ks.map (·.1)).filter (fun m => !A.contains m)).isEmpty = ks.all (fun kv => A.contains kv.1) := by
  induction ks with
  | nil => simp
  | cons kv r ih =>
    simp only [List.map_cons, List.filter_cons, List.all_cons]
    cases hc : A.contains kv.1
    · simp
    · simpa using ih

theorem tup_refine (ρ : Env) (attrs : List (String × Pat × Option FExpr)) (v : V)
    (hsub : ∀ q, q ∈ attrs → SubOK ρ q.2.1) (hlen : (restsAttrs attrs).length ≤ 1)
    (hnd : (attrNames attrs).Nodup) :
    Impl.bind ρ (.tup attrs) v = Res.ofOption (Spec.bind ρ (.tup attrs) v) := by
  cases v with
  | num _ => simp [Impl.bind, Spec.bind]
  | set _ => simp [Impl.bind, Spec.bind]
  | tup kvs =>
    simp only [Impl.bind, Spec.bind, if_pos hnd]
    rw [attrs_refine ρ kvs attrs [] (kvs.map (·.1)) none hsub hnd
      (fun n _ h => lookup_isSome_mem_keys h) (fun h => by cases h) hlen]
    cases hb : Spec.bindAttrs ρ [] attrs kvs with
    | none => simp
    | some acc =>
      simp only
      cases hr : restsAttrs attrs with
      | nil =>
        simp only [if_true]
        rw [isEmpty_filter_not_contains]
        cases kvs.all (fun kv => (attrNames attrs).contains kv.1) <;> simp
      | cons t r' =>
        have hr' : r' = [] := by
          rw [hr] at hlen
          cases r' with
          | nil => rfl
          | cons _ _ => simp at hlen
        subst hr'
        have hW : kvs.filter (fun kv => ((kvs.map (·.1)).filter (fun m => !(attrNames attrs).contains m)).contains kv.1)
            = kvs.filter (fun kv => !(attrNames attrs).contains kv.1) := by
          apply List.filter_congr
          intro kv hkv
          have hmem : kv.1 ∈ kvs.map (·.1) := List.mem_map.2 ⟨kv, hkv, rfl⟩
          by_cases hc : kv.1 ∈ attrNames attrs
          · simp [hc]
          · simp [hc, hmem]
        simp only [hW, bindRests, List.cons_ne_nil, if_false]
        cases matchedUpdate acc (singleRest t (.tup (kvs.filter (fun kv => !(attrNames attrs).contains kv.1)))) <;> simp

/-! ## counting: a duplicate-free list inside another one is not longer -/

theorem length_filter_ne_lt {α} [DecidableEq α] (L : List α) (k : α) (h : k ∈ L) :
    (L.filter (fun x => !decide (x = k))).length < L.length := by
  induction L with
  | nil => simp at h
  | cons a L ih =>
    by_cases ha : a = k
    · subst ha
      simp only [List.filter_cons, decide_true, Bool.not_true, Bool.false_eq_true, if_false, List.length_cons]
      exact Nat.lt_succ_of_le (List.length_filter_le _ _)
    · have hk : k ∈ L := by
        rcases List.mem_cons.1 h with h | h
        · exact absurd h.symm ha
        · exact h
      simp only [List.filter_cons, ha, decide_false, Bool.not_false, if_true, List.length_cons]
      exact Nat.succ_lt_succ (ih hk)

theorem nodup_subset_length {α} [DecidableEq α] : ∀ (K L : List α), K.Nodup → (∀ x, x ∈ K → x ∈ L) →
    K.length ≤ L.length
  | [], _, _, _ => by simp
  | k :: K', L, hnd, hsub => by
    have hk : k ∈ L := hsub k (by simp)
    have hnd' := List.nodup_cons.1 hnd
    have hsub' : ∀ x, x ∈ K' → x ∈ L.filter (fun x => !decide (x = k)) := by
      intro x hx
      simp only [List.mem_filter, Bool.not_eq_true', decide_eq_false_iff_not]
      exact ⟨hsub x (by simp [hx]), fun e => hnd'.1 (e ▸ hx)⟩
    have := nodup_subset_length K' _ hnd'.2 hsub'
    have hlt := length_filter_ne_lt L k hk
    simp only [List.length_cons]
    omega

/-- … and if it is as long, it has every member of the other one -/
theorem nodup_subset_full {α} [DecidableEq α] (K L : List α) (hnd : K.Nodup) (hsub : ∀ x, x ∈ K → x ∈ L)
    (hlen : L.length ≤ K.length) : ∀ y, y ∈ L → y ∈ K := by
  intro y hy
  by_cases hyk : y ∈ K
  · exact hyk
  · exfalso
    have hsub' : ∀ x, x ∈ K → x ∈ L.filter (fun x => !decide (x = y)) := by
      intro x hx
      simp only [List.mem_filter, Bool.not_eq_true', decide_eq_false_iff_not]
      exact ⟨hsub x hx, fun e => hyk (e ▸ hx)⟩
    have h1 := nodup_subset_length K _ hnd hsub'
    have h2 := length_filter_ne_lt L y hy
    omega

/-! ## dict patterns -/

theorem beqV (a b : V) : (a == b) = decide (a = b) := rfl

theorem lookup_filter_ne (m : List (V × V)) (k k' : V) (h : k' ≠ k) :
    (m.filter (fun kv => !decide (kv.1 = k))).lookup k' = m.lookup k' := by
  induction m with
  | nil => rfl
  | cons a m ih =>
    obtain ⟨a1, a2⟩ := a
    by_cases ha : a1 = k
    · subst ha
      have : (k' == a1) = false := by rw [beqV]; simpa using h
      simp [List.filter_cons, List.lookup_cons, this, ih]
    · simp only [List.filter_cons, ha, decide_false, Bool.not_false, if_true, List.lookup_cons, ih]

theorem lookupV_mem_keys {kvs : List (V × V)} {k w : V} (h : kvs.lookup k = some w) : k ∈ kvs.map (·.1) := by
  induction kvs with
  | nil => simp at h
  | cons a r ih =>
    obtain ⟨a1, a2⟩ := a
    simp only [List.lookup_cons] at h
    cases hk : (k == a1) with
    | true =>
      have : k = a1 := by rw [beqV] at hk; simpa using hk
      simp [this]
    | false =>
      rw [hk] at h
      simp only [List.map_cons, List.mem_cons]
      exact Or.inr (ih h)

theorem filter_filter_neV (m : List (V × V)) (k : V) (K : List V) :
    (m.filter (fun kv => !decide (kv.1 = k))).filter (fun kv => !decide (kv.1 ∈ K)) =
      m.filter (fun kv => !decide (kv.1 ∈ k :: K)) := by
  rw [List.filter_filter]
  apply List.filter_congr
  intro kv _
  by_cases h1 : kv.1 = k <;> by_cases h2 : kv.1 ∈ K <;> simp [h1, h2]

theorem ents_refine (ρ : Env) (kvs : List (V × V)) :
    ∀ (ents : List (Lit × Pat × Option FExpr)) (acc : Env) (m : List (V × V)) (extras : List String),
    (∀ q, q ∈ ents → SubOK ρ q.2.1) → (∀ q, q ∈ ents → q.2.2 = none) → (entKeys ents).Nodup →
    (∀ k, k ∈ entKeys ents → m.lookup k = kvs.lookup k) →
    Impl.bindEnts ρ acc m extras ents =
      (match Spec.bindEnts ρ acc ents kvs with
       | some σ => .ok (σ, m.filter (fun kv => !decide (kv.1 ∈ entKeys ents)), extras ++ restsEnts ents)
       | none => .err) := by
  intro ents
  induction ents with
  | nil =>
    intro acc m extras _ _ _ _
    have : m.filter (fun _ => true) = m := List.filter_eq_self.2 (fun _ _ => rfl)
    simp [Impl.bindEnts, Spec.bindEnts, entKeys, restsEnts, this]
  | cons a r ih =>
    obtain ⟨k, p, fb⟩ := a
    intro acc m extras hsub hnofb hnd hm
    have hsubr : ∀ q, q ∈ r → SubOK ρ q.2.1 := fun q hq => hsub q (List.mem_cons_of_mem _ hq)
    have hnofbr : ∀ q, q ∈ r → q.2.2 = none := fun q hq => hnofb q (List.mem_cons_of_mem _ hq)
    have hfb : fb = none := hnofb (k, p, fb) (by simp)
    subst hfb
    cases hp : restName p with
    | some t =>
      have hisr : p.isRest = true := (isRest_iff p).2 ⟨t, hp⟩
      have hk : entKeys ((k, p, none) :: r) = entKeys r := by simp [entKeys, hisr]
      have hr : restsEnts ((k, p, none) :: r) = t :: restsEnts r := by simp [restsEnts, hp]
      simp only [Impl.bindEnts, Spec.bindEnts, hp]
      rw [ih acc m (extras ++ [t]) hsubr hnofbr (by rw [hk] at hnd; exact hnd)
        (fun k' hk' => hm k' (by rw [hk]; exact hk'))]
      rw [hk, hr, List.append_assoc]; rfl
    | none =>
      have hisr : p.isRest = false := by
        cases hh : p.isRest with
        | false => rfl
        | true => obtain ⟨t, ht⟩ := (isRest_iff p).1 hh; rw [hp] at ht; cases ht
      have hk : entKeys ((k, p, none) :: r) = k.den :: entKeys r := by simp [entKeys, hisr]
      have hr : restsEnts ((k, p, none) :: r) = restsEnts r := by simp [restsEnts, hp]
      rw [hk] at hnd hm
      have hndr := (List.nodup_cons.1 hnd).2
      have hnotin := (List.nodup_cons.1 hnd).1
      simp only [Impl.bindEnts, Spec.bindEnts, hp, hm k.den (by simp)]
      cases hl : kvs.lookup k.den with
      | none => simp [compValue, fbVal]
      | some w =>
        simp only [compValue]
        rw [hsub (k, p, none) (by simp) w]
        cases hb : Spec.bind ρ p w with
        | none => simp
        | some s =>
          simp only [ofOption_some]
          cases hmu : matchedUpdate acc s with
          | none => simp
          | some acc' =>
            simp only
            rw [ih acc' (m.filter (fun kv => !decide (kv.1 = k.den))) extras hsubr hnofbr hndr ?_]
            · rw [filter_filter_neV, hk, hr]
            · intro k' hk'
              have hne : k' ≠ k.den := fun e => hnotin (e ▸ hk')
              rw [lookup_filter_ne _ _ _ hne]
              exact hm k' (List.mem_cons_of_mem _ hk')

/-- when the entries loop succeeds (no fallbacks), every key of the pattern is a key of the dict -/
theorem bindEnts_keys_found (ρ : Env) (kvs : List (V × V)) :
    ∀ (ents : List (Lit × Pat × Option FExpr)) (acc σ : Env),
    (∀ q, q ∈ ents → q.2.2 = none) → Spec.bindEnts ρ acc ents kvs = some σ →
    ∀ k, k ∈ entKeys ents → k ∈ kvs.map (·.1) := by
  intro ents
  induction ents with
  | nil => intro _ _ _ _ k hk; simp [entKeys] at hk
  | cons a r ih =>
    obtain ⟨k0, p, fb⟩ := a
    intro acc σ hnofb h k hk
    have hfb : fb = none := hnofb (k0, p, fb) (by simp)
    subst hfb
    have hnofbr : ∀ q, q ∈ r → q.2.2 = none := fun q hq => hnofb q (List.mem_cons_of_mem _ hq)
    cases hp : restName p with
    | some t =>
      have hisr : p.isRest = true := (isRest_iff p).2 ⟨t, hp⟩
      simp only [Spec.bindEnts, hp] at h
      simp only [entKeys, hisr, if_true] at hk
      exact ih acc σ hnofbr h k hk
    | none =>
      have hisr : p.isRest = false := by
        cases hh : p.isRest with
        | false => rfl
        | true => obtain ⟨t, ht⟩ := (isRest_iff p).1 hh; rw [hp] at ht; cases ht
      simp only [Spec.bindEnts, hp] at h
      simp only [entKeys, hisr, Bool.false_eq_true, if_false, List.mem_cons] at hk
      cases hl : kvs.lookup k0.den with
      | none => simp [hl, compValue, fbVal] at h
      | some w =>
        simp only [hl, compValue] at h
        rcases hk with rfl | hk
        · exact lookupV_mem_keys hl
        · cases hb : Spec.bind ρ p w with
          | none => simp [hb] at h
          | some s =>
            simp only [hb] at h
            cases hmu : matchedUpdate acc s with
            | none => simp [hmu] at h
            | some acc' =>
              simp only [hmu] at h
              exact ih acc' σ hnofbr h k hk

/-- the first loop on marks without fallbacks: the number of `...`-like parts, when there is at most one -/
theorem scanMarks_nofb : ∀ (marks : List (Bool × Bool)) (cnt : Nat), (∀ m, m ∈ marks → m.2 = false) →
    cnt + (marks.filter (·.1)).length ≤ 1 → scanMarks marks cnt = some (cnt + (marks.filter (·.1)).length)
  | [], cnt, _, _ => by simp [scanMarks]
  | (isExtra, hasFb) :: r, cnt, hfb, hle => by
    have h2 : hasFb = false := hfb (isExtra, hasFb) (by simp)
    subst h2
    have hfbr : ∀ m, m ∈ r → m.2 = false := fun m hm => hfb m (List.mem_cons_of_mem _ hm)
    cases isExtra with
    | false =>
      simp only [List.filter_cons, Bool.false_eq_true, if_false] at hle ⊢
      simp only [scanMarks, Bool.false_eq_true, if_false]
      exact scanMarks_nofb r cnt hfbr hle
    | true =>
      simp only [List.filter_cons, if_true, List.length_cons] at hle ⊢
      have hc : cnt = 0 := by omega
      subst hc
      have h1 := scanMarks_nofb r 1 hfbr (by omega)
      simp only [scanMarks, if_true, Bool.false_eq_true, if_false, Nat.zero_ne_one, Nat.zero_add, h1]
      congr 1; omega

theorem ents_counts : ∀ (ents : List (Lit × Pat × Option FExpr)),
    ((entMarks ents).filter (·.1)).length = (restsEnts ents).length ∧
    ents.length = (entKeys ents).length + (restsEnts ents).length
  | [] => by simp [entMarks, restsEnts, entKeys]
  | (k, p, fb) :: r => by
    obtain ⟨h1, h2⟩ := ents_counts r
    unfold entMarks at h1 ⊢
    cases hp : restName p with
    | some t =>
      have hisr : p.isRest = true := (isRest_iff p).2 ⟨t, hp⟩
      simp only [List.map_cons, List.filter_cons, hisr, if_true, List.length_cons, restsEnts, hp, entKeys,
        List.singleton_append, h1]
      exact ⟨trivial, by rw [h2]; omega⟩
    | none =>
      have hisr : p.isRest = false := by
        cases hh : p.isRest with
        | false => rfl
        | true => obtain ⟨t, ht⟩ := (isRest_iff p).1 hh; rw [hp] at ht; cases ht
      simp only [List.map_cons, List.filter_cons, hisr, Bool.false_eq_true, if_false, List.length_cons, restsEnts,
        hp, entKeys, List.nil_append, h1]
      exact ⟨trivial, by rw [h2]; omega⟩

theorem dict_refine (ρ : Env) (ents : List (Lit × Pat × Option FExpr)) (v : V)
    (hsub : ∀ q, q ∈ ents → SubOK ρ q.2.1) (hlen : (restsEnts ents).length ≤ 1)
    (hnofb : ∀ q, q ∈ ents → q.2.2 = none) (hnd : (entKeys ents).Nodup) :
    Impl.bind ρ (.dict ents) v = Res.ofOption (Spec.bind ρ (.dict ents) v) := by
  simp only [Impl.bind, Spec.bind]
  cases hv : asDict v with
  | none => simp
  | some kvs =>
    obtain ⟨_, hkn⟩ := (asDict_iff v kvs).1 hv
    obtain ⟨hc1, hc2⟩ := ents_counts ents
    have hmarks : ∀ m, m ∈ entMarks ents → m.2 = false := by
      intro m hm
      unfold entMarks at hm
      obtain ⟨q, hq, rfl⟩ := List.mem_map.1 hm
      simp [hnofb q hq]
    have hscan := scanMarks_nofb (entMarks ents) 0 hmarks (by rw [hc1]; omega)
    rw [hc1, Nat.zero_add] at hscan
    simp only [hscan, if_pos hnd]
    have hloop := ents_refine ρ kvs ents [] kvs [] hsub hnofb hnd (fun _ _ => rfl)
    cases hb : Spec.bindEnts ρ [] ents kvs with
    | none =>
      rw [hb] at hloop
      simp only [hloop]
      split
      · rfl
      · split <;> rfl
    | some acc =>
      rw [hb] at hloop
      have hfound := bindEnts_keys_found ρ kvs ents [] acc hnofb hb
      have hle : (entKeys ents).length ≤ kvs.length := by
        have := nodup_subset_length (entKeys ents) (kvs.map (·.1)) hnd hfound
        simpa using this
      have h1 : ¬ (ents.length > kvs.length + (restsEnts ents).length) := by omega
      rw [if_neg h1]
      simp only [hloop, List.nil_append]
      cases hr : restsEnts ents with
      | nil =>
        rw [hr] at hc2
        simp only [List.length_nil, Nat.add_zero] at hc2
        simp only [List.length_nil, decide_true, Bool.true_and, if_true, bindRests, ofOption_some]
        by_cases hlt : ents.length < kvs.length
        · -- more entries than the pattern names: some key of the dict is not in the pattern
          have hall : kvs.all (fun kv => decide (kv.1 ∈ entKeys ents)) = false := by
            cases hh : kvs.all (fun kv => decide (kv.1 ∈ entKeys ents)) with
            | false => rfl
            | true =>
              exfalso
              have hsubset : ∀ x, x ∈ kvs.map (·.1) → x ∈ entKeys ents := by
                intro x hx
                obtain ⟨kv, hkv, rfl⟩ := List.mem_map.1 hx
                simpa using (List.all_eq_true.1 hh) kv hkv
              have := nodup_subset_length (kvs.map (·.1)) (entKeys ents) hkn hsubset
              simp at this
              omega
          simp [hlt, hall]
        · have hall : kvs.all (fun kv => decide (kv.1 ∈ entKeys ents)) = true := by
            rw [List.all_eq_true]
            intro kv hkv
            have := nodup_subset_full (entKeys ents) (kvs.map (·.1)) hnd hfound (by simp; omega) kv.1
              (List.mem_map.2 ⟨kv, hkv, rfl⟩)
            simpa using this
          simp [hlt, hall]
      | cons t r' =>
        have hne : ¬ ((t :: r').length = 0) := by simp
        simp only [hne, decide_false, Bool.false_and, Bool.false_eq_true, if_false, List.cons_ne_nil]

/-! ## array patterns -/

def fbCount : List (Pat × Option FExpr) → Nat
  | [] => 0
  | (_, fb) :: r => (if fb.isSome then 1 else 0) + fbCount r

theorem restsItems_cons_some {p : Pat} {fb : Option FExpr} {r : List (Pat × Option FExpr)} {t : String}
    (hp : restName p = some t) : restsItems ((p, fb) :: r) = t :: restsItems r := by simp [restsItems, hp]
theorem restsItems_cons_none {p : Pat} {fb : Option FExpr} {r : List (Pat × Option FExpr)}
    (hp : restName p = none) : restsItems ((p, fb) :: r) = restsItems r := by simp [restsItems, hp]

theorem isRest_false_of {p : Pat} (hp : restName p = none) : p.isRest = false := by
  cases hh : p.isRest with
  | false => rfl
  | true => obtain ⟨t, ht⟩ := (isRest_iff p).1 hh; rw [hp] at ht; cases ht

theorem fbVal_isSome {ρ : Env} {fb : Option FExpr} {w : V} (h : fbVal ρ fb = some w) : fb.isSome = true := by
  cases fb with
  | none => simp [fbVal] at h
  | some _ => rfl

/-- what the items can consume: at most one item each, except `...` -/
theorem RItems_length_le {ρ σ : Env} : ∀ (items : List (Pat × Option FExpr)) (xs : List V),
    RItems ρ σ items xs → items.length ≤ xs.length + (restsItems items).length + fbCount items
  | [], xs, _ => by simp
  | (p, fb) :: r, xs, h => by
    cases hp : restName p with
    | some t =>
      simp only [RItems, hp] at h
      obtain ⟨seg, tail, rfl, _, hi⟩ := h
      have := RItems_length_le r tail hi
      simp only [restsItems_cons_some hp, fbCount, List.length_cons, List.length_append]
      omega
    | none =>
      simp only [RItems, hp] at h
      rcases h with ⟨x, tail, rfl, _, hi⟩ | ⟨d, hfv, rfl, _, hi⟩
      · have := RItems_length_le r tail hi
        simp only [restsItems_cons_none hp, fbCount, List.length_cons]
        omega
      · have := RItems_length_le r [] hi
        have hsome : fb.isSome = true := fbVal_isSome hfv
        simp only [restsItems_cons_none hp, fbCount, List.length_cons, List.length_nil, hsome, if_true] at this ⊢
        omega

/-- without `...` nothing is left over -/
theorem RItems_norest_ge {ρ σ : Env} : ∀ (items : List (Pat × Option FExpr)) (xs : List V),
    restsItems items = [] → RItems ρ σ items xs → xs.length ≤ items.length
  | [], xs, _, h => by simp only [RItems] at h; simp [h]
  | (p, fb) :: r, xs, hr, h => by
    cases hp : restName p with
    | some t => rw [restsItems_cons_some hp] at hr; cases hr
    | none =>
      rw [restsItems_cons_none hp] at hr
      simp only [RItems, hp] at h
      rcases h with ⟨x, tail, rfl, _, hi⟩ | ⟨d, _, rfl, _, _⟩
      · have := RItems_norest_ge r tail hr hi
        simp only [List.length_cons]; omega
      · simp

theorem scanMarks_some : ∀ (marks : List (Bool × Bool)) (c0 cnt : Nat), c0 ≤ 1 → scanMarks marks c0 = some cnt →
    cnt ≤ 1 ∧ cnt = c0 + (marks.filter (·.1)).length + (marks.filter (·.2)).length
  | [], c0, cnt, h0, h => by
    simp only [scanMarks, Option.some.injEq] at h
    subst h; simp [h0]
  | (e, f) :: r, c0, cnt, h0, h => by
    simp only [scanMarks] at h
    cases e <;> cases f
    · simp only [Bool.false_eq_true, if_false] at h
      have := scanMarks_some r c0 cnt h0 h
      simpa [List.filter_cons] using this
    · simp only [Bool.false_eq_true, if_false, if_true] at h
      by_cases hc : c0 = 1
      · simp [hc] at h
      · simp only [hc, if_false] at h
        have := scanMarks_some r (c0 + 1) cnt (by omega) h
        simp only [List.filter_cons, Bool.false_eq_true, if_false, if_true, List.length_cons]
        omega
    · simp only [Bool.false_eq_true, if_false, if_true] at h
      by_cases hc : c0 = 1
      · simp [hc] at h
      · simp only [hc, if_false] at h
        have := scanMarks_some r (c0 + 1) cnt (by omega) h
        simp only [List.filter_cons, Bool.false_eq_true, if_false, if_true, List.length_cons]
        omega
    · simp only [if_true] at h
      by_cases hc : c0 = 1
      · simp [hc] at h
      · simp only [hc, if_false] at h
        have hc0 : c0 = 0 := by omega
        subst hc0
        simp at h

theorem items_counts : ∀ (items : List (Pat × Option FExpr)),
    ((itemMarks items).filter (·.1)).length = (restsItems items).length ∧
    ((itemMarks items).filter (·.2)).length = fbCount items ∧
    items.any (fun q => q.1.isRest) = !(restsItems items).isEmpty
  | [] => by simp [itemMarks, restsItems, fbCount]
  | (p, fb) :: r => by
    obtain ⟨h1, h2, h3⟩ := items_counts r
    unfold itemMarks at h1 h2 ⊢
    cases hp : restName p with
    | some t =>
      have hisr : p.isRest = true := (isRest_iff p).2 ⟨t, hp⟩
      refine ⟨?_, ?_, ?_⟩
      · simp only [List.map_cons, List.filter_cons, hisr, if_true, List.length_cons, restsItems_cons_some hp, h1]
      · cases fb <;> simp [List.filter_cons, fbCount, h2] <;> omega
      · simp [hisr, restsItems_cons_some hp]
    | none =>
      have hisr := isRest_false_of hp
      refine ⟨?_, ?_, ?_⟩
      · simp only [List.map_cons, List.filter_cons, hisr, Bool.false_eq_true, if_false, restsItems_cons_none hp, h1]
      · cases fb <;> simp [List.filter_cons, fbCount, h2] <;> omega
      · simp [hisr, restsItems_cons_none hp, h3]

theorem fbCount_cons (p : Pat) (fb : Option FExpr) (r : List (Pat × Option FExpr)) :
    fbCount ((p, fb) :: r) = (if fb.isSome then 1 else 0) + fbCount r := rfl

theorem implBind_rest (ρ : Env) (t : String) (v : V) : Impl.bind ρ (.rest t) v = .ok (singleRest t v) := by
  simp [Impl.bind]

/-- the index arithmetic of ArrayPattern.Bind's main loop walks the array exactly as the specification's
item-by-item matcher does -/
theorem items_refine (ρ : Env) (xs : List V) (n : Nat) :
    ∀ (items : List (Pat × Option FExpr)) (i : Nat) (off : Int) (acc : Env),
    (∀ q, q ∈ items → SubOK ρ q.1) →
    i + items.length = n → 0 ≤ (i : Int) + off →
    (restsItems items = [] → xs.length ≤ ((i : Int) + off).toNat + items.length) →
    (restsItems items ≠ [] → off = 0 ∧ i ≤ xs.length ∧ fbCount items = 0 ∧
        (restsItems items).length ≤ 1 ∧ n ≤ xs.length + 1) →
    Impl.bindItems ρ xs n i off acc items =
      Res.ofOption (Spec.bindItems ρ acc items (xs.drop ((i : Int) + off).toNat)) := by
  intro items
  induction items with
  | nil =>
    intro i off acc _ _ _ h3 _
    have hnil : xs.drop ((i : Int) + off).toNat = [] :=
      List.drop_eq_nil_of_le (by simpa using h3 rfl)
    simp [Impl.bindItems, Spec.bindItems, hnil]
  | cons a r ih =>
    obtain ⟨p, fb⟩ := a
    intro i off acc hsub h1 h2 h3 h4
    have hsubr : ∀ q, q ∈ r → SubOK ρ q.1 := fun q hq => hsub q (List.mem_cons_of_mem _ hq)
    simp only [List.length_cons] at h1 h3
    cases hp : restName p with
    | some t =>
      have hisr : p.isRest = true := (isRest_iff p).2 ⟨t, hp⟩
      have hpe := restName_some hp
      obtain ⟨hoff, hic, hfbc, hrl, hnc⟩ := h4 (by rw [restsItems_cons_some hp]; simp)
      subst hoff
      rw [restsItems_cons_some hp] at hrl
      have hrr : restsItems r = [] := by
        cases hh : restsItems r with
        | nil => rfl
        | cons _ _ => rw [hh] at hrl; simp at hrl
      rw [fbCount_cons] at hfbc
      have hfbr : fbCount r = 0 := by omega
      have hj : ((i : Int) + 0).toNat = i := by simp
      -- the value handed to `...`: the next c + 1 - n items
      have hval : arrValue ρ xs n i 0 p fb =
          .ok ((xs.length : Int) - (n : Int), mkArr ((xs.drop i).take (xs.length + 1 - n))) := by
        unfold arrValue
        simp only [hisr, if_true]
        by_cases hge : (xs.length : Int) - (n : Int) ≥ 0
        · rw [if_pos hge]
          have : ((xs.length : Int) - (n : Int) + 1).toNat = xs.length + 1 - n := by omega
          rw [this]
        · rw [if_neg hge]
          have : xs.length + 1 - n = 0 := by omega
          rw [this]; simp
      have hlen : r.length ≤ (xs.drop i).length := by simp only [List.length_drop]; omega
      have hk : (xs.drop i).length - r.length = xs.length + 1 - n := by simp only [List.length_drop]; omega
      simp only [Impl.bindItems, Spec.bindItems, hval, hp, hj, if_pos hlen, hk]
      rw [hpe, implBind_rest]
      simp only
      cases hm : matchedUpdate acc (singleRest t (mkArr ((xs.drop i).take (xs.length + 1 - n)))) with
      | none => simp
      | some acc' =>
        simp only
        rw [ih (i + 1) ((xs.length : Int) - (n : Int)) acc' hsubr (by omega) (by omega)
          (by intro _; omega) (fun h => absurd hrr h)]
        have : (((i + 1 : Nat) : Int) + ((xs.length : Int) - (n : Int))).toNat = i + (xs.length + 1 - n) := by omega
        rw [this, List.drop_drop]
    | none =>
      have hisr := isRest_false_of hp
      rw [restsItems_cons_none hp] at h3 h4
      by_cases hc : (xs.length : Int) ≤ (i : Int) + off
      · -- no item left: only a fallback can supply the value
        have hdrop : xs.drop ((i : Int) + off).toNat = [] := List.drop_eq_nil_of_le (by omega)
        cases hfv : fbVal ρ fb with
        | none =>
          simp [Impl.bindItems, Spec.bindItems, arrValue, hisr, hc, hp, hdrop, hfv]
        | some d =>
          have hval : arrValue ρ xs n i off p fb = .ok (off, d) := by
            simp [arrValue, hisr, hc, hfv]
          simp only [Impl.bindItems, Spec.bindItems, hval, hp, hdrop, hfv]
          rw [hsub (p, fb) (by simp) d]
          cases hb : Spec.bind ρ p d with
          | none => simp
          | some s =>
            simp only [ofOption_some]
            cases hm : matchedUpdate acc s with
            | none => simp
            | some acc' =>
              simp only
              rw [ih (i + 1) off acc' hsubr (by omega) (by omega) (by intro _; omega) ?_]
              · have : xs.drop (((i + 1 : Nat) : Int) + off).toNat = [] := List.drop_eq_nil_of_le (by omega)
                rw [this]
              · intro hne
                have := (h4 hne).2.2.1
                rw [fbCount_cons, fbVal_isSome hfv] at this
                simp at this
      · -- the item at index i + offset
        have hjlt : ((i : Int) + off).toNat < xs.length := by omega
        have hget : xs[((i : Int) + off).toNat]? = some xs[((i : Int) + off).toNat] := List.getElem?_eq_getElem hjlt
        have hdrop : xs.drop ((i : Int) + off).toNat =
            xs[((i : Int) + off).toNat] :: xs.drop (((i : Int) + off).toNat + 1) := List.drop_eq_getElem_cons hjlt
        have hval : arrValue ρ xs n i off p fb = .ok (off, xs[((i : Int) + off).toNat]) := by
          simp [arrValue, hisr, hc, hget]
        simp only [Impl.bindItems, Spec.bindItems, hval, hp, hdrop]
        rw [hsub (p, fb) (by simp) _]
        cases hb : Spec.bind ρ p xs[((i : Int) + off).toNat] with
        | none => simp
        | some s =>
          simp only [ofOption_some]
          cases hm : matchedUpdate acc s with
          | none => simp
          | some acc' =>
            simp only
            rw [ih (i + 1) off acc' hsubr (by omega) (by omega) (by intro hr; have := h3 hr; omega) ?_]
            · have : (((i + 1 : Nat) : Int) + off).toNat = ((i : Int) + off).toNat + 1 := by omega
              rw [this]
            · intro hne
              obtain ⟨hoff, hic, hfbc, hrl, hnc⟩ := h4 hne
              rw [fbCount_cons] at hfbc
              refine ⟨hoff, ?_, by omega, hrl, hnc⟩
              subst hoff
              simp at hjlt
              omega

theorem arr_refine (ρ : Env) (items : List (Pat × Option FExpr)) (v : V)
    (hsub : ∀ q, q ∈ items → SubOK ρ q.1) (hscan : (scanMarks (itemMarks items) 0).isSome = true) :
    Impl.bind ρ (.arr items) v = Res.ofOption (Spec.bind ρ (.arr items) v) := by
  simp only [Impl.bind, Spec.bind]
  cases hv : asArr v with
  | none => simp
  | some xs =>
    cases hs : scanMarks (itemMarks items) 0 with
    | none => rw [hs] at hscan; cases hscan
    | some cnt =>
      obtain ⟨hle, hcnt⟩ := scanMarks_some _ 0 cnt (by omega) hs
      obtain ⟨hc1, hc2, hc3⟩ := items_counts items
      rw [hc1, hc2] at hcnt
      simp only
      by_cases h1 : items.length > xs.length + cnt
      · rw [if_pos h1]
        cases hb : Spec.bindItems ρ [] items xs with
        | none => rfl
        | some σ =>
          have := RItems_length_le items xs (bindItems_sound ρ items [] xs σ hb).1
          omega
      · rw [if_neg h1]
        by_cases h2 : (!(items.any (fun q => q.1.isRest)) && decide (items.length < xs.length)) = true
        · rw [if_pos h2]
          simp only [Bool.and_eq_true, Bool.not_eq_true', decide_eq_true_eq] at h2
          cases hb : Spec.bindItems ρ [] items xs with
          | none => rfl
          | some σ =>
            have hr : restsItems items = [] := by
              have := hc3; rw [h2.1] at this
              cases hh : restsItems items with
              | nil => rfl
              | cons _ _ => rw [hh] at this; simp at this
            have := RItems_norest_ge items xs hr (bindItems_sound ρ items [] xs σ hb).1
            omega
        · rw [if_neg h2]
          have h2' : items.any (fun q => q.1.isRest) = true ∨ ¬ items.length < xs.length := by
            cases hh : items.any (fun q => q.1.isRest) with
            | true => exact Or.inl rfl
            | false => right; intro hlt; apply h2; simp [hh, hlt]
          have := items_refine ρ xs items.length items 0 0 [] hsub (by simp) (by simp)
            (by
              intro hr
              rcases h2' with h | h
              · rw [hc3, hr] at h; simp at h
              · simp; omega)
            (by
              intro hne
              have hpos : 0 < (restsItems items).length := by
                cases hh : restsItems items with
                | nil => exact absurd hh hne
                | cons _ _ => simp
              refine ⟨rfl, Nat.zero_le _, by omega, by omega, by omega⟩)
          simpa using this

/-! ## set patterns -/

/-- the elements SetPattern.Bind's main loop handles itself -/
def simpleElt : Pat → Bool
  | .rest _ | .name _ | .lit _ => true
  | .exprs [_] => true
  | _ => false

def setNames : List Pat → List String
  | [] => []
  | .name x :: r => x :: setNames r
  | _ :: r => setNames r

theorem agree_nil_left (s : Env) : Agree [] s := by intro x v w h; simp at h

theorem mu_nil (s : Env) : matchedUpdate [] s = some (s ++ []) :=
  (matchedUpdate_some_iff [] s _).2 ⟨agree_nil_left s, rfl⟩

theorem filter_filter_mem (s : List V) (w : V) (F : List V) :
    (s.filter (fun m => !decide (m = w))).filter (fun m => !decide (m ∈ F)) =
      s.filter (fun m => !decide (m ∈ w :: F)) := by
  rw [List.filter_filter]
  apply List.filter_congr
  intro m _
  by_cases h1 : m = w <;> by_cases h2 : m ∈ F <;> simp [h1, h2]

/-- the main loop on simple elements: it fails exactly when the determined values are not distinct members -/
theorem elts_loop (ρ : Env) (n : Nat) : ∀ (elts : List Pat) (s fws : List V),
    elts.all simpleElt = true → fixedValues ρ elts = some fws →
    ((fws.Nodup ∧ ∀ w, w ∈ fws → w ∈ s) → Impl.bindElts ρ n s elts = .cont (s.filter (fun m => !decide (m ∈ fws)))) ∧
    (¬ (fws.Nodup ∧ ∀ w, w ∈ fws → w ∈ s) → Impl.bindElts ρ n s elts = .ret .err) := by
  intro elts
  induction elts with
  | nil =>
    intro s fws _ hf
    simp only [fixedValues, Option.some.injEq] at hf
    subst hf
    have : s.filter (fun _ => true) = s := List.filter_eq_self.2 (fun _ _ => rfl)
    simp [Impl.bindElts, this]
  | cons p r ih =>
    intro s fws hsimple hf
    simp only [List.all_cons, Bool.and_eq_true] at hsimple
    obtain ⟨hp, hr⟩ := hsimple
    -- a determined element with value w
    have fixedCase : ∀ w, fixedValues ρ (p :: r) = (fixedValues ρ r).map (w :: ·) →
        Impl.bindElts ρ n s (p :: r) =
          (if w ∈ s then Impl.bindElts ρ n (s.filter (fun m => !decide (m = w))) r else .ret .err) →
        ((fws.Nodup ∧ ∀ w, w ∈ fws → w ∈ s) →
          Impl.bindElts ρ n s (p :: r) = .cont (s.filter (fun m => !decide (m ∈ fws)))) ∧
        (¬ (fws.Nodup ∧ ∀ w, w ∈ fws → w ∈ s) → Impl.bindElts ρ n s (p :: r) = .ret .err) := by
      intro w hfe himpl
      rw [hfe] at hf
      simp only [Option.map_eq_some_iff] at hf
      obtain ⟨fws', hf', rfl⟩ := hf
      obtain ⟨ih1, ih2⟩ := ih (s.filter (fun m => !decide (m = w))) fws' hr hf'
      rw [himpl]
      by_cases hws : w ∈ s
      · rw [if_pos hws]
        have hequiv : (fws'.Nodup ∧ ∀ w', w' ∈ fws' → w' ∈ s.filter (fun m => !decide (m = w))) ↔
            ((w :: fws').Nodup ∧ ∀ w', w' ∈ w :: fws' → w' ∈ s) := by
          simp only [List.mem_filter, Bool.not_eq_true', decide_eq_false_iff_not, List.nodup_cons,
            List.mem_cons]
          constructor
          · rintro ⟨h1, h2⟩
            refine ⟨⟨fun hin => (h2 w hin).2 rfl, h1⟩, ?_⟩
            rintro w' (rfl | hw')
            · exact hws
            · exact (h2 w' hw').1
          · rintro ⟨⟨h0, h1⟩, h2⟩
            exact ⟨h1, fun w' hw' => ⟨h2 w' (Or.inr hw'), fun e => h0 (e ▸ hw')⟩⟩
        constructor
        · intro hc
          rw [ih1 (hequiv.2 hc), filter_filter_mem]
        · intro hc
          exact ih2 (fun h => hc (hequiv.1 h))
      · rw [if_neg hws]
        constructor
        · rintro ⟨_, h2⟩; exact absurd (h2 w (by simp)) hws
        · intro _; rfl
    cases p with
    | rest t =>
      have hfe : fixedValues ρ (.rest t :: r) = fixedValues ρ r := by simp [fixedValues, eltKind]
      rw [hfe] at hf
      simpa [Impl.bindElts] using ih s fws hr hf
    | name x =>
      have hfe : fixedValues ρ (.name x :: r) = fixedValues ρ r := by simp [fixedValues, eltKind]
      rw [hfe] at hf
      simpa [Impl.bindElts] using ih s fws hr hf
    | lit l =>
      exact fixedCase l.den (by simp [fixedValues, eltKind, fixedValue]) (by simp [Impl.bindElts])
    | exprs es =>
      cases es with
      | nil => simp [simpleElt] at hp
      | cons e es' =>
        cases es' with
        | cons _ _ => simp [simpleElt] at hp
        | nil =>
          cases he : e.eval ρ with
          | none => simp [fixedValues, eltKind, fixedValue, he] at hf
          | some w =>
            exact fixedCase w (by simp [fixedValues, eltKind, fixedValue, he]) (by simp [Impl.bindElts, he])
    | arr _ => simp [simpleElt] at hp
    | tup _ => simp [simpleElt] at hp
    | dict _ => simp [simpleElt] at hp
    | set _ => simp [simpleElt] at hp

/-- per-element facts about a simple element: what it contributes to the names, the `...`s, the determined
values, the marks of the first loop, the search for the extra element, and the specification's loop -/
theorem simple_cases {p : Pat} (hp : simpleElt p = true) :
    (∃ t, p = .rest t) ∨ (∃ x, p = .name x) ∨ (∃ l, p = .lit l) ∨ (∃ e, p = .exprs [e]) := by
  cases p with
  | rest t => exact Or.inl ⟨t, rfl⟩
  | name x => exact Or.inr (Or.inl ⟨x, rfl⟩)
  | lit l => exact Or.inr (Or.inr (Or.inl ⟨l, rfl⟩))
  | exprs es =>
    cases es with
    | nil => simp [simpleElt] at hp
    | cons e r =>
      cases r with
      | nil => exact Or.inr (Or.inr (Or.inr ⟨e, rfl⟩))
      | cons _ _ => simp [simpleElt] at hp
  | arr _ => simp [simpleElt] at hp
  | tup _ => simp [simpleElt] at hp
  | dict _ => simp [simpleElt] at hp
  | set _ => simp [simpleElt] at hp

theorem specElts_skip (ρ : Env) : ∀ (elts : List Pat) (acc : Env) (left : List V),
    elts.all simpleElt = true → setNames elts = [] → Spec.bindElts ρ acc elts left = some (acc, left) := by
  intro elts
  induction elts with
  | nil => intro acc left _ _; rfl
  | cons p r ih =>
    intro acc left hs hn
    simp only [List.all_cons, Bool.and_eq_true] at hs
    rcases simple_cases hs.1 with ⟨t, rfl⟩ | ⟨x, rfl⟩ | ⟨l, rfl⟩ | ⟨e, rfl⟩
    · simp only [Spec.bindElts, eltKind]; exact ih acc left hs.2 (by simpa [setNames] using hn)
    · simp [setNames] at hn
    · simp only [Spec.bindElts, eltKind]; exact ih acc left hs.2 (by simpa [setNames] using hn)
    · simp only [Spec.bindElts, eltKind]; exact ih acc left hs.2 (by simpa [setNames] using hn)

theorem specElts_name (ρ : Env) : ∀ (elts : List Pat) (acc : Env) (left : List V) (x : String),
    elts.all simpleElt = true → setNames elts = [x] →
    Spec.bindElts ρ acc elts left =
      (match left with
       | [w] => (match matchedUpdate acc (single x w) with | some acc' => some (acc', []) | none => none)
       | _ => none) := by
  intro elts
  induction elts with
  | nil => intro acc left x _ hn; simp [setNames] at hn
  | cons p r ih =>
    intro acc left x hs hn
    simp only [List.all_cons, Bool.and_eq_true] at hs
    rcases simple_cases hs.1 with ⟨t, rfl⟩ | ⟨y, rfl⟩ | ⟨l, rfl⟩ | ⟨e, rfl⟩
    · simp only [Spec.bindElts, eltKind]; exact ih acc left x hs.2 (by simpa [setNames] using hn)
    · simp only [setNames, List.cons.injEq] at hn
      obtain ⟨rfl, hn'⟩ := hn
      simp only [Spec.bindElts, eltKind]
      cases left with
      | nil => rfl
      | cons w l2 =>
        cases l2 with
        | cons _ _ => rfl
        | nil =>
          simp only [Spec.bind]
          cases hm : matchedUpdate acc (single y w) with
          | none => rfl
          | some acc' => simp only; exact specElts_skip ρ r acc' [] hs.2 hn'
    · simp only [Spec.bindElts, eltKind]; exact ih acc left x hs.2 (by simpa [setNames] using hn)
    · simp only [Spec.bindElts, eltKind]; exact ih acc left x hs.2 (by simpa [setNames] using hn)

/-- the element that SetPattern.Bind's last loop finds -/
theorem find_extra : ∀ (elts : List Pat), elts.all simpleElt = true →
    (setNames elts).length + (restsElts elts).length ≤ 1 →
    elts.find? (fun p => p.isRest || isIdent p) =
      (match setNames elts, restsElts elts with
       | x :: _, _ => some (.name x)
       | [], t :: _ => some (.rest t)
       | [], [] => none) := by
  intro elts
  induction elts with
  | nil => intro _ _; rfl
  | cons p r ih =>
    intro hs hle
    simp only [List.all_cons, Bool.and_eq_true] at hs
    rcases simple_cases hs.1 with ⟨t, rfl⟩ | ⟨x, rfl⟩ | ⟨l, rfl⟩ | ⟨e, rfl⟩
    · simp only [setNames, restsElts, restName, List.singleton_append, List.length_cons] at hle ⊢
      have hn : setNames r = [] := by
        cases hh : setNames r with
        | nil => rfl
        | cons _ _ => rw [hh] at hle; simp at hle; omega
      simp [List.find?, Pat.isRest, restName, hn]
    · simp [List.find?, Pat.isRest, restName, isIdent, setNames]
    · have := ih hs.2 (by simpa [setNames, restsElts, restName] using hle)
      simpa [List.find?, Pat.isRest, restName, isIdent, setNames, restsElts] using this
    · have := ih hs.2 (by simpa [setNames, restsElts, restName] using hle)
      simpa [List.find?, Pat.isRest, restName, isIdent, setNames, restsElts] using this

theorem eltMarks_cons (p : Pat) (r : List Pat) :
    eltMarks (p :: r) = (p.isRest || isIdent p, false) :: eltMarks r := rfl

theorem elts_counts (ρ : Env) : ∀ (elts : List Pat) (fws : List V), elts.all simpleElt = true →
    fixedValues ρ elts = some fws →
    elts.length = fws.length + (setNames elts).length + (restsElts elts).length ∧
    ((eltMarks elts).filter (·.1)).length = (setNames elts).length + (restsElts elts).length ∧
    ((eltMarks elts).filter (·.2)).length = 0 := by
  intro elts
  induction elts with
  | nil =>
    intro fws _ hf
    simp only [fixedValues, Option.some.injEq] at hf
    subst hf
    simp [eltMarks, setNames, restsElts]
  | cons p r ih =>
    intro fws hs hf
    simp only [List.all_cons, Bool.and_eq_true] at hs
    rw [eltMarks_cons]
    rcases simple_cases hs.1 with ⟨t, rfl⟩ | ⟨x, rfl⟩ | ⟨l, rfl⟩ | ⟨e, rfl⟩
    · have hfe : fixedValues ρ (.rest t :: r) = fixedValues ρ r := by simp [fixedValues, eltKind]
      rw [hfe] at hf
      obtain ⟨h1, h2, h3⟩ := ih fws hs.2 hf
      have hm : ((Pat.rest t).isRest || isIdent (Pat.rest t)) = true := rfl
      have hr : restsElts (.rest t :: r) = t :: restsElts r := rfl
      have hn : setNames (.rest t :: r) = setNames r := rfl
      simp only [List.filter_cons, hm, if_true, Bool.false_eq_true, if_false, List.length_cons, hr, hn, h2, h3]
      refine ⟨by rw [h1]; omega, by omega, trivial⟩
    · have hfe : fixedValues ρ (.name x :: r) = fixedValues ρ r := by simp [fixedValues, eltKind]
      rw [hfe] at hf
      obtain ⟨h1, h2, h3⟩ := ih fws hs.2 hf
      have hm : ((Pat.name x).isRest || isIdent (Pat.name x)) = true := rfl
      have hr : restsElts (.name x :: r) = restsElts r := rfl
      have hn : setNames (.name x :: r) = x :: setNames r := rfl
      simp only [List.filter_cons, hm, if_true, Bool.false_eq_true, if_false, List.length_cons, hr, hn, h2, h3]
      refine ⟨by rw [h1]; omega, by omega, trivial⟩
    · have hfe : fixedValues ρ (.lit l :: r) = (fixedValues ρ r).map (l.den :: ·) := by
        simp [fixedValues, eltKind, fixedValue]
      rw [hfe] at hf
      simp only [Option.map_eq_some_iff] at hf
      obtain ⟨fws', hf', rfl⟩ := hf
      obtain ⟨h1, h2, h3⟩ := ih fws' hs.2 hf'
      have hm : ((Pat.lit l).isRest || isIdent (Pat.lit l)) = false := rfl
      have hr : restsElts (.lit l :: r) = restsElts r := rfl
      have hn : setNames (.lit l :: r) = setNames r := rfl
      simp only [List.filter_cons, hm, Bool.false_eq_true, if_false, List.length_cons, hr, hn, h2, h3]
      refine ⟨by rw [h1]; omega, trivial, trivial⟩
    · cases he : e.eval ρ with
      | none => simp [fixedValues, eltKind, fixedValue, he] at hf
      | some w =>
        have hfe : fixedValues ρ (.exprs [e] :: r) = (fixedValues ρ r).map (w :: ·) := by
          simp [fixedValues, eltKind, fixedValue, he]
        rw [hfe] at hf
        simp only [Option.map_eq_some_iff] at hf
        obtain ⟨fws', hf', rfl⟩ := hf
        obtain ⟨h1, h2, h3⟩ := ih fws' hs.2 hf'
        have hm : ((Pat.exprs [e]).isRest || isIdent (Pat.exprs [e])) = false := rfl
        have hr : restsElts (.exprs [e] :: r) = restsElts r := rfl
        have hn : setNames (.exprs [e] :: r) = setNames r := rfl
        simp only [List.filter_cons, hm, Bool.false_eq_true, if_false, List.length_cons, hr, hn, h2, h3]
        refine ⟨by rw [h1]; omega, trivial, trivial⟩

theorem fixedValues_exists (ρ : Env) : ∀ (elts : List Pat), elts.all simpleElt = true →
    (∀ p, p ∈ elts → supported ρ p = true) → ∃ fws, fixedValues ρ elts = some fws := by
  intro elts
  induction elts with
  | nil => intro _ _; exact ⟨[], rfl⟩
  | cons p r ih =>
    intro hs hsup
    simp only [List.all_cons, Bool.and_eq_true] at hs
    obtain ⟨fws, hf⟩ := ih hs.2 (fun q hq => hsup q (List.mem_cons_of_mem _ hq))
    rcases simple_cases hs.1 with ⟨t, rfl⟩ | ⟨x, rfl⟩ | ⟨l, rfl⟩ | ⟨e, rfl⟩
    · exact ⟨fws, by simp [fixedValues, eltKind, hf]⟩
    · exact ⟨fws, by simp [fixedValues, eltKind, hf]⟩
    · exact ⟨l.den :: fws, by simp [fixedValues, eltKind, fixedValue, hf]⟩
    · have := hsup (.exprs [e]) (by simp)
      simp only [supported, List.all_cons, List.all_nil, Bool.and_true] at this
      cases he : e.eval ρ with
      | none => rw [he] at this; cases this
      | some w => exact ⟨w :: fws, by simp [fixedValues, eltKind, fixedValue, he, hf]⟩

theorem eltOK_not_simple {n : Nat} {p : Pat} (hok : eltOK n p = true) (hs : simpleElt p = false) :
    n = 1 ∧ isComplex p = true := by
  cases p with
  | exprs es =>
    cases es with
    | nil => simp [eltOK] at hok
    | cons e r => cases r <;> simp [eltOK, simpleElt] at hok hs
  | arr _ => simpa [eltOK, isComplex] using hok
  | tup _ => simpa [eltOK, isComplex] using hok
  | dict _ => simpa [eltOK, isComplex] using hok
  | set _ => simpa [eltOK, isComplex] using hok
  | lit _ => simp [simpleElt] at hs
  | name _ => simp [simpleElt] at hs
  | rest _ => simp [simpleElt] at hs

theorem filter_not_mem_nil (ms : List V) : ms.filter (fun m => !decide (m ∈ ([] : List V))) = ms :=
  List.filter_eq_self.2 (fun _ _ => by simp)

/-- a set pattern whose single element is a nested pattern: the "first element" rule -/
theorem set_single_complex (ρ : Env) (p : Pat) (v : V) (hc : isComplex p = true) (hsub : SubOK ρ p) :
    Impl.bind ρ (.set [p]) v = Res.ofOption (Spec.bind ρ (.set [p]) v) := by
  have hk : eltKind p = .free := by cases p <;> simp [isComplex] at hc <;> rfl
  have hmark : (p.isRest || isIdent p) = false := by cases p <;> simp [isComplex] at hc <;> rfl
  have hloop : ∀ e s, Impl.bindElts ρ 1 (e :: s) [p] = .ret (Impl.bind ρ p e) := by
    intro e s
    cases p <;> simp [isComplex] at hc <;> simp [Impl.bindElts]
  have hloop0 : Impl.bindElts ρ 1 [] [p] = .ret .panic := by
    cases p <;> simp [isComplex] at hc <;> simp [Impl.bindElts]
  have hscan : scanMarks (eltMarks [p]) 0 = some 0 := by
    simp [eltMarks, hmark, scanMarks]
  have hfix : fixedValues ρ [p] = some [] := by simp [fixedValues, hk]
  have hrests : restsElts [p] = [] := by
    simp [restsElts, eltKind_ne_rest (p := p) (by rw [hk]; decide)]
  simp only [Impl.bind, Spec.bind]
  cases hset : asSet v with
  | none => simp
  | some ms =>
    simp only [hscan, hfix, List.nodup_nil, List.all_nil, and_self, if_true, filter_not_mem_nil, List.length_singleton,
      Nat.add_zero, hrests]
    cases ms with
    | nil => simp [Spec.bindElts, hk]
    | cons e r =>
      cases r with
      | cons e' r' => simp [Spec.bindElts, hk]
      | nil =>
        simp only [List.length_singleton, Nat.lt_irrefl, gt_iff_lt, if_false, decide_false, Bool.and_false,
          Bool.false_eq_true, hloop, Spec.bindElts, hk]
        rw [hsub e]
        cases hb : Spec.bind ρ p e with
        | none => simp
        | some s => simp [mu_nil, Spec.bindElts]

theorem set_simple (ρ : Env) (elts : List Pat) (v : V) (hs : elts.all simpleElt = true)
    (hsup : ∀ p, p ∈ elts → supported ρ p = true) (hscan : (scanMarks (eltMarks elts) 0).isSome = true) :
    Impl.bind ρ (.set elts) v = Res.ofOption (Spec.bind ρ (.set elts) v) := by
  obtain ⟨fws, hf⟩ := fixedValues_exists ρ elts hs hsup
  obtain ⟨hc1, hc2, hc3⟩ := elts_counts ρ elts fws hs hf
  cases hsc : scanMarks (eltMarks elts) 0 with
  | none => rw [hsc] at hscan; cases hscan
  | some cnt =>
    obtain ⟨hle, hcnt⟩ := scanMarks_some _ 0 cnt (by omega) hsc
    rw [hc2, hc3] at hcnt
    simp only [Impl.bind, Spec.bind]
    cases hset : asSet v with
    | none => simp
    | some ms =>
      obtain ⟨_, hmnd⟩ := (asSet_iff v ms).1 hset
      simp only [hsc, hf]
      have hcondB : (fws.Nodup ∧ fws.all (fun w => decide (w ∈ ms)) = true) ↔
          (fws.Nodup ∧ ∀ w, w ∈ fws → w ∈ ms) := by simp [List.all_eq_true]
      obtain ⟨hl1, hl2⟩ := elts_loop ρ elts.length elts ms fws hs hf
      have hfind := find_extra elts hs (by omega)
      by_cases hcond : fws.Nodup ∧ ∀ w, w ∈ fws → w ∈ ms
      · have hfl : fws.length ≤ ms.length := nodup_subset_length fws ms hcond.1 hcond.2
        have h1 : ¬ (elts.length > ms.length + cnt) := by omega
        rw [if_neg h1, if_pos (hcondB.2 hcond), hl1 hcond]
        cases hn : setNames elts with
        | nil =>
          rw [hn] at hfind hc1 hcnt
          rw [specElts_skip ρ elts [] _ hs hn]
          cases hr : restsElts elts with
          | nil =>
            rw [hr] at hfind hc1 hcnt
            simp only [List.length_nil, Nat.add_zero] at hc1 hcnt
            subst hcnt
            simp only [hfind, if_true]
            by_cases hlt : elts.length < ms.length
            · have hne : ms.filter (fun m => !decide (m ∈ fws)) ≠ [] := by
                intro he
                rw [List.filter_eq_nil_iff] at he
                have hsub : ∀ m, m ∈ ms → m ∈ fws := fun m hm => by simpa using he m hm
                have := nodup_subset_length ms fws hmnd hsub
                omega
              simp [hlt, hne]
            · have he : ms.filter (fun m => !decide (m ∈ fws)) = [] := by
                rw [List.filter_eq_nil_iff]
                intro m hm
                have := nodup_subset_full fws ms hcond.1 hcond.2 (by omega) m hm
                simpa using this
              simp [hlt, he]
          | cons t r' =>
            rw [hr] at hfind hc1 hcnt
            have hr' : r' = [] := by
              cases r' with
              | nil => rfl
              | cons _ _ => simp at hcnt; omega
            subst hr'
            have hcnt1 : cnt = 1 := by simpa using hcnt
            subst hcnt1
            simp only [hfind, Nat.succ_ne_zero, decide_false, Bool.false_and, Bool.false_eq_true, if_false,
              List.cons_ne_nil, bindRests]
            cases matchedUpdate [] (singleRest t (.set (ms.filter (fun m => !decide (m ∈ fws))))) <;> simp
        | cons x ns =>
          rw [hn] at hfind hc1 hcnt
          have hns : ns = [] ∧ restsElts elts = [] := by
            cases ns with
            | nil =>
              cases hr : restsElts elts with
              | nil => exact ⟨rfl, rfl⟩
              | cons _ _ => rw [hr] at hcnt; simp at hcnt; omega
            | cons _ _ => simp at hcnt; omega
          obtain ⟨rfl, hr⟩ := hns
          rw [hr] at hcnt
          have hcnt1 : cnt = 1 := by simpa using hcnt
          subst hcnt1
          rw [specElts_name ρ elts [] _ x hs hn]
          simp only [hfind, Nat.succ_ne_zero, decide_false, Bool.false_and, Bool.false_eq_true, if_false, hr,
            if_true]
          cases ms.filter (fun m => !decide (m ∈ fws)) with
          | nil => simp
          | cons w l2 =>
            cases l2 with
            | cons _ _ => simp
            | nil =>
              simp only
              cases matchedUpdate [] (single x w) <;> simp
      · rw [if_neg (fun h => hcond (hcondB.1 h)), hl2 hcond]
        split
        · rfl
        · split <;> rfl

theorem set_refine (ρ : Env) (elts : List Pat) (v : V)
    (hsub : ∀ p, p ∈ elts → SubOK ρ p) (hsup : ∀ p, p ∈ elts → supported ρ p = true)
    (hscan : (scanMarks (eltMarks elts) 0).isSome = true) (hok : elts.all (eltOK elts.length) = true) :
    Impl.bind ρ (.set elts) v = Res.ofOption (Spec.bind ρ (.set elts) v) := by
  by_cases hs : elts.all simpleElt = true
  · exact set_simple ρ elts v hs hsup hscan
  · -- a nested pattern: it is the only element
    have : ∃ p, p ∈ elts ∧ simpleElt p = false := by
      have hs' : elts.all simpleElt = false := by simpa using hs
      rw [List.all_eq_false] at hs'
      obtain ⟨p, hp, hps⟩ := hs'
      exact ⟨p, hp, by simpa using hps⟩
    obtain ⟨p, hp, hps⟩ := this
    obtain ⟨hn, hc⟩ := eltOK_not_simple ((List.all_eq_true.1 hok) p hp) hps
    have : elts = [p] := by
      cases elts with
      | nil => simp at hp
      | cons a r =>
        cases r with
        | nil => simp at hp; rw [hp]
        | cons _ _ => simp at hn
    subst this
    exact set_single_complex ρ p v hc (hsub p (by simp))

/-! ## tying the knot -/

theorem exprsLoop_eq (ρ : Env) (v : V) : ∀ (es : List PExpr), es.all (fun e => (e.eval ρ).isSome) = true →
    Impl.exprsLoop ρ v es =
      Res.ofOption (if es.any (fun e => decide (e.eval ρ = some v)) then some ([] : Env) else none)
  | [], _ => by simp [Impl.exprsLoop]
  | e :: r, h => by
    simp only [List.all_cons, Bool.and_eq_true] at h
    cases he : e.eval ρ with
    | none => rw [he] at h; simp at h
    | some w =>
      simp only [Impl.exprsLoop, he, List.any_cons, Option.some.injEq]
      by_cases hvw : v = w
      · subst hvw; simp
      · have hwv : ¬ w = v := fun e => hvw e.symm
        simp only [hvw, if_false, hwv, decide_false, Bool.false_or]
        exact exprsLoop_eq ρ v r h.2

theorem supportedElts_mem (ρ : Env) : ∀ (elts : List Pat), supportedElts ρ elts = true →
    ∀ p, p ∈ elts → supported ρ p = true
  | [], _ => by intro p hp; simp at hp
  | a :: r, h => by
    simp only [supportedElts, Bool.and_eq_true] at h
    intro p hp
    rcases List.mem_cons.1 hp with rfl | hp
    · exact h.1
    · exact supportedElts_mem ρ r h.2 p hp

mutual
/-- on supported patterns the transliterated Go matcher computes the specification's decision procedure -/
theorem impl_eq (ρ : Env) : ∀ (p : Pat), supported ρ p = true → SubOK ρ p
  | .lit l, _ => by
    intro w
    simp only [Impl.bind, Spec.bind]
    by_cases h : w = l.den
    · simp [h]
    · have : ¬ l.den = w := fun e => h e.symm
      simp [h, this]
  | .name x, _ => by intro w; simp [Impl.bind, Spec.bind]
  | .rest x, _ => by intro w; simp [Impl.bind, Spec.bind]
  | .exprs es, h => by
    intro w
    simp only [supported] at h
    simp only [Impl.bind, Spec.bind]
    cases es with
    | nil => simp
    | cons e r =>
      simp only [List.isEmpty_cons, Bool.false_eq_true, if_false]
      exact exprsLoop_eq ρ w (e :: r) h
  | .arr items, h => by
    simp only [supported, Bool.and_eq_true] at h
    intro w
    exact arr_refine ρ items w (impl_eq_items ρ items h.2) h.1
  | .tup attrs, h => by
    simp only [supported, Bool.and_eq_true, decide_eq_true_eq] at h
    intro w
    exact tup_refine ρ attrs w (impl_eq_attrs ρ attrs h.2) h.1.1 h.1.2
  | .dict ents, h => by
    simp only [supported, Bool.and_eq_true, decide_eq_true_eq] at h
    intro w
    refine dict_refine ρ ents w (impl_eq_ents ρ ents h.2) h.1.1.1 ?_ h.1.2
    intro q hq
    have := (List.all_eq_true.1 h.1.1.2) q hq
    simpa using this
  | .set elts, h => by
    simp only [supported, Bool.and_eq_true] at h
    intro w
    exact set_refine ρ elts w (impl_eq_elts ρ elts h.2) (supportedElts_mem ρ elts h.2) h.1.1 h.1.2
theorem impl_eq_items (ρ : Env) : ∀ (items : List (Pat × Option FExpr)), supportedItems ρ items = true →
    ∀ q, q ∈ items → SubOK ρ q.1
  | [], _ => by intro q hq; simp at hq
  | (p, fb) :: r, h => by
    simp only [supportedItems, Bool.and_eq_true] at h
    intro q hq
    rcases List.mem_cons.1 hq with hq | hq
    · rw [hq]; exact impl_eq ρ p h.1
    · exact impl_eq_items ρ r h.2 q hq
theorem impl_eq_attrs (ρ : Env) : ∀ (attrs : List (String × Pat × Option FExpr)), supportedAttrs ρ attrs = true →
    ∀ q, q ∈ attrs → SubOK ρ q.2.1
  | [], _ => by intro q hq; simp at hq
  | (n, p, fb) :: r, h => by
    simp only [supportedAttrs, Bool.and_eq_true] at h
    intro q hq
    rcases List.mem_cons.1 hq with hq | hq
    · rw [hq]; exact impl_eq ρ p h.1
    · exact impl_eq_attrs ρ r h.2 q hq
theorem impl_eq_ents (ρ : Env) : ∀ (ents : List (Lit × Pat × Option FExpr)), supportedEnts ρ ents = true →
    ∀ q, q ∈ ents → SubOK ρ q.2.1
  | [], _ => by intro q hq; simp at hq
  | (k, p, fb) :: r, h => by
    simp only [supportedEnts, Bool.and_eq_true] at h
    intro q hq
    rcases List.mem_cons.1 hq with hq | hq
    · rw [hq]; exact impl_eq ρ p h.1
    · exact impl_eq_ents ρ r h.2 q hq
theorem impl_eq_elts (ρ : Env) : ∀ (elts : List Pat), supportedElts ρ elts = true →
    ∀ q, q ∈ elts → SubOK ρ q
  | [], _ => by intro q hq; simp at hq
  | p :: r, h => by
    simp only [supportedElts, Bool.and_eq_true] at h
    intro q hq
    rcases List.mem_cons.1 hq with hq | hq
    · rw [hq]; exact impl_eq ρ p h.1
    · exact impl_eq_elts ρ r h.2 q hq
end

/-! ## supported patterns are deterministic -/

theorem itemMarks_cons (p : Pat) (fb : Option FExpr) (r : List (Pat × Option FExpr)) :
    itemMarks ((p, fb) :: r) = (p.isRest, fb.isSome) :: itemMarks r := rfl

theorem scan_one_plain : ∀ (r : List (Pat × Option FExpr)) (cnt : Nat),
    scanMarks (itemMarks r) 1 = some cnt → r.all (fun q => !q.1.isRest && q.2.isNone) = true
  | [], _, _ => rfl
  | (p, fb) :: r, cnt, h => by
    rw [itemMarks_cons] at h
    simp only [scanMarks] at h
    cases hp : p.isRest with
    | true => simp [hp] at h
    | false =>
      cases fb with
      | some d => simp [hp] at h
      | none =>
        simp only [hp, Bool.false_eq_true, if_false, Option.isSome_none] at h
        simp only [List.all_cons, hp, Bool.not_false, Option.isNone_none, Bool.and_self, Bool.true_and]
        exact scan_one_plain r cnt h

theorem scan_shape : ∀ (items : List (Pat × Option FExpr)) (c0 cnt : Nat), c0 ≤ 1 →
    scanMarks (itemMarks items) c0 = some cnt → detItemsShape items = true
  | [], _, _, _, _ => rfl
  | (p, fb) :: r, c0, cnt, h0, h => by
    rw [itemMarks_cons] at h
    simp only [scanMarks] at h
    cases hp : p.isRest with
    | true =>
      simp only [detItemsShape, hp, if_true]
      by_cases hc : c0 = 1
      · simp [hp, hc] at h
      · have hc0 : c0 = 0 := by omega
        subst hc0
        cases fb with
        | some d => simp [hp] at h
        | none =>
          simp only [hp, if_true, Option.isSome_none, Bool.false_eq_true, if_false] at h
          exact scan_one_plain r cnt (by simpa using h)
    | false =>
      simp only [detItemsShape, hp, Bool.false_eq_true, if_false]
      simp only [hp, Bool.false_eq_true, if_false] at h
      cases fb with
      | none =>
        simp only [Option.isSome_none, Bool.false_eq_true, if_false] at h
        exact scan_shape r c0 cnt h0 h
      | some d =>
        simp only [Option.isSome_some, if_true] at h
        by_cases hc : c0 = 1
        · simp [hc] at h
        · simp only [hc, if_false] at h
          exact scan_shape r (c0 + 1) cnt (by omega) h

theorem simple_kinds : ∀ (elts : List Pat), elts.all simpleElt = true →
    countKind .free elts = (setNames elts).length ∧ countKind .rest elts = (restsElts elts).length ∧
    elts.any isAlternatives = false := by
  intro elts
  induction elts with
  | nil => intro _; simp [countKind, setNames, restsElts]
  | cons p r ih =>
    intro hs
    simp only [List.all_cons, Bool.and_eq_true] at hs
    obtain ⟨h1, h2, h3⟩ := ih hs.2
    rw [countKind_cons, countKind_cons]
    rcases simple_cases hs.1 with ⟨t, rfl⟩ | ⟨x, rfl⟩ | ⟨l, rfl⟩ | ⟨e, rfl⟩
    · simp [eltKind, setNames, restsElts, restName, isAlternatives, h1, h2, h3]; omega
    · simp [eltKind, setNames, restsElts, restName, isAlternatives, h1, h2, h3]; omega
    · simp [eltKind, setNames, restsElts, restName, isAlternatives, h1, h2, h3]
    · simp [eltKind, setNames, restsElts, restName, isAlternatives, h1, h2, h3]

mutual
theorem supported_det (ρ : Env) : ∀ (p : Pat), supported ρ p = true → det p = true
  | .lit _, _ => rfl
  | .name _, _ => rfl
  | .rest _, _ => rfl
  | .exprs _, _ => rfl
  | .arr items, h => by
    simp only [supported, Bool.and_eq_true] at h
    simp only [det, Bool.and_eq_true]
    refine ⟨?_, supported_detItems ρ items h.2⟩
    cases hs : scanMarks (itemMarks items) 0 with
    | none => rw [hs] at h; simp at h
    | some cnt => exact scan_shape items 0 cnt (by omega) hs
  | .tup attrs, h => by
    simp only [supported, Bool.and_eq_true, decide_eq_true_eq] at h
    simp only [det, Bool.and_eq_true, decide_eq_true_eq]
    exact ⟨h.1.1, supported_detAttrs ρ attrs h.2⟩
  | .dict ents, h => by
    simp only [supported, Bool.and_eq_true, decide_eq_true_eq] at h
    simp only [det, Bool.and_eq_true, decide_eq_true_eq]
    exact ⟨h.1.1.1, supported_detEnts ρ ents h.2⟩
  | .set elts, h => by
    simp only [supported, Bool.and_eq_true] at h
    obtain ⟨⟨hscan, hok⟩, hsub⟩ := h
    simp only [det, Bool.and_eq_true, decide_eq_true_eq, Bool.not_eq_true']
    refine ⟨?_, supported_detElts ρ elts hsub⟩
    by_cases hs : elts.all simpleElt = true
    · obtain ⟨h1, h2, h3⟩ := simple_kinds elts hs
      obtain ⟨fws, hf⟩ := fixedValues_exists ρ elts hs (supportedElts_mem ρ elts hsub)
      obtain ⟨_, hc2, hc3⟩ := elts_counts ρ elts fws hs hf
      cases hsc : scanMarks (eltMarks elts) 0 with
      | none => rw [hsc] at hscan; cases hscan
      | some cnt =>
        obtain ⟨hle, hcnt⟩ := scanMarks_some _ 0 cnt (by omega) hsc
        rw [hc2, hc3] at hcnt
        exact ⟨by omega, h3⟩
    · have hs' : elts.all simpleElt = false := by simpa using hs
      rw [List.all_eq_false] at hs'
      obtain ⟨p, hp, hps⟩ := hs'
      obtain ⟨hn, hc⟩ := eltOK_not_simple ((List.all_eq_true.1 hok) p hp) (by simpa using hps)
      have : elts = [p] := by
        cases elts with
        | nil => simp at hp
        | cons a r =>
          cases r with
          | nil => simp at hp; rw [hp]
          | cons _ _ => simp at hn
      subst this
      cases p <;> simp [isComplex] at hc <;> simp [countKind, eltKind, isAlternatives]
theorem supported_detItems (ρ : Env) : ∀ (items : List (Pat × Option FExpr)),
    supportedItems ρ items = true → detItems items = true
  | [], _ => rfl
  | (p, fb) :: r, h => by
    simp only [supportedItems, Bool.and_eq_true] at h
    simp only [detItems, Bool.and_eq_true]
    exact ⟨supported_det ρ p h.1, supported_detItems ρ r h.2⟩
theorem supported_detAttrs (ρ : Env) : ∀ (attrs : List (String × Pat × Option FExpr)),
    supportedAttrs ρ attrs = true → detAttrs attrs = true
  | [], _ => rfl
  | (n, p, fb) :: r, h => by
    simp only [supportedAttrs, Bool.and_eq_true] at h
    simp only [detAttrs, Bool.and_eq_true]
    exact ⟨supported_det ρ p h.1, supported_detAttrs ρ r h.2⟩
theorem supported_detEnts (ρ : Env) : ∀ (ents : List (Lit × Pat × Option FExpr)),
    supportedEnts ρ ents = true → detEnts ents = true
  | [], _ => rfl
  | (k, p, fb) :: r, h => by
    simp only [supportedEnts, Bool.and_eq_true] at h
    simp only [detEnts, Bool.and_eq_true]
    exact ⟨supported_det ρ p h.1, supported_detEnts ρ r h.2⟩
theorem supported_detElts (ρ : Env) : ∀ (elts : List Pat),
    supportedElts ρ elts = true → detElts elts = true
  | [], _ => rfl
  | p :: r, h => by
    simp only [supportedElts, Bool.and_eq_true] at h
    simp only [detElts, Bool.and_eq_true]
    exact ⟨supported_det ρ p h.1, supported_detElts ρ r h.2⟩
end

end Arrai.C09
