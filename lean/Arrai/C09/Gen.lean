/-
  C09 case generator.  Programs
      let o1 = …; let P = V; (n₁: n₁, …)          (the tuple of all bound names is the observable)
      let o1 = …; (\P (n₁: n₁, …))(V)
      let o1 = …; cond (V) {P₁: (k: 0, b: (…)), P₂: (k: 1, b: (…)), …}
  Patterns are made FROM a random value by abstraction (sub-values replaced by names, `_`, `...rest`, fallbacks,
  repeated names, `(o1)`), so about half of them match, and are then mutated into near-misses (a literal changed,
  an element added or removed, the kind changed, an offset or a hole introduced in the value).
-/
import Arrai.C09.Model

namespace Arrai.C09
open Arrai

/-! ## rendering -/

def renderV : Res V → String
  | .ok v => v.canon
  | .err => "error"
  | .panic => "panic"

def namesTupleSrc (ns : List String) : String :=
  "(" ++ ", ".intercalate (ns.map (fun n => n ++ ": " ++ n)) ++ ")"

def scopeSrc (ρ : List (String × Lit)) : String :=
  String.join (ρ.map (fun b => "let " ++ b.1 ++ " = " ++ b.2.src ++ "; "))

def denScope (ρ : List (String × Lit)) : Env := (ρ.map (fun b => (b.1, b.2.den))).reverse

/-- the enclosing scope: a chain of `let`s, or (fnScope) a chain of function parameters -/
def scopeWrap (fnScope : Bool) (ρ : List (String × Lit)) (body : String) : String :=
  if fnScope then ρ.foldr (fun b acc => "(\\" ++ b.1 ++ " " ++ acc ++ ")(" ++ b.2.src ++ ")") body
  else scopeSrc ρ ++ body

def letSrc (fnScope : Bool) (ρ : List (String × Lit)) (p : Pat) (v : Lit) : String :=
  scopeWrap fnScope ρ ("let " ++ p.src ++ " = " ++ v.src ++ "; " ++ namesTupleSrc (bodyNames p))

def fnSrc (fnScope : Bool) (ρ : List (String × Lit)) (p : Pat) (v : Lit) : String :=
  scopeWrap fnScope ρ ("(\\" ++ p.src ++ " " ++ namesTupleSrc (bodyNames p) ++ ")(" ++ v.src ++ ")")

def armSrc (i : Nat) (p : Pat) : String :=
  p.src ++ ": (k: " ++ toString i ++ ", b: " ++ namesTupleSrc (bodyNames p) ++ ")"

def armsSrc : List Pat → Nat → List String
  | [], _ => []
  | p :: r, i => armSrc i p :: armsSrc r (i + 1)

def condSrc (fnScope : Bool) (ρ : List (String × Lit)) (arms : List Pat) (v : Lit) : String :=
  scopeWrap fnScope ρ ("cond (" ++ v.src ++ ") {" ++ ", ".intercalate (armsSrc arms 0) ++ "}")

/-- the value of a cond: `(k: i, b: (names…))` of the chosen arm, `{}` when no arm is chosen -/
def condVal (ρ : Env) (arms : List Pat) : Res (Option (Nat × Env)) → Res V
  | .ok none => .ok V.none
  | .ok (some (i, σ)) =>
    match bodyVal ρ σ (bodyNames (arms.getD i (.name "_"))) with
    | some b => .ok (V.mkTup [("k", .num i), ("b", b)])
    | none => .err
  | .err => .err
  | .panic => .panic

/-! ## expected observables and classes -/

/-- a pattern that does not compile at all (duplicate tuple fields, duplicated set-pattern items): every program with
it is an error -/
def modelLet (ρ : Env) (p : Pat) (v : V) : Res V :=
  if badTuple p || hasSetDup p then .err else Impl.evalLet ρ p v
def specLet (ρ : Env) (p : Pat) (v : V) : Res V :=
  if badTuple p || hasSetDup p || !det p then .err else Res.ofOption (Spec.evalLet ρ p v)
def modelCond (ρ : Env) (arms : List Pat) (v : V) : Res V :=
  if arms.any badTuple || arms.any hasSetDup then .err
  else condVal ρ arms (Impl.evalCond ρ v arms 0)
def specCond (ρ : Env) (arms : List Pat) (v : V) : Res V :=
  if arms.any badTuple || arms.any hasSetDup then .err else condVal ρ arms (Spec.evalCond ρ v arms 0)

/-- the known finding that explains a difference between the code's model and the specification -/
def classify (ps : List Pat) (isCond : Bool) (m s : String) : String :=
  if m == s then "good"
  else if m == "panic" && ps.any hasSetPanic then "KF-setpattern-panic"
  else if ps.any hasMultiOptional then "KF-pattern-multi-optional"
  else if ps.any hasOpenDict then "KF-dict-fallback-open"
  else if isCond && s == "error" then "KF-cond-swallows-errors"
  else "good"

def topKind : Pat → String
  | .lit _ => "lit" | .name _ => "name" | .exprs _ => "expr" | .rest _ => "rest"
  | .arr _ => "arr" | .tup _ => "tup" | .dict _ => "dict" | .set _ => "set"

def outcomeKind (s : String) : String :=
  if s == "error" then "nomatch" else if s == "{}" then "none" else "match"

def mkLet (id : String) (fn : Bool) (ρ : List (String × Lit)) (p : Pat) (v : Lit) (tag : String := "")
    (fnScope : Bool := false) : Case :=
  let m := renderV (modelLet (denScope ρ) p v.den)
  let s := renderV (specLet (denScope ρ) p v.den)
  { id := id, cls := classify [p] false m s, kind := "eval",
    stratum := (if fn then "fn/" else "let/") ++ topKind p ++ "/" ++ outcomeKind s ++ tag,
    model := m, spec := s, payload := [if fn then fnSrc fnScope ρ p v else letSrc fnScope ρ p v] }

def mkCond (id : String) (ρ : List (String × Lit)) (arms : List Pat) (v : Lit) (tag : String := "")
    (fnScope : Bool := false) : Case :=
  let m := renderV (modelCond (denScope ρ) arms v.den)
  let s := renderV (specCond (denScope ρ) arms v.den)
  { id := id, cls := classify arms true m s, kind := "eval",
    stratum := "cond/" ++ outcomeKind s ++ tag, model := m, spec := s, payload := [condSrc fnScope ρ arms v] }

/-! ## patterns from values -/

/-- literals that may be written bare in a pattern (NUM, true, false) -/
def bareOK : Lit → Bool
  | .num n => n ≥ 0
  | .tt | .ff => true
  | _ => false

/-- keys a dict pattern can carry (they must compile to literal values) -/
def keyOK : Lit → Bool
  | .num n => n ≥ 0
  | .str 0 _ => true
  | _ => false

def litPat (l : Lit) : Pat := if bareOK l then .lit l else .exprs [.lit l]

def namePool : List String := ["a", "b", "c", "x", "y", "z"]

structure St where
  used : List String := []
  ρ : List (String × Lit) := []

def freshName (st : St) : Gen (String × St) := do
  let avail := namePool.filter (fun n => !st.used.contains n)
  -- sometimes the pattern re-binds a name of the enclosing scope (a fallback mentioning it still sees the outer value)
  let outer ← chance 1 12
  if outer && !st.ρ.isEmpty then
    let b ← pick st.ρ
    return (b.1, { st with used := b.1 :: st.used })
  let reuse ← chance 1 7
  if (reuse && !st.used.isEmpty) || avail.isEmpty then
    let n ← pick (if st.used.isEmpty then namePool else st.used)
    pure (n, st)
  else
    let n ← pick avail
    pure (n, { st with used := n :: st.used })

def genSmallLit : Gen Lit := Lit.genLit 0

/-- a leaf pattern for the value `l` -/
def leafPat (st : St) (l : Lit) : Gen (Pat × St) := do
  let r ← rand 12
  let outer := st.ρ.filter (fun b => decide (b.2.den = l.den))
  if r < 4 then
    let (n, st) ← freshName st
    pure (.name n, st)
  else if r == 4 then pure (.name "_", st)
  else if r == 5 && !outer.isEmpty then
    let b ← pick outer
    pure (.exprs [.var b.1], st)
  else if r == 6 then
    -- alternatives `(l, other)`
    let o ← genSmallLit
    let first ← chance 1 2
    pure (.exprs (if first then [.lit l, .lit o] else [.lit o, .lit l]), st)
  else if r == 7 then pure (.exprs [.lit l], st)
  else pure (litPat l, st)

/-- a `?:` fallback and the value it denotes in the enclosing scope (none: it cannot be evaluated):
a literal (½), a name of the enclosing scope, or `name + k` -/
def genFb (st : St) : Gen (FExpr × Option Lit) := do
  let r ← rand 12
  let nums := st.ρ.filter (fun b => match b.2 with | .num _ => true | _ => false)
  if r < 6 || st.ρ.isEmpty then
    let l ← genSmallLit
    pure (.lit l, some l)
  else if r < 9 then
    let b ← pick st.ρ
    pure (.var b.1, some b.2)
  else if r < 11 && !nums.isEmpty then
    let b ← pick nums
    let k ← rand 3
    match b.2 with
    | .num n => pure (.add b.1 k, some (.num (n + k)))
    | _ => pure (.var b.1, some b.2)
  else if r == 11 then
    -- a name that only the pattern itself binds (not in scope for a fallback), or bound to a non-number
    let bad ← pick ["a", "x", "zz"]
    pure (.var bad, (st.ρ.find? (fun b => b.1 == bad)).map (·.2))
  else
    let b ← pick st.ρ
    pure (.add b.1 1, match b.2 with | .num n => some (.num (n + 1)) | _ => none)

/-- the pattern of an absent component with fallback `e` (value `val`) -/
def fbLeaf (st : St) (val : Option Lit) : Gen (Pat × St) :=
  match val with
  | some l => leafPat st l
  | none => do
    let (n, st) ← freshName st
    pure (.name n, st)

/-- an absent component whose pattern is itself a container with fallbacks that mention the enclosing scope:
`?(b?: x:n1):()`, `?[?x:(n1 + 1)]:[]`, `?{1?: x:o1}:{}`, nested up to depth d -/
def genNestedFb : Nat → St → Gen (Pat × FExpr × St)
  | 0, st => do
    let (e, val) ← genFb st
    let (p, st) ← fbLeaf st val
    pure (p, e, st)
  | d + 1, st => do
    let (inner, e, st) ← genNestedFb d st
    let k ← rand 3
    let withRest ← chance 1 4
    match k with
    | 0 =>
      let attrs : List (String × Pat × Option FExpr) := [("b", inner, some e)] ++ (if withRest then [("", .rest "", none)] else [])
      pure (.tup attrs, .lit (.tup []), st)
    | 1 => pure (.arr [(inner, some e)], .lit (.arr 0 []), st)
    | _ => pure (.dict [(.num 1, inner, some e)], .lit (.set []), st)

/-- an optional component to append: a leaf with a fallback, or a nested one -/
def genAbsent (d : Nat) (st : St) : Gen (Pat × FExpr × St) := do
  let nested ← chance 1 3
  if nested then
    let depth ← rand (min d 2 + 1)
    genNestedFb (depth + 1) st
  else genNestedFb 0 st

def restPat (st : St) : Gen (Pat × St) := do
  let anon ← chance 1 3
  if anon then pure (.rest "", st)
  else
    let (n, st) ← freshName st
    pure (.rest n, st)

def dedupLits (xs : List Lit) : List Lit := Lit.dedupBy Lit.den xs

def allSome : List (Option Lit) → Option (List Lit)
  | [] => some []
  | some x :: r => (allSome r).map (x :: ·)
  | none :: _ => none

def presentOnly : List (Option Lit) → List Lit
  | [] => []
  | some x :: r => x :: presentOnly r
  | none :: r => presentOnly r

/-- keep the first of several set-pattern items that NewSetPattern would call duplicates -/
def dedupElts (es : List Pat) : List Pat :=
  (es.foldl (fun acc e => if acc.any (fun a => dupKey a == dupKey e) then acc else e :: acc) []).reverse

def firstAlt : Pat → Pat
  | .exprs (e :: _ :: _) => .exprs [e]
  | p => p

/-- `abstract d st l`: a pattern of nesting depth ≤ d made from the value `l` -/
def abstract : Nat → St → Lit → Gen (Pat × St)
  | 0, st, l => leafPat st l
  | d + 1, st, l => do
    let leaf ← chance 1 4
    if leaf then leafPat st l else
    match l with
    | .arr _ oxs => do
      -- an offset or holes are ignored here: such a value must not match
      let xs := presentOnly oxs
      let mut st := st
      let mut items : List (Pat × Option FExpr) := []
      for x in xs do
        let (p, st') ← abstract d st x
        st := st'
        items := items ++ [(p, none)]
      let t ← rand 12
      if t < 3 then
        -- a segment becomes ...rest
        let i ← rand (items.length + 1)
        let k ← rand (items.length - i + 1)
        let (rp, st') ← restPat st
        st := st'
        items := items.take i ++ [(rp, none)] ++ items.drop (i + k)
      else if t == 3 && !items.isEmpty then
        -- the last item gets a fallback (present: the fallback is not used)
        let (dflt, _) ← genFb st
        items := items.dropLast ++ (items.getLast?.map (fun q => (q.1, some dflt))).toList
      else if t == 4 then
        -- an additional, absent item with a fallback
        let (p, dflt, st') ← genAbsent d st
        st := st'
        items := items ++ [(p, some dflt)]
      else if t == 5 then
        -- unsupported: two optional parts
        let (p1, d1, st') ← genAbsent d st
        let (p2, d2, st'') ← genAbsent d st'
        st := st''
        items := items ++ [(p1, some d1), (p2, some d2)]
      else if t == 6 then
        -- a fallback item in the middle / before ...rest
        let (dflt, _) ← genFb st
        let (rp, st') ← restPat st
        st := st'
        let front ← chance 1 2
        items := if front then (items.map (fun q => (q.1, some dflt))).take 1 ++ items.drop 1 ++ [(rp, none)]
                 else items ++ [(rp, none), (.name "_", some dflt)]
      pure (.arr items, st)
    | .tup kvs => do
      let mut st := st
      let mut attrs : List (String × Pat × Option FExpr) := []
      let mut dropped := false
      for kv in kvs do
        let drop ← chance 1 5
        if drop then dropped := true
        else
          let (p, st') ← abstract d st kv.2
          st := st'
          let opt ← chance 1 6
          let (dflt, _) ← genFb st
          attrs := attrs ++ [(kv.1, p, if opt then some dflt else none)]
      let t ← rand 10
      let withRest ← chance 3 4
      if (dropped && withRest) || t == 0 then
        let (rp, st') ← restPat st
        st := st'
        let i ← rand (attrs.length + 1)
        attrs := attrs.take i ++ [("", rp, none)] ++ attrs.drop i
      if t == 1 || t == 2 then
        -- an absent attribute with a fallback
        let (p, dflt, st') ← genAbsent d st
        st := st'
        attrs := attrs ++ [("q", p, some dflt)]
      if t == 3 && attrs.length > 1 then attrs := attrs.drop 1 ++ attrs.take 1
      if t == 4 then attrs := attrs ++ attrs.take 1   -- duplicate field: does not compile
      pure (.tup attrs, st)
    | .dict kvs => do
      if kvs.isEmpty || !(kvs.all (fun kv => keyOK kv.1)) then leafPat st l else
      let mut st := st
      let mut ents : List (Lit × Pat × Option FExpr) := []
      let mut dropped := false
      for kv in kvs do
        let drop ← chance 1 5
        if drop then dropped := true
        else
          let (p, st') ← abstract d st kv.2
          st := st'
          let opt ← chance 1 8
          let (dflt, _) ← genFb st
          ents := ents ++ [(kv.1, p, if opt then some dflt else none)]
      let t ← rand 10
      let withRest ← chance 3 4
      if (dropped && withRest) || t == 0 then
        let (rp, st') ← restPat st
        st := st'
        let i ← rand (ents.length + 1)
        ents := ents.take i ++ [(.ff, rp, none)] ++ ents.drop i
      if t == 1 then
        let (p, dflt, st') ← genAbsent d st
        st := st'
        ents := ents ++ [(.num 9, p, some dflt)]
      if t == 2 && ents.length > 1 then ents := ents.drop 1 ++ ents.take 1
      -- `{...t}` alone is a set pattern: a dict pattern needs a keyed entry
      if ents.all (fun e => e.2.1.isRest) then leafPat st l else
      pure (.dict ents, st)
    | .set xs0 => do
      let xs := dedupLits xs0
      let t ← rand 10
      if xs.length == 1 && t < 5 then
        -- a single element: any nested pattern
        let (p, st) ← abstract d st (xs.getD 0 .ff)
        pure (.set [firstAlt p], st)
      else
        let mut st := st
        let mut elts : List Pat := []
        let nameAt ← rand (xs.length + 2)
        let mut dropped := false
        let mut i := 0
        for x in xs do
          if i == nameAt && t < 7 then
            let (n, st') ← freshName st
            st := st'
            elts := elts ++ [.name n]
          else
            let drop ← chance 1 4
            if drop then dropped := true
            else
              let par ← chance 1 4
              elts := elts ++ [if par then .exprs [.lit x] else litPat x]
          i := i + 1
        let withRest ← chance 3 4
        if (dropped && withRest) || t == 9 then
          let (rp, st') ← restPat st
          st := st'
          let j ← rand (elts.length + 1)
          elts := elts.take j ++ [rp] ++ elts.drop j
        if t == 8 && d > 0 then
          -- unsupported: a nested pattern next to other elements
          elts := elts ++ [.arr [(.name "_", none)]]
        pure (.set (dedupElts elts), st)
    | .str _ _ | .bytes _ _ | .rel _ _ => do
      let t ← rand 6
      if t == 0 then
        let (rp, st) ← restPat st
        pure (.set [rp], st)
      else leafPat st l
    | _ => leafPat st l

/-! ## mutations -/

def bumpNum : Lit → Lit
  | .num n => .num (n + 1)
  | .tt => .ff
  | .ff => .tt
  | .str o cs => .str o (cs ++ [97])
  | l => l

/-- a near-miss of the value -/
def mutLit : Nat → Lit → Gen Lit
  | 0, l => pure (bumpNum l)
  | d + 1, l => do
    let r ← rand 10
    match l with
    | .arr off oxs =>
      let xs := presentOnly oxs
      if r == 0 then pure (.arr (off + 1) oxs)                                  -- offset
      else if r == 1 && xs.length ≥ 2 then
        pure (.arr off ((xs.take 1).map some ++ [none] ++ (xs.drop 1).map some))  -- hole
      else if r == 2 then pure (.arr off (oxs ++ [some (.num 7)]))               -- longer
      else if r == 3 then pure (.arr off oxs.dropLast)                           -- shorter
      else if r == 4 then pure (.set xs)                                         -- kind
      else if r == 5 then pure (.arr off oxs.reverse)
      else if xs.isEmpty then pure (.num 0)
      else
        let i ← rand oxs.length
        match oxs.getD i none with
        | some x =>
          let x' ← mutLit d x
          pure (.arr off (oxs.take i ++ [some x'] ++ oxs.drop (i + 1)))
        | none => pure (.arr off oxs.dropLast)
    | .tup kvs =>
      if r == 0 then pure (.tup (kvs ++ [("w", .num 1)]))
      else if r == 1 then pure (.tup kvs.dropLast)
      else if r == 2 then pure (.dict (kvs.map (fun kv => (Lit.str 0 (kv.1.toList.map Char.toNat), kv.2))))
      else if r == 3 then pure (.tup ((kvs.take 1).map (fun kv => (kv.1 ++ "2", kv.2)) ++ kvs.drop 1))
      else if kvs.isEmpty then pure (.num 0)
      else
        let i ← rand kvs.length
        let kv := kvs.getD i ("a", .ff)
        let x' ← mutLit d kv.2
        pure (.tup (kvs.take i ++ [(kv.1, x')] ++ kvs.drop (i + 1)))
    | .dict kvs =>
      if r == 0 then pure (.dict (kvs ++ [(.num 8, .num 1)]))
      else if r == 1 then pure (.dict kvs.dropLast)
      else if r == 2 then pure (.set (kvs.map (·.2)))
      else if r == 3 then pure (.dict ((kvs.take 1).map (fun kv => (Lit.num 7, kv.2)) ++ kvs.drop 1))
      else if kvs.isEmpty then pure (.num 0)
      else
        let i ← rand kvs.length
        let kv := kvs.getD i (.ff, .ff)
        let x' ← mutLit d kv.2
        pure (.dict (kvs.take i ++ [(kv.1, x')] ++ kvs.drop (i + 1)))
    | .set xs =>
      if r == 0 then pure (.set (xs ++ [.num 9]))
      else if r == 1 then pure (.set xs.dropLast)
      else if r == 2 then pure (.arr 0 (xs.map some))
      else if xs.isEmpty then pure (.num 0)
      else
        let i ← rand xs.length
        let x' ← mutLit d (xs.getD i .ff)
        pure (.set (xs.take i ++ [x'] ++ xs.drop (i + 1)))
    | l => pure (bumpNum l)

/-- a near-miss of the pattern: one component removed, added or changed -/
def mutPat (p : Pat) : Gen Pat := do
  let r ← rand 4
  match p with
  | .arr items =>
    if r == 0 then pure (.arr items.dropLast)
    else if r == 1 then pure (.arr (items ++ [(.name "_", none)]))
    else if r == 2 then pure (.arr ((.lit (.num 5), none) :: items.drop 1))
    else pure (.set (dedupElts ((items.map (·.1)).map firstAlt)))
  | .tup attrs =>
    if r == 0 then pure (.tup attrs.dropLast)
    else if r == 1 then pure (.tup (attrs ++ [("w", .name "_", none)]))
    else if r == 2 then pure (.tup (attrs.map (fun a => (a.1, a.2.1, none))))
    else pure (.tup (("w", .lit (.num 5), none) :: attrs.drop 1))
  | .dict ents =>
    if r == 0 && ents.length > 1 then pure (.dict ents.dropLast)
    else if r == 1 then pure (.dict (ents ++ [(.num 6, .name "_", none)]))
    else if r == 2 then pure (.dict (ents.map (fun a => (a.1, a.2.1, none))))
    else pure (.dict ((.num 6, .lit (.num 5), none) :: ents.drop 1))
  | .set elts =>
    if r == 0 then pure (.set elts.dropLast)
    else if r == 1 then pure (.set (dedupElts (elts ++ [.lit (.num 77)])))
    else pure (.arr (elts.map (fun e => (e, none))))
  | .lit l => pure (.lit (bumpNum l))
  | .exprs _ => pure (.exprs [.lit (.num 41)])
  | p => pure (.arr [(p, none)])

/-! ## one random case -/

def genScope (v : Lit) : Gen (List (String × Lit)) := do
  let r ← rand 6
  if r < 2 then pure []
  else
    let sub : Lit := match v with
      | .arr _ (some x :: _) => x
      | .tup ((_, x) :: _) => x
      | .set (x :: _) => x
      | .dict ((_, x) :: _) => x
      | l => l
    let o ← genSmallLit
    let k ← rand 4
    let num : List (String × Lit) := [("n1", .num k)]
    let withNum ← chance 2 3
    let base : List (String × Lit) :=
      if r == 3 then [("o1", sub)] else if r == 4 then [("o1", o), ("o2", sub)] else [("o1", o)]
    pure (if withNum then num ++ base else base)

def genOne (idx : Nat) (big : Bool) : Gen Case := do
  let depth := if big then 3 else 2
  let v ← Lit.genLit depth
  let ρ ← genScope v
  let (p, _) ← abstract depth { ρ := ρ } v
  let mode ← rand 20
  -- 0..8 as is, 9..14 value mutated, 15..17 pattern mutated, 18 unrelated value, 19 unbound (x)
  let v' ← if 9 ≤ mode && mode < 15 then mutLit depth v else if mode == 18 then Lit.genLit depth else pure v
  let p' ← if 15 ≤ mode && mode < 18 then mutPat p else pure p
  let ρ' := if mode == 19 then ρ.drop 1 else ρ
  let tag := if mode < 9 then "" else if mode < 15 then "/mutV" else if mode < 18 then "/mutP"
    else if mode == 18 then "/other" else "/scope"
  let form ← rand 20
  let fnScope ← chance 1 4
  let id := s!"C09-{idx}"
  if form < 10 then pure (mkLet id false ρ' p' v' tag fnScope)
  else if form < 13 then pure (mkLet id true ρ' p' v' tag fnScope)
  else
    -- cond: a pattern made from another value, the pattern under test, a default
    let w ← Lit.genLit depth
    let (q, _) ← abstract depth { ρ := ρ } w
    let q := if det q && !hasSetPanic q then q else .lit (.num 3)
    let order ← rand 4
    let arms := match order with
      | 0 => [q, p', .name "_"]
      | 1 => [p', q, .name "_"]
      | 2 => [q, p']
      | _ => [p', .name "z"]
    -- truly non-deterministic patterns have no specified cond outcome: keep them to `let`
    if arms.all det then pure (mkCond id ρ' arms v' tag fnScope) else pure (mkLet id false ρ' p' v' tag fnScope)

/-! ## corpus: witnesses of the repaired defects, of the known findings, and documentation examples -/

def nl (k : Int) : Lit := .num k
def la (xs : List Lit) : Lit := .arr 0 (xs.map some)
def nm (x : String) : Pat × Option FExpr := (.name x, none)

def corpus : List Case :=
  [ -- repaired: repeated names compared by printed form
    mkLet "C09-corpus-0" false [] (.arr [nm "x", nm "x"]) (la [nl 1, .str 0 [49]]),
    mkLet "C09-corpus-1" false [] (.arr [nm "x", nm "x"]) (la [nl 1, nl 1]),
    -- repaired: offset and holes
    mkLet "C09-corpus-2" false [] (.arr [nm "a", nm "b"]) (.arr 1 [some (nl 1), some (nl 2)]),
    mkLet "C09-corpus-3" false [] (.arr [nm "a", nm "b"]) (.arr 0 [some (nl 1), none, some (nl 2)]),
    mkLet "C09-corpus-4" false [] (.arr [nm "a", (.rest "t", none)]) (.arr 0 [some (nl 1), none, some (nl 2)]),
    mkCond "C09-corpus-5" [] [.arr [nm "a", nm "b"], .name "_"] (.arr 1 [some (nl 1), some (nl 2)]),
    -- repaired: the empty array / dict against optional parts
    mkLet "C09-corpus-6" false [] (.arr [(.rest "t", none)]) (la []),
    mkLet "C09-corpus-7" false [] (.arr [(.name "x", some (.lit (nl 1)))]) (la []),
    mkLet "C09-corpus-8" false [] (.dict [(nl 2, .name "y", some (.lit (nl 5)))]) (.set []),
    -- repaired: an optional item accepted longer arrays
    mkLet "C09-corpus-9" false [] (.arr [nm "x", (.name "y", some (.lit (nl 5)))]) (la [nl 1, nl 2, nl 3]),
    mkLet "C09-corpus-10" false [] (.arr [nm "x", (.name "y", some (.lit (nl 5)))]) (la [nl 1, nl 2]),
    mkLet "C09-corpus-11" false [] (.arr [nm "x", (.name "y", some (.lit (nl 5)))]) (la [nl 1]),
    -- repaired: ... in a dict pattern before other entries
    mkLet "C09-corpus-12" false [] (.dict [(.ff, .rest "t", none), (nl 1, .name "x", none)])
      (.dict [(nl 1, nl 2), (nl 3, nl 4)]),
    -- repaired: set pattern ignored (expr) items
    mkLet "C09-corpus-13" false [] (.set [.exprs [.lit (nl 2)]]) (.set [nl 5]),
    mkLet "C09-corpus-14" false [] (.set [.exprs [.lit (nl 2)], .rest "t"]) (.set [nl 5]),
    mkLet "C09-corpus-15" false [] (.set [.exprs [.lit (.str 0 [97])], .name "y"]) (.set [.str 0 [97], nl 2]),
    -- known findings
    mkLet "C09-corpus-16" false [] (.dict [(nl 2, .name "y", some (.lit (nl 5)))]) (.dict [(nl 1, nl 1)]),
    mkLet "C09-corpus-17" false [] (.arr [(.name "x", some (.lit (nl 4))), (.name "y", some (.lit (nl 5)))]) (la [nl 1]),
    mkLet "C09-corpus-18" false [] (.set [.arr [nm "x"], .lit (nl 2)]) (.set [la [nl 1], nl 2]),
    mkCond "C09-corpus-19" [] [.exprs [.var "zz"], .name "_"] (nl 5),
    mkCond "C09-corpus-20" [] [.arr [(.name "a", some (.lit (nl 1))), (.name "b", some (.lit (nl 2)))], .name "_"] (la [nl 1]),
    mkLet "C09-corpus-28" false [] (.exprs [.lit (.set [.set [nl 1, .set []]])]) (.set [.set [nl 1]]),
    mkLet "C09-corpus-29" false [] (.arr [(.exprs [.lit (.set [.set [nl 1, .set []], nl 3])], none)])
      (la [.set [.set [nl 1], nl 3]]),
    -- fallbacks are evaluated in the enclosing scope, also inside a component supplied by another fallback
    mkLet "C09-corpus-30" false [("n", nl 3)]
      (.tup [("a", .tup [("b", .name "x", some (.var "n"))], some (.lit (.tup [])))]) (.tup []),
    mkCond "C09-corpus-31" [("n", nl 3)]
      [.tup [("a", .tup [("b", .name "x", some (.var "n"))], some (.lit (.tup [])))], .name "_"] (.tup []),
    mkLet "C09-corpus-32" true [("n", nl 3)]
      (.arr [nm "y", (.arr [(.name "x", some (.add "n" 1))], some (.lit (la [])))]) (la [nl 7]) "" true,
    mkLet "C09-corpus-33" false [("n", nl 3)]
      (.dict [(nl 1, .dict [(nl 2, .name "x", some (.var "n"))], some (.lit (.set [])))]) (.set []),
    mkLet "C09-corpus-34" false [("n", nl 3)]
      (.tup [("a", .tup [("b", .tup [("c", .name "x", some (.add "n" 2))], some (.lit (.tup [])))], some (.lit (.tup [])))])
      (.tup []),
    mkLet "C09-corpus-35" false [("n", nl 3)] (.arr [nm "n", (.name "y", some (.var "n"))]) (la [nl 9]),
    mkLet "C09-corpus-36" false [] (.arr [nm "a", (.name "y", some (.var "a"))]) (la [nl 9]),
    mkCond "C09-corpus-37" [("n", nl 3)]
      [.tup [("a", .lit (nl 4), some (.add "n" 1))], .tup [("a", .name "x", some (.var "n")), ("", .rest "t", none)]]
      (.tup [("b", nl 1)]) "" true,
    -- documentation examples
    mkLet "C09-corpus-21" false [] (.arr [nm "x", (.rest "t", none), nm "y"]) (la [nl 1, nl 2, nl 3, nl 4, nl 5, nl 6]),
    mkLet "C09-corpus-22" false []
      (.tup [("m", .name "x", none), ("n", .name "y", none), ("", .rest "t", none)])
      (.tup [("m", nl 1), ("n", nl 2), ("j", nl 3), ("k", nl 4)]),
    mkLet "C09-corpus-23" false [("x", nl 1), ("y", nl 42)]
      (.set [.exprs [.var "x"], .exprs [.var "y"], .rest "t"]) (.set [nl 1, nl 42, nl 5, nl 6]),
    mkLet "C09-corpus-24" false [] (.tup [("a", .name "x", some (.lit (nl 1))), ("b", .lit (nl 2), none), ("", .rest "t", none)])
      (.tup [("b", nl 2)]),
    mkLet "C09-corpus-25" true [] (.tup [("a", .name "x", none), ("", .rest "t", none)])
      (.tup [("a", nl 1), ("b", nl 2)]),
    mkLet "C09-corpus-26" false [] (.set [.name "a", .lit (nl 42)]) (.set [nl 3, nl 42]),
    mkLet "C09-corpus-27" false [] (.set [.name "a", .name "b"]) (.set [nl 3, nl 42]) ]

/-! ## exhaustive: patterns of depth ≤ 2 with ≤ 3 components against a pool of 40 values -/

def pool : List Lit :=
  [ nl 1, nl 2, .tt, .set [], la [nl 1], la [nl 2], la [nl 1, nl 2], la [nl 2, nl 1], la [nl 1, nl 1], la [nl 1, nl 2, nl 3],
    la [nl 1, nl 2, nl 1, nl 2], la [la [nl 1], nl 2], la [la [nl 1, nl 2]], .arr 1 [some (nl 1), some (nl 2)],
    .arr 0 [some (nl 1), none, some (nl 2)], .tup [], .tup [("a", nl 1)], .tup [("a", nl 2)], .tup [("b", nl 1)],
    .tup [("a", nl 1), ("b", nl 2)], .tup [("a", nl 1), ("b", nl 1)], .tup [("a", nl 1), ("b", nl 2), ("c", nl 1)],
    .tup [("a", la [nl 1])], .dict [(nl 1, nl 1)], .dict [(nl 1, nl 2)], .dict [(nl 2, nl 1)], .dict [(nl 1, nl 1), (nl 2, nl 2)],
    .dict [(nl 1, nl 2), (nl 2, nl 1), (nl 3, nl 1)], .dict [(nl 1, la [nl 1])], .set [nl 1], .set [nl 2], .set [nl 1, nl 2],
    .set [nl 1, nl 2, nl 3], .set [la [nl 1]], .set [la [nl 1], nl 2], .set [.tup [("a", nl 1)]], .str 0 [97],
    .str 0 [97, 98], la [.tup [("a", nl 1)], nl 1], la [.dict [(nl 1, nl 1)]] ]

def leaves : List Pat := [.lit (nl 1), .name "a", .name "b", .name "_"]

def seqs {α} (xs : List α) : Nat → List (List α)
  | 0 => [[]]
  | k + 1 => (seqs xs k) ++ ((seqs xs k).filter (fun s => s.length == k)).flatMap (fun s => xs.map (fun x => s ++ [x]))

/-- all lists over `xs` of length ≤ k -/
def upTo {α} (xs : List α) (k : Nat) : List (List α) := seqs xs k

def nodupBy {α} (key : α → String) (xs : List α) : Bool := (xs.map key).eraseDups.length == xs.length

/-- container patterns with ≤ k components over the given inner patterns -/
def depth1 (inner : List Pat) (k : Nat) : List Pat :=
  let items : List (Pat × Option FExpr) :=
    inner.map (fun p => (p, none)) ++ [(.rest "t", none), (.rest "", none), (.name "a", some (.lit (nl 1))), (.name "c", some (.add "n1" 1))]
  let attrs : List (String × Pat × Option FExpr) :=
    (inner.take 2).flatMap (fun p => [("a", p, none), ("b", p, none)]) ++
      [("a", .name "x", some (.lit (nl 1))), ("b", .name "y", some (.var "n1")), ("", .rest "t", none)]
  let ents : List (Lit × Pat × Option FExpr) :=
    (inner.take 2).flatMap (fun p => [(nl 1, p, none), (nl 2, p, none)]) ++
      [(nl 1, .name "x", some (.lit (nl 1))), (nl 2, .name "y", some (.lit (nl 2))), (.ff, .rest "t", none)]
  let elts : List Pat := inner ++ [.lit (nl 2), .rest "t", .rest ""]
  (upTo items k).map Pat.arr ++
  ((upTo attrs k).filter (fun as => nodupBy id (attrNames as))).map Pat.tup ++
  ((upTo ents k).filter (fun es => nodupBy V.canon (entKeys es) && !(es.all (fun e => e.2.1.isRest)))).map Pat.dict ++
  ((upTo elts k).filter (fun es => nodupBy dupKey es)).map Pat.set

def exhaustivePats : List Pat :=
  let d1 := depth1 leaves 3
  -- depth 2: containers of ≤ 2 components over a sample of depth-1 patterns of ≤ 2 components
  let small := depth1 [.lit (nl 1), .name "a"] 2
  let picks := (small.filter (fun p => p.src.length % 4 == 1)).take 24
  let d2 := depth1 (picks ++ [.name "b"]) 2
  d1 ++ (d2.filter (fun p => match p with
    | .arr items => items.any (fun q => isComplex q.1)
    | .tup attrs => attrs.any (fun q => isComplex q.2.1)
    | .dict ents => ents.any (fun q => isComplex q.2.1)
    | .set elts => elts.any isComplex
    | _ => false))

def exhaustive : List Case := Id.run do
  let mut out : List Case := []
  let mut i := 0
  for p in exhaustivePats do
    for v in pool do
      i := i + 1
      -- every value of the pattern's own kind (sets: every set-like value), and a sample of the wrong-kind ones
      let same := match p, v with
        | .arr _, .arr _ _ => true
        | .tup _, .tup _ => true
        | .dict _, .dict _ => true
        | .set _, .set _ | .set _, .dict _ | .set _, .str _ _ => true
        | _, .set [] => true
        | _, _ => false
      if !same && i % 11 != 0 then continue
      let c := if i % 7 == 3 && det p then mkCond s!"C09-x{i}" [("n1", nl 2)] [p, .name "_"] v "/exh" else mkLet s!"C09-x{i}" false [("n1", nl 2)] p v "/exh"
      out := c :: out
  pure out.reverse

def gen (seed n : Nat) (thorough : Bool) : List Case := Id.run do
  let mut out := corpus.reverse
  for i in [0:n] do
    let (c, _) := (genOne i thorough).run (seedOf seed (900000 + i))
    out := c :: out
  if thorough then out := exhaustive.reverse ++ out
  pure out.reverse

end Arrai.C09
