/-
  C09 — pattern matching binds exactly what construction would produce.

  `Pat`      patterns as written (literals, names, `_`, `(expr)`, array / tuple / dict / set patterns,
             `...rest`, `?:` fallbacks, nested to any depth) with `Pat.src`.
  `Rebuilds` the specification: the pattern read as an expression with holes; `Rebuilds ρ σ p v` says that
             under the bindings `σ` (and the enclosing scope `ρ` for `(x)`) the pattern can evaluate to `v`.
  `Spec.bind` a decision procedure for it (deterministic patterns).
  `Impl.bind` transliteration of rel/pattern_*.go + Scope.MatchedUpdate (as repaired in the worktree).

  Values are `Arrai.V`; the Go type switches (`value.(Array)`, `.(Dict)`, `.(Tuple)`, `.(Set)`) are the
  views `asArr`, `asDict`, `.tup`, `.set` of the denotation.  Core-only.
-/
import Arrai.Core.Lit

namespace Arrai.C09
open Arrai

/-! ## Values: array and dict views -/

def itemTup (i : Int) (x : V) : V := .tup [("@", .num i), ("@item", x)]
def entryTup (k x : V) : V := .tup [("@", k), ("@value", x)]

/-- values of the first two attributes of a tuple (arbitrary for anything else) -/
def attr2 : V → V × V
  | .tup ((_, a) :: (_, b) :: _) => (a, b)
  | _ => (.num 0, .num 0)

def mkArrFrom (i : Int) : List V → List V
  | [] => []
  | x :: r => itemTup i x :: mkArrFrom (i + 1) r

/-- `[x₀, x₁, …]` as a value: `{(@: 0, @item: x₀), (@: 1, @item: x₁), …}` (`[]` is `{}`) -/
def mkArr (xs : List V) : V := .set (mkArrFrom 0 xs)

def asArrFrom (i : Int) : List V → Option (List V)
  | [] => some []
  | m :: r =>
    if m = itemTup i (attr2 m).2 then (asArrFrom (i + 1) r).map ((attr2 m).2 :: ·) else none

/-- the items of a dense array starting at index 0 (Go: `value.(Array)` with offset 0 and no holes, or `EmptySet`) -/
def asArr : V → Option (List V)
  | .set ms => asArrFrom 0 ms
  | _ => none

/-- `{k₀: x₀, …}` as a value -/
def mkDict (kvs : List (V × V)) : V := .set (kvs.map (fun kv => entryTup kv.1 kv.2))

def asEntries : List V → Option (List (V × V))
  | [] => some []
  | m :: r => if m = entryTup (attr2 m).1 (attr2 m).2 then (asEntries r).map (attr2 m :: ·) else none

/-- the entries of a dict with single-valued keys (Go: `value.(Dict)`, or `EmptySet`) -/
def asDict : V → Option (List (V × V))
  | .set ms =>
    match asEntries ms with
    | some kvs => if (kvs.map (·.1)).Nodup then some kvs else none
    | none => none
  | _ => none

/-- the members of a set (any set-like value; Go: `value.(Set)`); member lists never repeat a member -/
def asSet : V → Option (List V)
  | .set ms => if ms.Nodup then some ms else none
  | _ => none

/-! ## Scopes -/

abbrev Env := List (String × V)

/-- `Scope{}.With(name, value)`: the name `_` is never bound -/
def single (x : String) (v : V) : Env := if x = "_" then [] else [(x, v)]

/-- `ExtraElementPattern.Bind`: `...` binds nothing, `...x` binds `x` -/
def singleRest (x : String) (v : V) : Env := if x = "" then [] else single x v

/-- `Scope.MatchedUpdate` (as repaired: bindings of a name in both scopes must be equal values) -/
def matchedUpdate (s t : Env) : Option Env :=
  -- for each name of s: if t binds it too, to a different value: error; otherwise s.Update(t)
  if s.all (fun nv => match t.lookup nv.1, s.lookup nv.1 with
      | some w, some v => decide (w = v)
      | _, _ => true)
  then some (t ++ s) else none

/-- `Scope.MatchedUpdate` BEFORE the repair: two bindings of a name were compared by their printed form
(`str` stands for Go's `String()`) -/
def matchedUpdateOld (str : V → String) (s t : Env) : Option Env :=
  if s.all (fun nv => match t.lookup nv.1, s.lookup nv.1 with
      | some w, some v => str w == str v
      | _, _ => true)
  then some (t ++ s) else none

/-- sub-scope: every binding of `s` is a binding of `t` -/
def Env.le (s t : Env) : Prop := ∀ x w, s.lookup x = some w → t.lookup x = some w
/-- same bindings -/
def Env.equiv (s t : Env) : Prop := ∀ x, s.lookup x = t.lookup x

/-! ## Patterns -/

/-- the expressions allowed as `?:` fallbacks: closed literals, names of the enclosing scope, and `name + k`
(FallbackPattern's `fallback.Eval(ctx, local)`: evaluated in the scope that ENCLOSES the whole pattern) -/
inductive FExpr where
  | lit (l : Lit)
  | var (x : String)
  | add (x : String) (k : Int)
  deriving Inhabited

def FExpr.eval (ρ : Env) : FExpr → Option V
  | .lit l => some l.den
  | .var x => ρ.lookup x
  | .add x k =>
    match ρ.lookup x with
    | some (.num n) => some (.num (n + k))
    | _ => none

/-- the value of a `?:` fallback in the enclosing scope (none: no fallback, or it cannot be evaluated) -/
def fbVal (ρ : Env) (fb : Option FExpr) : Option V :=
  match fb with
  | some d => d.eval ρ
  | none => none

/-- the expressions allowed inside `( … )`: closed literals and names of the enclosing scope -/
inductive PExpr where
  | lit (l : Lit)
  | var (x : String)
  deriving Inhabited

def PExpr.eval (ρ : Env) : PExpr → Option V
  | .lit l => some l.den
  | .var x => ρ.lookup x

inductive Pat where
  | lit (l : Lit)                                   -- NUM, true, false   (rel.ExprPattern holding a value)
  | name (x : String)                               -- IDENT, `_` included (rel.IdentPattern)
  | exprs (es : List PExpr)                         -- `(e₁, …)` or a string (rel.ExprsPattern)
  | rest (x : String)                               -- `...x`, `...` is `rest ""` (rel.ExtraElementPattern)
  | arr (items : List (Pat × Option FExpr))           -- `[p, ?p:d, ...t]`
  | tup (attrs : List (String × Pat × Option FExpr))  -- `(a: p, b?: p:d, ...t)`; for `...t` the name is ""
  | dict (ents : List (Lit × Pat × Option FExpr))     -- `{k: p, k?: p:d, ...t}`; for `...t` the key is unused
  | set (elts : List Pat)                           -- `{p, q, ...t}`
  deriving Inhabited

def restName : Pat → Option String
  | .rest x => some x
  | _ => none

def Pat.isRest (p : Pat) : Bool := (restName p).isSome

/-- `...x` binds `x` (`...` and `..._` bind nothing) -/
def bindable (x : String) : Bool := x != "_" && x != ""

/-! the names a pattern binds -/
mutual
def names : Pat → List String
  | .lit _ => []
  | .name x => if x = "_" then [] else [x]
  | .exprs _ => []
  | .rest x => if bindable x then [x] else []
  | .arr items => namesItems items
  | .tup attrs => namesAttrs attrs
  | .dict ents => namesEnts ents
  | .set elts => namesElts elts
def namesItems : List (Pat × Option FExpr) → List String
  | [] => []
  | (p, _) :: r => names p ++ namesItems r
def namesAttrs : List (String × Pat × Option FExpr) → List String
  | [] => []
  | (_, p, _) :: r => names p ++ namesAttrs r
def namesEnts : List (Lit × Pat × Option FExpr) → List String
  | [] => []
  | (_, p, _) :: r => names p ++ namesEnts r
def namesElts : List Pat → List String
  | [] => []
  | p :: r => names p ++ namesElts r
end

/-- attribute names / keys written in a tuple / dict pattern (the `...` entries excluded) -/
def attrNames : List (String × Pat × Option FExpr) → List String
  | [] => []
  | (n, p, _) :: r => if p.isRest then attrNames r else n :: attrNames r
def entKeys : List (Lit × Pat × Option FExpr) → List V
  | [] => []
  | (k, p, _) :: r => if p.isRest then entKeys r else k.den :: entKeys r
/-- the identifiers of the `...` parts of a container pattern -/
def restsItems : List (Pat × Option FExpr) → List String
  | [] => []
  | (p, _) :: r => (match restName p with | some t => [t] | none => []) ++ restsItems r
def restsAttrs : List (String × Pat × Option FExpr) → List String
  | [] => []
  | (_, p, _) :: r => (match restName p with | some t => [t] | none => []) ++ restsAttrs r
def restsEnts : List (Lit × Pat × Option FExpr) → List String
  | [] => []
  | (_, p, _) :: r => (match restName p with | some t => [t] | none => []) ++ restsEnts r
def restsElts : List Pat → List String
  | [] => []
  | p :: r => (match restName p with | some t => [t] | none => []) ++ restsElts r

/-- the value a keyed component is matched against: the attribute / entry when present, else the `?:` fallback -/
def compValue (ρ : Env) (found : Option V) (fb : Option FExpr) : Option V :=
  match found with
  | some w => some w
  | none => fbVal ρ fb

/-- `σ` gives the name of a `...t` the value `w` (`...` and `..._` bind nothing) -/
def restHolds (σ : Env) (t : String) (w : V) : Prop := bindable t = false ∨ σ.lookup t = some w

/-! ## Specification: the pattern read as an expression with holes

`Rebuilds ρ σ p v`: with the pattern's names bound as in `σ` (and `(x)` read in the enclosing scope `ρ`), the
pattern — read as the expression that would construct a value — can evaluate to `v`.  `_` and `...` are holes
(any value / any remaining part); `...t` stands for exactly the part of the value not named by the other
components; a `?:` fallback is used only for a component that is absent; the attribute names / keys / set
members named by one pattern are distinct (the expression would otherwise be an error). -/
mutual
def Rebuilds (ρ σ : Env) : Pat → V → Prop
  | .lit l, v => v = l.den
  | .name x, v => x = "_" ∨ σ.lookup x = some v
  | .exprs es, v => ∃ e, e ∈ es ∧ e.eval ρ = some v
  | .rest x, v => restHolds σ x v
  | .arr items, v => ∃ xs, v = mkArr xs ∧ RItems ρ σ items xs
  | .tup attrs, v => ∃ kvs, v = .tup kvs ∧ (attrNames attrs).Nodup ∧ RAttrs ρ σ attrs kvs ∧
      (∀ t, t ∈ restsAttrs attrs → restHolds σ t (.tup (kvs.filter (fun kv => !(attrNames attrs).contains kv.1)))) ∧
      (restsAttrs attrs = [] → ∀ kv, kv ∈ kvs → kv.1 ∈ attrNames attrs)
  | .dict ents, v => ∃ kvs, v = mkDict kvs ∧ (kvs.map (·.1)).Nodup ∧ (entKeys ents).Nodup ∧ REnts ρ σ ents kvs ∧
      (∀ t, t ∈ restsEnts ents → restHolds σ t (mkDict (kvs.filter (fun kv => !decide (kv.1 ∈ entKeys ents))))) ∧
      (restsEnts ents = [] → ∀ kv, kv ∈ kvs → kv.1 ∈ entKeys ents)
  | .set elts, v => ∃ ms ws, v = .set ms ∧ ms.Nodup ∧ ws.Nodup ∧ (∀ w, w ∈ ws → w ∈ ms) ∧ RElts ρ σ elts ws ∧
      (∀ t, t ∈ restsElts elts → restHolds σ t (.set (ms.filter (fun m => !decide (m ∈ ws))))) ∧
      (restsElts elts = [] → ∀ m, m ∈ ms → m ∈ ws)
/-- array items against the items still to be matched; `...` takes any segment -/
def RItems (ρ σ : Env) : List (Pat × Option FExpr) → List V → Prop
  | [], xs => xs = []
  | (p, fb) :: r, xs =>
    match restName p with
    | some t => ∃ seg tail, xs = seg ++ tail ∧ restHolds σ t (mkArr seg) ∧ RItems ρ σ r tail
    | none =>
      (∃ x tail, xs = x :: tail ∧ Rebuilds ρ σ p x ∧ RItems ρ σ r tail) ∨
      (∃ w, fbVal ρ fb = some w ∧ xs = [] ∧ Rebuilds ρ σ p w ∧ RItems ρ σ r [])
/-- every named attribute matches (the attribute itself, or its fallback when it is absent) -/
def RAttrs (ρ σ : Env) : List (String × Pat × Option FExpr) → List (String × V) → Prop
  | [], _ => True
  | (n, p, fb) :: r, kvs =>
    (match restName p with
     | some _ => True
     | none => ∃ w, compValue ρ (kvs.lookup n) fb = some w ∧ Rebuilds ρ σ p w) ∧ RAttrs ρ σ r kvs
def REnts (ρ σ : Env) : List (Lit × Pat × Option FExpr) → List (V × V) → Prop
  | [], _ => True
  | (k, p, fb) :: r, kvs =>
    (match restName p with
     | some _ => True
     | none => ∃ w, compValue ρ (kvs.lookup k.den) fb = some w ∧ Rebuilds ρ σ p w) ∧ REnts ρ σ r kvs
/-- the element patterns other than `...`, in order, against the distinct members chosen for them -/
def RElts (ρ σ : Env) : List Pat → List V → Prop
  | [], ws => ws = []
  | p :: r, ws =>
    match restName p with
    | some _ => RElts ρ σ r ws
    | none => ∃ w tail, ws = w :: tail ∧ Rebuilds ρ σ p w ∧ RElts ρ σ r tail
end

/-- `p` matches `v` with exactly the bindings `σ` -/
def Matches (ρ : Env) (p : Pat) (v : V) (σ : Env) : Prop :=
  Rebuilds ρ σ p v ∧ ∀ x, (σ.lookup x).isSome = true ↔ x ∈ names p

/-! ## Spec.bind: a decision procedure for `Matches` (deterministic patterns) -/

/-- the value a set-pattern element must be equal to, when the element alone determines it -/
def fixedValue (ρ : Env) : Pat → Option (Option V)
  | .lit l => some (some l.den)
  | .exprs [e] => some (e.eval ρ)
  | _ => none

/-- set-pattern elements: `...`, determined (a literal or one parenthesised expression), or free -/
inductive EltKind | rest | fixed | free
  deriving DecidableEq

def eltKind : Pat → EltKind
  | .rest _ => .rest
  | .lit _ => .fixed
  | .exprs [_] => .fixed
  | _ => .free

def bindRests (acc : Env) (w : V) : List String → Option Env
  | [] => some acc
  | t :: r => match matchedUpdate acc (singleRest t w) with
    | some acc' => bindRests acc' w r
    | none => none

/-- the members a set pattern's determined elements name, in order (none: some `(x)` is unbound) -/
def fixedValues (ρ : Env) : List Pat → Option (List V)
  | [] => some []
  | p :: r =>
    match eltKind p, fixedValue ρ p with
    | .fixed, some (some w) => (fixedValues ρ r).map (w :: ·)
    | .fixed, _ => none
    | _, _ => fixedValues ρ r

namespace Spec

mutual
def bind (ρ : Env) : Pat → V → Option Env
  | .lit l, v => if v = l.den then some [] else none
  | .name x, v => some (single x v)
  | .exprs es, v => if es.any (fun e => decide (e.eval ρ = some v)) then some [] else none
  | .rest x, v => some (singleRest x v)
  | .arr items, v =>
    match asArr v with
    | some xs => bindItems ρ [] items xs
    | none => none
  | .tup attrs, v =>
    match v with
    | .tup kvs =>
      if (attrNames attrs).Nodup then
        match bindAttrs ρ [] attrs kvs with
        | some acc =>
          if restsAttrs attrs = [] then
            (if kvs.all (fun kv => (attrNames attrs).contains kv.1) then some acc else none)
          else bindRests acc (.tup (kvs.filter (fun kv => !(attrNames attrs).contains kv.1))) (restsAttrs attrs)
        | none => none
      else none
    | _ => none
  | .dict ents, v =>
    match asDict v with
    | some kvs =>
      if (entKeys ents).Nodup then
        match bindEnts ρ [] ents kvs with
        | some acc =>
          if restsEnts ents = [] then
            (if kvs.all (fun kv => decide (kv.1 ∈ entKeys ents)) then some acc else none)
          else bindRests acc (mkDict (kvs.filter (fun kv => !decide (kv.1 ∈ entKeys ents)))) (restsEnts ents)
        | none => none
      else none
    | none => none
  | .set elts, v =>
    match asSet v with
    | some ms =>
      match fixedValues ρ elts with
      | some ws =>
        if ws.Nodup ∧ ws.all (fun w => decide (w ∈ ms)) then
          match bindElts ρ [] elts (ms.filter (fun m => !decide (m ∈ ws))) with
          | some (acc, left) =>
            if restsElts elts = [] then (if left = [] then some acc else none)
            else bindRests acc (.set left) (restsElts elts)
          | none => none
        else none
      | none => none
    | none => none
/-- items left to right against the items still to be matched; `...t` takes all but one item per later part -/
def bindItems (ρ : Env) : Env → List (Pat × Option FExpr) → List V → Option Env
  | acc, [], xs => if xs = [] then some acc else none
  | acc, (p, fb) :: r, xs =>
    match restName p with
    | some t =>
      if r.length ≤ xs.length then
        match matchedUpdate acc (singleRest t (mkArr (xs.take (xs.length - r.length)))) with
        | some acc' => bindItems ρ acc' r (xs.drop (xs.length - r.length))
        | none => none
      else none
    | none =>
      match xs, fbVal ρ fb with
      | x :: tail, _ =>
        match bind ρ p x with
        | some s => match matchedUpdate acc s with
          | some acc' => bindItems ρ acc' r tail
          | none => none
        | none => none
      | [], some w =>
        match bind ρ p w with
        | some s => match matchedUpdate acc s with
          | some acc' => bindItems ρ acc' r []
          | none => none
        | none => none
      | [], none => none
def bindAttrs (ρ : Env) : Env → List (String × Pat × Option FExpr) → List (String × V) → Option Env
  | acc, [], _ => some acc
  | acc, (n, p, fb) :: r, kvs =>
    match restName p with
    | some _ => bindAttrs ρ acc r kvs
    | none =>
      match compValue ρ (kvs.lookup n) fb with
      | some w =>
        match bind ρ p w with
        | some s => match matchedUpdate acc s with
          | some acc' => bindAttrs ρ acc' r kvs
          | none => none
        | none => none
      | none => none
def bindEnts (ρ : Env) : Env → List (Lit × Pat × Option FExpr) → List (V × V) → Option Env
  | acc, [], _ => some acc
  | acc, (k, p, fb) :: r, kvs =>
    match restName p with
    | some _ => bindEnts ρ acc r kvs
    | none =>
      match compValue ρ (kvs.lookup k.den) fb with
      | some w =>
        match bind ρ p w with
        | some s => match matchedUpdate acc s with
          | some acc' => bindEnts ρ acc' r kvs
          | none => none
        | none => none
      | none => none
/-- the free element (a name or a nested pattern) takes the one member the determined elements leave;
returns the bindings and the members still unmatched -/
def bindElts (ρ : Env) : Env → List Pat → List V → Option (Env × List V)
  | acc, [], left => some (acc, left)
  | acc, p :: r, left =>
    match eltKind p with
    | .free =>
      match left with
      | [w] =>
        match bind ρ p w with
        | some s => match matchedUpdate acc s with
          | some acc' => bindElts ρ acc' r []
          | none => none
        | none => none
      | _ => none
    | _ => bindElts ρ acc r left
end

end Spec

/-! ### deterministic patterns (the domain of `Spec.bind`) -/

/-- no `?:` item after a `...` (it could be either absent or the last item), at most one `...` -/
def detItemsShape : List (Pat × Option FExpr) → Bool
  | [] => true
  | (p, _) :: r => if p.isRest then r.all (fun q => !q.1.isRest && q.2.isNone) else detItemsShape r

/-- `(e₁, e₂, …)`: alternatives (a `cond` feature; not an element of a set pattern) -/
def isAlternatives : Pat → Bool
  | .exprs [_] => false
  | .exprs _ => true
  | _ => false

def countKind (k : EltKind) (elts : List Pat) : Nat := (elts.filter (fun p => decide (eltKind p = k))).length

mutual
def det : Pat → Bool
  | .arr items => detItemsShape items && detItems items
  | .tup attrs => decide ((restsAttrs attrs).length ≤ 1) && detAttrs attrs
  | .dict ents => decide ((restsEnts ents).length ≤ 1) && detEnts ents
  | .set elts => decide (countKind .free elts + countKind .rest elts ≤ 1) && !elts.any isAlternatives && detElts elts
  | _ => true
def detItems : List (Pat × Option FExpr) → Bool
  | [] => true
  | (p, _) :: r => det p && detItems r
def detAttrs : List (String × Pat × Option FExpr) → Bool
  | [] => true
  | (_, p, _) :: r => det p && detAttrs r
def detEnts : List (Lit × Pat × Option FExpr) → Bool
  | [] => true
  | (_, p, _) :: r => det p && detEnts r
def detElts : List Pat → Bool
  | [] => true
  | p :: r => det p && detElts r
end

/-! ## Impl: transliteration of rel/pattern_*.go (worktree: with the `fix:` commits of C09) -/

inductive Res (α : Type) where
  | ok (a : α)
  | err          -- Bind returned an error
  | panic        -- a Go panic
  deriving Inhabited, DecidableEq

def Res.ofOption {α} : Option α → Res α
  | some a => .ok a
  | none => .err

/-- the first loop of ArrayPattern/DictPattern/SetPattern.Bind: `len(extraElements)` after visiting the parts
(`(is ...-like, has a fallback)` per part), or none for "non-deterministic pattern is not supported yet" -/
def scanMarks : List (Bool × Bool) → Nat → Option Nat
  | [], cnt => some cnt
  | (isExtra, hasFb) :: r, cnt =>
    match (if isExtra then (if cnt = 1 then none else some (cnt + 1)) else some cnt) with
    | none => none
    | some cnt =>
      match (if hasFb then (if cnt = 1 then none else some (cnt + 1)) else some cnt) with
      | none => none
      | some cnt => scanMarks r cnt

def itemMarks (items : List (Pat × Option FExpr)) : List (Bool × Bool) := items.map (fun q => (q.1.isRest, q.2.isSome))
def entMarks (ents : List (Lit × Pat × Option FExpr)) : List (Bool × Bool) :=
  ents.map (fun q => (q.2.1.isRest, q.2.2.isSome))
def isIdent : Pat → Bool
  | .name _ => true
  | _ => false
def eltMarks (elts : List Pat) : List (Bool × Bool) := elts.map (fun p => (p.isRest || isIdent p, false))

/-- ArrayPattern.Bind, main loop: the value handed to item `i` and the new `offset`
(`xs` = `array.Values()`, `n` = `len(p.items)`) -/
def arrValue (ρ : Env) (xs : List V) (n i : Nat) (off : Int) (p : Pat) (fb : Option FExpr) : Res (Int × V) :=
  if p.isRest then
    let off' : Int := (xs.length : Int) - (n : Int)          -- offset = extraElements[i]
    if off' ≥ 0 then .ok (off', mkArr ((xs.drop i).take (off' + 1).toNat))   -- array.Values()[i : i+offset+1]
    else .ok (off', mkArr [])
  else if (xs.length : Int) ≤ (i : Int) + off then          -- array.Count() <= i+offset
    match fbVal ρ fb with                                   -- no fallback, or fallback.Eval(ctx, local) fails
    | none => .err
    | some w => .ok (off, w)
  else
    match xs[((i : Int) + off).toNat]? with                  -- array.Values()[i+offset]
    | some x => .ok (off, x)
    | none => .panic

/-- the result of SetPattern.Bind's main loop: go on with the remaining members, or return at once -/
inductive SetStep where
  | cont (s : List V)
  | ret (r : Res Env)

/-- validTuplePattern -/
def validTupleLoop : List (String × Pat × Option FExpr) → List String → Bool
  | [], _ => true
  | (n, p, _) :: r, seen =>
    if seen.contains n then
      (if p.isRest && n == "" then validTupleLoop r seen else false)
    else if !p.isRest then validTupleLoop r (n :: seen) else validTupleLoop r seen

namespace Impl

mutual
def bind (ρ : Env) : Pat → V → Res Env
  -- ExprPattern.Bind (the expression is a value)
  | .lit l, v => if l.den = v then .ok [] else .err
  -- IdentPattern.Bind
  | .name x, v => .ok (single x v)
  -- ExprsPattern.Bind
  | .exprs es, v => if es.isEmpty then .err else exprsLoop ρ v es
  -- ExtraElementPattern.Bind
  | .rest x, v => .ok (singleRest x v)
  -- ArrayPattern.Bind
  | .arr items, v =>
    match asArr v with                                      -- EmptySet | Array (dense, offset 0) | anything else
    | none => .err
    | some xs =>
      match scanMarks (itemMarks items) 0 with
      | none => .err                                         -- non-deterministic pattern is not supported yet
      | some cnt =>
        if items.length > xs.length + cnt then .err          -- shorter than the pattern
        else if !(items.any (fun q => q.1.isRest)) && items.length < xs.length then .err   -- longer (as repaired)
        else bindItems ρ xs items.length 0 0 [] items
  -- TuplePattern.Bind
  | .tup attrs, v =>
    match v with
    | .tup kvs =>
      match bindAttrs ρ kvs [] (kvs.map (·.1)) none attrs with
      | .ok (acc, nms, extra) =>
        match extra with
        | some t =>
          -- tuple.Project(names), bound by the ... attribute; names = EmptyNames
          match matchedUpdate acc (singleRest t (.tup (kvs.filter (fun kv => nms.contains kv.1)))) with
          | some acc' => .ok acc'
          | none => .err
        | none => if nms.isEmpty then .ok acc else .err       -- longer than the pattern
      | .err => .err
      | .panic => .panic
    | _ => .err
  -- DictPattern.Bind
  | .dict ents, v =>
    match asDict v with                                     -- EmptySet | Dict | anything else
    | none => .err
    | some kvs =>
      match scanMarks (entMarks ents) 0 with
      | none => .err
      | some cnt =>
        if ents.length > kvs.length + cnt then .err
        else if cnt = 0 && ents.length < kvs.length then .err
        else
          match bindEnts ρ [] kvs [] ents with
          | .ok (acc, m, extras) => Res.ofOption (bindRests acc (mkDict m) extras)   -- ... is bound last
          | .err => .err
          | .panic => .panic
  -- SetPattern.Bind
  | .set elts, v =>
    match asSet v with
    | some ms =>
      match scanMarks (eltMarks elts) 0 with
      | none => .err
      | some cnt =>
        if elts.length > ms.length + cnt then .err
        else if cnt = 0 && elts.length < ms.length then .err
        else
          match bindElts ρ elts.length ms elts with
          | .ret r => r
          | .cont s =>
            -- for i := range extraElements (at most one)
            match elts.find? (fun p => p.isRest || isIdent p) with
            | some (.rest t) => Res.ofOption (matchedUpdate [] (singleRest t (.set s)))
            | some (.name x) =>
              (match s with
               | [w] => Res.ofOption (matchedUpdate [] (single x w))
               | _ => .err)                                  -- the length of set is wrong
            | _ => .ok []
    | none => .err
def exprsLoop (ρ : Env) (v : V) : List PExpr → Res Env
  | [] => .err                                               -- didn't find matched value
  | e :: r =>
    match e.eval ρ with
    | none => .err
    | some w => if v = w then .ok [] else exprsLoop ρ v r
def bindItems (ρ : Env) (xs : List V) (n : Nat) : Nat → Int → Env → List (Pat × Option FExpr) → Res Env
  | _, _, acc, [] => .ok acc
  | i, off, acc, (p, fb) :: r =>
    match arrValue ρ xs n i off p fb with
    | .ok (off', value) =>
      match bind ρ p value with
      | .ok scope =>
        match matchedUpdate acc scope with
        | some acc' => bindItems ρ xs n (i + 1) off' acc' r
        | none => .err
      | .err => .err
      | .panic => .panic
    | .err => .err
    | .panic => .panic
def bindAttrs (ρ : Env) (kvs : List (String × V)) :
    Env → List String → Option String → List (String × Pat × Option FExpr) → Res (Env × List String × Option String)
  | acc, nms, extra, [] => .ok (acc, nms, extra)
  | acc, nms, extra, (n, p, fb) :: r =>
    match restName p with
    | some t => if extra.isSome then .err else bindAttrs ρ kvs acc nms (some t) r   -- a second ... is an error
    | none =>
      if fb.isNone && nms.isEmpty then .err                  -- shorter than the pattern
      else
        match compValue ρ (kvs.lookup n) fb with
        | none => .err                                       -- couldn't find the attribute
        | some value =>
          match bind ρ p value with
          | .ok scope =>
            match matchedUpdate acc scope with
            | some acc' => bindAttrs ρ kvs acc' (nms.filter (fun m => m != n)) extra r
            | none => .err
          | .err => .err
          | .panic => .panic
def bindEnts (ρ : Env) :
    Env → List (V × V) → List String → List (Lit × Pat × Option FExpr) → Res (Env × List (V × V) × List String)
  | acc, m, extras, [] => .ok (acc, m, extras)
  | acc, m, extras, (k, p, fb) :: r =>
    match restName p with
    | some t => bindEnts ρ acc m (extras ++ [t]) r
    | none =>
      match m.lookup k.den with
      | some w =>
        match bind ρ p w with
        | .ok scope =>
          match matchedUpdate acc scope with
          | some acc' => bindEnts ρ acc' (m.filter (fun kv => !decide (kv.1 = k.den))) extras r
          | none => .err
        | .err => .err
        | .panic => .panic
      | none =>
        match fbVal ρ fb with
        | none => .err
        | some w =>
          match bind ρ p w with
          | .ok scope =>
            match matchedUpdate acc scope with
            | some acc' => bindEnts ρ acc' m extras r
            | none => .err
          | .err => .err
          | .panic => .panic
def bindElts (ρ : Env) (n : Nat) : List V → List Pat → SetStep
  | s, [] => .cont s
  | s, p :: r =>
    match p with
    | .rest _ => bindElts ρ n s r
    | .name _ => bindElts ρ n s r
    | .lit l =>
      if l.den ∈ s then bindElts ρ n (s.filter (fun m => !decide (m = l.den))) r else .ret .err
    | .exprs es =>
      (match es with
       | [] => .ret .panic
       | e :: _ =>
         match e.eval ρ with
         | none => .ret .err
         | some w => if w ∈ s then bindElts ρ n (s.filter (fun m => !decide (m = w))) r else .ret .err)
    | _ =>
      if n = 1 then
        (match s with
         | e :: _ => .ret (bind ρ p e)
         | [] => .ret .panic)
      else .ret .panic                                       -- pattern type %T not supported yet
end

end Impl

/-! ### supported patterns: what today's (repaired) code handles as the specification demands -/

/-- an element of a set pattern of `n` elements that SetPattern.Bind handles -/
def eltOK (n : Nat) : Pat → Bool
  | .rest _ | .name _ | .lit _ => true
  | .exprs [_] => true
  | .exprs _ => false
  | _ => n == 1

mutual
def supported (ρ : Env) : Pat → Bool
  | .lit _ => true
  | .name _ => true
  | .rest _ => true
  -- every parenthesised expression can be evaluated
  | .exprs es => es.all (fun e => (e.eval ρ).isSome)
  -- at most one optional part (`?:` or `...`)
  | .arr items => (scanMarks (itemMarks items) 0).isSome && supportedItems ρ items
  -- at most one `...`, distinct attribute names
  | .tup attrs => decide ((restsAttrs attrs).length ≤ 1) && decide ((attrNames attrs).Nodup) && supportedAttrs ρ attrs
  -- at most one `...`, no `?:` entries, distinct keys
  | .dict ents => decide ((restsEnts ents).length ≤ 1) && ents.all (fun e => e.2.2.isNone) &&
      decide ((entKeys ents).Nodup) && supportedEnts ρ ents
  -- at most one name or `...`; nested patterns only as the single element
  | .set elts => (scanMarks (eltMarks elts) 0).isSome && elts.all (eltOK elts.length) && supportedElts ρ elts
def supportedItems (ρ : Env) : List (Pat × Option FExpr) → Bool
  | [] => true
  | (p, _) :: r => supported ρ p && supportedItems ρ r
def supportedAttrs (ρ : Env) : List (String × Pat × Option FExpr) → Bool
  | [] => true
  | (_, p, _) :: r => supported ρ p && supportedAttrs ρ r
def supportedEnts (ρ : Env) : List (Lit × Pat × Option FExpr) → Bool
  | [] => true
  | (_, p, _) :: r => supported ρ p && supportedEnts ρ r
def supportedElts (ρ : Env) : List Pat → Bool
  | [] => true
  | p :: r => supported ρ p && supportedElts ρ r
end

/-! ## let / function call / cond -/

/-! does some sub-pattern (the pattern itself included) satisfy `f`? -/
mutual
def anySub (f : Pat → Bool) : Pat → Bool
  | .arr items => f (.arr items) || anySubItems f items
  | .tup attrs => f (.tup attrs) || anySubAttrs f attrs
  | .dict ents => f (.dict ents) || anySubEnts f ents
  | .set elts => f (.set elts) || anySubElts f elts
  | p => f p
def anySubItems (f : Pat → Bool) : List (Pat × Option FExpr) → Bool
  | [] => false
  | (p, _) :: r => anySub f p || anySubItems f r
def anySubAttrs (f : Pat → Bool) : List (String × Pat × Option FExpr) → Bool
  | [] => false
  | (_, p, _) :: r => anySub f p || anySubAttrs f r
def anySubEnts (f : Pat → Bool) : List (Lit × Pat × Option FExpr) → Bool
  | [] => false
  | (_, p, _) :: r => anySub f p || anySubEnts f r
def anySubElts (f : Pat → Bool) : List Pat → Bool
  | [] => false
  | p :: r => anySub f p || anySubElts f r
end

/-- every `(x)` names something in the enclosing scope -/
def closed (ρ : Env) (p : Pat) : Bool :=
  !anySub (fun q => match q with
    | .exprs es => es.any (fun e => match e with | .var x => (ρ.lookup x).isNone | _ => false)
    | _ => false) p

/-- NewTuplePattern fails (a compile error) -/
def badTuple (p : Pat) : Bool :=
  anySub (fun q => match q with | .tup attrs => !validTupleLoop attrs [] | _ => false) p

/-- the value of the body `(n₁: n₁, …)` in `ρ.Update(σ)` -/
def bodyVal (ρ σ : Env) (ns : List String) : Option V :=
  (ns.mapM (fun n => ((σ ++ ρ).lookup n).map (fun v => (n, v)))).map V.mkTup

def bodyNames (p : Pat) : List String := (names p).eraseDups

namespace Impl
/-- ArrowExpr.Eval / Closure.CallAll: `let p = v; body`, `(\p body)(v)` -/
def evalLet (ρ : Env) (p : Pat) (v : V) : Res V :=
  match bind ρ p v with
  | .ok σ => Res.ofOption (bodyVal ρ σ (bodyNames p))
  | .err => .err
  | .panic => .panic
/-- CondPatternControlVarExpr.Eval: the first arm whose Bind returns no error (any error is "no match") -/
def evalCond (ρ : Env) (v : V) : List Pat → Nat → Res (Option (Nat × Env))
  | [], _ => .ok none
  | p :: r, i =>
    match bind ρ p v with
    | .ok σ => .ok (some (i, σ))
    | .err => evalCond ρ v r (i + 1)
    | .panic => .panic
end Impl

namespace Spec
def evalLet (ρ : Env) (p : Pat) (v : V) : Option V :=
  if closed ρ p then (bind ρ p v).bind (fun σ => bodyVal ρ σ (bodyNames p)) else none
/-- the first arm that matches; an arm that cannot be evaluated (unbound `(x)`) is an error, not "no match" -/
def evalCond (ρ : Env) (v : V) : List Pat → Nat → Res (Option (Nat × Env))
  | [], _ => .ok none
  | p :: r, i =>
    if closed ρ p then
      match bind ρ p v with
      | some σ => .ok (some (i, σ))
      | none => evalCond ρ v r (i + 1)
    else .err
end Spec

/-! ## Source text -/

def FExpr.src : FExpr → String
  | .lit l => l.src
  | .var x => x
  | .add x k => "(" ++ x ++ " + " ++ toString k ++ ")"

def PExpr.src : PExpr → String
  | .lit l => l.src
  | .var x => x

mutual
def Pat.src : Pat → String
  | .lit l => l.src
  | .name x => x
  | .exprs es => "(" ++ ", ".intercalate (es.map PExpr.src) ++ ")"
  | .rest x => "..." ++ x
  | .arr items => "[" ++ ", ".intercalate (srcItems items) ++ "]"
  | .tup attrs => "(" ++ ", ".intercalate (srcAttrs attrs) ++ ")"
  | .dict ents => "{" ++ ", ".intercalate (srcEnts ents) ++ "}"
  | .set elts => "{" ++ ", ".intercalate (srcElts elts) ++ "}"
def srcItems : List (Pat × Option FExpr) → List String
  | [] => []
  | (p, none) :: r => p.src :: srcItems r
  | (p, some d) :: r => ("?" ++ p.src ++ ":" ++ d.src) :: srcItems r
def srcAttrs : List (String × Pat × Option FExpr) → List String
  | [] => []
  | (n, p, fb) :: r =>
    (if p.isRest then p.src
     else match fb with
       | none => Lit.nameSrc n ++ ": " ++ p.src
       | some d => Lit.nameSrc n ++ "?: " ++ p.src ++ ":" ++ d.src) :: srcAttrs r
def srcEnts : List (Lit × Pat × Option FExpr) → List String
  | [] => []
  | (k, p, fb) :: r =>
    (if p.isRest then p.src
     else match fb with
       | none => k.src ++ ": " ++ p.src
       | some d => k.src ++ "?: " ++ p.src ++ ":" ++ d.src) :: srcEnts r
def srcElts : List Pat → List String
  | [] => []
  | p :: r => p.src :: srcElts r
end

/-! ## Classes of patterns on which today's code departs from the specification -/

/-- an array or dict pattern with more than one optional part (`?:` or `...`): rejected as "non-deterministic" -/
def hasMultiOptional (p : Pat) : Bool :=
  anySub (fun q => match q with
    | .arr items => (scanMarks (itemMarks items) 0).isNone
    | .dict ents => (scanMarks (entMarks ents) 0).isNone
    | _ => false) p

/-- a dict pattern with a `?:` entry and no `...`: additional keys of the value are ignored (pinned by the suite) -/
def hasOpenDict (p : Pat) : Bool :=
  anySub (fun q => match q with
    | .dict ents => ents.any (fun e => e.2.2.isSome) && !(ents.any (fun e => e.2.1.isRest))
    | _ => false) p

def isComplex : Pat → Bool
  | .arr _ | .tup _ | .dict _ | .set _ => true
  | _ => false

/-- the text NewSetPattern compares to find duplicated items (`Pattern.String()`), up to injective renaming -/
def litKey : Lit → String
  | .str 0 (c :: cs) => String.ofList ((c :: cs).map Char.ofNat)   -- a string prints without quotes
  | l => "=" ++ l.den.canon

def dupKey : Pat → String
  | .name x => x
  | .rest x => "..." ++ x
  | .lit l => litKey l
  | .exprs [.lit l] => litKey l
  | .exprs [.var x] => x
  | p => p.src

/-- NewSetPattern panics: two items of a set pattern print alike -/
def hasSetDup (p : Pat) : Bool :=
  anySub (fun q => match q with
    | .set elts => decide ((elts.map dupKey).eraseDups.length < elts.length)
    | _ => false) p

/-- a set pattern with a nested array/tuple/dict/set pattern next to other elements (SetPattern.Bind panics),
or with duplicated items (NewSetPattern panics) -/
def hasSetPanic (p : Pat) : Bool :=
  hasSetDup p || anySub (fun q => match q with
    | .set elts => elts.any isComplex && decide (elts.length > 1)
    | _ => false) p

end Arrai.C09
