/-
  C09 helper lemmas: scopes (`matchedUpdate`), the array / dict views, monotonicity of `Rebuilds`,
  soundness and completeness of `Spec.bind`, and `Impl.bind = Spec.bind` on supported patterns.
-/
import Arrai.C09.Model

namespace Arrai.C09
open Arrai

/-! ## scopes -/

theorem Env.le_refl (s : Env) : Env.le s s := fun _ _ h => h
theorem Env.le_trans {a b c : Env} (h₁ : Env.le a b) (h₂ : Env.le b c) : Env.le a c :=
  fun x w h => h₂ x w (h₁ x w h)
theorem Env.nil_le (s : Env) : Env.le [] s := by intro x w h; simp at h

theorem lookup_append' (t s : Env) (x : String) :
    (t ++ s).lookup x = (match t.lookup x with | some w => some w | none => s.lookup x) := by
  induction t with
  | nil => simp
  | cons a t ih =>
    obtain ⟨n, v⟩ := a
    simp only [List.cons_append, List.lookup_cons]
    cases h : (x == n) <;> simp [ih]

theorem lookup_mem_key {s : Env} {x : String} {v : V} (h : s.lookup x = some v) : ∃ v', (x, v') ∈ s := by
  induction s with
  | nil => simp at h
  | cons a s ih =>
    obtain ⟨n, w⟩ := a
    simp only [List.lookup_cons] at h
    cases hx : (x == n) with
    | true =>
      have : x = n := by simpa using hx
      subst this
      exact ⟨w, by simp⟩
    | false =>
      simp [hx] at h
      obtain ⟨v', hv'⟩ := ih h
      exact ⟨v', by simp [hv']⟩

theorem mem_lookup_isSome {s : Env} {x : String} {v : V} (h : (x, v) ∈ s) : ∃ w, s.lookup x = some w := by
  induction s with
  | nil => simp at h
  | cons a s ih =>
    obtain ⟨n, w⟩ := a
    simp only [List.lookup_cons]
    cases hx : (x == n) with
    | true => exact ⟨w, rfl⟩
    | false =>
      rcases List.mem_cons.1 h with h | h
      · simp at h; simp [h.1] at hx
      · exact ih h

theorem matchedUpdate_eq {s t u : Env} (h : matchedUpdate s t = some u) : u = t ++ s := by
  unfold matchedUpdate at h
  split at h <;> simp_all

/-- the two scopes agree wherever both bind -/
def Agree (s t : Env) : Prop := ∀ x v w, s.lookup x = some v → t.lookup x = some w → w = v

theorem all_agree_iff (s t : Env) :
    (s.all (fun nv => match t.lookup nv.1, s.lookup nv.1 with
      | some w, some v => decide (w = v)
      | _, _ => true) = true) ↔ Agree s t := by
  rw [List.all_eq_true]
  constructor
  · intro h x v w hs ht
    obtain ⟨v', hv'⟩ := lookup_mem_key hs
    have := h (x, v') hv'
    simpa [hs, ht] using this
  · intro h nv hnv
    obtain ⟨n, v'⟩ := nv
    cases ht : t.lookup n with
    | none => simp
    | some w =>
      cases hs : s.lookup n with
      | none => simp
      | some v => simp [h n v w hs ht]

theorem matchedUpdate_some_iff (s t u : Env) : matchedUpdate s t = some u ↔ (Agree s t ∧ u = t ++ s) := by
  unfold matchedUpdate
  split
  · rename_i h
    have ha := (all_agree_iff s t).1 h
    constructor
    · intro e; exact ⟨ha, (Option.some.inj e).symm⟩
    · rintro ⟨_, e⟩; rw [e]
  · rename_i h
    constructor
    · intro e; cases e
    · rintro ⟨a, _⟩; exact absurd ((all_agree_iff s t).2 a) h

theorem matchedUpdate_none_iff (s t : Env) : matchedUpdate s t = none ↔ ¬ Agree s t := by
  constructor
  · intro h a
    have := (matchedUpdate_some_iff s t (t ++ s)).2 ⟨a, rfl⟩
    rw [h] at this; cases this
  · intro h
    cases hm : matchedUpdate s t with
    | none => rfl
    | some u => exact absurd ((matchedUpdate_some_iff s t u).1 hm).1 h

theorem mu_le_left {s t u : Env} (h : matchedUpdate s t = some u) : Env.le s u := by
  obtain ⟨ha, rfl⟩ := (matchedUpdate_some_iff s t _).1 h
  intro x v hs
  rw [lookup_append']
  cases ht : t.lookup x with
  | none => simpa using hs
  | some w => simp [ha x v w hs ht]

theorem mu_le_right {s t u : Env} (h : matchedUpdate s t = some u) : Env.le t u := by
  obtain ⟨_, rfl⟩ := (matchedUpdate_some_iff s t _).1 h
  intro x v ht
  rw [lookup_append']; simp [ht]

theorem mu_dom {s t u : Env} (h : matchedUpdate s t = some u) (x : String) :
    (u.lookup x).isSome = true ↔ ((s.lookup x).isSome = true ∨ (t.lookup x).isSome = true) := by
  obtain ⟨_, rfl⟩ := (matchedUpdate_some_iff s t _).1 h
  rw [lookup_append']
  cases ht : t.lookup x <;> simp

/-- two sub-scopes of one scope can be merged, and the merge is a sub-scope -/
theorem mu_complete {s t σ : Env} (hs : Env.le s σ) (ht : Env.le t σ) :
    ∃ u, matchedUpdate s t = some u ∧ Env.le u σ := by
  refine ⟨t ++ s, (matchedUpdate_some_iff s t _).2 ⟨?_, rfl⟩, ?_⟩
  · intro x v w h1 h2
    have a := hs x v h1
    have b := ht x w h2
    rw [a] at b; exact (Option.some.inj b).symm
  · intro x v h
    rw [lookup_append'] at h
    cases h2 : t.lookup x with
    | none => rw [h2] at h; exact hs x v h
    | some w => rw [h2] at h; simp at h; subst h; exact ht x w h2

theorem lookup_single (x y : String) (v : V) :
    (single x v).lookup y = if x = "_" then none else if y = x then some v else none := by
  unfold single
  by_cases h : x = "_"
  · simp [h]
  · simp only [h, if_false, List.lookup_cons, List.lookup_nil]
    by_cases h2 : y = x
    · simp [h2]
    · have : (y == x) = false := by simpa using h2
      simp [this, h2]

theorem lookup_singleRest (x y : String) (v : V) :
    (singleRest x v).lookup y = if bindable x then (if y = x then some v else none) else none := by
  unfold singleRest bindable
  by_cases h : x = ""
  · simp [h]
  · rw [if_neg h, lookup_single]
    by_cases h2 : x = "_"
    · simp [h2]
    · simp [h, h2]

/-! ## the array and dict views invert construction -/

theorem attr2_itemTup (i : Int) (x : V) : attr2 (itemTup i x) = (.num i, x) := rfl
theorem attr2_entryTup (k x : V) : attr2 (entryTup k x) = (k, x) := rfl

theorem asArrFrom_iff (ms : List V) : ∀ (i : Int) (xs : List V), asArrFrom i ms = some xs ↔ ms = mkArrFrom i xs := by
  induction ms with
  | nil =>
    intro i xs
    cases xs <;> simp [asArrFrom, mkArrFrom]
  | cons m r ih =>
    intro i xs
    unfold asArrFrom
    by_cases hm : m = itemTup i (attr2 m).2
    · rw [if_pos hm]
      cases xs with
      | nil => simp [mkArrFrom]
      | cons x xs' =>
        simp only [mkArrFrom, Option.map_eq_some_iff, List.cons.injEq]
        constructor
        · rintro ⟨ys, hys, hx, rfl⟩
          refine ⟨?_, (ih _ _).1 hys⟩
          rw [← hx]; exact hm
        · rintro ⟨h1, h2⟩
          refine ⟨xs', (ih _ _).2 h2, ?_, rfl⟩
          rw [h1, attr2_itemTup]
    · rw [if_neg hm]
      cases xs with
      | nil => simp [mkArrFrom]
      | cons x xs' =>
        simp only [mkArrFrom, List.cons.injEq]
        constructor
        · intro h; cases h
        · rintro ⟨h1, _⟩
          exfalso; apply hm
          rw [h1, attr2_itemTup]

theorem asArr_iff (v : V) (xs : List V) : asArr v = some xs ↔ v = mkArr xs := by
  cases v with
  | set ms => simp [asArr, mkArr, asArrFrom_iff]
  | num _ => simp [asArr, mkArr]
  | tup _ => simp [asArr, mkArr]

theorem asArr_mkArr (xs : List V) : asArr (mkArr xs) = some xs := (asArr_iff _ _).2 rfl

theorem mkArrFrom_inj (xs ys : List V) (i : Int) (h : mkArrFrom i xs = mkArrFrom i ys) : xs = ys := by
  have h1 : asArrFrom i (mkArrFrom i xs) = some xs := (asArrFrom_iff _ _ _).2 rfl
  rw [h, (asArrFrom_iff _ _ _).2 rfl] at h1
  exact (Option.some.inj h1).symm

theorem mkArr_inj {xs ys : List V} (h : mkArr xs = mkArr ys) : xs = ys := by
  unfold mkArr at h
  exact mkArrFrom_inj xs ys 0 (V.set.inj h)

theorem asEntries_iff (ms : List V) : ∀ (kvs : List (V × V)),
    asEntries ms = some kvs ↔ ms = kvs.map (fun kv => entryTup kv.1 kv.2) := by
  induction ms with
  | nil =>
    intro kvs
    cases kvs <;> simp [asEntries]
  | cons m r ih =>
    intro kvs
    unfold asEntries
    by_cases hm : m = entryTup (attr2 m).1 (attr2 m).2
    · rw [if_pos hm]
      cases kvs with
      | nil => simp
      | cons kv kvs' =>
        simp only [List.map_cons, Option.map_eq_some_iff, List.cons.injEq]
        constructor
        · rintro ⟨ys, hys, hx, rfl⟩
          refine ⟨?_, (ih _).1 hys⟩
          rw [← hx]; exact hm
        · rintro ⟨h1, h2⟩
          refine ⟨kvs', (ih _).2 h2, ?_, rfl⟩
          rw [h1, attr2_entryTup]
    · rw [if_neg hm]
      cases kvs with
      | nil => simp
      | cons kv kvs' =>
        simp only [List.map_cons, List.cons.injEq]
        constructor
        · intro h; cases h
        · rintro ⟨h1, _⟩
          exfalso; apply hm
          rw [h1, attr2_entryTup]

theorem asDict_iff (v : V) (kvs : List (V × V)) :
    asDict v = some kvs ↔ (v = mkDict kvs ∧ (kvs.map (·.1)).Nodup) := by
  cases v with
  | set ms =>
    cases h : asEntries ms with
    | none =>
      simp only [asDict, h, mkDict]
      constructor
      · intro e; cases e
      · rintro ⟨e, _⟩
        have := (asEntries_iff ms kvs).2 (V.set.inj e)
        rw [h] at this; cases this
    | some kvs' =>
      have h' := (asEntries_iff ms kvs').1 h
      simp only [asDict, h, mkDict]
      by_cases hn : (kvs'.map (·.1)).Nodup
      · rw [if_pos hn]
        constructor
        · intro e
          cases e
          exact ⟨by rw [h'], hn⟩
        · rintro ⟨e, _⟩
          have h2 := (asEntries_iff ms kvs).2 (V.set.inj e)
          rw [h] at h2
          exact h2
      · rw [if_neg hn]
        constructor
        · intro e; cases e
        · rintro ⟨e, hn'⟩
          have h2 := (asEntries_iff ms kvs).2 (V.set.inj e)
          rw [h] at h2
          cases h2
          exact absurd hn' hn
  | num _ => simp [asDict, mkDict]
  | tup _ => simp [asDict, mkDict]

theorem asSet_iff (v : V) (ms : List V) : asSet v = some ms ↔ (v = .set ms ∧ ms.Nodup) := by
  cases v with
  | set ms' =>
    by_cases h : ms'.Nodup
    · simp only [asSet, if_pos h]
      constructor
      · intro e; cases e; exact ⟨rfl, h⟩
      · rintro ⟨e, _⟩; cases e; rfl
    · simp only [asSet, if_neg h]
      constructor
      · intro e; cases e
      · rintro ⟨e, h'⟩; cases e; exact absurd h' h
  | num _ => simp [asSet]
  | tup _ => simp [asSet]

theorem mkDict_inj {a b : List (V × V)} (h : mkDict a = mkDict b) : a = b := by
  unfold mkDict at h
  have h1 := (asEntries_iff _ b).2 (V.set.inj h)
  rw [(asEntries_iff _ a).2 rfl] at h1
  exact Option.some.inj h1

/-! ## `Rebuilds` only grows with the scope -/

theorem restHolds_mono {s t : Env} (h : Env.le s t) {x : String} {w : V} (hr : restHolds s x w) : restHolds t x w := by
  rcases hr with hr | hr
  · exact Or.inl hr
  · exact Or.inr (h _ _ hr)

mutual
theorem Rebuilds_mono {ρ s t : Env} (h : Env.le s t) : ∀ (p : Pat) (v : V), Rebuilds ρ s p v → Rebuilds ρ t p v
  | .lit l, v => by simp only [Rebuilds]; exact id
  | .name x, v => by
    simp only [Rebuilds]
    rintro (hx | hx)
    · exact Or.inl hx
    · exact Or.inr (h _ _ hx)
  | .exprs es, v => by simp only [Rebuilds]; exact id
  | .rest x, v => by simp only [Rebuilds]; exact restHolds_mono h
  | .arr items, v => by
    simp only [Rebuilds]
    rintro ⟨xs, hv, hi⟩
    exact ⟨xs, hv, RItems_mono h items xs hi⟩
  | .tup attrs, v => by
    simp only [Rebuilds]
    rintro ⟨kvs, hv, hnd, ha, hr, hc⟩
    exact ⟨kvs, hv, hnd, RAttrs_mono h attrs kvs ha, fun t ht => restHolds_mono h (hr t ht), hc⟩
  | .dict ents, v => by
    simp only [Rebuilds]
    rintro ⟨kvs, hv, hn, hnd, ha, hr, hc⟩
    exact ⟨kvs, hv, hn, hnd, REnts_mono h ents kvs ha, fun t ht => restHolds_mono h (hr t ht), hc⟩
  | .set elts, v => by
    simp only [Rebuilds]
    rintro ⟨ms, ws, hv, hmn, hn, hsub, he, hr, hc⟩
    exact ⟨ms, ws, hv, hmn, hn, hsub, RElts_mono h elts ws he, fun t ht => restHolds_mono h (hr t ht), hc⟩
theorem RItems_mono {ρ s t : Env} (h : Env.le s t) :
    ∀ (items : List (Pat × Option FExpr)) (xs : List V), RItems ρ s items xs → RItems ρ t items xs
  | [], xs => by simp only [RItems]; exact id
  | (p, fb) :: r, xs => by
    simp only [RItems]
    cases hp : restName p with
    | some tn =>
      simp only
      rintro ⟨seg, tail, hx, hr, hi⟩
      exact ⟨seg, tail, hx, restHolds_mono h hr, RItems_mono h r tail hi⟩
    | none =>
      simp only
      rintro (⟨x, tail, hx, hp', hi⟩ | ⟨d, hd, hx, hp', hi⟩)
      · exact Or.inl ⟨x, tail, hx, Rebuilds_mono h p x hp', RItems_mono h r tail hi⟩
      · exact Or.inr ⟨d, hd, hx, Rebuilds_mono h p _ hp', RItems_mono h r [] hi⟩
theorem RAttrs_mono {ρ s t : Env} (h : Env.le s t) :
    ∀ (attrs : List (String × Pat × Option FExpr)) (kvs : List (String × V)), RAttrs ρ s attrs kvs → RAttrs ρ t attrs kvs
  | [], kvs => by simp only [RAttrs]; exact id
  | (n, p, fb) :: r, kvs => by
    simp only [RAttrs]
    rintro ⟨h1, h2⟩
    refine ⟨?_, RAttrs_mono h r kvs h2⟩
    cases hp : restName p with
    | some tn => simp
    | none =>
      rw [hp] at h1
      simp only at h1 ⊢
      obtain ⟨w, hw, hr⟩ := h1
      exact ⟨w, hw, Rebuilds_mono h p w hr⟩
theorem REnts_mono {ρ s t : Env} (h : Env.le s t) :
    ∀ (ents : List (Lit × Pat × Option FExpr)) (kvs : List (V × V)), REnts ρ s ents kvs → REnts ρ t ents kvs
  | [], kvs => by simp only [REnts]; exact id
  | (k, p, fb) :: r, kvs => by
    simp only [REnts]
    rintro ⟨h1, h2⟩
    refine ⟨?_, REnts_mono h r kvs h2⟩
    cases hp : restName p with
    | some tn => simp
    | none =>
      rw [hp] at h1
      simp only at h1 ⊢
      obtain ⟨w, hw, hr⟩ := h1
      exact ⟨w, hw, Rebuilds_mono h p w hr⟩
theorem RElts_mono {ρ s t : Env} (h : Env.le s t) :
    ∀ (elts : List Pat) (ws : List V), RElts ρ s elts ws → RElts ρ t elts ws
  | [], ws => by simp only [RElts]; exact id
  | p :: r, ws => by
    simp only [RElts]
    cases hp : restName p with
    | some tn => simp only; exact RElts_mono h r ws
    | none =>
      simp only
      rintro ⟨w, tail, hw, hp', hi⟩
      exact ⟨w, tail, hw, Rebuilds_mono h p w hp', RElts_mono h r tail hi⟩
end

/-! ## soundness of `Spec.bind` -/

theorem restName_some {p : Pat} {t : String} (h : restName p = some t) : p = .rest t := by
  cases p <;> simp [restName] at h
  subst h; rfl

theorem isRest_iff (p : Pat) : p.isRest = true ↔ ∃ t, restName p = some t := by
  unfold Pat.isRest
  cases restName p <;> simp

theorem names_rest (t : String) : names (.rest t) = if bindable t then [t] else [] := by simp [names]

/-- one step of every container loop: bind a component, merge, go on -/
theorem step_sound {ρ acc s acc' σ : Env} {p : Pat} {x : V} {N : String → Prop}
    (hp : Rebuilds ρ s p x ∧ ∀ y, (s.lookup y).isSome = true ↔ y ∈ names p)
    (hm : matchedUpdate acc s = some acc')
    (hle : Env.le acc' σ)
    (hdom : ∀ y, (σ.lookup y).isSome = true ↔ ((acc'.lookup y).isSome = true ∨ N y)) :
    Env.le acc σ ∧ Rebuilds ρ σ p x ∧
      ∀ y, (σ.lookup y).isSome = true ↔ ((acc.lookup y).isSome = true ∨ (y ∈ names p ∨ N y)) := by
  refine ⟨Env.le_trans (mu_le_left hm) hle, Rebuilds_mono (Env.le_trans (mu_le_right hm) hle) p x hp.1, ?_⟩
  intro y
  rw [hdom y, mu_dom hm y, hp.2 y]
  constructor
  · rintro ((h | h) | h)
    · exact Or.inl h
    · exact Or.inr (Or.inl h)
    · exact Or.inr (Or.inr h)
  · rintro (h | h | h)
    · exact Or.inl (Or.inl h)
    · exact Or.inl (Or.inr h)
    · exact Or.inr h

theorem singleRest_sound (ρ : Env) (t : String) (w : V) :
    Rebuilds ρ (singleRest t w) (.rest t) w ∧ ∀ y, ((singleRest t w).lookup y).isSome = true ↔ y ∈ names (.rest t) := by
  constructor
  · simp only [Rebuilds, restHolds]
    by_cases hb : bindable t = true
    · right; rw [lookup_singleRest]; simp [hb]
    · left; simpa using hb
  · intro y
    rw [lookup_singleRest, names_rest]
    by_cases hb : bindable t = true
    · simp only [hb, if_true]
      by_cases hy : y = t <;> simp [hy]
    · simp [hb]

theorem bindRests_sound {w : V} : ∀ (ts : List String) (acc σ : Env), bindRests acc w ts = some σ →
    Env.le acc σ ∧ (∀ t, t ∈ ts → restHolds σ t w) ∧
    ∀ y, (σ.lookup y).isSome = true ↔ ((acc.lookup y).isSome = true ∨ (y ∈ ts ∧ bindable y = true))
  | [], acc, σ => by
    simp only [bindRests]
    intro h; cases h
    exact ⟨Env.le_refl _, by simp, by simp⟩
  | t :: r, acc, σ => by
    simp only [bindRests]
    cases hm : matchedUpdate acc (singleRest t w) with
    | none => simp
    | some acc' =>
      simp only
      intro h
      obtain ⟨h1, h2, h3⟩ := bindRests_sound r acc' σ h
      have hs := singleRest_sound [] t w
      refine ⟨Env.le_trans (mu_le_left hm) h1, ?_, ?_⟩
      · intro t' ht'
        rcases List.mem_cons.1 ht' with rfl | ht'
        · have := hs.1
          simp only [Rebuilds] at this
          exact restHolds_mono (Env.le_trans (mu_le_right hm) h1) this
        · exact h2 t' ht'
      · intro y
        rw [h3 y, mu_dom hm y, hs.2 y, names_rest]
        by_cases hb : bindable t = true
        · simp only [hb, if_true, List.mem_cons, List.not_mem_nil, or_false]
          constructor
          · rintro ((h | h) | h)
            · exact Or.inl h
            · subst h; exact Or.inr ⟨Or.inl rfl, hb⟩
            · exact Or.inr ⟨Or.inr h.1, h.2⟩
          · rintro (h | ⟨h | h, hb'⟩)
            · exact Or.inl (Or.inl h)
            · exact Or.inl (Or.inr h)
            · exact Or.inr ⟨h, hb'⟩
        · simp only [hb, List.mem_cons]
          constructor
          · rintro ((h | h) | h)
            · exact Or.inl h
            · simp at h
            · exact Or.inr ⟨Or.inr h.1, h.2⟩
          · rintro (h | ⟨h | h, hb'⟩)
            · exact Or.inl (Or.inl h)
            · subst h; exact absurd hb' hb
            · exact Or.inr ⟨h, hb'⟩

/-! names bound by the parts of a container other than `...` -/
def namesAttrsNR : List (String × Pat × Option FExpr) → List String
  | [] => []
  | (_, p, _) :: r => (match restName p with | some _ => [] | none => names p) ++ namesAttrsNR r
def namesEntsNR : List (Lit × Pat × Option FExpr) → List String
  | [] => []
  | (_, p, _) :: r => (match restName p with | some _ => [] | none => names p) ++ namesEntsNR r
def namesEltsNR : List Pat → List String
  | [] => []
  | p :: r => (match restName p with | some _ => [] | none => names p) ++ namesEltsNR r

theorem mem_names_rest (x t : String) : x ∈ names (.rest t) ↔ (x = t ∧ bindable x = true) := by
  rw [names_rest]
  by_cases hb : bindable t = true
  · simp only [hb, if_true, List.mem_singleton]
    constructor
    · intro h; subst h; exact ⟨rfl, hb⟩
    · intro h; exact h.1
  · have hb' : bindable t = false := by simpa using hb
    simp only [hb', Bool.false_eq_true, if_false, List.not_mem_nil, false_iff]
    rintro ⟨h, hx⟩; subst h; rw [hb'] at hx; cases hx

theorem names_split_aux {a nr rr b : Prop} : ((a ∧ b) ∨ (nr ∨ (rr ∧ b))) ↔ (nr ∨ ((a ∨ rr) ∧ b)) := by
  constructor
  · rintro (⟨h, hb⟩ | h | ⟨h, hb⟩)
    · exact Or.inr ⟨Or.inl h, hb⟩
    · exact Or.inl h
    · exact Or.inr ⟨Or.inr h, hb⟩
  · rintro (h | ⟨h | h, hb⟩)
    · exact Or.inr (Or.inl h)
    · exact Or.inl ⟨h, hb⟩
    · exact Or.inr (Or.inr ⟨h, hb⟩)

theorem mem_namesAttrs (x : String) : ∀ attrs : List (String × Pat × Option FExpr),
    x ∈ namesAttrs attrs ↔ (x ∈ namesAttrsNR attrs ∨ (x ∈ restsAttrs attrs ∧ bindable x = true))
  | [] => by simp [namesAttrs, namesAttrsNR, restsAttrs]
  | (n, p, fb) :: r => by
    simp only [namesAttrs, namesAttrsNR, restsAttrs, List.mem_append, mem_namesAttrs x r]
    cases hp : restName p with
    | none => simp only [List.not_mem_nil, false_or, or_assoc]
    | some t =>
      rw [restName_some hp]
      simp only [mem_names_rest, List.mem_singleton, List.not_mem_nil, false_or]
      exact names_split_aux

theorem mem_namesEnts (x : String) : ∀ ents : List (Lit × Pat × Option FExpr),
    x ∈ namesEnts ents ↔ (x ∈ namesEntsNR ents ∨ (x ∈ restsEnts ents ∧ bindable x = true))
  | [] => by simp [namesEnts, namesEntsNR, restsEnts]
  | (n, p, fb) :: r => by
    simp only [namesEnts, namesEntsNR, restsEnts, List.mem_append, mem_namesEnts x r]
    cases hp : restName p with
    | none => simp only [List.not_mem_nil, false_or, or_assoc]
    | some t =>
      rw [restName_some hp]
      simp only [mem_names_rest, List.mem_singleton, List.not_mem_nil, false_or]
      exact names_split_aux

theorem mem_namesElts (x : String) : ∀ elts : List Pat,
    x ∈ namesElts elts ↔ (x ∈ namesEltsNR elts ∨ (x ∈ restsElts elts ∧ bindable x = true))
  | [] => by simp [namesElts, namesEltsNR, restsElts]
  | p :: r => by
    simp only [namesElts, namesEltsNR, restsElts, List.mem_append, mem_namesElts x r]
    cases hp : restName p with
    | none => simp only [List.not_mem_nil, false_or, or_assoc]
    | some t =>
      rw [restName_some hp]
      simp only [mem_names_rest, List.mem_singleton, List.not_mem_nil, false_or]
      exact names_split_aux

/-! set-pattern element kinds -/
theorem eltKind_rest {p : Pat} (h : eltKind p = .rest) : ∃ t, p = .rest t := by
  cases p with
  | rest t => exact ⟨t, rfl⟩
  | exprs es =>
    cases es with
    | nil => simp [eltKind] at h
    | cons e r => cases r <;> simp [eltKind] at h
  | _ => simp [eltKind] at h

theorem eltKind_ne_rest {p : Pat} (h : eltKind p ≠ .rest) : restName p = none := by
  cases p with
  | rest t => simp [eltKind] at h
  | _ => rfl

/-- a determined element: its pattern `Rebuilds` exactly its value, and it binds no name -/
theorem eltKind_fixed {ρ : Env} {p : Pat} (h : eltKind p = .fixed) :
    names p = [] ∧ ∀ σ w, (fixedValue ρ p = some (some w) → Rebuilds ρ σ p w) ∧
      (Rebuilds ρ σ p w → fixedValue ρ p = some (some w)) := by
  cases p with
  | lit l =>
    refine ⟨by simp [names], fun σ w => ?_⟩
    simp only [fixedValue, Rebuilds, Option.some.injEq]
    exact ⟨fun h => h.symm, fun h => h.symm⟩
  | exprs es =>
    cases es with
    | nil => simp [eltKind] at h
    | cons e r =>
      cases r with
      | nil =>
        refine ⟨by simp [names], fun σ w => ?_⟩
        simp only [fixedValue, Rebuilds, Option.some.injEq, List.mem_singleton]
        constructor
        · intro hv; exact ⟨e, rfl, hv⟩
        · rintro ⟨e', rfl, hv⟩; exact hv
      | cons _ _ => simp [eltKind] at h
  | _ => simp [eltKind] at h

/-- the shape shared by all loop invariants: `σ` extends `acc` by exactly the names in `N` -/
def Ext (acc σ : Env) (N : String → Prop) : Prop :=
  Env.le acc σ ∧ ∀ y, (σ.lookup y).isSome = true ↔ ((acc.lookup y).isSome = true ∨ N y)

mutual
theorem bind_sound (ρ : Env) : ∀ (p : Pat) (v : V) (s : Env), Spec.bind ρ p v = some s →
    Rebuilds ρ s p v ∧ ∀ y, (s.lookup y).isSome = true ↔ y ∈ names p
  | .lit l, v, s => by
    simp only [Spec.bind]
    split
    · rename_i hv
      intro h; cases h
      exact ⟨by simp only [Rebuilds]; exact hv, by simp [names]⟩
    · intro h; cases h
  | .name x, v, s => by
    simp only [Spec.bind, Option.some.injEq]
    rintro rfl
    constructor
    · simp only [Rebuilds, lookup_single]
      by_cases hx : x = "_" <;> simp [hx]
    · intro y
      rw [lookup_single]
      simp only [names]
      by_cases hx : x = "_"
      · simp [hx]
      · simp only [hx, if_false, List.mem_singleton]
        by_cases hy : y = x <;> simp [hy]
  | .exprs es, v, s => by
    simp only [Spec.bind]
    split
    · rename_i h
      intro e; cases e
      rw [List.any_eq_true] at h
      obtain ⟨e, he, hd⟩ := h
      refine ⟨?_, by simp [names]⟩
      simp only [Rebuilds]
      exact ⟨e, he, by simpa using hd⟩
    · intro h; cases h
  | .rest x, v, s => by
    simp only [Spec.bind, Option.some.injEq]
    rintro rfl
    exact singleRest_sound ρ x v
  | .arr items, v, s => by
    simp only [Spec.bind]
    cases ha : asArr v with
    | none => simp
    | some xs =>
      simp only
      intro h
      obtain ⟨h2, _, h3⟩ := bindItems_sound ρ items [] xs s h
      refine ⟨?_, ?_⟩
      · simp only [Rebuilds]
        exact ⟨xs, (asArr_iff v xs).1 ha, h2⟩
      · intro y; rw [h3 y]; simp [names]
  | .tup attrs, v, s => by
    cases v with
    | tup kvs =>
      simp only [Spec.bind]
      split
      · rename_i hnd
        cases hb : Spec.bindAttrs ρ [] attrs kvs with
        | none => simp
        | some acc =>
          simp only
          obtain ⟨h2, _, h3⟩ := bindAttrs_sound ρ attrs [] kvs acc hb
          split
          · rename_i hr
            split
            · rename_i hall
              intro e; cases e
              refine ⟨?_, ?_⟩
              · simp only [Rebuilds]
                refine ⟨kvs, rfl, hnd, h2, ?_, ?_⟩
                · intro t ht; rw [hr] at ht; simp at ht
                · intro _ kv hkv
                  have := (List.all_eq_true.1 hall) kv hkv
                  simpa using this
              · intro y
                rw [h3 y]
                simp only [names, mem_namesAttrs y attrs, hr]
                simp
            · intro e; cases e
          · rename_i hr
            intro hrest
            obtain ⟨g1, g2, g3⟩ := bindRests_sound _ _ _ hrest
            refine ⟨?_, ?_⟩
            · simp only [Rebuilds]
              exact ⟨kvs, rfl, hnd, RAttrs_mono g1 attrs kvs h2, g2, fun h => absurd h hr⟩
            · intro y
              rw [g3 y, h3 y]
              simp only [names, mem_namesAttrs y attrs]
              simp
      · intro e; cases e
    | num _ => simp [Spec.bind]
    | set _ => simp [Spec.bind]
  | .dict ents, v, s => by
    simp only [Spec.bind]
    cases ha : asDict v with
    | none => simp
    | some kvs =>
      obtain ⟨hv, hkn⟩ := (asDict_iff v kvs).1 ha
      simp only
      split
      · rename_i hnd
        cases hb : Spec.bindEnts ρ [] ents kvs with
        | none => simp
        | some acc =>
          simp only
          obtain ⟨h2, _, h3⟩ := bindEnts_sound ρ ents [] kvs acc hb
          split
          · rename_i hr
            split
            · rename_i hall
              intro e; cases e
              refine ⟨?_, ?_⟩
              · simp only [Rebuilds]
                refine ⟨kvs, hv, hkn, hnd, h2, ?_, ?_⟩
                · intro t ht; rw [hr] at ht; simp at ht
                · intro _ kv hkv
                  have := (List.all_eq_true.1 hall) kv hkv
                  simpa using this
              · intro y
                rw [h3 y]
                simp only [names, mem_namesEnts y ents, hr]
                simp
            · intro e; cases e
          · rename_i hr
            intro hrest
            obtain ⟨g1, g2, g3⟩ := bindRests_sound _ _ _ hrest
            refine ⟨?_, ?_⟩
            · simp only [Rebuilds]
              exact ⟨kvs, hv, hkn, hnd, REnts_mono g1 ents kvs h2, g2, fun h => absurd h hr⟩
            · intro y
              rw [g3 y, h3 y]
              simp only [names, mem_namesEnts y ents]
              simp
      · intro e; cases e
  | .set elts, v, s => by
    simp only [Spec.bind]
    cases hset : asSet v with
    | none => simp
    | some ms =>
      obtain ⟨hv, hmnd⟩ := (asSet_iff v ms).1 hset
      subst hv
      simp only
      cases hf : fixedValues ρ elts with
      | none => simp
      | some fws =>
        simp only
        split
        · rename_i hfw
          obtain ⟨hfnd, hfall⟩ := hfw
          cases hb : Spec.bindElts ρ [] elts (ms.filter (fun m => !decide (m ∈ fws))) with
          | none => simp
          | some res =>
            obtain ⟨acc, left⟩ := res
            simp only
            obtain ⟨h1, h3, ws, hws, hcase⟩ := bindElts_sound ρ elts [] _ acc left fws hb hf
            -- facts about the chosen members
            have hkey : ws.Nodup ∧ (∀ w, w ∈ ws → w ∈ ms) ∧ ms.filter (fun m => !decide (m ∈ ws)) = left := by
              rcases hcase with ⟨hl, hw⟩ | ⟨w, hl, hl', hperm⟩
              · subst hw; subst hl
                refine ⟨hfnd, ?_, rfl⟩
                intro w hw
                have := (List.all_eq_true.1 hfall) w hw
                simpa using this
              · have hwl : w ∈ ms.filter (fun m => !decide (m ∈ fws)) := by rw [hl]; simp
                simp only [List.mem_filter, Bool.not_eq_true', decide_eq_false_iff_not] at hwl
                refine ⟨?_, ?_, ?_⟩
                · exact (List.Perm.nodup_iff hperm).2 (List.nodup_cons.2 ⟨hwl.2, hfnd⟩)
                · intro w' hw'
                  rcases List.mem_cons.1 ((List.Perm.mem_iff hperm).1 hw') with rfl | hw'
                  · exact hwl.1
                  · have := (List.all_eq_true.1 hfall) w' hw'
                    simpa using this
                · rw [hl', List.filter_eq_nil_iff]
                  intro m hm
                  simp only [Bool.not_eq_true', decide_eq_false_iff_not, Decidable.not_not]
                  by_cases hmf : m ∈ fws
                  · exact (List.Perm.mem_iff hperm).2 (List.mem_cons_of_mem _ hmf)
                  · have : m ∈ ms.filter (fun m => !decide (m ∈ fws)) := by
                      simp only [List.mem_filter, Bool.not_eq_true', decide_eq_false_iff_not]; exact ⟨hm, hmf⟩
                    rw [hl] at this
                    simp at this
                    subst this
                    exact (List.Perm.mem_iff hperm).2 (List.mem_cons_self ..)
            obtain ⟨hnd, hsub, hfilt⟩ := hkey
            split
            · rename_i hr
              split
              · rename_i hleft
                intro e; cases e
                refine ⟨?_, ?_⟩
                · simp only [Rebuilds]
                  refine ⟨ms, ws, rfl, hmnd, hnd, hsub, hws, ?_, ?_⟩
                  · intro t ht; rw [hr] at ht; simp at ht
                  · intro _ m hm
                    rw [hleft, List.filter_eq_nil_iff] at hfilt
                    have := hfilt m hm
                    simpa using this
                · intro y
                  rw [h3 y]
                  simp only [names, mem_namesElts y elts, hr]
                  simp
              · intro e; cases e
            · rename_i hr
              intro hrest
              obtain ⟨g1, g2, g3⟩ := bindRests_sound _ _ _ hrest
              refine ⟨?_, ?_⟩
              · simp only [Rebuilds]
                refine ⟨ms, ws, rfl, hmnd, hnd, hsub, RElts_mono g1 elts ws hws, ?_, fun h => absurd h hr⟩
                rw [hfilt]; exact g2
              · intro y
                rw [g3 y, h3 y]
                simp only [names, mem_namesElts y elts]
                simp
        · intro e; cases e
theorem bindItems_sound (ρ : Env) : ∀ (items : List (Pat × Option FExpr)) (acc : Env) (xs : List V) (σ : Env),
    Spec.bindItems ρ acc items xs = some σ →
    RItems ρ σ items xs ∧ Ext acc σ (fun y => y ∈ namesItems items)
  | [], acc, xs, σ => by
    simp only [Spec.bindItems]
    split
    · rename_i hx
      intro h; cases h
      exact ⟨by simp only [RItems]; exact hx, Env.le_refl _, by simp [namesItems]⟩
    · intro h; cases h
  | (p, fb) :: r, acc, xs, σ => by
    simp only [Spec.bindItems]
    cases hp : restName p with
    | some t =>
      simp only
      split
      · cases hm : matchedUpdate acc (singleRest t (mkArr (xs.take (xs.length - r.length)))) with
        | none => simp
        | some acc' =>
          simp only
          intro h
          obtain ⟨h2, h1, h3⟩ := bindItems_sound ρ r acc' _ σ h
          have hs := singleRest_sound ρ t (mkArr (xs.take (xs.length - r.length)))
          have hstep := step_sound (N := fun y => y ∈ namesItems r) hs hm h1 h3
          refine ⟨?_, hstep.1, ?_⟩
          · simp only [RItems, hp]
            refine ⟨xs.take _, xs.drop _, (List.take_append_drop _ _).symm, ?_, h2⟩
            have := hstep.2.1
            simpa only [Rebuilds] using this
          · intro y
            rw [hstep.2.2 y]
            simp only [namesItems, restName_some hp, List.mem_append]
      · intro h; cases h
    | none =>
      simp only
      cases xs with
      | cons x tail =>
        simp only
        cases hb : Spec.bind ρ p x with
        | none => simp
        | some s =>
          simp only
          cases hm : matchedUpdate acc s with
          | none => simp
          | some acc' =>
            simp only
            intro h
            obtain ⟨h2, h1, h3⟩ := bindItems_sound ρ r acc' tail σ h
            have hstep := step_sound (N := fun y => y ∈ namesItems r) (bind_sound ρ p x s hb) hm h1 h3
            refine ⟨?_, hstep.1, ?_⟩
            · simp only [RItems, hp]
              exact Or.inl ⟨x, tail, rfl, hstep.2.1, h2⟩
            · intro y
              rw [hstep.2.2 y]
              simp only [namesItems, List.mem_append]
      | nil =>
        cases hfv : fbVal ρ fb with
        | none => simp
        | some d =>
          simp only
          cases hb : Spec.bind ρ p d with
          | none => simp
          | some s =>
            simp only
            cases hm : matchedUpdate acc s with
            | none => simp
            | some acc' =>
              simp only
              intro h
              obtain ⟨h2, h1, h3⟩ := bindItems_sound ρ r acc' [] σ h
              have hstep := step_sound (N := fun y => y ∈ namesItems r) (bind_sound ρ p d s hb) hm h1 h3
              refine ⟨?_, hstep.1, ?_⟩
              · simp only [RItems, hp]
                exact Or.inr ⟨d, hfv, trivial, hstep.2.1, h2⟩
              · intro y
                rw [hstep.2.2 y]
                simp only [namesItems, List.mem_append]
theorem bindAttrs_sound (ρ : Env) : ∀ (attrs : List (String × Pat × Option FExpr)) (acc : Env)
    (kvs : List (String × V)) (σ : Env), Spec.bindAttrs ρ acc attrs kvs = some σ →
    RAttrs ρ σ attrs kvs ∧ Ext acc σ (fun y => y ∈ namesAttrsNR attrs)
  | [], acc, kvs, σ => by
    simp only [Spec.bindAttrs, Option.some.injEq]
    rintro rfl
    exact ⟨by simp only [RAttrs], Env.le_refl _, by simp [namesAttrsNR]⟩
  | (n, p, fb) :: r, acc, kvs, σ => by
    simp only [Spec.bindAttrs]
    cases hp : restName p with
    | some t =>
      simp only
      intro h
      obtain ⟨h2, h1, h3⟩ := bindAttrs_sound ρ r acc kvs σ h
      refine ⟨?_, h1, ?_⟩
      · simp only [RAttrs, hp]; exact ⟨trivial, h2⟩
      · intro y; rw [h3 y]; simp [namesAttrsNR, hp]
    | none =>
      simp only
      -- the value handed to the component: the attribute, or the fallback when it is absent
      cases hw : compValue ρ (kvs.lookup n) fb with
      | none => simp
      | some w =>
        simp only
        cases hb : Spec.bind ρ p w with
        | none => simp
        | some s =>
          simp only
          cases hm : matchedUpdate acc s with
          | none => simp
          | some acc' =>
            simp only
            intro h
            obtain ⟨h2, h1, h3⟩ := bindAttrs_sound ρ r acc' kvs σ h
            have hstep := step_sound (N := fun y => y ∈ namesAttrsNR r) (bind_sound ρ p w s hb) hm h1 h3
            refine ⟨?_, hstep.1, ?_⟩
            · simp only [RAttrs, hp]
              exact ⟨⟨w, hw, hstep.2.1⟩, h2⟩
            · intro y
              rw [hstep.2.2 y]
              simp only [namesAttrsNR, hp, List.mem_append]
theorem bindEnts_sound (ρ : Env) : ∀ (ents : List (Lit × Pat × Option FExpr)) (acc : Env)
    (kvs : List (V × V)) (σ : Env), Spec.bindEnts ρ acc ents kvs = some σ →
    REnts ρ σ ents kvs ∧ Ext acc σ (fun y => y ∈ namesEntsNR ents)
  | [], acc, kvs, σ => by
    simp only [Spec.bindEnts, Option.some.injEq]
    rintro rfl
    exact ⟨by simp only [REnts], Env.le_refl _, by simp [namesEntsNR]⟩
  | (k, p, fb) :: r, acc, kvs, σ => by
    simp only [Spec.bindEnts]
    cases hp : restName p with
    | some t =>
      simp only
      intro h
      obtain ⟨h2, h1, h3⟩ := bindEnts_sound ρ r acc kvs σ h
      refine ⟨?_, h1, ?_⟩
      · simp only [REnts, hp]; exact ⟨trivial, h2⟩
      · intro y; rw [h3 y]; simp [namesEntsNR, hp]
    | none =>
      simp only
      cases hw : compValue ρ (kvs.lookup k.den) fb with
      | none => simp
      | some w =>
        simp only
        cases hb : Spec.bind ρ p w with
        | none => simp
        | some s =>
          simp only
          cases hm : matchedUpdate acc s with
          | none => simp
          | some acc' =>
            simp only
            intro h
            obtain ⟨h2, h1, h3⟩ := bindEnts_sound ρ r acc' kvs σ h
            have hstep := step_sound (N := fun y => y ∈ namesEntsNR r) (bind_sound ρ p w s hb) hm h1 h3
            refine ⟨?_, hstep.1, ?_⟩
            · simp only [REnts, hp]
              exact ⟨⟨w, hw, hstep.2.1⟩, h2⟩
            · intro y
              rw [hstep.2.2 y]
              simp only [namesEntsNR, hp, List.mem_append]
theorem bindElts_sound (ρ : Env) : ∀ (elts : List Pat) (acc : Env) (left : List V) (σ : Env) (left' fws : List V),
    Spec.bindElts ρ acc elts left = some (σ, left') → fixedValues ρ elts = some fws →
    Env.le acc σ ∧ (∀ y, (σ.lookup y).isSome = true ↔ ((acc.lookup y).isSome = true ∨ y ∈ namesEltsNR elts)) ∧
    ∃ ws, RElts ρ σ elts ws ∧
      ((left' = left ∧ ws = fws) ∨ (∃ w, left = [w] ∧ left' = [] ∧ ws.Perm (w :: fws)))
  | [], acc, left, σ, left', fws => by
    simp only [Spec.bindElts, fixedValues, Option.some.injEq, Prod.mk.injEq]
    rintro ⟨rfl, rfl⟩ rfl
    exact ⟨Env.le_refl _, by simp [namesEltsNR], [], by simp only [RElts], Or.inl ⟨rfl, rfl⟩⟩
  | p :: r, acc, left, σ, left', fws => by
    cases hk : eltKind p with
    | rest =>
      obtain ⟨t, rfl⟩ := eltKind_rest hk
      simp only [Spec.bindElts, fixedValues, hk]
      intro h hf
      obtain ⟨h1, h3, ws, hws, hc⟩ := bindElts_sound ρ r acc left σ left' fws h hf
      refine ⟨h1, ?_, ws, ?_, hc⟩
      · intro y; rw [h3 y]; simp [namesEltsNR, restName]
      · simp only [RElts, restName]; exact hws
    | fixed =>
      have hrn := eltKind_ne_rest (p := p) (by rw [hk]; decide)
      obtain ⟨hnames, hfix⟩ := eltKind_fixed (ρ := ρ) hk
      simp only [Spec.bindElts, fixedValues, hk]
      intro h hf
      cases hfv : fixedValue ρ p with
      | none => rw [hfv] at hf; simp at hf
      | some ow =>
        cases ow with
        | none => rw [hfv] at hf; simp at hf
        | some w =>
          rw [hfv] at hf
          simp only [Option.map_eq_some_iff] at hf
          obtain ⟨fws', hf', rfl⟩ := hf
          obtain ⟨h1, h3, ws, hws, hc⟩ := bindElts_sound ρ r acc left σ left' fws' h hf'
          refine ⟨h1, ?_, w :: ws, ?_, ?_⟩
          · intro y; rw [h3 y]; simp [namesEltsNR, hrn, hnames]
          · simp only [RElts, hrn]
            exact ⟨w, ws, rfl, (hfix σ w).1 hfv, hws⟩
          · rcases hc with ⟨hl, hw⟩ | ⟨w0, hl, hl', hperm⟩
            · exact Or.inl ⟨hl, by rw [hw]⟩
            · refine Or.inr ⟨w0, hl, hl', ?_⟩
              exact (List.Perm.cons w hperm).trans (List.Perm.swap w0 w fws')
    | free =>
      have hrn := eltKind_ne_rest (p := p) (by rw [hk]; decide)
      simp only [Spec.bindElts, fixedValues, hk]
      cases left with
      | nil => simp
      | cons w l2 =>
        cases l2 with
        | cons _ _ => simp
        | nil =>
          simp only
          cases hb : Spec.bind ρ p w with
          | none => simp
          | some s =>
            simp only
            cases hm : matchedUpdate acc s with
            | none => simp
            | some acc' =>
              simp only
              intro h hf
              obtain ⟨h1, h3, ws, hws, hc⟩ := bindElts_sound ρ r acc' [] σ left' fws h hf
              have hstep := step_sound (N := fun y => y ∈ namesEltsNR r) (bind_sound ρ p w s hb) hm h1 h3
              have hws' : ws = fws ∧ left' = [] := by
                rcases hc with ⟨hl, hw⟩ | ⟨w0, hl, _, _⟩
                · exact ⟨hw, hl⟩
                · cases hl
              refine ⟨hstep.1, ?_, w :: ws, ?_, ?_⟩
              · intro y
                rw [hstep.2.2 y]
                simp only [namesEltsNR, hrn, List.mem_append]
              · simp only [RElts, hrn]
                exact ⟨w, ws, rfl, hstep.2.1, hws⟩
              · exact Or.inr ⟨w, rfl, hws'.2, by rw [hws'.1]⟩
end

/-! ## completeness of `Spec.bind` on deterministic patterns -/

theorem restHolds_le {σ : Env} {t : String} {w : V} (h : restHolds σ t w) : Env.le (singleRest t w) σ := by
  intro x v hx
  rw [lookup_singleRest] at hx
  rcases h with h | h
  · simp [h] at hx
  · by_cases hb : bindable t = true
    · simp only [hb, if_true] at hx
      by_cases hxt : x = t
      · subst hxt; simp at hx; subst hx; exact h
      · simp [hxt] at hx
    · simp [hb] at hx

theorem bindRests_complete {σ : Env} {w : V} : ∀ (ts : List String) (acc : Env),
    (∀ t, t ∈ ts → restHolds σ t w) → Env.le acc σ → ∃ σ', bindRests acc w ts = some σ' ∧ Env.le σ' σ
  | [], acc, _, hacc => ⟨acc, by simp [bindRests], hacc⟩
  | t :: r, acc, hts, hacc => by
    obtain ⟨acc', hm, hle⟩ := mu_complete hacc (restHolds_le (hts t (by simp)))
    obtain ⟨σ', h1, h2⟩ := bindRests_complete r acc' (fun t' ht' => hts t' (by simp [ht'])) hle
    exact ⟨σ', by simp only [bindRests, hm]; exact h1, h2⟩

/-- items without `...` and without fallbacks consume exactly one item each -/
theorem RItems_plain_length {ρ σ : Env} : ∀ (r : List (Pat × Option FExpr)) (xs : List V),
    r.all (fun q => !q.1.isRest && q.2.isNone) = true → RItems ρ σ r xs → xs.length = r.length
  | [], xs, _, h => by simp only [RItems] at h; simp [h]
  | (p, fb) :: r, xs, hall, h => by
    simp only [List.all_cons, Bool.and_eq_true, Bool.not_eq_true', Option.isNone_iff_eq_none] at hall
    obtain ⟨⟨hp, hfb⟩, hr⟩ := hall
    have hrn : restName p = none := by
      unfold Pat.isRest at hp
      cases h' : restName p with
      | none => rfl
      | some t => rw [h'] at hp; simp at hp
    simp only [RItems, hrn] at h
    rcases h with ⟨x, tail, rfl, _, hi⟩ | ⟨d, hd, _, _, _⟩
    · simp [RItems_plain_length r tail hr hi]
    · rw [hfb] at hd; simp [fbVal] at hd

theorem restName_none_of_not_isRest {p : Pat} (h : p.isRest = false) : restName p = none := by
  unfold Pat.isRest at h
  cases h' : restName p with
  | none => rfl
  | some t => rw [h'] at h; simp at h

/-- a nodup list whose only possible member is `w`, and which has `w` -/
theorem nodup_singleton {l : List V} {w : V} (hn : l.Nodup) (hm : ∀ m, m ∈ l ↔ m = w) : l = [w] := by
  cases l with
  | nil => have := (hm w).2 rfl; simp at this
  | cons a l' =>
    have ha : a = w := (hm a).1 (by simp)
    subst ha
    cases l' with
    | nil => rfl
    | cons b l'' =>
      have hb : b = a := (hm b).1 (by simp)
      subst hb
      simp at hn

theorem countKind_cons (k : EltKind) (p : Pat) (r : List Pat) :
    countKind k (p :: r) = (if eltKind p = k then 1 else 0) + countKind k r := by
  unfold countKind
  by_cases h : eltKind p = k
  · simp [h]; omega
  · simp [h]

theorem restsElts_nil_of_count {elts : List Pat} (h : countKind .rest elts = 0) : restsElts elts = [] := by
  induction elts with
  | nil => rfl
  | cons p r ih =>
    rw [countKind_cons] at h
    by_cases hk : eltKind p = .rest
    · simp [hk] at h
    · simp only [hk, if_false, Nat.zero_add] at h
      simp only [restsElts, eltKind_ne_rest hk, List.nil_append]
      exact ih h

/-- elements without a free one: the chosen members are the determined values and the loop changes nothing -/
theorem bindElts_nofree {ρ σ : Env} : ∀ (elts : List Pat) (ws : List V),
    countKind .free elts = 0 → RElts ρ σ elts ws →
    fixedValues ρ elts = some ws ∧ ∀ acc left, Spec.bindElts ρ acc elts left = some (acc, left)
  | [], ws, _, h => by
    simp only [RElts] at h
    subst h
    exact ⟨rfl, fun acc left => rfl⟩
  | p :: r, ws, hc, h => by
    rw [countKind_cons] at hc
    cases hk : eltKind p with
    | free => simp [hk] at hc
    | rest =>
      obtain ⟨t, rfl⟩ := eltKind_rest hk
      simp only [hk] at hc
      simp only [RElts, restName] at h
      obtain ⟨h1, h2⟩ := bindElts_nofree r ws (by simpa using hc) h
      refine ⟨by simp only [fixedValues, hk]; exact h1, fun acc left => ?_⟩
      simp only [Spec.bindElts, hk]; exact h2 acc left
    | fixed =>
      have hrn := eltKind_ne_rest (p := p) (by rw [hk]; decide)
      simp only [hk] at hc
      simp only [RElts, hrn] at h
      obtain ⟨w, tail, rfl, hp, hr⟩ := h
      obtain ⟨h1, h2⟩ := bindElts_nofree r tail (by simpa using hc) hr
      have hfv := ((eltKind_fixed (ρ := ρ) hk).2 σ w).2 hp
      refine ⟨by simp only [fixedValues, hk, hfv, h1, Option.map_some], fun acc left => ?_⟩
      simp only [Spec.bindElts, hk]; exact h2 acc left

theorem plain_shape : ∀ (r : List (Pat × Option FExpr)),
    r.all (fun q => !q.1.isRest && q.2.isNone) = true → detItemsShape r = true
  | [], _ => rfl
  | (p, fb) :: r, h => by
    simp only [List.all_cons, Bool.and_eq_true, Bool.not_eq_true'] at h
    simp only [detItemsShape, h.1.1]
    exact plain_shape r h.2

mutual
theorem bind_complete (ρ σ : Env) : ∀ (p : Pat) (v : V), det p = true → Rebuilds ρ σ p v →
    ∃ s, Spec.bind ρ p v = some s ∧ Env.le s σ
  | .lit l, v, _, h => by
    simp only [Rebuilds] at h
    exact ⟨[], by simp [Spec.bind, h], Env.nil_le _⟩
  | .name x, v, _, h => by
    simp only [Rebuilds] at h
    refine ⟨single x v, by simp [Spec.bind], ?_⟩
    intro y w hy
    rw [lookup_single] at hy
    rcases h with h | h
    · simp [h] at hy
    · by_cases hx : x = "_"
      · simp [hx] at hy
      · simp only [hx, if_false] at hy
        by_cases hyx : y = x
        · subst hyx; simp at hy; subst hy; exact h
        · simp [hyx] at hy
  | .exprs es, v, _, h => by
    simp only [Rebuilds] at h
    obtain ⟨e, he, hv⟩ := h
    refine ⟨[], ?_, Env.nil_le _⟩
    have : es.any (fun e => decide (e.eval ρ = some v)) = true :=
      List.any_eq_true.2 ⟨e, he, by simpa using hv⟩
    simp [Spec.bind, this]
  | .rest x, v, _, h => by
    simp only [Rebuilds] at h
    exact ⟨singleRest x v, by simp [Spec.bind], restHolds_le h⟩
  | .arr items, v, hd, h => by
    simp only [det, Bool.and_eq_true] at hd
    simp only [Rebuilds] at h
    obtain ⟨xs, rfl, hi⟩ := h
    obtain ⟨σ', h1, h2⟩ := bindItems_complete ρ σ items [] xs hd.1 hd.2 hi (Env.nil_le _)
    exact ⟨σ', by simp only [Spec.bind, asArr_mkArr]; exact h1, h2⟩
  | .tup attrs, v, hd, h => by
    simp only [det, Bool.and_eq_true] at hd
    simp only [Rebuilds] at h
    obtain ⟨kvs, rfl, hnd, ha, hr, hc⟩ := h
    obtain ⟨acc, h1, h2⟩ := bindAttrs_complete ρ σ attrs [] kvs hd.2 ha (Env.nil_le _)
    simp only [Spec.bind, if_pos hnd, h1]
    by_cases hrests : restsAttrs attrs = []
    · rw [if_pos hrests]
      have : kvs.all (fun kv => (attrNames attrs).contains kv.1) = true := by
        rw [List.all_eq_true]
        intro kv hkv
        simpa using hc hrests kv hkv
      rw [if_pos this]
      exact ⟨acc, rfl, h2⟩
    · rw [if_neg hrests]
      exact bindRests_complete _ acc hr h2
  | .dict ents, v, hd, h => by
    simp only [det, Bool.and_eq_true] at hd
    simp only [Rebuilds] at h
    obtain ⟨kvs, rfl, hkn, hnd, ha, hr, hc⟩ := h
    obtain ⟨acc, h1, h2⟩ := bindEnts_complete ρ σ ents [] kvs hd.2 ha (Env.nil_le _)
    have hview : asDict (mkDict kvs) = some kvs := (asDict_iff _ _).2 ⟨rfl, hkn⟩
    simp only [Spec.bind, hview, if_pos hnd, h1]
    by_cases hrests : restsEnts ents = []
    · rw [if_pos hrests]
      have : kvs.all (fun kv => decide (kv.1 ∈ entKeys ents)) = true := by
        rw [List.all_eq_true]
        intro kv hkv
        simpa using hc hrests kv hkv
      rw [if_pos this]
      exact ⟨acc, rfl, h2⟩
    · rw [if_neg hrests]
      exact bindRests_complete _ acc hr h2
  | .set elts, v, hd, h => by
    simp only [det, Bool.and_eq_true, decide_eq_true_eq] at hd
    obtain ⟨⟨hcount, _⟩, hde⟩ := hd
    simp only [Rebuilds] at h
    obtain ⟨ms, ws, rfl, hmnd, hwnd, hsub, he, hr, hc⟩ := h
    have hview : asSet (.set ms) = some ms := (asSet_iff _ _).2 ⟨rfl, hmnd⟩
    by_cases hfree : countKind .free elts = 0
    · obtain ⟨hf, hloop⟩ := bindElts_nofree elts ws hfree he
      have hok : ws.Nodup ∧ ws.all (fun w => decide (w ∈ ms)) = true :=
        ⟨hwnd, List.all_eq_true.2 (fun w hw => by simpa using hsub w hw)⟩
      simp only [Spec.bind, hview, hf, if_pos hok, hloop]
      by_cases hrests : restsElts elts = []
      · rw [if_pos hrests]
        have : ms.filter (fun m => !decide (m ∈ ws)) = [] := by
          rw [List.filter_eq_nil_iff]
          intro m hm
          simpa using hc hrests m hm
        rw [if_pos this]
        exact ⟨[], rfl, Env.nil_le _⟩
      · rw [if_neg hrests]
        exact bindRests_complete _ [] hr (Env.nil_le _)
    · have hfree1 : countKind .free elts = 1 := by omega
      have hrest0 : countKind .rest elts = 0 := by omega
      have hrests := restsElts_nil_of_count hrest0
      -- the one member left by the determined elements is the free element's
      have hleft : ∀ fws w, ws.Perm (w :: fws) → ms.filter (fun m => !decide (m ∈ fws)) = [w] := by
        intro fws w hperm
        have hnd' : (w :: fws).Nodup := (List.Perm.nodup_iff hperm).1 hwnd
        apply nodup_singleton (List.Nodup.sublist List.filter_sublist hmnd)
        intro m
        simp only [List.mem_filter, Bool.not_eq_true', decide_eq_false_iff_not]
        constructor
        · rintro ⟨hm, hmf⟩
          have := (List.Perm.mem_iff hperm).1 (hc hrests m hm)
          rcases List.mem_cons.1 this with h | h
          · exact h
          · exact absurd h hmf
        · rintro rfl
          exact ⟨hsub _ ((List.Perm.mem_iff hperm).2 (List.mem_cons_self ..)), (List.nodup_cons.1 hnd').1⟩
      obtain ⟨fws, w, σ', hf, hperm, hloop, hle⟩ := bindElts_free ρ σ elts ws [] hde hfree1 he (Env.nil_le _)
      have hnd' : (w :: fws).Nodup := (List.Perm.nodup_iff hperm).1 hwnd
      have hok : fws.Nodup ∧ fws.all (fun w => decide (w ∈ ms)) = true :=
        ⟨(List.nodup_cons.1 hnd').2, List.all_eq_true.2 (fun w' hw' => by
          simpa using hsub w' ((List.Perm.mem_iff hperm).2 (List.mem_cons_of_mem _ hw')))⟩
      simp only [Spec.bind, hview, hf, if_pos hok, hleft fws w hperm, hloop, if_pos hrests]
      exact ⟨σ', by simp, hle⟩
theorem bindItems_complete (ρ σ : Env) : ∀ (items : List (Pat × Option FExpr)) (acc : Env) (xs : List V),
    detItemsShape items = true → detItems items = true → RItems ρ σ items xs → Env.le acc σ →
    ∃ σ', Spec.bindItems ρ acc items xs = some σ' ∧ Env.le σ' σ
  | [], acc, xs, _, _, h, hacc => by
    simp only [RItems] at h
    exact ⟨acc, by simp [Spec.bindItems, h], hacc⟩
  | (p, fb) :: r, acc, xs, hsh, hdi, h, hacc => by
    simp only [detItems, Bool.and_eq_true] at hdi
    cases hp : restName p with
    | some t =>
      have hisr : p.isRest = true := (isRest_iff p).2 ⟨t, hp⟩
      simp only [detItemsShape, hisr, if_true] at hsh
      simp only [RItems, hp] at h
      obtain ⟨seg, tail, rfl, hrest, hi⟩ := h
      have hlen := RItems_plain_length r tail hsh hi
      have hk : (seg ++ tail).length - r.length = seg.length := by simp [hlen]
      obtain ⟨acc', hm, hle⟩ := mu_complete hacc (restHolds_le hrest)
      obtain ⟨σ', h1, h2⟩ := bindItems_complete ρ σ r acc' tail (plain_shape r hsh) hdi.2 hi hle
      refine ⟨σ', ?_, h2⟩
      have hle' : r.length ≤ (seg ++ tail).length := by simp [hlen]
      simp only [Spec.bindItems, hp, if_pos hle', hk, List.take_left', List.drop_left', hm]
      exact h1
    | none =>
      have hisr : p.isRest = false := by
        cases hh : p.isRest with
        | false => rfl
        | true => obtain ⟨t, ht⟩ := (isRest_iff p).1 hh; rw [hp] at ht; cases ht
      simp only [detItemsShape, hisr] at hsh
      simp only [RItems, hp] at h
      rcases h with ⟨x, tail, rfl, hpx, hi⟩ | ⟨d, hfv, rfl, hpd, hi⟩
      · obtain ⟨s, hb, hs⟩ := bind_complete ρ σ p x hdi.1 hpx
        obtain ⟨acc', hm, hle⟩ := mu_complete hacc hs
        obtain ⟨σ', h1, h2⟩ := bindItems_complete ρ σ r acc' tail (by simpa using hsh) hdi.2 hi hle
        exact ⟨σ', by simp only [Spec.bindItems, hp, hb, hm]; exact h1, h2⟩
      · obtain ⟨s, hb, hs⟩ := bind_complete ρ σ p d hdi.1 hpd
        obtain ⟨acc', hm, hle⟩ := mu_complete hacc hs
        obtain ⟨σ', h1, h2⟩ := bindItems_complete ρ σ r acc' [] (by simpa using hsh) hdi.2 hi hle
        exact ⟨σ', by simp only [Spec.bindItems, hp, hfv, hb, hm]; exact h1, h2⟩
theorem bindAttrs_complete (ρ σ : Env) : ∀ (attrs : List (String × Pat × Option FExpr)) (acc : Env)
    (kvs : List (String × V)), detAttrs attrs = true → RAttrs ρ σ attrs kvs → Env.le acc σ →
    ∃ σ', Spec.bindAttrs ρ acc attrs kvs = some σ' ∧ Env.le σ' σ
  | [], acc, kvs, _, _, hacc => ⟨acc, by simp [Spec.bindAttrs], hacc⟩
  | (n, p, fb) :: r, acc, kvs, hd, h, hacc => by
    simp only [detAttrs, Bool.and_eq_true] at hd
    simp only [RAttrs] at h
    cases hp : restName p with
    | some t =>
      obtain ⟨σ', h1, h2⟩ := bindAttrs_complete ρ σ r acc kvs hd.2 h.2 hacc
      exact ⟨σ', by simp only [Spec.bindAttrs, hp]; exact h1, h2⟩
    | none =>
      rw [hp] at h
      obtain ⟨⟨w, hw, hpw⟩, hr⟩ := h
      obtain ⟨s, hb, hs⟩ := bind_complete ρ σ p w hd.1 hpw
      obtain ⟨acc', hm, hle⟩ := mu_complete hacc hs
      obtain ⟨σ', h1, h2⟩ := bindAttrs_complete ρ σ r acc' kvs hd.2 hr hle
      exact ⟨σ', by simp only [Spec.bindAttrs, hp, hw, hb, hm]; exact h1, h2⟩
theorem bindEnts_complete (ρ σ : Env) : ∀ (ents : List (Lit × Pat × Option FExpr)) (acc : Env)
    (kvs : List (V × V)), detEnts ents = true → REnts ρ σ ents kvs → Env.le acc σ →
    ∃ σ', Spec.bindEnts ρ acc ents kvs = some σ' ∧ Env.le σ' σ
  | [], acc, kvs, _, _, hacc => ⟨acc, by simp [Spec.bindEnts], hacc⟩
  | (k, p, fb) :: r, acc, kvs, hd, h, hacc => by
    simp only [detEnts, Bool.and_eq_true] at hd
    simp only [REnts] at h
    cases hp : restName p with
    | some t =>
      obtain ⟨σ', h1, h2⟩ := bindEnts_complete ρ σ r acc kvs hd.2 h.2 hacc
      exact ⟨σ', by simp only [Spec.bindEnts, hp]; exact h1, h2⟩
    | none =>
      rw [hp] at h
      obtain ⟨⟨w, hw, hpw⟩, hr⟩ := h
      obtain ⟨s, hb, hs⟩ := bind_complete ρ σ p w hd.1 hpw
      obtain ⟨acc', hm, hle⟩ := mu_complete hacc hs
      obtain ⟨σ', h1, h2⟩ := bindEnts_complete ρ σ r acc' kvs hd.2 hr hle
      exact ⟨σ', by simp only [Spec.bindEnts, hp, hw, hb, hm]; exact h1, h2⟩
/-- elements with exactly one free element: it takes the one member handed to the loop -/
theorem bindElts_free (ρ σ : Env) : ∀ (elts : List Pat) (ws : List V) (acc : Env),
    detElts elts = true → countKind .free elts = 1 → RElts ρ σ elts ws → Env.le acc σ →
    ∃ fws w σ', fixedValues ρ elts = some fws ∧ ws.Perm (w :: fws) ∧
      Spec.bindElts ρ acc elts [w] = some (σ', []) ∧ Env.le σ' σ
  | [], ws, acc, _, hc, _, _ => by simp [countKind] at hc
  | p :: r, ws, acc, hd, hc, h, hacc => by
    simp only [detElts, Bool.and_eq_true] at hd
    rw [countKind_cons] at hc
    cases hk : eltKind p with
    | rest =>
      obtain ⟨t, rfl⟩ := eltKind_rest hk
      simp only [hk] at hc
      simp only [RElts, restName] at h
      obtain ⟨fws, w, σ', h1, h2, h3, h4⟩ := bindElts_free ρ σ r ws acc hd.2 (by simpa using hc) h hacc
      refine ⟨fws, w, σ', by simp only [fixedValues, hk]; exact h1, h2, ?_, h4⟩
      simp only [Spec.bindElts, hk]; exact h3
    | fixed =>
      have hrn := eltKind_ne_rest (p := p) (by rw [hk]; decide)
      simp only [hk] at hc
      simp only [RElts, hrn] at h
      obtain ⟨w1, tail, rfl, hp, hr⟩ := h
      obtain ⟨fws, w, σ', h1, h2, h3, h4⟩ := bindElts_free ρ σ r tail acc hd.2 (by simpa using hc) hr hacc
      have hfv := ((eltKind_fixed (ρ := ρ) hk).2 σ w1).2 hp
      refine ⟨w1 :: fws, w, σ', by simp only [fixedValues, hk, hfv, h1, Option.map_some], ?_, ?_, h4⟩
      · exact (List.Perm.cons w1 h2).trans (List.Perm.swap w w1 fws)
      · simp only [Spec.bindElts, hk]; exact h3
    | free =>
      have hrn := eltKind_ne_rest (p := p) (by rw [hk]; decide)
      simp only [hk, if_true] at hc
      have hc0 : countKind .free r = 0 := by omega
      simp only [RElts, hrn] at h
      obtain ⟨w, tail, rfl, hp, hr⟩ := h
      obtain ⟨hf, hloop⟩ := bindElts_nofree r tail hc0 hr
      obtain ⟨s, hb, hs⟩ := bind_complete ρ σ p w hd.1 hp
      obtain ⟨acc', hm, hle⟩ := mu_complete hacc hs
      refine ⟨tail, w, acc', by simp only [fixedValues, hk]; exact hf, List.Perm.refl _, ?_, hle⟩
      simp only [Spec.bindElts, hk, hb, hm, hloop]
end

end Arrai.C09
