/-
  C17 case generator: histories of update / observe / cancel / hang-up operations issued by 1–4
  clients against one engine, with the observable predicted by the transliterated loop (`Impl`) and
  the one the specification (`Spec`) demands.

  Payload of a case (one string per field):
    mode            "seq"  — operations are issued one after the other (each from its client's goroutine):
                             the history is the serialisation
                    "par"  — the operations of client 0 are issued first (sequentially), then clients 1.. run
                             concurrently; only interleaving-independent facts are printed (see `Mode`)
                    "race" — second field: the allowed logs of observer 1 ("v,v,…" joined by ";").  Client 0's
                             operations first (sequentially), then rounds separated by "B": in a round every
                             client issues one state-dependent Update, all released together, and the harness
                             holds each evaluation at a gate until all evaluations of the round have started or
                             30 ms have passed (evaluations that can overlap do overlap)
    operations      "<client> U <src>"                     Update(src)
                    "<client> O <script> <mode> <src>"     Observe(src, …); script: one letter per invocation of
                                                           onupdate (o = nil, e = error, p = panic, r = call own cancel), "-" = empty
                    "<client> C <k>"                       call the cancel function of the k-th Observe of the payload
                    "<client> H"                           Hangup()
  The harness finishes every case with a barrier (a failing Update, unless an operation timed out) and Stop().

  Observable:  R=<one char per operation: 1/0 reply of an Update, "." other operation returned, T timed out (then
  nothing more is issued)>, in "par" mode one such string per client; then per observer `|k:<rendering>`:
    L  the log: v<canon> per onupdate, c = onclose(nil), e = onclose(error), s = onclose(nil) during Stop
    F  n=<number of values>,last=<last value>,wf=<log is values then at most one close; values strictly increasing>,end=<c|e|s|->
    N  n=…,wf=…,end=…      E  wf=…,end=…
    C  chain=ok if the values of the log are one of the allowed logs, else chain=<values>; then ,end=…
-/
import Arrai.C17.Model

namespace Arrai.C17

inductive Mode | L | F | N | E | C
  deriving DecidableEq, Repr, Inhabited

def Mode.name : Mode → String
  | .L => "L" | .F => "F" | .N => "N" | .E => "E" | .C => "C"

inductive Op
  | upd (client : Nat) (e : CExpr)
  | obs (client : Nat) (ordinal : Nat) (e : CExpr) (cb : List Act) (mode : Mode) (oc : Nat := 0) (twice : Bool := false)
    -- oc: onclose calls the observation's own cancel function `oc` times; twice: a `reenter` onupdate calls it twice
  | cancel (client : Nat) (ordinal : Nat)
  | hangup (client : Nat)
  deriving Repr, Inhabited

def Act.letter : Act → String
  | .ok => "o" | .err => "e" | .panic => "p" | .reenter => "r"

def scriptText (cb : List Act) (oc : Nat) (twice : Bool) : String :=
  let acts := if cb.isEmpty then "-" else String.join (cb.map (fun a => if a == .reenter && twice then "R" else a.letter))
  if oc == 0 then acts else s!"{acts}/{oc}"

def Op.text : Op → String
  | .upd c e => s!"{c} U {e.src}"
  | .obs c _ e cb m oc tw => s!"{c} O {scriptText cb oc tw} {m.name} {e.src}"
  | .cancel c k => s!"{c} C {k}"
  | .hangup c => s!"{c} H"

def Op.client : Op → Nat
  | .upd c _ => c | .obs c _ _ _ _ _ _ => c | .cancel c _ => c | .hangup c => c

/-- rendering of one event; `stopping` = the close happened during Stop -/
def evText (stopping : Bool) : Ev St → String
  | .val v => "v" ++ v.canon
  | .closed true => "e"
  | .closed false => if stopping then "s" else "c"

def valsOf : List (Ev St) → List St
  | [] => []
  | .val v :: r => v :: valsOf r
  | _ :: r => valsOf r

def strictlyInc : List St → Bool
  | .num a :: .num b :: r => a < b && strictlyInc (.num b :: r)
  | [.num _] => true
  | [] => true
  | _ => false

/-- values, then at most one close -/
def shapeOk : List (Ev St) → Bool
  | [] => true
  | .val _ :: r => shapeOk r
  | [.closed _] => true
  | .closed _ :: _ => false

/-- `log` = events before Stop, `atStop` = events during Stop -/
def renderLog (m : Mode) (log atStop : List (Ev St)) : String :=
  let all := log ++ atStop
  let texts := log.map (evText false) ++ atStop.map (evText true)
  let vals := valsOf all
  let wf := if shapeOk all && strictlyInc vals then "1" else "0"
  let endk := match texts.getLast? with
    | some t => if t.startsWith "v" then "-" else t
    | none => "-"
  let last := match vals.getLast? with
    | some v => v.canon
    | none => "-"
  match m with
  | .L => ",".intercalate texts
  | .F => s!"n={vals.length},last={last},wf={wf},end={endk}"
  | .N => s!"n={vals.length},wf={wf},end={endk}"
  | .E => s!"wf={wf},end={endk}"
  | .C => "chain=" ++ ",".intercalate (vals.map St.canon) ++ s!",end={endk}"

/-- observers of a payload, by ordinal: (ordinal, mode) -/
def observers (ops : List Op) : List (Nat × Mode) :=
  ops.filterMap (fun o => match o with | .obs _ k _ _ m _ _ => some (k, m) | _ => none)

/-- run a serialisation on the transliterated loop; returns the final state, the per-operation
characters (with client), and the engine id of every ordinal -/
structure SimRes (σ : Type) where
  st : σ
  chars : List (Nat × String)
  ids : List (Nat × Nat)      -- ordinal ↦ engine id
  aborted : Bool

def idOf (ids : List (Nat × Nat)) (k : Nat) : Nat := ((ids.find? (fun p => p.1 == k)).map (·.2)).getD 0

def simWith (stepf : Impl.State St → Msg St → Impl.State St) (ops : List Op) : SimRes (Impl.State St) := Id.run do
  let mut s : Impl.State St := Impl.init .none
  let mut chars : List (Nat × String) := []
  let mut ids : List (Nat × Nat) := []
  let mut aborted := false
  for o in ops do
    if aborted then break
    if s.status != .running then
      chars := chars ++ [(o.client, "T")]
      aborted := true
    else
      match o with
      | .upd c e =>
        let s' := stepf s (.update e.eval [])
        let ch := match (Impl.replies s').getLast? with
          | some true => "1"
          | _ => "0"
        chars := chars ++ [(c, ch)]
        s := s'
      | .obs c k e cb _ _ _ =>
        ids := ids ++ [(k, s.lastID + 1)]
        s := stepf s (.add e.eval cb)
        chars := chars ++ [(c, ".")]
      | .cancel c k =>
        s := stepf s (.remove (idOf ids k))
        chars := chars ++ [(c, ".")]
      | .hangup c =>
        s := stepf s (.hangup [])
        chars := chars ++ [(c, ".")]
  if !aborted && s.status != .running then
    chars := chars ++ [(0, "T")]       -- the barrier before Stop times out
    aborted := true
  pure ⟨s, chars, ids, aborted⟩

def simImpl (ops : List Op) : SimRes (Impl.State St) := simWith Impl.step ops

def simSpec (ops : List Op) : SimRes (Spec.State St) := Id.run do
  let mut s : Spec.State St := Spec.init .none
  let mut chars : List (Nat × String) := []
  let mut ids : List (Nat × Nat) := []
  for o in ops do
    match o with
    | .upd c e =>
      let s' := Spec.step s (.update e.eval [])
      let ch := match s'.replies.getLast? with
        | some true => "1"
        | _ => "0"
      chars := chars ++ [(c, ch)]
      s := s'
    | .obs c k e cb _ _ _ =>
      ids := ids ++ [(k, s.count + 1)]
      s := Spec.step s (.add e.eval cb)
      chars := chars ++ [(c, ".")]
    | .cancel c k =>
      s := Spec.step s (.remove (idOf ids k))
      chars := chars ++ [(c, ".")]
    | .hangup c =>
      s := Spec.step s (.hangup [])
      chars := chars ++ [(c, ".")]
  pure ⟨s, chars, ids, false⟩

def charsOf (chars : List (Nat × String)) (c : Nat) : String :=
  String.join ((chars.filter (fun p => p.1 == c)).map (·.2))

def renderReplies (par : Bool) (nClients : Nat) (chars : List (Nat × String)) : String :=
  if par then ";".intercalate ((List.range (nClients + 1)).map (fun c => s!"R{c}={charsOf chars c}"))
  else "R=" ++ String.join (chars.map (·.2))

def renderImpl (par : Bool) (nClients : Nat) (payloadOps serial : List Op) : String :=
  let r := simImpl serial
  let fin := if r.aborted then r.st else Impl.stop r.st []
  let logs := (observers payloadOps).map (fun (k, m) =>
    let id := idOf r.ids k
    let before := Impl.log r.st id
    let after := (Impl.log fin id).drop before.length
    s!"{k}:" ++ renderLog m before after)
  "|".intercalate (renderReplies par nClients r.chars :: logs)

def renderSpec (par : Bool) (nClients : Nat) (payloadOps serial : List Op) : String :=
  let r := simSpec serial
  let fin := Spec.stop r.st
  let logs := (observers payloadOps).map (fun (k, m) =>
    let id := idOf r.ids k
    let before := (r.st.obs id).log
    let after := ((fin.obs id).log).drop before.length
    s!"{k}:" ++ renderLog m before after)
  "|".intercalate (renderReplies par nClients r.chars :: logs)

/-- class predicate of finding KF-engine-reentrant-cancel: the loop *before* the re-entrant-cancel repair
(`Prev`) wedges on this serialisation, i.e. a callback whose script says `reenter` is actually invoked.
On a tree with the repair these cases behave as the specification demands. -/
def wedges (serial : List Op) : Bool := (simWith Prev.step serial).aborted

def kfReenter : String := "KF-engine-reentrant-cancel"

def mkSeq (id stratum : String) (ops : List Op) : Case :=
  { id := id, cls := "good", kind := "engine", stratum := stratum,
    model := renderImpl false 0 ops ops, spec := renderSpec false 0 ops ops,
    payload := "seq" :: ops.map Op.text }

/-- round-robin merge of the clients' lists (a second serialisation, to cross-check that the printed
facts of a "par" case do not depend on the interleaving) -/
def roundRobin (fuel : Nat) (qs : List (List Op)) : List Op :=
  match fuel with
  | 0 => []
  | fuel + 1 =>
    let heads := qs.filterMap List.head?
    if heads.isEmpty then [] else heads ++ roundRobin fuel (qs.map List.tail)

def mkPar (id stratum : String) (pre : List Op) (clients : List (List Op)) : Case :=
  let payloadOps := pre ++ clients.flatten
  let n := clients.length
  let alt := pre ++ roundRobin 64 clients
  { id := id, cls := "good", kind := "engine", stratum := stratum,
    -- model: the round-robin serialisation on Impl; spec: the concatenation on Spec.  They agree iff the
    -- printed facts are interleaving-independent for this case (M≠S would be reported by ./check).
    model := renderImpl true n payloadOps alt, spec := renderSpec true n payloadOps payloadOps,
    payload := "par" :: payloadOps.map Op.text }

/-! ## "race": state-dependent updates issued at the same moment

By `interleaving_is_history`, `history_is_merge_of_clients` and `clients_in_program_order` (Proofs/C17.lean,
part 7) whatever the schedule does, the engine's behaviour is `Impl.run` of a merge of the clients' call
sequences.  The harness makes a round's calls only after all calls of the previous round have returned
(hence been accepted), so the possible histories are exactly: client 0's prefix, then some permutation of
round 1, then some permutation of round 2, …  The model runs all of them; observer 1 (`$`, subscribed
in the prefix, never failing) must have heard the installed states of one of them, in order.  A lost
update, a stale read or a reordered notification gives a log outside that set. -/

def insertAll {α : Type} (x : α) : List α → List (List α)
  | [] => [[x]]
  | y :: r => (x :: y :: r) :: (insertAll x r).map (y :: ·)

def perms {α : Type} : List α → List (List α)
  | [] => [[]]
  | x :: r => (perms r).flatMap (insertAll x)

/-- all concatenations of one permutation per round -/
def orders {α : Type} : List (List α) → List (List α)
  | [] => [[]]
  | rd :: rest => (perms rd).flatMap (fun p => (orders rest).map (p ++ ·))

/-- what observer 1 hears (values only) when the loop accepts `serial` and is then stopped -/
def chainOf (serial : List Op) : String :=
  let r := simImpl serial
  let fin := Impl.stop r.st []
  ",".intercalate ((valsOf (Impl.log fin (idOf r.ids 1))).map St.canon)

def mkRace (id stratum : String) (pre : List Op) (rounds : List (List Op)) : Case :=
  let allowed := dedupAdj (sortStrs ((orders rounds).map (fun o => chainOf (pre ++ o))))
  let serial := pre ++ rounds.flatten
  let n := (rounds.map List.length).foldl max 0
  let obs (chars : List (Nat × String)) (chain : String) : String :=
    renderReplies true n chars ++ "|1:chain=" ++ (if allowed.contains chain then "ok" else chain) ++ ",end=s"
  { id := id, cls := "good", kind := "engine", stratum := stratum,
    model := obs (simImpl serial).chars (chainOf serial),
    -- spec: every call returns, every update (they cannot fail) is acknowledged, the log is an allowed one
    spec := obs (simSpec serial).chars (allowed.headD ""),
    payload := "race" :: ";".intercalate allowed :: (pre.map Op.text ++ (rounds.map (fun rd => "B" :: rd.map Op.text)).flatten) }

def genRaceExpr : Gen CExpr := do
  let r ← rand 100
  if r < 50 then pure (.plus ((← rand 3) + 1))
  else if r < 85 then pure .dbl
  else pure (.lit (← rand 10))

/-- 2–4 clients, 2–4 rounds, at most 576 possible orders -/
def genRace : Gen (List Op × List (List Op)) := do
  let nClients := (← rand 3) + 2
  let nRounds ← if nClients == 4 then pure 2 else if nClients == 3 then pure ((← rand 2) + 2) else pure ((← rand 3) + 2)
  let pre : List Op := [.upd 0 (.lit ((← rand 5) + 1)), .obs 0 1 .cur [] .C]
  let mut rounds : List (List Op) := []
  for _ in [0:nRounds] do
    let mut rd : List Op := []
    for c in [0:nClients] do
      rd := rd ++ [.upd (c + 1) (← genRaceExpr)]
    rounds := rounds ++ [rd]
  pure (pre, rounds)

/-! ## random histories -/

def genUpdExpr : Gen CExpr := do
  let r ← rand 100
  if r < 25 then pure (.lit (← rand 10))
  else if r < 55 then pure (.plus (← rand 4))
  else if r < 65 then pure .dbl
  else if r < 75 then pure .evenOnly
  else if r < 80 then pure .oddOnly
  else if r < 85 then pure .cur
  else pure .fail

def genObsExpr : Gen CExpr := do
  let r ← rand 100
  if r < 30 then pure .cur
  else if r < 45 then pure (.plus (← rand 4))
  else if r < 55 then pure .dbl
  else if r < 70 then pure .evenOnly
  else if r < 80 then pure .oddOnly
  else if r < 90 then pure .fail
  else pure (.lit (← rand 10))

/-- callback script; `reenter` only from the second invocation on (the cancel function exists only
after Observe has returned) and only when `allowReenter` -/
def genScript (allowReenter : Bool) : Gen (List Act) := do
  let n ← rand 5
  let mut out : List Act := []
  for i in [0:n] do
    let r ← rand 100
    let a : Act :=
      if r < 74 then .ok else if r < 86 then .err else if r < 94 then .panic
      else if allowReenter && i ≥ 1 then .reenter else .ok
    out := out ++ [a]
  pure out

def genSeqOps : Gen (List Op) := do
  let nClients := (← rand 4) + 1
  let nOps := (← rand 23) + 3
  let allowReenter ← chance 1 5
  let mut ops : List Op := []
  let mut nObs := 0
  if ← chance 7 10 then
    ops := [.upd (← rand nClients) (.lit (← rand 10))]
  for _ in [0:nOps] do
    if ops.length ≥ nOps then break
    let c ← rand nClients
    let r ← rand 100
    if r < 40 then
      ops := ops ++ [.upd c (← genUpdExpr)]
    else if r < 70 || nObs == 0 then
      nObs := nObs + 1
      -- cancel from inside onclose (0, 1 or 2 calls), alone or together with cancel from inside onupdate (once or twice)
      let oc ← if allowReenter then pick [0, 1, 1, 2] else pure 0
      let tw ← chance 1 3
      if allowReenter && (← chance 1 2) then
        -- the pattern itself: an always-evaluating expression, cancel inside the k-th onupdate, then inside onclose
        let k := (← rand 2) + 1
        ops := ops ++ [.obs c nObs (← pick [.cur, .lit 3, .plus 1]) (List.replicate k .ok ++ [.reenter]) .L oc tw]
      else
        ops := ops ++ [.obs c nObs (← genObsExpr) (← genScript allowReenter) .L oc tw]
    else if r < 93 then
      let k := (← rand nObs) + 1
      ops := ops ++ [.cancel c k]
      if ← chance 1 4 then
        ops := ops ++ [.cancel (← rand nClients) k]     -- cancelled twice
    else
      ops := ops ++ [.hangup c]
  -- something must still be served after the last callback: one more request
  if allowReenter then
    ops := ops ++ [.upd (← rand nClients) (.plus 1)]
  pure ops

/-- "par" class: after `U n0` and 1–3 observers of `$` (client 0), 2–4 clients concurrently issue
succeeding commutative updates `$ + k` (k ≥ 1), failing updates, cancels (possibly repeated) of
cancellable prefix observers, and new observers.  Printed facts are chosen per observer so that they
are the same for every interleaving. -/
def genPar : Gen (List Op × List (List Op)) := do
  let m := (← rand 3) + 1
  let mut pre : List Op := [.upd 0 (.lit (← rand 5))]
  let mut targets : List Nat := []
  for i in [0:m] do
    let k := i + 1
    let r ← rand 3
    if r == 0 then
      targets := targets ++ [k]
      pre := pre ++ [.obs 0 k .cur [] .E]         -- may be cancelled concurrently: only its end is fixed
    else if r == 1 then
      pre := pre ++ [.obs 0 k .cur [] .F]
    else
      let idx ← rand 6
      let a : Act := if ← chance 1 2 then .err else .panic
      pre := pre ++ [.obs 0 k .cur (List.replicate idx .ok ++ [a]) .N]
    if ← chance 1 3 then
      pre := pre ++ [.upd 0 (.plus ((← rand 3) + 1))]
  let nClients := (← rand 3) + 2
  let mut next := m
  let mut clients : List (List Op) := []
  for ci in [0:nClients] do
    let c := ci + 1
    let len := (← rand 6) + 1
    let mut l : List Op := []
    for _ in [0:len] do
      let r ← rand 100
      if r < 45 then l := l ++ [.upd c (.plus ((← rand 3) + 1))]
      else if r < 60 then l := l ++ [.upd c .fail]
      else if r < 80 && !targets.isEmpty then l := l ++ [.cancel c (← pick targets)]
      else
        next := next + 1
        let q ← rand 3
        if q == 0 then l := l ++ [.obs c next .fail [] .L]
        else if q == 1 then l := l ++ [.obs c next .cur [if ← chance 1 2 then .err else .panic] .E]
        else l := l ++ [.obs c next .cur [] .E]
    clients := clients ++ [l]
  pure (pre, clients)

/-- witnesses of the repaired defects, of the open finding, and hand-written regressions; always run first -/
def corpus : List Case :=
  [ -- repaired: an observer whose expression fails to evaluate used to deadlock the loop (the next Update never returned)
    mkSeq "C17-corpus-0" "corpus" [.obs 0 1 .fail [] .L, .upd 1 (.lit 1), .upd 1 (.lit 2)],
    -- repaired: calling cancel twice used to crash the process (nil dereference in the loop)
    mkSeq "C17-corpus-1" "corpus" [.obs 0 1 .cur [] .L, .cancel 0 1, .cancel 0 1, .upd 1 (.lit 1)],
    -- repaired: onupdate returning an error used to deadlock the loop
    mkSeq "C17-corpus-2" "corpus" [.upd 0 (.lit 0), .obs 1 1 .cur [.err] .L, .obs 2 2 .cur [] .L, .upd 0 (.plus 1), .upd 0 (.plus 1)],
    -- repaired: a panicking onupdate got onclose but stayed registered (notified again, closed twice)
    mkSeq "C17-corpus-3" "corpus" [.upd 0 (.lit 0), .obs 1 1 .cur [.ok, .panic] .L, .upd 0 (.plus 1), .upd 0 (.plus 1), .cancel 1 1],
    -- state-dependent failure, cancel after failure, hang-up, observers after hang-up
    mkSeq "C17-corpus-4" "corpus" [.upd 0 (.lit 0), .obs 1 1 .evenOnly [] .L, .obs 2 2 .cur [] .L, .upd 0 (.plus 1),
      .cancel 1 1, .upd 0 (.plus 1), .hangup 0, .obs 1 3 .dbl [] .L, .upd 0 (.plus 1), .upd 0 .fail, .cancel 2 2],
    -- KF-engine-reentrant-cancel: cancel called from inside the observer's own callback
    mkSeq "C17-corpus-5" "corpus" [.upd 0 (.lit 0), .obs 1 1 .cur [.ok, .reenter] .L, .obs 1 2 .cur [] .L, .upd 0 (.plus 1), .upd 0 (.plus 1)],
    -- the same, then cancelled from outside as well (twice), by two clients
    mkSeq "C17-corpus-7" "corpus" [.upd 0 (.lit 0), .obs 1 1 .cur [.ok, .reenter] .L, .upd 0 (.plus 1), .cancel 1 1, .cancel 2 1,
      .obs 2 2 .cur [.ok, .reenter] .L, .upd 0 (.plus 1), .upd 0 (.plus 1)],
    -- cancel from inside onupdate AND AGAIN from inside the onclose that follows; then more requests
    mkSeq "C17-corpus-10" "corpus" [.upd 0 (.lit 0), .obs 1 1 .cur [.ok, .reenter] .L 1, .obs 2 2 .cur [] .L, .upd 0 (.plus 1), .upd 0 (.plus 1), .upd 0 (.plus 1)],
    -- cancel (twice) from inside onclose only, for every reason of closing: cancelled, failed expression, callback
    -- error, panic, hang-up, stop; and cancel twice inside onupdate
    mkSeq "C17-corpus-11" "corpus" [.upd 0 (.lit 0), .obs 1 1 .cur [] .L 2, .obs 1 2 .evenOnly [] .L 2, .obs 2 3 .cur [.ok, .err] .L 1,
      .obs 2 4 .cur [.ok, .panic] .L 2, .obs 0 5 .cur [] .L 1, .obs 0 6 .cur [.ok, .ok, .reenter] .L 2 true, .cancel 1 1, .upd 0 (.plus 1),
      .upd 0 (.plus 1), .hangup 2, .obs 1 7 .cur [] .L 2, .obs 1 8 .fail [] .L 1, .upd 0 (.plus 1)],
    -- concurrent clients: failing observers, double cancel from two clients
    mkPar "C17-corpus-6" "corpus-par"
      [.upd 0 (.lit 0), .obs 0 1 .cur [] .E, .obs 0 2 .cur [] .F, .obs 0 3 .cur [.ok, .ok, .err] .N]
      [[.upd 1 (.plus 1), .cancel 1 1, .upd 1 (.plus 2), .obs 1 4 .fail [] .L],
       [.upd 2 .fail, .cancel 2 1, .upd 2 (.plus 3), .obs 2 5 .cur [.panic] .E],
       [.obs 3 6 .cur [] .E, .upd 3 (.plus 1), .upd 3 (.plus 1)]],
    -- two concurrent `$ + 1`: both acknowledged, the counter must end at 2 (a lost update ends at 1)
    mkRace "C17-corpus-8" "corpus-race" [.upd 0 (.lit 0), .obs 0 1 .cur [] .C]
      [[.upd 1 (.plus 1), .upd 2 (.plus 1)], [.upd 1 (.plus 1), .upd 2 (.plus 1)]],
    -- non-commutative mix: the log must be the chain of one of the possible orders
    mkRace "C17-corpus-9" "corpus-race" [.upd 0 (.lit 1), .obs 0 1 .cur [] .C]
      [[.upd 1 (.plus 1), .upd 2 .dbl, .upd 3 (.plus 3)], [.upd 1 .dbl, .upd 2 (.plus 2), .upd 3 (.lit 5)]] ]

def gen (seed n : Nat) (thorough : Bool) : List Case := Id.run do
  let mut out : List Case := []
  for i in [0:n] do
    if i % 8 == 7 then
      let ((pre, rounds), _) := genRace.run (seedOf seed (1700000 + i))
      out := mkRace s!"C17-{i}" s!"race/{(rounds.headD []).length}x{rounds.length}" pre rounds :: out
    else if (thorough && i % 6 == 5) || (!thorough && i % 8 == 3) then
      let ((pre, clients), _) := genPar.run (seedOf seed (1700000 + i))
      out := mkPar s!"C17-{i}" s!"par/{clients.length}" pre clients :: out
    else
      let (ops, _) := genSeqOps.run (seedOf seed (1700000 + i))
      let reent := ops.any (fun o => match o with | .obs _ _ _ cb _ oc _ => cb.contains .reenter || oc > 0 | _ => false)
      let strat := if reent then "seq/reenter" else if ops.length ≤ 8 then "seq/short" else "seq/long"
      out := mkSeq s!"C17-{i}" strat ops :: out
  pure (corpus ++ out.reverse)

end Arrai.C17
