/-
  C17 helper lemmas: map operations, the range loop, the invariant of the engine loop and the
  refinement step; closed forms of the specification.  Core-only.
-/
import Arrai.C17.Model

set_option linter.unusedSimpArgs false

namespace Arrai.C17

/-! ## enumeration orders are permutations -/

theorem pickAt_perm {α : Type} : ∀ (i : Nat) (l : List α) (x : α) (r : List α),
    pickAt i l = some (x, r) → l.Perm (x :: r)
  | _, [], _, _, h => by simp [pickAt] at h
  | 0, y :: t, x, r, h => by
    simp [pickAt] at h
    obtain ⟨rfl, rfl⟩ := h
    exact List.Perm.refl _
  | i + 1, y :: t, x, r, h => by
    simp only [pickAt] at h
    cases hp : pickAt i t with
    | none => simp [hp] at h
    | some p =>
      obtain ⟨z, r'⟩ := p
      simp [hp] at h
      obtain ⟨rfl, rfl⟩ := h
      have ih := pickAt_perm i t z r' hp
      exact (List.Perm.cons y ih).trans (List.Perm.swap z y r')

theorem permBy_perm {α : Type} : ∀ (c : List Nat) (l : List α), (permBy c l).Perm l
  | [], l => List.Perm.refl _
  | c :: cs, l => by
    simp only [permBy]
    cases hp : pickAt (c % l.length) l with
    | none => exact List.Perm.refl _
    | some p =>
      obtain ⟨x, r⟩ := p
      exact (List.Perm.cons x (permBy_perm cs r)).trans (pickAt_perm _ _ _ _ hp).symm

theorem mem_pickAt {α : Type} : ∀ (l : List α) (x : α), x ∈ l → ∃ i r, i < l.length ∧ pickAt i l = some (x, r)
  | [], _, h => by simp at h
  | y :: t, x, h => by
    rcases List.mem_cons.1 h with rfl | h
    · exact ⟨0, t, by simp, rfl⟩
    · obtain ⟨i, r, hi, hp⟩ := mem_pickAt t x h
      exact ⟨i + 1, y :: r, by simp; omega, by simp [pickAt, hp]⟩

theorem permBy_complete {α : Type} : ∀ (l' l : List α), l'.Perm l → ∃ c, permBy c l = l'
  | [], l, h => ⟨[], by simp [permBy, h.symm.eq_nil]⟩
  | x :: t, l, h => by
    have hx : x ∈ l := (h.mem_iff).1 (List.mem_cons_self ..)
    obtain ⟨i, r, hi, hp⟩ := mem_pickAt l x hx
    have h1 := pickAt_perm i l x r hp
    have h2 : t.Perm r := List.Perm.cons_inv (h.trans h1)
    obtain ⟨c, hc⟩ := permBy_complete t r h2
    refine ⟨i :: c, ?_⟩
    simp [permBy, Nat.mod_eq_of_lt hi, hp, hc]

namespace Impl
variable {S : Type}

/-! ## the watcher map -/

def ids (ws : List (Watcher S)) : List Nat := ws.map (·.id)

@[simp] theorem mapGet_nil (i : Nat) : mapGet ([] : List (Watcher S)) i = none := rfl

theorem mapGet_cons (w : Watcher S) (r : List (Watcher S)) (i : Nat) :
    mapGet (w :: r) i = if w.id = i then some w else mapGet r i := by
  simp only [mapGet, List.find?_cons]
  by_cases h : w.id = i
  · simp [h]
  · have hb : (w.id == i) = false := by simp [h]
    simp [hb, h]

theorem mapGet_none_of_not_mem (ws : List (Watcher S)) (i : Nat) (h : i ∉ ids ws) : mapGet ws i = none := by
  induction ws with
  | nil => rfl
  | cons w r ih =>
    simp only [ids, List.map_cons, List.mem_cons, not_or] at h
    rw [mapGet_cons]
    have : w.id ≠ i := fun e => h.1 e.symm
    simp [this]
    exact ih h.2

theorem mapGet_some_mem {ws : List (Watcher S)} {i : Nat} {w : Watcher S} (h : mapGet ws i = some w) :
    w ∈ ws ∧ w.id = i := by
  refine ⟨List.mem_of_find?_eq_some h, ?_⟩
  have := List.find?_some h
  simpa using this

theorem mapGet_mapDel (ws : List (Watcher S)) (j i : Nat) :
    mapGet (mapDel ws j) i = if i = j then none else mapGet ws i := by
  induction ws with
  | nil => simp [mapDel]
  | cons w r ih =>
    simp only [mapDel, List.filter_cons]
    by_cases hj : w.id = j
    · simp only [hj, bne_self_eq_false, Bool.false_eq_true, ↓reduceIte]
      have ih' := ih
      simp only [mapDel] at ih'
      rw [ih', mapGet_cons]
      by_cases hi : i = j
      · simp [hi]
      · have : ¬ w.id = i := fun e => hi (e ▸ hj.symm ▸ rfl)
        simp [hi, this]
    · have hb : (w.id != j) = true := by simp [hj]
      simp only [hb, ↓reduceIte]
      have ih' := ih
      simp only [mapDel] at ih'
      rw [mapGet_cons, ih', mapGet_cons]
      by_cases hi : i = j
      · have : ¬ w.id = i := fun e => hj (e.trans hi)
        simp [hi, this]
        intro e; exact absurd e hj
      · simp [hi]

theorem mapGet_append_single (ws : List (Watcher S)) (w : Watcher S) (i : Nat) :
    mapGet (ws ++ [w]) i = (mapGet ws i).or (if w.id = i then some w else none) := by
  simp only [mapGet, List.find?_append]
  congr 1
  by_cases h : w.id = i <;> simp [List.find?_cons, h]

theorem mapGet_mapPut (ws : List (Watcher S)) (w : Watcher S) (i : Nat) :
    mapGet (mapPut ws w) i = if i = w.id then some w else mapGet ws i := by
  simp only [mapPut, mapGet_append_single, mapGet_mapDel]
  by_cases h : i = w.id
  · simp [h]
  · have : ¬ w.id = i := fun e => h e.symm
    simp [h, this]

theorem ids_mapDel_sublist (ws : List (Watcher S)) (j : Nat) : (ids (mapDel ws j)).Sublist (ids ws) := by
  simp only [ids, mapDel]
  exact List.Sublist.map _ List.filter_sublist

theorem mem_mapDel {ws : List (Watcher S)} {j : Nat} {w : Watcher S} : w ∈ mapDel ws j ↔ w ∈ ws ∧ w.id ≠ j := by
  simp [mapDel]

theorem not_mem_ids_mapDel (ws : List (Watcher S)) (j : Nat) : j ∉ ids (mapDel ws j) := by
  simp only [ids, List.mem_map, not_exists, not_and]
  intro w hw
  exact (mem_mapDel.1 hw).2

theorem mapGet_perm {l1 l2 : List (Watcher S)} (h : l1.Perm l2) (hnd : (ids l1).Nodup) (i : Nat) :
    mapGet l1 i = mapGet l2 i := by
  induction h with
  | nil => rfl
  | cons x _ ih =>
    simp only [ids, List.map_cons, List.nodup_cons] at hnd
    rw [mapGet_cons, mapGet_cons, ih hnd.2]
  | swap x y l =>
    simp only [ids, List.map_cons, List.nodup_cons, List.mem_cons, not_or] at hnd
    rw [mapGet_cons, mapGet_cons, mapGet_cons, mapGet_cons]
    by_cases hx : x.id = i <;> by_cases hy : y.id = i <;> simp [hx, hy]
    exact absurd (hy.trans hx.symm) hnd.1.1
  | trans h1 _ ih1 ih2 =>
    have hnd2 : (ids _).Nodup := (List.Perm.nodup_iff (List.Perm.map (fun w : Watcher S => w.id) h1)).1 hnd
    rw [ih1 hnd, ih2 hnd2]


/-! ## logs -/

theorem logOf_append (i : Nat) (a b : List (Out S)) : logOf i (a ++ b) = logOf i a ++ logOf i b := by
  simp [logOf, List.filterMap_append]

theorem logOf_evs (i j : Nat) (evs : List (Ev S)) : logOf i (evs.map (Out.ev j)) = if j = i then evs else [] := by
  induction evs with
  | nil => simp [logOf]
  | cons e r ih =>
    simp only [logOf] at ih
    by_cases h : j = i <;> simp_all [logOf, evOf, List.filterMap_cons]

theorem logOf_reply_cons (i : Nat) (b : Bool) (t : List (Out S)) : logOf i (Out.reply b :: t) = logOf i t := by
  simp [logOf, evOf, List.filterMap_cons]

theorem replies_evs (j : Nat) (evs : List (Ev S)) : (evs.map (Out.ev j)).filterMap (replyOf (S := S)) = [] := by
  induction evs with
  | nil => rfl
  | cons e r ih => simp_all [replyOf, List.filterMap_cons]

/-! ## `(*watcher).update` never blocks -/

theorem wUpdate_not_blocked (w : Watcher S) (g : S) : (wUpdate w g).blocked = false := by
  unfold wUpdate
  cases w.expr g with
  | none => rfl
  | some v =>
    simp only
    cases w.cb.headD .ok <;> rfl

/-- what the specification does with a live observer is what `update` does -/
theorem deliver_eq (i : Nat) (e : S → Option S) (c : List Act) (l : List (Ev S)) (g : S) :
    Spec.deliver e c l g =
      if (wUpdate ⟨i, e, c⟩ g).ok then .live e (wUpdate ⟨i, e, c⟩ g).cb (l ++ (wUpdate ⟨i, e, c⟩ g).evs)
      else .dead (l ++ (wUpdate ⟨i, e, c⟩ g).evs) := by
  unfold wUpdate Spec.deliver
  simp only
  cases e g with
  | none => simp
  | some v =>
    cases c with
    | nil => simp
    | cons a t =>
      cases a with
      | ok => simp
      | err => simp
      | panic => simp
      | reenter => simp

/-- the entry the range loop leaves in the map for `w` -/
def upd1 (g : S) (w : Watcher S) : Option (Watcher S) :=
  if (wUpdate w g).ok then some ⟨w.id, w.expr, (wUpdate w g).cb⟩ else none

theorem rangeUpdate_spec (g : S) : ∀ (l : List (Watcher S)), (ids l).Nodup →
    (rangeUpdate g l).blocked = false ∧
    (∀ i, mapGet (rangeUpdate g l).ws i = (mapGet l i).bind (upd1 g)) ∧
    (∀ i, logOf i (rangeUpdate g l).outs = match mapGet l i with
        | some w => (wUpdate w g).evs
        | none => []) ∧
    (rangeUpdate g l).outs.filterMap replyOf = [] ∧
    (ids (rangeUpdate g l).ws).Sublist (ids l)
  | [], _ => by
    exact ⟨rfl, fun i => rfl, fun i => rfl, rfl, List.Sublist.refl _⟩
  | w :: r, hnd => by
    simp only [ids, List.map_cons, List.nodup_cons] at hnd
    have hb := wUpdate_not_blocked w g
    obtain ⟨ih1, ih2, ih3, ih4, ih5⟩ := rangeUpdate_spec g r hnd.2
    have hnone : mapGet r w.id = none := mapGet_none_of_not_mem r w.id hnd.1
    simp only [rangeUpdate, hb, Bool.false_eq_true, ↓reduceIte]
    refine ⟨ih1, ?_, ?_, ?_, ?_⟩
    · intro i
      rw [mapGet_cons]
      by_cases hi : w.id = i
      · subst hi
        simp only [↓reduceIte, Option.bind_some, upd1]
        by_cases hok : (wUpdate w g).ok = true
        · simp [hok, mapGet_cons]
        · simp only [hok, Bool.false_eq_true, ↓reduceIte]
          rw [ih2, hnone]; rfl
      · simp only [hi, ↓reduceIte]
        by_cases hok : (wUpdate w g).ok = true
        · simp only [hok, ↓reduceIte]; rw [mapGet_cons]; simp only [hi, ↓reduceIte]; exact ih2 i
        · simp only [hok, Bool.false_eq_true, ↓reduceIte]; exact ih2 i
    · intro i
      rw [logOf_append, logOf_evs, ih3, mapGet_cons]
      by_cases hi : w.id = i
      · subst hi; simp [hnone]
      · simp [hi]
    · rw [List.filterMap_append, replies_evs, ih4]; rfl
    · by_cases hok : (wUpdate w g).ok = true
      · simp only [hok, ↓reduceIte, ids, List.map_cons]; exact List.Sublist.cons_cons _ ih5
      · simp only [hok, Bool.false_eq_true, ↓reduceIte, ids, List.map_cons]; exact List.Sublist.cons _ ih5

theorem closeAll_spec : ∀ (l : List (Watcher S)), (ids l).Nodup →
    (∀ i, logOf i (closeAll l) = match mapGet l i with
        | some _ => [Ev.closed false]
        | none => []) ∧
    (closeAll l).filterMap replyOf = []
  | [], _ => ⟨fun _ => rfl, rfl⟩
  | w :: r, hnd => by
    simp only [ids, List.map_cons, List.nodup_cons] at hnd
    obtain ⟨ih1, ih2⟩ := closeAll_spec r hnd.2
    have hnone : mapGet r w.id = none := mapGet_none_of_not_mem r w.id hnd.1
    refine ⟨?_, ?_⟩
    · intro i
      have : closeAll (w :: r) = [Out.ev w.id (.closed false)] ++ closeAll r := rfl
      rw [this, logOf_append, ih1, mapGet_cons]
      by_cases hi : w.id = i
      · subst hi; simp [hnone, logOf, evOf]
      · simp [hi, logOf, evOf]
    · have : closeAll (w :: r) = Out.ev w.id (.closed false) :: closeAll r := rfl
      rw [this, List.filterMap_cons]; simp [replyOf, ih2]


/-! ## the invariant of the loop and the refinement step -/

structure Inv (s : State S) : Prop where
  run : s.status = .running
  nodup : (ids s.watchers).Nodup
  bound : ∀ w ∈ s.watchers, 1 ≤ w.id ∧ w.id ≤ s.lastID
  fresh : ∀ i, ¬ (1 ≤ i ∧ i ≤ s.lastID) → logOf i s.trace = []

theorem inv_init (g0 : S) : Inv (init g0) :=
  ⟨rfl, List.nodup_nil, fun _ h => by simp [init] at h, fun _ _ => rfl⟩

def absObs (ws : List (Watcher S)) (n : Nat) (tr : List (Out S)) (i : Nat) : Spec.Obs S :=
  match mapGet ws i with
  | some w => .live w.expr w.cb (logOf i tr)
  | none => if 1 ≤ i ∧ i ≤ n then .dead (logOf i tr) else .fresh

theorem abs_obs (s : State S) (i : Nat) : (abs s).obs i = absObs s.watchers s.lastID s.trace i := rfl

theorem spec_ext {a b : Spec.State S} (h1 : a.db = b.db) (h2 : a.count = b.count)
    (h3 : ∀ i, a.obs i = b.obs i) (h4 : a.replies = b.replies) : a = b := by
  cases a; cases b
  simp only [Spec.State.mk.injEq] at *
  exact ⟨h1, h2, funext h3, h4⟩

theorem mem_mapPut {ws : List (Watcher S)} {w x : Watcher S} (h : x ∈ mapPut ws w) : x ∈ ws ∨ x = w := by
  simp only [mapPut, List.mem_append, List.mem_singleton] at h
  rcases h with h | h
  · exact Or.inl (mem_mapDel.1 h).1
  · exact Or.inr h

theorem nodup_mapPut {ws : List (Watcher S)} (w : Watcher S) (h : (ids ws).Nodup) : (ids (mapPut ws w)).Nodup := by
  simp only [mapPut, ids, List.map_append, List.map_cons, List.map_nil]
  rw [List.nodup_append]
  refine ⟨(ids_mapDel_sublist ws w.id).nodup h, by simp, ?_⟩
  intro a ha b hb
  simp only [List.mem_singleton] at hb
  subst hb
  intro e; subst e
  exact not_mem_ids_mapDel ws w.id ha

theorem step_add (s : State S) (e : S → Option S) (c : List Act) (hI : Inv s) :
    Inv (step s (.add e c)) ∧ abs (step s (.add e c)) = Spec.step (abs s) (.add e c) := by
  have hb := wUpdate_not_blocked ⟨s.lastID + 1, e, c⟩ s.global
  have hfr : logOf (s.lastID + 1) s.trace = [] := hI.fresh _ (by omega)
  simp only [step, hI.run, hb, Bool.false_or, Bool.false_eq_true, ↓reduceIte]
  generalize hu : wUpdate ⟨s.lastID + 1, e, c⟩ s.global = u
  have hdel : ∀ x, x ∈ (if u.ok = true then mapPut s.watchers ⟨s.lastID + 1, e, u.cb⟩
        else mapDel (mapPut s.watchers ⟨s.lastID + 1, e, u.cb⟩) (s.lastID + 1)) →
      x ∈ s.watchers ∨ x = ⟨s.lastID + 1, e, u.cb⟩ := by
    intro x hx
    by_cases hok : u.ok = true
    · simp only [hok, ↓reduceIte] at hx; exact mem_mapPut hx
    · simp only [hok, Bool.false_eq_true, ↓reduceIte] at hx; exact mem_mapPut (mem_mapDel.1 hx).1
  refine ⟨⟨rfl, ?_, ?_, ?_⟩, ?_⟩
  · show (ids (if u.ok = true then _ else _)).Nodup
    by_cases hok : u.ok = true
    · simp only [hok, ↓reduceIte]; exact nodup_mapPut _ hI.nodup
    · simp only [hok, Bool.false_eq_true, ↓reduceIte]
      exact (ids_mapDel_sublist _ _).nodup (nodup_mapPut _ hI.nodup)
  · intro x hx
    rcases hdel x hx with h | h
    · have := hI.bound x h
      exact ⟨this.1, by show x.id ≤ s.lastID + 1; omega⟩
    · subst h; exact ⟨by show 1 ≤ s.lastID + 1; omega, Nat.le_refl _⟩
  · intro i hi
    show logOf i (s.trace ++ u.evs.map (Out.ev (s.lastID + 1))) = []
    have h1 : ¬ (1 ≤ i ∧ i ≤ s.lastID) := by
      intro h; apply hi; exact ⟨h.1, by show i ≤ s.lastID + 1; omega⟩
    have h2 : ¬ s.lastID + 1 = i := by
      intro h; apply hi; subst h; exact ⟨by omega, Nat.le_refl _⟩
    rw [logOf_append, logOf_evs, hI.fresh i h1]; simp [h2]
  · apply spec_ext
    · rfl
    · rfl
    · intro i
      rw [abs_obs]
      show absObs (if u.ok = true then _ else _) (s.lastID + 1) (s.trace ++ u.evs.map (Out.ev (s.lastID + 1))) i
        = if i = s.lastID + 1 then Spec.deliver e c [] s.global else (abs s).obs i
      by_cases hi : i = s.lastID + 1
      · subst hi
        simp only [↓reduceIte]
        rw [deliver_eq (s.lastID + 1) e c [] s.global, hu]
        unfold absObs
        rw [logOf_append, logOf_evs, hfr]
        by_cases hok : u.ok = true
        · simp [hok, mapGet_mapPut]
        · simp [hok, mapGet_mapDel]
      · simp only [hi, ↓reduceIte]
        rw [abs_obs]
        unfold absObs
        have hg : mapGet (if u.ok = true then mapPut s.watchers ⟨s.lastID + 1, e, u.cb⟩
            else mapDel (mapPut s.watchers ⟨s.lastID + 1, e, u.cb⟩) (s.lastID + 1)) i = mapGet s.watchers i := by
          by_cases hok : u.ok = true
          · simp [hok, mapGet_mapPut, hi]
          · simp [hok, mapGet_mapDel, mapGet_mapPut, hi]
        have hne : ¬ s.lastID + 1 = i := fun h => hi h.symm
        rw [hg, logOf_append, logOf_evs]
        simp only [hne, ↓reduceIte, List.append_nil]
        have : (1 ≤ i ∧ i ≤ s.lastID + 1) ↔ (1 ≤ i ∧ i ≤ s.lastID) := by omega
        simp only [this]
    · show (s.trace ++ u.evs.map (Out.ev (s.lastID + 1))).filterMap replyOf = s.trace.filterMap replyOf
      rw [List.filterMap_append, replies_evs]; simp


theorem step_remove (s : State S) (id : Nat) (hI : Inv s) :
    Inv (step s (.remove id)) ∧ abs (step s (.remove id)) = Spec.step (abs s) (.remove id) := by
  cases hg : mapGet s.watchers id with
  | none =>
    simp only [step, hI.run, hg]
    refine ⟨hI, ?_⟩
    apply spec_ext
    · rfl
    · rfl
    rotate_left
    · rfl
    intro i
    show (abs s).obs i = if i = id then ((abs s).obs i).close else (abs s).obs i
    by_cases hi : i = id
    · subst hi
      simp only [↓reduceIte, abs_obs, absObs, hg]
      by_cases hb : 1 ≤ i ∧ i ≤ s.lastID <;> simp [hb, Spec.Obs.close]
    · simp [hi]
  | some w =>
    obtain ⟨hwm, hwid⟩ := mapGet_some_mem hg
    have hbd := hI.bound w hwm
    rw [hwid] at hbd
    simp only [step, hI.run, hg]
    refine ⟨⟨rfl, ?_, ?_, ?_⟩, ?_⟩
    · exact (ids_mapDel_sublist _ _).nodup hI.nodup
    · intro x hx; exact hI.bound x (mem_mapDel.1 hx).1
    · intro i hi
      show logOf i (s.trace ++ [Out.ev id (.closed false)]) = []
      have : ¬ id = i := by intro h; subst h; exact hi hbd
      rw [logOf_append, hI.fresh i hi]; simp [logOf, evOf, this]
    · apply spec_ext
      · rfl
      · rfl
      · intro i
        show absObs (mapDel s.watchers id) s.lastID (s.trace ++ [Out.ev id (.closed false)]) i
          = if i = id then ((abs s).obs i).close else (abs s).obs i
        unfold absObs
        rw [mapGet_mapDel, logOf_append]
        by_cases hi : i = id
        · subst hi
          simp [abs_obs, absObs, hg, Spec.Obs.close, hbd, logOf, evOf]
        · have : ¬ id = i := fun h => hi h.symm
          simp [hi, abs_obs, absObs, logOf, evOf, this]
      · show (s.trace ++ [Out.ev id (.closed false)]).filterMap replyOf = s.trace.filterMap replyOf
        simp [List.filterMap_append, replyOf]

theorem step_update (s : State S) (e : S → Option S) (ord : List Nat) (hI : Inv s) :
    Inv (step s (.update e ord)) ∧ abs (step s (.update e ord)) = Spec.step (abs s) (.update e ord) := by
  have hdb : (abs s).db = s.global := rfl
  cases he : e s.global with
  | none =>
    simp only [step, hI.run, Spec.step, hdb, he]
    have hl : ∀ i, logOf i ([Out.reply false] : List (Out S)) = [] := fun i => rfl
    refine ⟨⟨rfl, hI.nodup, hI.bound, ?_⟩, ?_⟩
    · intro i hi
      show logOf i (s.trace ++ [Out.reply false]) = []
      rw [logOf_append, hI.fresh i hi, hl]; rfl
    · apply spec_ext
      · rfl
      · rfl
      · intro i
        show absObs s.watchers s.lastID (s.trace ++ [Out.reply false]) i = (abs s).obs i
        rw [abs_obs]; unfold absObs
        rw [logOf_append, hl, List.append_nil]
      · show (s.trace ++ [Out.reply false]).filterMap replyOf = s.trace.filterMap replyOf ++ [false]
        simp [List.filterMap_append, replyOf]
  | some v =>
    have hperm := permBy_perm ord s.watchers
    have hndp : (ids (permBy ord s.watchers)).Nodup :=
      (List.Perm.nodup_iff (List.Perm.map (fun w : Watcher S => w.id) hperm)).2 hI.nodup
    obtain ⟨r1, r2, r3, r4, r5⟩ := rangeUpdate_spec v (permBy ord s.watchers) hndp
    have hget : ∀ i, mapGet (permBy ord s.watchers) i = mapGet s.watchers i := fun i => mapGet_perm hperm hndp i
    simp only [step, hI.run, Spec.step, hdb, he, r1, Bool.false_eq_true, ↓reduceIte]
    have hmem : ∀ x, x ∈ (rangeUpdate v (permBy ord s.watchers)).ws → x.id ∈ ids s.watchers := by
      intro x hx
      have h1 : x.id ∈ ids (rangeUpdate v (permBy ord s.watchers)).ws := List.mem_map_of_mem hx
      have h2 := r5.subset h1
      exact ((List.Perm.map (fun w : Watcher S => w.id) hperm).mem_iff).1 h2
    refine ⟨⟨rfl, ?_, ?_, ?_⟩, ?_⟩
    · exact r5.nodup hndp
    · intro x hx
      have := hmem x hx
      simp only [ids, List.mem_map] at this
      obtain ⟨y, hy, hxy⟩ := this
      rw [← hxy]; exact hI.bound y hy
    · intro i hi
      show logOf i (s.trace ++ Out.reply true :: (rangeUpdate v (permBy ord s.watchers)).outs) = []
      rw [logOf_append, logOf_reply_cons, hI.fresh i hi, r3, hget]
      cases hg : mapGet s.watchers i with
      | none => rfl
      | some w =>
        obtain ⟨hwm, hwid⟩ := mapGet_some_mem hg
        have := hI.bound w hwm
        rw [hwid] at this
        exact absurd this hi
    · apply spec_ext
      · rfl
      · rfl
      · intro i
        show absObs (rangeUpdate v (permBy ord s.watchers)).ws s.lastID
            (s.trace ++ Out.reply true :: (rangeUpdate v (permBy ord s.watchers)).outs) i = ((abs s).obs i).notify v
        rw [abs_obs]; unfold absObs
        rw [r2, hget, logOf_append, logOf_reply_cons, r3, hget]
        cases hg : mapGet s.watchers i with
        | none =>
          simp only [Option.bind_none, List.append_nil]
          by_cases hb : 1 ≤ i ∧ i ≤ s.lastID <;> simp [hb, Spec.Obs.notify]
        | some w =>
          obtain ⟨hwm, hwid⟩ := mapGet_some_mem hg
          have hbd := hI.bound w hwm
          rw [hwid] at hbd
          simp only [Option.bind_some, Spec.Obs.notify, upd1]
          have hw : w = ⟨i, w.expr, w.cb⟩ := by cases w; simp at hwid; subst hwid; rfl
          rw [deliver_eq i w.expr w.cb _ v, ← hw]
          by_cases hok : (wUpdate w v).ok = true
          · simp [hok]
          · simp [hok, hbd]
      · show (s.trace ++ Out.reply true :: (rangeUpdate v (permBy ord s.watchers)).outs).filterMap replyOf
          = s.trace.filterMap replyOf ++ [true]
        rw [List.filterMap_append, List.filterMap_cons]
        simp [replyOf, r4]

theorem close_spec (s : State S) (ord : List Nat) (hI : Inv s) :
    Inv (⟨s.global, [], s.lastID, .running, s.trace ++ closeAll (permBy ord s.watchers)⟩ : State S) ∧
    abs (⟨s.global, [], s.lastID, .running, s.trace ++ closeAll (permBy ord s.watchers)⟩ : State S)
      = ⟨(abs s).db, (abs s).count, fun i => ((abs s).obs i).close, (abs s).replies⟩ := by
  have hperm := permBy_perm ord s.watchers
  have hndp : (ids (permBy ord s.watchers)).Nodup :=
    (List.Perm.nodup_iff (List.Perm.map (fun w : Watcher S => w.id) hperm)).2 hI.nodup
  obtain ⟨c1, c2⟩ := closeAll_spec (permBy ord s.watchers) hndp
  have hget : ∀ i, mapGet (permBy ord s.watchers) i = mapGet s.watchers i := fun i => mapGet_perm hperm hndp i
  refine ⟨⟨rfl, List.nodup_nil, fun _ h => by simp at h, ?_⟩, ?_⟩
  · intro i hi
    show logOf i (s.trace ++ closeAll (permBy ord s.watchers)) = []
    rw [logOf_append, hI.fresh i hi, c1, hget]
    cases hg : mapGet s.watchers i with
    | none => rfl
    | some w =>
      obtain ⟨hwm, hwid⟩ := mapGet_some_mem hg
      have := hI.bound w hwm
      rw [hwid] at this
      exact absurd this hi
  · apply spec_ext
    · rfl
    · rfl
    · intro i
      show absObs [] s.lastID (s.trace ++ closeAll (permBy ord s.watchers)) i = ((abs s).obs i).close
      rw [abs_obs]; unfold absObs
      rw [logOf_append, c1, hget]
      cases hg : mapGet s.watchers i with
      | none =>
        simp only [mapGet_nil, List.append_nil]
        by_cases hb : 1 ≤ i ∧ i ≤ s.lastID <;> simp [hb, Spec.Obs.close]
      | some w =>
        obtain ⟨hwm, hwid⟩ := mapGet_some_mem hg
        have hbd := hI.bound w hwm
        rw [hwid] at hbd
        simp [Spec.Obs.close, hbd]
    · show (s.trace ++ closeAll (permBy ord s.watchers)).filterMap replyOf = s.trace.filterMap replyOf
      rw [List.filterMap_append, c2]; simp

theorem step_hangup (s : State S) (ord : List Nat) (hI : Inv s) :
    Inv (step s (.hangup ord)) ∧ abs (step s (.hangup ord)) = Spec.step (abs s) (.hangup ord) := by
  have := close_spec s ord hI
  simp only [step, hI.run]
  exact this

theorem stop_refines (s : State S) (ord : List Nat) (hI : Inv s) :
    Inv (stop s ord) ∧ abs (stop s ord) = Spec.stop (abs s) := by
  have := close_spec s ord hI
  simp only [stop, hI.run]
  exact this

theorem step_refines (s : State S) (m : Msg S) (hI : Inv s) :
    Inv (step s m) ∧ abs (step s m) = Spec.step (abs s) m := by
  cases m with
  | add e c => exact step_add s e c hI
  | remove id => exact step_remove s id hI
  | update e ord => exact step_update s e ord hI
  | hangup ord => exact step_hangup s ord hI

theorem runFrom_refines : ∀ (h : List (Msg S)) (s : State S), Inv s →
    Inv (runFrom s h) ∧ abs (runFrom s h) = Spec.runFrom (abs s) h
  | [], s, hI => ⟨hI, rfl⟩
  | m :: r, s, hI => by
    obtain ⟨h1, h2⟩ := step_refines s m hI
    obtain ⟨h3, h4⟩ := runFrom_refines r (step s m) h1
    refine ⟨h3, ?_⟩
    show abs (runFrom (step s m) r) = Spec.runFrom (Spec.step (abs s) m) r
    rw [h4, h2]

theorem abs_init (g0 : S) : abs (init g0) = Spec.init g0 := by
  apply spec_ext
  · rfl
  · rfl
  rotate_left
  · rfl
  intro i
  rw [abs_obs]
  show absObs ([] : List (Watcher S)) 0 [] i = Spec.Obs.fresh
  unfold absObs
  have : ¬ (1 ≤ i ∧ i ≤ 0) := by omega
  simp only [mapGet_nil]
  exact if_neg this

theorem run_refines (g0 : S) (h : List (Msg S)) :
    Inv (run g0 h) ∧ abs (run g0 h) = Spec.run g0 h := by
  have := runFrom_refines h (init g0) (inv_init g0)
  rw [abs_init] at this
  exact this

/-- the log the engine produced is the log the abstraction shows -/
theorem log_abs (s : State S) (hI : Inv s) (i : Nat) : log s i = ((abs s).obs i).log := by
  rw [abs_obs]; unfold absObs
  cases mapGet s.watchers i with
  | some w => rfl
  | none =>
    by_cases hb : 1 ≤ i ∧ i ≤ s.lastID
    · simp [hb, Spec.Obs.log, log]
    · simp [hb, Spec.Obs.log, log, hI.fresh i hb]


/-! ## facts that need no hypothesis -/

theorem rangeUpdate_no_reply (g : S) : ∀ l : List (Watcher S), (rangeUpdate g l).outs.filterMap replyOf = []
  | [] => rfl
  | w :: r => by
    simp only [rangeUpdate]
    by_cases hb : (wUpdate w g).blocked = true
    · simp only [hb, ↓reduceIte]; exact replies_evs _ _
    · simp only [hb, Bool.false_eq_true, ↓reduceIte]
      rw [List.filterMap_append, replies_evs, rangeUpdate_no_reply g r]; rfl

/-- an `Update` received by a running loop is answered first, exactly once, and the answer says
whether the expression evaluated -/
theorem step_update_answered (s : State S) (e : S → Option S) (ord : List Nat) (hr : s.status = .running) :
    ∃ evs, (step s (.update e ord)).trace = s.trace ++ Out.reply (e s.global).isSome :: evs ∧
      evs.filterMap replyOf = [] := by
  simp only [step, hr]
  cases he : e s.global with
  | none => exact ⟨[], rfl, rfl⟩
  | some v => exact ⟨_, rfl, rangeUpdate_no_reply v _⟩

theorem step_status (s : State S) (m : Msg S) (h : s.status ≠ .crashed) : (step s m).status ≠ .crashed := by
  unfold step
  cases hs : s.status with
  | crashed => exact absurd hs h
  | wedged => simp only []; rw [hs]; exact fun h => Status.noConfusion h
  | running =>
    cases m with
    | add e c =>
      simp only []
      by_cases hb : (wUpdate ⟨s.lastID + 1, e, c⟩ s.global).blocked = true <;> simp [hb]
    | remove id =>
      simp only []
      cases mapGet s.watchers id <;> simp [hs]
    | update e ord =>
      simp only []
      cases e s.global with
      | none => simp [hs]
      | some v =>
        by_cases hb : (rangeUpdate v (permBy ord s.watchers)).blocked = true <;> simp [hb]
    | hangup ord => simp [hs]

theorem runFrom_status : ∀ (h : List (Msg S)) (s : State S), s.status ≠ .crashed → (runFrom s h).status ≠ .crashed
  | [], _, hs => hs
  | m :: r, s, hs => runFrom_status r (step s m) (step_status s m hs)

theorem runFrom_append (s : State S) (a b : List (Msg S)) : runFrom s (a ++ b) = runFrom (runFrom s a) b := by
  simp [runFrom, List.foldl_append]

end Impl

/-! ## the specification in closed form -/
namespace Spec
variable {S : Type}

theorem runFrom_append (s : State S) (a b : List (Msg S)) : runFrom s (a ++ b) = runFrom (runFrom s a) b := by
  simp [runFrom, List.foldl_append]

theorem runFrom_cons (s : State S) (m : Msg S) (r : List (Msg S)) : runFrom s (m :: r) = runFrom (step s m) r := rfl

theorem runFrom_db_replies : ∀ (h : List (Msg S)) (s : State S),
    (runFrom s h).db = dbAfter s.db (updates h) ∧ (runFrom s h).replies = s.replies ++ acks s.db (updates h)
  | [], s => by simp [runFrom, updates, dbAfter, acks]
  | m :: r, s => by
    rw [runFrom_cons]
    obtain ⟨h1, h2⟩ := runFrom_db_replies r (step s m)
    rw [h1, h2]
    cases m with
    | add e c => exact ⟨rfl, rfl⟩
    | remove i => exact ⟨rfl, rfl⟩
    | hangup o => exact ⟨rfl, rfl⟩
    | update e o =>
      simp only [step, updates, dbAfter, acks]
      cases e s.db with
      | none => simp
      | some v => simp

theorem step_count (s : State S) (m : Msg S) : s.count ≤ (step s m).count := by
  cases m with
  | add e c => exact Nat.le_succ _
  | remove i => exact Nat.le_refl _
  | hangup o => exact Nat.le_refl _
  | update e o => simp only [step]; cases e s.db <;> exact Nat.le_refl _

theorem runFrom_count : ∀ (h : List (Msg S)) (s : State S), s.count ≤ (runFrom s h).count
  | [], _ => Nat.le_refl _
  | m :: r, s => by
    rw [runFrom_cons]
    exact Nat.le_trans (step_count s m) (runFrom_count r (step s m))

/-- an observer that is gone stays gone and hears nothing more -/
theorem runFrom_dead (j : Nat) : ∀ (h : List (Msg S)) (s : State S) (l : List (Ev S)),
    s.obs j = .dead l → j ≤ s.count → (runFrom s h).obs j = .dead l
  | [], _, _, hd, _ => hd
  | m :: r, s, l, hd, hj => by
    rw [runFrom_cons]
    apply runFrom_dead j r (step s m) l _ (Nat.le_trans hj (step_count s m))
    cases m with
    | add e c =>
      have : ¬ j = s.count + 1 := by omega
      simp [step, this, hd]
    | remove i =>
      by_cases hi : j = i <;> simp [step, hi, hd, Obs.close]
      subst hi; simp [hd]
    | hangup o => simp [step, hd, Obs.close]
    | update e o =>
      simp only [step]
      cases e s.db with
      | none => exact hd
      | some v => simp [hd, Obs.notify]

/-- a live observer hears exactly `expected` -/
theorem runFrom_live (j : Nat) : ∀ (h : List (Msg S)) (s : State S) (e : S → Option S) (c : List Act) (l : List (Ev S)),
    s.obs j = .live e c l → j ≤ s.count → ((runFrom s h).obs j).log = l ++ expected j e c s.db h
  | [], s, e, c, l, hl, _ => by simp [runFrom, hl, Obs.log, expected]
  | m :: r, s, e, c, l, hl, hj => by
    rw [runFrom_cons]
    have hj' := Nat.le_trans hj (step_count s m)
    cases m with
    | add e' c' =>
      have hne : ¬ j = s.count + 1 := by omega
      have : (step s (.add e' c')).obs j = .live e c l := by simp [step, hne, hl]
      rw [runFrom_live j r _ e c l this hj']
      rfl
    | remove i =>
      by_cases hi : i = j
      · subst hi
        have : (step s (.remove i)).obs i = .dead (l ++ [.closed false]) := by simp [step, hl, Obs.close]
        rw [runFrom_dead i r _ _ this hj']
        simp [Obs.log, expected]
      · have hne : ¬ j = i := fun h => hi h.symm
        have : (step s (.remove i)).obs j = .live e c l := by simp [step, hne, hl]
        rw [runFrom_live j r _ e c l this hj']
        simp [expected, hi]
        rfl
    | hangup o =>
      have : (step s (.hangup o)).obs j = .dead (l ++ [.closed false]) := by simp [step, hl, Obs.close]
      rw [runFrom_dead j r _ _ this hj']
      simp [Obs.log, expected]
    | update e' o =>
      cases he' : e' s.db with
      | none =>
        have h1 : step s (.update e' o) = { s with replies := s.replies ++ [false] } := by simp [step, he']
        rw [h1] at hj' ⊢
        rw [runFrom_live j r ⟨s.db, s.count, s.obs, s.replies ++ [false]⟩ e c l hl hj']
        simp [expected, he']
      | some g' =>
        have h1 : step s (.update e' o) =
            { s with db := g', replies := s.replies ++ [true], obs := fun i => (s.obs i).notify g' } := by
          simp [step, he']
        rw [h1] at hj' ⊢
        have hn : (s.obs j).notify g' = deliver e c l g' := by rw [hl]; rfl
        simp only [expected, he']
        unfold deliver at hn
        cases hv : e g' with
        | none =>
          rw [hv] at hn
          rw [runFrom_dead j r _ _ (by show (s.obs j).notify g' = _; exact hn) hj']
          simp [Obs.log]
        | some v =>
          rw [hv] at hn
          simp only at hn ⊢
          cases ha : c.headD .ok with
          | ok =>
            rw [ha] at hn
            rw [runFrom_live j r _ e c.tail (l ++ [.val v]) (by show (s.obs j).notify g' = _; exact hn) hj']
            simp
          | err =>
            rw [ha] at hn
            rw [runFrom_dead j r _ _ (by show (s.obs j).notify g' = _; exact hn) hj']
            simp [Obs.log]
          | panic =>
            rw [ha] at hn
            rw [runFrom_dead j r _ _ (by show (s.obs j).notify g' = _; exact hn) hj']
            simp [Obs.log]
          | reenter =>
            rw [ha] at hn
            rw [runFrom_dead j r _ _ (by show (s.obs j).notify g' = _; exact hn) hj']
            simp [Obs.log]

/-- delivery, on the specification -/
theorem delivery (g0 : S) (h1 : List (Msg S)) (e : S → Option S) (c : List Act) (h2 : List (Msg S)) :
    ((run g0 (h1 ++ .add e c :: h2)).obs ((run g0 h1).count + 1)).log
      = expectedFrom ((run g0 h1).count + 1) e c (run g0 h1).db h2 := by
  unfold run
  rw [runFrom_append, runFrom_cons]
  generalize runFrom (init g0) h1 = s1
  have hc : (step s1 (.add e c)).count = s1.count + 1 := rfl
  have hdb : (step s1 (.add e c)).db = s1.db := rfl
  have ho : (step s1 (.add e c)).obs (s1.count + 1) = deliver e c [] s1.db := by simp [step]
  unfold deliver at ho
  unfold expectedFrom
  cases hv : e s1.db with
  | none =>
    rw [hv] at ho
    rw [runFrom_dead _ h2 _ _ ho (by rw [hc]; exact Nat.le_refl _)]
    simp [Obs.log]
  | some v =>
    rw [hv] at ho
    simp only at ho ⊢
    cases ha : c.headD .ok with
    | ok =>
      rw [ha] at ho
      rw [runFrom_live _ h2 _ e c.tail _ ho (by rw [hc]; exact Nat.le_refl _), hdb]
      simp
    | err =>
      rw [ha] at ho
      rw [runFrom_dead _ h2 _ _ ho (by rw [hc]; exact Nat.le_refl _)]
      simp [Obs.log]
    | panic =>
      rw [ha] at ho
      rw [runFrom_dead _ h2 _ _ ho (by rw [hc]; exact Nat.le_refl _)]
      simp [Obs.log]
    | reenter =>
      rw [ha] at ho
      rw [runFrom_dead _ h2 _ _ ho (by rw [hc]; exact Nat.le_refl _)]
      simp [Obs.log]


/-! ### isolation: an observer's log and the replies are functions of its view -/

def vstep (x : S × Obs S × List Bool) : VMsg S → S × Obs S × List Bool
  | .add none => x
  | .add (some (e, c)) => (x.1, deliver e c [] x.1, x.2.2)
  | .rm => (x.1, x.2.1.close, x.2.2)
  | .hang => (x.1, x.2.1.close, x.2.2)
  | .upd e =>
    match e x.1 with
    | none => (x.1, x.2.1, x.2.2 ++ [false])
    | some v => (v, x.2.1.notify v, x.2.2 ++ [true])

def vrun (x : S × Obs S × List Bool) (l : List (VMsg S)) : S × Obs S × List Bool := l.foldl vstep x

theorem runFrom_view (j : Nat) : ∀ (h : List (Msg S)) (s : State S),
    ((runFrom s h).db, (runFrom s h).obs j, (runFrom s h).replies) = vrun (s.db, s.obs j, s.replies) (view j s.count h)
  | [], _ => rfl
  | m :: r, s => by
    rw [runFrom_cons, runFrom_view j r (step s m)]
    cases m with
    | add e c =>
      simp only [view, vrun, List.foldl_cons]
      by_cases hj : s.count + 1 = j
      · subst hj; simp [step, vstep]
      · have : ¬ j = s.count + 1 := fun h => hj h.symm
        simp [step, vstep, hj, this]
    | remove i =>
      by_cases hi : i = j
      · subst hi; simp [view, vrun, step, vstep]
      · have : ¬ j = i := fun h => hi h.symm
        simp [view, vrun, step, hi, this]
    | hangup o => simp [view, vrun, step, vstep]
    | update e o =>
      simp only [view, vrun, List.foldl_cons, step, vstep]
      cases e s.db <;> rfl

theorem isolation (g0 : S) (j : Nat) (h h' : List (Msg S)) (hv : view j 0 h = view j 0 h') :
    (run g0 h).obs j = (run g0 h').obs j ∧ (run g0 h).replies = (run g0 h').replies := by
  have a := runFrom_view j h (init g0)
  have b := runFrom_view j h' (init g0)
  have hc : (init g0).count = 0 := rfl
  rw [hc, hv] at a
  rw [hc, ← a] at b
  simp only [Prod.mk.injEq] at b
  exact ⟨b.2.1.symm, b.2.2.symm⟩

/-! ### the enumeration orders chosen for the map are invisible -/

def reorder (f : List Nat → List Nat) : Msg S → Msg S
  | .update e o => .update e (f o)
  | .hangup o => .hangup (f o)
  | m => m

theorem view_reorder (f : List Nat → List Nat) (j : Nat) : ∀ (h : List (Msg S)) (n : Nat),
    view j n (h.map (reorder f)) = view j n h
  | [], _ => rfl
  | m :: r, n => by
    cases m with
    | add e c => simp only [List.map_cons, reorder, view]; rw [view_reorder f j r (n + 1)]
    | remove i => simp only [List.map_cons, reorder, view]; rw [view_reorder f j r n]
    | update e o => simp only [List.map_cons, reorder, view]; rw [view_reorder f j r n]
    | hangup o => simp only [List.map_cons, reorder, view]; rw [view_reorder f j r n]

/-! ### an observer that never fails and is never cancelled hears every installed state -/

def quiet (j : Nat) : Msg S → Bool
  | .remove i => i != j
  | .hangup _ => false
  | _ => true

theorem expected_live (j : Nat) (f : S → S) : ∀ (h : List (Msg S)) (g : S), h.all (quiet j) = true →
    expected j (fun s => some (f s)) [] g h = (installed g h).map (fun s => Ev.val (f s))
  | [], _, _ => rfl
  | m :: r, g, hq => by
    simp only [List.all_cons, Bool.and_eq_true] at hq
    cases m with
    | add e c => simp only [expected, installed]; exact expected_live j f r g hq.2
    | remove i =>
      have : ¬ i = j := by simpa [quiet] using hq.1
      simp only [expected, installed, this, ↓reduceIte]; exact expected_live j f r g hq.2
    | hangup o => simp [quiet] at hq
    | update e o =>
      simp only [expected, installed]
      cases e g with
      | none => exact expected_live j f r g hq.2
      | some g' => simp [expected_live j f r g' hq.2]

/-! ### every observer is closed at most once, and hears nothing afterwards -/

def noClose (l : List (Ev S)) : Prop := ∀ x ∈ l, ∀ b, x ≠ Ev.closed b

def Obs.WF : Obs S → Prop
  | .fresh => True
  | .live _ _ l => noClose l
  | .dead l => ∃ l0 b, l = l0 ++ [Ev.closed b] ∧ noClose l0

theorem noClose_snoc_val {l : List (Ev S)} (h : noClose l) (v : S) : noClose (l ++ [Ev.val v]) := by
  intro x hx b
  simp only [List.mem_append, List.mem_singleton] at hx
  rcases hx with hx | hx
  · exact h x hx b
  · subst hx; intro h; cases h

theorem deliver_wf (e : S → Option S) (c : List Act) (l : List (Ev S)) (g : S) (h : noClose l) : (deliver e c l g).WF := by
  unfold deliver
  cases e g with
  | none => exact ⟨l, true, rfl, h⟩
  | some v =>
    simp only
    cases c.headD .ok with
    | ok => exact noClose_snoc_val h v
    | err => exact ⟨l ++ [.val v], true, by simp, noClose_snoc_val h v⟩
    | panic => exact ⟨l ++ [.val v], true, by simp, noClose_snoc_val h v⟩
    | reenter => exact ⟨l ++ [.val v], false, by simp, noClose_snoc_val h v⟩

theorem close_wf {o : Obs S} (h : o.WF) : o.close.WF := by
  cases o with
  | fresh => exact h
  | dead l => exact h
  | live e c l => exact ⟨l, false, rfl, h⟩

theorem notify_wf {o : Obs S} (g : S) (h : o.WF) : (o.notify g).WF := by
  cases o with
  | fresh => exact h
  | dead l => exact h
  | live e c l => exact deliver_wf e c l g h

theorem step_wf (s : State S) (m : Msg S) (h : ∀ i, (s.obs i).WF) : ∀ i, ((step s m).obs i).WF := by
  intro i
  cases m with
  | add e c =>
    simp only [step]
    by_cases hi : i = s.count + 1
    · simp only [hi, ↓reduceIte]; exact deliver_wf e c [] s.db (fun _ hx => by simp at hx)
    · simp only [hi, ↓reduceIte]; exact h i
  | remove j =>
    simp only [step]
    by_cases hi : i = j
    · simp only [hi, ↓reduceIte]; exact close_wf (h j)
    · simp only [hi, ↓reduceIte]; exact h i
  | hangup o => exact close_wf (h i)
  | update e o =>
    simp only [step]
    cases e s.db with
    | none => exact h i
    | some v => exact notify_wf v (h i)

theorem runFrom_wf : ∀ (hs : List (Msg S)) (s : State S), (∀ i, (s.obs i).WF) → ∀ i, ((runFrom s hs).obs i).WF
  | [], _, h => h
  | m :: r, s, h => runFrom_wf r (step s m) (step_wf s m h)

theorem run_wf (g0 : S) (h : List (Msg S)) (i : Nat) : ((run g0 h).obs i).WF :=
  runFrom_wf h (init g0) (fun _ => trivial) i

end Spec
end Arrai.C17
