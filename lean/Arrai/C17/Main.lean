import Arrai.Core.DriverMain
import Arrai.C17.Gen

def main (args : List String) : IO UInt32 := Arrai.driverMain Arrai.C17.gen args
