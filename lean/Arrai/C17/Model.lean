/-
  C17 — the server engine (engine/engine.go) applies updates atomically, in order, and never wedges.

  The engine is one goroutine (`Start`'s loop) that owns all state (`global`, the `watchers` map) and
  serves five unbuffered channels.  A *message* is one rendezvous on one of them; client calls
  (`Update`, `Observe`, the cancel function, `Hangup`) are atomic at their rendezvous, so the
  interleavings of concurrent clients are exactly the lists of messages.  `Impl.step` is the
  straight-line code of the `select` arm that receives the message, including the channel operations
  the arm performs itself (`req.failed <- err`, and — in the unrepaired code — `w.cancel()`, a send on
  `removeWatcher`, which only the loop itself receives).  Callbacks run on the loop's goroutine; what a
  callback does (return nil / return an error / panic / call its own cancel function) is an oracle:
  a script with one `Act` per invocation.

  Everything is parametric in the type `S` of database values; an expression is any total function
  `S → Option S` (`none` = evaluation error).  Core-only.
-/
import Arrai.Core.Canon

namespace Arrai.C17

/-- what an `onupdate` callback does when it is invoked -/
inductive Act
  | ok        -- returns nil
  | err       -- returns an error
  | panic     -- panics
  | reenter   -- the cancel function of this observation is called while the callback runs: by the callback
              -- itself (on the engine's goroutine) or, which the code cannot tell apart, by another goroutine
  deriving DecidableEq, Repr, Inhabited

/-- what an observer is told -/
inductive Ev (S : Type)
  | val (v : S)             -- onupdate(v)
  | closed (err : Bool)     -- onclose(nil) / onclose(non-nil error)
  deriving DecidableEq, Repr

/-- `type watcher struct`: `cb` is the *remaining* script of the onupdate callback (its head is the
behaviour of the next invocation; an exhausted script returns nil) -/
structure Watcher (S : Type) where
  id : Nat
  expr : S → Option S
  cb : List Act

/-- one rendezvous with the engine loop.  `ord` chooses the order in which Go's `range` enumerates
the watcher map during that arm (the order is unspecified in Go; see `permBy`). -/
inductive Msg (S : Type)
  | add (expr : S → Option S) (cb : List Act)     -- Observe: `e.addWatcher <- &watcher{...}`
  | remove (id : Nat)                             -- cancel(): `e.removeWatcher <- id`
  | update (expr : S → Option S) (ord : List Nat) -- Update: `e.updateDB <- updateRequest{...}`
  | hangup (ord : List Nat)                       -- Hangup: `e.hangup <- struct{}{}`

/-- take the element at index `i` out of a list -/
def pickAt {α : Type} : Nat → List α → Option (α × List α)
  | _, [] => none
  | 0, x :: r => some (x, r)
  | i + 1, x :: r => match pickAt i r with
    | some (y, r') => some (y, x :: r')
    | none => none

/-- enumeration order of a map: at each step `code` picks one of the remaining entries
(`c % remaining`); when the code is exhausted the rest is enumerated as stored.  Every code yields a
permutation (`permBy_perm`). -/
def permBy {α : Type} : List Nat → List α → List α
  | [], l => l
  | c :: cs, l =>
    match pickAt (c % l.length) l with
    | some (x, r) => x :: permBy cs r
    | none => l

/-! ## Impl: the engine loop -/
namespace Impl

inductive Status
  | running   -- at (or on its way back to) the `select`
  | wedged    -- blocked forever in a send on `removeWatcher`, which only the loop receives
  | crashed   -- nil dereference (`watchers[id].close()` with no such id): the process dies
  deriving DecidableEq, Repr

/-- what the loop emits: the answer to an `Update` (`req.failed <- err`) or a callback invocation -/
inductive Out (S : Type)
  | reply (ok : Bool)
  | ev (id : Nat) (e : Ev S)
  deriving DecidableEq, Repr

structure State (S : Type) where
  global : S                    -- `global` (the value of `$`)
  watchers : List (Watcher S)   -- `watchers map[uint64]*watcher`
  lastID : Nat                  -- `lastID`
  status : Status
  trace : List (Out S)          -- everything emitted so far, in order (instrumentation)

def init {S : Type} (g0 : S) : State S := ⟨g0, [], 0, .running, []⟩

/-! the three map operations used by the loop -/
def mapGet {S : Type} (ws : List (Watcher S)) (id : Nat) : Option (Watcher S) := ws.find? (fun w => w.id == id)
def mapDel {S : Type} (ws : List (Watcher S)) (id : Nat) : List (Watcher S) := ws.filter (fun w => w.id != id)
def mapPut {S : Type} (ws : List (Watcher S)) (w : Watcher S) : List (Watcher S) := mapDel ws w.id ++ [w]

/-- result of `(*watcher).update`: the callbacks it made, its return value, the callback's remaining
script, and whether the goroutine got blocked inside it -/
structure UpdRes (S : Type) where
  evs : List (Ev S)
  ok : Bool
  cb : List Act
  blocked : Bool

/-- `watcher.state`: what the cancel function sees -/
inductive WState
  | idle        -- registered, none of its callbacks is running
  | busy        -- the loop is running one of its callbacks, or has dropped it
  | cancelled   -- busy, and cancel has been called meanwhile
  deriving DecidableEq, Repr

/-- the cancel function: `if CAS(state, busy, cancelled) || state == cancelled { return }; e.removeWatcher <- id`.
`true` = it goes on to the send.  Called from a callback (on the loop's goroutine) that send never completes. -/
def cancelSends : WState → Bool
  | .idle => true
  | .busy => false
  | .cancelled => false

/-- `func (w *watcher) update(ctx, global) bool`:
`state = busy; if !w.send(..) { return false }; if !CAS(state, busy, idle) { w.onclose(nil); return false }; return true`
where `send` evaluates, calls `onupdate`, and on failure calls `onclose(err)` and returns false.

Every `onclose` is taken to call the observation's own cancel function (any number of times — the worst
case of the callback oracle); `blocked` records whether such a call goes on to the send, given the state
the watcher has at that call site: busy in `send`, cancelled after the failed CAS. -/
def wUpdate {S : Type} (w : Watcher S) (g : S) : UpdRes S :=
  match w.expr g with
  | none => ⟨[.closed true], false, w.cb, cancelSends .busy⟩          -- send: w.onclose(err); return false
  | some v =>
    match w.cb.headD .ok with                                 -- send: err = w.onupdate(value)
    | .ok => ⟨[.val v], true, w.cb.tail, false⟩              -- CAS(busy, idle) succeeds
    | .err => ⟨[.val v, .closed true], false, w.cb.tail, cancelSends .busy⟩     -- send: w.onclose(err); return false
    | .panic => ⟨[.val v, .closed true], false, w.cb.tail, cancelSends .busy⟩   -- send: recover: ok = false; w.onclose(wrapped)
    | .reenter =>                                             -- cancel (state busy): marks it cancelled and returns
      ⟨[.val v, .closed false], false, w.cb.tail, cancelSends .busy || cancelSends .cancelled⟩
                                                              -- CAS fails; w.onclose(nil) (state cancelled); return false

structure RangeRes (S : Type) where
  ws : List (Watcher S)
  outs : List (Out S)
  blocked : Bool

/-- `for i, w := range watchers { if !w.update(ctx, global) { delete(watchers, i) } }` over the
enumeration `ws`: the map afterwards, what was emitted, and whether the loop got blocked -/
def rangeUpdate {S : Type} (g : S) : List (Watcher S) → RangeRes S
  | [] => ⟨[], [], false⟩
  | w :: r =>
    let u := wUpdate w g
    let w' : Watcher S := ⟨w.id, w.expr, u.cb⟩
    if u.blocked then ⟨w' :: r, u.evs.map (Out.ev w.id), true⟩
    else
      let rr := rangeUpdate g r
      ⟨if u.ok then w' :: rr.ws else rr.ws, u.evs.map (Out.ev w.id) ++ rr.outs, rr.blocked⟩

/-- the state of the watcher at each of the three places where the loop calls `onclose`:
`send` (onclose(err), state busy), `update` after the failed CAS (onclose(nil), state cancelled) and
`close()` = `state = busy; w.onclose(nil)` (cancel, hang-up, stop) -/
def closeSiteStates : List WState := [.busy, .cancelled, .busy]

/-- `closeAllWatchers`: `for _, w := range watchers { w.close() }` (each `close()` with the watcher busy) -/
def closeAll {S : Type} (ws : List (Watcher S)) : List (Out S) := ws.map (fun w => Out.ev w.id (.closed false))

/-- one iteration of `for { select { ... } }` (repaired loop).  A loop that is not at the `select`
accepts no rendezvous: the client blocks and nothing changes. -/
def step {S : Type} (s : State S) (m : Msg S) : State S :=
  match s.status with
  | .running =>
    match m with
    | .add e c =>
      -- Observe: id := atomic.AddUint64(&lastID, 1); arm: watchers[w.id] = w; if !w.update(..) { delete(watchers, w.id) }
      let id := s.lastID + 1
      let u := wUpdate ⟨id, e, c⟩ s.global
      let ws := mapPut s.watchers ⟨id, e, u.cb⟩
      { s with lastID := id,
               trace := s.trace ++ u.evs.map (Out.ev id),
               watchers := if u.blocked || u.ok then ws else mapDel ws id,
               status := if u.blocked then .wedged else .running }
    | .remove id =>
      -- if w, has := watchers[id]; has { w.close(); delete(watchers, id) }
      match mapGet s.watchers id with
      | some _ => { s with trace := s.trace ++ [Out.ev id (.closed false)], watchers := mapDel s.watchers id }
      | none => s
    | .update e ord =>
      match e s.global with
      | none => { s with trace := s.trace ++ [Out.reply false] }        -- req.failed <- err; continue
      | some v =>
        -- req.failed <- nil; global = global.With(Root, value); for i, w := range watchers {...}
        let rr := rangeUpdate v (permBy ord s.watchers)
        { s with global := v,
                 trace := s.trace ++ Out.reply true :: rr.outs,
                 watchers := rr.ws,
                 status := if rr.blocked then .wedged else .running }
    | .hangup ord =>
      { s with trace := s.trace ++ closeAll (permBy ord s.watchers), watchers := [] }
  | _ => s

def runFrom {S : Type} (s : State S) (h : List (Msg S)) : State S := h.foldl step s
def run {S : Type} (g0 : S) (h : List (Msg S)) : State S := runFrom (init g0) h

/-- `Stop`: `case <-e.stop: return`, then the deferred `closeAllWatchers()` -/
def stop {S : Type} (s : State S) (ord : List Nat) : State S :=
  match s.status with
  | .running => { s with trace := s.trace ++ closeAll (permBy ord s.watchers), watchers := [] }
  | _ => s

def replyOf {S : Type} : Out S → Option Bool
  | .reply b => some b
  | .ev _ _ => none

def evOf {S : Type} (id : Nat) : Out S → Option (Ev S)
  | .reply _ => none
  | .ev i e => if i = id then some e else none

/-- the answers given to `Update` calls so far, in order -/
def replies {S : Type} (s : State S) : List Bool := s.trace.filterMap replyOf
/-- what observer `id` has been told so far, in order -/
def logOf {S : Type} (id : Nat) (tr : List (Out S)) : List (Ev S) := tr.filterMap (evOf id)
def log {S : Type} (s : State S) (id : Nat) : List (Ev S) := logOf id s.trace

end Impl

/-! ## Prev: the loop after the first repairs but before the re-entrant-cancel repair (kept so that
finding KF-engine-reentrant-cancel stays machine-checked) -/
namespace Prev
open Impl (Status Out State UpdRes RangeRes mapGet mapDel mapPut closeAll)

/-- `(*watcher).update` when cancel still sent on `removeWatcher` unconditionally -/
def wUpdate {S : Type} (w : Watcher S) (g : S) : UpdRes S :=
  match w.expr g with
  | none => ⟨[.closed true], false, w.cb, false⟩
  | some v =>
    match w.cb.headD .ok with
    | .ok => ⟨[.val v], true, w.cb.tail, false⟩
    | .err => ⟨[.val v, .closed true], false, w.cb.tail, false⟩
    | .panic => ⟨[.val v, .closed true], false, w.cb.tail, false⟩
    | .reenter => ⟨[.val v], true, w.cb.tail, true⟩           -- cancel(): `e.removeWatcher <- id` on the loop's goroutine

def rangeUpdate {S : Type} (g : S) : List (Watcher S) → RangeRes S
  | [] => ⟨[], [], false⟩
  | w :: r =>
    let u := wUpdate w g
    let w' : Watcher S := ⟨w.id, w.expr, u.cb⟩
    if u.blocked then ⟨w' :: r, u.evs.map (Out.ev w.id), true⟩
    else
      let rr := rangeUpdate g r
      ⟨if u.ok then w' :: rr.ws else rr.ws, u.evs.map (Out.ev w.id) ++ rr.outs, rr.blocked⟩

def step {S : Type} (s : State S) (m : Msg S) : State S :=
  match s.status with
  | .running =>
    match m with
    | .add e c =>
      let id := s.lastID + 1
      let u := wUpdate ⟨id, e, c⟩ s.global
      let ws := mapPut s.watchers ⟨id, e, u.cb⟩
      { s with lastID := id,
               trace := s.trace ++ u.evs.map (Out.ev id),
               watchers := if u.blocked || u.ok then ws else mapDel ws id,
               status := if u.blocked then .wedged else .running }
    | .remove id =>
      match mapGet s.watchers id with
      | some _ => { s with trace := s.trace ++ [Out.ev id (.closed false)], watchers := mapDel s.watchers id }
      | none => s
    | .update e ord =>
      match e s.global with
      | none => { s with trace := s.trace ++ [Out.reply false] }
      | some v =>
        let rr := rangeUpdate v (permBy ord s.watchers)
        { s with global := v,
                 trace := s.trace ++ Out.reply true :: rr.outs,
                 watchers := rr.ws,
                 status := if rr.blocked then .wedged else .running }
    | .hangup ord =>
      { s with trace := s.trace ++ closeAll (permBy ord s.watchers), watchers := [] }
  | _ => s

def run {S : Type} (g0 : S) (h : List (Msg S)) : State S := h.foldl step (Impl.init g0)

end Prev

/-! ## Mut: a variant that leaves the busy state before calling onclose (kept as a machine-checked
explanation of why `close`/`update` must keep the watcher busy while onclose runs) -/
namespace Mut
open Impl (Status Out State UpdRes RangeRes WState cancelSends mapGet mapDel mapPut closeAll)

/-- `(*watcher).update` of a seeded variant: `if SwapInt32(state, idle) != busy { w.onclose(nil); return false }` —
the watcher is idle again while the `onclose(nil)` of a watcher cancelled during its callback runs -/
def wUpdate {S : Type} (w : Watcher S) (g : S) : UpdRes S :=
  match w.expr g with
  | none => ⟨[.closed true], false, w.cb, cancelSends .busy⟩
  | some v =>
    match w.cb.headD .ok with
    | .ok => ⟨[.val v], true, w.cb.tail, false⟩
    | .err => ⟨[.val v, .closed true], false, w.cb.tail, cancelSends .busy⟩
    | .panic => ⟨[.val v, .closed true], false, w.cb.tail, cancelSends .busy⟩
    | .reenter => ⟨[.val v, .closed false], false, w.cb.tail, cancelSends .busy || cancelSends .idle⟩

def rangeUpdate {S : Type} (g : S) : List (Watcher S) → RangeRes S
  | [] => ⟨[], [], false⟩
  | w :: r =>
    let u := wUpdate w g
    let w' : Watcher S := ⟨w.id, w.expr, u.cb⟩
    if u.blocked then ⟨w' :: r, u.evs.map (Out.ev w.id), true⟩
    else
      let rr := rangeUpdate g r
      ⟨if u.ok then w' :: rr.ws else rr.ws, u.evs.map (Out.ev w.id) ++ rr.outs, rr.blocked⟩

def step {S : Type} (s : State S) (m : Msg S) : State S :=
  match s.status with
  | .running =>
    match m with
    | .add e c =>
      let id := s.lastID + 1
      let u := wUpdate ⟨id, e, c⟩ s.global
      let ws := mapPut s.watchers ⟨id, e, u.cb⟩
      { s with lastID := id,
               trace := s.trace ++ u.evs.map (Out.ev id),
               watchers := if u.blocked || u.ok then ws else mapDel ws id,
               status := if u.blocked then .wedged else .running }
    | .remove id =>
      match mapGet s.watchers id with
      | some _ => { s with trace := s.trace ++ [Out.ev id (.closed false)], watchers := mapDel s.watchers id }
      | none => s
    | .update e ord =>
      match e s.global with
      | none => { s with trace := s.trace ++ [Out.reply false] }
      | some v =>
        let rr := rangeUpdate v (permBy ord s.watchers)
        { s with global := v,
                 trace := s.trace ++ Out.reply true :: rr.outs,
                 watchers := rr.ws,
                 status := if rr.blocked then .wedged else .running }
    | .hangup ord =>
      { s with trace := s.trace ++ closeAll (permBy ord s.watchers), watchers := [] }
  | _ => s

def run {S : Type} (g0 : S) (h : List (Msg S)) : State S := h.foldl step (Impl.init g0)

end Mut

/-! ## Old: the loop before any repair (kept so that the findings are machine-checked) -/
namespace Old
open Impl (Status Out State UpdRes RangeRes mapGet mapDel mapPut closeAll)

/-- `func (w *watcher) update(ctx, global)` before the repair -/
def wUpdate {S : Type} (w : Watcher S) (g : S) : UpdRes S :=
  match w.expr g with
  | none => ⟨[], true, w.cb, true⟩                         -- w.cancel() blocks; onclose(err) is never reached
  | some v =>
    match w.cb.headD .ok with
    | .ok => ⟨[.val v], true, w.cb.tail, false⟩
    | .err => ⟨[.val v], true, w.cb.tail, true⟩            -- w.cancel() blocks
    | .panic => ⟨[.val v, .closed true], true, w.cb.tail, false⟩   -- recover → onclose; the watcher stays in the map
    | .reenter => ⟨[.val v], true, w.cb.tail, true⟩

/-- `for i, w := range watchers { w.update(ctx, global) }` -/
def rangeUpdate {S : Type} (g : S) : List (Watcher S) → RangeRes S
  | [] => ⟨[], [], false⟩
  | w :: r =>
    let u := wUpdate w g
    let w' : Watcher S := ⟨w.id, w.expr, u.cb⟩
    if u.blocked then ⟨w' :: r, u.evs.map (Out.ev w.id), true⟩
    else
      let rr := rangeUpdate g r
      ⟨w' :: rr.ws, u.evs.map (Out.ev w.id) ++ rr.outs, rr.blocked⟩

def step {S : Type} (s : State S) (m : Msg S) : State S :=
  match s.status with
  | .running =>
    match m with
    | .add e c =>
      let id := s.lastID + 1
      let u := wUpdate ⟨id, e, c⟩ s.global
      { s with lastID := id,
               trace := s.trace ++ u.evs.map (Out.ev id),
               watchers := mapPut s.watchers ⟨id, e, u.cb⟩,
               status := if u.blocked then .wedged else .running }
    | .remove id =>
      -- watchers[id].close(); delete(watchers, id)
      match mapGet s.watchers id with
      | some _ => { s with trace := s.trace ++ [Out.ev id (.closed false)], watchers := mapDel s.watchers id }
      | none => { s with status := .crashed }
    | .update e ord =>
      match e s.global with
      | none => { s with trace := s.trace ++ [Out.reply false] }
      | some v =>
        let rr := rangeUpdate v (permBy ord s.watchers)
        { s with global := v,
                 trace := s.trace ++ Out.reply true :: rr.outs,
                 watchers := rr.ws,
                 status := if rr.blocked then .wedged else .running }
    | .hangup ord =>
      { s with trace := s.trace ++ closeAll (permBy ord s.watchers), watchers := [] }
  | _ => s

def run {S : Type} (g0 : S) (h : List (Msg S)) : State S := h.foldl step (Impl.init g0)

end Old

/-! ## Spec: the sequential machine the property describes -/
namespace Spec

/-- one observer: not subscribed yet / live (expression, remaining callback script, log) / gone (log) -/
inductive Obs (S : Type)
  | fresh
  | live (expr : S → Option S) (cb : List Act) (log : List (Ev S))
  | dead (log : List (Ev S))

/-- send an observer the value of its expression on state `g` -/
def deliver {S : Type} (expr : S → Option S) (cb : List Act) (log : List (Ev S)) (g : S) : Obs S :=
  match expr g with
  | none => .dead (log ++ [.closed true])
  | some v =>
    match cb.headD .ok with
    | .ok => .live expr cb.tail (log ++ [.val v])
    | .err => .dead (log ++ [.val v, .closed true])
    | .panic => .dead (log ++ [.val v, .closed true])
    | .reenter => .dead (log ++ [.val v, .closed false])   -- cancelled: closed once, nothing else happens

def Obs.notify {S : Type} (g : S) : Obs S → Obs S
  | .live e c l => deliver e c l g
  | o => o

def Obs.close {S : Type} : Obs S → Obs S
  | .live _ _ l => .dead (l ++ [.closed false])
  | o => o

def Obs.log {S : Type} : Obs S → List (Ev S)
  | .fresh => []
  | .live _ _ l => l
  | .dead l => l

structure State (S : Type) where
  db : S
  count : Nat              -- observers subscribed so far; they are numbered 1, 2, …
  obs : Nat → Obs S
  replies : List Bool

def init {S : Type} (g0 : S) : State S := ⟨g0, 0, fun _ => .fresh, []⟩

def step {S : Type} (s : State S) : Msg S → State S
  | .add e c =>
    { s with count := s.count + 1,
             obs := fun i => if i = s.count + 1 then deliver e c [] s.db else s.obs i }
  | .remove id => { s with obs := fun i => if i = id then (s.obs i).close else s.obs i }
  | .update e _ =>
    match e s.db with
    | none => { s with replies := s.replies ++ [false] }
    | some v => { s with db := v, replies := s.replies ++ [true], obs := fun i => (s.obs i).notify v }
  | .hangup _ => { s with obs := fun i => (s.obs i).close }

def runFrom {S : Type} (s : State S) (h : List (Msg S)) : State S := h.foldl step s
def run {S : Type} (g0 : S) (h : List (Msg S)) : State S := runFrom (init g0) h
def stop {S : Type} (s : State S) : State S := { s with obs := fun i => (s.obs i).close }

/-! ### closed forms used to state the theorems -/

/-- the expressions of the `Update` messages of a history, in order -/
def updates {S : Type} : List (Msg S) → List (S → Option S)
  | [] => []
  | .update e _ :: r => e :: updates r
  | _ :: r => updates r

/-- database after a sequence of updates applied one at a time (a failing update changes nothing) -/
def dbAfter {S : Type} : S → List (S → Option S) → S
  | g, [] => g
  | g, e :: r => match e g with
    | some v => dbAfter v r
    | none => dbAfter g r

/-- the acknowledgements of a sequence of updates applied one at a time -/
def acks {S : Type} : S → List (S → Option S) → List Bool
  | _, [] => []
  | g, e :: r => match e g with
    | some v => true :: acks v r
    | none => false :: acks g r

/-- the states installed by a history, in order -/
def installed {S : Type} : S → List (Msg S) → List S
  | _, [] => []
  | g, .update e _ :: r => match e g with
    | some v => v :: installed v r
    | none => installed g r
  | g, _ :: r => installed g r

/-- what observer `j` (expression `expr`, remaining script `cb`) is told by the rest `h` of a history
that starts in database state `g`: the value of `expr` on every state installed, in order, until it
fails, is cancelled (`remove j`) or the engine hangs up -/
def expected {S : Type} (j : Nat) (expr : S → Option S) : List Act → S → List (Msg S) → List (Ev S)
  | _, _, [] => []
  | cb, g, .update e _ :: r =>
    match e g with
    | none => expected j expr cb g r
    | some g' =>
      match expr g' with
      | none => [.closed true]
      | some v =>
        match cb.headD .ok with
        | .ok => .val v :: expected j expr cb.tail g' r
        | .err => [.val v, .closed true]
        | .panic => [.val v, .closed true]
        | .reenter => [.val v, .closed false]
  | cb, g, .remove i :: r => if i = j then [.closed false] else expected j expr cb g r
  | _, _, .hangup _ :: _ => [.closed false]
  | cb, g, .add _ _ :: r => expected j expr cb g r

/-- the same, starting with the delivery made at subscription time -/
def expectedFrom {S : Type} (j : Nat) (expr : S → Option S) (cb : List Act) (g : S) (h : List (Msg S)) : List (Ev S) :=
  match expr g with
  | none => [.closed true]
  | some v =>
    match cb.headD .ok with
    | .ok => .val v :: expected j expr cb.tail g h
    | .err => [.val v, .closed true]
    | .panic => [.val v, .closed true]
    | .reenter => [.val v, .closed false]

/-- what observer `j` can see of a history: nothing about the other observers except that they
subscribed (which consumes an id), and nothing about the enumeration orders -/
inductive VMsg (S : Type)
  | add (mine : Option ((S → Option S) × List Act))
  | rm
  | upd (e : S → Option S)
  | hang

/-- `n` = observers subscribed so far -/
def view {S : Type} (j : Nat) : Nat → List (Msg S) → List (VMsg S)
  | _, [] => []
  | n, .add e c :: r => .add (if n + 1 = j then some (e, c) else none) :: view j (n + 1) r
  | n, .remove i :: r => if i = j then .rm :: view j n r else view j n r
  | n, .update e _ :: r => .upd e :: view j n r
  | n, .hangup _ :: r => .hang :: view j n r

end Spec

/-- abstraction: what the specification can see of an engine state -/
def abs {S : Type} (s : Impl.State S) : Spec.State S :=
  { db := s.global,
    count := s.lastID,
    replies := Impl.replies s,
    obs := fun i =>
      match Impl.mapGet s.watchers i with
      | some w => .live w.expr w.cb (Impl.log s i)
      | none => if 1 ≤ i ∧ i ≤ s.lastID then .dead (Impl.log s i) else .fresh }

/-! ## Concrete instance used by the correspondence run: `$` is `{}` (initially) or a natural number -/

inductive St
  | none
  | num (n : Nat)
  deriving DecidableEq, Repr, Inhabited

def St.canon : St → String
  | .none => "{}"
  | .num n => toString n

/-- the arr.ai expressions the generator uses -/
inductive CExpr
  | lit (n : Nat)     -- `n`
  | cur               -- `$`
  | plus (k : Nat)    -- `$ + k`        (fails on `{}`)
  | dbl               -- `$ * 2`        (fails on `{}`)
  | evenOnly          -- `[$]($ % 2)`   (fails on an odd number and on `{}`)
  | oddOnly           -- `[$](($ + 1) % 2)`
  | fail              -- `1(2)`         (always fails)
  deriving DecidableEq, Repr, Inhabited

def CExpr.eval : CExpr → St → Option St
  | .lit n, _ => some (.num n)
  | .cur, s => some s
  | .plus k, .num n => some (.num (n + k))
  | .plus _, .none => Option.none
  | .dbl, .num n => some (.num (2 * n))
  | .dbl, .none => Option.none
  | .evenOnly, .num n => if n % 2 = 0 then some (.num n) else Option.none
  | .evenOnly, .none => Option.none
  | .oddOnly, .num n => if n % 2 = 1 then some (.num n) else Option.none
  | .oddOnly, .none => Option.none
  | .fail, _ => Option.none

def CExpr.src : CExpr → String
  | .lit n => toString n
  | .cur => "$"
  | .plus k => s!"$ + {k}"
  | .dbl => "$ * 2"
  | .evenOnly => "[$]($ % 2)"
  | .oddOnly => "[$](($ + 1) % 2)"
  | .fail => "1(2)"

end Arrai.C17
