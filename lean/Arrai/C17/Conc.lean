/-
  C17 — concurrent clients.  The theorems of Proofs/C17.lean quantify over histories (lists of
  messages accepted by the engine loop).  This file defines the concurrent system those histories come
  from and proves that every execution of it — any number of clients, each running its own sequence
  of API calls, under any schedule — is `Impl.run` of one history, which is an interleaving of the
  clients' call sequences in program order, and that everything a client gets back (the results of its
  `Update` calls, the observations it holds) is a function of that history alone.

  What is assumed about Go (not proved here): the engine's channels are unbuffered, so a call takes
  effect at a rendezvous — the loop, at its `select`, accepts the message of exactly one of the callers
  blocked in a send (`accept c`; Go chooses arbitrarily among them, here the schedule chooses) — and the
  loop is a single goroutine, so the `select` arm that handles the message (including the reply
  `req.failed <- err`, which the caller of `Update` is waiting for) runs to completion before the next
  message is accepted.  Callers blocked at the same time are the real concurrency: `call c` puts client
  `c` into its send; any number of clients may be blocked when the loop comes back to the `select`.
  `Observe` draws its id from an atomic counter before the send, the model numbers observations at the
  acceptance; ids are only keys (clients name observations by handle: whose, which), so the numbering
  is immaterial.
-/
import Arrai.C17.Lemmas

namespace Arrai.C17.Conc
variable {S : Type}

/-- one API call of a client program -/
inductive COp (S : Type)
  | update (e : S → Option S) (ord : List Nat)   -- Update(e)   (`ord`: the runtime's enumeration order, any)
  | observe (e : S → Option S) (cb : List Act)   -- Observe(e, onupdate, onclose)
  | cancel (owner k : Nat)                       -- call the cancel function of the k-th observation made by client `owner`
  | hangup (ord : List Nat)                      -- Hangup()

structure Client (S : Type) where
  todo : List (COp S)          -- calls not yet made
  pending : Option (Msg S)     -- the call in flight: blocked in its send on the engine's channel
  handles : List Nat           -- the observations it has made so far (engine ids), in order
  replies : List Bool          -- the results of its Update calls so far, in order
  sent : List (Msg S)          -- its messages accepted so far, in order (ghost)

structure Config (S : Type) where
  eng : Impl.State S
  client : Nat → Client S
  hist : List (Nat × Msg S)    -- (client, message) in acceptance order (ghost)

inductive Event
  | call (c : Nat)      -- client c makes its next call and blocks in the send
  | accept (c : Nat)    -- the loop, at its select, receives the message of the blocked client c and runs the arm

def toMsg (cfg : Config S) : COp S → Msg S
  | .update e ord => .update e ord
  | .observe e cb => .add e cb
  | .cancel o k => .remove (((cfg.client o).handles[k]?).getD 0)   -- no such handle (yet): an id nobody has
  | .hangup ord => .hangup ord

def setClient (cfg : Config S) (c : Nat) (cl : Client S) : Nat → Client S :=
  fun i => if i = c then cl else cfg.client i

/-- the reply the loop emitted while handling the message, if any -/
def newReply (before after : Impl.State S) : Option Bool :=
  ((Impl.replies after).drop (Impl.replies before).length).head?

/-- what the call returns to the client -/
def returned (before after : Impl.State S) (cl : Client S) : Msg S → Client S
  | .add _ _ => { cl with handles := cl.handles ++ [after.lastID] }     -- Observe returns the cancel function
  | .update _ _ =>
    match newReply before after with                                    -- `return <-failed`
    | some b => { cl with replies := cl.replies ++ [b] }
    | none => cl
  | _ => cl

def step (cfg : Config S) : Event → Config S
  | .call c =>
    match (cfg.client c).pending, (cfg.client c).todo with
    | none, op :: rest =>
      { cfg with client := setClient cfg c { cfg.client c with todo := rest, pending := some (toMsg cfg op) } }
    | _, _ => cfg
  | .accept c =>
    match cfg.eng.status, (cfg.client c).pending with
    | .running, some m =>
      { eng := Impl.step cfg.eng m,
        client := setClient cfg c
          (returned cfg.eng (Impl.step cfg.eng m)
            { cfg.client c with pending := none, sent := (cfg.client c).sent ++ [m] } m),
        hist := cfg.hist ++ [(c, m)] }
    | _, _ => cfg

def start (g0 : S) (progs : Nat → List (COp S)) : Config S :=
  { eng := Impl.init g0, client := fun c => ⟨progs c, none, [], [], []⟩, hist := [] }

def runFrom (cfg : Config S) (evs : List Event) : Config S := evs.foldl step cfg
def run (g0 : S) (progs : Nat → List (COp S)) (evs : List Event) : Config S := runFrom (start g0 progs) evs

/-- the history of an execution -/
def history (cfg : Config S) : List (Msg S) := cfg.hist.map (·.2)

/-- `h` is an interleaving of the lists `f 0, f 1, …`: it is built by appending, one at a time, an
element to `h` and to one of the lists -/
inductive Merge {α : Type} : (Nat → List α) → List α → Prop
  | nil : Merge (fun _ => []) []
  | snoc {f : Nat → List α} {h : List α} (c : Nat) (x : α) :
      Merge f h → Merge (fun i => if i = c then f i ++ [x] else f i) (h ++ [x])

/-- a call or message without the ids it mentions -/
inductive Shape (S : Type)
  | update (e : S → Option S) (ord : List Nat)
  | observe (e : S → Option S) (cb : List Act)
  | cancel
  | hangup (ord : List Nat)

def COp.shape : COp S → Shape S
  | .update e o => .update e o
  | .observe e c => .observe e c
  | .cancel _ _ => .cancel
  | .hangup o => .hangup o

def Msg.shape : Msg S → Shape S
  | .update e o => .update e o
  | .add e c => .observe e c
  | .remove _ => .cancel
  | .hangup o => .hangup o

/-- replies of client `c`, computed from the history alone: walk it with the database value -/
def replyAcc (c : Nat) (x : S × List Bool) (p : Nat × Msg S) : S × List Bool :=
  match p.2 with
  | .update e _ => ((e x.1).getD x.1, if p.1 = c then x.2 ++ [(e x.1).isSome] else x.2)
  | _ => x

def clientReplies (c : Nat) (g0 : S) (hist : List (Nat × Msg S)) : List Bool := (hist.foldl (replyAcc c) (g0, [])).2

/-- observations of client `c`, computed from the history alone: the n-th accepted `Observe` is observation n -/
def handleAcc (c : Nat) (x : Nat × List Nat) (p : Nat × Msg S) : Nat × List Nat :=
  match p.2 with
  | .add _ _ => (x.1 + 1, if p.1 = c then x.2 ++ [x.1 + 1] else x.2)
  | _ => x

def clientHandles (c : Nat) (hist : List (Nat × Msg S)) : List Nat := (hist.foldl (handleAcc c) (0, [])).2

/-! ## lemmas -/

theorem toMsg_shape (cfg : Config S) (op : COp S) : Msg.shape (toMsg cfg op) = op.shape := by
  cases op <;> rfl

theorem returned_sent (b a : Impl.State S) (cl : Client S) (m : Msg S) : (returned b a cl m).sent = cl.sent := by
  cases m with
  | add e c => rfl
  | remove i => rfl
  | hangup o => rfl
  | update e o => simp only [returned]; cases newReply b a <;> rfl

theorem returned_todo (b a : Impl.State S) (cl : Client S) (m : Msg S) : (returned b a cl m).todo = cl.todo := by
  cases m with
  | add e c => rfl
  | remove i => rfl
  | hangup o => rfl
  | update e o => simp only [returned]; cases newReply b a <;> rfl

theorem returned_pending (b a : Impl.State S) (cl : Client S) (m : Msg S) : (returned b a cl m).pending = cl.pending := by
  cases m with
  | add e c => rfl
  | remove i => rfl
  | hangup o => rfl
  | update e o => simp only [returned]; cases newReply b a <;> rfl

/-- the engine's part of one rendezvous -/
theorem step_global (s : Impl.State S) (m : Msg S) (hr : s.status = .running) :
    (Impl.step s m).global = match m with
      | .update e _ => (e s.global).getD s.global
      | _ => s.global := by
  cases m with
  | add e c => simp [Impl.step, hr]
  | remove i => simp only [Impl.step, hr]; cases Impl.mapGet s.watchers i <;> rfl
  | hangup o => simp [Impl.step, hr]
  | update e o => simp only [Impl.step, hr]; cases e s.global <;> rfl

theorem step_lastID (s : Impl.State S) (m : Msg S) (hr : s.status = .running) :
    (Impl.step s m).lastID = match m with
      | .add _ _ => s.lastID + 1
      | _ => s.lastID := by
  cases m with
  | add e c => simp [Impl.step, hr]
  | remove i => simp only [Impl.step, hr]; cases Impl.mapGet s.watchers i <;> rfl
  | hangup o => simp [Impl.step, hr]
  | update e o => simp only [Impl.step, hr]; cases e s.global <;> rfl

theorem newReply_update (s : Impl.State S) (e : S → Option S) (o : List Nat) (hr : s.status = .running) :
    newReply s (Impl.step s (.update e o)) = some (e s.global).isSome := by
  obtain ⟨evs, h1, h2⟩ := Impl.step_update_answered s e o hr
  simp only [newReply, Impl.replies, h1, List.filterMap_append, List.filterMap_cons, Impl.replyOf, h2]
  simp

/-- everything the theorems below need, as one invariant of executions -/
structure Inv (g0 : S) (progs : Nat → List (COp S)) (cfg : Config S) : Prop where
  eng : cfg.eng = Impl.run g0 (history cfg)
  merge : Merge (fun c => (cfg.client c).sent) (history cfg)
  order : ∀ c, (cfg.client c).sent.map Msg.shape ++ ((cfg.client c).pending.toList.map Msg.shape
            ++ (cfg.client c).todo.map COp.shape) = (progs c).map COp.shape
  replies : ∀ c, cfg.hist.foldl (replyAcc c) (g0, []) = (cfg.eng.global, (cfg.client c).replies)
  handles : ∀ c, cfg.hist.foldl (handleAcc c) (0, []) = (cfg.eng.lastID, (cfg.client c).handles)

theorem inv_start (g0 : S) (progs : Nat → List (COp S)) : Inv g0 progs (start g0 progs) :=
  ⟨rfl, Merge.nil, fun _ => by simp [start], fun _ => rfl, fun _ => rfl⟩

theorem inv_step (g0 : S) (progs : Nat → List (COp S)) (cfg : Config S) (ev : Event) (hI : Inv g0 progs cfg) :
    Inv g0 progs (step cfg ev) := by
  cases ev with
  | call c =>
    simp only [step]
    cases hp : (cfg.client c).pending with
    | some m => exact hI
    | none =>
      cases ht : (cfg.client c).todo with
      | nil => exact hI
      | cons op rest =>
        simp only
        have hs : ∀ i, (setClient cfg c { cfg.client c with todo := rest, pending := some (toMsg cfg op) } i).sent
            = (cfg.client i).sent := by
          intro i; by_cases hi : i = c <;> simp [setClient, hi]
        have hr : ∀ i, (setClient cfg c { cfg.client c with todo := rest, pending := some (toMsg cfg op) } i).replies
            = (cfg.client i).replies := by
          intro i; by_cases hi : i = c <;> simp [setClient, hi]
        have hh : ∀ i, (setClient cfg c { cfg.client c with todo := rest, pending := some (toMsg cfg op) } i).handles
            = (cfg.client i).handles := by
          intro i; by_cases hi : i = c <;> simp [setClient, hi]
        refine ⟨hI.eng, ?_, ?_, ?_, ?_⟩
        · have : (fun i => (setClient cfg c { cfg.client c with todo := rest, pending := some (toMsg cfg op) } i).sent)
              = fun i => (cfg.client i).sent := funext hs
          show Merge (fun i => (setClient cfg c _ i).sent) (history cfg)
          rw [this]; exact hI.merge
        · intro i
          by_cases hi : i = c
          · subst hi
            have := hI.order i
            rw [hp, ht] at this
            simp only [setClient, ↓reduceIte, Option.toList, List.map_cons, List.map_nil, toMsg_shape]
            simpa using this
          · simp only [setClient, hi, ↓reduceIte]; exact hI.order i
        · intro i; show _ = (cfg.eng.global, (setClient cfg c _ i).replies); rw [hr]; exact hI.replies i
        · intro i; show _ = (cfg.eng.lastID, (setClient cfg c _ i).handles); rw [hh]; exact hI.handles i
  | accept c =>
    simp only [step]
    cases hst : cfg.eng.status with
    | wedged => exact hI
    | crashed => exact hI
    | running =>
      cases hp : (cfg.client c).pending with
      | none => exact hI
      | some m =>
        simp only
        have hhist : history ⟨Impl.step cfg.eng m, setClient cfg c
              (returned cfg.eng (Impl.step cfg.eng m) { cfg.client c with pending := none, sent := (cfg.client c).sent ++ [m] } m),
              cfg.hist ++ [(c, m)]⟩ = history cfg ++ [m] := by
          simp [history]
        refine ⟨?_, ?_, ?_, ?_, ?_⟩
        · rw [hhist]
          show Impl.step cfg.eng m = Impl.run g0 (history cfg ++ [m])
          rw [Impl.run, Impl.runFrom_append, ← Impl.run, ← hI.eng]; rfl
        · rw [hhist]
          have : (fun i => (setClient cfg c (returned cfg.eng (Impl.step cfg.eng m)
                { cfg.client c with pending := none, sent := (cfg.client c).sent ++ [m] } m) i).sent)
              = fun i => if i = c then (cfg.client i).sent ++ [m] else (cfg.client i).sent := by
            funext i
            by_cases hi : i = c
            · subst hi; simp [setClient, returned_sent]
            · simp [setClient, hi]
          show Merge (fun i => (setClient cfg c _ i).sent) (history cfg ++ [m])
          rw [this]
          exact Merge.snoc c m hI.merge
        · intro i
          by_cases hi : i = c
          · subst hi
            have := hI.order i
            rw [hp] at this
            simp only [setClient, ↓reduceIte, returned_sent, returned_pending, returned_todo, Option.toList,
              List.map_append, List.map_cons, List.map_nil, List.nil_append]
            simpa using this
          · simp only [setClient, hi, ↓reduceIte]; exact hI.order i
        · intro i
          show (cfg.hist ++ [(c, m)]).foldl (replyAcc i) (g0, []) = _
          rw [List.foldl_append, hI.replies i]
          simp only [List.foldl_cons, List.foldl_nil, replyAcc]
          rw [step_global cfg.eng m hst]
          cases m with
          | add e cb => by_cases hi : i = c <;> simp [setClient, hi, returned]
          | remove j => by_cases hi : i = c <;> simp [setClient, hi, returned]
          | hangup o => by_cases hi : i = c <;> simp [setClient, hi, returned]
          | update e o =>
            by_cases hi : i = c
            · subst hi
              simp only [setClient, ↓reduceIte, returned, newReply_update cfg.eng e o hst]
            · have : ¬ c = i := fun h => hi h.symm
              simp [setClient, hi, this]
        · intro i
          show (cfg.hist ++ [(c, m)]).foldl (handleAcc i) (0, []) = _
          rw [List.foldl_append, hI.handles i]
          simp only [List.foldl_cons, List.foldl_nil, handleAcc]
          rw [step_lastID cfg.eng m hst]
          cases m with
          | add e cb =>
            by_cases hi : i = c
            · subst hi
              simp only [setClient, ↓reduceIte, returned, step_lastID cfg.eng (.add e cb) hst]
            · have : ¬ c = i := fun h => hi h.symm
              simp [setClient, hi, this]
          | remove j => by_cases hi : i = c <;> simp [setClient, hi, returned]
          | hangup o => by_cases hi : i = c <;> simp [setClient, hi, returned]
          | update e o =>
            by_cases hi : i = c
            · subst hi
              simp only [setClient, ↓reduceIte, returned]
              cases newReply cfg.eng (Impl.step cfg.eng (.update e o)) <;> rfl
            · simp [setClient, hi]

theorem inv_runFrom (g0 : S) (progs : Nat → List (COp S)) : ∀ (evs : List Event) (cfg : Config S),
    Inv g0 progs cfg → Inv g0 progs (runFrom cfg evs)
  | [], _, h => h
  | ev :: r, cfg, h => inv_runFrom g0 progs r (step cfg ev) (inv_step g0 progs cfg ev h)

theorem inv_run (g0 : S) (progs : Nat → List (COp S)) (evs : List Event) : Inv g0 progs (run g0 progs evs) :=
  inv_runFrom g0 progs evs _ (inv_start g0 progs)

end Arrai.C17.Conc
