/-
  C07 — from canonical forms to printed text, for programs: every value an admissible program computes is well named
  (`nodupNames`: the set builder, the element functions, `orderby`, `rank` never produce a tuple or a heading with a
  repeated attribute name), hence (`Full.repr_congr`) the text printed for it is the same under every enumeration order.
-/
import Arrai.C07.Repr2
import Arrai.C07.FinalThm

namespace Arrai.C07
open Arrai.C06 Std
open C06.Impl (Bucket bucketOf finishBucket build)

theorem tupleNodup_of_nn {x : Rep} (h : nodupNames x = true) : tupleNodup x := by
  cases x with
  | gtuple as =>
    rw [nn_gtuple, Bool.and_eq_true] at h
    simpa [tupleNodup] using h.1
  | _ => trivial

theorem nn_members {a : Rep} (h : nodupNames a = true) : ∀ v ∈ members a, nodupNames v = true := by
  intro v hv
  cases a with
  | union bs =>
    simp only [members, List.mem_flatMap] at hv
    obtain ⟨b, hb, hvb⟩ := hv
    rw [nn_union] at h
    exact (Full.members1_sub b (List.all_eq_true.1 h b hb) v hvb).1
  | _ => exact (Full.members1_sub _ h v hv).1

theorem nn_lookupAttr (n : String) (as : List (String × Rep)) (h : ∀ p ∈ as, nodupNames p.2 = true) :
    nodupNames (C06.Impl.lookupAttr n as) = true := by
  rcases Full.lookupAttr_mem n as with h0 | ⟨p, hp, h0⟩
  · rw [h0]; rfl
  · rw [h0]; exact h p hp

/-! ### the set builder -/
theorem mem_itemsOf : ∀ (vs : List Rep) (t : Int × Option Rep), t ∈ C06.Impl.itemsOf vs →
    ∃ i x, t = (i, some x) ∧ Rep.itemT i x ∈ vs
  | [], t, h => by simp [C06.Impl.itemsOf] at h
  | v :: vs, t, h => by
    cases v with
    | itemT i x =>
      simp only [C06.Impl.itemsOf, List.mem_cons] at h
      rcases h with rfl | h
      · exact ⟨i, x, rfl, by simp⟩
      · obtain ⟨i', x', e, m⟩ := mem_itemsOf vs t h
        exact ⟨i', x', e, List.mem_cons_of_mem _ m⟩
    | _ =>
      simp only [C06.Impl.itemsOf] at h
      obtain ⟨i', x', e, m⟩ := mem_itemsOf vs t h
      exact ⟨i', x', e, List.mem_cons_of_mem _ m⟩

def NNd (m : List (List Rep)) : Prop := ∀ e ∈ m, ∀ x ∈ e, nodupNames x = true

theorem nn_dictPut (k v : Rep) (hk : nodupNames k = true) (hv : nodupNames v = true) :
    ∀ (m : List (List Rep)), NNd m → NNd (C06.Impl.dictPut k v m)
  | [], _ => by
    intro e he x hx
    simp only [C06.Impl.dictPut, List.mem_singleton] at he
    subst he
    simp only [List.mem_cons, List.not_mem_nil, or_false] at hx
    rcases hx with rfl | rfl <;> assumption
  | [] :: r, h => by
    simp only [C06.Impl.dictPut]
    exact nn_dictPut k v hk hv r (fun e he => h e (List.mem_cons_of_mem _ he))
  | (k' :: vs) :: r, h => by
    simp only [C06.Impl.dictPut]
    split
    · split
      · exact h
      · intro e he x hx
        rcases List.mem_cons.1 he with rfl | he
        · rcases List.mem_cons.1 hx with rfl | hx
          · exact h (x :: vs) (by simp) x (by simp)
          · rcases List.mem_append.1 hx with hx | hx
            · exact h (k' :: vs) (by simp) x (List.mem_cons_of_mem _ hx)
            · simp at hx; rw [hx]; exact hv
        · exact h e (List.mem_cons_of_mem _ he) x hx
    · intro e he x hx
      rcases List.mem_cons.1 he with rfl | he
      · exact h _ (by simp) x hx
      · exact nn_dictPut k v hk hv r (fun e he => h e (List.mem_cons_of_mem _ he)) e he x hx

theorem nn_entriesOf : ∀ (vs : List Rep) (acc : List (List Rep)), (∀ v ∈ vs, nodupNames v = true) → NNd acc →
    NNd (C06.Impl.entriesOf vs acc)
  | [], acc, _, h => h
  | v :: vs, acc, hv, h => by
    have hvs : ∀ w ∈ vs, nodupNames w = true := fun w hw => hv w (List.mem_cons_of_mem _ hw)
    cases v with
    | entryT k x =>
      have := hv (.entryT k x) (by simp)
      rw [nn_entryT, Bool.and_eq_true] at this
      simp only [C06.Impl.entriesOf]
      exact nn_entriesOf vs _ hvs (nn_dictPut k x this.1 this.2 acc h)
    | _ => simp only [C06.Impl.entriesOf]; exact nn_entriesOf vs acc hvs h

theorem mem_dedupRows : ∀ (xs acc : List (List Rep)) (x : List Rep), x ∈ C06.Impl.dedupRows acc xs → x ∈ acc ∨ x ∈ xs
  | [], acc, x, h => by simp [C06.Impl.dedupRows] at h; exact Or.inl h
  | a :: xs, acc, x, h => by
    simp only [C06.Impl.dedupRows] at h
    split at h
    · rcases mem_dedupRows xs acc x h with h | h
      · exact Or.inl h
      · exact Or.inr (List.mem_cons_of_mem _ h)
    · rcases mem_dedupRows xs (a :: acc) x h with h | h
      · rcases List.mem_cons.1 h with rfl | h
        · exact Or.inr (by simp)
        · exact Or.inl h
      · exact Or.inr (List.mem_cons_of_mem _ h)

theorem nn_finish (b : Bucket) (vs : List Rep) (hvs : ∀ x ∈ vs, nodupNames x = true)
    (hb : ∀ ns, b = .heading ns → ns.Nodup) : nodupNames (finishBucket (b, vs)) = true := by
  cases b with
  | generic =>
    simp only [finishBucket]
    rcases hD : C06.Impl.dedupR [] vs with _ | ⟨y, _ | ⟨z, r⟩⟩
    · rfl
    · dsimp only
      have hy : y ∈ vs := by
        have := mem_dedupR vs [] y (by rw [hD]; simp)
        simpa using this
      split
      · rfl
      · rw [nn_generic]; simp [hvs y hy]
    · dsimp only
      rw [nn_generic, List.all_eq_true]
      intro v hv
      have : v ∈ C06.Impl.dedupR [] vs := by rw [hD]; exact hv
      have := mem_dedupR vs [] v this
      exact hvs v (by simpa using this)
  | chars => rfl
  | bytes => rfl
  | items =>
    simp only [finishBucket]
    rw [nn_array, List.all_eq_true]
    intro o ho
    simp only [C06.Impl.fillSlots, List.mem_map] at ho
    obtain ⟨k, _, rfl⟩ := ho
    split
    · rename_i t ht
      have hmem := List.mem_of_find?_eq_some ht
      rw [List.mem_reverse] at hmem
      obtain ⟨i, x, rfl, hx⟩ := mem_itemsOf vs t hmem
      have := hvs _ hx
      rw [nn_itemT] at this
      simpa using this
    · rfl
  | entries =>
    simp only [finishBucket]
    rw [nn_dict, List.all_eq_true]
    intro e he
    rw [List.all_eq_true]
    exact nn_entriesOf vs [] hvs (fun e he => by cases he) e he
  | heading ns =>
    simp only [finishBucket]
    rw [nn_relation, Bool.and_eq_true]
    refine ⟨by simpa using hb ns rfl, ?_⟩
    rw [List.all_eq_true]
    intro row hrow
    rw [List.all_eq_true]
    intro x hx
    have := mem_dedupRows _ [] row hrow
    simp only [List.not_mem_nil, false_or, List.mem_map] at this
    obtain ⟨v, hv, rfl⟩ := this
    have hnv := hvs v hv
    cases v with
    | gtuple as =>
      simp only [C06.Impl.rowOf, List.mem_map] at hx
      obtain ⟨n, _, rfl⟩ := hx
      rw [nn_gtuple, Bool.and_eq_true] at hnv
      exact nn_lookupAttr n as (List.all_eq_true.1 hnv.2)
    | _ => simp [C06.Impl.rowOf] at hx

theorem nn_build (xs : List Rep) (hxs : ∀ x ∈ xs, nodupNames x = true) : nodupNames (build xs) = true := by
  have hgrp : ∀ g ∈ groups xs, nodupNames (finishBucket g) = true := by
    intro g hg
    have hc := (groups_inv xs).content g hg
    have : g = (g.1, xs.filter (inB g.1)) := by rw [← hc]
    rw [this]
    apply nn_finish
    · intro x hx; exact hxs x (List.mem_filter.1 hx).1
    · intro ns hns
      exact heading_nodup_of_mem (fun x hx => tupleNodup_of_nn (hxs x hx))
        ((mem_groups_keys xs _).1 (hns ▸ List.mem_map.2 ⟨g, hg, rfl⟩))
  unfold build
  show nodupNames (match groups xs with
    | [] => Rep.empty
    | [g] => finishBucket g
    | gs => Rep.union (gs.map finishBucket)) = true
  rcases hgs : groups xs with _ | ⟨a, _ | ⟨b, r⟩⟩
  · rfl
  · exact hgrp a (by rw [hgs]; simp)
  · dsimp only
    rw [nn_union, List.all_eq_true]
    intro v hv
    obtain ⟨g, hg, rfl⟩ := List.mem_map.1 hv
    exact hgrp g (by rw [hgs]; exact hg)

/-! ### element functions, `orderby`, `rank` -/
theorem Fn.nn_apply (f : Fn) (hf : f.ok = true) (x : Rep) (hx : nodupNames x = true) : nodupNames (f.apply x) = true := by
  cases f <;> simp [Fn.ok] at hf
  · exact hx
  · simp [Fn.apply, C06.Impl.newTuple, nn_gtuple, hx]
  · simp [Fn.apply, C06.Impl.mkArray, C06.Impl.dropNones, nn_array, hx]
  · simp [Fn.apply, C06.Impl.newTuple, nn_gtuple, hx]; rfl
  · rfl

theorem nn_mkArray_somes (l : List Rep) (h : ∀ x ∈ l, nodupNames x = true) :
    nodupNames (C06.Impl.mkArray 0 (l.map some)) = true := by
  rw [mkArray_somes]
  split
  · rfl
  · rw [nn_array, List.all_eq_true]
    intro o ho
    obtain ⟨x, hx, rfl⟩ := List.mem_map.1 ho
    simpa using h x hx

theorem nn_rankRow (attrs : List (String × String)) (hattrs : (attrs.map (·.1)).Nodup) (rows : List Rep) (row : Rep)
    (h : nodupNames row = true) : nodupNames (Impl.rankRow attrs rows row) = true := by
  cases row with
  | gtuple as =>
    rw [nn_gtuple, Bool.and_eq_true] at h
    simp only [Impl.rankRow, Impl.withAttrs]
    rw [nn_gtuple, Bool.and_eq_true]
    refine ⟨?_, ?_⟩
    · have := filter_names_nodup as (attrs.map (fun p => (p.1, Rep.num ((rows.filter (fun y =>
        C06.Impl.less (Impl.attrOfR p.2 y) (Impl.attrOfR p.2 (.gtuple as)))).length : Int))))
        (by simpa using h.1) (by rw [List.map_map]; exact hattrs)
      simpa using this
    · rw [List.all_eq_true]
      intro p hp
      rcases List.mem_append.1 hp with hp | hp
      · exact List.all_eq_true.1 h.2 p (List.mem_filter.1 hp).1
      · obtain ⟨q, _, rfl⟩ := List.mem_map.1 hp
        rfl
  | _ => exact h

/-! ### every value of an admissible program over well-named literals is well named -/
def litsNN : Ex → Prop
  | .lit _ r => nodupNames r = true
  | .union a b | .inter a b | .diff a b | .with_ a b | .without a b => litsNN a ∧ litsNN b
  | .map a _ | .filter a _ | .orderby a _ | .count a | .single a | .setpat _ _ a | .rank a _ => litsNN a

theorem nn_eval (π : EnumOrder) (hπ : PermValued π) : ∀ (e : Ex), Adm e → litsNN e → ∀ r, Impl.evalUnder π e = .ok r →
    nodupNames r = true
  | .lit _ r, _, hl, r', he => by
    simp only [Impl.evalUnder, Res.ok.injEq] at he; subst he; exact hl
  | .union a b, hA, hl, r, he => by
    cases ea : Impl.evalUnder π a with
    | err => simp [Impl.evalUnder, ea] at he
    | ok A =>
      cases eb : Impl.evalUnder π b with
      | err => simp [Impl.evalUnder, ea, eb] at he
      | ok B =>
        have hA' := nn_members (nn_eval π hπ a hA.1 hl.1 A ea)
        have hB' := nn_members (nn_eval π hπ b hA.2.1 hl.2 B eb)
        simp only [Impl.evalUnder, ea, eb] at he
        split at he
        · simp only [Res.ok.injEq] at he; subst he
          apply nn_build
          intro x hx
          rcases List.mem_append.1 hx with hx | hx
          · exact hA' x ((hπ _).mem_iff.1 hx)
          · exact hB' x ((hπ _).mem_iff.1 hx)
        · cases he
  | .inter a b, hA, hl, r, he => by
    cases ea : Impl.evalUnder π a with
    | err => simp [Impl.evalUnder, ea] at he
    | ok A =>
      cases eb : Impl.evalUnder π b with
      | err => simp [Impl.evalUnder, ea, eb] at he
      | ok B =>
        have hA' := nn_members (nn_eval π hπ a hA.1 hl.1 A ea)
        simp only [Impl.evalUnder, ea, eb] at he
        split at he
        · simp only [Res.ok.injEq] at he; subst he
          apply nn_build
          intro x hx
          exact hA' x ((hπ _).mem_iff.1 (List.mem_filter.1 hx).1)
        · cases he
  | .diff a b, hA, hl, r, he => by
    cases ea : Impl.evalUnder π a with
    | err => simp [Impl.evalUnder, ea] at he
    | ok A =>
      cases eb : Impl.evalUnder π b with
      | err => simp [Impl.evalUnder, ea, eb] at he
      | ok B =>
        have hA' := nn_members (nn_eval π hπ a hA.1 hl.1 A ea)
        simp only [Impl.evalUnder, ea, eb] at he
        split at he
        · simp only [Res.ok.injEq] at he; subst he
          apply nn_build
          intro x hx
          exact hA' x ((hπ _).mem_iff.1 (List.mem_filter.1 hx).1)
        · cases he
  | .map a f, hA, hl, r, he => by
    cases ea : Impl.evalUnder π a with
    | err => simp [Impl.evalUnder, ea] at he
    | ok A =>
      have hA' := nn_members (nn_eval π hπ a hA.1 hl A ea)
      simp only [Impl.evalUnder, ea] at he
      split at he
      · simp only [Res.ok.injEq] at he; subst he
        apply nn_build
        intro x hx
        obtain ⟨y, hy, rfl⟩ := List.mem_map.1 hx
        exact Fn.nn_apply f hA.2.1 y (hA' y ((hπ _).mem_iff.1 hy))
      · cases he
  | .filter a p, hA, hl, r, he => by
    cases ea : Impl.evalUnder π a with
    | err => simp [Impl.evalUnder, ea] at he
    | ok A =>
      have hA' := nn_members (nn_eval π hπ a hA.1 hl A ea)
      simp only [Impl.evalUnder, ea] at he
      split at he
      · simp only [Res.ok.injEq] at he; subst he
        apply nn_build
        intro x hx
        exact hA' x ((hπ _).mem_iff.1 (List.mem_filter.1 hx).1)
      · cases he
  | .orderby a f, hA, hl, r, he => by
    cases ea : Impl.evalUnder π a with
    | err => simp [Impl.evalUnder, ea] at he
    | ok A =>
      have hA' := nn_members (nn_eval π hπ a hA.1 hl A ea)
      simp only [Impl.evalUnder, ea] at he
      split at he
      · simp only [Res.ok.injEq] at he; subst he
        apply nn_mkArray_somes
        intro x hx
        exact hA' x ((hπ _).mem_iff.1 ((orderBy_perm _ _).mem_iff.1 hx))
      · cases he
  | .with_ a e, hA, hl, r, he => by
    cases ea : Impl.evalUnder π a with
    | err => simp [Impl.evalUnder, ea] at he
    | ok A =>
      cases ex : Impl.evalUnder π e with
      | err => simp [Impl.evalUnder, ea, ex] at he
      | ok X =>
        have hA' := nn_members (nn_eval π hπ a hA.1 hl.1 A ea)
        have hX := nn_eval π hπ e hA.2.1 hl.2 X ex
        simp only [Impl.evalUnder, ea, ex] at he
        split at he
        · simp only [Res.ok.injEq] at he; subst he
          apply nn_build
          intro x hx
          rcases List.mem_append.1 hx with hx | hx
          · exact hA' x ((hπ _).mem_iff.1 hx)
          · simp at hx; rw [hx]; exact hX
        · cases he
  | .without a e, hA, hl, r, he => by
    cases ea : Impl.evalUnder π a with
    | err => simp [Impl.evalUnder, ea] at he
    | ok A =>
      cases ex : Impl.evalUnder π e with
      | err => simp [Impl.evalUnder, ea, ex] at he
      | ok X =>
        have hA' := nn_members (nn_eval π hπ a hA.1 hl.1 A ea)
        simp only [Impl.evalUnder, ea, ex] at he
        split at he
        · simp only [Res.ok.injEq] at he; subst he
          apply nn_build
          intro x hx
          exact hA' x ((hπ _).mem_iff.1 (List.mem_filter.1 hx).1)
        · cases he
  | .count a, hA, hl, r, he => by
    cases ea : Impl.evalUnder π a with
    | err => simp [Impl.evalUnder, ea] at he
    | ok A =>
      simp only [Impl.evalUnder, ea] at he
      split at he
      · simp only [Res.ok.injEq] at he; subst he; rfl
      · cases he
  | .single a, hA, hl, r, he => by
    cases ea : Impl.evalUnder π a with
    | err => simp [Impl.evalUnder, ea] at he
    | ok A =>
      have hA' := nn_eval π hπ a hA hl A ea
      simp only [Impl.evalUnder, ea, Res.ok.injEq] at he
      subst he
      apply nn_build
      intro x hx
      simp at hx; rw [hx]; exact hA'
  | .setpat lits rest a, hA, hl, r, he => by
    obtain ⟨hr, hA, _⟩ := hA
    subst hr
    cases ea : Impl.evalUnder π a with
    | err => simp [Impl.evalUnder, ea] at he
    | ok A =>
      have hA' := nn_members (nn_eval π hπ a hA hl A ea)
      simp only [Impl.evalUnder, ea] at he
      split at he
      · split at he
        · simp only [if_true, Res.ok.injEq] at he; subst he
          apply nn_build
          intro x hx
          exact hA' x ((hπ _).mem_iff.1 (List.mem_filter.1 hx).1)
        · cases he
      · cases he
  | .rank a attrs, hA, hl, r, he => by
    cases ea : Impl.evalUnder π a with
    | err => simp [Impl.evalUnder, ea] at he
    | ok A =>
      have hA' := nn_members (nn_eval π hπ a hA.1 hl A ea)
      simp only [Impl.evalUnder, ea] at he
      split at he
      · simp only [Res.ok.injEq] at he; subst he
        apply nn_build
        intro x hx
        obtain ⟨y, hy, rfl⟩ := List.mem_map.1 hx
        exact nn_rankRow attrs hA.2 _ y (hA' y ((hπ _).mem_iff.1 hy))
      · cases he

/-- what a run shows of a result: `fu.Repr` and what `OutputValue` writes -/
def printedRes : Res → Option (String × String)
  | .ok r => some (Impl.repr r, Impl.outText r)
  | .err => none

/-- an admissible program over well-named literals prints the same text (or fails alike) under every enumeration order -/
theorem printed_order_independent (e : Ex) (hA : Adm e) (hl : litsNN e) (π₁ π₂ : EnumOrder)
    (h₁ : PermValued π₁) (h₂ : PermValued π₂) :
    printedRes (Impl.evalUnder π₁ e) = printedRes (Impl.evalUnder π₂ e) := by
  have hk := eval_order_independent e hA π₁ π₂ h₁ h₂
  cases e₁ : Impl.evalUnder π₁ e with
  | err =>
    cases e₂ : Impl.evalUnder π₂ e with
    | err => rfl
    | ok r₂ => rw [e₁, e₂] at hk; simp [keyRes] at hk
  | ok r₁ =>
    cases e₂ : Impl.evalUnder π₂ e with
    | err => rw [e₁, e₂] at hk; simp [keyRes] at hk
    | ok r₂ =>
      rw [e₁, e₂] at hk
      simp only [keyRes, Option.some.injEq] at hk
      have n₁ := nn_eval π₁ h₁ e hA hl r₁ e₁
      have n₂ := nn_eval π₂ h₂ e hA hl r₂ e₂
      simp only [printedRes]
      rw [Full.repr_congr r₁ r₂ n₁ n₂ hk, Full.outText_congr r₁ r₂ n₁ n₂ hk]

end Arrai.C07
