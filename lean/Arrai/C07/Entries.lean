/-
  C07 — the dictionary bucket of the set builder (`NewDict(true, entries…)`, `C06.Impl.entriesOf`/`dictPut`) is
  order-independent: the canonical key of the built `Dict` depends only on the set of (key, value) pairs.
-/
import Arrai.C07.Slots

namespace Arrai.C07
open Arrai.C06 Std

/-! ### the key-level mirror of `dictPut` / `entriesOf` -/
def dictPutK (k v : K) : List (List K) → List (List K)
  | [] => [[k, v]]
  | e :: r =>
    match e with
    | k' :: vs => if K.beq k' k then (if vs.any (fun w => K.beq w v) then e :: r else (k' :: (vs ++ [v])) :: r)
                  else e :: dictPutK k v r
    | [] => dictPutK k v r

def entriesK : List (K × K) → List (List K) → List (List K)
  | [], acc => acc
  | (k, v) :: r, acc => entriesK r (dictPutK k v acc)

def entryPairK : K → Option (K × K)
  | .node [.int t, k, v] => if t = kEntryT then some (k, v) else none
  | _ => none

def isEntryT : Rep → Prop | .entryT _ _ => True | _ => False

theorem isEntryT_of_bucket {v : Rep} (h : C06.Impl.bucketOf v = .entries) : isEntryT v := by
  cases v <;> simp [C06.Impl.bucketOf] at h <;> first | trivial | (split at h <;> cases h)

theorem dictPut_key (k v : Rep) : ∀ (m : List (List Rep)),
    (C06.Impl.dictPut k v m).map (List.map key) = dictPutK (key k) (key v) (m.map (List.map key))
  | [] => rfl
  | [] :: r => by simp only [C06.Impl.dictPut, List.map_cons, List.map_nil, dictPutK]; exact dictPut_key k v r
  | (k' :: vs) :: r => by
    have hany : (vs.any fun w => C06.Impl.equal w v) = ((vs.map key).any fun w => K.beq w (key v)) := by
      simp [List.any_map, Function.comp_def, C06.Impl.equal]
    have heq : C06.Impl.equal k' k = K.beq (key k') (key k) := rfl
    simp only [C06.Impl.dictPut, List.map_cons, dictPutK]
    rw [← hany, ← heq]
    by_cases h1 : C06.Impl.equal k' k = true
    · rw [if_pos h1, if_pos h1]
      by_cases h2 : (vs.any fun w => C06.Impl.equal w v) = true
      · rw [if_pos h2, if_pos h2]; rfl
      · rw [if_neg h2, if_neg h2]; simp
    · rw [if_neg h1, if_neg h1]
      simp only [List.map_cons, List.cons.injEq, true_and]
      exact dictPut_key k v r

theorem entriesOf_key : ∀ (vs : List Rep) (acc : List (List Rep)), (∀ v ∈ vs, isEntryT v) →
    (C06.Impl.entriesOf vs acc).map (List.map key) = entriesK ((vs.map key).filterMap entryPairK) (acc.map (List.map key))
  | [], acc, _ => rfl
  | v :: vs, acc, h => by
    have hv := h v (by simp)
    cases v <;> simp [isEntryT] at hv
    rename_i k x
    simp only [C06.Impl.entriesOf, List.map_cons, key_entryT, List.filterMap_cons, entryPairK, if_true, entriesK]
    rw [entriesOf_key vs _ (fun w hw => h w (List.mem_cons_of_mem _ hw)), dictPut_key]

/-! ### what `entriesK` builds -/

/-- entries have distinct heads, and non-empty duplicate-free value lists -/
def WFd (mk : List (List K)) : Prop :=
  (mk.map entryHead).Nodup ∧ ∀ e ∈ mk, e ≠ [] ∧ e.tail ≠ [] ∧ e.tail.Nodup

/-- `mk` holds exactly the pairs `ps` -/
def Holds (mk : List (List K)) (ps : List (K × K)) : Prop :=
  (∀ e ∈ mk, ∀ v ∈ e.tail, (entryHead e, v) ∈ ps) ∧ (∀ p ∈ ps, ∃ e ∈ mk, entryHead e = p.1 ∧ p.2 ∈ e.tail)

theorem any_beq_mem (l : List K) (v : K) : (l.any fun w => K.beq w v) = true ↔ v ∈ l := any_beq_iff l v

theorem dictPutK_spec (k v : K) : ∀ (mk : List (List K)) (ps : List (K × K)), WFd mk → Holds mk ps →
    WFd (dictPutK k v mk) ∧ Holds (dictPutK k v mk) (ps ++ [(k, v)]) ∧
    (∀ h, h ∈ (dictPutK k v mk).map entryHead ↔ h = k ∨ h ∈ mk.map entryHead)
  | [], ps, _, hh => by
    refine ⟨⟨by simp [dictPutK, entryHead], ?_⟩, ⟨?_, ?_⟩, ?_⟩
    · intro e he; simp [dictPutK] at he; subst he; simp
    · intro e he w hw; simp [dictPutK] at he; subst he; simp at hw; subst hw; simp [entryHead]
    · intro p hp
      rcases List.mem_append.1 hp with hp | hp
      · obtain ⟨e, he, _⟩ := hh.2 p hp; cases he
      · simp at hp; subst hp; exact ⟨[k, v], by simp [dictPutK], rfl, by simp⟩
    · intro h; simp [dictPutK, entryHead]
  | [] :: r, ps, hw, _ => by
    exact absurd rfl (hw.2 [] (by simp)).1
  | (k' :: vs) :: r, ps, hw, hh => by
    obtain ⟨hnd, hall⟩ := hw
    rw [List.map_cons, List.nodup_cons] at hnd
    have he0 := hall (k' :: vs) (by simp)
    simp only [List.tail_cons] at he0
    by_cases h1 : K.beq k' k = true
    · have hk : k' = k := (K.beq_iff _ _).1 h1
      subst hk
      by_cases h2 : (vs.any fun w => K.beq w v) = true
      · -- the pair is already there
        have hv : v ∈ vs := (any_beq_mem vs v).1 h2
        simp only [dictPutK, h1, h2, if_true]
        refine ⟨⟨by rw [List.map_cons, List.nodup_cons]; exact hnd, hall⟩, ⟨?_, ?_⟩, ?_⟩
        · intro e he w hw'; exact List.mem_append_left _ (hh.1 e he w hw')
        · intro p hp
          rcases List.mem_append.1 hp with hp | hp
          · exact hh.2 p hp
          · simp at hp; subst hp; exact ⟨k' :: vs, by simp, rfl, by simpa using hv⟩
        · intro h; simp [entryHead]
      · have hv : v ∉ vs := fun hv => h2 ((any_beq_mem vs v).2 hv)
        simp only [dictPutK, h1, h2, if_true, Bool.false_eq_true, if_false]
        refine ⟨⟨?_, ?_⟩, ⟨?_, ?_⟩, ?_⟩
        · rw [List.map_cons, List.nodup_cons]; exact hnd
        · intro e he
          rcases List.mem_cons.1 he with rfl | he
          · refine ⟨by simp, by simp, ?_⟩
            simp only [List.tail_cons]
            exact List.nodup_append.2 ⟨he0.2.2, by simp, by
              intro a ha b hb; simp at hb; subst hb; intro e; subst e; exact hv ha⟩
          · exact hall e (List.mem_cons_of_mem _ he)
        · intro e he w hw'
          rcases List.mem_cons.1 he with rfl | he
          · simp only [List.tail_cons] at hw'
            rcases List.mem_append.1 hw' with hw' | hw'
            · exact List.mem_append_left _ (hh.1 (k' :: vs) (by simp) w (by simpa using hw'))
            · simp at hw'; subst hw'; simp [entryHead]
          · exact List.mem_append_left _ (hh.1 e (List.mem_cons_of_mem _ he) w hw')
        · intro p hp
          rcases List.mem_append.1 hp with hp | hp
          · obtain ⟨e, he, h1', h2'⟩ := hh.2 p hp
            rcases List.mem_cons.1 he with rfl | he
            · exact ⟨k' :: (vs ++ [v]), by simp, h1', by simp only [List.tail_cons] at h2' ⊢; exact List.mem_append_left _ h2'⟩
            · exact ⟨e, List.mem_cons_of_mem _ he, h1', h2'⟩
          · simp at hp; subst hp; exact ⟨k' :: (vs ++ [v]), by simp, rfl, by simp⟩
        · intro h; simp [entryHead]
    · have hne : k' ≠ k := fun e => h1 ((K.beq_iff _ _).2 e)
      simp only [dictPutK, h1, if_false, Bool.false_eq_true]
      have hwr : WFd r := ⟨hnd.2, fun e he => hall e (List.mem_cons_of_mem _ he)⟩
      -- the pairs of the remaining entries
      let psr := ps.filter (fun p => !K.beq p.1 k')
      have hhr : Holds r psr := by
        refine ⟨?_, ?_⟩
        · intro e he w hw'
          refine List.mem_filter.2 ⟨hh.1 e (List.mem_cons_of_mem _ he) w hw', ?_⟩
          have : entryHead e ≠ k' := by
            intro e'; exact hnd.1 (by rw [← e']; exact List.mem_map.2 ⟨e, he, rfl⟩)
          simp [(K.beq_eq_false_iff _ _).2 this]
        · intro p hp
          obtain ⟨hp1, hp2⟩ := List.mem_filter.1 hp
          have hpk : p.1 ≠ k' := (K.beq_eq_false_iff _ _).1 (by simpa using hp2)
          obtain ⟨e, he, h1', h2'⟩ := hh.2 p hp1
          rcases List.mem_cons.1 he with rfl | he
          · exact absurd h1'.symm hpk
          · exact ⟨e, he, h1', h2'⟩
      obtain ⟨w', hh', hm'⟩ := dictPutK_spec k v r psr hwr hhr
      refine ⟨⟨?_, ?_⟩, ⟨?_, ?_⟩, ?_⟩
      · rw [List.map_cons, List.nodup_cons]
        refine ⟨?_, w'.1⟩
        intro hin
        rcases (hm' _).1 hin with e | hin
        · exact hne e
        · exact hnd.1 hin
      · intro e he
        rcases List.mem_cons.1 he with rfl | he
        · exact hall _ (by simp)
        · exact w'.2 e he
      · intro e he w hw'
        rcases List.mem_cons.1 he with rfl | he
        · exact List.mem_append_left _ (hh.1 _ (by simp) w hw')
        · have := hh'.1 e he w hw'
          rcases List.mem_append.1 this with h' | h'
          · exact List.mem_append_left _ (List.mem_filter.1 h').1
          · exact List.mem_append_right _ h'
      · intro p hp
        rcases List.mem_append.1 hp with hp | hp
        · by_cases hpk : p.1 = k'
          · obtain ⟨e, he, h1', h2'⟩ := hh.2 p hp
            rcases List.mem_cons.1 he with rfl | he
            · exact ⟨_, by simp, h1', h2'⟩
            · exact absurd (by rw [← hpk, ← h1']; exact List.mem_map.2 ⟨e, he, rfl⟩) hnd.1
          · have : p ∈ psr := List.mem_filter.2 ⟨hp, by simp [(K.beq_eq_false_iff _ _).2 hpk]⟩
            obtain ⟨e, he, h1', h2'⟩ := hh'.2 p (List.mem_append_left _ this)
            exact ⟨e, List.mem_cons_of_mem _ he, h1', h2'⟩
        · obtain ⟨e, he, h1', h2'⟩ := hh'.2 p (List.mem_append_right _ hp)
          exact ⟨e, List.mem_cons_of_mem _ he, h1', h2'⟩
      · intro h
        simp only [List.map_cons, List.mem_cons, hm' h]
        constructor
        · rintro (h | h | h)
          · exact Or.inr (Or.inl h)
          · exact Or.inl h
          · exact Or.inr (Or.inr h)
        · rintro (h | h | h)
          · exact Or.inr (Or.inl h)
          · exact Or.inl h
          · exact Or.inr (Or.inr h)

theorem entriesK_spec : ∀ (ps : List (K × K)) (acc : List (List K)) (qs : List (K × K)), WFd acc → Holds acc qs →
    WFd (entriesK ps acc) ∧ Holds (entriesK ps acc) (qs ++ ps)
  | [], acc, qs, hw, hh => by simpa [entriesK] using ⟨hw, hh⟩
  | (k, v) :: r, acc, qs, hw, hh => by
    obtain ⟨w', hh', _⟩ := dictPutK_spec k v acc qs hw hh
    have := entriesK_spec r (dictPutK k v acc) (qs ++ [(k, v)]) w' hh'
    simpa [entriesK, List.append_assoc] using this

/-! ### the canonical key of the built dictionary -/
def dictKeyOf (mk : List (List K)) : K :=
  .node (.int kDict :: (isort (fun e f => K.lt (entryHead e) (entryHead f)) mk).map entryKey)

theorem key_dict_eq (m : List (List Rep)) : key (.dict m) = dictKeyOf (m.map (List.map key)) := key_dict m

theorem lt_entryKey {e f : List K} (hne : entryHead e ≠ entryHead f) :
    K.lt (entryHead e) (entryHead f) = K.lt (entryKey e) (entryKey f) := by
  have : K.cmp (entryHead e) (entryHead f) ≠ .eq := fun h => hne ((K.cmp_eq_iff _ _).1 h)
  simp only [entryKey, K.lt, K.cmp, K.cmpList]
  cases hc : K.cmp (entryHead e) (entryHead f) <;> simp_all [Ordering.then]

theorem dictKeyOf_sorted (mk : List (List K)) (h : (mk.map entryHead).Nodup) :
    dictKeyOf mk = .node (.int kDict :: isort K.lt (mk.map entryKey)) := by
  unfold dictKeyOf
  congr 2
  apply map_isort entryKey _ K.lt mk
  intro e he f hf
  by_cases hh : entryHead e = entryHead f
  · have : e = f := eq_of_nodup_map entryHead h e he f hf hh
    subst this
    rw [K.lt_irrefl, K.lt_irrefl]
  · exact lt_entryKey hh

theorem entryKey_match {mk mk' : List (List K)} {ps ps' : List (K × K)}
    (w : WFd mk) (hh : Holds mk ps) (w' : WFd mk') (hh' : Holds mk' ps')
    (h12 : ∀ p, p ∈ ps → p ∈ ps') (h21 : ∀ p, p ∈ ps' → p ∈ ps) :
    ∀ e ∈ mk, ∃ e' ∈ mk', entryKey e = entryKey e' := by
  intro e he
  obtain ⟨_, hne, hnd⟩ := w.2 e he
  obtain ⟨v, hv⟩ := List.exists_mem_of_ne_nil _ hne
  obtain ⟨e', he', hhead, _⟩ := hh'.2 _ (h12 _ (hh.1 e he v hv))
  refine ⟨e', he', ?_⟩
  obtain ⟨_, _, hnd'⟩ := w'.2 e' he'
  have hmem : ∀ x, x ∈ e.tail ↔ x ∈ e'.tail := by
    intro x
    constructor
    · intro hx
      obtain ⟨e'', he'', hd, hx'⟩ := hh'.2 _ (h12 _ (hh.1 e he x hx))
      have : e'' = e' := eq_of_nodup_map entryHead w'.1 e'' he'' e' he' (hd.trans hhead.symm)
      rw [← this]; exact hx'
    · intro hx
      obtain ⟨e'', he'', hd, hx'⟩ := hh.2 _ (h21 _ (hh'.1 e' he' x hx))
      have : e'' = e := eq_of_nodup_map entryHead w.1 e'' he'' e he (hd.trans hhead)
      rw [← this]; exact hx'
  have hperm : e.tail.Perm e'.tail := (List.perm_ext_iff_of_nodup hnd hnd').2 hmem
  simp only [entryKey, hhead]
  exact congrArg (fun l => K.node [entryHead e, K.node l]) (isort_perm_invariant K.cmp hperm)

theorem nodup_of_nodup_map {α β : Type} (f : α → β) : ∀ {l : List α}, (l.map f).Nodup → l.Nodup
  | [], _ => List.nodup_nil
  | x :: xs, h => by
    have h' : f x ∉ xs.map f ∧ (xs.map f).Nodup := by simpa [List.nodup_cons] using h
    exact List.nodup_cons.2 ⟨fun hx => h'.1 (List.mem_map.2 ⟨x, hx, rfl⟩), nodup_of_nodup_map f h'.2⟩

theorem nodup_entryKeys {mk : List (List K)} (h : (mk.map entryHead).Nodup) : (mk.map entryKey).Nodup := by
  have hm : (mk.map entryKey).map (fun k => match k with | .node (x :: _) => x | k => k) = mk.map entryHead := by
    rw [List.map_map]; apply List.map_congr_left; intro e _; rfl
  have h' : ((mk.map entryKey).map (fun k => match k with | .node (x :: _) => x | k => k)).Nodup := hm ▸ h
  exact nodup_of_nodup_map _ h'

theorem entriesK_perm {ps ps' : List (K × K)} (h : ps.Perm ps') :
    dictKeyOf (entriesK ps []) = dictKeyOf (entriesK ps' []) := by
  have w0 : WFd [] := ⟨List.nodup_nil, fun e he => by cases he⟩
  have h0 : Holds [] [] := ⟨fun e he _ _ => (by cases he), fun p hp => (by cases hp)⟩
  obtain ⟨w, hh⟩ := entriesK_spec ps [] [] w0 h0
  obtain ⟨w', hh'⟩ := entriesK_spec ps' [] [] w0 h0
  simp only [List.nil_append] at hh hh'
  rw [dictKeyOf_sorted _ w.1, dictKeyOf_sorted _ w'.1]
  congr 2
  apply isort_perm_invariant K.cmp
  rw [List.perm_ext_iff_of_nodup (nodup_entryKeys w.1) (nodup_entryKeys w'.1)]
  intro k
  constructor
  · intro hk
    obtain ⟨e, he, rfl⟩ := List.mem_map.1 hk
    obtain ⟨e', he', e1⟩ := entryKey_match w hh w' hh' (fun p => h.mem_iff.1) (fun p => h.mem_iff.2) e he
    exact List.mem_map.2 ⟨e', he', e1.symm⟩
  · intro hk
    obtain ⟨e, he, rfl⟩ := List.mem_map.1 hk
    obtain ⟨e', he', e1⟩ := entryKey_match w' hh' w hh (fun p => h.mem_iff.2) (fun p => h.mem_iff.1) e he
    exact List.mem_map.2 ⟨e', he', e1.symm⟩

theorem entries_bucket_order_independent {vs ws : List Rep} (hv : ∀ v ∈ vs, isEntryT v) (hw : ∀ w ∈ ws, isEntryT w)
    (h : KP vs ws) :
    key (C06.Impl.finishBucket (.entries, vs)) = key (C06.Impl.finishBucket (.entries, ws)) := by
  simp only [C06.Impl.finishBucket]
  rw [key_dict_eq, key_dict_eq, entriesOf_key vs [] hv, entriesOf_key ws [] hw]
  exact entriesK_perm (h.filterMap _)

end Arrai.C07
