import Arrai.Core.DriverMain
import Arrai.C07.Gen

def main (args : List String) : IO UInt32 := Arrai.driverMain Arrai.C07.gen args
