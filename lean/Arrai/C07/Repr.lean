/-
  C07 — the printed text is a function of the canonical form: `key a = key b → repr a = repr b`,
  proved for representations built from numbers, tuples (generic, specialised, wrappers), strings, byte
  arrays, arrays and generic sets, nested arbitrarily (`simple`; dictionaries, relations and union sets
  anywhere inside are not covered by this proof — their printing is compared with Go at run time).
-/
import Arrai.C07.Build

namespace Arrai.C07
open Arrai.C06 Std

/-- no `Dict`, `Relation` or `UnionSet` anywhere inside -/
def simpleAlg : RepF Bool → Bool
  | .num _ | .charT _ _ | .byteT _ _ | .empty | .true_ | .str _ _ | .bytes _ _ => true
  | .gtuple as => as.all (·.2)
  | .itemT _ x => x
  | .entryT k v => k && v
  | .generic xs => xs.all id
  | .array vs _ => vs.all (fun o => o.getD true)
  | .dict _ | .relation _ _ | .union _ => false

def simple : Rep → Bool := cata simpleAlg

theorem simple_gtuple (as : List (String × Rep)) : simple (.gtuple as) = as.all (fun p => simple p.2) := by
  simp [simple, cata, simpleAlg, cataA_eq, List.all_map, Function.comp_def]
theorem simple_itemT (i : Int) (x : Rep) : simple (.itemT i x) = simple x := rfl
theorem simple_entryT (k v : Rep) : simple (.entryT k v) = (simple k && simple v) := rfl
theorem simple_generic (xs : List Rep) : simple (.generic xs) = xs.all simple := by
  simp [simple, cata, simpleAlg, cataL_eq, List.all_map, Function.comp_def]
theorem simple_array (vs : List (Option Rep)) (off : Int) :
    simple (.array vs off) = vs.all (fun o => (o.map simple).getD true) := by
  simp [simple, cata, simpleAlg, cataO_eq, List.all_map, Function.comp_def]

/-- lists whose members have pointwise equal keys print alike, given that key-equal members print alike -/
theorem map_congr_of_keys {f : Rep → String} {P : Rep → Prop}
    (hf : ∀ x y, P x → P y → key x = key y → f x = f y) :
    ∀ (l l' : List Rep), (∀ x ∈ l, P x) → (∀ y ∈ l', P y) → l.map key = l'.map key → l.map f = l'.map f
  | [], [], _, _, _ => rfl
  | [], _ :: _, _, _, h => by simp at h
  | _ :: _, [], _, _, h => by simp at h
  | x :: xs, y :: ys, hl, hl', h => by
    simp only [List.map_cons, List.cons.injEq] at h ⊢
    exact ⟨hf x y (hl x (by simp)) (hl' y (by simp)) h.1,
      map_congr_of_keys hf xs ys (fun a ha => hl a (List.mem_cons_of_mem _ ha))
        (fun a ha => hl' a (List.mem_cons_of_mem _ ha)) h.2⟩

theorem map_int_inj {s t : List Int} (h : s.map K.int = t.map K.int) : s = t := by
  induction s generalizing t with
  | nil => cases t <;> simp_all
  | cons a as ih =>
    cases t with
    | nil => simp at h
    | cons b bs =>
      simp only [List.map_cons, List.cons.injEq, K.int.injEq] at h
      rw [h.1, ih h.2]

theorem optKey_inj {a b : Option K} (h : optKey a = optKey b) : a = b := by
  cases a <;> cases b <;> simp [optKey] at h ⊢
  exact h

section Step
variable (n : Nat) (rec : Rep → String)
variable (IH : ∀ x y, depth x < n → depth y < n → simple x = true → simple y = true → key x = key y → rec x = rec y)
include IH

theorem array_items_congr : ∀ (vs ws : List (Option Rep)),
    (∀ x, some x ∈ vs → depth x < n ∧ simple x = true) → (∀ y, some y ∈ ws → depth y < n ∧ simple y = true) →
    vs.map (fun o => optKey (o.map key)) = ws.map (fun o => optKey (o.map key)) →
    vs.map (Impl.optText rec) = ws.map (Impl.optText rec)
  | [], [], _, _, _ => rfl
  | [], _ :: _, _, _, h => by simp at h
  | _ :: _, [], _, _, h => by simp at h
  | v :: vs, w :: ws, hv, hw, h => by
    simp only [List.map_cons, List.cons.injEq] at h ⊢
    refine ⟨?_, array_items_congr vs ws (fun x hx => hv x (List.mem_cons_of_mem _ hx))
      (fun y hy => hw y (List.mem_cons_of_mem _ hy)) h.2⟩
    have hk := optKey_inj h.1
    cases v with
    | none => cases w with
      | none => rfl
      | some y => simp at hk
    | some x => cases w with
      | none => simp at hk
      | some y =>
        simp only [Option.map_some, Option.some.injEq] at hk
        show rec x = rec y
        exact IH x y (hv x (by simp)).1 (hw y (by simp)).1 (hv x (by simp)).2 (hw y (by simp)).2 hk

theorem attrs_congr : ∀ (l l' : List (String × Rep)),
    (∀ p ∈ l, depth p.2 < n ∧ simple p.2 = true) → (∀ q ∈ l', depth q.2 < n ∧ simple q.2 = true) →
    attrsK l = attrsK l' →
    l.map (fun p => Impl.nameRepr p.1 ++ ": " ++ rec p.2) = l'.map (fun p => Impl.nameRepr p.1 ++ ": " ++ rec p.2)
  | [], [], _, _, _ => rfl
  | [], _ :: _, _, _, h => by simp [attrsK] at h
  | _ :: _, [], _, _, h => by simp [attrsK] at h
  | (a, x) :: l, (b, y) :: l', hl, hl', h => by
    simp only [attrsK, List.map_cons, List.flatMap_cons, List.cons_append, List.nil_append, List.cons.injEq,
      K.name.injEq] at h
    obtain ⟨hab, hxy, hrest⟩ := h
    subst hab
    simp only [List.map_cons, List.cons.injEq]
    refine ⟨?_, attrs_congr l l' (fun p hp => hl p (List.mem_cons_of_mem _ hp))
      (fun q hq => hl' q (List.mem_cons_of_mem _ hq)) (by simpa [attrsK] using hrest)⟩
    rw [IH x y (hl (a, x) (by simp)).1 (hl' (a, y) (by simp)).1 (hl (a, x) (by simp)).2 (hl' (a, y) (by simp)).2 hxy]

theorem reprStep_congr (a b : Rep) (ha : depth a ≤ n) (hb : depth b ≤ n) (sa : simple a = true) (sb : simple b = true)
    (hk : key a = key b) : Impl.reprStep rec a = Impl.reprStep rec b := by
  have hkind : kind a = kind b := by rw [← kindOf_key a, ← kindOf_key b, hk]
  have hc := kind_eq_ctor hkind
  cases a with
  | num x =>
    cases b with
    | num y => simp only [key_num, K.node.injEq, List.cons.injEq, K.int.injEq] at hk; rw [hk.2.1]
    | _ => simp [ctorId, Old.ctorId] at hc
  | gtuple as =>
    cases b with
    | gtuple bs =>
      have has : ∀ p ∈ as, depth p.2 < n ∧ simple p.2 = true := fun p hp =>
        ⟨by have := depth_attr_lt hp; omega, by rw [simple_gtuple] at sa; exact List.all_eq_true.1 sa p hp⟩
      have hbs : ∀ p ∈ bs, depth p.2 < n ∧ simple p.2 = true := fun p hp =>
        ⟨by have := depth_attr_lt hp; omega, by rw [simple_gtuple] at sb; exact List.all_eq_true.1 sb p hp⟩
      by_cases hneg : kind (.gtuple as) < 0
      · obtain ⟨x, hx, hxpos, _⟩ := kind_gtuple_neg hneg
        obtain ⟨y, hy, hypos, _⟩ := kind_gtuple_neg (hkind ▸ hneg)
        rw [key_gtuple_neg hx hxpos, key_gtuple_neg hy hypos] at hk
        simp only [K.node.injEq, List.cons.injEq, K.rev.injEq] at hk
        have e1 := negInner_some hx
        have e2 := negInner_some hy
        subst e1 e2
        simp only [Impl.reprStep, isort, insertBy, List.map_cons, List.map_nil]
        have hx' := has (negateTag, x) (by simp)
        have hy' := hbs (negateTag, y) (by simp)
        rw [IH x y hx'.1 hy'.1 hx'.2 hy'.2 hk.2.1]
      · rw [key_gtuple_plain hneg, key_gtuple_plain (hkind ▸ hneg)] at hk
        simp only [K.node.injEq, List.cons.injEq] at hk
        simp only [Impl.reprStep]
        have := attrs_congr n rec IH (isort byName as) (isort byName bs)
          (fun p hp => has p ((mem_isort _ _ p).1 hp)) (fun p hp => hbs p ((mem_isort _ _ p).1 hp)) hk.2
        exact congrArg (fun l => "(" ++ Impl.joinSep l ++ ")") this
    | _ => simp [ctorId, Old.ctorId] at hc
  | charT i c =>
    cases b with
    | charT j d =>
      simp only [key_charT, K.node.injEq, List.cons.injEq, K.int.injEq] at hk
      rw [hk.2.1, hk.2.2.1]
    | _ => simp [ctorId, Old.ctorId] at hc
  | byteT i c =>
    cases b with
    | byteT j d =>
      simp only [key_byteT, K.node.injEq, List.cons.injEq, K.int.injEq] at hk
      rw [hk.2.1, hk.2.2.1]
    | _ => simp [ctorId, Old.ctorId] at hc
  | itemT i x =>
    cases b with
    | itemT j y =>
      simp only [key_itemT, K.node.injEq, List.cons.injEq, K.int.injEq] at hk
      rw [depth_itemT] at ha hb
      simp only [Impl.reprStep]
      rw [hk.2.1, IH x y (by omega) (by omega) sa sb hk.2.2.1]
    | _ => simp [ctorId, Old.ctorId] at hc
  | entryT k v =>
    cases b with
    | entryT k' v' =>
      simp only [key_entryT, K.node.injEq, List.cons.injEq] at hk
      rw [depth_entryT] at ha hb
      rw [simple_entryT, Bool.and_eq_true] at sa sb
      simp only [Impl.reprStep]
      rw [IH k k' (by omega) (by omega) sa.1 sb.1 hk.2.1, IH v v' (by omega) (by omega) sa.2 sb.2 hk.2.2.1]
    | _ => simp [ctorId, Old.ctorId] at hc
  | empty =>
    cases b with
    | empty => rfl
    | _ => simp [ctorId, Old.ctorId] at hc
  | true_ =>
    cases b with
    | true_ => rfl
    | _ => simp [ctorId, Old.ctorId] at hc
  | generic xs =>
    cases b with
    | generic ys =>
      rw [key_generic, key_generic] at hk
      simp only [K.node.injEq, List.cons.injEq] at hk
      have hxs : ∀ x ∈ xs, depth x < n ∧ simple x = true := fun x hx =>
        ⟨by have := depth_mem_generic hx; omega, by rw [simple_generic] at sa; exact List.all_eq_true.1 sa x hx⟩
      have hys : ∀ x ∈ ys, depth x < n ∧ simple x = true := fun x hx =>
        ⟨by have := depth_mem_generic hx; omega, by rw [simple_generic] at sb; exact List.all_eq_true.1 sb x hx⟩
      have hx' : (C06.Impl.orderedValues xs).map key = isort K.lt (xs.map key) :=
        map_isort key _ K.lt xs (fun x _ y _ => less_eq x y)
      have hy' : (C06.Impl.orderedValues ys).map key = isort K.lt (ys.map key) :=
        map_isort key _ K.lt ys (fun x _ y _ => less_eq x y)
      simp only [Impl.reprStep]
      rw [map_congr_of_keys (P := fun x => depth x < n ∧ simple x = true)
        (fun x y px py h => IH x y px.1 py.1 px.2 py.2 h) (C06.Impl.orderedValues xs) (C06.Impl.orderedValues ys)
        (fun x hx => hxs x ((mem_isort _ _ x).1 hx)) (fun y hy => hys y ((mem_isort _ _ y).1 hy))
        (by rw [hx', hy', hk.2])]
    | _ => simp [ctorId, Old.ctorId] at hc
  | str s off =>
    cases b with
    | str t off' =>
      simp only [key_str, K.node.injEq, List.cons.injEq, K.int.injEq] at hk
      rw [hk.2.1, map_int_inj hk.2.2]
    | _ => simp [ctorId, Old.ctorId] at hc
  | bytes s off =>
    cases b with
    | bytes t off' =>
      simp only [key_bytes, K.node.injEq, List.cons.injEq, K.int.injEq] at hk
      rw [hk.2.1, map_int_inj hk.2.2]
    | _ => simp [ctorId, Old.ctorId] at hc
  | array vs off =>
    cases b with
    | array ws off' =>
      simp only [key_array, K.node.injEq, List.cons.injEq, K.int.injEq] at hk
      have hvs : ∀ x, some x ∈ vs → depth x < n ∧ simple x = true := fun x hx =>
        ⟨by have := depth_mem_array (off := off) hx; omega, by
          rw [simple_array] at sa; simpa using List.all_eq_true.1 sa (some x) hx⟩
      have hws : ∀ x, some x ∈ ws → depth x < n ∧ simple x = true := fun x hx =>
        ⟨by have := depth_mem_array (off := off') hx; omega, by
          rw [simple_array] at sb; simpa using List.all_eq_true.1 sb (some x) hx⟩
      simp only [Impl.reprStep]
      rw [hk.2.1, array_items_congr n rec IH vs ws hvs hws hk.2.2]
    | _ => simp [ctorId, Old.ctorId] at hc
  | dict m => simp [simple, cata, simpleAlg] at sa
  | relation ns rows => simp [simple, cata, simpleAlg] at sa
  | union xs => simp [simple, cata, simpleAlg] at sa

end Step

theorem reprN_congr : ∀ (n : Nat) (a b : Rep), depth a < n → depth b < n → simple a = true → simple b = true →
    key a = key b → Impl.reprN n a = Impl.reprN n b
  | 0, _, _, h, _, _, _, _ => by omega
  | n + 1, a, b, ha, hb, sa, sb, hk => by
    simp only [Impl.reprN]
    exact reprStep_congr n (Impl.reprN n) (fun x y hx hy sx sy h => reprN_congr n x y hx hy sx sy h) a b
      (by omega) (by omega) sa sb hk

/-- `reprStep` looks at `rec` only on strictly shallower components -/
theorem reprStep_rec_congr (rec rec' : Rep → String) (a : Rep) (sa : simple a = true)
    (h : ∀ x, depth x < depth a → simple x = true → rec x = rec' x) : Impl.reprStep rec a = Impl.reprStep rec' a := by
  cases a with
  | gtuple as =>
    simp only [Impl.reprStep]
    congr 3
    apply List.map_congr_left
    intro p hp
    have hp' := (mem_isort _ _ p).1 hp
    rw [h p.2 (depth_attr_lt hp') (by rw [simple_gtuple] at sa; exact List.all_eq_true.1 sa p hp')]
  | itemT i x =>
    simp only [Impl.reprStep]
    rw [h x (by rw [depth_itemT]; omega) sa]
  | entryT k v =>
    rw [simple_entryT, Bool.and_eq_true] at sa
    simp only [Impl.reprStep]
    rw [h k (by rw [depth_entryT]; omega) sa.1, h v (by rw [depth_entryT]; omega) sa.2]
  | generic xs =>
    simp only [Impl.reprStep]
    congr 3
    apply List.map_congr_left
    intro x hx
    have hx' := (mem_isort _ _ x).1 hx
    exact h x (depth_mem_generic hx') (by rw [simple_generic] at sa; exact List.all_eq_true.1 sa x hx')
  | array vs off =>
    simp only [Impl.reprStep]
    have hmap : vs.map (Impl.optText rec) = vs.map (Impl.optText rec') := by
      apply List.map_congr_left
      intro o ho
      cases o with
      | none => rfl
      | some x =>
        exact h x (depth_mem_array ho) (by rw [simple_array] at sa; simpa using List.all_eq_true.1 sa (some x) ho)
    rw [hmap]
  | dict m => simp [simple, cata, simpleAlg] at sa
  | relation ns rows => simp [simple, cata, simpleAlg] at sa
  | union xs => simp [simple, cata, simpleAlg] at sa
  | _ => rfl

theorem reprN_stable : ∀ (n m : Nat) (a : Rep), simple a = true → depth a < n → depth a < m →
    Impl.reprN n a = Impl.reprN m a
  | 0, _, _, _, h, _ => by omega
  | _ + 1, 0, _, _, _, h => by omega
  | n + 1, m + 1, a, sa, hn, hm => by
    simp only [Impl.reprN]
    exact reprStep_rec_congr _ _ a sa (fun x hx sx => reprN_stable n m x sx (by omega) (by omega))

/-- the printed text (`fu.Repr`) is a function of the canonical form -/
theorem repr_congr (a b : Rep) (sa : simple a = true) (sb : simple b = true) (hk : key a = key b) :
    Impl.repr a = Impl.repr b := by
  unfold Impl.repr
  rw [reprN_stable (depth a + 1) (max (depth a) (depth b) + 1) a sa (by omega) (by omega),
    reprN_stable (depth b + 1) (max (depth a) (depth b) + 1) b sb (by omega) (by omega)]
  exact reprN_congr _ a b (by omega) (by omega) sa sb hk

end Arrai.C07
