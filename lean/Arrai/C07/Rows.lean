/-
  C07 — the relation bucket of the set builder (`relationBuilder`: positional rows in a frozen set) is
  order-independent: the canonical key of the built `Relation` depends only on the set of member tuples.
-/
import Arrai.C07.Entries

namespace Arrai.C07
open Arrai.C06 Std

/-! ### rows as keys -/
theorem rowsEqual_eq (a b : List Rep) :
    C06.Impl.rowsEqual a b = K.beq (K.node (a.map key)) (K.node (b.map key)) := by
  have hinj : ∀ (x y : List Rep), (x.map (fun r => optKey (some (key r)))) = (y.map (fun r => optKey (some (key r)))) ↔
      x.map key = y.map key := by
    intro x y
    induction x generalizing y with
    | nil => cases y <;> simp
    | cons p ps ih =>
      cases y with
      | nil => simp
      | cons q qs =>
        simp only [List.map_cons, List.cons.injEq, ih qs]
        constructor
        · rintro ⟨h1, h2⟩
          have := optKey_inj h1
          exact ⟨by simpa using this, h2⟩
        · rintro ⟨h1, h2⟩; exact ⟨by rw [h1], h2⟩
  rw [Bool.eq_iff_iff]
  simp only [C06.Impl.rowsEqual, C06.Impl.equal, K.beq_iff, key_generic, key_array, List.map_cons, List.map_nil,
    isort, insertBy, List.map_map, Function.comp_def, Option.map_some, K.node.injEq, List.cons.injEq, and_true, true_and]
  exact hinj a b

theorem dedupRows_key : ∀ (xs acc : List (List Rep)),
    (C06.Impl.dedupRows acc xs).map (fun r => K.node (r.map key)) =
      dedupK (acc.map (fun r => K.node (r.map key))) (xs.map (fun r => K.node (r.map key)))
  | [], acc => by simp [C06.Impl.dedupRows, dedupK]
  | x :: xs, acc => by
    have hany : (acc.any fun y => C06.Impl.rowsEqual y x) =
        ((acc.map (fun r => K.node (r.map key))).any fun y => K.beq y (K.node (x.map key))) := by
      simp [List.any_map, Function.comp_def, rowsEqual_eq]
    simp only [C06.Impl.dedupRows, dedupK, List.map_cons]
    rw [← hany]
    by_cases hc : (acc.any fun y => C06.Impl.rowsEqual y x) = true
    · rw [if_pos hc, if_pos hc]; exact dedupRows_key xs acc
    · rw [if_neg hc, if_neg hc]; exact dedupRows_key xs (x :: acc)

/-- the key of the row tuple, from the node of the row's cell keys -/
def rowKeyOf (ns : List String) : K → K
  | .node l => tupleKeyAlg (zipNames ns l)
  | k => k

theorem key_finish_heading (ns : List String) (vs : List Rep) :
    key (C06.Impl.finishBucket (.heading ns, vs)) =
      .node [.int kRelation, .int ns.length, .node ((isort strLt ns).map K.name),
        .int (dedupK [] (vs.map (fun t => K.node ((C06.Impl.rowOf ns t).map key)))).length,
        .node (isort K.lt ((dedupK [] (vs.map (fun t => K.node ((C06.Impl.rowOf ns t).map key)))).map (rowKeyOf ns)))] := by
  have h := dedupRows_key (vs.map (C06.Impl.rowOf ns)) []
  simp only [List.map_nil, List.map_map, Function.comp_def] at h
  simp only [C06.Impl.finishBucket, key_relation]
  rw [← h]
  simp [List.map_map, Function.comp_def, rowKeyOf]

/-! ### looking an attribute up in the key of a tuple -/
def lookupFlat (n : String) : List K → K
  | .name m :: v :: r => if m = n then v else lookupFlat n r
  | _ => key .empty

def lookupK (n : String) : K → K
  | .node [.int _, .rev x] => if negateTag = n then x else key .empty
  | .node (.int _ :: flat) => lookupFlat n flat
  | _ => key .empty

theorem lookupFlat_attrsK (n : String) : ∀ (l : List (String × Rep)),
    lookupFlat n (attrsK l) = key (C06.Impl.lookupAttr n l)
  | [] => rfl
  | (m, v) :: r => by
    simp only [attrsK, List.map_cons, List.flatMap_cons, List.cons_append, List.nil_append, lookupFlat,
      C06.Impl.lookupAttr]
    by_cases h : m = n
    · rw [if_pos h, if_pos h]
    · rw [if_neg h, if_neg h]
      have := lookupFlat_attrsK n r
      simpa [attrsK] using this

theorem lookupAttr_perm (n : String) {l l' : List (String × Rep)} (hn : (l.map (·.1)).Nodup) (h : l.Perm l') :
    C06.Impl.lookupAttr n l = C06.Impl.lookupAttr n l' := by
  induction h with
  | nil => rfl
  | cons x _ ih =>
    obtain ⟨m, v⟩ := x
    have hn' := List.nodup_cons.1 hn
    simp only [C06.Impl.lookupAttr]
    rw [ih hn'.2]
  | swap x y l =>
    obtain ⟨m, v⟩ := x
    obtain ⟨m', v'⟩ := y
    have hne : m' ≠ m := by
      have h1 := (List.nodup_cons.1 hn).1
      intro e
      apply h1
      simp [e]
    simp only [C06.Impl.lookupAttr]
    by_cases h1 : m' = n
    · have : m ≠ n := fun e => hne (h1.trans e.symm)
      simp [h1, this]
    · simp [h1]
  | trans h₁ _ ih₁ ih₂ =>
    exact (ih₁ hn).trans (ih₂ ((h₁.map _).nodup_iff.1 hn))

def tupleNodup : Rep → Prop
  | .gtuple as => (as.map (·.1)).Nodup
  | _ => True

def isGTuple : Rep → Prop | .gtuple _ => True | _ => False

theorem key_lookupAttr (n : String) (as : List (String × Rep)) (hn : (as.map (·.1)).Nodup) :
    key (C06.Impl.lookupAttr n as) = lookupK n (key (.gtuple as)) := by
  by_cases hneg : kind (.gtuple as) < 0
  · obtain ⟨x, hx, hxpos, _⟩ := kind_gtuple_neg hneg
    rw [key_gtuple_neg hx hxpos]
    have := negInner_some hx
    subst this
    simp only [lookupK, C06.Impl.lookupAttr]
    by_cases h : negateTag = n
    · rw [if_pos h, if_pos h]
    · rw [if_neg h, if_neg h]
  · rw [key_gtuple_plain hneg]
    have hflat : lookupK n (K.node (K.int kGenericTuple :: attrsK (isort byName as))) = lookupFlat n (attrsK (isort byName as)) := by
      cases hs : isort byName as with
      | nil => rfl
      | cons p ps => rfl
    rw [hflat, lookupFlat_attrsK, lookupAttr_perm n hn (isort_perm byName as).symm]

/-- the node of a member tuple's row, from the key of the tuple -/
def rowNodeK (ns : List String) (k : K) : K := .node (ns.map (fun n => lookupK n k))

theorem rowNode_key (ns : List String) {t : Rep} (hg : isGTuple t) (hn : tupleNodup t) :
    K.node ((C06.Impl.rowOf ns t).map key) = rowNodeK ns (key t) := by
  cases t <;> simp [isGTuple] at hg
  rename_i as
  simp only [C06.Impl.rowOf, rowNodeK, List.map_map, Function.comp_def]
  congr 1
  apply List.map_congr_left
  intro n _
  exact key_lookupAttr n as hn

theorem isGTuple_of_bucket {ns : List String} {v : Rep} (h : C06.Impl.bucketOf v = .heading ns) : isGTuple v := by
  cases v <;> simp [C06.Impl.bucketOf] at h <;> trivial

theorem heading_bucket_order_independent (ns : List String) {vs ws : List Rep}
    (hv : ∀ v ∈ vs, isGTuple v ∧ tupleNodup v) (hw : ∀ w ∈ ws, isGTuple w ∧ tupleNodup w) (h : KP vs ws) :
    key (C06.Impl.finishBucket (.heading ns, vs)) = key (C06.Impl.finishBucket (.heading ns, ws)) := by
  have hr : ∀ (l : List Rep), (∀ v ∈ l, isGTuple v ∧ tupleNodup v) →
      l.map (fun t => K.node ((C06.Impl.rowOf ns t).map key)) = (l.map key).map (rowNodeK ns) := by
    intro l hl
    rw [List.map_map]
    apply List.map_congr_left
    intro t ht
    exact rowNode_key ns (hl t ht).1 (hl t ht).2
  rw [key_finish_heading, key_finish_heading, hr vs hv, hr ws hw]
  have hp := dedupK_perm (List.Perm.map (rowNodeK ns) h)
  rw [hp.length_eq]
  have hs : isort K.lt ((dedupK [] ((vs.map key).map (rowNodeK ns))).map (rowKeyOf ns)) =
      isort K.lt ((dedupK [] ((ws.map key).map (rowNodeK ns))).map (rowKeyOf ns)) :=
    isort_perm_invariant K.cmp (hp.map (rowKeyOf ns))
  rw [hs]

end Arrai.C07
