/-
  C07 — `rank` on canonical keys: the ranked row is a function of the key of the row and of the multiset of keys of
  all rows (rank = number of rows with a strictly smaller value of the ranking attribute: order-free).
-/
import Arrai.C07.Final

namespace Arrai.C07
open Arrai.C06 Std

/-! ### the key of a tuple depends only on the multiset of (name, key) pairs -/
def nameCmp (p q : String × K) : Ordering := compare p.1 q.1

instance : TransCmp nameCmp where
  eq_swap := OrientedOrd.eq_swap
  isLE_trans := fun h₁ h₂ => TransCmp.isLE_trans (cmp := (compare : String → String → Ordering)) h₁ h₂

theorem tupleKeyAlg_perm {L L' : List (String × K)} (hn : (L.map (·.1)).Nodup) (h : L.Perm L') :
    tupleKeyAlg L = tupleKeyAlg L' := by
  have hneg : negInner L = negInner L' := by
    have hl := h.length_eq
    rcases L with _ | ⟨a, _ | ⟨b, r⟩⟩ <;> rcases L' with _ | ⟨c, _ | ⟨d, r'⟩⟩ <;> simp at hl
    · rfl
    · have : a = c := by simpa using h
      rw [this]
    · rfl
  have hs : isort (fun p q : String × K => strLt p.1 q.1) L = isort (fun p q : String × K => strLt p.1 q.1) L' := by
    have hnt : L.Pairwise (fun a b => nameCmp a b ≠ .eq) := by
      have : (L.map (·.1)).Pairwise (· ≠ ·) := hn
      rw [List.pairwise_map] at this
      exact this.imp (fun {a b} hab e => hab (LawfulEqOrd.compare_eq_iff_eq.1 e))
    exact isort_perm_of_noTies nameCmp hnt h
  simp only [tupleKeyAlg, attrsKey, hneg, hs]
  cases negInner L' <;> simp only [negKey, attrsKey, hs]

/-- the (name, key) pairs of a tuple, from its key -/
def unflat : List K → List (String × K)
  | .name n :: v :: r => (n, v) :: unflat r
  | _ => []

def pairsK : K → List (String × K)
  | .node [.int _, .rev x] => [(negateTag, x)]
  | .node (.int _ :: flat) => unflat flat
  | _ => []

theorem unflat_attrsKey : ∀ (L : List (String × K)), unflat (L.flatMap (fun p => [K.name p.1, p.2])) = L
  | [] => rfl
  | (n, v) :: r => by simp [unflat, unflat_attrsKey r]

theorem pairsK_tupleKeyAlg (L : List (String × K)) : (pairsK (tupleKeyAlg L)).Perm L := by
  unfold tupleKeyAlg
  have hplain : (pairsK (K.node (K.int kGenericTuple :: attrsKey L))).Perm L := by
    have : pairsK (K.node (K.int kGenericTuple :: attrsKey L)) = unflat (attrsKey L) := by
      unfold attrsKey
      cases hs : isort (fun p q : String × K => strLt p.1 q.1) L with
      | nil => rfl
      | cons p ps => rfl
    rw [this, attrsKey, unflat_attrsKey]
    exact isort_perm _ L
  cases hneg : negInner L with
  | none => exact hplain
  | some k =>
    simp only [negKey]
    split
    · have := negInner_some hneg
      subst this
      exact List.Perm.refl _
    · exact hplain

/-! ### the ranked row on keys -/
def countK (an : String) (ks : List K) (k : K) : Nat :=
  (ks.filter (fun y => K.lt (lookupK an y) (lookupK an k))).length

def keepK (attrs : List (String × String)) (p : String × K) : Bool := !attrs.any (fun q => q.1 == p.1)

def rankRowK (attrs : List (String × String)) (ks : List K) (k : K) : K :=
  tupleKeyAlg ((pairsK k).filter (keepK attrs) ++ attrs.map (fun p => (p.1, key (.num (countK p.2 ks k)))))

theorem countK_perm (an : String) {ks ks' : List K} (h : ks.Perm ks') (k : K) : countK an ks k = countK an ks' k :=
  (h.filter _).length_eq

theorem rankRowK_perm (attrs : List (String × String)) {ks ks' : List K} (h : ks.Perm ks') (k : K) :
    rankRowK attrs ks k = rankRowK attrs ks' k := by
  unfold rankRowK
  congr 2
  apply List.map_congr_left
  intro p _
  rw [countK_perm p.2 h k]

def gtNodup (x : Rep) : Prop := isGTuple x ∧ tupleNodup x

theorem attrOfR_key (an : String) {y : Rep} (hy : gtNodup y) : key (Impl.attrOfR an y) = lookupK an (key y) := by
  cases y <;> simp [gtNodup, isGTuple] at hy
  rename_i as
  exact key_lookupAttr an as hy

theorem count_key (an : String) {rows : List Rep} (hr : ∀ y ∈ rows, gtNodup y) {row : Rep} (hrow : gtNodup row) :
    (rows.filter (fun y => C06.Impl.less (Impl.attrOfR an y) (Impl.attrOfR an row))).length =
      countK an (rows.map key) (key row) := by
  unfold countK
  rw [List.filter_map, List.length_map]
  congr 1
  apply List.filter_congr
  intro y hy
  simp only [Function.comp]
  rw [less_eq, attrOfR_key an (hr y hy), attrOfR_key an hrow]

theorem filter_names_nodup {β : Type} (as : List (String × β)) (extra : List (String × β))
    (ha : (as.map (·.1)).Nodup) (he : (extra.map (·.1)).Nodup) :
    ((as.filter (fun p => !extra.any (fun q => q.1 == p.1)) ++ extra).map (·.1)).Nodup := by
  rw [List.map_append]
  refine List.nodup_append.2 ⟨?_, he, ?_⟩
  · exact (List.Sublist.map _ (List.filter_sublist)).nodup ha
  · intro a ha' b hb e
    subst e
    obtain ⟨p, hp, rfl⟩ := List.mem_map.1 ha'
    obtain ⟨q, hq, hqe⟩ := List.mem_map.1 hb
    have := (List.mem_filter.1 hp).2
    simp only [Bool.not_eq_true', List.any_eq_false] at this
    exact absurd (by simp [hqe]) (this q hq)

theorem rankRow_spec (attrs : List (String × String)) (hattrs : (attrs.map (·.1)).Nodup)
    {rows : List Rep} (hr : ∀ y ∈ rows, gtNodup y) {row : Rep} (hrow : gtNodup row) :
    key (Impl.rankRow attrs rows row) = rankRowK attrs (rows.map key) (key row) ∧ gtNodup (Impl.rankRow attrs rows row) := by
  have hrow' := hrow
  cases row <;> simp [gtNodup, isGTuple] at hrow
  rename_i as
  have hex : ((attrs.map (fun p => (p.1, Rep.num ((rows.filter (fun y => C06.Impl.less (Impl.attrOfR p.2 y)
      (Impl.attrOfR p.2 (.gtuple as)))).length : Int)))).map (·.1)).Nodup := by
    rw [List.map_map]; exact hattrs
  refine ⟨?_, ⟨trivial, ?_⟩⟩
  · simp only [Impl.rankRow, Impl.withAttrs, key_gtuple, rankRowK]
    rw [List.map_append, List.map_map]
    -- the ranks, on keys
    have hE : (attrs.map (fun p => (p.1, Rep.num ((rows.filter (fun y => C06.Impl.less (Impl.attrOfR p.2 y)
          (Impl.attrOfR p.2 (.gtuple as)))).length : Int)))).map (fun p => (p.1, key p.2)) =
        attrs.map (fun p => (p.1, key (.num (countK p.2 (rows.map key) (key (.gtuple as)))))) := by
      rw [List.map_map]
      apply List.map_congr_left
      intro p _
      simp only [Function.comp]
      rw [count_key p.2 hr hrow']
    -- the kept attributes, on keys
    have hF : (as.filter (fun p => !(attrs.map (fun p => (p.1, Rep.num ((rows.filter (fun y =>
          C06.Impl.less (Impl.attrOfR p.2 y) (Impl.attrOfR p.2 (.gtuple as)))).length : Int)))).any (fun q => q.1 == p.1))).map
          (fun p => (p.1, key p.2)) =
        (as.map (fun p => (p.1, key p.2))).filter (keepK attrs) := by
      rw [List.filter_map]
      congr 1
      apply List.filter_congr
      intro p _
      simp [keepK, List.any_map, Function.comp_def]
    have hE' : (attrs.map (fun p => (p.1, Rep.num ((rows.filter (fun y => C06.Impl.less (Impl.attrOfR p.2 y)
          (Impl.attrOfR p.2 (.gtuple as)))).length : Int)))).map ((fun p : String × Rep => (p.1, key p.2))) =
        attrs.map (fun p => (p.1, key (.num (countK p.2 (rows.map key) (key (.gtuple as)))))) := hE
    rw [hF]
    simp only [Function.comp_def] at hE' ⊢
    rw [show (List.map (fun x : String × String => (x.1, key (Rep.num ((rows.filter (fun y => C06.Impl.less (Impl.attrOfR x.2 y)
        (Impl.attrOfR x.2 (.gtuple as)))).length : Int)))) attrs) =
        attrs.map (fun p => (p.1, key (.num (countK p.2 (rows.map key) (key (.gtuple as)))))) from by
      apply List.map_congr_left; intro p _; rw [count_key p.2 hr hrow']]
    simp only [key_gtuple]
    have hk : keepK attrs = fun p => !attrs.any (fun q => q.1 == p.1) := rfl
    apply tupleKeyAlg_perm
    · rw [hk]
      have := filter_names_nodup (as.map (fun p => (p.1, key p.2)))
        (attrs.map (fun p => (p.1, key (.num (countK p.2 (rows.map key) (key (.gtuple as)))))))
        (by rw [List.map_map]; exact hrow) (by rw [List.map_map]; exact hattrs)
      simpa [List.any_map, Function.comp_def, key_gtuple] using this
    · refine List.Perm.append ?_ (List.Perm.refl _)
      refine List.Perm.filter _ ?_
      exact (pairsK_tupleKeyAlg _).symm
  · simp only [Impl.rankRow, Impl.withAttrs, tupleNodup]
    exact filter_names_nodup as _ hrow hex

/-! ### ranking a whole set -/
theorem isGTupleB_of_key {a b : Rep} (h : key a = key b) : Impl.isGTupleB a = Impl.isGTupleB b := by
  have hkind : kind a = kind b := by rw [← kindOf_key a, ← kindOf_key b, h]
  have hc := kind_eq_ctor hkind
  cases a <;> cases b <;> simp [ctorId, Old.ctorId] at hc <;> rfl

theorem all_of_KP (p : Rep → Bool) (hp : ∀ a b, key a = key b → p a = p b) {l l' : List Rep} (h : KP l l') :
    l.all p = l'.all p := by
  have one : ∀ {l l' : List Rep}, KP l l' → l.all p = true → l'.all p = true := by
    intro l l' h ha
    rw [List.all_eq_true] at ha ⊢
    intro x' hx'
    have : key x' ∈ l.map key := h.mem_iff.2 (List.mem_map_of_mem hx')
    obtain ⟨x, hx, hk⟩ := List.mem_map.1 this
    rw [← hp x x' hk]; exact ha x hx
  cases h1 : l.all p <;> cases h2 : l'.all p <;> try rfl
  · rw [one h.symm h2] at h1; cases h1
  · rw [one h h1] at h2; cases h2

theorem gtNodup_of_B {x : Rep} (h : Impl.isGTupleB x = true) (t : tupleNodup x) : gtNodup x := by
  cases x <;> simp [Impl.isGTupleB] at h
  exact ⟨trivial, t⟩

theorem NoSuper_of_gtuples : ∀ (xs : List Rep), (∀ x ∈ xs, isGTuple x) → NoSuper xs
  | [], _ => ⟨List.nodup_nil, List.nodup_nil, List.nodup_nil⟩
  | x :: r, h => by
    have hr := NoSuper_of_gtuples r (fun y hy => h y (List.mem_cons_of_mem _ hy))
    have hx := h x List.mem_cons_self
    cases x <;> simp [isGTuple] at hx
    exact hr

/-- the ranked relation: same rows up to order and canonical form, whatever the order of the input rows -/
theorem rank_KP (attrs : List (String × String)) (hattrs : (attrs.map (·.1)).Nodup) {R R₀ : List Rep}
    (hR : ∀ y ∈ R, gtNodup y) (hR₀ : ∀ y ∈ R₀, gtNodup y) (h : KP R R₀) :
    KP (R.map (Impl.rankRow attrs R)) (R₀.map (Impl.rankRow attrs R₀)) := by
  have e : ∀ {R : List Rep}, (∀ y ∈ R, gtNodup y) →
      (R.map (Impl.rankRow attrs R)).map key = (R.map key).map (rankRowK attrs (R.map key)) := by
    intro R hR
    rw [List.map_map, List.map_map]
    apply List.map_congr_left
    intro x hx
    exact (rankRow_spec attrs hattrs hR (hR x hx)).1
  show ((R.map (Impl.rankRow attrs R)).map key).Perm ((R₀.map (Impl.rankRow attrs R₀)).map key)
  rw [e hR, e hR₀]
  have : (R.map key).map (rankRowK attrs (R.map key)) = (R.map key).map (rankRowK attrs (R₀.map key)) := by
    apply List.map_congr_left
    intro k _
    exact rankRowK_perm attrs h k
  rw [this]
  exact List.Perm.map _ h

end Arrai.C07
