/-
  C07 — the members of a set, read off its canonical key: `(members a).map key` is a permutation of `membersK (key a)`.
  Hence two representations with the same canonical key have the same members up to order and canonical form.
-/
import Arrai.C07.BuildAll

namespace Arrai.C07
open Arrai.C06 Std

theorem flatMap_perm_left {α β : Type} {f g : α → List β} : ∀ (l : List α), (∀ a ∈ l, (f a).Perm (g a)) →
    (l.flatMap f).Perm (l.flatMap g)
  | [], _ => List.Perm.refl _
  | a :: l, h => by
    simp only [List.flatMap_cons]
    exact (h a (by simp)).append (flatMap_perm_left l (fun b hb => h b (List.mem_cons_of_mem _ hb)))

def charMemK (t : Int) (p : Int × K) : Option K :=
  match p.2 with
  | .int c => if c < 0 then none else some (.node [.int t, .int p.1, .int c])
  | _ => none
def byteMemK (p : Int × K) : Option K :=
  match p.2 with
  | .int c => some (.node [.int kByteT, .int p.1, .int c])
  | _ => none
def itemMemK (p : Int × K) : Option K :=
  match p.2 with
  | .node [.int 0, x] => some (.node [.int kItemT, .int p.1, x])
  | _ => none
def entryMemK : K → List K
  | .node [h, .node vals] => vals.map (fun v => .node [.int kEntryT, h, v])
  | _ => []

/-- members of a non-union set, as keys -/
def membersK1 : K → List K
  | .node (.int k :: rest) =>
    if k = kTrue then [key (.gtuple [])]
    else if k = kGenericSet then rest
    else if k = kString then (match rest with | .int off :: rs => (idxFrom off rs).filterMap (charMemK kCharT) | _ => [])
    else if k = kBytes then (match rest with | .int off :: rs => (idxFrom off rs).filterMap byteMemK | _ => [])
    else if k = kArray then (match rest with | .int off :: os => (idxFrom off os).filterMap itemMemK | _ => [])
    else if k = kDict then rest.flatMap entryMemK
    else if k = kRelation then (match rest with | [_, _, _, .node rks] => rks | _ => [])
    else []
  | _ => []

def membersK : K → List K
  | .node (.int k :: rest) => if k = kUnion then rest.flatMap membersK1 else membersK1 (.node (.int k :: rest))
  | _ => []

theorem str_members_key : ∀ (s : List Int) (off : Int),
    ((idxFrom off s).filterMap (fun p => if p.2 < 0 then none else some (Rep.charT p.1 p.2))).map key =
      (idxFrom off (s.map K.int)).filterMap (charMemK kCharT)
  | [], _ => rfl
  | c :: s, off => by
    simp only [idxFrom, List.map_cons, List.filterMap_cons, charMemK]
    by_cases hc : c < 0
    · simp only [hc, if_true]; exact str_members_key s (off + 1)
    · simp only [hc, if_false, List.map_cons, key_charT]; rw [str_members_key s (off + 1)]

theorem bytes_members_key : ∀ (s : List Int) (off : Int),
    ((idxFrom off s).map (fun p => Rep.byteT p.1 p.2)).map key = (idxFrom off (s.map K.int)).filterMap byteMemK
  | [], _ => rfl
  | c :: s, off => by
    simp only [idxFrom, List.map_cons, List.filterMap_cons, byteMemK, key_byteT]
    rw [bytes_members_key s (off + 1)]

theorem array_members_key : ∀ (vs : List (Option Rep)) (off : Int),
    ((idxFrom off vs).filterMap (fun p => p.2.map (Rep.itemT p.1))).map key =
      (idxFrom off (vs.map (fun o => optKey (o.map key)))).filterMap itemMemK
  | [], _ => rfl
  | v :: vs, off => by
    cases v with
    | none =>
      have ih := array_members_key vs (off + 1)
      simp only [idxFrom, List.map_cons, List.filterMap_cons, Option.map_none]
      have : itemMemK (off, optKey none) = none := rfl
      rw [this]; exact ih
    | some x =>
      have ih := array_members_key vs (off + 1)
      simp only [idxFrom, List.map_cons, List.filterMap_cons, Option.map_some]
      have : itemMemK (off, optKey (some (key x))) = some (K.node [K.int kItemT, K.int off, key x]) := rfl
      rw [this]
      simp only [List.map_cons, key_itemT, ih]

theorem members1_key (b : Rep) : ((members1 b).map key).Perm (membersK1 (key b)) := by
  cases b with
  | true_ => exact List.Perm.refl _
  | generic xs =>
    rw [key_generic]
    simp only [members1, membersK1, kGenericSet, kTrue]
    exact (isort_perm K.lt _).symm
  | str s off =>
    rw [key_str]
    simp only [members1, membersK1, kString, kTrue, kGenericSet]
    rw [str_members_key]
    exact List.Perm.refl _
  | bytes s off =>
    rw [key_bytes]
    simp only [members1, membersK1, kBytes, kString, kTrue, kGenericSet]
    rw [bytes_members_key]
    exact List.Perm.refl _
  | array vs off =>
    rw [key_array]
    simp only [members1, membersK1, kArray, kBytes, kString, kTrue, kGenericSet]
    rw [array_members_key]
    exact List.Perm.refl _
  | dict m =>
    rw [key_dict]
    simp only [members1, membersK1, kDict, kArray, kBytes, kString, kTrue, kGenericSet]
    -- unsorted entries first
    have h1 : ((isort (fun e f => K.lt (entryHead e) (entryHead f)) (m.map (List.map key))).map entryKey).flatMap entryMemK
        |>.Perm (((m.map (List.map key)).map entryKey).flatMap entryMemK) :=
      List.Perm.flatMap_right _ ((isort_perm _ _).map _)
    refine List.Perm.trans ?_ h1.symm
    rw [List.map_flatMap, List.map_map, List.flatMap_map]
    apply flatMap_perm_left
    intro e _
    simp only [Function.comp, entryKey, entryMemK, entryHead_map, tail_map']
    have : (e.tail.map (Rep.entryT (Impl.entryHeadR e))).map key =
        (e.tail.map key).map (fun v => K.node [K.int kEntryT, key (Impl.entryHeadR e), v]) := by
      rw [List.map_map, List.map_map]; rfl
    rw [this]
    exact ((isort_perm K.lt _).symm.map _)
  | relation ns rows =>
    rw [key_relation]
    simp only [members1, membersK1, kRelation, kDict, kArray, kBytes, kString, kTrue, kGenericSet]
    have : (rows.map (Impl.rowTuple ns)).map key = rows.map (fun row => tupleKeyAlg (zipNames ns (row.map key))) := by
      simp [key_rowTuple, Function.comp_def]
    rw [this]
    exact (isort_perm K.lt _).symm
  | gtuple as =>
    have hk := key_eq_node (.gtuple as)
    rw [hk]
    simp only [members1, membersK1, List.map_nil]
    have hkind : kind (.gtuple as) = kGenericTuple ∨ kind (.gtuple as) < 0 := by
      rw [kind_gtuple]; exact negKind_cases _
    rcases hkind with h | h
    · rw [h]; simp [kGenericTuple, kTrue, kGenericSet, kString, kBytes, kArray, kDict, kRelation]
    · have e1 : ¬ kind (.gtuple as) = kTrue := by simp [kTrue]; omega
      have e2 : ¬ kind (.gtuple as) = kGenericSet := by simp [kGenericSet]; omega
      have e3 : ¬ kind (.gtuple as) = kString := by simp [kString]; omega
      have e4 : ¬ kind (.gtuple as) = kBytes := by simp [kBytes]; omega
      have e5 : ¬ kind (.gtuple as) = kArray := by simp [kArray]; omega
      have e6 : ¬ kind (.gtuple as) = kDict := by simp [kDict]; omega
      have e7 : ¬ kind (.gtuple as) = kRelation := by simp [kRelation]; omega
      simp [e1, e2, e3, e4, e5, e6, e7]
  | union bs => rw [key_union]; simp [members1, membersK1, kUnion, kTrue, kGenericSet, kString, kBytes, kArray, kDict, kRelation]
  | _ => simp [members1, membersK1, kNumber, kEmpty, kCharT, kByteT, kItemT, kEntryT, kTrue, kGenericSet, kString, kBytes, kArray,
      kDict, kRelation]

theorem membersK_of_not_union {a : Rep} (h : kind a ≠ kUnion) : membersK (key a) = membersK1 (key a) := by
  rw [key_eq_node a]
  simp only [membersK, if_neg h]

theorem members_key (a : Rep) : ((members a).map key).Perm (membersK (key a)) := by
  cases a with
  | union bs =>
    rw [key_union]
    simp only [members, membersK, kUnion, if_true]
    rw [List.map_flatMap]
    have h1 : (bs.flatMap (fun b => (members1 b).map key)).Perm (bs.flatMap (fun b => membersK1 (key b))) :=
      flatMap_perm_left bs (fun b _ => members1_key b)
    refine h1.trans ?_
    have : bs.flatMap (fun b => membersK1 (key b)) = (bs.map key).flatMap membersK1 := by
      rw [List.flatMap_map]
    rw [this]
    exact List.Perm.flatMap_right _ (isort_perm K.lt _).symm
  | gtuple as =>
    have hne : kind (.gtuple as) ≠ kUnion := by
      have : kind (.gtuple as) = kGenericTuple ∨ kind (.gtuple as) < 0 := by rw [kind_gtuple]; exact negKind_cases _
      rcases this with h | h
      · rw [h]; decide
      · simp [kUnion]; omega
    rw [membersK_of_not_union hne]
    exact members1_key (.gtuple as)
  | num n => rw [membersK_of_not_union (by rw [kind_num]; decide)]; exact members1_key (.num n)
  | charT i c => rw [membersK_of_not_union (by rw [kind_charT]; decide)]; exact members1_key (.charT i c)
  | byteT i c => rw [membersK_of_not_union (by rw [kind_byteT]; decide)]; exact members1_key (.byteT i c)
  | itemT i x => rw [membersK_of_not_union (by rw [kind_itemT]; decide)]; exact members1_key (.itemT i x)
  | entryT k v => rw [membersK_of_not_union (by rw [kind_entryT]; decide)]; exact members1_key (.entryT k v)
  | empty => rw [membersK_of_not_union (by rw [kind_empty]; decide)]; exact members1_key .empty
  | true_ => rw [membersK_of_not_union (by rw [kind_true]; decide)]; exact members1_key .true_
  | generic xs => rw [membersK_of_not_union (by rw [kind_generic]; decide)]; exact members1_key (.generic xs)
  | str s off => rw [membersK_of_not_union (by rw [kind_str]; decide)]; exact members1_key (.str s off)
  | bytes s off => rw [membersK_of_not_union (by rw [kind_bytes]; decide)]; exact members1_key (.bytes s off)
  | array vs off => rw [membersK_of_not_union (by rw [kind_array]; decide)]; exact members1_key (.array vs off)
  | dict m => rw [membersK_of_not_union (by rw [kind_dict]; decide)]; exact members1_key (.dict m)
  | relation ns rows => rw [membersK_of_not_union (by rw [kind_relation]; decide)]; exact members1_key (.relation ns rows)

/-- two representations with the same canonical key have the same members, up to order and canonical form -/
theorem members_KP_of_key {a b : Rep} (h : key a = key b) : KP (members a) (members b) :=
  (members_key a).trans (h ▸ (members_key b).symm)

end Arrai.C07
