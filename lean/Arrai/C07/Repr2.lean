/-
  C07 — the printed text is a function of the canonical form, for EVERY representation:
  `nodupNames a → nodupNames b → key a = key b → repr a = repr b`.
  `nodupNames` (C06/Den): no tuple and no relation heading repeats an attribute name — a frozen map cannot.
  Dictionaries, relations and union sets print their entries / rows / members sorted by the C06 order; equal keys
  mean the same members up to order and canonical form (`members_KP_of_key`), the sorted arrangement of the keys is
  unique (`isort_perm_invariant`), and key-equal members print alike by induction.
-/
import Arrai.C07.Repr
import Arrai.C07.Final

namespace Arrai.C07.Full
open Arrai.C06 Arrai.C07 Std

/-! ### the empty tuple (the only member whose depth is not below that of its set: `true = {()}`) -/
theorem attrsK_eq_nil {l : List (String × Rep)} (h : attrsK l = []) : l = [] := by
  cases l with
  | nil => rfl
  | cons p r => simp [attrsK] at h

theorem eq_unit_of_key {y : Rep} (h : key y = key (.gtuple [])) : y = .gtuple [] := by
  have hkind : kind y = kind (.gtuple []) := by rw [← kindOf_key y, ← kindOf_key (.gtuple []), h]
  have hc := kind_eq_ctor hkind
  cases y with
  | gtuple bs =>
    have hplain : ¬ kind (Rep.gtuple ([] : List (String × Rep))) < 0 := by decide
    rw [key_gtuple_plain hplain] at h
    by_cases hneg : kind (.gtuple bs) < 0
    · obtain ⟨x, hx, hxpos, _⟩ := kind_gtuple_neg hneg
      rw [key_gtuple_neg hx hxpos] at h
      simp [isort, attrsK] at h
    · rw [key_gtuple_plain hneg] at h
      simp only [K.node.injEq, List.cons.injEq, true_and] at h
      have h0 : attrsK (isort byName bs) = [] := by rw [h]; rfl
      have h1 := attrsK_eq_nil h0
      have h2 := (isort_perm byName bs).length_eq
      rw [h1] at h2
      cases bs with
      | nil => rfl
      | cons p r => simp at h2
  | _ => simp [ctorId, Old.ctorId] at hc

theorem nn_unit : nodupNames (.gtuple []) = true := by rw [nn_gtuple]; simp

/-! ### members of a bucket: well named, and not deeper than the bucket -/
theorem mem_idxFrom_snd {α : Type} : ∀ (l : List α) (off : Int) (p : Int × α), p ∈ idxFrom off l → p.2 ∈ l
  | [], _, _, h => by simp [idxFrom] at h
  | x :: xs, off, p, h => by
    simp only [idxFrom, List.mem_cons] at h
    rcases h with rfl | h
    · simp
    · exact List.mem_cons_of_mem _ (mem_idxFrom_snd xs _ p h)

theorem members1_sub (b : Rep) (hb : nodupNames b = true) (v : Rep) (hv : v ∈ members1 b) :
    nodupNames v = true ∧ (v = .gtuple [] ∨ depth v ≤ depth b) := by
  cases b with
  | true_ =>
    simp only [members1, List.mem_singleton] at hv
    subst hv
    exact ⟨nn_unit, Or.inl rfl⟩
  | generic xs =>
    simp only [members1] at hv
    rw [nn_generic] at hb
    exact ⟨List.all_eq_true.1 hb v hv, Or.inr (Nat.le_of_lt (depth_mem_generic hv))⟩
  | str s off =>
    simp only [members1, List.mem_filterMap] at hv
    obtain ⟨p, _, hp⟩ := hv
    split at hp
    · cases hp
    · cases hp; exact ⟨rfl, Or.inr (Nat.zero_le _)⟩
  | bytes s off =>
    simp only [members1, List.mem_map] at hv
    obtain ⟨p, _, hp⟩ := hv
    subst hp
    exact ⟨rfl, Or.inr (Nat.zero_le _)⟩
  | array vs off =>
    simp only [members1, List.mem_filterMap] at hv
    obtain ⟨p, hp, hpv⟩ := hv
    have hmem := mem_idxFrom_snd vs off p hp
    cases h2 : p.2 with
    | none => rw [h2] at hpv; cases hpv
    | some x =>
      rw [h2] at hpv hmem
      cases hpv
      rw [nn_array] at hb
      have hx : nodupNames x = true := by simpa using List.all_eq_true.1 hb (some x) hmem
      have hd := depth_mem_array (off := off) hmem
      exact ⟨by rw [nn_itemT]; exact hx, Or.inr (by rw [depth_itemT]; omega)⟩
  | dict m =>
    simp only [members1, List.mem_flatMap, List.mem_map] at hv
    obtain ⟨e, he, t, ht, rfl⟩ := hv
    rw [nn_dict] at hb
    have hall := List.all_eq_true.1 (List.all_eq_true.1 hb e he)
    cases e with
    | nil => simp at ht
    | cons k tl =>
      simp only [List.tail_cons] at ht
      have hk : k ∈ k :: tl := List.mem_cons_self
      have ht' : t ∈ k :: tl := List.mem_cons_of_mem _ ht
      have d1 := depth_mem_dict he hk
      have d2 := depth_mem_dict he ht'
      refine ⟨?_, Or.inr ?_⟩
      · rw [nn_entryT, Bool.and_eq_true]; exact ⟨hall k hk, hall t ht'⟩
      · show depth (Rep.entryT k t) ≤ _
        rw [depth_entryT]; omega
  | relation ns rows =>
    simp only [members1, List.mem_map] at hv
    obtain ⟨row, hrow, rfl⟩ := hv
    rw [nn_relation, Bool.and_eq_true] at hb
    exact ⟨nn_rowTuple (by simpa using hb.1) (List.all_eq_true.1 hb.2 row hrow),
      Or.inr (Nat.le_of_lt (depth_rowTuple_lt hrow))⟩
  | _ => simp [members1] at hv

theorem dict_members_entry {m : List (List Rep)} {v : Rep} (hv : v ∈ members1 (.dict m)) : ∃ k x, v = .entryT k x := by
  simp only [members1, List.mem_flatMap, List.mem_map] at hv
  obtain ⟨e, _, t, _, rfl⟩ := hv
  exact ⟨_, _, rfl⟩

/-! ### sorted members print alike -/
theorem sorted_congr {f : Rep → String} {P : Rep → Prop}
    (hf : ∀ x y, P x → P y → key x = key y → f x = f y) {l l' : List Rep}
    (hl : ∀ x ∈ l, P x) (hl' : ∀ y ∈ l', P y) (h : KP l l') :
    (C06.Impl.orderedValues l).map f = (C06.Impl.orderedValues l').map f := by
  have hx : (C06.Impl.orderedValues l).map key = isort K.lt (l.map key) :=
    map_isort key _ K.lt l (fun x _ y _ => less_eq x y)
  have hy : (C06.Impl.orderedValues l').map key = isort K.lt (l'.map key) :=
    map_isort key _ K.lt l' (fun x _ y _ => less_eq x y)
  exact map_congr_of_keys hf _ _ (fun x hx => hl x ((mem_isort _ _ x).1 hx)) (fun y hy => hl' y ((mem_isort _ _ y).1 hy))
    (by rw [hx, hy]; exact isort_perm_invariant K.cmp h)

/-! ### rows of a relation, cell by cell -/
theorem cellsLoop_lex (rec : Rep → Rep → Bool) : ∀ (l l' : List Rep), Old.cellsLoop rec l l' = C06.Impl.lexLoop rec l l'
  | [], _ => rfl
  | _ :: _, [] => rfl
  | a :: as, b :: bs => by simp only [Old.cellsLoop, C06.Impl.lexLoop]; rw [cellsLoop_lex rec as bs]

theorem cellsLt_eq (l l' : List Rep) : Impl.cellsLt l l' = K.lt (K.node (l.map key)) (K.node (l'.map key)) := by
  rw [Impl.cellsLt, cellsLoop_lex, K.lt_node]
  exact lexLoop_eq (maxL (l.map depth) + maxL (l'.map depth) + 1) C06.Impl.less (fun x y _ _ => less_eq x y) l l'
    (fun x hx => by have := depth_lt_of_mem_map hx; omega) (fun y hy => by have := depth_lt_of_mem_map hy; omega)

theorem map_node_inj : ∀ {A A' : List (List K)}, A.map K.node = A'.map K.node → A = A'
  | [], [], _ => rfl
  | [], _ :: _, h => by simp at h
  | _ :: _, [], h => by simp at h
  | a :: A, b :: A', h => by
    simp only [List.map_cons, List.cons.injEq, K.node.injEq] at h
    rw [h.1, map_node_inj h.2]

theorem map_name_inj : ∀ {A A' : List String}, A.map K.name = A'.map K.name → A = A'
  | [], [], _ => rfl
  | [], _ :: _, h => by simp at h
  | _ :: _, [], h => by simp at h
  | a :: A, b :: A', h => by
    simp only [List.map_cons, List.cons.injEq, K.name.injEq] at h
    rw [h.1, map_name_inj h.2]

theorem lookupAttr_mem (n : String) : ∀ (l : List (String × Rep)),
    C06.Impl.lookupAttr n l = .empty ∨ ∃ p ∈ l, C06.Impl.lookupAttr n l = p.2
  | [] => Or.inl rfl
  | (m, v) :: r => by
    simp only [C06.Impl.lookupAttr]
    by_cases h : m = n
    · rw [if_pos h]; exact Or.inr ⟨(m, v), by simp, rfl⟩
    · rw [if_neg h]
      rcases lookupAttr_mem n r with h1 | ⟨p, hp, h1⟩
      · exact Or.inl h1
      · exact Or.inr ⟨p, List.mem_cons_of_mem _ hp, h1⟩

/-- rows printed cell by cell: lists of cell lists with equal keys print alike -/
theorem cells_congr {f : Rep → String} {P : Rep → Prop}
    (hf : ∀ x y, P x → P y → key x = key y → f x = f y) :
    ∀ (A A' : List (List Rep)), (∀ cs ∈ A, ∀ x ∈ cs, P x) → (∀ cs ∈ A', ∀ x ∈ cs, P x) →
      A.map (List.map key) = A'.map (List.map key) →
      A.map (fun cs => "(" ++ Impl.joinSep (cs.map f) ++ ")") = A'.map (fun cs => "(" ++ Impl.joinSep (cs.map f) ++ ")")
  | [], [], _, _, _ => rfl
  | [], _ :: _, _, _, h => by simp at h
  | _ :: _, [], _, _, h => by simp at h
  | a :: A, b :: A', hA, hA', h => by
    simp only [List.map_cons, List.cons.injEq] at h ⊢
    refine ⟨?_, cells_congr hf A A' (fun cs hcs => hA cs (List.mem_cons_of_mem _ hcs))
      (fun cs hcs => hA' cs (List.mem_cons_of_mem _ hcs)) h.2⟩
    rw [map_congr_of_keys hf a b (hA a (by simp)) (hA' b (by simp)) h.1]

theorem rel_rows_sorted (S ns ns' : List String) (rows rows' : List (List Rep)) (hns : ns.Nodup) (hns' : ns'.Nodup)
    (hkp : KP (rows.map (C06.Impl.rowTuple ns)) (rows'.map (C06.Impl.rowTuple ns'))) :
    (isort Impl.cellsLt (rows.map (fun row => S.map (fun n => C06.Impl.lookupAttr n (zipNames ns row))))).map (List.map key) =
    (isort Impl.cellsLt (rows'.map (fun row => S.map (fun n => C06.Impl.lookupAttr n (zipNames ns' row))))).map (List.map key) := by
  have one : ∀ (ns : List String) (rows : List (List Rep)), ns.Nodup →
      ((isort Impl.cellsLt (rows.map (fun row => S.map (fun n => C06.Impl.lookupAttr n (zipNames ns row))))).map
        (List.map key)).map K.node = isort K.lt (((rows.map (C06.Impl.rowTuple ns)).map key).map (rowNodeK S)) := by
    intro ns rows hns
    rw [List.map_map]
    rw [map_isort (K.node ∘ List.map key) Impl.cellsLt K.lt _ (fun a _ b _ => cellsLt_eq a b)]
    congr 1
    rw [List.map_map, List.map_map, List.map_map]
    apply List.map_congr_left
    intro row _
    exact rowNode_key S (t := C06.Impl.rowTuple ns row) trivial ((zipNames_names_sublist ns row).nodup hns)
  apply map_node_inj
  rw [one ns rows hns, one ns' rows' hns']
  exact isort_perm_invariant K.cmp (List.Perm.map _ hkp)

section Step
variable (n : Nat) (rec : Rep → String)
variable (IH : ∀ x y, depth x < n → depth y < n → nodupNames x = true → nodupNames y = true → key x = key y → rec x = rec y)
include IH

/-- what the induction covers: strictly shallower well-named values, and the empty tuple -/
def Q (n : Nat) (x : Rep) : Prop := x = .gtuple [] ∨ (depth x < n ∧ nodupNames x = true)

theorem IHQ (x y : Rep) (hx : Q n x) (hy : Q n y) (h : key x = key y) : rec x = rec y := by
  rcases hx with rfl | hx
  · rw [eq_unit_of_key h.symm]
  · rcases hy with rfl | hy
    · rw [eq_unit_of_key h]
    · exact IH x y hx.1 hy.1 hx.2 hy.2 h

theorem array_items_congr : ∀ (vs ws : List (Option Rep)),
    (∀ x, some x ∈ vs → depth x < n ∧ nodupNames x = true) → (∀ y, some y ∈ ws → depth y < n ∧ nodupNames y = true) →
    vs.map (fun o => optKey (o.map key)) = ws.map (fun o => optKey (o.map key)) →
    vs.map (Impl.optText rec) = ws.map (Impl.optText rec)
  | [], [], _, _, _ => rfl
  | [], _ :: _, _, _, h => by simp at h
  | _ :: _, [], _, _, h => by simp at h
  | v :: vs, w :: ws, hv, hw, h => by
    simp only [List.map_cons, List.cons.injEq] at h ⊢
    refine ⟨?_, array_items_congr vs ws (fun x hx => hv x (List.mem_cons_of_mem _ hx))
      (fun y hy => hw y (List.mem_cons_of_mem _ hy)) h.2⟩
    have hk := optKey_inj h.1
    cases v with
    | none => cases w with
      | none => rfl
      | some y => simp at hk
    | some x => cases w with
      | none => simp at hk
      | some y =>
        simp only [Option.map_some, Option.some.injEq] at hk
        show rec x = rec y
        exact IH x y (hv x (by simp)).1 (hw y (by simp)).1 (hv x (by simp)).2 (hw y (by simp)).2 hk

theorem attrs_congr : ∀ (l l' : List (String × Rep)),
    (∀ p ∈ l, depth p.2 < n ∧ nodupNames p.2 = true) → (∀ q ∈ l', depth q.2 < n ∧ nodupNames q.2 = true) →
    attrsK l = attrsK l' →
    l.map (fun p => Impl.nameRepr p.1 ++ ": " ++ rec p.2) = l'.map (fun p => Impl.nameRepr p.1 ++ ": " ++ rec p.2)
  | [], [], _, _, _ => rfl
  | [], _ :: _, _, _, h => by simp [attrsK] at h
  | _ :: _, [], _, _, h => by simp [attrsK] at h
  | (a, x) :: l, (b, y) :: l', hl, hl', h => by
    simp only [attrsK, List.map_cons, List.flatMap_cons, List.cons_append, List.nil_append, List.cons.injEq,
      K.name.injEq] at h
    obtain ⟨hab, hxy, hrest⟩ := h
    subst hab
    simp only [List.map_cons, List.cons.injEq]
    refine ⟨?_, attrs_congr l l' (fun p hp => hl p (List.mem_cons_of_mem _ hp))
      (fun q hq => hl' q (List.mem_cons_of_mem _ hq)) (by simpa [attrsK] using hrest)⟩
    rw [IH x y (hl (a, x) (by simp)).1 (hl' (a, y) (by simp)).1 (hl (a, x) (by simp)).2 (hl' (a, y) (by simp)).2 hxy]

theorem reprStep_congr (a b : Rep) (ha : depth a ≤ n) (hb : depth b ≤ n) (sa : nodupNames a = true)
    (sb : nodupNames b = true) (hk : key a = key b) : Impl.reprStep rec a = Impl.reprStep rec b := by
  have hkind : kind a = kind b := by rw [← kindOf_key a, ← kindOf_key b, hk]
  have hc := kind_eq_ctor hkind
  cases a with
  | num x =>
    cases b with
    | num y => simp only [key_num, K.node.injEq, List.cons.injEq, K.int.injEq] at hk; rw [hk.2.1]
    | _ => simp [ctorId, Old.ctorId] at hc
  | gtuple as =>
    cases b with
    | gtuple bs =>
      rw [nn_gtuple, Bool.and_eq_true] at sa sb
      have has : ∀ p ∈ as, depth p.2 < n ∧ nodupNames p.2 = true := fun p hp =>
        ⟨by have := depth_attr_lt hp; omega, List.all_eq_true.1 sa.2 p hp⟩
      have hbs : ∀ p ∈ bs, depth p.2 < n ∧ nodupNames p.2 = true := fun p hp =>
        ⟨by have := depth_attr_lt hp; omega, List.all_eq_true.1 sb.2 p hp⟩
      by_cases hneg : kind (.gtuple as) < 0
      · obtain ⟨x, hx, hxpos, _⟩ := kind_gtuple_neg hneg
        obtain ⟨y, hy, hypos, _⟩ := kind_gtuple_neg (hkind ▸ hneg)
        rw [key_gtuple_neg hx hxpos, key_gtuple_neg hy hypos] at hk
        simp only [K.node.injEq, List.cons.injEq, K.rev.injEq] at hk
        have e1 := negInner_some hx
        have e2 := negInner_some hy
        subst e1 e2
        simp only [Impl.reprStep, isort, insertBy, List.map_cons, List.map_nil]
        have hx' := has (negateTag, x) (by simp)
        have hy' := hbs (negateTag, y) (by simp)
        rw [IH x y hx'.1 hy'.1 hx'.2 hy'.2 hk.2.1]
      · rw [key_gtuple_plain hneg, key_gtuple_plain (hkind ▸ hneg)] at hk
        simp only [K.node.injEq, List.cons.injEq] at hk
        simp only [Impl.reprStep]
        have := attrs_congr n rec IH (isort byName as) (isort byName bs)
          (fun p hp => has p ((mem_isort _ _ p).1 hp)) (fun p hp => hbs p ((mem_isort _ _ p).1 hp)) hk.2
        exact congrArg (fun l => "(" ++ Impl.joinSep l ++ ")") this
    | _ => simp [ctorId, Old.ctorId] at hc
  | charT i c =>
    cases b with
    | charT j d =>
      simp only [key_charT, K.node.injEq, List.cons.injEq, K.int.injEq] at hk
      rw [hk.2.1, hk.2.2.1]
    | _ => simp [ctorId, Old.ctorId] at hc
  | byteT i c =>
    cases b with
    | byteT j d =>
      simp only [key_byteT, K.node.injEq, List.cons.injEq, K.int.injEq] at hk
      rw [hk.2.1, hk.2.2.1]
    | _ => simp [ctorId, Old.ctorId] at hc
  | itemT i x =>
    cases b with
    | itemT j y =>
      simp only [key_itemT, K.node.injEq, List.cons.injEq, K.int.injEq] at hk
      rw [depth_itemT] at ha hb
      simp only [Impl.reprStep]
      rw [hk.2.1, IH x y (by omega) (by omega) sa sb hk.2.2.1]
    | _ => simp [ctorId, Old.ctorId] at hc
  | entryT k v =>
    cases b with
    | entryT k' v' =>
      simp only [key_entryT, K.node.injEq, List.cons.injEq] at hk
      rw [depth_entryT] at ha hb
      rw [nn_entryT, Bool.and_eq_true] at sa sb
      simp only [Impl.reprStep]
      rw [IH k k' (by omega) (by omega) sa.1 sb.1 hk.2.1, IH v v' (by omega) (by omega) sa.2 sb.2 hk.2.2.1]
    | _ => simp [ctorId, Old.ctorId] at hc
  | empty =>
    cases b with
    | empty => rfl
    | _ => simp [ctorId, Old.ctorId] at hc
  | true_ =>
    cases b with
    | true_ => rfl
    | _ => simp [ctorId, Old.ctorId] at hc
  | generic xs =>
    cases b with
    | generic ys =>
      have hkp : KP xs ys := members_KP_of_key hk
      rw [nn_generic] at sa sb
      have hxs : ∀ x ∈ xs, Q n x := fun x hx =>
        Or.inr ⟨by have := depth_mem_generic hx; omega, List.all_eq_true.1 sa x hx⟩
      have hys : ∀ x ∈ ys, Q n x := fun x hx =>
        Or.inr ⟨by have := depth_mem_generic hx; omega, List.all_eq_true.1 sb x hx⟩
      simp only [Impl.reprStep]
      exact congrArg (fun l => "{" ++ Impl.joinSep l ++ "}") (sorted_congr (IHQ n rec IH) hxs hys hkp)
    | _ => simp [ctorId, Old.ctorId] at hc
  | str s off =>
    cases b with
    | str t off' =>
      simp only [key_str, K.node.injEq, List.cons.injEq, K.int.injEq] at hk
      rw [hk.2.1, map_int_inj hk.2.2]
    | _ => simp [ctorId, Old.ctorId] at hc
  | bytes s off =>
    cases b with
    | bytes t off' =>
      simp only [key_bytes, K.node.injEq, List.cons.injEq, K.int.injEq] at hk
      rw [hk.2.1, map_int_inj hk.2.2]
    | _ => simp [ctorId, Old.ctorId] at hc
  | array vs off =>
    cases b with
    | array ws off' =>
      simp only [key_array, K.node.injEq, List.cons.injEq, K.int.injEq] at hk
      have hvs : ∀ x, some x ∈ vs → depth x < n ∧ nodupNames x = true := fun x hx =>
        ⟨by have := depth_mem_array (off := off) hx; omega, by
          rw [nn_array] at sa; simpa using List.all_eq_true.1 sa (some x) hx⟩
      have hws : ∀ x, some x ∈ ws → depth x < n ∧ nodupNames x = true := fun x hx =>
        ⟨by have := depth_mem_array (off := off') hx; omega, by
          rw [nn_array] at sb; simpa using List.all_eq_true.1 sb (some x) hx⟩
      simp only [Impl.reprStep]
      rw [hk.2.1, array_items_congr n rec IH vs ws hvs hws hk.2.2]
    | _ => simp [ctorId, Old.ctorId] at hc
  | dict m =>
    cases b with
    | dict m' =>
      have hkp : KP (members1 (.dict m)) (members1 (.dict m')) := members_KP_of_key hk
      have hP : ∀ (m : List (List Rep)), depth (.dict m) ≤ n → nodupNames (.dict m) = true → ∀ t ∈ members1 (.dict m),
          ∃ k v, t = Rep.entryT k v ∧ (depth k < n ∧ nodupNames k = true) ∧ (depth v < n ∧ nodupNames v = true) := by
        intro m hd hn t ht
        obtain ⟨k, v, rfl⟩ := dict_members_entry ht
        obtain ⟨h1, h2⟩ := members1_sub _ hn _ ht
        rw [nn_entryT, Bool.and_eq_true] at h1
        have h3 : depth (Rep.entryT k v) ≤ depth (Rep.dict m) := by
          rcases h2 with h2 | h2
          · cases h2
          · exact h2
        rw [depth_entryT] at h3
        exact ⟨k, v, rfl, ⟨by omega, h1.1⟩, ⟨by omega, h1.2⟩⟩
      simp only [Impl.reprStep]
      refine congrArg (fun l => "{" ++ Impl.joinSep l ++ "}")
        (sorted_congr (P := fun t => ∃ k v, t = Rep.entryT k v ∧ (depth k < n ∧ nodupNames k = true) ∧
          (depth v < n ∧ nodupNames v = true)) ?_ (hP m ha sa) (hP m' hb sb) hkp)
      intro x y hx hy h
      obtain ⟨k, v, rfl, hk1, hv1⟩ := hx
      obtain ⟨k', v', rfl, hk2, hv2⟩ := hy
      simp only [key_entryT, K.node.injEq, List.cons.injEq] at h
      show rec k ++ ": " ++ rec v = rec k' ++ ": " ++ rec v'
      rw [IH k k' hk1.1 hk2.1 hk1.2 hk2.2 h.2.1, IH v v' hv1.1 hv2.1 hv1.2 hv2.2 h.2.2.1]
    | _ => simp [ctorId, Old.ctorId] at hc
  | relation ns rows =>
    cases b with
    | relation ns' rows' =>
      have hkp : KP (rows.map (C06.Impl.rowTuple ns)) (rows'.map (C06.Impl.rowTuple ns')) := members_KP_of_key hk
      simp only [key_relation, K.node.injEq, List.cons.injEq] at hk
      have hS : isort strLt ns = isort strLt ns' := map_name_inj hk.2.2.1
      rw [nn_relation, Bool.and_eq_true] at sa sb
      have hns : ns.Nodup := by simpa using sa.1
      have hns' : ns'.Nodup := by simpa using sb.1
      have hrows : ∀ (ns : List String) (rows : List (List Rep)), depth (.relation ns rows) ≤ n →
          rows.all (fun e => e.all nodupNames) = true → ∀ row ∈ rows, ∀ x ∈ row, depth x < n ∧ nodupNames x = true := by
        intro ns rows hd hn row hrow x hx
        refine ⟨?_, List.all_eq_true.1 (List.all_eq_true.1 hn row hrow) x hx⟩
        have h1 := depth_rowTuple_lt (ns := ns) hrow
        rw [depth_relation] at hd
        have h2 : maxL (row.map depth) ≤ maxL (rows.map (fun e => maxL (e.map depth))) :=
          le_maxL (List.mem_map.2 ⟨row, hrow, rfl⟩)
        have h3 := depth_lt_of_mem_map hx
        omega
      simp only [Impl.reprStep]
      rw [hS]
      by_cases hid : ((isort strLt ns').all Impl.isIdent) = true
      · rw [if_pos hid, if_pos hid]
        have hcells : ∀ (ns : List String) (rows : List (List Rep)), depth (.relation ns rows) ≤ n →
            rows.all (fun e => e.all nodupNames) = true →
            ∀ cs ∈ isort Impl.cellsLt (rows.map (fun row => (isort strLt ns').map (fun n => C06.Impl.lookupAttr n (zipNames ns row)))),
              ∀ x ∈ cs, Q n x := by
          intro ns rows hd hn cs hcs x hx
          have hcs' := (mem_isort _ _ cs).1 hcs
          obtain ⟨row, hrow, rfl⟩ := List.mem_map.1 hcs'
          obtain ⟨nm, _, rfl⟩ := List.mem_map.1 hx
          rcases lookupAttr_mem nm (zipNames ns row) with h0 | ⟨p, hp, h0⟩
          · rw [h0]
            refine Or.inr ⟨?_, rfl⟩
            rw [depth_relation] at hd
            show 0 < n
            omega
          · rw [h0]
            exact Or.inr (hrows ns rows hd hn row hrow p.2 (mem_zipNames_snd hp))
        have := cells_congr (IHQ n rec IH) _ _ (hcells ns rows ha sa.2) (hcells ns' rows' hb sb.2)
          (rel_rows_sorted (isort strLt ns') ns ns' rows rows' hns hns' hkp)
        rw [this]
      · rw [if_neg hid, if_neg hid]
        have hq : ∀ (ns : List String) (rows : List (List Rep)), ns.Nodup → depth (.relation ns rows) ≤ n →
            rows.all (fun e => e.all nodupNames) = true → ∀ t ∈ rows.map (C06.Impl.rowTuple ns), Q n t := by
          intro ns rows hnd hd hn t ht
          obtain ⟨row, hrow, rfl⟩ := List.mem_map.1 ht
          have h1 := depth_rowTuple_lt (ns := ns) hrow
          exact Or.inr ⟨by omega, nn_rowTuple hnd (List.all_eq_true.1 hn row hrow)⟩
        exact congrArg (fun l => "{" ++ Impl.joinSep l ++ "}")
          (sorted_congr (IHQ n rec IH) (hq ns rows hns ha sa.2) (hq ns' rows' hns' hb sb.2) hkp)
    | _ => simp [ctorId, Old.ctorId] at hc
  | union bs =>
    cases b with
    | union bs' =>
      have hkp : KP (bs.flatMap members1) (bs'.flatMap members1) := members_KP_of_key hk
      have hq : ∀ (bs : List Rep), depth (.union bs) ≤ n → nodupNames (.union bs) = true → ∀ v ∈ bs.flatMap members1, Q n v := by
        intro bs hd hn v hv
        obtain ⟨b, hb, hvb⟩ := List.mem_flatMap.1 hv
        rw [nn_union] at hn
        obtain ⟨h1, h2⟩ := members1_sub b (List.all_eq_true.1 hn b hb) v hvb
        rcases h2 with h2 | h2
        · exact Or.inl h2
        · have := depth_mem_union hb
          exact Or.inr ⟨by omega, h1⟩
      simp only [Impl.reprStep]
      exact congrArg (fun l => "{" ++ Impl.joinSep l ++ "}") (sorted_congr (IHQ n rec IH) (hq bs ha sa) (hq bs' hb sb) hkp)
    | _ => simp [ctorId, Old.ctorId] at hc

end Step

theorem reprN_congr : ∀ (n : Nat) (a b : Rep), depth a < n → depth b < n → nodupNames a = true → nodupNames b = true →
    key a = key b → Impl.reprN n a = Impl.reprN n b
  | 0, _, _, h, _, _, _, _ => by omega
  | n + 1, a, b, ha, hb, sa, sb, hk => by
    simp only [Impl.reprN]
    exact reprStep_congr n (Impl.reprN n) (fun x y hx hy sx sy h => reprN_congr n x y hx hy sx sy h) a b
      (by omega) (by omega) sa sb hk

theorem dict_member_depth {m : List (List Rep)} {t : Rep} (hn : nodupNames (.dict m) = true) (ht : t ∈ members1 (.dict m)) :
    ∃ k v, t = Rep.entryT k v ∧ (nodupNames k = true ∧ depth k < depth (.dict m)) ∧
      (nodupNames v = true ∧ depth v < depth (.dict m)) := by
  obtain ⟨k, v, rfl⟩ := dict_members_entry ht
  obtain ⟨h1, h2⟩ := members1_sub _ hn _ ht
  rw [nn_entryT, Bool.and_eq_true] at h1
  have h3 : depth (Rep.entryT k v) ≤ depth (Rep.dict m) := by
    rcases h2 with h2 | h2
    · cases h2
    · exact h2
  rw [depth_entryT] at h3
  exact ⟨k, v, rfl, ⟨h1.1, by omega⟩, ⟨h1.2, by omega⟩⟩

/-- `reprStep` looks at `rec` only on strictly shallower components (and on the empty tuple, the member of `true`) -/
theorem reprStep_rec_congr (rec rec' : Rep → String) (a : Rep) (sa : nodupNames a = true)
    (h : ∀ x, nodupNames x = true → (depth x < depth a ∨ (x = .gtuple [] ∧ 0 < depth a)) → rec x = rec' x) :
    Impl.reprStep rec a = Impl.reprStep rec' a := by
  cases a with
  | gtuple as =>
    rw [nn_gtuple, Bool.and_eq_true] at sa
    simp only [Impl.reprStep]
    congr 3
    apply List.map_congr_left
    intro p hp
    have hp' := (mem_isort _ _ p).1 hp
    rw [h p.2 (List.all_eq_true.1 sa.2 p hp') (Or.inl (depth_attr_lt hp'))]
  | itemT i x =>
    simp only [Impl.reprStep]
    rw [h x sa (Or.inl (by rw [depth_itemT]; omega))]
  | entryT k v =>
    rw [nn_entryT, Bool.and_eq_true] at sa
    simp only [Impl.reprStep]
    rw [h k sa.1 (Or.inl (by rw [depth_entryT]; omega)), h v sa.2 (Or.inl (by rw [depth_entryT]; omega))]
  | generic xs =>
    simp only [Impl.reprStep]
    congr 3
    apply List.map_congr_left
    intro x hx
    have hx' := (mem_isort _ _ x).1 hx
    exact h x (by rw [nn_generic] at sa; exact List.all_eq_true.1 sa x hx') (Or.inl (depth_mem_generic hx'))
  | array vs off =>
    simp only [Impl.reprStep]
    have hmap : vs.map (Impl.optText rec) = vs.map (Impl.optText rec') := by
      apply List.map_congr_left
      intro o ho
      cases o with
      | none => rfl
      | some x =>
        exact h x (by rw [nn_array] at sa; simpa using List.all_eq_true.1 sa (some x) ho) (Or.inl (depth_mem_array ho))
    rw [hmap]
  | dict m =>
    simp only [Impl.reprStep]
    congr 3
    apply List.map_congr_left
    intro t ht
    have ht' := (mem_isort _ _ t).1 ht
    obtain ⟨k, v, rfl, hk, hv⟩ := dict_member_depth sa ht'
    show rec k ++ ": " ++ rec v = rec' k ++ ": " ++ rec' v
    rw [h k hk.1 (Or.inl hk.2), h v hv.1 (Or.inl hv.2)]
  | relation ns rows =>
    rw [nn_relation, Bool.and_eq_true] at sa
    have hns : ns.Nodup := by simpa using sa.1
    have hcell : ∀ row ∈ rows, ∀ x ∈ row, nodupNames x = true ∧ depth x < depth (.relation ns rows) := by
      intro row hrow x hx
      refine ⟨List.all_eq_true.1 (List.all_eq_true.1 sa.2 row hrow) x hx, ?_⟩
      rw [depth_relation]
      have h2 : maxL (row.map depth) ≤ maxL (rows.map (fun e => maxL (e.map depth))) :=
        le_maxL (List.mem_map.2 ⟨row, hrow, rfl⟩)
      have h3 := depth_lt_of_mem_map hx
      omega
    simp only [Impl.reprStep]
    by_cases hid : ((isort strLt ns).all Impl.isIdent) = true
    · rw [if_pos hid, if_pos hid]
      have hm : (isort Impl.cellsLt (rows.map (fun row => (isort strLt ns).map (fun n => C06.Impl.lookupAttr n (zipNames ns row))))).map
            (fun cells => "(" ++ Impl.joinSep (cells.map rec) ++ ")") =
          (isort Impl.cellsLt (rows.map (fun row => (isort strLt ns).map (fun n => C06.Impl.lookupAttr n (zipNames ns row))))).map
            (fun cells => "(" ++ Impl.joinSep (cells.map rec') ++ ")") := by
        apply List.map_congr_left
        intro cs hcs
        have hcs' := (mem_isort _ _ cs).1 hcs
        obtain ⟨row, hrow, rfl⟩ := List.mem_map.1 hcs'
        congr 3
        apply List.map_congr_left
        intro x hx
        obtain ⟨nm, _, rfl⟩ := List.mem_map.1 hx
        rcases lookupAttr_mem nm (zipNames ns row) with h0 | ⟨p, hp, h0⟩
        · rw [h0]
          exact h _ rfl (Or.inl (by rw [depth_relation]; show 0 < _; omega))
        · rw [h0]
          have := hcell row hrow p.2 (mem_zipNames_snd hp)
          exact h _ this.1 (Or.inl this.2)
      rw [hm]
    · rw [if_neg hid, if_neg hid]
      congr 3
      apply List.map_congr_left
      intro t ht
      have ht' := (mem_isort _ _ t).1 ht
      obtain ⟨row, hrow, rfl⟩ := List.mem_map.1 ht'
      exact h _ (nn_rowTuple hns (List.all_eq_true.1 sa.2 row hrow)) (Or.inl (depth_rowTuple_lt hrow))
  | union bs =>
    simp only [Impl.reprStep]
    congr 3
    apply List.map_congr_left
    intro v hv
    have hv' := (mem_isort _ _ v).1 hv
    obtain ⟨b, hb, hvb⟩ := List.mem_flatMap.1 hv'
    rw [nn_union] at sa
    obtain ⟨h1, h2⟩ := members1_sub b (List.all_eq_true.1 sa b hb) v hvb
    have hd := depth_mem_union hb
    rcases h2 with h2 | h2
    · exact h v h1 (Or.inr ⟨h2, by omega⟩)
    · exact h v h1 (Or.inl (by omega))
  | _ => rfl

theorem reprN_unit : ∀ (n m : Nat), 0 < n → 0 < m → Impl.reprN n (.gtuple []) = Impl.reprN m (.gtuple [])
  | 0, _, h, _ => by omega
  | _ + 1, 0, _, h => by omega
  | _ + 1, _ + 1, _, _ => rfl

theorem reprN_stable : ∀ (n m : Nat) (a : Rep), nodupNames a = true → depth a < n → depth a < m →
    Impl.reprN n a = Impl.reprN m a
  | 0, _, _, _, h, _ => by omega
  | _ + 1, 0, _, _, _, h => by omega
  | n + 1, m + 1, a, sa, hn, hm => by
    simp only [Impl.reprN]
    refine reprStep_rec_congr _ _ a sa (fun x sx hx => ?_)
    rcases hx with hx | ⟨rfl, hx⟩
    · exact reprN_stable n m x sx (by omega) (by omega)
    · exact reprN_unit n m (by omega) (by omega)

/-- the printed text (`fu.Repr`) is a function of the canonical form — all representations -/
theorem repr_congr (a b : Rep) (sa : nodupNames a = true) (sb : nodupNames b = true) (hk : key a = key b) :
    Impl.repr a = Impl.repr b := by
  unfold Impl.repr
  rw [reprN_stable (depth a + 1) (max (depth a) (depth b) + 1) a sa (by omega) (by omega),
    reprN_stable (depth b + 1) (max (depth a) (depth b) + 1) b sb (by omega) (by omega)]
  exact reprN_congr _ a b (by omega) (by omega) sa sb hk

/-- what `OutputValue` writes is a function of the canonical form as well -/
theorem outText_congr (a b : Rep) (sa : nodupNames a = true) (sb : nodupNames b = true) (hk : key a = key b) :
    Impl.outText a = Impl.outText b := by
  have hkind : kind a = kind b := by rw [← kindOf_key a, ← kindOf_key b, hk]
  have hc := kind_eq_ctor hkind
  have hr := repr_congr a b sa sb hk
  cases a <;> cases b <;> simp [ctorId, Old.ctorId] at hc <;>
    first | rfl | (simp only [Impl.outText]; rw [hr]) | skip
  · simp only [key_str, K.node.injEq, List.cons.injEq, K.int.injEq] at hk
    simp only [Impl.outText]; rw [map_int_inj hk.2.2]
  · simp only [key_bytes, K.node.injEq, List.cons.injEq, K.int.injEq] at hk
    simp only [Impl.outText]; rw [map_int_inj hk.2.2]

end Arrai.C07.Full
