/-
  C07 — the overwrite loops of `asString` / `asBytes` / `asArray` (`C06.Impl.fillSlots`) are independent of the order
  of the tuples exactly when no index repeats; hence the string, bytes and array buckets of the set builder are
  order-independent under the no-superimposed hypothesis.
-/
import Arrai.C07.Nested

namespace Arrai.C07
open Arrai.C06 Std

/-! ### `find?` with at most one match, `minI`/`maxI` -/
theorem find?_unique_perm {α : Type} {l l' : List α} (p : α → Bool)
    (hu : ∀ a ∈ l, ∀ b ∈ l, p a = true → p b = true → a = b) (h : l.Perm l') : l.find? p = l'.find? p := by
  cases hf : l.find? p with
  | none =>
    have hn := List.find?_eq_none.1 hf
    exact (List.find?_eq_none.2 (fun x hx => hn x (h.mem_iff.2 hx))).symm
  | some x =>
    have hx : x ∈ l := List.mem_of_find?_eq_some hf
    have hpx : p x = true := List.find?_some hf
    cases hf' : l'.find? p with
    | none => exact absurd hpx (by simpa using List.find?_eq_none.1 hf' x (h.mem_iff.1 hx))
    | some y =>
      have hy : y ∈ l := h.mem_iff.2 (List.mem_of_find?_eq_some hf')
      rw [hu x hx y hy hpx (List.find?_some hf')]

theorem eq_of_nodup_map {α β : Type} (f : α → β) : ∀ {l : List α}, (l.map f).Nodup → ∀ a ∈ l, ∀ b ∈ l, f a = f b → a = b
  | [], _, a, ha, _, _, _ => by cases ha
  | x :: xs, h, a, ha, b, hb, e => by
    have h' : f x ∉ xs.map f ∧ (xs.map f).Nodup := by simpa [List.nodup_cons] using h
    rcases List.mem_cons.1 ha with hax | ha <;> rcases List.mem_cons.1 hb with hbx | hb
    · rw [hax, hbx]
    · exact absurd (List.mem_map.2 ⟨b, hb, by rw [← e, hax]⟩) h'.1
    · exact absurd (List.mem_map.2 ⟨a, ha, by rw [e, hbx]⟩) h'.1
    · exact eq_of_nodup_map f h'.2 a ha b hb e

theorem minI_spec : ∀ (l : List Int), l ≠ [] → C06.Impl.minI l ∈ l ∧ ∀ x ∈ l, C06.Impl.minI l ≤ x
  | [], h => absurd rfl h
  | [x], _ => by simp [C06.Impl.minI]
  | x :: y :: r, _ => by
    obtain ⟨hm, hle⟩ := minI_spec (y :: r) (by simp)
    simp only [C06.Impl.minI]
    constructor
    · by_cases hxy : x ≤ C06.Impl.minI (y :: r)
      · rw [Int.min_eq_left hxy]; simp
      · rw [Int.min_eq_right (by omega)]; exact List.mem_cons_of_mem _ hm
    · intro z hz
      rcases List.mem_cons.1 hz with rfl | hz
      · exact Int.min_le_left _ _
      · exact Int.le_trans (Int.min_le_right _ _) (hle z hz)

theorem maxI_spec : ∀ (l : List Int), l ≠ [] → C06.Impl.maxI l ∈ l ∧ ∀ x ∈ l, x ≤ C06.Impl.maxI l
  | [], h => absurd rfl h
  | [x], _ => by simp [C06.Impl.maxI]
  | x :: y :: r, _ => by
    obtain ⟨hm, hle⟩ := maxI_spec (y :: r) (by simp)
    simp only [C06.Impl.maxI]
    constructor
    · by_cases hxy : C06.Impl.maxI (y :: r) ≤ x
      · rw [Int.max_eq_left hxy]; simp
      · rw [Int.max_eq_right (by omega)]; exact List.mem_cons_of_mem _ hm
    · intro z hz
      rcases List.mem_cons.1 hz with rfl | hz
      · exact Int.le_max_left _ _
      · exact Int.le_trans (hle z hz) (Int.le_max_right _ _)

theorem minI_perm {l l' : List Int} (h : l.Perm l') : C06.Impl.minI l = C06.Impl.minI l' := by
  by_cases hl : l = []
  · subst hl; rw [h.nil_eq]
  · have hl' : l' ≠ [] := fun e => hl (by subst e; exact h.eq_nil)
    obtain ⟨m1, le1⟩ := minI_spec l hl
    obtain ⟨m2, le2⟩ := minI_spec l' hl'
    have a := le1 _ (h.mem_iff.2 m2)
    have b := le2 _ (h.mem_iff.1 m1)
    omega

theorem maxI_perm {l l' : List Int} (h : l.Perm l') : C06.Impl.maxI l = C06.Impl.maxI l' := by
  by_cases hl : l = []
  · subst hl; rw [h.nil_eq]
  · have hl' : l' ≠ [] := fun e => hl (by subst e; exact h.eq_nil)
    obtain ⟨m1, le1⟩ := maxI_spec l hl
    obtain ⟨m2, le2⟩ := maxI_spec l' hl'
    have a := le1 _ (h.mem_iff.2 m2)
    have b := le2 _ (h.mem_iff.1 m1)
    omega

/-! ### the overwrite loop -/
theorem fillSlots_perm {α : Type} (fill : α) (lo : Int) (n : Nat) {ts ts' : List (Int × α)}
    (hn : (ts.map (·.1)).Nodup) (h : ts.Perm ts') :
    C06.Impl.fillSlots fill lo n ts = C06.Impl.fillSlots fill lo n ts' := by
  unfold C06.Impl.fillSlots
  apply List.map_congr_left
  intro k _
  have hrev : ts.reverse.Perm ts'.reverse := (List.reverse_perm ts).trans (h.trans (List.reverse_perm ts').symm)
  rw [find?_unique_perm (fun t => t.1 == lo + Int.ofNat k) ?_ hrev]
  intro a ha b hb pa pb
  have ea : a.1 = lo + Int.ofNat k := by simpa using pa
  have eb : b.1 = lo + Int.ofNat k := by simpa using pb
  exact eq_of_nodup_map (·.1) hn a (List.mem_reverse.1 ha) b (List.mem_reverse.1 hb) (ea.trans eb.symm)

theorem fillSlots_map {α β : Type} (f : α → β) (fill : α) (lo : Int) (n : Nat) (ts : List (Int × α)) :
    (C06.Impl.fillSlots fill lo n ts).map f = C06.Impl.fillSlots (f fill) lo n (ts.map (fun t => (t.1, f t.2))) := by
  unfold C06.Impl.fillSlots
  rw [List.map_map]
  apply List.map_congr_left
  intro k _
  simp only [Function.comp]
  rw [← List.map_reverse, List.find?_map]
  simp only [Function.comp_def]
  cases ts.reverse.find? (fun t => t.1 == lo + Int.ofNat k) <;> rfl

/-- offset and slots of a sugar bucket -/
def slotsOf {α : Type} (fill : α) (ts : List (Int × α)) : Int × List α :=
  (C06.Impl.minI (ts.map (·.1)),
   C06.Impl.fillSlots fill (C06.Impl.minI (ts.map (·.1)))
     (C06.Impl.maxI (ts.map (·.1)) - C06.Impl.minI (ts.map (·.1)) + 1).toNat ts)

theorem slotsOf_perm {α : Type} (fill : α) {ts ts' : List (Int × α)} (hn : (ts.map (·.1)).Nodup) (h : ts.Perm ts') :
    slotsOf fill ts = slotsOf fill ts' := by
  unfold slotsOf
  rw [minI_perm (h.map _), maxI_perm (h.map _), fillSlots_perm fill _ _ hn h]

/-! ### no two sugar tuples of one kind at one index -/
def charIdx : List Rep → List Int
  | [] => []
  | .charT i _ :: r => i :: charIdx r
  | _ :: r => charIdx r
def byteIdx : List Rep → List Int
  | [] => []
  | .byteT i _ :: r => i :: byteIdx r
  | _ :: r => byteIdx r
def itemIdx : List Rep → List Int
  | [] => []
  | .itemT i _ :: r => i :: itemIdx r
  | _ :: r => itemIdx r

/-- the admissibility hypothesis of the set builder (`KF-superimposed` excluded) -/
def NoSuper (xs : List Rep) : Prop := (charIdx xs).Nodup ∧ (byteIdx xs).Nodup ∧ (itemIdx xs).Nodup

/-! ### reading sugar tuples off their canonical keys -/
def charPairK : K → Option (Int × Int)
  | .node [.int k, .int i, .int c] => if k = kCharT then some (i, c) else none
  | _ => none
def bytePairK : K → Option (Int × Int)
  | .node [.int k, .int i, .int c] => if k = kByteT then some (i, c) else none
  | _ => none
def itemPairK : K → Option (Int × Option K)
  | .node [.int k, .int i, x] => if k = kItemT then some (i, some x) else none
  | _ => none

def isCharT : Rep → Prop | .charT _ _ => True | _ => False
def isByteT : Rep → Prop | .byteT _ _ => True | _ => False
def isItemT : Rep → Prop | .itemT _ _ => True | _ => False

theorem isCharT_of_bucket {v : Rep} (h : C06.Impl.bucketOf v = .chars) : isCharT v := by
  cases v <;> simp [C06.Impl.bucketOf] at h <;> first | trivial | (split at h <;> cases h)
theorem isByteT_of_bucket {v : Rep} (h : C06.Impl.bucketOf v = .bytes) : isByteT v := by
  cases v <;> simp [C06.Impl.bucketOf] at h <;> first | trivial | (split at h <;> cases h)
theorem isItemT_of_bucket {v : Rep} (h : C06.Impl.bucketOf v = .items) : isItemT v := by
  cases v <;> simp [C06.Impl.bucketOf] at h <;> first | trivial | (split at h <;> cases h)

theorem charsOf_key_chars : ∀ (vs : List Rep), (∀ v ∈ vs, isCharT v) →
    C06.Impl.charsOf vs = (vs.map key).filterMap charPairK ∧ (C06.Impl.charsOf vs).map (·.1) = charIdx vs
  | [], _ => ⟨rfl, rfl⟩
  | v :: vs, h => by
    obtain ⟨ih1, ih2⟩ := charsOf_key_chars vs (fun w hw => h w (List.mem_cons_of_mem _ hw))
    have hv := h v (by simp)
    cases v <;> simp [isCharT] at hv
    refine ⟨by simp [C06.Impl.charsOf, charPairK, ih1], by simp [C06.Impl.charsOf, charIdx, ih2]⟩

theorem charsOf_key_bytes : ∀ (vs : List Rep), (∀ v ∈ vs, isByteT v) →
    C06.Impl.charsOf vs = (vs.map key).filterMap bytePairK ∧ (C06.Impl.charsOf vs).map (·.1) = byteIdx vs
  | [], _ => ⟨rfl, rfl⟩
  | v :: vs, h => by
    obtain ⟨ih1, ih2⟩ := charsOf_key_bytes vs (fun w hw => h w (List.mem_cons_of_mem _ hw))
    have hv := h v (by simp)
    cases v <;> simp [isByteT] at hv
    refine ⟨by simp [C06.Impl.charsOf, bytePairK, ih1], by simp [C06.Impl.charsOf, byteIdx, ih2]⟩

theorem itemsOf_key : ∀ (vs : List Rep), (∀ v ∈ vs, isItemT v) →
    (C06.Impl.itemsOf vs).map (fun t => (t.1, t.2.map key)) = (vs.map key).filterMap itemPairK ∧
    (C06.Impl.itemsOf vs).map (·.1) = itemIdx vs
  | [], _ => ⟨rfl, rfl⟩
  | v :: vs, h => by
    obtain ⟨ih1, ih2⟩ := itemsOf_key vs (fun w hw => h w (List.mem_cons_of_mem _ hw))
    have hv := h v (by simp)
    cases v <;> simp [isItemT] at hv
    refine ⟨by simp [C06.Impl.itemsOf, itemPairK, ih1], by simp [C06.Impl.itemsOf, itemIdx, ih2]⟩

/-! ### the three sugar buckets -/
theorem key_finish_chars (vs : List Rep) :
    key (C06.Impl.finishBucket (.chars, vs)) =
      .node (.int kString :: .int (slotsOf (-1) (C06.Impl.charsOf vs)).1 :: (slotsOf (-1) (C06.Impl.charsOf vs)).2.map K.int) := rfl

theorem key_finish_bytes (vs : List Rep) :
    key (C06.Impl.finishBucket (.bytes, vs)) =
      .node (.int kBytes :: .int (slotsOf 0 (C06.Impl.charsOf vs)).1 :: (slotsOf 0 (C06.Impl.charsOf vs)).2.map K.int) := rfl

theorem key_finish_items (vs : List Rep) :
    key (C06.Impl.finishBucket (.items, vs)) =
      .node (.int kArray :: .int (slotsOf none (C06.Impl.itemsOf vs)).1 ::
        (slotsOf none ((C06.Impl.itemsOf vs).map (fun t => (t.1, t.2.map key)))).2.map optKey) := by
  simp only [C06.Impl.finishBucket, key_array, slotsOf]
  have hm : ∀ l : List (Option Rep), l.map (fun o => optKey (o.map key)) = (l.map (Option.map key)).map optKey := by
    intro l; simp [List.map_map, Function.comp_def]
  rw [hm, fillSlots_map (Option.map key)]
  simp [List.map_map, Function.comp_def]

theorem chars_bucket_order_independent {vs ws : List Rep} (hv : ∀ v ∈ vs, isCharT v) (hw : ∀ w ∈ ws, isCharT w)
    (hn : NoSuper vs) (h : KP vs ws) :
    key (C06.Impl.finishBucket (.chars, vs)) = key (C06.Impl.finishBucket (.chars, ws)) := by
  obtain ⟨e1, i1⟩ := charsOf_key_chars vs hv
  obtain ⟨e2, _⟩ := charsOf_key_chars ws hw
  have hp : (C06.Impl.charsOf vs).Perm (C06.Impl.charsOf ws) := by rw [e1, e2]; exact h.filterMap _
  rw [key_finish_chars, key_finish_chars, slotsOf_perm (-1) (by rw [i1]; exact hn.1) hp]

theorem bytes_bucket_order_independent {vs ws : List Rep} (hv : ∀ v ∈ vs, isByteT v) (hw : ∀ w ∈ ws, isByteT w)
    (hn : NoSuper vs) (h : KP vs ws) :
    key (C06.Impl.finishBucket (.bytes, vs)) = key (C06.Impl.finishBucket (.bytes, ws)) := by
  obtain ⟨e1, i1⟩ := charsOf_key_bytes vs hv
  obtain ⟨e2, _⟩ := charsOf_key_bytes ws hw
  have hp : (C06.Impl.charsOf vs).Perm (C06.Impl.charsOf ws) := by rw [e1, e2]; exact h.filterMap _
  rw [key_finish_bytes, key_finish_bytes, slotsOf_perm 0 (by rw [i1]; exact hn.2.1) hp]

theorem items_bucket_order_independent {vs ws : List Rep} (hv : ∀ v ∈ vs, isItemT v) (hw : ∀ w ∈ ws, isItemT w)
    (hn : NoSuper vs) (h : KP vs ws) :
    key (C06.Impl.finishBucket (.items, vs)) = key (C06.Impl.finishBucket (.items, ws)) := by
  obtain ⟨e1, i1⟩ := itemsOf_key vs hv
  obtain ⟨e2, i2⟩ := itemsOf_key ws hw
  have hp : ((C06.Impl.itemsOf vs).map (fun t => (t.1, t.2.map key))).Perm
      ((C06.Impl.itemsOf ws).map (fun t => (t.1, t.2.map key))) := by rw [e1, e2]; exact h.filterMap _
  have hidx : ((C06.Impl.itemsOf vs).map (fun t => (t.1, t.2.map key))).map (·.1) = itemIdx vs := by
    rw [List.map_map]; simpa [Function.comp_def] using i1
  have hlo : (slotsOf (none : Option Rep) (C06.Impl.itemsOf vs)).1 = (slotsOf (none : Option Rep) (C06.Impl.itemsOf ws)).1 := by
    simp only [slotsOf]
    have : ((C06.Impl.itemsOf vs).map (·.1)).Perm ((C06.Impl.itemsOf ws).map (·.1)) := by
      have := hp.map (·.1)
      simpa [List.map_map, Function.comp_def] using this
    exact minI_perm this
  rw [key_finish_items, key_finish_items, hlo, slotsOf_perm none (by rw [hidx]; exact hn.2.2) hp]

end Arrai.C07
