/-
  C07 — `SetBuilder.Add` groups values by bucket; the grouping, and the canonical key of the assembled result
  (one bucket: its set; several: a `UnionSet` over the bucket map), do not depend on the order of the `Add` calls.
-/
import Arrai.C07.Rows

namespace Arrai.C07
open Arrai.C06 Std
open C06.Impl (Bucket bucketOf addToBucket finishBucket build)

abbrev Groups := List (Bucket × List Rep)

def inB (b : Bucket) (v : Rep) : Bool := decide (bucketOf v = b)

/-- the state of the builder after the values `pre`: one entry per bucket that occurs, holding the values of that
bucket in the order they were added -/
structure GInv (acc : Groups) (pre : List Rep) : Prop where
  nodup : (acc.map (·.1)).Nodup
  content : ∀ g ∈ acc, g.2 = pre.filter (inB g.1)
  covers : ∀ v ∈ pre, bucketOf v ∈ acc.map (·.1)

theorem addToBucket_eq (v : Rep) : ∀ (acc : Groups), (acc.map (·.1)).Nodup →
    addToBucket v acc =
      if bucketOf v ∈ acc.map (·.1) then acc.map (fun g => if g.1 = bucketOf v then (g.1, g.2 ++ [v]) else g)
      else acc ++ [(bucketOf v, [v])]
  | [], _ => by simp [addToBucket]
  | (b, vs) :: r, hn => by
    have hn' := List.nodup_cons.1 hn
    simp only [addToBucket, List.map_cons, List.mem_cons]
    by_cases hb : b = bucketOf v
    · subst hb
      simp only [true_or, if_true]
      congr 1
      -- the remaining entries have other buckets
      have : r.map (fun g => if g.1 = bucketOf v then (g.1, g.2 ++ [v]) else g) = r.map id := by
        apply List.map_congr_left
        intro g hgm
        by_cases hg : g.1 = bucketOf v
        · exact absurd (hg ▸ List.mem_map.2 ⟨g, hgm, rfl⟩) hn'.1
        · rw [if_neg hg]; rfl
      rw [this, List.map_id]
    · have hb' : ¬ bucketOf v = b := fun e => hb e.symm
      rw [if_neg hb, addToBucket_eq v r hn'.2]
      simp only [hb', false_or]
      by_cases hm : bucketOf v ∈ r.map (·.1)
      · simp [hm, hb]
      · simp [hm]

theorem filter_inB_append (b : Bucket) (pre : List Rep) (v : Rep) :
    (pre ++ [v]).filter (inB b) = pre.filter (inB b) ++ (if bucketOf v = b then [v] else []) := by
  rw [List.filter_append]
  by_cases h : bucketOf v = b <;> simp [inB, h]

theorem GInv.add {acc : Groups} {pre : List Rep} (h : GInv acc pre) (v : Rep) :
    GInv (addToBucket v acc) (pre ++ [v]) := by
  rw [addToBucket_eq v acc h.nodup]
  by_cases hm : bucketOf v ∈ acc.map (·.1)
  · rw [if_pos hm]
    have hkeys : (acc.map (fun g => if g.1 = bucketOf v then (g.1, g.2 ++ [v]) else g)).map (·.1) = acc.map (·.1) := by
      rw [List.map_map]; apply List.map_congr_left; intro g _
      simp only [Function.comp]; split <;> rfl
    refine ⟨by rw [hkeys]; exact h.nodup, ?_, ?_⟩
    · intro g' hg'
      obtain ⟨g, hg, rfl⟩ := List.mem_map.1 hg'
      rw [filter_inB_append]
      by_cases hb : g.1 = bucketOf v
      · rw [if_pos hb]; simp only []; rw [h.content g hg, if_pos hb.symm]
      · rw [if_neg hb, h.content g hg, if_neg (fun e => hb e.symm)]; simp
    · intro w hw
      rw [hkeys]
      rcases List.mem_append.1 hw with hw | hw
      · exact h.covers w hw
      · simp at hw; subst hw; exact hm
  · rw [if_neg hm]
    refine ⟨?_, ?_, ?_⟩
    · rw [List.map_append, List.map_cons, List.map_nil]
      exact List.nodup_append.2 ⟨h.nodup, by simp, by
        intro a ha b hb; simp at hb; subst hb; intro e; subst e; exact hm ha⟩
    · intro g hg
      rw [filter_inB_append]
      rcases List.mem_append.1 hg with hg | hg
      · have : ¬ bucketOf v = g.1 := fun e => hm (e ▸ List.mem_map.2 ⟨g, hg, rfl⟩)
        rw [if_neg this, h.content g hg]; simp
      · simp at hg; subst hg
        have : pre.filter (inB (bucketOf v)) = [] := by
          rw [List.filter_eq_nil_iff]
          intro w hw hin
          have : bucketOf w = bucketOf v := by simpa [inB] using hin
          exact hm (this ▸ h.covers w hw)
        simp [this]
    · intro w hw
      rw [List.map_append]
      rcases List.mem_append.1 hw with hw | hw
      · exact List.mem_append_left _ (h.covers w hw)
      · simp at hw; subst hw; simp

theorem GInv.foldl : ∀ (xs : List Rep) {acc : Groups} {pre : List Rep}, GInv acc pre →
    GInv (xs.foldl (fun acc v => addToBucket v acc) acc) (pre ++ xs)
  | [], _, _, h => by simpa using h
  | x :: xs, _, _, h => by
    have := GInv.foldl xs (h.add x)
    simpa [List.append_assoc] using this

def groups (xs : List Rep) : Groups := xs.foldl (fun acc v => addToBucket v acc) []

theorem groups_inv (xs : List Rep) : GInv (groups xs) xs := by
  have h0 : GInv [] [] := ⟨List.nodup_nil, fun g hg => (by cases hg), fun v hv => (by cases hv)⟩
  simpa [groups] using GInv.foldl xs h0

theorem groups_eq (xs : List Rep) :
    groups xs = ((groups xs).map (·.1)).map (fun b => (b, xs.filter (inB b))) := by
  rw [List.map_map]
  conv => lhs; rw [← List.map_id (groups xs)]
  apply List.map_congr_left
  intro g hg
  simp only [Function.comp, id]
  rw [← (groups_inv xs).content g hg]

theorem mem_groups_keys (xs : List Rep) (b : Bucket) : b ∈ (groups xs).map (·.1) ↔ ∃ v ∈ xs, bucketOf v = b := by
  constructor
  · intro hb
    obtain ⟨g, hg, rfl⟩ := List.mem_map.1 hb
    -- an entry is created with one value and only grows
    have hne : g.2 ≠ [] := by
      have : ∀ (ys : List Rep) (acc : Groups), (∀ g ∈ acc, g.2 ≠ []) →
          ∀ g ∈ ys.foldl (fun acc v => addToBucket v acc) acc, g.2 ≠ [] := by
        intro ys
        induction ys with
        | nil => intro acc h; simpa using h
        | cons y ys ih =>
          intro acc h
          apply ih
          intro g hg
          have hadd : ∀ (acc : Groups), (∀ g ∈ acc, g.2 ≠ []) → ∀ g ∈ addToBucket y acc, g.2 ≠ [] := by
            intro acc
            induction acc with
            | nil => intro _ g hg; simp [addToBucket] at hg; subst hg; simp
            | cons a r ih' =>
              intro h g hg
              obtain ⟨b, vs⟩ := a
              simp only [addToBucket] at hg
              split at hg
              · rcases List.mem_cons.1 hg with rfl | hg
                · simp
                · exact h g (List.mem_cons_of_mem _ hg)
              · rcases List.mem_cons.1 hg with rfl | hg
                · exact h _ (by simp)
                · exact ih' (fun g hg => h g (List.mem_cons_of_mem _ hg)) g hg
          exact hadd acc h g hg
      exact this xs [] (fun g hg => by cases hg) g hg
    rw [(groups_inv xs).content g hg] at hne
    obtain ⟨v, hv⟩ := List.exists_mem_of_ne_nil _ hne
    obtain ⟨hv1, hv2⟩ := List.mem_filter.1 hv
    exact ⟨v, hv1, by simpa [inB] using hv2⟩
  · rintro ⟨v, hv, rfl⟩
    exact (groups_inv xs).covers v hv

/-! ### the bucket of a value, from its canonical key -/
def namesOfFlat : List K → List String
  | .name n :: _ :: r => n :: namesOfFlat r
  | _ => []

def bucketK : K → Bucket
  | .node (.int k :: rest) =>
    if k < 0 then .heading [negateTag]
    else if k = kCharT then .chars else if k = kByteT then .bytes else if k = kItemT then .items
    else if k = kEntryT then .entries
    else if k = kGenericTuple then (if rest.isEmpty then .generic else .heading (namesOfFlat rest))
    else .generic
  | _ => .generic

theorem namesOfFlat_attrsK : ∀ (l : List (String × Rep)), namesOfFlat (attrsK l) = l.map (·.1)
  | [] => rfl
  | (n, v) :: r => by
    have := namesOfFlat_attrsK r
    simp only [attrsK, List.map_cons, List.flatMap_cons, List.cons_append, List.nil_append, namesOfFlat,
      List.cons.injEq, true_and] at this ⊢
    exact this

theorem bucketOf_key (x : Rep) : bucketOf x = bucketK (key x) := by
  cases x with
  | gtuple as =>
    by_cases hneg : kind (.gtuple as) < 0
    · obtain ⟨y, hy, hypos, _⟩ := kind_gtuple_neg hneg
      rw [key_gtuple_neg hy hypos]
      have := negInner_some hy
      subst this
      have hlt : -kind y < 0 := by omega
      simp only [bucketOf, bucketK, List.isEmpty_cons, Bool.false_eq_true, if_false, if_pos hlt, List.map_cons,
        List.map_nil, isort, insertBy]
    · rw [key_gtuple_plain hneg]
      have hnames : (isort byName as).map (·.1) = isort strLt (as.map (·.1)) :=
        map_isort (·.1) byName strLt as (fun _ _ _ _ => rfl)
      cases as with
      | nil => rfl
      | cons p ps =>
        have hne : (attrsK (isort byName (p :: ps))).isEmpty = false := by
          have hl : (isort byName (p :: ps)).length = (p :: ps).length := length_isort _ _
          cases hs : isort byName (p :: ps) with
          | nil => rw [hs] at hl; simp at hl
          | cons q qs => simp [attrsK]
        have h300 : ¬ (kGenericTuple : Int) < 0 := by decide
        have e1 : ¬ kGenericTuple = kCharT := by decide
        have e2 : ¬ kGenericTuple = kByteT := by decide
        have e3 : ¬ kGenericTuple = kItemT := by decide
        have e4 : ¬ kGenericTuple = kEntryT := by decide
        simp only [bucketOf, bucketK, List.isEmpty_cons, Bool.false_eq_true, if_false, if_neg h300, if_neg e1,
          if_neg e2, if_neg e3, if_neg e4, if_true, hne, namesOfFlat_attrsK, hnames]
  | generic xs => rw [key_generic]; simp [bucketOf, bucketK, kGenericSet, kCharT, kByteT, kItemT, kEntryT, kGenericTuple]
  | union xs => rw [key_union]; simp [bucketOf, bucketK, kUnion, kCharT, kByteT, kItemT, kEntryT, kGenericTuple]
  | dict m => rw [key_dict]; simp [bucketOf, bucketK, kDict, kCharT, kByteT, kItemT, kEntryT, kGenericTuple]
  | relation ns rows => rw [key_relation]; simp [bucketOf, bucketK, kRelation, kCharT, kByteT, kItemT, kEntryT, kGenericTuple]
  | array vs off => rw [key_array]; simp [bucketOf, bucketK, kArray, kCharT, kByteT, kItemT, kEntryT, kGenericTuple]
  | _ => simp [bucketOf, bucketK, kNumber, kEmpty, kTrue, kString, kBytes, kCharT, kByteT, kItemT, kEntryT, kGenericTuple]

end Arrai.C07
