/-
  C07 — order-independence of the set builder (`C06.Impl.build` = `SetBuilder.Add`* ; `Finish`), proved for
  member lists that fall into the generic bucket (numbers, sets of every representation, the empty tuple).
-/
import Arrai.C07.Lemmas

namespace Arrai.C07
open Arrai.C06 Std

/-- first-occurrence de-duplication on canonical keys (the key-level image of `dedupR`) -/
def dedupK : List K → List K → List K
  | acc, [] => acc.reverse
  | acc, k :: ks => if acc.any (fun y => K.beq y k) then dedupK acc ks else dedupK (k :: acc) ks

theorem dedupR_key : ∀ (xs acc : List Rep), (C06.Impl.dedupR acc xs).map key = dedupK (acc.map key) (xs.map key)
  | [], acc => by simp [C06.Impl.dedupR, dedupK]
  | x :: xs, acc => by
    have hany : (acc.any fun y => C06.Impl.equal y x) = ((acc.map key).any fun y => K.beq y (key x)) := by
      simp [List.any_map, Function.comp_def, C06.Impl.equal]
    simp only [C06.Impl.dedupR, dedupK, List.map_cons]
    rw [← hany]
    by_cases hc : (acc.any fun y => C06.Impl.equal y x) = true
    · rw [if_pos hc, if_pos hc]; exact dedupR_key xs acc
    · rw [if_neg hc, if_neg hc]; exact dedupR_key xs (x :: acc)

theorem any_beq_iff (acc : List K) (k : K) : acc.any (fun y => K.beq y k) = true ↔ k ∈ acc := by
  simp only [List.any_eq_true, K.beq_iff]
  constructor
  · rintro ⟨y, hy, rfl⟩; exact hy
  · intro h; exact ⟨k, h, rfl⟩

theorem mem_dedupK : ∀ (ks acc : List K) (k : K), k ∈ dedupK acc ks ↔ k ∈ acc ∨ k ∈ ks
  | [], acc, k => by simp [dedupK]
  | a :: ks, acc, k => by
    simp only [dedupK]
    split
    · rename_i h
      rw [mem_dedupK ks acc k]
      have ha : a ∈ acc := (any_beq_iff acc a).1 h
      constructor
      · rintro (h | h); exact Or.inl h; exact Or.inr (List.mem_cons_of_mem _ h)
      · rintro (h | h)
        · exact Or.inl h
        · rcases List.mem_cons.1 h with rfl | h
          · exact Or.inl ha
          · exact Or.inr h
    · rw [mem_dedupK ks (a :: acc) k]
      simp only [List.mem_cons]
      constructor
      · rintro ((h | h) | h)
        · exact Or.inr (Or.inl h)
        · exact Or.inl h
        · exact Or.inr (Or.inr h)
      · rintro (h | h | h)
        · exact Or.inl (Or.inr h)
        · exact Or.inl (Or.inl h)
        · exact Or.inr h

theorem nodup_dedupK : ∀ (ks acc : List K), acc.Nodup → (dedupK acc ks).Nodup
  | [], acc, h => by simp only [dedupK]; exact (List.reverse_perm acc).nodup_iff.2 h
  | a :: ks, acc, h => by
    simp only [dedupK]
    split
    · exact nodup_dedupK ks acc h
    · rename_i hn
      refine nodup_dedupK ks (a :: acc) (List.nodup_cons.2 ⟨?_, h⟩)
      intro ha; exact hn ((any_beq_iff acc a).2 ha)

theorem dedupK_perm {ks ks' : List K} (h : ks.Perm ks') : (dedupK [] ks).Perm (dedupK [] ks') := by
  rw [List.perm_ext_iff_of_nodup (nodup_dedupK ks [] List.nodup_nil) (nodup_dedupK ks' [] List.nodup_nil)]
  intro k
  rw [mem_dedupK, mem_dedupK]
  simp [h.mem_iff]

/-- the canonical key of the generic bucket's `Finish`, from the distinct member keys -/
def genericKeyOf : List K → K
  | [] => key .empty
  | [k] => if K.beq k (key (.gtuple [])) then key .true_ else .node (.int kGenericSet :: isort K.lt [k])
  | ks => .node (.int kGenericSet :: isort K.lt ks)

theorem genericKeyOf_perm {ks ks' : List K} (h : ks.Perm ks') : genericKeyOf ks = genericKeyOf ks' := by
  have hl := h.length_eq
  rcases ks with _ | ⟨a, _ | ⟨b, r⟩⟩ <;> rcases ks' with _ | ⟨c, _ | ⟨d, r'⟩⟩ <;> simp at hl
  · rfl
  · have : a = c := by simpa using h
    rw [this]
  · simp only [genericKeyOf]
    exact congrArg (fun l => K.node (K.int kGenericSet :: l)) (isort_perm_invariant K.cmp h)

theorem key_finish_generic (vs : List Rep) :
    key (C06.Impl.finishBucket (.generic, vs)) = genericKeyOf (dedupK [] (vs.map key)) := by
  have hk := dedupR_key vs []
  simp only [List.map_nil] at hk
  rw [← hk]
  simp only [C06.Impl.finishBucket]
  rcases hD : C06.Impl.dedupR [] vs with _ | ⟨x, _ | ⟨y, r⟩⟩
  · rfl
  · simp only [List.map_cons, List.map_nil, genericKeyOf]
    have he : C06.Impl.equal x (.gtuple []) = K.beq (key x) (key (.gtuple [])) := rfl
    rw [← he]
    by_cases hc : C06.Impl.equal x (.gtuple []) = true
    · rw [if_pos hc, if_pos hc]
    · rw [if_neg hc, if_neg hc, key_generic]; rfl
  · simp only [List.map_cons, genericKeyOf]
    rw [key_generic]; rfl

def allGeneric (xs : List Rep) : Prop := ∀ x ∈ xs, C06.Impl.bucketOf x = .generic

theorem groups_allGeneric : ∀ (xs pre : List Rep), allGeneric xs →
    xs.foldl (fun acc v => C06.Impl.addToBucket v acc) [(.generic, pre)] = [(.generic, pre ++ xs)]
  | [], pre, _ => by simp
  | x :: xs, pre, h => by
    have hx : C06.Impl.bucketOf x = .generic := h x (by simp)
    simp only [List.foldl_cons, C06.Impl.addToBucket, hx, ite_true]
    rw [groups_allGeneric xs (pre ++ [x]) (fun y hy => h y (List.mem_cons_of_mem _ hy))]
    simp

theorem build_allGeneric (xs : List Rep) (h : allGeneric xs) :
    key (C06.Impl.build xs) = genericKeyOf (dedupK [] (xs.map key)) := by
  cases xs with
  | nil => rfl
  | cons x xs =>
    have hx : C06.Impl.bucketOf x = .generic := h x (by simp)
    have hg := groups_allGeneric xs [x] (fun y hy => h y (List.mem_cons_of_mem _ hy))
    simp only [C06.Impl.build, List.foldl_cons, C06.Impl.addToBucket, hx]
    rw [hg]
    exact key_finish_generic _

/-- the set builder is order-independent on the generic bucket: the result's canonical form depends only on the
multiset of canonical forms of the values added, not on the order of the `Add` calls -/
theorem build_order_independent_generic {xs ys : List Rep} (hx : allGeneric xs) (hy : allGeneric ys) (h : KP xs ys) :
    key (C06.Impl.build xs) = key (C06.Impl.build ys) := by
  rw [build_allGeneric xs hx, build_allGeneric ys hy]
  exact genericKeyOf_perm (dedupK_perm h)

theorem allGeneric_perm {xs ys : List Rep} (h : xs.Perm ys) (hx : allGeneric xs) : allGeneric ys :=
  fun y hy => hx y (h.mem_iff.2 hy)

theorem build_perm_generic {xs ys : List Rep} (hx : allGeneric xs) (h : xs.Perm ys) :
    key (C06.Impl.build xs) = key (C06.Impl.build ys) :=
  build_order_independent_generic hx (allGeneric_perm h hx) (KP.of_perm h)

/-! ### programs: one operator over literal operands -/

/-- an enumeration order may only rearrange -/
def PermValued (π : EnumOrder) : Prop := ∀ l, (π l).Perm l

def keyRes : Res → Option K
  | .ok r => some (key r)
  | .err => none

/-- admissible single-operator programs: the members handed to the set builder fall into the generic bucket
(numbers, sets, the empty tuple), `orderby` keys do not tie -/
def Adm1 : Ex → Prop
  | .lit _ _ => True
  | .union (.lit _ A) (.lit _ B) => allGeneric (members A ++ members B)
  | .inter (.lit _ A) (.lit _ _) => allGeneric (members A)
  | .diff (.lit _ A) (.lit _ _) => allGeneric (members A)
  | .map (.lit _ A) f => allGeneric ((members A).map f.apply)
  | .filter (.lit _ A) _ => allGeneric (members A)
  | .orderby (.lit _ A) f => NoTies f.apply (members A)
  | .with_ (.lit _ A) (.lit _ x) => allGeneric (members A ++ [x])
  | .without (.lit _ A) (.lit _ _) => allGeneric (members A)
  | .count (.lit _ _) => True
  | .single (.lit _ _) => True
  | _ => False

theorem allGeneric_filter {xs : List Rep} (p : Rep → Bool) (h : allGeneric xs) : allGeneric (xs.filter p) :=
  fun x hx => h x (List.mem_filter.1 hx).1

theorem evalUnder_order_independent_1 (e : Ex) (π₁ π₂ : EnumOrder) (h₁ : PermValued π₁) (h₂ : PermValued π₂)
    (ha : Adm1 e) : keyRes (Impl.evalUnder π₁ e) = keyRes (Impl.evalUnder π₂ e) := by
  have hπ : ∀ l, (π₁ l).Perm (π₂ l) := fun l => (h₁ l).trans (h₂ l).symm
  cases e with
  | lit s r => rfl
  | union a b =>
    cases a with
    | lit sa A =>
      cases b with
      | lit sb B =>
        simp only [Impl.evalUnder]
        split
        · simp only [keyRes]
          have hp : (π₁ (members A) ++ π₁ (members B)).Perm (π₂ (members A) ++ π₂ (members B)) :=
            (hπ _).append (hπ _)
          have hg : allGeneric (π₁ (members A) ++ π₁ (members B)) :=
            allGeneric_perm ((h₁ _).append (h₁ _)).symm ha
          rw [build_perm_generic hg hp]
        · rfl
      | _ => exact absurd ha (by simp [Adm1])
    | _ => exact absurd ha (by simp [Adm1])
  | inter a b =>
    cases a with
    | lit sa A =>
      cases b with
      | lit sb B =>
        simp only [Impl.evalUnder]
        split
        · simp only [keyRes]
          have hg : allGeneric ((π₁ (members A)).filter (fun x => Impl.memberOf x B)) :=
            allGeneric_filter _ (allGeneric_perm (h₁ _).symm ha)
          rw [build_perm_generic hg ((hπ _).filter _)]
        · rfl
      | _ => exact absurd ha (by simp [Adm1])
    | _ => exact absurd ha (by simp [Adm1])
  | diff a b =>
    cases a with
    | lit sa A =>
      cases b with
      | lit sb B =>
        simp only [Impl.evalUnder]
        split
        · simp only [keyRes]
          have hg : allGeneric ((π₁ (members A)).filter (fun x => !Impl.memberOf x B)) :=
            allGeneric_filter _ (allGeneric_perm (h₁ _).symm ha)
          rw [build_perm_generic hg ((hπ _).filter _)]
        · rfl
      | _ => exact absurd ha (by simp [Adm1])
    | _ => exact absurd ha (by simp [Adm1])
  | map a f =>
    cases a with
    | lit sa A =>
      simp only [Impl.evalUnder]
      split
      · simp only [keyRes]
        have hg : allGeneric ((π₁ (members A)).map f.apply) := allGeneric_perm ((h₁ _).map _).symm ha
        rw [build_perm_generic hg ((hπ _).map _)]
      · rfl
    | _ => exact absurd ha (by simp [Adm1])
  | filter a p =>
    cases a with
    | lit sa A =>
      simp only [Impl.evalUnder]
      split
      · simp only [keyRes]
        have hg : allGeneric ((π₁ (members A)).filter p.apply) :=
          allGeneric_filter _ (allGeneric_perm (h₁ _).symm ha)
        rw [build_perm_generic hg ((hπ _).filter _)]
      · rfl
    | _ => exact absurd ha (by simp [Adm1])
  | orderby a f =>
    cases a with
    | lit sa A =>
      simp only [Impl.evalUnder]
      split
      · simp only [keyRes]
        have hn : NoTies f.apply (π₁ (members A)) := NoTies.perm ha (h₁ _).symm
        rw [orderBy_perm_invariant hn (hπ _)]
      · rfl
    | _ => exact absurd ha (by simp [Adm1])
  | with_ a x =>
    cases a with
    | lit sa A =>
      cases x with
      | lit sx X =>
        simp only [Impl.evalUnder]
        split
        · simp only [keyRes]
          have hg : allGeneric (π₁ (members A) ++ [X]) :=
            allGeneric_perm ((h₁ _).append (List.Perm.refl _)).symm ha
          rw [build_perm_generic hg ((hπ _).append (List.Perm.refl _))]
        · rfl
      | _ => exact absurd ha (by simp [Adm1])
    | _ => exact absurd ha (by simp [Adm1])
  | without a x =>
    cases a with
    | lit sa A =>
      cases x with
      | lit sx X =>
        simp only [Impl.evalUnder]
        split
        · simp only [keyRes]
          have hg : allGeneric ((π₁ (members A)).filter (fun y => !C06.Impl.equal y X)) :=
            allGeneric_filter _ (allGeneric_perm (h₁ _).symm ha)
          rw [build_perm_generic hg ((hπ _).filter _)]
        · rfl
      | _ => exact absurd ha (by simp [Adm1])
    | _ => exact absurd ha (by simp [Adm1])
  | count a =>
    cases a with
    | lit sa A => rfl
    | _ => exact absurd ha (by simp [Adm1])
  | single a =>
    cases a with
    | lit sa A => rfl
    | _ => exact absurd ha (by simp [Adm1])
  | setpat lits rest a => exact absurd ha (by simp [Adm1])
  | rank a attrs => exact absurd ha (by simp [Adm1])

end Arrai.C07
