/-
  C07 — the set builder is order-independent: for values that do not superimpose two sugar tuples at one index
  (and whose tuples have no repeated attribute name — a frozen map cannot), the canonical key of
  `SetBuilder.Add`* ; `Finish` depends only on the multiset of canonical keys of the values added.
-/
import Arrai.C07.Groups

namespace Arrai.C07
open Arrai.C06 Std
open C06.Impl (Bucket bucketOf addToBucket finishBucket build)

/-- the key of the assembled result from the keys of the finished buckets (the bucket map is enumerated in any order) -/
def assembleK : List K → K
  | [] => key .empty
  | [k] => k
  | ks => .node (.int kUnion :: isort K.lt ks)

theorem assembleK_perm {ks ks' : List K} (h : ks.Perm ks') : assembleK ks = assembleK ks' := by
  have hl := h.length_eq
  rcases ks with _ | ⟨a, _ | ⟨b, r⟩⟩ <;> rcases ks' with _ | ⟨c, _ | ⟨d, r'⟩⟩ <;> simp at hl
  · rfl
  · have : a = c := by simpa using h
    rw [this]
  · simp only [assembleK]
    exact congrArg (fun l => K.node (K.int kUnion :: l)) (isort_perm_invariant K.cmp h)

theorem key_build (xs : List Rep) : key (build xs) = assembleK ((groups xs).map (fun g => key (finishBucket g))) := by
  unfold build
  show key (match groups xs with
    | [] => Rep.empty
    | [g] => finishBucket g
    | gs => Rep.union (gs.map finishBucket)) = _
  rcases hg : groups xs with _ | ⟨a, _ | ⟨b, r⟩⟩
  · rfl
  · rfl
  · simp only [assembleK, key_union, List.map_cons, List.map_map, Function.comp_def]

/-! ### admissibility is inherited by each bucket -/
theorem charIdx_filter (p : Rep → Bool) : ∀ (xs : List Rep), (charIdx (xs.filter p)).Sublist (charIdx xs)
  | [] => List.Sublist.refl _
  | x :: xs => by
    have ih := charIdx_filter p xs
    simp only [List.filter_cons]
    by_cases hp : p x = true
    · rw [if_pos hp]
      cases x <;> simp only [charIdx] <;> first | exact ih | exact ih.cons_cons _
    · rw [if_neg hp]
      cases x <;> simp only [charIdx] <;> first | exact ih | exact ih.cons _
theorem byteIdx_filter (p : Rep → Bool) : ∀ (xs : List Rep), (byteIdx (xs.filter p)).Sublist (byteIdx xs)
  | [] => List.Sublist.refl _
  | x :: xs => by
    have ih := byteIdx_filter p xs
    simp only [List.filter_cons]
    by_cases hp : p x = true
    · rw [if_pos hp]
      cases x <;> simp only [byteIdx] <;> first | exact ih | exact ih.cons_cons _
    · rw [if_neg hp]
      cases x <;> simp only [byteIdx] <;> first | exact ih | exact ih.cons _
theorem itemIdx_filter (p : Rep → Bool) : ∀ (xs : List Rep), (itemIdx (xs.filter p)).Sublist (itemIdx xs)
  | [] => List.Sublist.refl _
  | x :: xs => by
    have ih := itemIdx_filter p xs
    simp only [List.filter_cons]
    by_cases hp : p x = true
    · rw [if_pos hp]
      cases x <;> simp only [itemIdx] <;> first | exact ih | exact ih.cons_cons _
    · rw [if_neg hp]
      cases x <;> simp only [itemIdx] <;> first | exact ih | exact ih.cons _

theorem NoSuper.filter {xs : List Rep} (h : NoSuper xs) (p : Rep → Bool) : NoSuper (xs.filter p) :=
  ⟨(charIdx_filter p xs).nodup h.1, (byteIdx_filter p xs).nodup h.2.1, (itemIdx_filter p xs).nodup h.2.2⟩

/-- one bucket -/
theorem finish_order_independent (b : Bucket) {vs ws : List Rep}
    (hv : ∀ v ∈ vs, bucketOf v = b) (hw : ∀ w ∈ ws, bucketOf w = b)
    (tv : ∀ v ∈ vs, tupleNodup v) (tw : ∀ w ∈ ws, tupleNodup w) (hn : NoSuper vs) (h : KP vs ws) :
    key (finishBucket (b, vs)) = key (finishBucket (b, ws)) := by
  cases b with
  | generic => rw [key_finish_generic, key_finish_generic]; exact genericKeyOf_perm (dedupK_perm h)
  | chars =>
    exact chars_bucket_order_independent (fun v m => isCharT_of_bucket (hv v m)) (fun w m => isCharT_of_bucket (hw w m)) hn h
  | bytes =>
    exact bytes_bucket_order_independent (fun v m => isByteT_of_bucket (hv v m)) (fun w m => isByteT_of_bucket (hw w m)) hn h
  | items =>
    exact items_bucket_order_independent (fun v m => isItemT_of_bucket (hv v m)) (fun w m => isItemT_of_bucket (hw w m)) hn h
  | entries =>
    exact entries_bucket_order_independent (fun v m => isEntryT_of_bucket (hv v m)) (fun w m => isEntryT_of_bucket (hw w m)) h
  | heading ns =>
    exact heading_bucket_order_independent ns (fun v m => ⟨isGTuple_of_bucket (hv v m), tv v m⟩)
      (fun w m => ⟨isGTuple_of_bucket (hw w m), tw w m⟩) h

theorem inB_eq (b : Bucket) (x : Rep) : inB b x = decide (bucketK (key x) = b) := by
  simp [inB, bucketOf_key]

/-- THE SET BUILDER IS ORDER-INDEPENDENT -/
theorem build_order_independent {xs ys : List Rep} (hn : NoSuper xs)
    (tx : ∀ v ∈ xs, tupleNodup v) (ty : ∀ w ∈ ys, tupleNodup w) (h : KP xs ys) :
    key (build xs) = key (build ys) := by
  rw [key_build, key_build]
  apply assembleK_perm
  -- the finished buckets, indexed by the (duplicate-free) bucket lists
  have ex : (groups xs).map (fun g => key (finishBucket g)) =
      ((groups xs).map (·.1)).map (fun b => key (finishBucket (b, xs.filter (inB b)))) := by
    conv => lhs; rw [groups_eq xs]
    rw [List.map_map]; rfl
  have ey : (groups ys).map (fun g => key (finishBucket g)) =
      ((groups ys).map (·.1)).map (fun b => key (finishBucket (b, ys.filter (inB b)))) := by
    conv => lhs; rw [groups_eq ys]
    rw [List.map_map]; rfl
  rw [ex, ey]
  have hkeys : ((groups xs).map (·.1)).Perm ((groups ys).map (·.1)) := by
    rw [List.perm_ext_iff_of_nodup (groups_inv xs).nodup (groups_inv ys).nodup]
    intro b
    rw [mem_groups_keys, mem_groups_keys]
    constructor
    · rintro ⟨v, hv, rfl⟩
      have : key v ∈ ys.map key := h.mem_iff.1 (List.mem_map.2 ⟨v, hv, rfl⟩)
      obtain ⟨w, hw, e⟩ := List.mem_map.1 this
      exact ⟨w, hw, by rw [bucketOf_key, bucketOf_key, e]⟩
    · rintro ⟨w, hw, rfl⟩
      have : key w ∈ xs.map key := h.mem_iff.2 (List.mem_map.2 ⟨w, hw, rfl⟩)
      obtain ⟨v, hv, e⟩ := List.mem_map.1 this
      exact ⟨v, hv, by rw [bucketOf_key, bucketOf_key, e]⟩
  have hphi : ∀ b, key (finishBucket (b, xs.filter (inB b))) = key (finishBucket (b, ys.filter (inB b))) := by
    intro b
    apply finish_order_independent b
    · intro v hv; simpa [inB] using (List.mem_filter.1 hv).2
    · intro w hw; simpa [inB] using (List.mem_filter.1 hw).2
    · intro v hv; exact tx v (List.mem_filter.1 hv).1
    · intro w hw; exact ty w (List.mem_filter.1 hw).1
    · exact hn.filter _
    · exact KP.filter (inB b) (fun k => decide (bucketK k = b)) (inB_eq b) h
  rw [List.map_congr_left (fun b _ => hphi b)]
  exact hkeys.map _

end Arrai.C07
