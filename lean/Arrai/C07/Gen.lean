/-
  C07 case generator: programs over data values whose results have several members of mixed kinds
  (so that the enumeration order matters to the implementation), with the observable predicted by
  the model under the identity enumeration order (`Proofs/C07`: every enumeration order gives the same).
-/
import Arrai.C07.Model
import Arrai.C06.Gen

namespace Arrai.C07
open Arrai.C06

/-- does some set-builder call of the evaluation (under the identity order) receive a member list satisfying `chk`? -/
def siteAny (chk : List Rep → Bool) : Ex → Bool
  | .lit _ _ => false
  | .union a b =>
    siteAny chk a || siteAny chk b ||
      (match Impl.evalUnder id a, Impl.evalUnder id b with
       | .ok A, .ok B => chk (members A ++ members B)
       | _, _ => false)
  | .inter a b =>
    siteAny chk a || siteAny chk b ||
      (match Impl.evalUnder id a, Impl.evalUnder id b with
       | .ok A, .ok B => chk ((members A).filter (fun x => Impl.memberOf x B))
       | _, _ => false)
  | .diff a b =>
    siteAny chk a || siteAny chk b ||
      (match Impl.evalUnder id a, Impl.evalUnder id b with
       | .ok A, .ok B => chk ((members A).filter (fun x => !Impl.memberOf x B))
       | _, _ => false)
  | .map a f =>
    siteAny chk a || (match Impl.evalUnder id a with
      | .ok A => chk ((members A).map f.apply)
      | .err => false)
  | .filter a p =>
    siteAny chk a || (match Impl.evalUnder id a with
      | .ok A => chk ((members A).filter p.apply)
      | .err => false)
  | .orderby a _ => siteAny chk a
  | .with_ a e =>
    siteAny chk a || siteAny chk e ||
      (match Impl.evalUnder id a, Impl.evalUnder id e with
       | .ok A, .ok x => chk (members A ++ [x])
       | _, _ => false)
  | .without a e =>
    siteAny chk a || siteAny chk e ||
      (match Impl.evalUnder id a, Impl.evalUnder id e with
       | .ok A, .ok x => chk ((members A).filter (fun y => !C06.Impl.equal y x))
       | _, _ => false)
  | .count a => siteAny chk a
  | .single a => siteAny chk a
  | .setpat lits _ a =>
    siteAny chk a || (match Impl.evalUnder id a with
      | .ok A => chk ((members A).filter (fun y => !lits.any (fun l => C06.Impl.equal y l.2)))
      | .err => false)
  | .rank a _ => siteAny chk a

/-- two sugar tuples of one kind at one index somewhere (`KF-superimposed`: genuine order dependence) -/
def superAt (e : Ex) : Bool := siteAny superimposed e

/-- byte tuples with a gap somewhere (`KF-bytes-holes`: `asBytes` fills the gap with byte 0 — deterministic, but the set
gains members, C01's finding) -/
def holesAt (e : Ex) : Bool := siteAny bytesHoles e

/-- class of a case: each known finding under its own id -/
def clsOf (e : Ex) : String :=
  if superAt e then "KF-superimposed" else if holesAt e then "KF-bytes-holes" else "good"

/-- an `orderby` whose keys tie somewhere (documented as order-dependent) -/
def tiesAt : Ex → Bool
  | .lit _ _ => false
  | .union a b | .inter a b | .diff a b | .with_ a b | .without a b => tiesAt a || tiesAt b
  | .map a _ | .filter a _ | .count a | .single a | .setpat _ _ a | .rank a _ => tiesAt a
  | .orderby a f =>
    tiesAt a || (match Impl.evalUnder id a with
      | .ok A =>
        let ks := (members A).map f.apply
        (C06.Impl.dedupR [] ks).length != ks.length
      | .err => false)

def litEx (v : Val) : Ex := .lit v.src v.rep

/-- a set with 4–7 members of mixed kinds -/
def genMixedSet (d : Nat) : Gen Val := do
  let n ← rand 4
  let ms ← genList (n + 2) (genVal d)
  let i ← randInt 0 2
  let extra : List Val :=
    [ofLitVal (.num i), ofLitVal (.str 0 [97 + i.toNat]), ofLitVal (.tup [("a", .num i)]), ofLitVal (.tup []),
     ofLitVal (.set []), ofLitVal (.arr 0 [some (.num i)]), ofLitVal (.tup [("b", .num 1), ("a", .num 2)]),
     negVal (ofLitVal (.set [.num i])), ofLitVal (.dict [(.num i, .num 1)]), ofLitVal .tt]
  let k ← rand 7
  let sh ← shuffle extra
  pure (setVal (ms ++ sh.take (k + 2)))

/-! ## big collections: frozen keeps up to about eight items in insertion order, so the enumeration order differs
between processes only from roughly nine members upward -/

def bigPool : List Val :=
  let n (i : Int) := ofLitVal (.num i)
  (List.range 9).map (fun i => n (Int.ofNat i - 2)) ++
  (List.range 6).map (fun i => ofLitVal (.str 0 [97 + i])) ++
  [ofLitVal (.str 1 [97]), ofLitVal (.str (-1) [98, 99]), ofLitVal (.str 0 [97, 98])] ++
  (List.range 4).map (fun i => ofLitVal (.tup [("a", .num (Int.ofNat i))])) ++
  (List.range 3).map (fun i => ofLitVal (.tup [("b", .num (Int.ofNat i))])) ++
  (List.range 3).map (fun i => ofLitVal (.arr 0 [some (.num (Int.ofNat i))])) ++
  (List.range 3).map (fun i => ofLitVal (.set [.num (Int.ofNat i)])) ++
  [ofLitVal (.arr 1 [some (.num 0)]), ofLitVal (.tup []), ofLitVal (.set []), ofLitVal .tt,
   ofLitVal (.dict [(.num 1, .num 2)]), ofLitVal (.dict [(.str 0 [97], .num 1)]), ofLitVal (.bytes 0 [1, 2]),
   ofLitVal (.bytes 1 [1]), negVal (ofLitVal (.set [.num 1])), negVal (ofLitVal (.tup [("a", .num 1)])),
   ofLitVal (.tup [("a", .num 1), ("b", .num 2)]), ofLitVal (.set [.num 1, .str 0 [97]]),
   ofLitVal (.rel ["a", "b"] [[.num 1, .num 2]])]

/-- a set with 12–18 members of mixed kinds -/
def genBigSet : Gen Val := do
  let n ← rand 7
  let sh ← shuffle bigPool
  pure (setVal (sh.take (n + 12)))

def genFn : Gen Fn := do
  let r ← rand 8
  match r with
  | 0 | 1 => pure .ident
  | 2 => pure .wrapA
  | 3 => pure .single
  | 4 => pure .arr1
  | 5 => do pure (.pairWith (← randInt 0 2))
  | 6 => pure .neg
  | _ => do pure (.const (← randInt 0 1))

def genPr : Gen Pr := do
  let r ← rand 4
  match r with
  | 0 => do pure (.ltNum (← randInt 0 3))
  | 1 => do pure (.neNum (← randInt 0 2))
  | 2 => pure .geSet
  | _ => pure .all

/-- `-.` is only generated over members that negate to a wrapper or a number (a negated @char is a hole
marker, a negated @byte wraps: C05/C01 — see `KF-negative-char`) -/
def negOk (a : Ex) : Bool :=
  match Impl.evalUnder (fun l => l) a with
  | .ok A => (members A).all canNegate
  | .err => true

def fixFn (a : Ex) (f : Fn) : Fn :=
  match f with
  | .neg => if negOk a then .neg else .ident
  | f => f

def genEx : Nat → Gen Ex
  | 0 => do
    if (← chance 1 2) then pure (litEx (← genBigSet)) else pure (litEx (← genMixedSet 2))
  | d + 1 => do
    let r ← rand 14
    match r with
    | 0 | 1 => do pure (.union (← genEx d) (← genEx d))
    | 2 => do pure (.inter (← genEx d) (← genEx d))
    | 3 => do pure (.diff (← genEx d) (← genEx d))
    | 4 | 5 | 6 => do
      let a ← genEx d
      pure (.map a (fixFn a (← genFn)))
    | 7 => do pure (.filter (← genEx d) (← genPr))
    | 8 | 9 => do
      let a ← genEx d
      pure (.orderby a (fixFn a (← genFn)))
    | 10 => do pure (.with_ (← genEx d) (litEx (← genVal 2)))
    | 11 => do pure (.without (← genEx d) (litEx (← genVal 1)))
    | 12 => do pure (.single (← genEx d))
    | _ => do pure (litEx (← genMixedSet 2))

/-- big literals: dictionaries, tuples with many attributes, relations -/
def genBigLit : Gen Ex := do
  let r ← rand 3
  match r with
  | 0 => do
    let n ← rand 8
    let ks ← genList (n + 10) (genVal 1)
    let ks := Lit.dedupBy (fun (v : Val) => den v.rep) ks
    let vs ← genList ks.length (genVal 1)
    let kvs := ks.zip vs
    pure (.lit ("{" ++ ", ".intercalate (kvs.map (fun p => p.1.src ++ ": " ++ p.2.src)) ++ "}")
      (if kvs.isEmpty then .empty else .dict (kvs.map (fun p => [p.1.rep, p.2.rep]))))
  | 1 => do
    let names := ["zeta", "a", "m", "b", "k1", "y", "x", "c", "k2", "zz", "d", "e", "f", "g", "h", "n", "o", "p"]
    let n ← rand 7
    let sh ← shuffle names
    let ns := sh.take (n + 12)
    let vs ← genList ns.length (genVal 1)
    pure (litEx (tupVal (ns.zip vs)))
  | _ => do
    let m ← rand 6
    let rows ← genList (m + 12) (genList 3 (genVal 1))
    let ns := ["c", "a", "b"]
    pure (litEx (setVal (rows.map (fun row => tupVal (ns.zip row)))))

/-- numbers and plain strings only (they can be written as items of a set pattern), 12–16 of them -/
def numStrPool : List Val :=
  (List.range 10).map (fun i => ofLitVal (.num (Int.ofNat i))) ++ (List.range 8).map (fun i => ofLitVal (.str 0 [97 + i, 98]))

def genRows : Gen (List (Int × Int)) := do
  let n ← rand 5
  genList (n + 12) (do pure ((← randInt 0 2), (← randInt 0 3)))

def mkPgCase (id stratum : String) (p : Pg) (kf : Bool) (rep : Nat := 1) : Case :=
  let o := Impl.obsPg p
  { id := id, cls := if kf then "KF-superimposed" else "good", kind := "run", stratum := stratum, model := o, spec := o,
    payload := if rep ≤ 1 then [p.src] else [p.src, "x" ++ toString rep] }

/-! ### numeric reducers (the result must not depend on the order in which the members are folded) -/

/-- `n` without its factors 2 and 5 -/
def oddPart5 (n : Nat) : Nat := Id.run do
  let mut m := n
  for _ in [0:8] do
    if m != 0 && m % 2 == 0 then m := m / 2
  for _ in [0:4] do
    if m != 0 && m % 5 == 0 then m := m / 5
  pure m

/-- move one member so that the mean is a terminating decimal: the sum becomes a multiple of the part of `n` prime to 10 -/
def fixMean (us : List Int) : List Int :=
  let m : Int := (oddPart5 us.length : Nat)
  if m ≤ 1 then us
  else
    let r := (us.foldl (· + ·) 0) % m
    if r == 0 then us
    else match us.find? (fun u => !us.contains (u - r)) with
      | some u => us.map (fun x => if x == u then u - r else x)
      | none => us

def genNumCase (idx : Nat) : Gen Case := do
  if (← chance 2 3) then
    let n ← rand 9
    let pool ← shuffle (List.range 150)
    let us : List Int := (pool.take (n + 12)).map (fun k => (Int.ofNat k) - 30)
    let scale ← pick [1, 1, 1, 2, 4]
    let op ← pick [0, 1, 1, 1, 2, 3, 4, 5]
    let us := if op == 1 then fixMean us else us
    let op := if op == 1 && !terminates (us.foldl (· + ·) 0) (scale * us.length) then 0 else op
    pure (mkPgCase s!"C07-p{idx}" s!"numred/{if op == 5 then "count" else redName op}/s{scale}" (.numred us scale op) false 2)
  else
    let rows ← genRows
    let op ← pick [0, 1, 1, 2, 3, 4, 5]
    let op := if op == 1 && !terminates ((rows.map (·.2)).foldl (· + ·) 0) rows.length then 2 else op
    pure (mkPgCase s!"C07-p{idx}" s!"numrel/{if op == 5 then "count" else redName op}" (.numrel rows op) false 2)

/-! ### the same inner value in several spellings inside a big outer set / dictionary -/

/-- 2–3 spellings (member orders, literal forms) of one mixed-kind value -/
def genSpellings : Gen (List Val) := do
  let i ← randInt 0 3
  let num (k : Int) := ofLitVal (.num k)
  let kind ← rand 5
  match kind with
  | 0 | 1 => do
    -- a union set: numbers, tuples, strings, arrays, a nested set
    let all : List Val := [num i, ofLitVal (.tup [("a", .num i)]), ofLitVal (.str 0 [97 + i.toNat]), ofLitVal (.arr 0 [some (.num i)]),
      ofLitVal (.set [.num 1, .tup [("b", .num 2)]]), ofLitVal (.tup [("a", .num 1), ("b", .num i)])]
    let k ← rand 4
    let ms := (← shuffle all).take (k + 2)
    pure [setVal ms, setVal ms.reverse, setVal (← shuffle ms)]
  | 2 => do
    -- a tuple with a set-valued attribute
    let ms : List Val := [num i, ofLitVal (.tup [("a", .num 1)]), ofLitVal (.str 0 [98])]
    pure [tupVal [("s", setVal ms), ("n", num 1)], tupVal [("n", num 1), ("s", setVal ms.reverse)],
          tupVal [("s", setVal (← shuffle ms)), ("n", num 1)]]
  | 3 => do
    -- a dictionary with keys of several kinds
    let kvs : List (Lit × Lit) := [(.num i, .str 0 [97]), (.tup [("a", .num 1)], .num 2), (.str 0 [107], .set [.num 1, .tup []]),
      (.set [.num 1, .str 0 [97]], .num 3)]
    pure [ofLitVal (.dict kvs), ofLitVal (.dict kvs.reverse), ofLitVal (.dict (← shuffle kvs))]
  | _ => do
    -- a relation: heading literal, columns swapped, a set of tuples
    let rows : List (List Int) := [[1, i], [2, 1], [i + 1, 2]].eraseDups
    let swapped := ofLitVal (.rel ["b", "a"] (rows.reverse.map (fun r => (r.reverse.map Lit.num))))
    pure [litRelVal ["a", "b"] rows false, swapped, litRelVal ["a", "b"] (← shuffle rows) true]

def genDupCase (idx : Nat) : Gen Case := do
  let sp ← genSpellings
  let s1 := sp.getD 0 default
  let s2 := sp.getD 1 default
  let s3 := sp.getD 2 default
  let n ← rand 5
  let fill := ((← shuffle numStrPool).take (n + 12)).zipIdx.map (fun (v, j) => ((v.src, v.rep), (Int.ofNat j)))
  let e (v : Val) : (String × Rep) × Int := ((v.src, v.rep), 77)
  let mode ← rand 9
  let (o1, o2) ← match mode with
    | 0 | 4 => do
      let three ← chance 1 2
      pure (← shuffle (fill ++ [e s1, e s2] ++ (if three then [e s3] else [])), [])
    | 2 => do
      let k ← rand 4
      pure (← shuffle (fill ++ [e s1]), ← shuffle (fill.drop k ++ [e s2]))
    | _ => do pure (← shuffle (fill ++ [e s1]), ← shuffle (fill ++ [e s2]))
  pure (mkPgCase s!"C07-p{idx}" s!"dup/m{mode}" (.dup o1 o2 (s3.src, s3.rep) mode) false 3)

def genPgCase (idx : Nat) : Gen Case := do
  let r ← rand 20
  match r with
  | 12 | 13 | 14 | 15 => genNumCase idx
  | 16 | 17 | 18 | 19 => genDupCase idx
  | 0 | 1 | 2 | 3 => do
    -- set patterns over 12–16 numbers/strings plus (sometimes) one other value
    let n ← rand 5
    let sh ← shuffle numStrPool
    let base := sh.take (n + 12)
    let odd ← pick [ofLitVal (.tup [("a", .num 1)]), ofLitVal (.set [.num 1]), ofLitVal (.arr 0 [some (.num 5)]), ofLitVal (.num 77)]
    let withOdd ← chance 2 3
    let members ← shuffle (if withOdd then odd :: base else base)
    let s : Ex := litEx (setVal members)
    let s ← if (← chance 1 4) then pure (Ex.union s (litEx (setVal (members.take 3)))) else pure s
    let shape ← rand 6
    let lits (vs : List Val) : List (String × Rep) := vs.map (fun v => (v.src, v.rep))
    let blits ← shuffle base
    let mode ← rand 3
    let mode := if mode == 1 then 1 else if mode == 2 then 2 else 0
    let p : Pg := match shape with
      | 0 => .setpat [] mode s                                          -- `{a}` against many items
      | 1 => .setpat (lits blits) mode s                                -- all the literals: one (or no) item left
      | 2 => .setpat (lits (blits.drop 1)) mode s                       -- two (or one) left
      | 3 => .setpat (lits (blits.take 3)) mode s                       -- many left
      | 4 => .setpat (lits (blits.take 4) ++ [("99", .num 99)]) mode s  -- a literal that is not an item
      | _ => .setpat (lits (blits.drop 2)) 1 s                          -- the rest: a small set
    pure (mkPgCase s!"C07-p{idx}" s!"setpat/{shape}/m{mode}" p false)
  | 4 | 5 | 6 => do
    let rows ← genRows
    let three ← chance 1 2
    let post ← rand 3
    let c ← randInt 0 3
    pure (mkPgCase s!"C07-p{idx}" s!"rank/{if three then 3 else 2}attrs/post{post}" (.rank rows three post c) false)
  | 7 => do
    let rows ← genRows
    let mode ← rand 2
    pure (mkPgCase s!"C07-p{idx}" s!"orderby-attr/{mode}" (.orderbyAttr rows mode) false)
  | 8 => do
    let rows ← genRows
    let mode ← rand 2
    pure (mkPgCase s!"C07-p{idx}" s!"nest/{mode}" (.nest rows mode) false)
  | 9 => do
    let s ← genBigSet
    let f ← pick [Fn.const 1, Fn.ident, Fn.single, Fn.arr1]
    pure (mkPgCase s!"C07-p{idx}" "orderby-keys" (.orderbyKeys (litEx s) f) false)
  | _ => do
    let s ← genBigSet
    let op ← rand 2
    let f ← pick [Fn.ident, Fn.single, Fn.arr1, Fn.const 0]
    pure (mkPgCase s!"C07-p{idx}" (if op == 0 then "max" else "min") (.reduce (litEx s) op f) false)

def mkCase (id stratum : String) (e : Ex) (rep : Nat := 1) : Case :=
  let o := Impl.obs (Impl.evalUnder (fun l => l) e)
  let cls := clsOf e
  let pl := if rep ≤ 1 then [e.src] else [e.src, "x" ++ toString rep]
  if tiesAt e then
    -- tied orderby keys: documented as order-dependent; only "no crash" is demanded and the case is not
    -- compared across processes
    { id := id, cls := cls, kind := "run", stratum := stratum ++ "/ties-exempt", model := o, spec := "!panic", payload := pl }
  else
    { id := id, cls := cls, kind := "run", stratum := stratum, model := o, spec := o, payload := pl }

def exName : Ex → String
  | .lit _ _ => "lit" | .union _ _ => "union" | .inter _ _ => "inter" | .diff _ _ => "diff" | .map _ _ => "map"
  | .filter _ _ => "where" | .orderby _ _ => "orderby" | .with_ _ _ => "with" | .without _ _ => "without"
  | .count _ => "count" | .single _ => "single" | .setpat _ _ _ => "setpat-ex" | .rank _ _ => "rank-ex"

def corpus : List Case :=
  let n (i : Int) := ofLitVal (.num i)
  let mixed := setVal [ofLitVal (.tup []), ofLitVal (.set []), ofLitVal (.tup [("a", .num 1)]), n 1,
    ofLitVal (.str 0 [97]), ofLitVal .tt, ofLitVal (.arr 0 [some (.num 2)])]
  [ mkCase "C07-corpus-0" "corpus" (litEx mixed),                         -- print order varied between processes
    mkCase "C07-corpus-1" "corpus" (.map (litEx mixed) .single),
    mkCase "C07-corpus-2" "corpus" (.orderby (litEx mixed) .ident),
    mkCase "C07-corpus-3" "corpus" (.union (litEx mixed) (litEx (setVal [n 2, ofLitVal (.tup [("b", .num 1)])]))),
    -- KF-superimposed: which character survives depends on the enumeration order of the argument set
    { id := "C07-corpus-kf0", cls := "KF-superimposed", kind := "run", stratum := "corpus/kf",
      model := "", spec := "{(@:0,@char:97)}\n'a'\na\n",
      payload := ["{(@: 0, @char: 97), (@: 0, @char: 98)} => ."] },
    -- a negated @char is a hole marker: the String bucket of the result enumerates nothing; before the repair
    -- of the UnionSet enumerator the buckets after it (in this process's bucket order) were lost
    { id := "C07-corpus-negchar", cls := "good", kind := "run", stratum := "corpus/negchar",
      model := "", spec := "{(@neg:(a:1)),-2}\n{(@neg: (a: 1)), -2}\n{(@neg: (a: 1)), -2}\n",
      payload := ["{(@: 0, @char: 99), 2, (a: 1)} => -."] } ]

/-! ### union sets over buckets of every kind: the printed form merges the buckets in the C06 order

`{1, 'x'} | {'b': 1, 'a': 2}`: the members of a dictionary, a relation, an array with holes, a byte array, a string are
handed to the set builder next to generic members; the result is a `UnionSet` whose printed text (and CLI output) walks all
members in the C06 order whatever order each bucket enumerates in (a dictionary: insertion order up to 8 entries, hash
order beyond). -/
def genBucketUnionCase (idx : Nat) : Gen Case := do
  let i ← randInt 0 3
  let small : Ex := litEx (setVal ((← shuffle [ofLitVal (.num i), ofLitVal (.str 0 [120]), ofLitVal (.tup [("a", .num i)]),
    ofLitVal (.set [.num 1])]).take ((← rand 3) + 1)))
  -- a dictionary with 2–3 entries in NON-sorted literal order, or with 12–16 entries
  let bigDict ← chance 1 2
  let nd ← rand 5
  let dictEx : Ex ←
    if bigDict then do
      let ks := (← shuffle ((List.range 12).map (fun k => Lit.str 0 [97 + k]) ++ (List.range 8).map (fun k => Lit.num (Int.ofNat k)))).take (nd + 12)
      pure (litEx (ofLitVal (.dict (ks.zipIdx.map (fun (k, j) => (k, Lit.num (Int.ofNat (j % 3))))))))
    else do
      let kvs : List (Lit × Lit) := [(.str 0 [99], .num 1), (.str 0 [98], .num 2), (.str 0 [97], .num i)]
      pure (litEx (ofLitVal (.dict (kvs.drop (← rand 2)))))
  let relEx : Ex := litEx (ofLitVal (.rel ["a", "b"] [[.num 2, .num i], [.num 1, .num 2], [.num 0, .num 3]]))
  let arrEx : Ex := litEx (ofLitVal (.arr (← randInt 0 1) [some (.num 2), none, some (.num i), none, some (.str 0 [97])]))
  let bytesEx : Ex := litEx (ofLitVal (.bytes (← randInt 0 1) [3, 1, 2]))
  let strEx : Ex := litEx (ofLitVal (.str 1 [99, 97, 98]))
  let others ← shuffle [relEx, arrEx, bytesEx, strEx]
  let k ← rand 3
  let parts ← shuffle ([dictEx] ++ others.take k)
  let e := parts.foldl (fun acc p => Ex.union acc p) small
  let top ← rand 6
  let e := match top with
    | 0 => Ex.with_ e (litEx (ofLitVal (.num 9)))
    | 1 => Ex.map e .ident
    | 2 => Ex.single e
    | _ => e
  pure (mkCase s!"C07-{idx}" s!"bucket-union/{if bigDict then "bigdict" else "dict"}/{k}" e 2)

def gen (seed n : Nat) (_thorough : Bool) : List Case := Id.run do
  let mut out := ({ id := "C07-seeds", cls := "good", kind := "seeds", stratum := "seeds", model := "", spec := "!panic",
                    payload := [] } : Case) :: corpus.reverse
  for i in [0:n] do
    let (c, _) := (do
      if i % 3 == 1 then genPgCase i
      else if i % 12 == 0 then genBucketUnionCase i
      else
        let big ← chance 1 5
        let e ← if big then genBigLit else genEx (if i % 3 == 0 then 2 else 1)
        pure (mkCase s!"C07-{i}" (exName e) e)).run (seedOf seed (700000 + i))
    out := c :: out
  pure out.reverse

end Arrai.C07
