/-
  C07 — the theorem for nested programs over all representations: every enumeration order gives a result with the
  same canonical key (or the same error).  Admissibility (`Adm`) is decided on the evaluation under the identity
  order: no set-builder call receives superimposed sugar tuples, `orderby` keys do not tie, literals have no tuple
  with a repeated attribute name.
-/
import Arrai.C07.RankLemmas

namespace Arrai.C07
open Arrai.C06 Std
open C06.Impl (Bucket bucketOf finishBucket build)

def idπ : EnumOrder := fun l => l

theorem idπ_perm : PermValued idπ := fun l => List.Perm.refl l

/-- members of the value of `e` under the identity order -/
def mem0 (e : Ex) : List Rep :=
  match Impl.evalUnder idπ e with
  | .ok r => members r
  | .err => []

def val0 (e : Ex) : Option Rep :=
  match Impl.evalUnder idπ e with
  | .ok r => some r
  | .err => none

/-- a value and its members are tuples without repeated attribute names (or not tuples at all) -/
def Inv2 (r : Rep) : Prop := tupleNodup r ∧ ∀ v ∈ members r, tupleNodup v

def litsPred (lits : List (String × Rep)) (y : Rep) : Bool := !lits.any (fun l => C06.Impl.equal y l.2)

/-- admissible programs -/
def Adm : Ex → Prop
  | .lit _ r => Inv2 r
  | .union a b => Adm a ∧ Adm b ∧ NoSuper (mem0 a ++ mem0 b)
  | .inter a b => Adm a ∧ Adm b ∧
      NoSuper ((mem0 a).filter (fun x => (mem0 b).any (fun y => C06.Impl.equal y x)))
  | .diff a b => Adm a ∧ Adm b ∧
      NoSuper ((mem0 a).filter (fun x => !(mem0 b).any (fun y => C06.Impl.equal y x)))
  | .map a f => Adm a ∧ f.ok = true ∧ NoSuper ((mem0 a).map f.apply)
  | .filter a p => Adm a ∧ NoSuper ((mem0 a).filter p.apply)
  | .orderby a f => Adm a ∧ f.ok = true ∧ NoTies f.apply (mem0 a)
  | .with_ a e => Adm a ∧ Adm e ∧ (∀ x, val0 e = some x → NoSuper (mem0 a ++ [x]))
  | .without a e => Adm a ∧ Adm e ∧
      (∀ x, val0 e = some x → NoSuper ((mem0 a).filter (fun y => !C06.Impl.equal y x)))
  | .count a => Adm a
  | .single a => Adm a
  | .setpat lits rest a => rest = true ∧ Adm a ∧ NoSuper ((mem0 a).filter (litsPred lits))
  | .rank a attrs => Adm a ∧ (attrs.map (·.1)).Nodup

/-! ### the set builder returns sets -/
theorem isSet_finish (b : Bucket) (vs : List Rep) : isSet (finishBucket (b, vs)) = true := by
  cases b with
  | generic =>
    simp only [finishBucket]
    rcases C06.Impl.dedupR [] vs with _ | ⟨y, _ | ⟨z, r⟩⟩
    · rfl
    · dsimp only; split <;> rfl
    · rfl
  | _ => rfl

theorem isSet_build (xs : List Rep) : isSet (build xs) = true := by
  unfold build
  show isSet (match groups xs with
    | [] => Rep.empty
    | [g] => finishBucket g
    | gs => Rep.union (gs.map finishBucket)) = true
  rcases groups xs with _ | ⟨a, _ | ⟨b, r⟩⟩
  · rfl
  · exact isSet_finish a.1 a.2
  · rfl

theorem tupleNodup_of_isSet {r : Rep} (h : isSet r = true) : tupleNodup r := by
  cases r <;> simp [isSet] at h <;> trivial

theorem inv2_build {xs : List Rep} (h : ∀ x ∈ xs, tupleNodup x) : Inv2 (build xs) :=
  ⟨tupleNodup_of_isSet (isSet_build xs), members_build_nodup xs h⟩

theorem NoSuper_singleton (x : Rep) : NoSuper [x] := by
  refine ⟨?_, ?_, ?_⟩ <;> cases x <;> simp [charIdx, byteIdx, itemIdx]

/-- what the induction carries: both evaluations succeed with key-equal, well-named results, or both fail -/
def Agree (π : EnumOrder) (e : Ex) : Prop :=
  (∃ r r₀, Impl.evalUnder π e = .ok r ∧ Impl.evalUnder idπ e = .ok r₀ ∧ key r = key r₀ ∧ Inv2 r ∧ Inv2 r₀) ∨
  (Impl.evalUnder π e = .err ∧ Impl.evalUnder idπ e = .err)

theorem mem0_eq {e : Ex} {r₀ : Rep} (h : Impl.evalUnder idπ e = .ok r₀) : mem0 e = members r₀ := by
  simp [mem0, h]

theorem enumKP2 {π : EnumOrder} (hπ : PermValued π) {A A₀ : Rep} (hk : key A = key A₀) :
    KP (π (members A)) (members A₀) :=
  (KP.of_perm (hπ _)).trans (members_KP_of_key hk)

theorem any_equal_KP {l l' : List Rep} (h : KP l l') (x x' : Rep) (hx : key x = key x') :
    (l.any fun y => C06.Impl.equal y x) = (l'.any fun y => C06.Impl.equal y x') := by
  have e1 : (l.any fun y => C06.Impl.equal y x) = ((l.map key).any fun k => K.beq k (key x)) := by
    simp [List.any_map, Function.comp_def, C06.Impl.equal]
  have e2 : (l'.any fun y => C06.Impl.equal y x') = ((l'.map key).any fun k => K.beq k (key x')) := by
    simp [List.any_map, Function.comp_def, C06.Impl.equal]
  rw [e1, e2, hx]; exact any_perm _ h

/-- the common step: build from key-permuted admissible inputs -/
theorem build_step {xs xs₀ : List Rep} (hn : NoSuper xs₀) (h : KP xs xs₀)
    (t : ∀ v ∈ xs, tupleNodup v) (t₀ : ∀ v ∈ xs₀, tupleNodup v) :
    key (build xs) = key (build xs₀) ∧ Inv2 (build xs) ∧ Inv2 (build xs₀) :=
  ⟨(build_order_independent hn t₀ t h.symm).symm, inv2_build t, inv2_build t₀⟩

theorem memberOf_KP {B B₀ : Rep} (hk : key B = key B₀) (x : Rep) : Impl.memberOf x B = Impl.memberOf x B₀ :=
  any_equal_KP (members_KP_of_key hk) x x rfl

theorem agree (π : EnumOrder) (hπ : PermValued π) : ∀ (e : Ex), Adm e → Agree π e
  | .lit s r, h => Or.inl ⟨r, r, rfl, rfl, rfl, h, h⟩
  | .union a b, h => by
    obtain ⟨ha, hb, hn⟩ := h
    rcases agree π hπ a ha with ⟨A, A₀, ea, ea₀, ka, ia, ia₀⟩ | ⟨ea, ea₀⟩
    · rcases agree π hπ b hb with ⟨B, B₀, eb, eb₀, kb, ib, ib₀⟩ | ⟨eb, eb₀⟩
      · simp only [Agree, Impl.evalUnder, ea, ea₀, eb, eb₀]
        rw [isSet_of_key ka, isSet_of_key kb]
        by_cases hs : (isSet A₀ && isSet B₀) = true
        · rw [if_pos hs, if_pos hs]
          rw [mem0_eq ea₀, mem0_eq eb₀] at hn
          have hkp : KP (π (members A) ++ π (members B)) (idπ (members A₀) ++ idπ (members B₀)) :=
            (enumKP2 hπ ka).append (enumKP2 hπ kb)
          obtain ⟨k, i1, i2⟩ := build_step hn hkp
            (fun v hv => (List.mem_append.1 hv).elim (fun m => ia.2 v ((hπ _).mem_iff.1 m)) (fun m => ib.2 v ((hπ _).mem_iff.1 m)))
            (fun v hv => (List.mem_append.1 hv).elim (fun m => ia₀.2 v m) (fun m => ib₀.2 v m))
          exact Or.inl ⟨_, _, rfl, rfl, k, i1, i2⟩
        · rw [if_neg hs, if_neg hs]; exact Or.inr ⟨rfl, rfl⟩
      · exact Or.inr ⟨by simp only [Impl.evalUnder, ea, eb], by simp only [Impl.evalUnder, ea₀, eb₀]⟩
    · exact Or.inr ⟨by simp only [Impl.evalUnder, ea], by simp only [Impl.evalUnder, ea₀]⟩
  | .inter a b, h => by
    obtain ⟨ha, hb, hn⟩ := h
    rcases agree π hπ a ha with ⟨A, A₀, ea, ea₀, ka, ia, ia₀⟩ | ⟨ea, ea₀⟩
    · rcases agree π hπ b hb with ⟨B, B₀, eb, eb₀, kb, ib, ib₀⟩ | ⟨eb, eb₀⟩
      · simp only [Agree, Impl.evalUnder, ea, ea₀, eb, eb₀]
        rw [isSet_of_key ka, isSet_of_key kb]
        by_cases hs : (isSet A₀ && isSet B₀) = true
        · rw [if_pos hs, if_pos hs]
          rw [mem0_eq ea₀, mem0_eq eb₀] at hn
          have hq : (fun x => Impl.memberOf x B) = (fun x => Impl.memberOf x B₀) := by
            funext x; exact memberOf_KP kb x
          rw [hq]
          have hkp : KP ((π (members A)).filter (fun x => Impl.memberOf x B₀)) ((idπ (members A₀)).filter (fun x => Impl.memberOf x B₀)) :=
            KP.filter _ (fun k => ((members B₀).map key).any (fun k' => K.beq k' k)) (fun x => memberOf_eq x B₀) (enumKP2 hπ ka)
          obtain ⟨k, i1, i2⟩ := build_step (by simpa [Impl.memberOf, idπ] using hn) hkp
            (fun v hv => ia.2 v ((hπ _).mem_iff.1 (List.mem_filter.1 hv).1))
            (fun v hv => ia₀.2 v (List.mem_filter.1 hv).1)
          exact Or.inl ⟨_, _, rfl, rfl, k, i1, i2⟩
        · rw [if_neg hs, if_neg hs]; exact Or.inr ⟨rfl, rfl⟩
      · exact Or.inr ⟨by simp only [Impl.evalUnder, ea, eb], by simp only [Impl.evalUnder, ea₀, eb₀]⟩
    · exact Or.inr ⟨by simp only [Impl.evalUnder, ea], by simp only [Impl.evalUnder, ea₀]⟩
  | .diff a b, h => by
    obtain ⟨ha, hb, hn⟩ := h
    rcases agree π hπ a ha with ⟨A, A₀, ea, ea₀, ka, ia, ia₀⟩ | ⟨ea, ea₀⟩
    · rcases agree π hπ b hb with ⟨B, B₀, eb, eb₀, kb, ib, ib₀⟩ | ⟨eb, eb₀⟩
      · simp only [Agree, Impl.evalUnder, ea, ea₀, eb, eb₀]
        rw [isSet_of_key ka, isSet_of_key kb]
        by_cases hs : (isSet A₀ && isSet B₀) = true
        · rw [if_pos hs, if_pos hs]
          rw [mem0_eq ea₀, mem0_eq eb₀] at hn
          have hq : (fun x => !Impl.memberOf x B) = (fun x => !Impl.memberOf x B₀) := by
            funext x; rw [memberOf_KP kb x]
          rw [hq]
          have hkp : KP ((π (members A)).filter (fun x => !Impl.memberOf x B₀)) ((idπ (members A₀)).filter (fun x => !Impl.memberOf x B₀)) :=
            KP.filter _ (fun k => !((members B₀).map key).any (fun k' => K.beq k' k)) (fun x => by rw [memberOf_eq]) (enumKP2 hπ ka)
          obtain ⟨k, i1, i2⟩ := build_step (by simpa [Impl.memberOf, idπ] using hn) hkp
            (fun v hv => ia.2 v ((hπ _).mem_iff.1 (List.mem_filter.1 hv).1))
            (fun v hv => ia₀.2 v (List.mem_filter.1 hv).1)
          exact Or.inl ⟨_, _, rfl, rfl, k, i1, i2⟩
        · rw [if_neg hs, if_neg hs]; exact Or.inr ⟨rfl, rfl⟩
      · exact Or.inr ⟨by simp only [Impl.evalUnder, ea, eb], by simp only [Impl.evalUnder, ea₀, eb₀]⟩
    · exact Or.inr ⟨by simp only [Impl.evalUnder, ea], by simp only [Impl.evalUnder, ea₀]⟩
  | .map a f, h => by
    obtain ⟨ha, hf, hn⟩ := h
    rcases agree π hπ a ha with ⟨A, A₀, ea, ea₀, ka, ia, ia₀⟩ | ⟨ea, ea₀⟩
    · simp only [Agree, Impl.evalUnder, ea, ea₀]
      rw [isSet_of_key ka]
      by_cases hs : isSet A₀ = true
      · rw [if_pos hs, if_pos hs]
        rw [mem0_eq ea₀] at hn
        have hkp : KP ((π (members A)).map f.apply) ((idπ (members A₀)).map f.apply) :=
          KP.map f.apply f.onKey2 (fun x _ => Fn.key_apply f hf x) (enumKP2 hπ ka)
        obtain ⟨k, i1, i2⟩ := build_step hn hkp
          (fun v hv => by
            obtain ⟨x, hx, rfl⟩ := List.mem_map.1 hv
            exact Fn.tupleNodup_apply f hf x (ia.2 x ((hπ _).mem_iff.1 hx)))
          (fun v hv => by
            obtain ⟨x, hx, rfl⟩ := List.mem_map.1 hv
            exact Fn.tupleNodup_apply f hf x (ia₀.2 x hx))
        exact Or.inl ⟨_, _, rfl, rfl, k, i1, i2⟩
      · rw [if_neg hs, if_neg hs]; exact Or.inr ⟨rfl, rfl⟩
    · exact Or.inr ⟨by simp only [Impl.evalUnder, ea], by simp only [Impl.evalUnder, ea₀]⟩
  | .filter a p, h => by
    obtain ⟨ha, hn⟩ := h
    rcases agree π hπ a ha with ⟨A, A₀, ea, ea₀, ka, ia, ia₀⟩ | ⟨ea, ea₀⟩
    · simp only [Agree, Impl.evalUnder, ea, ea₀]
      rw [isSet_of_key ka]
      by_cases hs : isSet A₀ = true
      · rw [if_pos hs, if_pos hs]
        rw [mem0_eq ea₀] at hn
        have hkp : KP ((π (members A)).filter p.apply) ((idπ (members A₀)).filter p.apply) :=
          KP.filter _ p.onKey (Pr.apply_eq p) (enumKP2 hπ ka)
        obtain ⟨k, i1, i2⟩ := build_step hn hkp
          (fun v hv => ia.2 v ((hπ _).mem_iff.1 (List.mem_filter.1 hv).1))
          (fun v hv => ia₀.2 v (List.mem_filter.1 hv).1)
        exact Or.inl ⟨_, _, rfl, rfl, k, i1, i2⟩
      · rw [if_neg hs, if_neg hs]; exact Or.inr ⟨rfl, rfl⟩
    · exact Or.inr ⟨by simp only [Impl.evalUnder, ea], by simp only [Impl.evalUnder, ea₀]⟩
  | .orderby a f, h => by
    obtain ⟨ha, hf, hn⟩ := h
    rcases agree π hπ a ha with ⟨A, A₀, ea, ea₀, ka, ia, ia₀⟩ | ⟨ea, ea₀⟩
    · simp only [Agree, Impl.evalUnder, ea, ea₀]
      rw [isSet_of_key ka]
      by_cases hs : isSet A₀ = true
      · rw [if_pos hs, if_pos hs]
        rw [mem0_eq ea₀] at hn
        have hk : (C06.Impl.orderBy f.apply (π (members A))).map key = (C06.Impl.orderBy f.apply (idπ (members A₀))).map key :=
          (orderBy_KP f hf hn (enumKP2 hπ ka).symm).symm
        have hinv : ∀ l : List Rep, Inv2 (C06.Impl.mkArray 0 (l.map some)) := by
          intro l
          rw [mkArray_somes]
          split
          · exact ⟨trivial, fun v hv => by simp [members, members1] at hv⟩
          · refine ⟨trivial, fun v hv => ?_⟩
            simp only [members, members1, List.mem_filterMap] at hv
            obtain ⟨q, _, hq⟩ := hv
            cases h2 : q.2 with
            | none => rw [h2] at hq; cases hq
            | some x => rw [h2] at hq; cases hq; trivial
        exact Or.inl ⟨_, _, rfl, rfl, key_mkArray_somes hk, hinv _, hinv _⟩
      · rw [if_neg hs, if_neg hs]; exact Or.inr ⟨rfl, rfl⟩
    · exact Or.inr ⟨by simp only [Impl.evalUnder, ea], by simp only [Impl.evalUnder, ea₀]⟩
  | .with_ a e, h => by
    obtain ⟨ha, he, hn⟩ := h
    rcases agree π hπ a ha with ⟨A, A₀, ea, ea₀, ka, ia, ia₀⟩ | ⟨ea, ea₀⟩
    · rcases agree π hπ e he with ⟨X, X₀, ex, ex₀, kx, ix, ix₀⟩ | ⟨ex, ex₀⟩
      · simp only [Agree, Impl.evalUnder, ea, ea₀, ex, ex₀]
        rw [isSet_of_key ka]
        by_cases hs : isSet A₀ = true
        · rw [if_pos hs, if_pos hs]
          have hn' := hn X₀ (by simp [val0, ex₀])
          rw [mem0_eq ea₀] at hn'
          have hkp : KP (π (members A) ++ [X]) (idπ (members A₀) ++ [X₀]) :=
            (enumKP2 hπ ka).append (by show ([X].map key).Perm ([X₀].map key); simp [kx])
          obtain ⟨k, i1, i2⟩ := build_step hn' hkp
            (fun v hv => (List.mem_append.1 hv).elim (fun m => ia.2 v ((hπ _).mem_iff.1 m)) (fun m => by simp at m; rw [m]; exact ix.1))
            (fun v hv => (List.mem_append.1 hv).elim (fun m => ia₀.2 v m) (fun m => by simp at m; rw [m]; exact ix₀.1))
          exact Or.inl ⟨_, _, rfl, rfl, k, i1, i2⟩
        · rw [if_neg hs, if_neg hs]; exact Or.inr ⟨rfl, rfl⟩
      · exact Or.inr ⟨by simp only [Impl.evalUnder, ea, ex], by simp only [Impl.evalUnder, ea₀, ex₀]⟩
    · exact Or.inr ⟨by simp only [Impl.evalUnder, ea], by simp only [Impl.evalUnder, ea₀]⟩
  | .without a e, h => by
    obtain ⟨ha, he, hn⟩ := h
    rcases agree π hπ a ha with ⟨A, A₀, ea, ea₀, ka, ia, ia₀⟩ | ⟨ea, ea₀⟩
    · rcases agree π hπ e he with ⟨X, X₀, ex, ex₀, kx, ix, ix₀⟩ | ⟨ex, ex₀⟩
      · simp only [Agree, Impl.evalUnder, ea, ea₀, ex, ex₀]
        rw [isSet_of_key ka]
        by_cases hs : isSet A₀ = true
        · rw [if_pos hs, if_pos hs]
          have hn' := hn X₀ (by simp [val0, ex₀])
          rw [mem0_eq ea₀] at hn'
          have hq : (fun y => !C06.Impl.equal y X) = (fun y => !C06.Impl.equal y X₀) := by
            funext y; simp [C06.Impl.equal, kx]
          rw [hq]
          have hkp : KP ((π (members A)).filter (fun y => !C06.Impl.equal y X₀)) ((idπ (members A₀)).filter (fun y => !C06.Impl.equal y X₀)) :=
            KP.filter _ (fun k => !K.beq k (key X₀)) (fun y => rfl) (enumKP2 hπ ka)
          obtain ⟨k, i1, i2⟩ := build_step hn' hkp
            (fun v hv => ia.2 v ((hπ _).mem_iff.1 (List.mem_filter.1 hv).1))
            (fun v hv => ia₀.2 v (List.mem_filter.1 hv).1)
          exact Or.inl ⟨_, _, rfl, rfl, k, i1, i2⟩
        · rw [if_neg hs, if_neg hs]; exact Or.inr ⟨rfl, rfl⟩
      · exact Or.inr ⟨by simp only [Impl.evalUnder, ea, ex], by simp only [Impl.evalUnder, ea₀, ex₀]⟩
    · exact Or.inr ⟨by simp only [Impl.evalUnder, ea], by simp only [Impl.evalUnder, ea₀]⟩
  | .count a, h => by
    rcases agree π hπ a h with ⟨A, A₀, ea, ea₀, ka, ia, ia₀⟩ | ⟨ea, ea₀⟩
    · simp only [Agree, Impl.evalUnder, ea, ea₀]
      rw [isSet_of_key ka]
      by_cases hs : isSet A₀ = true
      · rw [if_pos hs, if_pos hs]
        have hl : (members A).length = (members A₀).length := by
          simpa using (members_KP_of_key ka).length_eq
        rw [hl]
        exact Or.inl ⟨_, _, rfl, rfl, rfl, ⟨trivial, fun v hv => by simp [members, members1] at hv⟩,
          ⟨trivial, fun v hv => by simp [members, members1] at hv⟩⟩
      · rw [if_neg hs, if_neg hs]; exact Or.inr ⟨rfl, rfl⟩
    · exact Or.inr ⟨by simp only [Impl.evalUnder, ea], by simp only [Impl.evalUnder, ea₀]⟩
  | .single a, h => by
    rcases agree π hπ a h with ⟨A, A₀, ea, ea₀, ka, ia, ia₀⟩ | ⟨ea, ea₀⟩
    · simp only [Agree, Impl.evalUnder, ea, ea₀]
      have hkp : KP [A] [A₀] := by show ([A].map key).Perm ([A₀].map key); simp [ka]
      obtain ⟨k, i1, i2⟩ := build_step (NoSuper_singleton A₀) hkp
        (fun v hv => by simp at hv; rw [hv]; exact ia.1) (fun v hv => by simp at hv; rw [hv]; exact ia₀.1)
      exact Or.inl ⟨_, _, rfl, rfl, k, i1, i2⟩
    · exact Or.inr ⟨by simp only [Impl.evalUnder, ea], by simp only [Impl.evalUnder, ea₀]⟩
  | .setpat lits rest a, h => by
    obtain ⟨hr, ha, hn⟩ := h
    subst hr
    rcases agree π hπ a ha with ⟨A, A₀, ea, ea₀, ka, ia, ia₀⟩ | ⟨ea, ea₀⟩
    · simp only [Agree, Impl.evalUnder, ea, ea₀]
      rw [isSet_of_key ka]
      by_cases hs : isSet A₀ = true
      · rw [if_pos hs, if_pos hs]
        have hall : (lits.all fun l => (π (members A)).any fun y => C06.Impl.equal y l.2) =
            (lits.all fun l => (idπ (members A₀)).any fun y => C06.Impl.equal y l.2) := by
          congr 1; funext l; exact any_equal_KP (enumKP2 hπ ka) l.2 l.2 rfl
        rw [hall]
        by_cases hc : (lits.all fun l => (idπ (members A₀)).any fun y => C06.Impl.equal y l.2) = true
        · rw [if_pos hc, if_pos hc]
          simp only [if_true]
          rw [mem0_eq ea₀] at hn
          have hp : ∀ y, litsPred lits y = (fun k => !lits.any (fun l => K.beq k (key l.2))) (key y) := by
            intro y; simp [litsPred, C06.Impl.equal]
          have hkp : KP ((π (members A)).filter (litsPred lits)) ((idπ (members A₀)).filter (litsPred lits)) :=
            KP.filter (litsPred lits) (fun k => !lits.any (fun l => K.beq k (key l.2))) hp (enumKP2 hπ ka)
          obtain ⟨k, i1, i2⟩ := build_step hn hkp
            (fun v hv => ia.2 v ((hπ _).mem_iff.1 (List.mem_filter.1 hv).1))
            (fun v hv => ia₀.2 v (List.mem_filter.1 hv).1)
          exact Or.inl ⟨_, _, rfl, rfl, k, i1, i2⟩
        · rw [if_neg hc, if_neg hc]; exact Or.inr ⟨rfl, rfl⟩
      · rw [if_neg hs, if_neg hs]; exact Or.inr ⟨rfl, rfl⟩
    · exact Or.inr ⟨by simp only [Impl.evalUnder, ea], by simp only [Impl.evalUnder, ea₀]⟩
  | .rank a attrs, h => by
    obtain ⟨ha, hattrs⟩ := h
    rcases agree π hπ a ha with ⟨A, A₀, ea, ea₀, ka, ia, ia₀⟩ | ⟨ea, ea₀⟩
    · simp only [Agree, Impl.evalUnder, ea, ea₀]
      rw [isSet_of_key ka, all_of_KP Impl.isGTupleB (fun _ _ => isGTupleB_of_key) (members_KP_of_key ka)]
      by_cases hs : (isSet A₀ && (members A₀).all Impl.isGTupleB) = true
      · rw [if_pos hs, if_pos hs]
        have hall₀ : (members A₀).all Impl.isGTupleB = true := by
          cases h1 : (members A₀).all Impl.isGTupleB
          · rw [h1] at hs; simp at hs
          · rfl
        have hall : (members A).all Impl.isGTupleB = true := by
          rw [all_of_KP Impl.isGTupleB (fun _ _ => isGTupleB_of_key) (members_KP_of_key ka)]; exact hall₀
        rw [List.all_eq_true] at hall hall₀
        have hR : ∀ y ∈ π (members A), gtNodup y := fun y hy =>
          gtNodup_of_B (hall y ((hπ _).mem_iff.1 hy)) (ia.2 y ((hπ _).mem_iff.1 hy))
        have hR₀ : ∀ y ∈ idπ (members A₀), gtNodup y := fun y hy => gtNodup_of_B (hall₀ y hy) (ia₀.2 y hy)
        have hkp := rank_KP attrs hattrs hR hR₀ (enumKP2 hπ ka)
        have hg : ∀ {R : List Rep}, (∀ y ∈ R, gtNodup y) → ∀ v ∈ R.map (Impl.rankRow attrs R), gtNodup v := by
          intro R hR v hv
          obtain ⟨x, hx, rfl⟩ := List.mem_map.1 hv
          exact (rankRow_spec attrs hattrs hR (hR x hx)).2
        obtain ⟨k, i1, i2⟩ := build_step (NoSuper_of_gtuples _ (fun v hv => (hg hR₀ v hv).1)) hkp
          (fun v hv => (hg hR v hv).2) (fun v hv => (hg hR₀ v hv).2)
        exact Or.inl ⟨_, _, rfl, rfl, k, i1, i2⟩
      · rw [if_neg hs, if_neg hs]; exact Or.inr ⟨rfl, rfl⟩
    · exact Or.inr ⟨by simp only [Impl.evalUnder, ea], by simp only [Impl.evalUnder, ea₀]⟩

/-- THE THEOREM: an admissible program has the same canonical result (or the same error) under every enumeration order -/
theorem eval_order_independent (e : Ex) (h : Adm e) (π₁ π₂ : EnumOrder) (h₁ : PermValued π₁) (h₂ : PermValued π₂) :
    keyRes (Impl.evalUnder π₁ e) = keyRes (Impl.evalUnder π₂ e) := by
  rcases agree π₁ h₁ e h with ⟨r₁, r₀, e₁, e₀, k₁, _, _⟩ | ⟨e₁, e₀⟩
  · rcases agree π₂ h₂ e h with ⟨r₂, r₀', e₂, e₀', k₂, _, _⟩ | ⟨e₂, e₀'⟩
    · rw [e₀] at e₀'; cases e₀'
      rw [e₁, e₂]; simp [keyRes, k₁, k₂]
    · rw [e₀] at e₀'; cases e₀'
  · rcases agree π₂ h₂ e h with ⟨r₂, r₀', e₂, e₀', _, _, _⟩ | ⟨e₂, _⟩
    · rw [e₀] at e₀'; cases e₀'
    · rw [e₁, e₂]

/-- a set pattern binding an identifier, `let {l₁, …, a} = s; a`: deterministic — the same member (up to canonical form) is
bound, or the same error is raised (no member or several members left), whatever the enumeration order -/
theorem setpat_order_independent (lits : List (String × Rep)) (a : Ex) (h : Adm a)
    (π₁ π₂ : EnumOrder) (h₁ : PermValued π₁) (h₂ : PermValued π₂) :
    keyRes (Impl.evalUnder π₁ (.setpat lits false a)) = keyRes (Impl.evalUnder π₂ (.setpat lits false a)) := by
  have one : ∀ (π : EnumOrder), PermValued π →
      keyRes (Impl.evalUnder π (.setpat lits false a)) = keyRes (Impl.evalUnder idπ (.setpat lits false a)) := by
    intro π hπ
    rcases agree π hπ a h with ⟨A, A₀, ea, ea₀, ka, ia, ia₀⟩ | ⟨ea, ea₀⟩
    · simp only [Impl.evalUnder, ea, ea₀]
      rw [isSet_of_key ka]
      by_cases hs : isSet A₀ = true
      · rw [if_pos hs, if_pos hs]
        have hall : (lits.all fun l => (π (members A)).any fun y => C06.Impl.equal y l.2) =
            (lits.all fun l => (idπ (members A₀)).any fun y => C06.Impl.equal y l.2) := by
          congr 1; funext l; exact any_equal_KP (enumKP2 hπ ka) l.2 l.2 rfl
        rw [hall]
        by_cases hc : (lits.all fun l => (idπ (members A₀)).any fun y => C06.Impl.equal y l.2) = true
        · rw [if_pos hc, if_pos hc]
          simp only [Bool.false_eq_true, if_false]
          have hp : ∀ y, litsPred lits y = (fun k => !lits.any (fun l => K.beq k (key l.2))) (key y) := by
            intro y; simp [litsPred, C06.Impl.equal]
          have hkp : KP ((π (members A)).filter (litsPred lits)) ((idπ (members A₀)).filter (litsPred lits)) :=
            KP.filter (litsPred lits) (fun k => !lits.any (fun l => K.beq k (key l.2))) hp (enumKP2 hπ ka)
          have hlen := hkp.length_eq
          simp only [List.length_map] at hlen
          show keyRes (match (π (members A)).filter (litsPred lits) with | [x] => Res.ok x | _ => Res.err) =
            keyRes (match (idπ (members A₀)).filter (litsPred lits) with | [x] => Res.ok x | _ => Res.err)
          rcases hl : (π (members A)).filter (litsPred lits) with _ | ⟨x, _ | ⟨y, r⟩⟩ <;>
            rcases hl₀ : (idπ (members A₀)).filter (litsPred lits) with _ | ⟨x₀, _ | ⟨y₀, r₀⟩⟩ <;>
            first
              | rfl
              | (have hperm : ([x].map key).Perm ([x₀].map key) := by rw [← hl, ← hl₀]; exact hkp
                 have hk : key x = key x₀ := by simpa using hperm
                 simp [keyRes, hk])
              | (exfalso; rw [hl, hl₀] at hlen; simp at hlen)
        · rw [if_neg hc, if_neg hc]
      · rw [if_neg hs, if_neg hs]
    · simp only [Impl.evalUnder, ea, ea₀]
  rw [one π₁ h₁, one π₂ h₂]

end Arrai.C07
