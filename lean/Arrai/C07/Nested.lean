/-
  C07 — nested programs of the generic fragment: sets whose members fall into the generic bucket of the set
  builder (numbers, sets, the empty tuple), combined with `|`, `&`, `&~`, `where`, `with`, `without`, `{x}`
  and `=>` with an element function that again yields such values.  Every enumeration order gives a result
  with the same canonical form.
-/
import Arrai.C07.Repr

namespace Arrai.C07
open Arrai.C06 Std

def isGenSet : Rep → Bool
  | .empty | .true_ | .generic _ => true
  | _ => false

def genBucket (x : Rep) : Bool := decide (C06.Impl.bucketOf x = .generic)

theorem allGeneric_iff (xs : List Rep) : allGeneric xs ↔ xs.all genBucket = true := by
  simp [allGeneric, genBucket]

theorem isGenSet_isSet {r : Rep} (h : isGenSet r = true) : isSet r = true := by
  cases r <;> simp_all [isGenSet, isSet]

theorem isGenSet_genBucket {r : Rep} (h : isGenSet r = true) : genBucket r = true := by
  cases r <;> simp_all [isGenSet, genBucket, C06.Impl.bucketOf]

/-! ### the set builder on generic-bucket values -/
theorem mem_dedupR : ∀ (xs acc : List Rep) (x : Rep), x ∈ C06.Impl.dedupR acc xs → x ∈ acc ∨ x ∈ xs
  | [], acc, x, h => by simp [C06.Impl.dedupR] at h; exact Or.inl h
  | a :: xs, acc, x, h => by
    simp only [C06.Impl.dedupR] at h
    split at h
    · rcases mem_dedupR xs acc x h with h | h
      · exact Or.inl h
      · exact Or.inr (List.mem_cons_of_mem _ h)
    · rcases mem_dedupR xs (a :: acc) x h with h | h
      · rcases List.mem_cons.1 h with rfl | h
        · exact Or.inr (by simp)
        · exact Or.inl h
      · exact Or.inr (List.mem_cons_of_mem _ h)

theorem build_gen (xs : List Rep) (h : allGeneric xs) :
    isGenSet (C06.Impl.build xs) = true ∧ allGeneric (members (C06.Impl.build xs)) := by
  cases xs with
  | nil => exact ⟨rfl, fun x hx => by simp [C06.Impl.build, members, members1] at hx⟩
  | cons x xs =>
    have hx : C06.Impl.bucketOf x = .generic := h x (by simp)
    have hg := groups_allGeneric xs [x] (fun y hy => h y (List.mem_cons_of_mem _ hy))
    simp only [C06.Impl.build, List.foldl_cons, C06.Impl.addToBucket, hx]
    rw [hg]
    simp only [C06.Impl.finishBucket]
    rcases hD : C06.Impl.dedupR [] ([x] ++ xs) with _ | ⟨y, _ | ⟨z, r⟩⟩
    · exact ⟨rfl, fun x hx => by simp [members, members1] at hx⟩
    · have hy : y ∈ x :: xs := by
        have := mem_dedupR ([x] ++ xs) [] y (by rw [hD]; simp)
        simpa using this
      dsimp only
      by_cases hc : C06.Impl.equal y (.gtuple []) = true
      · rw [if_pos hc]
        exact ⟨rfl, fun v hv => by simp [members, members1] at hv; subst hv; rfl⟩
      · rw [if_neg hc]
        exact ⟨rfl, fun v hv => by simp [members, members1] at hv; rw [hv]; exact h y hy⟩
    · dsimp only
      refine ⟨rfl, fun v hv => ?_⟩
      have : v ∈ C06.Impl.dedupR [] ([x] ++ xs) := by rw [hD]; simpa [members, members1] using hv
      have := mem_dedupR ([x] ++ xs) [] v this
      exact h v (by simpa using this)

/-! ### members of key-equal generic sets -/
theorem perm_of_isort_eq {l l' : List K} (h : isort K.lt l = isort K.lt l') : l.Perm l' :=
  (isort_perm K.lt l).symm.trans (h ▸ isort_perm K.lt l')

theorem members_KP {a b : Rep} (ha : isGenSet a = true) (hb : isGenSet b = true) (hk : key a = key b) :
    KP (members a) (members b) := by
  cases a <;> simp [isGenSet] at ha <;> cases b <;> simp [isGenSet] at hb
  · exact KP.refl _
  · simp [kEmpty, kTrue] at hk
  · rw [key_generic] at hk; simp [kEmpty, kGenericSet] at hk
  · simp [kEmpty, kTrue] at hk
  · exact KP.refl _
  · rw [key_generic] at hk; simp [kTrue, kGenericSet] at hk
  · rw [key_generic] at hk; simp [kEmpty, kGenericSet] at hk
  · rw [key_generic] at hk; simp [kTrue, kGenericSet] at hk
  · rw [key_generic, key_generic] at hk
    simp only [K.node.injEq, List.cons.injEq] at hk
    exact perm_of_isort_eq hk.2

/-! ### selections and maps that respect canonical forms -/
theorem KP.append {a b c d : List Rep} (h₁ : KP a b) (h₂ : KP c d) : KP (a ++ c) (b ++ d) := by
  unfold KP; rw [List.map_append, List.map_append]; exact List.Perm.append h₁ h₂

theorem KP.filter {a b : List Rep} (p : Rep → Bool) (q : K → Bool) (hp : ∀ x, p x = q (key x)) (h : KP a b) :
    KP (a.filter p) (b.filter p) := by
  have hf : ∀ l : List Rep, (l.filter p).map key = (l.map key).filter q := by
    intro l
    induction l with
    | nil => rfl
    | cons x xs ih =>
      simp only [List.filter_cons, List.map_cons, hp x]
      split <;> simp [ih]
  unfold KP; rw [hf, hf]; exact List.Perm.filter q h

theorem KP.map {a b : List Rep} (f : Rep → Rep) (F : K → K) (hf : ∀ x ∈ a ++ b, key (f x) = F (key x)) (h : KP a b) :
    KP (a.map f) (b.map f) := by
  have hm : ∀ l : List Rep, (∀ x ∈ l, key (f x) = F (key x)) → (l.map f).map key = (l.map key).map F := by
    intro l hl
    induction l with
    | nil => rfl
    | cons x xs ih =>
      simp only [List.map_cons, hl x (by simp), List.cons.injEq, true_and]
      exact ih (fun y hy => hl y (List.mem_cons_of_mem _ hy))
  unfold KP
  rw [hm a (fun x hx => hf x (List.mem_append_left _ hx)), hm b (fun x hx => hf x (List.mem_append_right _ hx))]
  exact List.Perm.map F h

/-- `where` predicates look at their argument through `<` and `=` only -/
def Pr.onKey : Pr → K → Bool
  | .ltNum n, k => K.lt k (key (.num n))
  | .neNum n, k => !K.beq k (key (.num n))
  | .geSet, k => !K.lt k (key .empty)
  | .all, _ => true

theorem Pr.apply_eq (p : Pr) (x : Rep) : p.apply x = p.onKey (key x) := by
  cases p <;> simp [Pr.apply, Pr.onKey, less_eq, C06.Impl.equal]

theorem memberOf_eq (x : Rep) (s : Rep) : Impl.memberOf x s = ((members s).map key).any (fun k => K.beq k (key x)) := by
  simp [Impl.memberOf, C06.Impl.equal, List.any_map, Function.comp_def]

theorem any_perm {l l' : List K} (q : K → Bool) (h : l.Perm l') : l.any q = l'.any q := by
  induction h with
  | nil => rfl
  | cons x _ ih => simp [ih]
  | swap x y l => simp [Bool.or_left_comm]
  | trans _ _ ih₁ ih₂ => exact ih₁.trans ih₂

/-- element functions that map generic-bucket values to generic-bucket values -/
def Fn.gen : Fn → Bool
  | .ident | .const _ | .arr1 | .single => true
  | _ => false

def Fn.onKey : Fn → K → K
  | .ident, k => k
  | .const n, _ => key (.num n)
  | .arr1, k => .node (.int kArray :: .int 0 :: [optKey (some k)])
  | .single, k => genericKeyOf (dedupK [] [k])
  | _, k => k

theorem Fn.apply_key (f : Fn) (hf : f.gen = true) (x : Rep) (hx : genBucket x = true) :
    key (f.apply x) = f.onKey (key x) ∧ genBucket (f.apply x) = true := by
  have hx' : C06.Impl.bucketOf x = .generic := by simpa [genBucket] using hx
  cases f <;> simp [Fn.gen] at hf
  · exact ⟨rfl, hx⟩
  · -- single
    have hall : allGeneric [x] := fun y hy => by simp at hy; subst hy; exact hx'
    exact ⟨build_allGeneric [x] hall, isGenSet_genBucket (build_gen [x] hall).1⟩
  · -- arr1
    refine ⟨?_, ?_⟩
    · simp [Fn.apply, C06.Impl.mkArray, C06.Impl.dropNones, Fn.onKey]
    · simp [Fn.apply, C06.Impl.mkArray, C06.Impl.dropNones, genBucket, C06.Impl.bucketOf]
  · exact ⟨rfl, rfl⟩

/-! ### nested programs -/

/-- programs of the generic fragment -/
def GenEx : Ex → Bool
  | .lit _ r => isGenSet r && (members r).all genBucket
  | .union a b => GenEx a && GenEx b
  | .inter a b => GenEx a && GenEx b
  | .diff a b => GenEx a && GenEx b
  | .map a f => GenEx a && f.gen
  | .filter a _ => GenEx a
  | .with_ a (.lit _ x) => GenEx a && genBucket x
  | .without a (.lit _ _) => GenEx a
  | .single a => GenEx a
  | _ => false

/-- a result of the generic fragment: an `EmptySet`, `TrueSet` or `GenericSet` whose members are generic-bucket values -/
structure Good (r : Rep) : Prop where
  gs : isGenSet r = true
  ag : allGeneric (members r)

theorem good_build {xs : List Rep} (h : allGeneric xs) : Good (C06.Impl.build xs) :=
  ⟨(build_gen xs h).1, (build_gen xs h).2⟩

theorem enumKP {π₁ π₂ : EnumOrder} (h₁ : PermValued π₁) (h₂ : PermValued π₂) {A₁ A₂ : Rep} (g₁ : Good A₁) (g₂ : Good A₂)
    (hk : key A₁ = key A₂) : KP (π₁ (members A₁)) (π₂ (members A₂)) :=
  (KP.of_perm (h₁ _)).trans ((members_KP g₁.gs g₂.gs hk).trans (KP.of_perm (h₂ _)).symm)

theorem allGeneric_enum {π : EnumOrder} (h : PermValued π) {A : Rep} (g : Good A) : allGeneric (π (members A)) :=
  allGeneric_perm (h _).symm g.ag

theorem allGeneric_append {xs ys : List Rep} (hx : allGeneric xs) (hy : allGeneric ys) : allGeneric (xs ++ ys) :=
  fun x h => (List.mem_append.1 h).elim (hx x) (hy x)

theorem allGeneric_map {xs : List Rep} (f : Fn) (hf : f.gen = true) (hx : allGeneric xs) :
    allGeneric (xs.map f.apply) := by
  intro y hy
  obtain ⟨x, hxm, rfl⟩ := List.mem_map.1 hy
  have := (Fn.apply_key f hf x (by simpa [genBucket] using hx x hxm)).2
  simpa [genBucket] using this

theorem nested_order_independent (π₁ π₂ : EnumOrder) (h₁ : PermValued π₁) (h₂ : PermValued π₂) :
    ∀ (e : Ex), GenEx e = true →
      ∃ r₁ r₂, Impl.evalUnder π₁ e = .ok r₁ ∧ Impl.evalUnder π₂ e = .ok r₂ ∧ Good r₁ ∧ Good r₂ ∧ key r₁ = key r₂
  | .lit s r, he => by
    simp only [GenEx, Bool.and_eq_true] at he
    have g : Good r := ⟨he.1, (allGeneric_iff _).2 he.2⟩
    exact ⟨r, r, rfl, rfl, g, g, rfl⟩
  | .union a b, he => by
    simp only [GenEx, Bool.and_eq_true] at he
    obtain ⟨A₁, A₂, ea₁, ea₂, ga₁, ga₂, ka⟩ := nested_order_independent π₁ π₂ h₁ h₂ a he.1
    obtain ⟨B₁, B₂, eb₁, eb₂, gb₁, gb₂, kb⟩ := nested_order_independent π₁ π₂ h₁ h₂ b he.2
    have hg₁ := allGeneric_append (allGeneric_enum h₁ ga₁) (allGeneric_enum h₁ gb₁)
    have hg₂ := allGeneric_append (allGeneric_enum h₂ ga₂) (allGeneric_enum h₂ gb₂)
    refine ⟨_, _, ?_, ?_, good_build hg₁, good_build hg₂,
      build_order_independent_generic hg₁ hg₂ ((enumKP h₁ h₂ ga₁ ga₂ ka).append (enumKP h₁ h₂ gb₁ gb₂ kb))⟩
    · simp only [Impl.evalUnder, ea₁, eb₁, isGenSet_isSet ga₁.gs, isGenSet_isSet gb₁.gs, Bool.and_self, ite_true]
    · simp only [Impl.evalUnder, ea₂, eb₂, isGenSet_isSet ga₂.gs, isGenSet_isSet gb₂.gs, Bool.and_self, ite_true]
  | .inter a b, he => by
    simp only [GenEx, Bool.and_eq_true] at he
    obtain ⟨A₁, A₂, ea₁, ea₂, ga₁, ga₂, ka⟩ := nested_order_independent π₁ π₂ h₁ h₂ a he.1
    obtain ⟨B₁, B₂, eb₁, eb₂, gb₁, gb₂, kb⟩ := nested_order_independent π₁ π₂ h₁ h₂ b he.2
    have hq : (fun x => Impl.memberOf x B₁) = (fun x => Impl.memberOf x B₂) := by
      funext x; rw [memberOf_eq, memberOf_eq]; exact any_perm _ (members_KP gb₁.gs gb₂.gs kb)
    have hg₁ := allGeneric_filter (fun x => Impl.memberOf x B₁) (allGeneric_enum h₁ ga₁)
    have hg₂ := allGeneric_filter (fun x => Impl.memberOf x B₂) (allGeneric_enum h₂ ga₂)
    refine ⟨_, _, ?_, ?_, good_build hg₁, good_build hg₂, build_order_independent_generic hg₁ hg₂ ?_⟩
    · simp only [Impl.evalUnder, ea₁, eb₁, isGenSet_isSet ga₁.gs, isGenSet_isSet gb₁.gs, Bool.and_self, ite_true]
    · simp only [Impl.evalUnder, ea₂, eb₂, isGenSet_isSet ga₂.gs, isGenSet_isSet gb₂.gs, Bool.and_self, ite_true]
    · rw [← hq]
      exact KP.filter _ (fun k => ((members B₁).map key).any (fun k' => K.beq k' k)) (fun x => memberOf_eq x B₁)
        (enumKP h₁ h₂ ga₁ ga₂ ka)
  | .diff a b, he => by
    simp only [GenEx, Bool.and_eq_true] at he
    obtain ⟨A₁, A₂, ea₁, ea₂, ga₁, ga₂, ka⟩ := nested_order_independent π₁ π₂ h₁ h₂ a he.1
    obtain ⟨B₁, B₂, eb₁, eb₂, gb₁, gb₂, kb⟩ := nested_order_independent π₁ π₂ h₁ h₂ b he.2
    have hq : (fun x => !Impl.memberOf x B₁) = (fun x => !Impl.memberOf x B₂) := by
      funext x; rw [memberOf_eq, memberOf_eq, any_perm _ (members_KP gb₁.gs gb₂.gs kb)]
    have hg₁ := allGeneric_filter (fun x => !Impl.memberOf x B₁) (allGeneric_enum h₁ ga₁)
    have hg₂ := allGeneric_filter (fun x => !Impl.memberOf x B₂) (allGeneric_enum h₂ ga₂)
    refine ⟨_, _, ?_, ?_, good_build hg₁, good_build hg₂, build_order_independent_generic hg₁ hg₂ ?_⟩
    · simp only [Impl.evalUnder, ea₁, eb₁, isGenSet_isSet ga₁.gs, isGenSet_isSet gb₁.gs, Bool.and_self, ite_true]
    · simp only [Impl.evalUnder, ea₂, eb₂, isGenSet_isSet ga₂.gs, isGenSet_isSet gb₂.gs, Bool.and_self, ite_true]
    · rw [← hq]
      exact KP.filter _ (fun k => !((members B₁).map key).any (fun k' => K.beq k' k))
        (fun x => by rw [memberOf_eq]) (enumKP h₁ h₂ ga₁ ga₂ ka)
  | .map a f, he => by
    simp only [GenEx, Bool.and_eq_true] at he
    obtain ⟨A₁, A₂, ea₁, ea₂, ga₁, ga₂, ka⟩ := nested_order_independent π₁ π₂ h₁ h₂ a he.1
    have hg₁ := allGeneric_map f he.2 (allGeneric_enum h₁ ga₁)
    have hg₂ := allGeneric_map f he.2 (allGeneric_enum h₂ ga₂)
    refine ⟨_, _, ?_, ?_, good_build hg₁, good_build hg₂, build_order_independent_generic hg₁ hg₂ ?_⟩
    · simp only [Impl.evalUnder, ea₁, isGenSet_isSet ga₁.gs, ite_true]
    · simp only [Impl.evalUnder, ea₂, isGenSet_isSet ga₂.gs, ite_true]
    · refine KP.map f.apply f.onKey ?_ (enumKP h₁ h₂ ga₁ ga₂ ka)
      intro x hx
      have hxg : genBucket x = true := by
        rcases List.mem_append.1 hx with hx | hx
        · simpa [genBucket] using allGeneric_enum h₁ ga₁ x hx
        · simpa [genBucket] using allGeneric_enum h₂ ga₂ x hx
      exact (Fn.apply_key f he.2 x hxg).1
  | .filter a p, he => by
    simp only [GenEx] at he
    obtain ⟨A₁, A₂, ea₁, ea₂, ga₁, ga₂, ka⟩ := nested_order_independent π₁ π₂ h₁ h₂ a he
    have hg₁ := allGeneric_filter p.apply (allGeneric_enum h₁ ga₁)
    have hg₂ := allGeneric_filter p.apply (allGeneric_enum h₂ ga₂)
    refine ⟨_, _, ?_, ?_, good_build hg₁, good_build hg₂, build_order_independent_generic hg₁ hg₂ ?_⟩
    · simp only [Impl.evalUnder, ea₁, isGenSet_isSet ga₁.gs, ite_true]
    · simp only [Impl.evalUnder, ea₂, isGenSet_isSet ga₂.gs, ite_true]
    · exact KP.filter _ p.onKey (Pr.apply_eq p) (enumKP h₁ h₂ ga₁ ga₂ ka)
  | .with_ a (.lit s x), he => by
    simp only [GenEx, Bool.and_eq_true] at he
    obtain ⟨A₁, A₂, ea₁, ea₂, ga₁, ga₂, ka⟩ := nested_order_independent π₁ π₂ h₁ h₂ a he.1
    have hx : allGeneric [x] := fun y hy => by simp at hy; subst hy; simpa [genBucket] using he.2
    have hg₁ := allGeneric_append (allGeneric_enum h₁ ga₁) hx
    have hg₂ := allGeneric_append (allGeneric_enum h₂ ga₂) hx
    refine ⟨_, _, ?_, ?_, good_build hg₁, good_build hg₂,
      build_order_independent_generic hg₁ hg₂ ((enumKP h₁ h₂ ga₁ ga₂ ka).append (KP.refl _))⟩
    · simp only [Impl.evalUnder, ea₁, isGenSet_isSet ga₁.gs, ite_true]
    · simp only [Impl.evalUnder, ea₂, isGenSet_isSet ga₂.gs, ite_true]
  | .without a (.lit s x), he => by
    simp only [GenEx] at he
    obtain ⟨A₁, A₂, ea₁, ea₂, ga₁, ga₂, ka⟩ := nested_order_independent π₁ π₂ h₁ h₂ a he
    have hg₁ := allGeneric_filter (fun y => !C06.Impl.equal y x) (allGeneric_enum h₁ ga₁)
    have hg₂ := allGeneric_filter (fun y => !C06.Impl.equal y x) (allGeneric_enum h₂ ga₂)
    refine ⟨_, _, ?_, ?_, good_build hg₁, good_build hg₂, build_order_independent_generic hg₁ hg₂ ?_⟩
    · simp only [Impl.evalUnder, ea₁, isGenSet_isSet ga₁.gs, ite_true]
    · simp only [Impl.evalUnder, ea₂, isGenSet_isSet ga₂.gs, ite_true]
    · exact KP.filter _ (fun k => !K.beq k (key x)) (fun y => rfl) (enumKP h₁ h₂ ga₁ ga₂ ka)
  | .single a, he => by
    simp only [GenEx] at he
    obtain ⟨A₁, A₂, ea₁, ea₂, ga₁, ga₂, ka⟩ := nested_order_independent π₁ π₂ h₁ h₂ a he
    have hg₁ : allGeneric [A₁] := fun y hy => by
      simp at hy; subst hy; simpa [genBucket] using isGenSet_genBucket ga₁.gs
    have hg₂ : allGeneric [A₂] := fun y hy => by
      simp at hy; subst hy; simpa [genBucket] using isGenSet_genBucket ga₂.gs
    refine ⟨_, _, ?_, ?_, good_build hg₁, good_build hg₂, build_order_independent_generic hg₁ hg₂ ?_⟩
    · simp only [Impl.evalUnder, ea₁]
    · simp only [Impl.evalUnder, ea₂]
    · show ([A₁].map key).Perm ([A₂].map key)
      simp [ka]
  | .orderby _ _, he => by simp [GenEx] at he
  | .setpat _ _ _, he => by simp [GenEx] at he
  | .rank _ _, he => by simp [GenEx] at he
  | .with_ _ (.setpat _ _ _), he => by simp [GenEx] at he
  | .with_ _ (.rank _ _), he => by simp [GenEx] at he
  | .without _ (.setpat _ _ _), he => by simp [GenEx] at he
  | .without _ (.rank _ _), he => by simp [GenEx] at he
  | .count _, he => by simp [GenEx] at he
  | .with_ _ (.union _ _), he => by simp [GenEx] at he
  | .with_ _ (.inter _ _), he => by simp [GenEx] at he
  | .with_ _ (.diff _ _), he => by simp [GenEx] at he
  | .with_ _ (.map _ _), he => by simp [GenEx] at he
  | .with_ _ (.filter _ _), he => by simp [GenEx] at he
  | .with_ _ (.orderby _ _), he => by simp [GenEx] at he
  | .with_ _ (.with_ _ _), he => by simp [GenEx] at he
  | .with_ _ (.without _ _), he => by simp [GenEx] at he
  | .with_ _ (.count _), he => by simp [GenEx] at he
  | .with_ _ (.single _), he => by simp [GenEx] at he
  | .without _ (.union _ _), he => by simp [GenEx] at he
  | .without _ (.inter _ _), he => by simp [GenEx] at he
  | .without _ (.diff _ _), he => by simp [GenEx] at he
  | .without _ (.map _ _), he => by simp [GenEx] at he
  | .without _ (.filter _ _), he => by simp [GenEx] at he
  | .without _ (.orderby _ _), he => by simp [GenEx] at he
  | .without _ (.with_ _ _), he => by simp [GenEx] at he
  | .without _ (.without _ _), he => by simp [GenEx] at he
  | .without _ (.count _), he => by simp [GenEx] at he
  | .without _ (.single _), he => by simp [GenEx] at he

end Arrai.C07
