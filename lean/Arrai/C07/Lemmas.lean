/-
  C07 helper lemmas: the canonical key of a container depends only on the multiset of the keys of its parts.
-/
import Arrai.C07.Model
import Arrai.C06.Clients

namespace Arrai.C07
open Arrai.C06 Std

/-- the parts of two member lists agree up to order and up to canonical form -/
def KP (xs ys : List Rep) : Prop := (xs.map key).Perm (ys.map key)

theorem KP.refl (xs : List Rep) : KP xs xs := List.Perm.refl _
theorem KP.symm {xs ys : List Rep} (h : KP xs ys) : KP ys xs := List.Perm.symm h
theorem KP.trans {xs ys zs : List Rep} (h₁ : KP xs ys) (h₂ : KP ys zs) : KP xs zs := List.Perm.trans h₁ h₂
theorem KP.of_perm {xs ys : List Rep} (h : xs.Perm ys) : KP xs ys := h.map key

theorem key_generic_congr {xs ys : List Rep} (h : KP xs ys) : key (.generic xs) = key (.generic ys) := by
  rw [key_generic, key_generic]
  exact congrArg (fun l => K.node (K.int kGenericSet :: l)) (isort_perm_invariant K.cmp h)

theorem key_union_congr {xs ys : List Rep} (h : KP xs ys) : key (.union xs) = key (.union ys) := by
  rw [key_union, key_union]
  exact congrArg (fun l => K.node (K.int kUnion :: l)) (isort_perm_invariant K.cmp h)

theorem key_relation_congr (ns : List String) {rows rows' : List (List Rep)}
    (h : (rows.map (fun row => key (Impl.rowTuple ns row))).Perm (rows'.map (fun row => key (Impl.rowTuple ns row)))) :
    key (.relation ns rows) = key (.relation ns rows') := by
  rw [key_relation, key_relation]
  have hl : rows.length = rows'.length := by simpa using h.length_eq
  have h' : (rows.map (fun row => tupleKeyAlg (zipNames ns (row.map key)))).Perm
      (rows'.map (fun row => tupleKeyAlg (zipNames ns (row.map key)))) := by
    simpa [key_rowTuple] using h
  rw [hl]
  exact congrArg (fun l => K.node [K.int kRelation, K.int ns.length, K.node ((isort strLt ns).map K.name),
    K.int rows'.length, K.node l]) (isort_perm_invariant K.cmp h')

/-- sorting members for printing: the sequence of keys does not depend on the enumeration order -/
theorem orderedValues_keys_congr {xs ys : List Rep} (h : KP xs ys) :
    (C06.Impl.orderedValues xs).map key = (C06.Impl.orderedValues ys).map key := by
  have hx : (C06.Impl.orderedValues xs).map key = isort K.lt (xs.map key) :=
    map_isort key _ K.lt xs (fun x _ y _ => less_eq x y)
  have hy : (C06.Impl.orderedValues ys).map key = isort K.lt (ys.map key) :=
    map_isort key _ K.lt ys (fun x _ y _ => less_eq x y)
  rw [hx, hy]; exact isort_perm_invariant K.cmp h

end Arrai.C07
