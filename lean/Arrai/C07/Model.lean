/-
  C07 — "Evaluation is deterministic across processes and hash seeds".

  The model is the representation layer of C06 (`Arrai.C06.Rep`): every frozen set / frozen map / Go map
  is a list whose order is the order in which that collection happens to be enumerated in this
  process (a function of the per-process hash seeds).  Here:

  * `members`        : the enumerator of each set representation (what `Enumerator()` walks);
  * `Impl.reprN`     : transliteration of the `Format` methods (pkg/fu `%v`): every container is printed
                       through an ordered walk — `OrderedValues()` (sort by `Less`), `OrderedEntries()`,
                       `TupleOrderedNames`, `rows.OrderedRange(projection)`;
  * `Impl.outText`   : the CLI's output formatting (`pkg/arrai/out.go`, `OutputValue` without `--out`);
  * `Ex`, `Impl.evalUnder π` : a fragment of programs over data values (set algebra, `=>`, `where`, `orderby`,
                       `with`/`without`, `count`, natural join) evaluated under an arbitrary enumeration
                       order `π` — each operator enumerates its operands through `π` and hands the
                       selected members to the set builder (`C06.Impl.build`, i.e. `SetBuilder`).

  Core-only.
-/
import Arrai.C06.Model

namespace Arrai.C07
open Arrai.C06

/-! ## Enumeration -/

def idxFrom (off : Int) : List α → List (Int × α)
  | [] => []
  | x :: xs => (off, x) :: idxFrom (off + 1) xs

/-- members of a set representation that is not a `UnionSet` -/
def members1 : Rep → List Rep
  | .true_ => [.gtuple []]
  | .generic xs => xs
  | .str s off => (idxFrom off s).filterMap (fun p => if p.2 < 0 then none else some (.charT p.1 p.2))
  | .bytes b off => (idxFrom off b).map (fun p => .byteT p.1 p.2)
  | .array vs off => (idxFrom off vs).filterMap (fun p => p.2.map (.itemT p.1))
  | .dict m => m.flatMap (fun e => e.tail.map (.entryT (Impl.entryHeadR e)))
  | .relation ns rows => rows.map (Impl.rowTuple ns)
  | _ => []

/-- `Enumerator()`: a `UnionSet` walks its buckets one after the other -/
def members : Rep → List Rep
  | .union bs => bs.flatMap members1
  | r => members1 r

def isSet : Rep → Bool
  | .empty | .true_ | .generic _ | .str _ _ | .bytes _ _ | .array _ _ | .dict _ | .relation _ _ | .union _ => true
  | _ => false

/-! ## Printing -/
namespace Impl
open C06.Impl

def identStart (c : Char) : Bool := c.isAlpha || c == '_' || c == '$' || c == '@'
def identRest (c : Char) : Bool := identStart c || c.isDigit

/-- `reprEscape` -/
def escapeRune (delim : Nat) (c : Int) : String :=
  if c < 0 then "�"                                     -- a hole: `string([]rune{-1})`
  else
    let n := c.toNat
    if n == 92 || n == delim then "\\" ++ String.singleton (Char.ofNat n)
    else if n ≥ 32 then String.singleton (Char.ofNat n)
    else if n == 7 then "\\a" else if n == 8 then "\\b" else if n == 27 then "\\e" else if n == 12 then "\\f"
    else if n == 10 then "\\n" else if n == 13 then "\\r" else if n == 9 then "\\t" else if n == 11 then "\\v"
    else "\\x" ++ String.singleton (Nat.digitChar (n / 16)) ++ String.singleton (Nat.digitChar (n % 16))

/-- `reprStr`: single quotes unless the text contains one -/
def reprStr (s : List Int) : String :=
  let delim : Nat := if s.any (· == 39) then 34 else 39
  String.singleton (Char.ofNat delim) ++ String.join (s.map (escapeRune delim)) ++ String.singleton (Char.ofNat delim)

/-- `identRE` -/
def isIdent (n : String) : Bool :=
  match n.toList with
  | c :: r => identStart c && r.all identRest
  | [] => false

/-- `TupleNameRepr` -/
def nameRepr (n : String) : String :=
  if isIdent n then n else reprStr (n.toList.map (fun c => (c.toNat : Int)))

/-- `reprOffset` -/
def offRepr (off : Int) : String := if off = 0 then "" else toString off ++ "\\"

def renderableByte (b : Int) : Bool :=
  b == 7 || b == 8 || b == 27 || b == 12 || b == 10 || b == 13 || b == 9 || b == 11 || (32 ≤ b && b ≤ 126)

def joinSep (l : List String) : String := ", ".intercalate l

/-- rows of a relation in `OrderedRange(projection)` order: cell by cell -/
def cellsLt (a b : List Rep) : Bool := C06.Old.cellsLoop less a b

/-- an array slot: a hole prints as nothing -/
def optText (rec : Rep → String) : Option Rep → String
  | some x => rec x
  | none => ""

/-- one `Format` method (`%v`), nested `%v` replaced by `rec` -/
def reprStep (rec : Rep → String) : Rep → String
  | .num n => toString n
  | .gtuple as =>
    -- `for i, name := range TupleOrderedNames(t)`
    "(" ++ joinSep ((isort (fun p q => strLt p.1 q.1) as).map (fun p => nameRepr p.1 ++ ": " ++ rec p.2)) ++ ")"
  | .charT i c => "(@: " ++ toString i ++ ", @char: " ++ toString c ++ ")"
  | .byteT i b => "(@: " ++ toString i ++ ", @byte: " ++ toString b ++ ")"
  | .itemT i x => "(@: " ++ toString i ++ ", @item: " ++ rec x ++ ")"
  | .entryT k v => "(@: " ++ rec k ++ ", @value: " ++ rec v ++ ")"
  | .empty => "{}"
  | .true_ => "true"
  | .generic xs => "{" ++ joinSep ((orderedValues xs).map rec) ++ "}"       -- reprOrderableSet
  | .str s off => offRepr off ++ reprStr s                                   -- reprString
  | .bytes b off =>                                                          -- Bytes.Format (offset printed since 7a4b0ca)
    offRepr off ++ "<<" ++ (if b.all renderableByte then reprStr b else joinSep (b.map toString)) ++ ">>"
  | .array vs off =>
    offRepr off ++ "[" ++ joinSep (vs.map (optText rec)) ++ "]"
  | .dict m =>
    -- `d.OrderedEntries()`: all entry tuples sorted by DictEntryTuple order
    "{" ++ joinSep ((orderedValues (members1 (.dict m))).map (fun t =>
      match t with
      | .entryT k v => rec k ++ ": " ++ rec v
      | _ => "")) ++ "}"
  | .relation ns rows =>
    let sns := isort strLt ns
    if sns.all isIdent then
      let proj (row : List Rep) : List Rep := sns.map (fun n => lookupAttr n (zipNames ns row))
      "{|" ++ joinSep sns ++ "| " ++
        joinSep ((isort cellsLt (rows.map proj)).map (fun cells => "(" ++ joinSep (cells.map rec) ++ ")")) ++ "}"
    else
      -- `{|...| ...}` only takes identifiers as names: `reprOrderableSet`, a plain set of tuples (72794de)
      "{" ++ joinSep ((orderedValues (rows.map (rowTuple ns))).map rec) ++ "}"
  | .union bs => "{" ++ joinSep ((orderedValues (bs.flatMap members1)).map rec) ++ "}"   -- UnionSet.Format

def reprN : Nat → Rep → String
  | 0, _ => ""
  | n + 1, r => reprStep (reprN n) r

/-- `fu.Repr(v)` -/
def repr (r : Rep) : String := reprN (depth r + 1) r

/-- `OutputValue(ctx, value, w, "")`: a string or byte array is written raw, the empty set as nothing,
everything else as `fu.Repr`, followed by a newline unless empty or already ending in one -/
def rawText (s : List Int) : String := String.join (s.map (fun c => if c < 0 then "�" else String.singleton (Char.ofNat c.toNat)))

def outText (r : Rep) : String :=
  let s := match r with
    | .str s _ => rawText s
    | .bytes b _ => rawText b
    | .empty => ""
    | r => repr r
  if s != "" && !s.endsWith "\n" then s ++ "\n" else s

end Impl

/-! ## Programs -/

/-- element functions of `=>` / keys of `orderby` (closed menu) -/
inductive Fn where
  | ident                 -- .
  | wrapA                 -- (a: .)
  | single                -- {.}
  | arr1                  -- [.]
  | pairWith (n : Int)    -- (a: ., b: n)
  | neg                   -- -.
  | const (n : Int)       -- n
  deriving Inhabited

def Fn.apply : Fn → Rep → Rep
  | .ident, x => x
  | .wrapA, x => C06.Impl.newTuple [("a", x)]
  | .single, x => C06.Impl.build [x]
  | .arr1, x => C06.Impl.mkArray 0 [some x]
  | .pairWith n, x => C06.Impl.newTuple [("a", x), ("b", .num n)]
  | .neg, x => C06.Impl.negate x
  | .const n, _ => .num n

def Fn.src : Fn → String
  | .ident => "."
  | .wrapA => "(a: .)"
  | .single => "{.}"
  | .arr1 => "[.]"
  | .pairWith n => "(a: ., b: " ++ Lit.numSrc n ++ ")"
  | .neg => "-."
  | .const n => Lit.numSrc n

/-- predicates of `where` (closed menu; all total on data values) -/
inductive Pr where
  | ltNum (n : Int)       -- . < n
  | neNum (n : Int)       -- . != n
  | geSet                 -- . >= {}
  | all                   -- true
  deriving Inhabited

def Pr.apply : Pr → Rep → Bool
  | .ltNum n, x => C06.Impl.less x (.num n)
  | .neNum n, x => !C06.Impl.equal x (.num n)
  | .geSet, x => !C06.Impl.less x .empty
  | .all, _ => true

def Pr.src : Pr → String
  | .ltNum n => ". < " ++ Lit.numSrc n
  | .neNum n => ". != " ++ Lit.numSrc n
  | .geSet => ". >= {}"
  | .all => "true"

inductive Ex where
  | lit (src : String) (r : Rep)
  | union (a b : Ex)          -- a | b
  | inter (a b : Ex)          -- a & b
  | diff (a b : Ex)           -- a &~ b
  | map (a : Ex) (f : Fn)     -- a => f
  | filter (a : Ex) (p : Pr)  -- a where p
  | orderby (a : Ex) (f : Fn) -- a orderby f
  | with_ (a e : Ex)          -- a with e
  | without (a e : Ex)        -- a without e
  | count (a : Ex)            -- a count
  | single (a : Ex)           -- {a}
  /-- `let {l₁, …, a} = s; a` (rest = false)  /  `let {l₁, …, ...t} = s; t` (rest = true); the items are literals -/
  | setpat (lits : List (String × Rep)) (rest : Bool) (s : Ex)
  /-- `s rank (r₁: .a₁, r₂: .a₂, …)` over a set of tuples: ranking attributes (name, attribute ranked by) -/
  | rank (s : Ex) (attrs : List (String × String))
  deriving Inhabited

def Ex.src : Ex → String
  | .lit s _ => s
  | .union a b => "(" ++ a.src ++ " | " ++ b.src ++ ")"
  | .inter a b => "(" ++ a.src ++ " & " ++ b.src ++ ")"
  | .diff a b => "(" ++ a.src ++ " &~ " ++ b.src ++ ")"
  | .map a f => "(" ++ a.src ++ " => " ++ f.src ++ ")"
  | .filter a p => "(" ++ a.src ++ " where " ++ p.src ++ ")"
  | .orderby a f => "(" ++ a.src ++ " orderby " ++ f.src ++ ")"
  | .with_ a e => "(" ++ a.src ++ " with " ++ e.src ++ ")"
  | .without a e => "(" ++ a.src ++ " without " ++ e.src ++ ")"
  | .count a => "(" ++ a.src ++ " count)"
  | .single a => "{" ++ a.src ++ "}"
  | .setpat lits rest s =>
    "(let {" ++ ", ".intercalate (lits.map (·.1) ++ [if rest then "...t" else "a"]) ++ "} = " ++ s.src ++ "; " ++
      (if rest then "t" else "a") ++ ")"
  | .rank s attrs =>
    "(" ++ s.src ++ " rank (" ++ ", ".intercalate (attrs.map (fun p => p.1 ++ ": ." ++ p.2)) ++ "))"

inductive Res where
  | ok (r : Rep)
  | err
  deriving Inhabited

/-- an enumeration order: what this process' hash seeds make of every collection it walks -/
abbrev EnumOrder := List Rep → List Rep

namespace Impl

def memberOf (x : Rep) (s : Rep) : Bool := (members s).any (fun y => C06.Impl.equal y x)

def isGTupleB : Rep → Bool
  | .gtuple _ => true
  | _ => false

def attrOfR (n : String) : Rep → Rep
  | .gtuple as => C06.Impl.lookupAttr n as
  | r => r

/-- `Tuple.With`: set (replace) attributes -/
def withAttrs (extra : List (String × Rep)) : Rep → Rep
  | .gtuple as => .gtuple (as.filter (fun p => !extra.any (fun q => q.1 == p.1)) ++ extra)
  | r => r

/-- `Rank`, by its specification (C06 `rank_by_less`): the rank of a row for a ranking attribute is the number of rows
whose value of that attribute is strictly smaller -/
def rankRow (attrs : List (String × String)) (rows : List Rep) (row : Rep) : Rep :=
  withAttrs (attrs.map (fun p =>
    (p.1, .num ((rows.filter (fun y => C06.Impl.less (attrOfR p.2 y) (attrOfR p.2 row))).length : Int)))) row

/-- evaluation in which every walk over a set goes through `π` -/
def evalUnder (π : EnumOrder) : Ex → Res
  | .lit _ r => .ok r
  | .union a b =>
    match evalUnder π a, evalUnder π b with
    | .ok A, .ok B => if isSet A && isSet B then .ok (C06.Impl.build (π (members A) ++ π (members B))) else .err
    | _, _ => .err
  | .inter a b =>
    match evalUnder π a, evalUnder π b with
    | .ok A, .ok B =>
      if isSet A && isSet B then .ok (C06.Impl.build ((π (members A)).filter (fun x => memberOf x B))) else .err
    | _, _ => .err
  | .diff a b =>
    match evalUnder π a, evalUnder π b with
    | .ok A, .ok B =>
      if isSet A && isSet B then .ok (C06.Impl.build ((π (members A)).filter (fun x => !memberOf x B))) else .err
    | _, _ => .err
  | .map a f =>
    match evalUnder π a with
    | .ok A => if isSet A then .ok (C06.Impl.build ((π (members A)).map f.apply)) else .err
    | .err => .err
  | .filter a p =>
    match evalUnder π a with
    | .ok A => if isSet A then .ok (C06.Impl.build ((π (members A)).filter p.apply)) else .err
    | .err => .err
  | .orderby a f =>
    match evalUnder π a with
    | .ok A => if isSet A then .ok (C06.Impl.mkArray 0 ((C06.Impl.orderBy f.apply (π (members A))).map some)) else .err
    | .err => .err
  | .with_ a e =>
    match evalUnder π a, evalUnder π e with
    | .ok A, .ok x => if isSet A then .ok (C06.Impl.build (π (members A) ++ [x])) else .err
    | _, _ => .err
  | .without a e =>
    match evalUnder π a, evalUnder π e with
    | .ok A, .ok x =>
      if isSet A then .ok (C06.Impl.build ((π (members A)).filter (fun y => !C06.Impl.equal y x))) else .err
    | _, _ => .err
  | .count a =>
    match evalUnder π a with
    | .ok A => if isSet A then .ok (.num (members A).length) else .err
    | .err => .err
  | .single a =>
    match evalUnder π a with
    | .ok x => .ok (C06.Impl.build [x])
    | .err => .err
  | .setpat lits rest a =>
    match evalUnder π a with
    | .ok S =>
      if isSet S then
        -- every literal item must be a member; what is left binds the identifier (exactly one member) or `...t`
        if lits.all (fun l => (π (members S)).any (fun y => C06.Impl.equal y l.2)) then
          if rest then .ok (C06.Impl.build ((π (members S)).filter (fun y => !lits.any (fun l => C06.Impl.equal y l.2))))
          else match (π (members S)).filter (fun y => !lits.any (fun l => C06.Impl.equal y l.2)) with
            | [x] => .ok x
            | _ => .err
        else .err
      else .err
    | .err => .err
  | .rank a attrs =>
    match evalUnder π a with
    | .ok S =>
      if isSet S && (members S).all isGTupleB then
        .ok (C06.Impl.build ((π (members S)).map (rankRow attrs (π (members S)))))
      else .err
    | .err => .err

end Impl

/-! ### constructs that pick "an element" or depend on "the first element" of an enumeration

These are outside the fragment of the theorems; they are predicted under the identity order and tied to the
implementation by the N-process run (an outcome — value or error — must be the same in every process). -/

/-- a relation literal over k, v, i: row `j` is `(k, v, i: j)` -/
def kvRows (rows : List (Int × Int)) : List Rep :=
  rows.zipIdx.map (fun (r, j) => .gtuple [("k", .num r.1), ("v", .num r.2), ("i", .num j)])

def kvSrc (rows : List (Int × Int)) : String :=
  "{|k, v, i| " ++ ", ".intercalate (rows.zipIdx.map (fun (r, j) =>
    "(" ++ Lit.numSrc r.1 ++ ", " ++ Lit.numSrc r.2 ++ ", " ++ toString j ++ ")")) ++ "}"

inductive Pg where
  /-- mode 0: `let {L…, a} = S; a`   1: `let {L…, ...t} = S; t`   2: `cond S {{L…, a}: a, _: 'none'}` -/
  | setpat (lits : List (String × Rep)) (mode : Nat) (s : Ex)
  /-- `R rank (rk: .k, rv: .v[, rm: .i % 3])`; post 0: the relation, 1: `(… where .v = c) => .rk`, 2: `… => (a: .rk, b: .rv)` -/
  | rank (rows : List (Int × Int)) (three : Bool) (post : Nat) (c : Int)
  /-- `(S orderby f) >> f`: with tied keys only tied members may swap, so the sequence of keys is determined -/
  | orderbyKeys (s : Ex) (f : Fn)
  /-- op 0: `S max f`, 1: `S min f` -/
  | reduce (s : Ex) (op : Nat) (f : Fn)
  /-- mode 0: `R nest |v, i|g`, 1: `R nest |i|g` -/
  | nest (rows : List (Int × Int)) (mode : Nat)
  /-- `(R orderby .k) >> .v`?  no: `(R orderby .k) >> .k` (tied keys: the key sequence is determined), or with the
  tie-free key `(k: .k, i: .i)` the rows themselves: mode 0 / 1 -/
  | orderbyAttr (rows : List (Int × Int)) (mode : Nat)
  /-- numeric reducers over a set of 12–20 numbers `u / scale` (scale 1, 2, 4: exactly representable):
  op 0 `S sum .`, 1 `S mean .`, 2 `S median .`, 3 `S max .`, 4 `S min .`, 5 `S count` -/
  | numred (units : List Int) (scale : Nat) (op : Nat)
  /-- the same reducers over an attribute of a relation (values repeat): `R sum .v`, … -/
  | numrel (rows : List (Int × Int)) (op : Nat)
  /-- an OUTER set (or dictionary, modes ≥ 5) of ≥ 12 members that holds the same inner value in several spellings.
  mode 0 `{o1} count`, 1 `{o1} = {o2}`, 2 `{o1} & {o2}`, 3 `probe <: {o1}`, 4 `{o1}`;
  dictionaries `D1 = {k: v, …}` over `o1`, `D2` over `o2`: 5 `D1 = D2`, 6 `D1(probe)`, 7 `(D1 | D2) count`, 8 `D1` -/
  | dup (o1 o2 : List ((String × Rep) × Int)) (probe : String × Rep) (mode : Nat)
  deriving Inhabited

/-- the decimal text of `p / q` when it terminates (`q ∣ 10^9` after reduction); what Go's shortest float formatting
prints for such a value of moderate size -/
def decStr (p : Int) (q : Nat) : String :=
  let g := Nat.gcd p.natAbs q
  let q' := if g == 0 then 1 else q / g
  let p' : Int := if g == 0 then 0 else p / (g : Int)
  let sc := 1000000000 / q'
  let v : Int := p' * (sc : Int)
  let a := v.natAbs
  let ip := a / 1000000000
  let fp := a % 1000000000
  let digits := (toString (1000000000 + fp)).toList.drop 1
  let frac := String.ofList (digits.reverse.dropWhile (· == '0')).reverse
  (if v < 0 then "-" else "") ++ toString ip ++ (if fp == 0 then "" else "." ++ frac)

def terminates (p : Int) (q : Nat) : Bool :=
  let g := Nat.gcd p.natAbs q
  let q' := if g == 0 then 1 else q / g
  q' != 0 && 1000000000 % q' == 0

def decSrc (p : Int) (q : Nat) : String := if p < 0 then "(" ++ decStr p q ++ ")" else decStr p q

def redName (op : Nat) : String :=
  match op with
  | 0 => "sum" | 1 => "mean" | 2 => "median" | 3 => "max" | _ => "min"

def dupSetSrc (o : List ((String × Rep) × Int)) : String := "{" ++ ", ".intercalate (o.map (·.1.1)) ++ "}"
def dupDictSrc (o : List ((String × Rep) × Int)) : String :=
  "{" ++ ", ".intercalate (o.map (fun e => e.1.1 ++ ": " ++ Lit.numSrc e.2)) ++ "}"

def Pg.src : Pg → String
  | .setpat lits mode s =>
    let ls := lits.map (·.1)
    match mode with
    | 0 => "let {" ++ ", ".intercalate (ls ++ ["a"]) ++ "} = " ++ s.src ++ "; a"
    | 1 => "let {" ++ ", ".intercalate (ls ++ ["...t"]) ++ "} = " ++ s.src ++ "; t"
    | _ => "cond " ++ s.src ++ " {{" ++ ", ".intercalate (ls ++ ["a"]) ++ "}: a, _: 'none'}"
  | .rank rows three post c =>
    let rk := "(" ++ kvSrc rows ++ " rank (rk: .k, rv: .v" ++ (if three then ", rm: .i % 3" else "") ++ "))"
    match post with
    | 0 => rk
    | 1 => "((" ++ rk ++ " where .v = " ++ Lit.numSrc c ++ ") => .rk)"
    | _ => "(" ++ rk ++ " => (a: .rk, b: .rv))"
  | .orderbyKeys s f => "((" ++ s.src ++ " orderby " ++ f.src ++ ") >> " ++ f.src ++ ")"
  | .reduce s op f => "(" ++ s.src ++ (if op == 0 then " max " else " min ") ++ f.src ++ ")"
  | .nest rows mode => "(" ++ kvSrc rows ++ (if mode == 0 then " nest |v, i|g)" else " nest |i|g)")
  | .orderbyAttr rows mode =>
    if mode == 0 then "((" ++ kvSrc rows ++ " orderby .k) >> .k)" else "(" ++ kvSrc rows ++ " orderby (k: .k, i: .i))"
  | .numred units scale op =>
    let S := "{" ++ ", ".intercalate (units.map (fun u => decSrc u scale)) ++ "}"
    if op == 5 then "(" ++ S ++ " count)" else "(" ++ S ++ " " ++ redName op ++ " .)"
  | .numrel rows op =>
    if op == 5 then "(" ++ kvSrc rows ++ " count)" else "(" ++ kvSrc rows ++ " " ++ redName op ++ " .v)"
  | .dup o1 o2 probe mode =>
    match mode with
    | 0 => "(" ++ dupSetSrc o1 ++ " count)"
    | 1 => "(" ++ dupSetSrc o1 ++ " = " ++ dupSetSrc o2 ++ ")"
    | 2 => "(" ++ dupSetSrc o1 ++ " & " ++ dupSetSrc o2 ++ ")"
    | 3 => "(" ++ probe.1 ++ " <: " ++ dupSetSrc o1 ++ ")"
    | 4 => dupSetSrc o1
    | 5 => "(" ++ dupDictSrc o1 ++ " = " ++ dupDictSrc o2 ++ ")"
    | 6 => "(" ++ dupDictSrc o1 ++ "(" ++ probe.1 ++ "))"
    | 7 => "((" ++ dupDictSrc o1 ++ " | " ++ dupDictSrc o2 ++ ") count)"
    | _ => dupDictSrc o1

namespace Impl

def attrOf (n : String) : Rep → Rep
  | .gtuple as => C06.Impl.lookupAttr n as
  | r => r

def withAttr (n : String) (v : Rep) : Rep → Rep
  | .gtuple as => .gtuple (as ++ [(n, v)])
  | r => r

/-- `Rank` with several ranking attributes: for each attribute, a row's rank is the number of rows whose value of that
attribute is strictly smaller -/
def rankMany (keyfs : List (String × (Rep → Rep))) (rows : List Rep) : List Rep :=
  keyfs.foldl (fun rs (nf : String × (Rep → Rep)) =>
    let ranked := C06.Impl.rank nf.2 rs
    rs.map (fun row =>
      let r := ((ranked.find? (fun q => C06.Impl.equal q.1 row)).map (·.2)).getD 0
      withAttr nf.1 (.num r) row)) rows

def evalPg : Pg → Res
  | .setpat lits mode s =>
    let fail : Res := if mode == 2 then .ok (.str [110, 111, 110, 101] 0) else .err
    match evalUnder (fun l => l) s with
    | .err => .err
    | .ok S =>
      if !isSet S then fail
      else
        let ms := members S
        if lits.length + 1 > ms.length + 1 then fail
        else if !lits.all (fun l => ms.any (fun y => C06.Impl.equal y l.2)) then fail
        else
          let rest := ms.filter (fun y => !lits.any (fun l => C06.Impl.equal y l.2))
          if mode == 1 then .ok (C06.Impl.build rest)
          else match rest with
            | [x] => .ok x
            | _ => fail
  | .rank rows three post c =>
    let fs : List (String × (Rep → Rep)) :=
      [("rk", attrOf "k"), ("rv", attrOf "v")] ++
      (if three then [("rm", fun r => match attrOf "i" r with | .num i => .num (i % 3) | x => x)] else [])
    let ranked := rankMany fs (kvRows rows)
    if rows.isEmpty then .ok .empty
    else match post with
    | 0 => .ok (C06.Impl.build ranked)
    | 1 => .ok (C06.Impl.build ((ranked.filter (fun r => C06.Impl.equal (attrOf "v" r) (.num c))).map (attrOf "rk")))
    | _ => .ok (C06.Impl.build (ranked.map (fun r => C06.Impl.newTuple [("a", attrOf "rk" r), ("b", attrOf "rv" r)])))
  | .orderbyKeys s f =>
    match evalUnder (fun l => l) s with
    | .ok S => if isSet S then .ok (C06.Impl.mkArray 0 (((C06.Impl.orderBy f.apply (members S)).map f.apply).map some)) else .err
    | .err => .err
  | .reduce s op f =>
    match evalUnder (fun l => l) s with
    | .ok S =>
      if isSet S then
        match (if op == 0 then C06.Impl.maxOf else C06.Impl.minOf) ((members S).map f.apply) with
        | some x => .ok x
        | none => .err
      else .err
    | .err => .err
  | .orderbyAttr rows mode =>
    let rs := kvRows rows
    if mode == 0 then .ok (C06.Impl.mkArray 0 (((C06.Impl.orderBy (attrOf "k") rs).map (attrOf "k")).map some))
    else .ok (C06.Impl.mkArray 0 ((C06.Impl.orderBy (fun r => .gtuple [("k", attrOf "k" r), ("i", attrOf "i" r)]) rs).map some))
  | .numred _ _ _ => .err          -- rational results: see `obsPg`
  | .numrel _ _ => .err
  | .dup o1 o2 probe mode =>
    let boolRep (b : Bool) : Rep := if b then .true_ else .empty
    let s1 := C06.Impl.build (o1.map (·.1.2))
    let s2 := C06.Impl.build (o2.map (·.1.2))
    let ents (o : List ((String × Rep) × Int)) : List Rep := o.map (fun e => .entryT e.1.2 (.num e.2))
    let d1 := C06.Impl.build (ents o1)
    let d2 := C06.Impl.build (ents o2)
    match mode with
    | 0 => .ok (.num (members s1).length)
    | 1 => .ok (boolRep (C06.Impl.equal s1 s2))
    | 2 => .ok (C06.Impl.build ((members s1).filter (fun x => memberOf x s2)))
    | 3 => .ok (boolRep (memberOf probe.2 s1))
    | 4 => .ok s1
    | 5 => .ok (boolRep (C06.Impl.equal d1 d2))
    | 6 => match o1.find? (fun e => C06.Impl.equal e.1.2 probe.2) with
      | some e => .ok (.num e.2)
      | none => .err
    | 7 => .ok (.num (members (C06.Impl.build (ents o1 ++ ents o2))).length)
    | _ => .ok d1
  | .nest rows mode =>
    let rs := kvRows rows
    if rs.isEmpty then .ok .empty
    else
      let outer (r : Rep) : List (String × Rep) :=
        if mode == 0 then [("k", attrOf "k" r)] else [("k", attrOf "k" r), ("v", attrOf "v" r)]
      let inner (r : Rep) : Rep :=
        if mode == 0 then .gtuple [("v", attrOf "v" r), ("i", attrOf "i" r)] else .gtuple [("i", attrOf "i" r)]
      .ok (C06.Impl.build (rs.map (fun r =>
        let grp := rs.filter (fun q => C06.Impl.equal (.gtuple (outer q)) (.gtuple (outer r)))
        .gtuple (outer r ++ [("g", C06.Impl.build (grp.map inner))]))))

end Impl

namespace Impl

/-- `KF-superimposed`: two sugar tuples of one kind at the same index among the values handed to the set builder -/
def superimposedL (ms : List Rep) : Bool :=
  let dup (l : List Int) := l.length != l.eraseDups.length
  dup (ms.filterMap (fun r => match r with | .charT i _ => some i | _ => none)) ||
  dup (ms.filterMap (fun r => match r with | .byteT i _ => some i | _ => none)) ||
  dup (ms.filterMap (fun r => match r with | .itemT i _ => some i | _ => none))

/-- the observables of a run: value up to meaning, printed text, CLI output, or the error class -/
def obs : Res → String
  | .ok r => (den r).canon ++ "\n" ++ repr r ++ "\n" ++ outText r
  | .err => "error"

/-- the exact value `p / q` of a numeric reducer over the multiset `us` of units (`u / scale` each) -/
def reduceExact (us : List Int) (scale : Nat) (op : Nat) : Option (Int × Nat) :=
  let n := us.length
  let sorted := isort (fun (a b : Int) => decide (a < b)) us
  match op with
  | 0 => some (us.foldl (· + ·) 0, scale)
  | 1 => if n == 0 then none else some (us.foldl (· + ·) 0, scale * n)
  | 2 =>
    if n == 0 then none
    else if n % 2 == 1 then some (sorted.getD (n / 2) 0, scale)
    else some (sorted.getD (n / 2 - 1) 0 + sorted.getD (n / 2) 0, scale * 2)
  | 3 => (sorted.getLast?).map (fun u => (u, scale))
  | 4 => (sorted.head?).map (fun u => (u, scale))
  | _ => some ((n : Int), 1)

def numObs : Option (Int × Nat) → String
  | some (p, q) => let t := decStr p q; t ++ "\n" ++ t ++ "\n" ++ t ++ "\n"
  | none => "error"

/-- observables of a `Pg` program; numeric reducers are computed exactly (rationals) and printed as decimals -/
def obsPg : Pg → String
  | .numred units scale op => numObs (reduceExact units scale op)
  | .numrel rows op => numObs (reduceExact (if op == 5 then rows.map (fun _ => (0 : Int)) else rows.map (·.2)) 1 op)
  | p => obs (evalPg p)

end Impl

end Arrai.C07
