/-
  C07 — lifting the order-independence theorem to programs that produce tuples, arrays, dictionaries and relations:
  helper lemmas (element functions and predicates as functions of canonical keys, invariants of the set builder's
  results, `orderby` without ties on key-permuted inputs).
-/
import Arrai.C07.MembersK
import Arrai.C06.Den

namespace Arrai.C07
open Arrai.C06 Std
open C06.Impl (Bucket bucketOf finishBucket build)

/-! ### element functions on canonical keys -/
def Fn.ok : Fn → Bool
  | .ident | .const _ | .wrapA | .pairWith _ | .arr1 => true
  | _ => false

def Fn.onKey2 : Fn → K → K
  | .ident, k => k
  | .const n, _ => key (.num n)
  | .wrapA, k => tupleKeyAlg [("a", k)]
  | .pairWith n, k => tupleKeyAlg [("a", k), ("b", key (.num n))]
  | .arr1, k => .node (.int kArray :: .int 0 :: [optKey (some k)])
  | _, k => k

theorem Fn.apply_onKey2 (f : Fn) (hf : f.ok = true) (x : Rep) :
    key (f.apply x) = f.onKey2 (key x) ∧ tupleNodup (f.apply x) ∨ (f = .ident ∧ key (f.apply x) = f.onKey2 (key x)) := by
  cases f <;> simp [Fn.ok] at hf
  · exact Or.inr ⟨rfl, rfl⟩
  · left
    refine ⟨?_, ?_⟩
    · simp [Fn.apply, C06.Impl.newTuple, Fn.onKey2]
    · simp [Fn.apply, C06.Impl.newTuple, tupleNodup]
  · left
    refine ⟨?_, ?_⟩
    · simp [Fn.apply, C06.Impl.mkArray, C06.Impl.dropNones, Fn.onKey2]
    · simp [Fn.apply, C06.Impl.mkArray, C06.Impl.dropNones, tupleNodup]
  · left
    refine ⟨?_, ?_⟩
    · simp [Fn.apply, C06.Impl.newTuple, Fn.onKey2]
    · simp [Fn.apply, C06.Impl.newTuple, tupleNodup]
  · exact Or.inl ⟨rfl, trivial⟩

theorem Fn.key_apply (f : Fn) (hf : f.ok = true) (x : Rep) : key (f.apply x) = f.onKey2 (key x) := by
  rcases Fn.apply_onKey2 f hf x with h | h
  · exact h.1
  · exact h.2

theorem Fn.tupleNodup_apply (f : Fn) (hf : f.ok = true) (x : Rep) (hx : tupleNodup x) : tupleNodup (f.apply x) := by
  rcases Fn.apply_onKey2 f hf x with h | h
  · exact h.2
  · rw [h.1]; exact hx

/-! ### admissibility is a property of the multiset of keys -/
def idxOfK (t : Int) : K → Option Int
  | .node [.int k, x, _] => if k = t then (match x with | .int i => some i | _ => none) else none
  | _ => none

theorem idxOfK_ne {t k : Int} (h : k ≠ t) (rest : List K) : idxOfK t (.node (.int k :: rest)) = none := by
  rcases rest with _ | ⟨a, _ | ⟨b, _ | ⟨c, r⟩⟩⟩
  · rfl
  · rfl
  · simp [idxOfK, h]
  · rfl

theorem idxOfK_key_none {t : Int} (x : Rep) (h : kind x ≠ t) : idxOfK t (key x) = none := by
  rw [key_eq_node x]; exact idxOfK_ne h _

theorem kind_ne_of_ctor {x y : Rep} (h : ctorId x ≠ ctorId y) : kind x ≠ kind y := fun e => h (kind_eq_ctor e)

theorem charIdx_key : ∀ (xs : List Rep), charIdx xs = (xs.map key).filterMap (idxOfK kCharT)
  | [] => rfl
  | x :: xs => by
    have ih := charIdx_key xs
    have hn : ctorId x ≠ 2 → idxOfK kCharT (key x) = none := fun h =>
      idxOfK_key_none x (kind_ne_of_ctor (y := .charT 0 0) h)
    cases x <;> first
      | (simp only [charIdx, List.map_cons, key_charT]; rw [ih]; rfl)
      | (rw [List.map_cons, List.filterMap_cons, hn (by simp [ctorId, Old.ctorId])]; exact ih)

theorem byteIdx_key : ∀ (xs : List Rep), byteIdx xs = (xs.map key).filterMap (idxOfK kByteT)
  | [] => rfl
  | x :: xs => by
    have ih := byteIdx_key xs
    have hn : ctorId x ≠ 3 → idxOfK kByteT (key x) = none := fun h =>
      idxOfK_key_none x (kind_ne_of_ctor (y := .byteT 0 0) h)
    cases x <;> first
      | (simp only [byteIdx, List.map_cons, key_byteT]; rw [ih]; rfl)
      | (rw [List.map_cons, List.filterMap_cons, hn (by simp [ctorId, Old.ctorId])]; exact ih)

theorem itemIdx_key : ∀ (xs : List Rep), itemIdx xs = (xs.map key).filterMap (idxOfK kItemT)
  | [] => rfl
  | x :: xs => by
    have ih := itemIdx_key xs
    have hn : ctorId x ≠ 4 → idxOfK kItemT (key x) = none := fun h =>
      idxOfK_key_none x (kind_ne_of_ctor (y := .itemT 0 .empty) h)
    cases x <;> first
      | (simp only [itemIdx, List.map_cons, key_itemT]; rw [ih]; rfl)
      | (rw [List.map_cons, List.filterMap_cons, hn (by simp [ctorId, Old.ctorId])]; exact ih)

theorem NoSuper.of_KP {xs ys : List Rep} (hn : NoSuper xs) (h : KP xs ys) : NoSuper ys := by
  refine ⟨?_, ?_, ?_⟩
  · rw [charIdx_key]; exact (h.filterMap _).nodup_iff.1 (charIdx_key xs ▸ hn.1)
  · rw [byteIdx_key]; exact (h.filterMap _).nodup_iff.1 (byteIdx_key xs ▸ hn.2.1)
  · rw [itemIdx_key]; exact (h.filterMap _).nodup_iff.1 (itemIdx_key xs ▸ hn.2.2)

/-! ### the members of a built set are tuples without repeated names -/
theorem tupleNodup_rowTuple {ns : List String} (hns : ns.Nodup) (row : List Rep) : tupleNodup (C06.Impl.rowTuple ns row) := by
  simp only [C06.Impl.rowTuple, tupleNodup]
  exact (zipNames_names_sublist ns row).nodup hns

theorem members1_finish_nodup (b : Bucket) (vs : List Rep) (hvs : ∀ x ∈ vs, tupleNodup x)
    (hb : ∀ ns, b = .heading ns → ns.Nodup) : ∀ v ∈ members1 (finishBucket (b, vs)), tupleNodup v := by
  cases b with
  | generic =>
    simp only [finishBucket]
    rcases hD : C06.Impl.dedupR [] vs with _ | ⟨y, _ | ⟨z, r⟩⟩
    · intro v hv; simp [members1] at hv
    · dsimp only
      have hy : y ∈ vs := by
        have := mem_dedupR vs [] y (by rw [hD]; simp)
        simpa using this
      by_cases hc : C06.Impl.equal y (.gtuple []) = true
      · rw [if_pos hc]; intro v hv; simp [members1] at hv; subst hv; simp [tupleNodup]
      · rw [if_neg hc]; intro v hv; simp [members1] at hv; rw [hv]; exact hvs y hy
    · dsimp only
      intro v hv
      have : v ∈ C06.Impl.dedupR [] vs := by rw [hD]; simpa [members1] using hv
      have := mem_dedupR vs [] v this
      exact hvs v (by simpa using this)
  | chars =>
    intro v hv
    simp only [finishBucket, members1, List.mem_filterMap] at hv
    obtain ⟨p, _, hp⟩ := hv
    split at hp
    · cases hp
    · cases hp; trivial
  | bytes =>
    intro v hv
    simp only [finishBucket, members1, List.mem_map] at hv
    obtain ⟨p, _, rfl⟩ := hv
    trivial
  | items =>
    intro v hv
    simp only [finishBucket, members1, List.mem_filterMap] at hv
    obtain ⟨p, _, hp⟩ := hv
    cases h2 : p.2 with
    | none => rw [h2] at hp; cases hp
    | some x => rw [h2] at hp; cases hp; trivial
  | entries =>
    intro v hv
    simp only [finishBucket, members1, List.mem_flatMap, List.mem_map] at hv
    obtain ⟨e, _, w, _, rfl⟩ := hv
    trivial
  | heading ns =>
    intro v hv
    simp only [finishBucket, members1, List.mem_map] at hv
    obtain ⟨row, _, rfl⟩ := hv
    exact tupleNodup_rowTuple (hb ns rfl) row

theorem heading_nodup_of_mem {xs : List Rep} (hxs : ∀ x ∈ xs, tupleNodup x) {ns : List String}
    (h : ∃ v ∈ xs, bucketOf v = .heading ns) : ns.Nodup := by
  obtain ⟨v, hv, hb⟩ := h
  have hn := hxs v hv
  cases v with
  | gtuple as =>
    simp only [bucketOf] at hb
    by_cases he : as.isEmpty = true
    · rw [if_pos he] at hb; cases hb
    · rw [if_neg he] at hb
      injection hb with hb
      rw [← hb]
      simp only [tupleNodup] at hn
      exact (isort_perm strLt _).nodup_iff.2 hn
  | _ => simp [bucketOf] at hb

theorem members_finish_eq (b : Bucket) (vs : List Rep) : members (finishBucket (b, vs)) = members1 (finishBucket (b, vs)) := by
  cases b with
  | generic =>
    simp only [finishBucket]
    rcases C06.Impl.dedupR [] vs with _ | ⟨y, _ | ⟨z, r⟩⟩
    · rfl
    · dsimp only; split <;> rfl
    · rfl
  | _ => rfl

theorem members_build_nodup (xs : List Rep) (hxs : ∀ x ∈ xs, tupleNodup x) : ∀ v ∈ members (build xs), tupleNodup v := by
  have hgrp : ∀ g ∈ groups xs, ∀ v ∈ members1 (finishBucket g), tupleNodup v := by
    intro g hg
    have hc := (groups_inv xs).content g hg
    have : g = (g.1, xs.filter (inB g.1)) := by rw [← hc]
    rw [this]
    apply members1_finish_nodup
    · intro x hx; exact hxs x (List.mem_filter.1 hx).1
    · intro ns hns
      exact heading_nodup_of_mem hxs ((mem_groups_keys xs _).1 (hns ▸ List.mem_map.2 ⟨g, hg, rfl⟩))
  unfold build
  show ∀ v ∈ members (match groups xs with
    | [] => Rep.empty
    | [g] => finishBucket g
    | gs => Rep.union (gs.map finishBucket)), tupleNodup v
  rcases hgs : groups xs with _ | ⟨a, _ | ⟨b, r⟩⟩
  · intro v hv; simp [members, members1] at hv
  · dsimp only
    obtain ⟨b, vs⟩ := a
    rw [members_finish_eq]
    exact hgrp (b, vs) (by rw [hgs]; simp)
  · dsimp only
    intro v hv
    simp only [members, List.mem_flatMap, List.mem_map] at hv
    obtain ⟨r', ⟨g, hg, rfl⟩, hv⟩ := hv
    exact hgrp g (by rw [hgs]; exact hg) v hv

/-! ### small facts about key-equal values -/
theorem isSet_of_key {a b : Rep} (h : key a = key b) : isSet a = isSet b := by
  have hkind : kind a = kind b := by rw [← kindOf_key a, ← kindOf_key b, h]
  have hc := kind_eq_ctor hkind
  cases a <;> cases b <;> simp [ctorId, Old.ctorId] at hc <;> rfl

theorem tupleNodup_of_not_gtuple {x : Rep} (h : ¬ isGTuple x) : tupleNodup x := by
  cases x <;> simp [isGTuple] at h <;> trivial

/-! ### sorting without ties, for any transitive comparison -/
section NoTiesSort
variable {α : Type} (c : α → α → Ordering) [TransCmp c]

theorem strict_of_le_ne : ∀ {m : List α}, SortedLE c m → m.Pairwise (fun a b => c a b ≠ .eq) →
    m.Pairwise (fun a b => c a b = .lt)
  | [], _, _ => List.Pairwise.nil
  | x :: xs, hs, hne => by
    unfold SortedLE at hs
    rw [List.pairwise_cons] at hs hne ⊢
    refine ⟨?_, strict_of_le_ne hs.2 hne.2⟩
    intro y hy
    cases hc : c x y with
    | lt => rfl
    | eq => exact absurd hc (hne.1 y hy)
    | gt => exact absurd hc (hs.1 y hy)

theorem isort_perm_of_noTies {l l' : List α} (hn : l.Pairwise (fun a b => c a b ≠ .eq)) (hp : l.Perm l') :
    isort (fun a b => c a b == .lt) l = isort (fun a b => c a b == .lt) l' := by
  have hsym : ∀ {a b : α}, c a b ≠ .eq → c b a ≠ .eq := fun {a b} h e => h (OrientedCmp.eq_symm e)
  have p1 := isort_perm (fun a b => c a b == .lt) l
  have p2 := isort_perm (fun a b => c a b == .lt) l'
  have s1 := strict_of_le_ne c (isort_sorted c l) (hn.perm p1.symm hsym)
  have s2 := strict_of_le_ne c (isort_sorted c l') (hn.perm (hp.trans p2.symm) hsym)
  apply List.Perm.eq_of_pairwise (le := fun a b => c a b = .lt) _ s1 s2 (p1.trans (hp.trans p2.symm))
  intro a b _ _ hab hba
  have : c b a = .gt := OrientedCmp.gt_of_lt hab
  rw [this] at hba; cases hba

end NoTiesSort

/-- comparison of keys through a function -/
def kcmpF (F : K → K) (a b : K) : Ordering := K.cmp (F a) (F b)

instance (F : K → K) : TransCmp (kcmpF F) where
  eq_swap := K.cmp_swap _ _
  isLE_trans := fun h₁ h₂ => TransCmp.isLE_trans (cmp := K.cmp) h₁ h₂

/-- `orderby` with an element function that is a function of canonical keys: the keys of the result are the sorted keys -/
theorem orderBy_keys (f : Fn) (hf : f.ok = true) (l : List Rep) :
    (C06.Impl.orderBy f.apply l).map key = isort (fun a b => kcmpF f.onKey2 a b == .lt) (l.map key) := by
  apply map_isort key _ _ l
  intro x _ y _
  rw [less_eq, Fn.key_apply f hf, Fn.key_apply f hf]
  rfl

theorem noTies_keys (f : Fn) (hf : f.ok = true) {l : List Rep} (hn : NoTies f.apply l) :
    (l.map key).Pairwise (fun a b => kcmpF f.onKey2 a b ≠ .eq) := by
  unfold NoTies at hn
  rw [List.pairwise_map]
  refine hn.imp ?_
  intro x y h e
  have : C06.Impl.equal (f.apply x) (f.apply y) = true := by
    simp only [C06.Impl.equal, K.beq_iff, Fn.key_apply f hf]
    exact (K.cmp_eq_iff _ _).1 e
  rw [this] at h; cases h

theorem orderBy_KP (f : Fn) (hf : f.ok = true) {l l' : List Rep} (hn : NoTies f.apply l) (h : KP l l') :
    (C06.Impl.orderBy f.apply l).map key = (C06.Impl.orderBy f.apply l').map key := by
  rw [orderBy_keys f hf, orderBy_keys f hf]
  exact isort_perm_of_noTies (kcmpF f.onKey2) (noTies_keys f hf hn) h

/-- `NewArray(values…)` of a list without holes -/
theorem mkArray_somes (l : List Rep) :
    C06.Impl.mkArray 0 (l.map some) = if l = [] then .empty else .array (l.map some) 0 := by
  have hd : ∀ (m : List Rep), C06.Impl.dropNones (m.map some) = (0, m.map some) := by
    intro m; cases m <;> rfl
  unfold C06.Impl.mkArray
  rw [hd l]
  simp only []
  rw [← List.map_reverse, hd l.reverse]
  simp only [List.map_reverse, List.reverse_reverse]
  cases l with
  | nil => rfl
  | cons x xs => simp

theorem key_mkArray_somes {l l' : List Rep} (h : l.map key = l'.map key) :
    key (C06.Impl.mkArray 0 (l.map some)) = key (C06.Impl.mkArray 0 (l'.map some)) := by
  rw [mkArray_somes, mkArray_somes]
  have hl : l.length = l'.length := by simpa using congrArg List.length h
  cases l with
  | nil => cases l' with
    | nil => rfl
    | cons y ys => simp at hl
  | cons x xs => cases l' with
    | nil => simp at hl
    | cons y ys =>
      simp only [List.cons_ne_nil, if_false, reduceCtorEq]
      rw [key_array, key_array]
      have : ((x :: xs).map some).map (fun o => optKey (o.map key)) = ((x :: xs).map key).map (fun k => optKey (some k)) := by
        simp [List.map_map, Function.comp_def]
      have h2 : ((y :: ys).map some).map (fun o => optKey (o.map key)) = ((y :: ys).map key).map (fun k => optKey (some k)) := by
        simp [List.map_map, Function.comp_def]
      rw [this, h2, h]

end Arrai.C07
