/-
  C19 helper lemmas: laws of the tree operations, the fault-free execution relation `Runs`,
  the dry pass decides validity, the writing pass computes `Spec.apply`, and every call that
  can be made to fail is reported (`Sound`).
-/
import Arrai.C19.Model

namespace Arrai.C19

/-! ## Trees -/

theorem setKey_same (k : Name) (g : T → T) (f : Name → T) : setKey k g f k = g (f k) := by
  simp [setKey]

theorem setKey_ne {k k' : Name} (g : T → T) (f : Name → T) (h : k' ≠ k) : setKey k g f k' = f k' := by
  simp [setKey, h]

theorem setKey_setKey (k : Name) (g h : T → T) (f : Name → T) :
    setKey k g (setKey k h f) = setKey k (fun c => g (h c)) f := by
  funext k'
  by_cases e : k' = k <;> simp [setKey, e]

theorem setKey_congr (k : Name) (g h : T → T) (f : Name → T) (e : g (f k) = h (f k)) :
    setKey k g f = setKey k h f := by
  funext k'
  by_cases e' : k' = k <;> simp [setKey, e', e]

theorem setKey_id (k : Name) (f : Name → T) : setKey k (fun _ => f k) f = f := by
  funext k'
  by_cases e : k' = k <;> simp [setKey, e]

theorem get_append (p q : Path) (t : T) : get (p ++ q) t = get q (get p t) := by
  induction p generalizing t with
  | nil => rfl
  | cons k p ih =>
    cases t with
    | dir f => simp [get, ih]
    | absent => cases q <;> simp [get]
    | file b => cases q <;> simp [get]

theorem alter_append (p q : Path) (g : T → T) (t : T) : alter (p ++ q) g t = alter p (alter q g) t := by
  induction p generalizing t with
  | nil => rfl
  | cons k p ih =>
    cases t with
    | dir f =>
      simp only [List.cons_append, alter]
      congr 1
      funext k'
      by_cases e : k' = k <;> simp [setKey, e, ih]
    | absent => simp [alter]
    | file b => simp [alter]

theorem alter_alter (p : Path) (g h : T → T) (t : T) :
    alter p g (alter p h t) = alter p (fun c => g (h c)) t := by
  induction p generalizing t with
  | nil => rfl
  | cons k p ih =>
    cases t with
    | dir f =>
      simp only [alter, setKey_setKey]
      congr 1
      funext k'
      by_cases e : k' = k <;> simp [setKey, e, ih]
    | absent => simp [alter]
    | file b => simp [alter]

theorem alter_congr (p : Path) (g h : T → T) (t : T) (e : g (get p t) = h (get p t)) :
    alter p g t = alter p h t := by
  induction p generalizing t with
  | nil => simpa [alter, get] using e
  | cons k p ih =>
    cases t with
    | dir f =>
      simp only [alter]
      congr 1
      exact setKey_congr k _ _ f (ih (f k) (by simpa [get] using e))
    | absent => simp [alter]
    | file b => simp [alter]

theorem alter_get_self (p : Path) (t : T) : alter p (fun _ => get p t) t = t := by
  induction p generalizing t with
  | nil => rfl
  | cons k p ih =>
    cases t with
    | dir f =>
      simp only [alter, get]
      congr 1
      funext k'
      by_cases e : k' = k
      · subst e; simp [setKey, ih]
      · simp [setKey, e]
    | absent => simp [alter]
    | file b => simp [alter]

/-- every proper prefix of `p` is a directory of `t`: `alter p` takes effect -/
def Reach : Path → T → Prop
  | [], _ => True
  | k :: p, .dir f => Reach p (f k)
  | _ :: _, _ => False

theorem get_alter_self (p : Path) (g : T → T) (t : T) (h : Reach p t) : get p (alter p g t) = g (get p t) := by
  induction p generalizing t with
  | nil => rfl
  | cons k p ih =>
    cases t with
    | dir f => simp only [alter, get, setKey_same]; exact ih (f k) h
    | absent => exact absurd h (by simp [Reach])
    | file b => exact absurd h (by simp [Reach])

theorem reach_of_dir (q : Path) (t : T) (h : statOf (get q t) = .isDir) : Reach q t := by
  induction q generalizing t with
  | nil => trivial
  | cons k q ih =>
    cases t with
    | dir f => exact ih (f k) (by simpa [get] using h)
    | absent => simp [get, statOf] at h
    | file b => simp [get, statOf] at h

theorem reach_snoc (q : Path) (n : Name) (t : T) (h : statOf (get q t) = .isDir) : Reach (q ++ [n]) t := by
  induction q generalizing t with
  | nil =>
    cases t with
    | dir f => simp [Reach]
    | absent => simp [get, statOf] at h
    | file b => simp [get, statOf] at h
  | cons k q ih =>
    cases t with
    | dir f => exact ih (f k) (by simpa [get] using h)
    | absent => simp [get, statOf] at h
    | file b => simp [get, statOf] at h

theorem parentIsDir_snoc (q : Path) (n : Name) (t : T) : parentIsDir (q ++ [n]) t = decide (statOf (get q t) = .isDir) := by
  unfold parentIsDir
  split
  · rename_i h; simp at h
  · simp

theorem reach_of_parentIsDir (p : Path) (t : T) (h : parentIsDir p t = true) : Reach p t := by
  cases p with
  | nil => trivial
  | cons a l =>
    have e : a :: l = (a :: l).dropLast ++ [(a :: l).getLast (by simp)] := (List.dropLast_concat_getLast (by simp)).symm
    rw [e]
    apply reach_snoc
    simpa [parentIsDir] using h

/-- `alter p` leaves the view of everything that is not at or below `p` as it was -/
theorem view_get_alter_outside (p q : Path) (g : T → T) (t : T) (h : ¬ p <+: q) :
    view (get q (alter p g t)) = view (get q t) := by
  induction p generalizing q t with
  | nil => exact absurd (List.nil_prefix) h
  | cons k p ih =>
    cases t with
    | dir f =>
      cases q with
      | nil => simp [alter, get, view]
      | cons k' q =>
        simp only [alter, get]
        by_cases e : k' = k
        · subst e
          rw [setKey_same]
          exact ih q (f k') (fun hp => h (by simpa using hp))
        · rw [setKey_ne _ _ e]
    | absent => simp [alter]
    | file b => simp [alter]

/-! ## Fault-free execution: from file system `fs`, `m` returns `r` and leaves `fs'` -/

def Runs {α} (m : M α) (fs : FS) (r : Res α) (fs' : FS) : Prop :=
  ∀ n b, ∃ n', m ⟨fs, n, b⟩ = (r, ⟨fs', n', b⟩)

theorem Runs.pure {α} (a : α) (fs : FS) : Runs (Pure.pure a : M α) fs (.ok a) fs :=
  fun n _ => ⟨n, rfl⟩

theorem Runs.fail {α} (e : Err) (fs : FS) : Runs (M.fail e : M α) fs (.err e) fs :=
  fun n _ => ⟨n, rfl⟩

theorem Runs.lift {α} (r : Res α) (fs : FS) : Runs (M.lift r) fs r fs := by
  cases r with
  | ok a => exact fun n _ => ⟨n, rfl⟩
  | err e => exact fun n _ => ⟨n, rfl⟩

theorem Runs.bind_ok {α β} {m : M α} {f : α → M β} {fs fs1 fs2 : FS} {a : α} {r : Res β}
    (h1 : Runs m fs (.ok a) fs1) (h2 : Runs (f a) fs1 r fs2) : Runs (m >>= f) fs r fs2 := by
  intro n b
  obtain ⟨n1, e1⟩ := h1 n b
  obtain ⟨n2, e2⟩ := h2 n1 b
  exact ⟨n2, by show M.bind m f _ = _; simp [M.bind, e1, e2]⟩

theorem Runs.bind_err {α β} {m : M α} {f : α → M β} {fs fs1 : FS} {e : Err}
    (h1 : Runs m fs (.err e) fs1) : Runs (m >>= f) fs (.err e) fs1 := by
  intro n b
  obtain ⟨n1, e1⟩ := h1 n b
  exact ⟨n1, by show M.bind m f _ = _; simp [M.bind, e1]⟩

theorem Runs.fsop {α} (act : FS → Res α × FS) (fs : FS) : Runs (fsop [] act) fs (act fs).1 (act fs).2 :=
  fun n _ => ⟨n + 1, by simp [C19.fsop]⟩

theorem Runs.det {α} {m : M α} {fs : FS} {r r' : Res α} {fs' fs'' : FS}
    (h : Runs m fs r fs') (h' : Runs m fs r' fs'') : r = r' ∧ fs' = fs'' := by
  obtain ⟨n1, e1⟩ := h 0 false
  obtain ⟨n2, e2⟩ := h' 0 false
  rw [e1] at e2
  simp only [Prod.mk.injEq, St.mk.injEq] at e2
  exact ⟨e2.1, e2.2.1⟩

theorem Runs.onEmptyFs {m : M Unit} {r : Res Unit} {fs' : FS} (fs : FS)
    (h : Runs m (.dir (fun _ => .absent)) r fs') : Runs (M.onEmptyFs m) fs r fs := by
  intro n b
  obtain ⟨n1, e1⟩ := h 0 false
  exact ⟨n, by simp [M.onEmptyFs, e1]⟩

theorem Runs.withClose {body close : M Unit} {fs fs1 fs2 : FS} {r c : Res Unit}
    (h1 : Runs body fs r fs1) (h2 : Runs close fs1 c fs2) :
    Runs (M.withClose body close) fs (M.closeRes r c) fs2 := by
  intro n b
  obtain ⟨n1, e1⟩ := h1 n b
  obtain ⟨n2, e2⟩ := h2 n1 b
  exact ⟨n2, by simp [M.withClose, e1, e2]⟩

/-- `ok` when `b`, otherwise refused as invalid -/
def okIf (b : Bool) : Res Unit := if b then .ok () else .err .invalid

@[simp] theorem okIf_true : okIf true = .ok () := rfl
@[simp] theorem okIf_false : okIf false = .err .invalid := rfl

/-- two checks that leave the file system alone, in sequence -/
theorem Runs.seq_okIf {m m' : M Unit} {fs : FS} {a b : Bool}
    (h1 : Runs m fs (okIf a) fs) (h2 : Runs m' fs (okIf b) fs) :
    Runs (m >>= fun _ => m') fs (okIf (a && b)) fs := by
  cases a with
  | true => simpa using Runs.bind_ok h1 h2
  | false => simpa using Runs.bind_err h1

theorem Runs.stat_bind {β} (p : Path) (f : StatRes → M β) (fs : FS) {r : Res β} {fs' : FS}
    (h : Runs (f (statOf (get p fs))) fs r fs') : Runs (stat [] p >>= f) fs r fs' :=
  Runs.bind_ok (Runs.fsop _ fs) h

theorem get_absent (p : Path) : get p .absent = .absent := by
  cases p <;> rfl

theorem get_emptyDir (p : Path) (h : p ≠ []) : get p (.dir (fun _ => .absent)) = .absent := by
  cases p with
  | nil => exact absurd rfl h
  | cons k p => simp [get, get_absent]

theorem get_snoc (p : Path) (n : Name) (t : T) : get (p ++ [n]) t = children (get p t) n := by
  rw [get_append]
  cases get p t <;> simp [get, children]

theorem absent_of_notExist {t : T} (h : statOf t = .notExist) : t = .absent := by
  cases t <;> simp [statOf] at h ⊢

theorem statOf_dir_iff {t : T} (h : statOf t = .isDir) : ∃ f, t = .dir f := by
  cases t with
  | dir f => exact ⟨f, rfl⟩
  | absent => simp [statOf] at h
  | file b => simp [statOf] at h

theorem parentIsDir_alter (p : Path) (g : T → T) (fs : FS) (h : parentIsDir p fs = true) :
    parentIsDir p (alter p g fs) = true := by
  cases p with
  | nil => simp [parentIsDir] at h
  | cons a l =>
    have e : a :: l = (a :: l).dropLast ++ [(a :: l).getLast (by simp)] :=
      (List.dropLast_concat_getLast (by simp)).symm
    generalize (a :: l).dropLast = q at e
    generalize (a :: l).getLast (by simp) = n at e
    rw [e] at h ⊢
    rw [parentIsDir_snoc] at h ⊢
    simp only [decide_eq_true_eq] at h ⊢
    obtain ⟨f, hf⟩ := statOf_dir_iff h
    rw [alter_append, get_alter_self q _ fs (reach_of_dir q fs h), hf]
    simp [alter, statOf]

/-! ## The dry pass decides validity and changes nothing -/
namespace Impl
open Spec

theorem dry_outputFile (v : Val) (p : Path) (fs : FS) :
    Runs (outputFile [] v p true) fs (okIf ((bytesOf v).isSome && notDir (get p fs))) fs := by
  unfold outputFile
  cases hb : bytesOf v with
  | none => simpa using Runs.fail _ fs
  | some bs =>
    apply Runs.stat_bind
    cases hs : statOf (get p fs) <;> simp [notDir, hs]
    · exact Runs.pure () fs
    · exact Runs.pure () fs
    · exact Runs.fail _ fs

theorem dry_dirHead (p : Path) (fs : FS) :
    Runs (dirHead [] p true) fs (okIf (notFile (get p fs))) fs := by
  unfold dirHead
  apply Runs.stat_bind
  cases hs : statOf (get p fs) <;> simp [notFile, hs]
  · exact Runs.pure () fs
  · exact Runs.fail _ fs
  · exact Runs.pure () fs

theorem validDir_eq_false_of_getDirField {d : Val} {e : Err} (h : getDirField d = .err e) (c : T) :
    validDir d c = false := by
  cases d with
  | dict es => simp [getDirField] at h
  | data b bs => cases bs <;> simp [getDirField] at h <;> simp [validDir]
  | tup _ _ _ => simp [validDir]
  | other _ => simp [validDir]

theorem getDirField_err {d : Val} {e : Err} (h : getDirField d = .err e) : e = .invalid := by
  cases d with
  | dict es => simp [getDirField] at h
  | data b bs => cases bs <;> simp [getDirField] at h <;> exact h.symm
  | tup _ _ _ => simp [getDirField] at h; exact h.symm
  | other _ => simp [getDirField] at h; exact h.symm

theorem dry_applyFilesFields (t : TupF) (p : Path) (fs : FS)
    (hd : ∀ d, t.dirF = some d → Runs (t.dirOut [] p true) fs (okIf (validDir d (get p fs))) fs) :
    Runs (applyFilesFields [] t p true) fs (okIf (validContent t.dirF t.fileF (get p fs))) fs := by
  unfold applyFilesFields
  cases hdF : t.dirF with
  | none =>
    cases hfF : t.fileF with
    | none =>
      simp only [checkDirXorFileField, hdF, hfF, validContent]
      exact Runs.bind_err (Runs.lift _ fs)
    | some f =>
      simp only [checkDirXorFileField, hdF, hfF, validContent]
      exact Runs.bind_ok (Runs.lift _ fs) (dry_outputFile f p fs)
  | some d =>
    cases hfF : t.fileF with
    | some f =>
      simp only [checkDirXorFileField, hdF, hfF, validContent]
      exact Runs.bind_err (Runs.lift _ fs)
    | none =>
      simp only [checkDirXorFileField, hdF, hfF, validContent]
      refine Runs.bind_ok (Runs.lift _ fs) ?_
      cases hg : getDirField d with
      | err e =>
        rw [validDir_eq_false_of_getDirField hg]
        cases getDirField_err hg
        exact Runs.bind_err (Runs.lift _ fs)
      | ok es => exact Runs.bind_ok (Runs.lift _ fs) (hd d hdF)

theorem validContent_xor (dF fF : Option Val) (c : T) :
    validContent dF fF c = (!(dF.isSome == fF.isSome) && validContent dF fF c) := by
  cases dF <;> cases fF <;> simp [validContent]

theorem dry_applyIfExistsConfig (t : TupF) (conf : IfEx) (p : Path) (fs : FS) (hp : p ≠ [])
    (hd : ∀ d, t.dirF = some d → ∀ fs', Runs (t.dirOut [] p true) fs' (okIf (validDir d (get p fs'))) fs') :
    Runs (applyIfExistsConfig [] t conf p true) fs
      (okIf (validEntry (.tup (some conf) t.dirF t.fileF) (get p fs))) fs := by
  have haff := fun fs' => dry_applyFilesFields t p fs' (fun d h => hd d h fs')
  have hempty : Runs (M.onEmptyFs (applyFilesFields [] t p true)) fs
      (okIf (validContent t.dirF t.fileF .absent)) fs := by
    have := haff (.dir fun _ => .absent)
    rw [get_emptyDir p hp] at this
    exact Runs.onEmptyFs fs this
  unfold applyIfExistsConfig
  cases conf with
  | notStr => simpa [validEntry] using Runs.fail _ fs
  | invalidStr => simpa [validEntry] using Runs.fail _ fs
  | merge =>
    cases hfF : t.fileF with
    | some f => simpa [validEntry] using Runs.fail _ fs
    | none =>
      simp only [validEntry, Option.isNone_none, Bool.true_and]
      simp
      apply Runs.stat_bind
      cases hs : statOf (get p fs) with
      | notExist => simpa [hfF] using haff fs
      | isFile =>
        simp
        cases hdF : t.dirF with
        | none => simpa [validContent] using Runs.fail _ fs
        | some d =>
          simp only [validContent]
          cases hg : getDirField d with
          | err e =>
            rw [validDir_eq_false_of_getDirField hg]
            cases getDirField_err hg
            exact Runs.bind_err (Runs.lift _ fs)
          | ok es => exact Runs.bind_ok (Runs.lift _ fs) (hd d hdF fs)
      | isDir =>
        simp
        cases hdF : t.dirF with
        | none => simpa [validContent] using Runs.fail _ fs
        | some d =>
          simp only [validContent]
          cases hg : getDirField d with
          | err e =>
            rw [validDir_eq_false_of_getDirField hg]
            cases getDirField_err hg
            exact Runs.bind_err (Runs.lift _ fs)
          | ok es => exact Runs.bind_ok (Runs.lift _ fs) (hd d hdF fs)
  | remove =>
    simp
    apply Runs.stat_bind
    simp only [validEntry, checkNotDirAndNotFileField]
    cases hdF : t.dirF <;> cases hfF : t.fileF <;> simp
    · exact Runs.bind_ok (Runs.lift _ fs) (Runs.pure () fs)
    all_goals exact Runs.bind_err (Runs.lift _ fs)
  | replace =>
    simp
    apply Runs.stat_bind
    simp only [validEntry]
    cases hs : statOf (get p fs) with
    | notExist => simpa [absent_of_notExist hs] using haff fs
    | isFile =>
      simp
      rw [validContent_xor]
      exact Runs.seq_okIf (by simpa [checkDirXorFileField, okIf] using Runs.lift (checkDirXorFileField t) fs) hempty
    | isDir =>
      simp
      rw [validContent_xor]
      exact Runs.seq_okIf (by simpa [checkDirXorFileField, okIf] using Runs.lift (checkDirXorFileField t) fs) hempty
  | ignore =>
    simp
    apply Runs.stat_bind
    simp only [validEntry]
    cases hs : statOf (get p fs) with
    | notExist => simpa [absent_of_notExist hs] using haff fs
    | isFile => simpa using hempty
    | isDir => simpa using hempty
  | fail =>
    simp
    apply Runs.stat_bind
    simp only [validEntry]
    cases hs : statOf (get p fs) with
    | notExist => simpa [absent_of_notExist hs, T.present] using haff fs
    | isFile =>
      cases hg : get p fs <;> simp [hg, statOf] at hs
      simpa [T.present] using Runs.fail _ fs
    | isDir =>
      cases hg : get p fs <;> simp [hg, statOf] at hs
      simpa [T.present] using Runs.fail _ fs

theorem dry_configureOutput (t : TupF) (p : Path) (fs : FS) (hp : p ≠ [])
    (hd : ∀ d, t.dirF = some d → ∀ fs', Runs (t.dirOut [] p true) fs' (okIf (validDir d (get p fs'))) fs') :
    Runs (configureOutput [] t p true) fs (okIf (validEntry (.tup t.ifx t.dirF t.fileF) (get p fs))) fs := by
  unfold configureOutput
  cases hi : t.ifx with
  | none => simpa [validEntry] using dry_applyFilesFields t p fs (fun d h => hd d h fs)
  | some conf => exact dry_applyIfExistsConfig t conf p fs hp hd

theorem rel_of_keyPlain {k : Key} {rel : List Name} (h : keyPlain k = true) (hr : k.rel = some rel) :
    ∃ n, rel = [n] := by
  unfold keyPlain at h
  rw [hr] at h
  match rel, h with
  | [n], _ => exact ⟨n, rfl⟩

mutual
theorem dry_dir (v : Val) (hpl : v.plain = true) (p : Path) (fs : FS) :
    Runs (outputTupleDir v [] p true) fs (okIf (validDir v (get p fs))) fs := by
  cases v with
  | dict es =>
    simp only [outputTupleDir, validDir]
    exact Runs.seq_okIf (dry_dirHead p fs) (dry_entries es (by simpa [Val.plain] using hpl) p fs)
  | data b bs =>
    cases bs with
    | nil => simpa [outputTupleDir, validDir] using dry_dirHead p fs
    | cons c cs => simpa [outputTupleDir, validDir] using Runs.fail _ fs
  | tup _ _ _ => simpa [outputTupleDir, validDir] using Runs.fail _ fs
  | other _ => simpa [outputTupleDir, validDir] using Runs.fail _ fs
theorem dry_entries (es : List (Key × Val)) (hpl : plainEntries es = true) (p : Path) (fs : FS) :
    Runs (outputEntries es [] p true) fs (okIf (validEntries es (children (get p fs)))) fs := by
  cases es with
  | nil => simpa [outputEntries, validEntries] using Runs.pure () fs
  | cons e r =>
    obtain ⟨k, v⟩ := e
    simp only [plainEntries, Bool.and_eq_true] at hpl
    obtain ⟨⟨⟨hk, hv⟩, _⟩, hr⟩ := hpl
    simp only [outputEntries, validEntries]
    cases hrel : k.rel with
    | none => simpa using Runs.fail _ fs
    | some rel =>
      obtain ⟨n, rfl⟩ := rel_of_keyPlain hk hrel
      simp only [validRel]
      rw [← get_snoc]
      exact Runs.seq_okIf (dry_entry v hv (p ++ [n]) fs (by simp)) (dry_entries r hr p fs)
theorem dry_entry (v : Val) (hpl : v.plain = true) (p : Path) (fs : FS) (hp : p ≠ []) :
    Runs (outputEntry v [] p true) fs (okIf (validEntry v (get p fs))) fs := by
  cases v with
  | data b bs => simpa [outputEntry, validEntry, bytesOf] using dry_outputFile (.data b bs) p fs
  | other _ => simpa [outputEntry, validEntry] using Runs.fail _ fs
  | dict es =>
    cases es with
    | nil => simpa [outputEntry, validEntry, bytesOf] using dry_outputFile (.dict []) p fs
    | cons e es =>
      simp only [outputEntry, validEntry]
      exact Runs.seq_okIf (dry_dirHead p fs) (dry_entries (e :: es) (by simpa [Val.plain] using hpl) p fs)
  | tup ifx dF fF =>
    cases dF with
    | none =>
      simp only [outputEntry]
      refine dry_configureOutput _ p fs hp ?_
      intro d hd
      simp at hd
    | some d' =>
      have hpd : d'.plain = true := by
        unfold Val.plain at hpl
        simp only [Bool.and_eq_true] at hpl
        exact hpl.1
      have ih := dry_dir d' hpd p
      simp only [outputEntry]
      refine dry_configureOutput _ p fs hp ?_
      intro d hd fs'
      simp only [Option.some.injEq] at hd
      subst hd
      exact ih fs'
end

/-! ## The writing pass on a valid description computes `Spec.apply` -/

theorem Runs.create_ok (p : Path) (fs : FS) (h1 : statOf (get p fs) ≠ .isDir) (h2 : parentIsDir p fs = true) :
    Runs (create [] p) fs (.ok ()) (alter p (fun _ => .file []) fs) := by
  simpa [create, h1, h2] using Runs.fsop (fun fs => if statOf (get p fs) = .isDir || !parentIsDir p fs then
    ((.err .io : Res Unit), fs) else (.ok (), alter p (fun _ => .file []) fs)) fs

theorem Runs.mkdir_ok (p : Path) (fs : FS) (h1 : (get p fs).present = false) (h2 : parentIsDir p fs = true) :
    Runs (mkdir [] p) fs (.ok ()) (alter p (fun _ => .dir (fun _ => .absent)) fs) := by
  simpa [mkdir, h1, h2] using Runs.fsop (fun fs => if (get p fs).present || !parentIsDir p fs then
    ((.err .io : Res Unit), fs) else (.ok (), alter p (fun _ => .dir (fun _ => .absent)) fs)) fs

theorem Runs.write_ok (p : Path) (bs : Bytes) (fs : FS) :
    Runs (write [] p bs) fs (.ok ()) (alter p (fun _ => .file bs) fs) := Runs.fsop _ fs
theorem Runs.sync_ok (fs : FS) : Runs (sync []) fs (.ok ()) fs := Runs.fsop _ fs
theorem Runs.close_ok (fs : FS) : Runs (close []) fs (.ok ()) fs := Runs.fsop _ fs
theorem Runs.removeAll_ok (p : Path) (fs : FS) :
    Runs (removeAll [] p) fs (.ok ()) (alter p (fun _ => .absent) fs) := Runs.fsop _ fs

theorem real_outputFile (v : Val) (bs : Bytes) (p : Path) (fs : FS) (hb : bytesOf v = some bs)
    (hnd : notDir (get p fs) = true) (hpar : parentIsDir p fs = true) :
    Runs (outputFile [] v p false) fs (.ok ()) (alter p (fun _ => .file bs) fs) := by
  have hs : statOf (get p fs) ≠ .isDir := by simpa [notDir] using hnd
  unfold outputFile
  rw [hb]
  apply Runs.stat_bind
  simp only [hs, if_false, Bool.false_eq_true]
  refine Runs.bind_ok (Runs.create_ok p fs hs hpar) ?_
  have hw : Runs (do write [] p bs; sync []) (alter p (fun _ => .file []) fs) (.ok ())
      (alter p (fun _ => .file bs) fs) := by
    refine Runs.bind_ok (a := ()) ?_ (Runs.sync_ok _)
    simpa [alter_alter] using Runs.write_ok p bs (alter p (fun _ => .file []) fs)
  simpa [M.closeRes] using Runs.withClose hw (Runs.close_ok _)

theorem real_dirHead (p : Path) (fs : FS) (hnf : notFile (get p fs) = true)
    (hpar : (get p fs).present = false → parentIsDir p fs = true) :
    Runs (dirHead [] p false) fs (.ok ()) (alter p (fun _ => .dir (children (get p fs))) fs) := by
  unfold dirHead
  apply Runs.stat_bind
  cases hg : get p fs with
  | absent =>
    simp only [statOf, children]
    simpa using Runs.mkdir_ok p fs (by simp [hg, T.present]) (hpar (by simp [hg, T.present]))
  | file b => simp [hg, notFile, statOf] at hnf
  | dir f =>
    simp only [statOf, children]
    have : alter p (fun _ => T.dir f) fs = fs := by rw [← hg]; exact alter_get_self p fs
    rw [this]
    exact Runs.pure () fs

/-- what the recursive call on the `dir` field is known to do (hypothesis of the non-recursive lemmas) -/
def DirOutOk (t : TupF) (p : Path) : Prop :=
  ∀ d, t.dirF = some d → ∀ fs', parentIsDir p fs' = true → validDir d (get p fs') = true →
    Runs (t.dirOut [] p false) fs' (.ok ()) (alter p (fun _ => applyDir d (get p fs')) fs')

theorem getDirField_ok_of_validDir {d : Val} {c : T} (h : validDir d c = true) : ∃ es, getDirField d = .ok es := by
  cases hg : getDirField d with
  | ok es => exact ⟨es, rfl⟩
  | err e => rw [validDir_eq_false_of_getDirField hg] at h; simp at h

theorem real_applyFilesFields (t : TupF) (p : Path) (fs : FS) (hd : DirOutOk t p)
    (hpar : parentIsDir p fs = true) (hv : validContent t.dirF t.fileF (get p fs) = true) :
    Runs (applyFilesFields [] t p false) fs (.ok ())
      (alter p (fun _ => applyContent t.dirF t.fileF (get p fs)) fs) := by
  unfold applyFilesFields
  cases hdF : t.dirF with
  | none =>
    cases hfF : t.fileF with
    | none => simp [hdF, hfF, validContent] at hv
    | some f =>
      simp only [hdF, hfF, validContent, Bool.and_eq_true] at hv
      simp only [checkDirXorFileField, hdF, hfF, applyContent]
      refine Runs.bind_ok (Runs.lift _ fs) ?_
      cases hb : bytesOf f with
      | none => simp [hb] at hv
      | some bs => simpa using real_outputFile f bs p fs hb hv.2 hpar
  | some d =>
    cases hfF : t.fileF with
    | some f => simp [hdF, hfF, validContent] at hv
    | none =>
      simp only [hdF, hfF, validContent] at hv
      simp only [checkDirXorFileField, hdF, hfF, applyContent]
      refine Runs.bind_ok (Runs.lift _ fs) ?_
      obtain ⟨es, hg⟩ := getDirField_ok_of_validDir hv
      rw [hg]
      exact Runs.bind_ok (Runs.lift _ fs) (hd d hdF fs hpar hv)

theorem real_applyIfExistsConfig (t : TupF) (conf : IfEx) (p : Path) (fs : FS) (hd : DirOutOk t p)
    (hpar : parentIsDir p fs = true)
    (hv : validEntry (.tup (some conf) t.dirF t.fileF) (get p fs) = true) :
    Runs (applyIfExistsConfig [] t conf p false) fs (.ok ())
      (alter p (fun _ => applyEntry (.tup (some conf) t.dirF t.fileF) (get p fs)) fs) := by
  have hreach := reach_of_parentIsDir p fs hpar
  have haff := fun fs' h1 h2 => real_applyFilesFields t p fs' hd h1 h2
  unfold applyIfExistsConfig
  cases conf with
  | notStr => simp [validEntry] at hv
  | invalidStr => simp [validEntry] at hv
  | merge =>
    simp only [validEntry, Bool.and_eq_true, Option.isNone_iff_eq_none] at hv
    obtain ⟨hfF, hv⟩ := hv
    simp [hfF]
    apply Runs.stat_bind
    simp only [applyEntry]
    cases hs : statOf (get p fs) with
    | notExist => simpa [hfF] using haff fs hpar hv
    | isFile =>
      simp
      cases hdF : t.dirF with
      | none => simp [hdF, hfF, validContent] at hv
      | some d =>
        simp only [hdF, hfF, validContent] at hv
        simp only [applyContent]
        obtain ⟨es, hg⟩ := getDirField_ok_of_validDir hv
        rw [hg]
        exact Runs.bind_ok (Runs.lift _ fs) (hd d hdF fs hpar hv)
    | isDir =>
      simp
      cases hdF : t.dirF with
      | none => simp [hdF, hfF, validContent] at hv
      | some d =>
        simp only [hdF, hfF, validContent] at hv
        simp only [applyContent]
        obtain ⟨es, hg⟩ := getDirField_ok_of_validDir hv
        rw [hg]
        exact Runs.bind_ok (Runs.lift _ fs) (hd d hdF fs hpar hv)
  | remove =>
    simp only [validEntry, Bool.and_eq_true, Option.isNone_iff_eq_none] at hv
    simp
    apply Runs.stat_bind
    simp only [applyEntry, checkNotDirAndNotFileField, hv.1, hv.2]
    exact Runs.bind_ok (Runs.lift _ fs) (Runs.removeAll_ok p fs)
  | replace =>
    simp only [validEntry] at hv
    simp
    apply Runs.stat_bind
    simp only [applyEntry]
    have hx : checkDirXorFileField t = .ok () := by
      rw [validContent_xor] at hv
      simp only [Bool.and_eq_true, Bool.not_eq_true'] at hv
      simp [checkDirXorFileField, hv.1]
    have hrm : Runs (do removeAll [] p; applyFilesFields [] t p false) fs (.ok ())
        (alter p (fun _ => applyContent t.dirF t.fileF .absent) fs) := by
      refine Runs.bind_ok (Runs.removeAll_ok p fs) ?_
      have h1 : get p (alter p (fun _ => T.absent) fs) = .absent := get_alter_self p _ fs hreach
      have := haff (alter p (fun _ => .absent) fs) (parentIsDir_alter p _ fs hpar) (by rw [h1]; exact hv)
      simpa [h1, alter_alter] using this
    cases hs : statOf (get p fs) with
    | notExist => simpa [absent_of_notExist hs] using haff fs hpar (by simpa [absent_of_notExist hs] using hv)
    | isFile => simp; rw [hx]; exact Runs.bind_ok (Runs.lift _ fs) hrm
    | isDir => simp; rw [hx]; exact Runs.bind_ok (Runs.lift _ fs) hrm
  | ignore =>
    simp only [validEntry] at hv
    simp
    apply Runs.stat_bind
    simp only [applyEntry]
    cases hg : get p fs with
    | absent => simpa [statOf, T.present, hg] using haff fs hpar (by simpa [hg] using hv)
    | file b =>
      simp [statOf, T.present]
      have : alter p (fun _ => T.file b) fs = fs := by rw [← hg]; exact alter_get_self p fs
      rw [this]; exact Runs.pure () fs
    | dir f =>
      simp [statOf, T.present]
      have : alter p (fun _ => T.dir f) fs = fs := by rw [← hg]; exact alter_get_self p fs
      rw [this]; exact Runs.pure () fs
  | fail =>
    simp only [validEntry, Bool.and_eq_true, Bool.not_eq_true'] at hv
    simp
    apply Runs.stat_bind
    simp only [applyEntry]
    cases hg : get p fs with
    | absent => simpa [statOf, hg] using haff fs hpar (by simpa [hg] using hv.2)
    | file b => simp [hg, T.present] at hv
    | dir f => simp [hg, T.present] at hv

theorem real_configureOutput (t : TupF) (p : Path) (fs : FS) (hd : DirOutOk t p)
    (hpar : parentIsDir p fs = true) (hv : validEntry (.tup t.ifx t.dirF t.fileF) (get p fs) = true) :
    Runs (configureOutput [] t p false) fs (.ok ())
      (alter p (fun _ => applyEntry (.tup t.ifx t.dirF t.fileF) (get p fs)) fs) := by
  unfold configureOutput
  cases hi : t.ifx with
  | none =>
    rw [hi] at hv
    simpa [applyEntry] using real_applyFilesFields t p fs hd hpar (by simpa [validEntry] using hv)
  | some conf => rw [hi] at hv; exact real_applyIfExistsConfig t conf p fs hd hpar hv

theorem validEntries_setKey (r : List (Key × Val)) (n : Name) (g : T → T) (f : Name → T)
    (hpl : plainEntries r = true) (hn : (namesOf r).contains n = false) :
    validEntries r (setKey n g f) = validEntries r f := by
  induction r with
  | nil => simp [validEntries]
  | cons e r ih =>
    obtain ⟨k, v⟩ := e
    simp only [plainEntries, Bool.and_eq_true] at hpl
    obtain ⟨⟨⟨hk, _⟩, _⟩, hr⟩ := hpl
    simp only [validEntries]
    cases hrel : k.rel with
    | none => simp
    | some rel =>
      obtain ⟨m, rfl⟩ := rel_of_keyPlain hk hrel
      simp only [namesOf, hrel, List.contains_cons, Bool.or_eq_false_iff, beq_eq_false_iff_ne] at hn
      rw [ih hr hn.2]
      simp only [validRel]
      rw [setKey_ne _ _ (fun e => hn.1 e.symm)]

theorem notFile_of_validDir {v : Val} {c : T} (h : validDir v c = true) : notFile c = true := by
  cases v with
  | dict es => simp only [validDir, Bool.and_eq_true] at h; exact h.1
  | data b bs => cases bs <;> simp [validDir] at h; exact h
  | tup _ _ _ => simp [validDir] at h
  | other _ => simp [validDir] at h

mutual
theorem real_dir (v : Val) (hpl : v.plain = true) (p : Path) (fs : FS)
    (hv : validDir v (get p fs) = true) (hpar : (get p fs).present = false → parentIsDir p fs = true) :
    Runs (outputTupleDir v [] p false) fs (.ok ()) (alter p (fun _ => applyDir v (get p fs)) fs) := by
  have hreach : Reach p fs := by
    cases hg : get p fs with
    | absent => exact reach_of_parentIsDir p fs (hpar (by simp [hg, T.present]))
    | file b => have := notFile_of_validDir hv; simp [hg, notFile, statOf] at this
    | dir f => exact reach_of_dir p fs (by simp [hg, statOf])
  cases v with
  | dict es =>
    simp only [validDir, Bool.and_eq_true] at hv
    simp only [outputTupleDir, applyDir]
    refine Runs.bind_ok (real_dirHead p fs hv.1 hpar) ?_
    have h1 : get p (alter p (fun _ => T.dir (children (get p fs))) fs) = .dir (children (get p fs)) :=
      get_alter_self p _ fs hreach
    have := real_entries es (by simpa [Val.plain] using hpl) p _ (children (get p fs)) h1 hv.2
    simpa [alter_alter] using this
  | data b bs =>
    cases bs with
    | nil => simpa [outputTupleDir, applyDir] using real_dirHead p fs (by simpa [validDir] using hv) hpar
    | cons c cs => simp [validDir] at hv
  | tup _ _ _ => simp [validDir] at hv
  | other _ => simp [validDir] at hv
theorem real_entries (es : List (Key × Val)) (hpl : plainEntries es = true) (p : Path) (fs : FS)
    (f : Name → T) (hg : get p fs = .dir f) (hv : validEntries es f = true) :
    Runs (outputEntries es [] p false) fs (.ok ()) (alter p (fun _ => .dir (applyEntries es f)) fs) := by
  cases es with
  | nil =>
    simp only [outputEntries, applyEntries]
    have : alter p (fun _ => T.dir f) fs = fs := by rw [← hg]; exact alter_get_self p fs
    rw [this]; exact Runs.pure () fs
  | cons e r =>
    obtain ⟨k, v⟩ := e
    simp only [plainEntries, Bool.and_eq_true] at hpl
    obtain ⟨⟨⟨hk, hvp⟩, hnd⟩, hr⟩ := hpl
    simp only [validEntries, Bool.and_eq_true] at hv
    simp only [outputEntries, applyEntries]
    cases hrel : k.rel with
    | none => simp [hrel] at hv
    | some rel =>
      obtain ⟨n, rfl⟩ := rel_of_keyPlain hk hrel
      simp only [hrel, validRel] at hv
      simp only [hrel, Bool.not_eq_true'] at hnd
      simp only [alterRel]
      have hdir : statOf (get p fs) = .isDir := by simp [hg, statOf]
      have hgn : get (p ++ [n]) fs = f n := by rw [get_snoc, hg]; rfl
      have hpar : parentIsDir (p ++ [n]) fs = true := by rw [parentIsDir_snoc]; simp [hdir]
      have h1 := real_entry v hvp (p ++ [n]) fs hpar (by rw [hgn]; exact hv.1)
      rw [hgn] at h1
      refine Runs.bind_ok h1 ?_
      -- the file system after the first entry, seen from `p`
      have hfs1 : alter (p ++ [n]) (fun _ => applyEntry v (f n)) fs
          = alter p (fun _ => .dir (setKey n (fun _ => applyEntry v (f n)) f)) fs := by
        rw [alter_append]
        apply alter_congr
        rw [hg]; rfl
      rw [hfs1]
      have hg1 : get p (alter p (fun _ => T.dir (setKey n (fun _ => applyEntry v (f n)) f)) fs)
          = .dir (setKey n (fun _ => applyEntry v (f n)) f) := get_alter_self p _ fs (reach_of_dir p fs hdir)
      have h2 := real_entries r hr p _ _ hg1 (by rw [validEntries_setKey r n _ f hr hnd]; exact hv.2)
      have hsk : setKey n (applyEntry v) f = setKey n (fun _ => applyEntry v (f n)) f :=
        setKey_congr n _ _ f rfl
      rw [hsk]
      simpa [alter_alter] using h2
theorem real_entry (v : Val) (hpl : v.plain = true) (p : Path) (fs : FS)
    (hpar : parentIsDir p fs = true) (hv : validEntry v (get p fs) = true) :
    Runs (outputEntry v [] p false) fs (.ok ()) (alter p (fun _ => applyEntry v (get p fs)) fs) := by
  cases v with
  | data b bs =>
    simpa [outputEntry, applyEntry] using
      real_outputFile (.data b bs) bs p fs rfl (by simpa [validEntry] using hv) hpar
  | other _ => simp [validEntry] at hv
  | dict es =>
    cases es with
    | nil =>
      simpa [outputEntry, applyEntry] using
        real_outputFile (.dict []) [] p fs rfl (by simpa [validEntry] using hv) hpar
    | cons e es =>
      simp only [validEntry, Bool.and_eq_true] at hv
      simp only [outputEntry, applyEntry]
      refine Runs.bind_ok (real_dirHead p fs hv.1 (fun _ => hpar)) ?_
      have h1 : get p (alter p (fun _ => T.dir (children (get p fs))) fs) = .dir (children (get p fs)) :=
        get_alter_self p _ fs (reach_of_parentIsDir p fs hpar)
      have := real_entries (e :: es) (by simpa [Val.plain] using hpl) p _ (children (get p fs)) h1 hv.2
      simpa [alter_alter] using this
  | tup ifx dF fF =>
    cases dF with
    | none =>
      simp only [outputEntry]
      refine real_configureOutput _ p fs ?_ hpar hv
      intro d hd
      simp at hd
    | some d' =>
      have hpd : d'.plain = true := by
        unfold Val.plain at hpl
        simp only [Bool.and_eq_true] at hpl
        exact hpl.1
      have ih := real_dir d' hpd p
      simp only [outputEntry]
      refine real_configureOutput _ p fs ?_ hpar hv
      intro d hd fs' hp' hv'
      simp only [Option.some.injEq] at hd
      subst hd
      exact ih fs' hv' (fun _ => hp')
end

end Impl

/-! ## Every injected failure is reported -/

/-- if a fault fires during `m` (and none had before), `m` returns an error -/
def Sound {α} (m : M α) : Prop :=
  ∀ s, (m s).2.fired = true → s.fired = true ∨ ∃ e, (m s).1 = .err e

theorem Sound.pure {α} (a : α) : Sound (Pure.pure a : M α) := fun _ h => .inl h
theorem Sound.fail {α} (e : Err) : Sound (M.fail e : M α) := fun _ _ => .inr ⟨e, rfl⟩
theorem Sound.lift {α} (r : Res α) : Sound (M.lift r) := by
  cases r with
  | ok a => exact fun _ h => .inl h
  | err e => exact fun _ _ => .inr ⟨e, rfl⟩

theorem Sound.bind {α β} {m : M α} {f : α → M β} (hm : Sound m) (hf : ∀ a, Sound (f a)) : Sound (m >>= f) := by
  intro s h
  have key : (m >>= f) s = match m s with
      | (.ok a, s') => f a s'
      | (.err e, s') => (.err e, s') := rfl
  rw [key] at h ⊢
  have hm' := hm s
  revert h hm'
  generalize m s = ms
  obtain ⟨r, s1⟩ := ms
  cases r with
  | err e => intro _ _; exact .inr ⟨e, rfl⟩
  | ok a =>
    intro h hm'
    simp only at h hm' ⊢
    rcases hf a s1 h with h1 | h1
    · rcases hm' h1 with h0 | ⟨e, he⟩
      · exact .inl h0
      · simp at he
    · exact .inr h1

theorem Sound.fsop {α} (φ : List Nat) (act : FS → Res α × FS) : Sound (fsop φ act) := by
  intro s h
  unfold C19.fsop at h ⊢
  by_cases c : φ.contains s.n = true
  · simp only [c, if_true]; exact .inr ⟨.io, rfl⟩
  · simp only [c, if_false, Bool.false_eq_true] at h ⊢; exact .inl h

theorem Sound.withClose {body close : M Unit} (hb : Sound body) (hc : Sound close) :
    Sound (M.withClose body close) := by
  intro s h
  unfold M.withClose at h ⊢
  have h1 := hb s
  revert h h1
  generalize body s = bs
  obtain ⟨r, s1⟩ := bs
  simp only
  have h2 := hc s1
  revert h2
  generalize close s1 = cs
  obtain ⟨c, s2⟩ := cs
  intro h2 h h1
  simp only at h h1 h2 ⊢
  cases r with
  | err e => exact .inr ⟨e, rfl⟩
  | ok u =>
    simp only [M.closeRes]
    rcases h2 h with h3 | h3
    · rcases h1 h3 with h4 | ⟨e, he⟩
      · exact .inl h4
      · simp at he
    · exact .inr h3

theorem Sound.onEmptyFs (m : M Unit) : Sound (M.onEmptyFs m) := fun _ h => .inl h

theorem Sound.ite {α} {c : Prop} [Decidable c] {a b : M α} (ha : Sound a) (hb : Sound b) :
    Sound (if c then a else b) := by
  split <;> assumption

namespace Impl

theorem sound_stat (φ : List Nat) (p : Path) : Sound (stat φ p) := Sound.fsop _ _
theorem sound_mkdir (φ : List Nat) (p : Path) : Sound (mkdir φ p) := Sound.fsop _ _
theorem sound_create (φ : List Nat) (p : Path) : Sound (create φ p) := Sound.fsop _ _
theorem sound_write (φ : List Nat) (p : Path) (bs : Bytes) : Sound (write φ p bs) := Sound.fsop _ _
theorem sound_sync (φ : List Nat) : Sound (sync φ) := Sound.fsop _ _
theorem sound_close (φ : List Nat) : Sound (close φ) := Sound.fsop _ _
theorem sound_removeAll (φ : List Nat) (p : Path) : Sound (removeAll φ p) := Sound.fsop _ _

theorem sound_outputFile (φ : List Nat) (v : Val) (p : Path) (dry : Bool) : Sound (outputFile φ v p dry) := by
  unfold outputFile
  split
  · exact Sound.fail _
  · refine Sound.bind (sound_stat φ p) (fun st => ?_)
    refine Sound.ite (Sound.fail _) (Sound.ite (Sound.pure _) ?_)
    refine Sound.bind (sound_create φ p) (fun _ => ?_)
    exact Sound.withClose (Sound.bind (sound_write φ p _) (fun _ => sound_sync φ)) (sound_close φ)

theorem sound_dirHead (φ : List Nat) (p : Path) (dry : Bool) : Sound (dirHead φ p dry) := by
  unfold dirHead
  refine Sound.bind (sound_stat φ p) (fun st => ?_)
  cases st
  · exact Sound.ite (Sound.pure _) (sound_mkdir φ p)
  · exact Sound.fail _
  · exact Sound.pure _

theorem sound_applyFilesFields (φ : List Nat) (t : TupF) (p : Path) (dry : Bool)
    (hd : ∀ φ' p' dry', Sound (t.dirOut φ' p' dry')) : Sound (applyFilesFields φ t p dry) := by
  unfold applyFilesFields
  refine Sound.bind (Sound.lift _) (fun _ => ?_)
  split
  · exact Sound.bind (Sound.lift _) (fun _ => hd φ p dry)
  · split
    · exact sound_outputFile φ _ p dry
    · exact Sound.fail _

theorem sound_applyIfExistsConfig (φ : List Nat) (t : TupF) (conf : IfEx) (p : Path) (dry : Bool)
    (hd : ∀ φ' p' dry', Sound (t.dirOut φ' p' dry')) : Sound (applyIfExistsConfig φ t conf p dry) := by
  have haff := sound_applyFilesFields φ t p dry hd
  unfold applyIfExistsConfig
  refine Sound.ite (Sound.fail _) (Sound.ite (Sound.fail _) ?_)
  refine Sound.bind (sound_stat φ p) (fun st => ?_)
  refine Sound.ite haff ?_
  cases conf
  · -- merge
    simp only
    split
    · exact Sound.bind (Sound.lift _) (fun _ => hd φ p dry)
    · exact Sound.fail _
  · exact Sound.bind (Sound.lift _) (fun _ => Sound.ite (Sound.pure _) (sound_removeAll φ p))
  · exact Sound.bind (Sound.lift _) (fun _ =>
      Sound.ite (Sound.onEmptyFs _) (Sound.bind (sound_removeAll φ p) (fun _ => haff)))
  · exact Sound.ite (Sound.onEmptyFs _) (Sound.pure _)
  · exact Sound.fail _
  · exact Sound.fail _
  · exact Sound.fail _

theorem sound_configureOutput (φ : List Nat) (t : TupF) (p : Path) (dry : Bool)
    (hd : ∀ φ' p' dry', Sound (t.dirOut φ' p' dry')) : Sound (configureOutput φ t p dry) := by
  unfold configureOutput
  split
  · exact sound_applyIfExistsConfig φ t _ p dry hd
  · exact sound_applyFilesFields φ t p dry hd

mutual
theorem sound_dir (v : Val) (φ : List Nat) (p : Path) (dry : Bool) : Sound (outputTupleDir v φ p dry) := by
  cases v with
  | dict es =>
    simp only [outputTupleDir]
    exact Sound.bind (sound_dirHead φ p dry) (fun _ => sound_entries es φ p dry)
  | data b bs =>
    cases bs with
    | nil => simpa [outputTupleDir] using sound_dirHead φ p dry
    | cons c cs => simpa [outputTupleDir] using Sound.fail (α := Unit) _
  | tup _ _ _ => simpa [outputTupleDir] using Sound.fail (α := Unit) _
  | other _ => simpa [outputTupleDir] using Sound.fail (α := Unit) _
theorem sound_entries (es : List (Key × Val)) (φ : List Nat) (p : Path) (dry : Bool) :
    Sound (outputEntries es φ p dry) := by
  cases es with
  | nil => simpa [outputEntries] using Sound.pure ()
  | cons e r =>
    obtain ⟨k, v⟩ := e
    simp only [outputEntries]
    split
    · exact Sound.fail _
    · exact Sound.bind (sound_entry v φ _ dry) (fun _ => sound_entries r φ p dry)
theorem sound_entry (v : Val) (φ : List Nat) (p : Path) (dry : Bool) : Sound (outputEntry v φ p dry) := by
  cases v with
  | data b bs => simpa [outputEntry] using sound_outputFile φ (.data b bs) p dry
  | other _ => simpa [outputEntry] using Sound.fail (α := Unit) _
  | dict es =>
    cases es with
    | nil => simpa [outputEntry] using sound_outputFile φ (.dict []) p dry
    | cons e es =>
      simp only [outputEntry]
      exact Sound.bind (sound_dirHead φ p dry) (fun _ => sound_entries (e :: es) φ p dry)
  | tup ifx dF fF =>
    cases dF with
    | none =>
      simp only [outputEntry]
      exact sound_configureOutput φ _ p dry (fun _ _ _ => Sound.fail _)
    | some d =>
      have ih := sound_dir d
      simp only [outputEntry]
      exact sound_configureOutput φ _ p dry (fun φ' p' dry' => ih φ' p' dry')
end

theorem sound_outputValue (φ : List Nat) (v : Val) (mode : Mode) (arg : Path) : Sound (outputValue φ v mode arg) := by
  unfold outputValue
  cases mode
  · exact sound_outputFile φ v arg false
  · exact Sound.ite (Sound.bind (sound_dir v φ arg true) (fun _ => sound_dir v φ arg false)) (Sound.fail _)
  · exact Sound.fail _

end Impl
end Arrai.C19
