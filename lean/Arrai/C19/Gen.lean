/-
  C19 case generator: output descriptions (as arr.ai source) × pre-existing trees × --out flags
  (× fault positions), with the observable the model (Impl) predicts and the one the
  specification demands.

  harness op `out`: payload = [source, --out flag, initial tree, fault indices]
  observable      : `<ok|error>|<snapshot>`; `error|fault` when an injected fault fired and the
                    command failed; `ok|fault-swallowed|<snapshot>` when it fired and was not reported.
  snapshot        : `D<path>` / `F<path>=<hex>` for every path except the root, sorted as strings, `;`-joined.
-/
import Arrai.C19.Model
import Arrai.C19.Exact

namespace Arrai.C19

/-! ## Rendering -/

def nameStr (n : Name) : String := String.ofList (n.map Char.ofNat)
def pathStr (p : Path) : String := "/" ++ "/".intercalate (p.map nameStr)

def hexDigit (n : Nat) : Char := "0123456789abcdef".toList.getD n '0'
def hexStr (bs : Bytes) : String := String.ofList (bs.flatMap (fun b => [hexDigit (b / 16 % 16), hexDigit (b % 16)]))

/-- trees as the generator builds them (association lists, no duplicate names) -/
inductive Node where
  | file (b : Bytes)
  | dir (es : List (Name × Node))
  deriving Inhabited

def lookup (k : Name) : List (Name × Node) → Option Node
  | [] => none
  | (k', v) :: r => if k' = k then some v else lookup k r

mutual
def Node.toT : Node → T
  | .file b => .file b
  | .dir es => T.ofList (listToT es)
def listToT : List (Name × Node) → List (Name × T)
  | [] => []
  | (n, v) :: r => (n, v.toT) :: listToT r
end

mutual
def snapNode : Node → Path → List String
  | .file b, p => ["F" ++ pathStr p ++ "=" ++ hexStr b]
  | .dir es, p => ("D" ++ pathStr p) :: snapList es p
def snapList : List (Name × Node) → Path → List String
  | [], _ => []
  | (n, v) :: r, p => snapNode v (p ++ [n]) ++ snapList r p
end

/-- initial tree in the order the harness must create it (parents first) -/
def treeStr (root : List (Name × Node)) : String := ";".intercalate (snapList root [])

mutual
def nodeNames : Node → List Name
  | .file _ => []
  | .dir es => listNames es
def listNames : List (Name × Node) → List Name
  | [] => []
  | (n, v) :: r => n :: (nodeNames v ++ listNames r)
end

mutual
def valNames : Val → List Name
  | .dict es => entryNames es
  | .tup _ dirF fileF =>
    (match dirF with | some d => valNames d | none => []) ++ (match fileF with | some f => valNames f | none => [])
  | _ => []
def entryNames : List (Key × Val) → List Name
  | [] => []
  | (k, v) :: r => (match k with | .str cs => splitSlash cs | .nonstr => []) ++ valNames v ++ entryNames r
end

/-- every path of `t` whose elements are among `names` (all names a case can ever create or hold) -/
def snapT (names : List Name) : T → Path → List String
  | .absent, _ => []
  | .file b, p => ["F" ++ pathStr p ++ "=" ++ hexStr b]
  | .dir f, p => ("D" ++ pathStr p) :: names.flatMap (fun n => snapT names (f n) (p ++ [n]))

def snapshot (names : List Name) (fs : FS) : String :=
  ";".intercalate (sortStrs (names.flatMap (fun n => snapT names (children fs n) [n])))

def ifExSrc : IfEx → String
  | .merge => "'merge'" | .remove => "'remove'" | .replace => "'replace'" | .ignore => "'ignore'"
  | .fail => "'fail'" | .invalidStr => "'overwrite'" | .notStr => "3"

def keySrc : Key → String
  | .str cs => "'" ++ nameStr cs ++ "'"
  | .nonstr => "7"

mutual
def valSrc : Val → String
  | .data _ [] => "{}"
  | .data false bs => "'" ++ nameStr bs ++ "'"
  | .data true bs => "<<" ++ ", ".intercalate (bs.map toString) ++ ">>"
  | .dict es => "{" ++ ", ".intercalate (entriesSrc es) ++ "}"
  | .tup ifx dirF fileF =>
    "(" ++ ", ".intercalate
      ((match ifx with | some c => ["ifExists: " ++ ifExSrc c] | none => []) ++
       (match dirF with | some d => ["dir: " ++ valSrc d] | none => []) ++
       (match fileF with | some f => ["file: " ++ valSrc f] | none => [])) ++ ")"
  | .other true => "[1, 2]"
  | .other false => "42"
def entriesSrc : List (Key × Val) → List String
  | [] => []
  | (k, v) :: r => (keySrc k ++ ": " ++ valSrc v) :: entriesSrc r
end

def modeFlag (m : Impl.Mode) (variant : Nat) : String :=
  match m with
  | .file => ["file:", "f:", ""].getD (variant % 3) ""
  | .dir => ["dir:", "d:"].getD (variant % 2) "dir:"
  | .bad => "zip:"

/-! ## Observables -/

def outcomeStr (r : Res Unit) : String := if r.isOk then "ok" else "error"

abbrev Root := List (Name × Node)
def Root.toT (r : Root) : FS := T.ofList (listToT r)

def modelObs (names : List Name) (φ : List Nat) (v : Val) (mode : Impl.Mode) (arg : Path) (fs : FS) : String :=
  let (r, st) := Impl.run φ v mode arg fs
  if st.fired then (if r.isOk then "ok|fault-swallowed|" ++ snapshot names st.fs else "error|fault")
  else outcomeStr r ++ "|" ++ snapshot names st.fs

/-- the directory (or file) at `arg` can be created or is already there -/
def creatable (arg : Path) (fs : FS) : Bool := (get arg fs).present || parentIsDir arg fs

/-- what the property demands (no faults) -/
def specResult (v : Val) (mode : Impl.Mode) (arg : Path) (fs : FS) : Bool × FS :=
  match mode with
  | .dir =>
    if Spec.valid v (get arg fs) && creatable arg fs then
      (true, alter arg (fun _ => Spec.apply v (get arg fs)) fs)
    else (false, fs)
  | .file =>
    match Spec.bytesOf v with
    | some bs =>
      if statOf (get arg fs) != .isDir && parentIsDir arg fs then (true, alter arg (fun _ => .file bs) fs)
      else (false, fs)
    | none => (false, fs)
  | .bad => (false, fs)

def specObs (names : List Name) (v : Val) (mode : Impl.Mode) (arg : Path) (fs : FS) : String :=
  let (ok, fs') := specResult v mode arg fs
  (if ok then "ok" else "error") ++ "|" ++ snapshot names fs'

def mkCase (id stratum : String) (φ : List Nat) (v : Val) (mode : Impl.Mode) (variant : Nat)
    (arg : Path) (root : Root) : Case :=
  let fs := root.toT
  let names := (listNames root ++ valNames v ++ arg).eraseDups
  let model := modelObs names φ v mode arg fs
  let fired := (Impl.run φ v mode arg fs).2.fired
  let spec := if fired then "error|fault" else specObs names v mode arg fs
  { id := id, stratum := stratum,
    cls := if mode != .dir || !aliasOrMissingParent v (get arg fs) then "good" else "KF-out-key-with-separator",
    kind := "out", model := model, spec := spec,
    payload := [valSrc v, modeFlag mode variant ++ pathStr arg, treeStr root,
                ",".intercalate (φ.map toString)] }

/-! ## Generators -/

def nA : Name := [97]
def nB : Name := [98]
def nC : Name := [99]
def nD : Name := [100]
def names : List Name := [nA, nB, nC, nD]

def genBytes : Gen Bytes := do
  let n ← rand 4
  genList n (pick [0, 1, 10, 65, 127, 128, 255])

def genText : Gen Bytes := do
  let n ← rand 3
  genList (n + 1) (pick [120, 121, 122, 32, 46])

/-- more than 8 KiB of one letter and a short tail: two such contents of equal length agree on every
leading block and differ only at the end -/
def genBig : Gen Bytes := do
  let n ← pick [8192, 8200, 12288]
  let tail ← genText
  pure (List.replicate n 120 ++ tail)

def genData : Gen Val := do
  let r ← rand 40
  if r = 0 then pure (.data false (← genBig))
  else if r < 24 then pure (.data false (← genText))
  else if r < 36 then pure (.data true (← genBytes))
  else pure (.data false [])

/-- the same length, differing only in the last byte -/
def tweakLast (bs : Bytes) : Bytes :=
  match bs.reverse with
  | [] => []
  | l :: r => (((l + 1) % 256) :: r).reverse

/-- a pre-existing file where `bs` is about to be written: the same length (differing in the last byte only,
or everywhere), identical, or unrelated -/
def fileNear (bs : Bytes) : Gen Node := do
  let c ← rand 6
  if c < 2 then pure (.file (tweakLast bs))
  else if c = 2 && bs.length ≤ 64 then pure (.file (bs.map (fun b => (b + 1) % 256)))
  else if c = 3 then pure (.file bs)
  else pure (.file (← genBytes))

/-- keys the code must refuse -/
def refusedKeys : List Key :=
  [.nonstr, .str [46], .str [46, 46], .str [46, 46, 47, 97], .str [97, 47, 46, 46, 47, 46, 46],
   .str [46, 46, 47, 46, 46, 47, 101], .str [97, 47, 46, 46], .str [47], .str [46, 47]]

/-- accepted keys that are not a plain element name: `a/b`, `./a`, `a/`, `a//b`, `b/../a`, `/a`, `c/d/a` -/
def oddKeys : List Key :=
  [.str [97, 47, 98], .str [46, 47, 97], .str [97, 47], .str [97, 47, 47, 98], .str [98, 47, 46, 46, 47, 97],
   .str [47, 97], .str [99, 47, 100, 47, 97], .str [98, 47, 99]]

structure Knobs where
  hostile : Bool      -- structurally invalid members allowed
  odd : Bool          -- keys with separators allowed
  deriving Inhabited

def dedupKeys (es : List (Key × Val)) : List (Key × Val) :=
  es.foldl (fun acc e => if acc.any (fun a => a.1 == e.1) then acc else acc ++ [e]) []

mutual
/-- an entry value -/
def genVal (kn : Knobs) : Nat → Gen Val
  | 0 => do
    let r ← rand 20
    if kn.hostile && r = 0 then pure (.other true)
    else if kn.hostile && r = 1 then pure (.other false)
    else genData
  | d + 1 => do
    let r ← rand 100
    if r < 30 then genData
    else if r < 60 then genDict kn d
    else if r < 94 then genTup kn d
    else if kn.hostile then pure (.other (r % 2 = 0))
    else genData
/-- a dict with 0‥3 entries (distinct keys) -/
def genDict (kn : Knobs) : Nat → Gen Val
  | d => do
    let n ← pick [0, 1, 1, 2, 2, 3]
    let mut es : List (Key × Val) := []
    for _ in [0:n] do
      let r ← rand 100
      let k ← if kn.hostile && r < 7 then pick refusedKeys
              else if kn.odd && r < 30 then pick oddKeys
              else do pure (Key.str (← pick names))
      let v ← genVal kn d
      es := es ++ [(k, v)]
    pure (.dict (dedupKeys es))
/-- a config tuple -/
def genTup (kn : Knobs) : Nat → Gen Val
  | d => do
    let ifx ← pick [none, none, some IfEx.merge, some .remove, some .replace, some .replace, some .ignore,
                    some .ignore, some .fail, some .fail]
    let ifx ← if kn.hostile then (do
        let r ← rand 12
        pure (if r = 0 then some IfEx.invalidStr else if r = 1 then some .notStr else ifx)) else pure ifx
    let wild ← if kn.hostile then chance 1 4 else pure false
    -- which fields: 0 = neither, 1 = dir, 2 = file, 3 = both
    let shape ← if wild then rand 4 else
      match ifx with
      | some .remove => pure 0
      | some .merge => pure 1
      | _ => do pure ((← rand 2) + 1)
    let dirV ← if wild && (← chance 1 3) then genVal kn d else genDict kn d
    let fileV ← if wild && (← chance 1 3) then genVal kn d else genData
    pure (.tup ifx (if shape = 1 || shape = 3 then some dirV else none)
                   (if shape = 2 || shape = 3 then some fileV else none))
end

def insertNew (n : Name) (v : Node) (ch : List (Name × Node)) : List (Name × Node) :=
  if (lookup n ch).isSome then ch else ch ++ [(n, v)]

/-- random tree of the given depth -/
def genTree : Nat → Gen (List (Name × Node))
  | 0 => pure []
  | d + 1 => do
    let n ← rand 3
    let mut ch : List (Name × Node) := []
    for _ in [0:n] do
      let nm ← pick names
      let node ← if (← chance 1 2) then (do pure (Node.file (← genBytes))) else (do pure (Node.dir (← genTree d)))
      ch := insertNew nm node ch
    pure ch

/-- the directories leading to the last element of `rel`, with `leaf` (if any) at it -/
def chain : List Name → Option Node → Node
  | [], _ => .dir []
  | [m], leaf => .dir (match leaf with | some l => [(m, l)] | none => [])
  | m :: rest, leaf => .dir [(m, chain rest leaf)]

mutual
/-- a pre-existing directory that overlaps the entries: per entry nothing, the same kind, or the other kind -/
def treeForEntries : List (Key × Val) → Nat → Gen (List (Name × Node))
  | [], d => do
    if (← chance 1 2) then genTree (min d 1) else pure []
  | (k, v) :: r, d => do
    let rest ← treeForEntries r d
    match k.rel with
    | some (n :: m :: more) =>
      -- a key of several elements: mostly with its parent directories in place
      let c ← rand 10
      if c < 7 then
        let l ← rand 3
        let leaf ← if l = 0 then pure none else if l = 1 then (do pure (some (← nodeFor v d)))
                   else (do pure (some (Node.dir (← genTree 1))))
        pure (insertNew n (chain (m :: more) leaf) rest)
      else if c < 8 then pure (insertNew n (.file (← genBytes)) rest)
      else pure rest
    | some (n :: _) =>
      let c ← rand 10
      if c < 3 then pure rest
      else if c < 8 then pure (insertNew n (← nodeFor v d) rest)
      else if c < 9 then pure (insertNew n (.file (← genBytes)) rest)
      else pure (insertNew n (.dir (← genTree 1)) rest)
    | _ => pure rest
/-- a node of the kind the entry expects -/
def nodeFor : Val → Nat → Gen Node
  | .dict (e :: es), d => do pure (.dir (← treeForEntries (e :: es) (d - 1)))
  | .tup _ (some (.dict es)) _, d => do pure (.dir (← treeForEntries es (d - 1)))
  | .tup _ (some _) _, _ => do pure (.dir (← genTree 1))
  | .data _ bs, _ => fileNear bs
  | .tup _ none (some (.data _ bs)), _ => fileNear bs
  | _, _ => do pure (.file (← genBytes))
end

def nO : Name := [111]
def nSub : Name := [115, 117, 98]
def nQ : Name := [113]
def nKeep : Name := [107, 101, 101, 112]

/-- content outside PATH that must never change -/
def outside : List (Name × Node) := [(nKeep, .file [1, 2, 3]), ([122], .dir [([119], .file [9])])]

inductive Scene | fresh | existing | fileAtPath | noParent
  deriving DecidableEq, Inhabited

/-- the file system around PATH = /o/sub (or /q/sub whose parent is missing) -/
def mkFs (sc : Scene) (sub : List (Name × Node)) : Path × Root :=
  match sc with
  | .fresh => ([nO, nSub], [(nO, .dir outside)])
  | .existing => ([nO, nSub], [(nO, .dir ((nSub, .dir sub) :: outside))])
  | .fileAtPath => ([nO, nSub], [(nO, .dir ((nSub, .file [5]) :: outside))])
  | .noParent => ([nQ, nSub], [(nO, .dir outside)])

def topEntries : Val → List (Key × Val)
  | .dict es => es
  | _ => []

def genDirCase (id : String) (big : Bool) : Gen Case := do
  let hostile ← chance 3 10
  let odd ← chance 2 10
  let kn : Knobs := { hostile := hostile, odd := odd }
  let depth ← pick (if big then [1, 2, 3, 3] else [1, 2, 2, 3])
  let v ← if hostile && (← chance 1 12) then genVal kn 1 else genDict kn (depth - 1)
  let sc ← pick [Scene.fresh, .existing, .existing, .existing, .existing, .existing, .fileAtPath, .noParent]
  let rare ← chance 1 4
  let sc := if (sc = .fileAtPath || sc = .noParent) && !rare then Scene.existing else sc
  let sub ← treeForEntries (topEntries v) depth
  let (arg, fs) := mkFs sc sub
  let variant ← rand 2
  let strat := "dir/" ++ (if aliasOrMissingParent v (get arg (Root.toT fs)) then "alias-or-missing-parent"
      else if !v.plain then "pathkeys" else if hostile then "hostile" else "clean") ++
    (match sc with | .fresh => "/fresh" | .existing => "/existing" | .fileAtPath => "/file-at-path" | .noParent => "/no-parent")
  pure (mkCase id strat [] v .dir variant arg fs)

def genFileCase (id : String) : Gen Case := do
  let r ← rand 10
  let v ← if r < 7 then genData else genVal { hostile := true, odd := false } 1
  let mode ← if (← chance 1 10) then pure Impl.Mode.bad else pure Impl.Mode.file
  let variant ← rand 3
  let sc ← rand 5
  -- PATH = /o/f : absent, a file, a directory, or below a missing directory
  let (arg, fs) : Path × Root :=
    if sc < 2 then ([nO, [102]], [(nO, .dir outside)])
    else if sc < 3 then ([nO, [102]], [(nO, .dir (([102], .file (tweakLast ((Spec.bytesOf v).getD [7, 7]))) :: outside))])
    else if sc < 4 then ([nO, [102]], [(nO, .dir (([102], .dir [(nA, .file [1])]) :: outside))])
    else ([nQ, [102]], [(nO, .dir outside)])
  pure (mkCase id ("file/" ++ (if mode = .bad then "badmode" else "mode")) [] v mode variant arg fs)

/-- a description that is valid on its tree, with the number of file-system calls of the fault-free run -/
def genValidDir (big : Bool) (tries : Nat) : Gen (Val × Path × Root × Nat) := do
  let mut out : Val × Path × Root × Nat := (.dict [], [nO, nSub], (mkFs .fresh []).2, 0)
  let mut found := false
  for _ in [0:tries] do
    if !found then
      let depth ← pick (if big then [1, 2, 3] else [1, 2, 2])
      let v ← genDict { hostile := false, odd := false } (depth - 1)
      let sc ← pick [Scene.fresh, .existing, .existing]
      let sub ← treeForEntries (topEntries v) depth
      let (arg, fs) := mkFs sc sub
      let (r, st) := Impl.run [] v .dir arg fs.toT
      if r.isOk && v.plain then
        out := (v, arg, fs, st.n)
        found := true
  pure out

def corpusV (es : List (Key × Val)) : Val := .dict es
def txt (s : String) : Val := .data false (s.toList.map Char.toNat)
def key (s : String) : Key := .str (s.toList.map Char.toNat)

def bigX : Bytes := List.replicate 8200 120 ++ [121, 122]

/-- witnesses of the repaired defects and of the known finding; always run first -/
def corpus : List Case :=
  let fresh := mkFs .fresh []
  let keepX : List (Name × Node) := [(nKeep, .dir [([120], .file [1])])]
  let ex := mkFs .existing keepX
  [ -- the dry pass created directories before failing
    mkCase "C19-corpus-0" "corpus" [] (corpusV [(key "a", txt "x"), (key "d", corpusV [(key "e", corpusV [(key "bad", .other true)])])])
      .dir 0 fresh.1 fresh.2,
    -- replace over an existing tree deleted it, then failed on invalid nested content
    mkCase "C19-corpus-1" "corpus" [] (corpusV [(key "keep", .tup (some .replace) (some (corpusV [(key "y", .tup none none (some (.other false)))])) none)])
      .dir 0 ex.1 ex.2,
    -- an entry of an unsupported kind was skipped silently
    mkCase "C19-corpus-2" "corpus" [] (corpusV [(key "a", txt "x"), (key "bad", .other false)]) .dir 0 fresh.1 fresh.2,
    -- keys escaping PATH
    mkCase "C19-corpus-3" "corpus" [] (corpusV [(key "../esc", txt "x")]) .dir 0 fresh.1 fresh.2,
    mkCase "C19-corpus-4" "corpus" [] (corpusV [(key ".", txt "x")]) .dir 1 ex.1 ex.2,
    -- file and dir together
    mkCase "C19-corpus-5" "corpus" [] (corpusV [(key "a", .tup none (some (.dict [])) (some (txt "x")))]) .dir 0 fresh.1 fresh.2,
    -- ignore over an existing target skipped validation
    mkCase "C19-corpus-6" "corpus" [] (corpusV [(key "keep", .tup (some .ignore) (some (corpusV [(key "y", .other false)])) none)])
      .dir 0 ex.1 ex.2,
    -- kind conflicts discovered only while writing
    mkCase "C19-corpus-7" "corpus" [] (corpusV [(key "b", txt "x"), (key "keep", txt "x")]) .dir 0 ex.1 ex.2,
    mkCase "C19-corpus-8" "corpus" [] (corpusV [(key "b", txt "x"), (key "keep", corpusV [(key "x", corpusV [(key "y", txt "z")])])])
      .dir 0 ex.1 ex.2,
    -- dropped I/O errors: Stat of the directory (call 0), Close (last call)
    mkCase "C19-corpus-9" "corpus" [0] (corpusV [(key "a", txt "x")]) .dir 0 fresh.1 fresh.2,
    mkCase "C19-corpus-10" "corpus" [8] (corpusV [(key "a", txt "x")]) .dir 0 fresh.1 fresh.2,
    -- known finding: a key with a separator is joined as a path whose parent nobody creates
    mkCase "C19-corpus-11" "corpus" [] (corpusV [(key "a/b", txt "x")]) .dir 0 fresh.1 fresh.2,
    -- every ifExists value over an existing and an absent target
    mkCase "C19-corpus-12" "corpus" []
      (corpusV [(key "keep", .tup (some .merge) (some (corpusV [(key "n", txt "x")])) none),
                (key "a", .tup (some .remove) none none),
                (key "b", .tup (some .fail) none (some (txt "x"))),
                (key "c", .tup (some .ignore) none (some (txt "x"))),
                (key "d", .tup (some .replace) (some (.dict [])) none)]) .dir 0 ex.1 ex.2,
    mkCase "C19-corpus-13" "corpus" [] (txt "hello") .file 0 [nO, [102]] fresh.2,
    mkCase "C19-corpus-14" "corpus" [] (.data false []) .dir 0 fresh.1 fresh.2,
    -- a key of two elements whose parent exists is written (outside the class)
    mkCase "C19-corpus-15" "corpus" [] (corpusV [(key "keep/n", txt "x"), (key "b", txt "y")]) .dir 0 ex.1 ex.2,
    -- aliasing entries, both orders (in the class)
    mkCase "C19-corpus-16" "corpus" [] (corpusV [(key "a", corpusV [(key "b", txt "y")]), (key "a/b", txt "x")]) .dir 0
      (mkFs .existing []).1 (mkFs .existing []).2,
    -- replace whose new content names a path: the old tree is deleted, then the write fails (in the class)
    mkCase "C19-corpus-17" "corpus" [] (corpusV [(key "keep", .tup (some .replace) (some (corpusV [(key "p/q", txt "x")])) none)])
      .dir 0 ex.1 ex.2,
    -- long files that agree with what is there in length and in every leading block, and differ in the last byte
    mkCase "C19-corpus-18" "corpus" [] (corpusV [(key "big", .data false bigX)]) .dir 0
      (mkFs .existing [([98, 105, 103], .file (tweakLast bigX))]).1 (mkFs .existing [([98, 105, 103], .file (tweakLast bigX))]).2,
    mkCase "C19-corpus-19" "corpus" [] (.data false bigX) .file 0 [nO, [102]] [(nO, .dir (([102], .file (tweakLast bigX)) :: outside))],
    mkCase "C19-corpus-20" "corpus" [] (corpusV [(key "s", txt "abc")]) .dir 0
      (mkFs .existing [([115], .file [97, 98, 100])]).1 (mkFs .existing [([115], .file [97, 98, 100])]).2,
    -- file mode: empty content, PATH is a directory, the parent of PATH is missing, unknown mode
    mkCase "C19-corpus-21" "corpus" [] (.data false []) .file 1 [nO, [102]] fresh.2,
    mkCase "C19-corpus-22" "corpus" [] (.data true []) .file 2 [nO, [102]] [(nO, .dir (([102], .file [1, 2]) :: outside))],
    mkCase "C19-corpus-23" "corpus" [] (txt "x") .file 0 [nO, [102]] [(nO, .dir (([102], .dir [(nA, .file [1])]) :: outside))],
    mkCase "C19-corpus-24" "corpus" [] (txt "x") .file 0 [nQ, [102]] fresh.2,
    mkCase "C19-corpus-25" "corpus" [] (txt "x") .bad 0 [nO, [102]] fresh.2,
    mkCase "C19-corpus-26" "corpus" [] (.other false) .file 0 [nO, [102]] fresh.2,
    -- file mode under a fault: Create (call 1) fails
    mkCase "C19-corpus-27" "corpus" [1] (txt "x") .file 0 [nO, [102]] fresh.2 ]

def gen (seed n : Nat) (thorough : Bool) : List Case := Id.run do
  let mut out := corpus.reverse
  for i in [0:n] do
    let (c, _) := (do
        if (← chance 1 10) then genFileCase s!"C19-{i}" else genDirCase s!"C19-{i}" thorough
      ).run (seedOf seed (1900000 + i))
    out := c :: out
  -- fault injection: thorough = every call position of 500 valid descriptions; quick = 2 positions of 120
  let nf := if thorough then 500 else 120
  for j in [0:nf] do
    let ((v, arg, fs, calls), st) := (genValidDir thorough 8).run (seedOf seed (1950000 + j))
    if thorough then
      for k in [0:calls + 1] do
        out := mkCase s!"C19-f{j}-{k}" "fault/every-position" [k] v .dir k arg fs :: out
    else
      let ((k1, k2), _) := (do
          let a ← rand (calls + 1)
          let b ← rand (calls + 1)
          pure (a, b)).run st
      out := mkCase s!"C19-f{j}-a" "fault/one" [k1] v .dir k1 arg fs :: out
      out := mkCase s!"C19-f{j}-b" "fault/two" [k1, k2] v .dir k2 arg fs :: out
  -- file mode under faults: Stat, Create, Write, Sync, Close (calls 0‥4) and one past the end
  for j in [0:3] do
    let (v, _) := genData.run (seedOf seed (1960000 + j))
    for k in [0:6] do
      out := mkCase s!"C19-ff{j}-{k}" "fault/file-mode" [k] v .file k [nO, [102]] (mkFs .fresh []).2 :: out
  pure out.reverse

end Arrai.C19
