/-
  C19 — exact behaviour of the code on keys that denote paths of several elements ('a/b').

  * `seen`, `parentsExist`   : what `Stat(path.Join(dir, key))` finds; whether the intermediate directories exist
  * `Sem.dry*`               : what the validation pass decides, for every description (theorem `dry_exact`)
  * `Sem.ok*`                : sufficient condition, entry after entry on the then-current state, for the writing
                               pass to succeed with the specified result (theorem `real_seq`)
  * `aliasOrMissingParent`   : the decidable class outside which the code meets the specification: two sibling
                               keys denote the same path or one a path below the other, or a key names an entry
                               whose parent directory does not exist when it is written.
  Core-only.
-/
import Arrai.C19.Model

namespace Arrai.C19

/-- what the code finds at the relative path `rel` of a directory with entries `ch` -/
def seen (rel : List Name) (ch : Name → T) : T := get rel (.dir ch)

/-- every proper prefix of `rel` is an existing directory (`rel` itself may be anything) -/
def parentsExist (rel : List Name) (ch : Name → T) : Bool := parentIsDir rel (.dir ch)

/-- one path is the other or lies below it -/
def comparable (a b : List Name) : Bool := a.isPrefixOf b || b.isPrefixOf a

/-- the cleaned relative paths of the accepted keys -/
def relsOf : List (Key × Val) → List (List Name)
  | [] => []
  | (k, _) :: r =>
    match k.rel with
    | some rel => rel :: relsOf r
    | none => relsOf r

namespace Sem
open Spec

mutual
/-- the decision of the validation pass on a directory description over `cur` -/
def dryDir : Val → T → Bool
  | .dict es, cur => notFile cur && dryEntries es (children cur)
  | .data _ [], cur => notFile cur
  | _, _ => false
def dryEntries : List (Key × Val) → (Name → T) → Bool
  | [], _ => true
  | (k, v) :: r, ch =>
    (match k.rel with
     | some rel => dryEntry v (seen rel ch)
     | none => false) && dryEntries r ch
def dryContent : Option Val → Option Val → T → Bool
  | some d, none, c => dryDir d c
  | none, some f, c => (bytesOf f).isSome && notDir c
  | _, _, _ => false
def dryEntry : Val → T → Bool
  | .data _ _, cur => notDir cur
  | .dict [], cur => notDir cur
  | .dict (e :: es), cur => notFile cur && dryEntries (e :: es) (children cur)
  | .other _, _ => false
  | .tup ifx dirF fileF, cur =>
    match ifx with
    | none => dryContent dirF fileF cur
    | some .merge => fileF.isNone && dryContent dirF fileF cur
    | some .remove => dirF.isNone && fileF.isNone
    | some .replace => dryContent dirF fileF .absent
    | some .ignore => dryContent dirF fileF .absent
    | some .fail => !cur.present && dryContent dirF fileF .absent
    | some .invalidStr => false
    | some .notStr => false
end

mutual
/-- the writing pass succeeds on a directory description over `cur`, entry after entry -/
def okDir : Val → T → Bool
  | .dict es, cur => notFile cur && okEntries es (children cur)
  | .data _ [], cur => notFile cur
  | _, _ => false
/-- each entry, on the directory as the entries before it have left it: its parent directories exist
and the entry itself can be written -/
def okEntries : List (Key × Val) → (Name → T) → Bool
  | [], _ => true
  | (k, v) :: r, ch =>
    match k.rel with
    | some rel => parentsExist rel ch && okEntry v (seen rel ch) && okEntries r (alterRel rel (applyEntry v) ch)
    | none => false
def okContent : Option Val → Option Val → T → Bool
  | some d, none, c => okDir d c
  | none, some f, c => (bytesOf f).isSome && notDir c
  | _, _, _ => false
def okEntry : Val → T → Bool
  | .data _ _, cur => notDir cur
  | .dict [], cur => notDir cur
  | .dict (e :: es), cur => notFile cur && okEntries (e :: es) (children cur)
  | .other _, _ => false
  | .tup ifx dirF fileF, cur =>
    match ifx with
    | none => okContent dirF fileF cur
    | some .merge => fileF.isNone && okContent dirF fileF cur
    | some .remove => dirF.isNone && fileF.isNone
    | some .replace => okContent dirF fileF .absent
    | some .ignore => if cur.present then true else okContent dirF fileF .absent
    | some .fail => !cur.present && okContent dirF fileF .absent
    | some .invalidStr => false
    | some .notStr => false
end

end Sem

mutual
/-- no two sibling keys denote comparable paths, and every key's parent directories exist, in every
directory description that the writing pass will write (over what is there before the run) -/
def regularDir : Val → T → Bool
  | .dict es, cur => regularEntries es (children cur)
  | _, _ => true
def regularEntries : List (Key × Val) → (Name → T) → Bool
  | [], _ => true
  | (k, v) :: r, ch =>
    (match k.rel with
     | some rel => parentsExist rel ch && (relsOf r).all (fun b => !comparable rel b) && regularEntry v (seen rel ch)
     | none => true) && regularEntries r ch
def regularContent : Option Val → Option Val → T → Bool
  | some d, _, c => regularDir d c
  | none, _, _ => true
def regularEntry : Val → T → Bool
  | .dict (e :: es), cur => regularEntries (e :: es) (children cur)
  | .tup ifx dirF fileF, cur =>
    match ifx with
    | none => regularContent dirF fileF cur
    | some .merge => regularContent dirF fileF cur
    | some .replace => regularContent dirF fileF .absent
    | some .ignore => cur.present || regularContent dirF fileF .absent
    | some .fail => cur.present || regularContent dirF fileF .absent
    | _ => true
  | _, _ => true
end

/-- the class on which today's code departs from the specification (KF-out-key-with-separator) -/
def aliasOrMissingParent (v : Val) (cur : T) : Bool := !regularDir v cur

end Arrai.C19
