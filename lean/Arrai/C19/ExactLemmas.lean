/-
  C19 — lemmas for keys that denote paths of several elements: the validation pass for every
  description (`dryx_*`), the writing pass entry after entry (`realx_*`), and the pure facts that
  relate `Sem.dry*` / `Sem.ok*` to `Spec.valid*` outside the class `aliasOrMissingParent`.
-/
import Arrai.C19.Lemmas
import Arrai.C19.Exact

namespace Arrai.C19
namespace Impl
open Spec

/-- an accepted key denotes at least one element -/
theorem rel_ne_nil {k : Key} {rel : List Name} (h : k.rel = some rel) : rel ≠ [] := by
  intro e
  subst e
  cases k with
  | nonstr => simp [Key.rel] at h
  | str cs =>
    cases cs with
    | nil => simp [Key.rel] at h
    | cons c cs =>
      simp only [Key.rel] at h
      split at h <;> simp_all

theorem get_dir_children (rel : List Name) (t : T) (h : rel ≠ []) : get rel (.dir (children t)) = get rel t := by
  cases rel with
  | nil => exact absurd rfl h
  | cons k r => cases t <;> simp [get, children, get_absent]

theorem seen_eq_get (rel : List Name) (p : Path) (fs : FS) (h : rel ≠ []) :
    seen rel (children (get p fs)) = get (p ++ rel) fs := by
  rw [get_append]; exact get_dir_children rel _ h

/-! ### Relative paths of several elements -/

theorem parentsExist_cons2 {n m : Name} {rest : List Name} {f : Name → T}
    (h : parentsExist (n :: m :: rest) f = true) :
    ∃ f', f n = .dir f' ∧ parentsExist (m :: rest) f' = true := by
  simp only [parentsExist, parentIsDir, List.dropLast, get, decide_eq_true_eq] at h
  cases hf : f n with
  | dir f' => exact ⟨f', rfl, by simpa [parentsExist, parentIsDir, hf] using h⟩
  | absent => cases rest <;> simp [hf, get, statOf, List.dropLast] at h
  | file b => cases rest <;> simp [hf, get, statOf, List.dropLast] at h

theorem alter_dir_eq_alterRel (rel : List Name) (g : T → T) (f : Name → T) (hne : rel ≠ [])
    (hp : parentsExist rel f = true) : alter rel g (.dir f) = .dir (alterRel rel g f) := by
  induction rel generalizing f with
  | nil => exact absurd rfl hne
  | cons n rest ih =>
    cases rest with
    | nil =>
      simp only [alter, alterRel]
    | cons m rest =>
      obtain ⟨f', hf, hp'⟩ := parentsExist_cons2 hp
      simp only [alter, alterRel]
      congr 1
      apply setKey_congr
      rw [hf]
      simpa [children] using ih f' (by simp) hp'

theorem alterRel_congr (rel : List Name) (g h : T → T) (f : Name → T) (hne : rel ≠ [])
    (hp : parentsExist rel f = true) (e : g (seen rel f) = h (seen rel f)) :
    alterRel rel g f = alterRel rel h f := by
  have := alter_congr rel g h (.dir f) e
  rw [alter_dir_eq_alterRel rel g f hne hp, alter_dir_eq_alterRel rel h f hne hp] at this
  exact T.dir.inj this

theorem parentIsDir_append (p : Path) (rel : List Name) (fs : FS) (f : Name → T) (hg : get p fs = .dir f)
    (hne : rel ≠ []) (hp : parentsExist rel f = true) : parentIsDir (p ++ rel) fs = true := by
  have e : rel = rel.dropLast ++ [rel.getLast hne] := (List.dropLast_concat_getLast hne).symm
  rw [e, ← List.append_assoc, parentIsDir_snoc, get_append, hg]
  rw [e] at hp
  simpa [parentsExist, parentIsDir_snoc] using hp

end Impl

open Spec

/-! ## Outside the class `aliasOrMissingParent` the code's view coincides with the specification's -/

theorem get_alter_incomparable (p q : Path) (g : T → T) (t : T) (h1 : ¬ p <+: q) (h2 : ¬ q <+: p) :
    get q (alter p g t) = get q t := by
  induction p generalizing q t with
  | nil => exact absurd List.nil_prefix h1
  | cons k p ih =>
    cases q with
    | nil => exact absurd List.nil_prefix h2
    | cons k' q =>
      cases t with
      | dir f =>
        simp only [alter, get]
        by_cases e : k' = k
        · subst e
          rw [setKey_same]
          exact ih q (f k') (fun hp => h1 (by simpa using hp)) (fun hp => h2 (by simpa using hp))
        · rw [setKey_ne _ _ e]
      | absent => simp [alter]
      | file b => simp [alter]

theorem statOf_eq_of_view_eq {a b : T} (h : view a = view b) : statOf a = statOf b := by
  cases a <;> cases b <;> simp [view, statOf] at h ⊢

theorem comparable_false_iff {a b : List Name} : comparable a b = false ↔ ¬ a <+: b ∧ ¬ b <+: a := by
  unfold comparable
  constructor
  · intro h
    simp only [Bool.or_eq_false_iff] at h
    exact ⟨fun hp => by simp [List.isPrefixOf_iff_prefix.2 hp] at h,
           fun hp => by simp [List.isPrefixOf_iff_prefix.2 hp] at h⟩
  · intro ⟨h1, h2⟩
    simp only [Bool.or_eq_false_iff]
    constructor
    · cases h : a.isPrefixOf b
      · rfl
      · exact absurd (List.isPrefixOf_iff_prefix.1 h) h1
    · cases h : b.isPrefixOf a
      · rfl
      · exact absurd (List.isPrefixOf_iff_prefix.1 h) h2

theorem validRel_eq_seen (rel : List Name) (g : T → Bool) (ch : Name → T) (hne : rel ≠ [])
    (hp : parentsExist rel ch = true) : validRel rel g ch = g (seen rel ch) := by
  induction rel generalizing ch with
  | nil => exact absurd rfl hne
  | cons n rest ih =>
    cases rest with
    | nil => simp [validRel, seen, get]
    | cons m rest =>
      simp only [parentsExist, parentIsDir, List.dropLast, get, decide_eq_true_eq] at hp
      cases hf : ch n with
      | dir f' =>
        have hp' : parentsExist (m :: rest) f' = true := by
          simpa [parentsExist, parentIsDir, hf] using hp
        simp only [validRel, hf, children, seen, get]
        exact ih f' (by simp) hp'
      | absent => cases rest <;> simp [hf, get, statOf, List.dropLast] at hp
      | file b => cases rest <;> simp [hf, get, statOf, List.dropLast] at hp

theorem validRel_absent (rel : List Name) (g : T → Bool) (hne : rel ≠ []) :
    validRel rel g (fun _ => .absent) = g .absent := by
  induction rel with
  | nil => exact absurd rfl hne
  | cons n rest ih =>
    cases rest with
    | nil => simp [validRel]
    | cons m rest => simpa [validRel, children] using ih (by simp)

theorem seen_absent (rel : List Name) (hne : rel ≠ []) : seen rel (fun _ => .absent) = .absent :=
  get_emptyDir rel hne

/-! over nothing, the code's view and the specification's coincide whatever the keys -/
mutual
theorem dry_absent_dir (v : Val) : Sem.dryDir v .absent = validDir v .absent := by
  cases v with
  | dict es => simp only [Sem.dryDir, validDir, children]; rw [dry_absent_entries es]
  | data b bs => cases bs <;> simp [Sem.dryDir, validDir]
  | tup _ _ _ => simp [Sem.dryDir, validDir]
  | other _ => simp [Sem.dryDir, validDir]
theorem dry_absent_entries (es : List (Key × Val)) :
    Sem.dryEntries es (fun _ => .absent) = validEntries es (fun _ => .absent) := by
  cases es with
  | nil => simp [Sem.dryEntries, validEntries]
  | cons e r =>
    obtain ⟨k, v⟩ := e
    simp only [Sem.dryEntries, validEntries]
    rw [dry_absent_entries r]
    cases hrel : k.rel with
    | none => rfl
    | some rel =>
      have hne := Impl.rel_ne_nil hrel
      simp only
      rw [validRel_absent rel _ hne, seen_absent rel hne, dry_absent_entry v]
theorem dry_absent_content (dF fF : Option Val) :
    Sem.dryContent dF fF .absent = validContent dF fF .absent := by
  cases dF with
  | none => cases fF <;> simp [Sem.dryContent, validContent]
  | some d =>
    have ih := dry_absent_dir d
    cases fF <;> simp [Sem.dryContent, validContent, ih]
theorem dry_absent_entry (v : Val) : Sem.dryEntry v .absent = validEntry v .absent := by
  cases v with
  | data b bs => simp [Sem.dryEntry, validEntry]
  | other _ => simp [Sem.dryEntry, validEntry]
  | dict es =>
    cases es with
    | nil => simp [Sem.dryEntry, validEntry]
    | cons e es =>
      simp only [Sem.dryEntry, validEntry, children]
      rw [dry_absent_entries (e :: es)]
  | tup ifx dF fF =>
    have ih := dry_absent_content dF fF
    cases ifx with
    | none => simp [Sem.dryEntry, validEntry, ih]
    | some c => cases c <;> simp [Sem.dryEntry, validEntry, ih]
end

/-! L1: outside the class, the validation pass decides validity -/
mutual
theorem dry_eq_valid_dir (v : Val) (cur : T) (hr : regularDir v cur = true) :
    Sem.dryDir v cur = validDir v cur := by
  cases v with
  | dict es =>
    simp only [Sem.dryDir, validDir]
    rw [dry_eq_valid_entries es (children cur) (by simpa [regularDir] using hr)]
  | data b bs => cases bs <;> simp [Sem.dryDir, validDir]
  | tup _ _ _ => simp [Sem.dryDir, validDir]
  | other _ => simp [Sem.dryDir, validDir]
theorem dry_eq_valid_entries (es : List (Key × Val)) (ch : Name → T) (hr : regularEntries es ch = true) :
    Sem.dryEntries es ch = validEntries es ch := by
  cases es with
  | nil => simp [Sem.dryEntries, validEntries]
  | cons e r =>
    obtain ⟨k, v⟩ := e
    simp only [regularEntries, Bool.and_eq_true] at hr
    simp only [Sem.dryEntries, validEntries]
    rw [dry_eq_valid_entries r ch hr.2]
    cases hrel : k.rel with
    | none => rfl
    | some rel =>
      have hne := Impl.rel_ne_nil hrel
      simp only [hrel, Bool.and_eq_true] at hr
      simp only
      rw [validRel_eq_seen rel _ ch hne hr.1.1.1, dry_eq_valid_entry v (seen rel ch) hr.1.2]
theorem dry_eq_valid_content (dF fF : Option Val) (c : T) (hr : regularContent dF fF c = true) :
    Sem.dryContent dF fF c = validContent dF fF c := by
  cases dF with
  | none => cases fF <;> simp [Sem.dryContent, validContent]
  | some d =>
    have ih := dry_eq_valid_dir d c (by simpa [regularContent] using hr)
    cases fF <;> simp [Sem.dryContent, validContent, ih]
theorem dry_eq_valid_entry (v : Val) (cur : T) (hr : regularEntry v cur = true) :
    Sem.dryEntry v cur = validEntry v cur := by
  cases v with
  | data b bs => simp [Sem.dryEntry, validEntry]
  | other _ => simp [Sem.dryEntry, validEntry]
  | dict es =>
    cases es with
    | nil => simp [Sem.dryEntry, validEntry]
    | cons e es =>
      simp only [Sem.dryEntry, validEntry]
      rw [dry_eq_valid_entries (e :: es) (children cur) (by simpa [regularEntry] using hr)]
  | tup ifx dF fF =>
    have ihc := dry_eq_valid_content dF fF
    cases ifx with
    | none => simp only [Sem.dryEntry, validEntry]; exact ihc cur (by simpa [regularEntry] using hr)
    | some c =>
      cases c with
      | merge => simp only [Sem.dryEntry, validEntry]; rw [ihc cur (by simpa [regularEntry] using hr)]
      | remove => simp [Sem.dryEntry, validEntry]
      | replace => simp only [Sem.dryEntry, validEntry]; exact ihc .absent (by simpa [regularEntry] using hr)
      | ignore => simp only [Sem.dryEntry, validEntry]; exact dry_absent_content dF fF
      | fail => simp only [Sem.dryEntry, validEntry]; rw [dry_absent_content dF fF]
      | invalidStr => simp [Sem.dryEntry, validEntry]
      | notStr => simp [Sem.dryEntry, validEntry]
end


/-! what an entry at `rel` leaves is invisible from every path `b` not comparable with `rel` -/

theorem seen_parents_after (rel b : List Name) (g : T → T) (ch : Name → T) (hne : rel ≠ []) (hb : b ≠ [])
    (hp : parentsExist rel ch = true) (hc : comparable rel b = false) :
    seen b (alterRel rel g ch) = seen b ch ∧ parentsExist b (alterRel rel g ch) = parentsExist b ch := by
  obtain ⟨h1, h2⟩ := comparable_false_iff.1 hc
  have e : T.dir (alterRel rel g ch) = alter rel g (.dir ch) := (Impl.alter_dir_eq_alterRel rel g ch hne hp).symm
  constructor
  · simp only [seen]; rw [e]; exact get_alter_incomparable rel b g _ h1 h2
  · simp only [parentsExist]; rw [e]
    cases b with
    | nil => exact absurd rfl hb
    | cons a l =>
      simp only [parentIsDir]
      have : ¬ rel <+: (a :: l).dropLast := fun hpre => h1 (hpre.trans (List.dropLast_prefix _))
      rw [statOf_eq_of_view_eq (view_get_alter_outside rel _ g _ this)]

theorem mem_relsOf_ne_nil {r : List (Key × Val)} {b : List Name} (h : b ∈ relsOf r) : b ≠ [] := by
  induction r with
  | nil => simp [relsOf] at h
  | cons e r ih =>
    obtain ⟨k, v⟩ := e
    simp only [relsOf] at h
    cases hrel : k.rel with
    | none => rw [hrel] at h; exact ih h
    | some rel =>
      rw [hrel] at h
      simp only [List.mem_cons] at h
      rcases h with h | h
      · subst h; exact Impl.rel_ne_nil hrel
      · exact ih h

theorem entries_stable (r : List (Key × Val)) (ch ch' : Name → T)
    (h : ∀ b ∈ relsOf r, seen b ch' = seen b ch ∧ parentsExist b ch' = parentsExist b ch) :
    regularEntries r ch' = regularEntries r ch ∧
    (regularEntries r ch = true → validEntries r ch' = validEntries r ch) := by
  induction r with
  | nil => simp [regularEntries, validEntries]
  | cons e r ih =>
    obtain ⟨k, v⟩ := e
    cases hrel : k.rel with
    | none =>
      have ih' := ih (fun b hb => h b (by simp [relsOf, hrel, hb]))
      simp only [regularEntries, validEntries, hrel, Bool.true_and, Bool.false_and]
      exact ⟨ih'.1, fun _ => trivial⟩
    | some rel =>
      have hne := Impl.rel_ne_nil hrel
      have ih' := ih (fun b hb => h b (by simp [relsOf, hrel, hb]))
      obtain ⟨hs, hp⟩ := h rel (by simp [relsOf, hrel])
      simp only [regularEntries, validEntries, hrel]
      rw [hs, hp, ih'.1]
      refine ⟨rfl, fun hr => ?_⟩
      simp only [Bool.and_eq_true] at hr
      rw [ih'.2 hr.2, validRel_eq_seen rel _ ch hne hr.1.1.1,
        validRel_eq_seen rel _ ch' hne (by rw [hp]; exact hr.1.1.1), hs]

/-! L2: outside the class, a valid description is written entry after entry without failure -/
mutual
theorem ok_of_valid_dir (v : Val) (cur : T) (hr : regularDir v cur = true) (hv : validDir v cur = true) :
    Sem.okDir v cur = true := by
  cases v with
  | dict es =>
    simp only [validDir, Bool.and_eq_true] at hv
    simp only [Sem.okDir, Bool.and_eq_true]
    exact ⟨hv.1, ok_of_valid_entries es (children cur) (by simpa [regularDir] using hr) hv.2⟩
  | data b bs =>
    cases bs with
    | nil => simpa [Sem.okDir, validDir] using hv
    | cons c cs => simp [validDir] at hv
  | tup _ _ _ => simp [validDir] at hv
  | other _ => simp [validDir] at hv
theorem ok_of_valid_entries (es : List (Key × Val)) (ch : Name → T) (hr : regularEntries es ch = true)
    (hv : validEntries es ch = true) : Sem.okEntries es ch = true := by
  cases es with
  | nil => simp [Sem.okEntries]
  | cons e r =>
    obtain ⟨k, v⟩ := e
    simp only [regularEntries, Bool.and_eq_true] at hr
    simp only [validEntries, Bool.and_eq_true] at hv
    cases hrel : k.rel with
    | none => simp [hrel] at hv
    | some rel =>
      have hne := Impl.rel_ne_nil hrel
      simp only [hrel, Bool.and_eq_true, List.all_eq_true, Bool.not_eq_true'] at hr
      obtain ⟨⟨⟨hpe, hcmp⟩, hre⟩, hrr⟩ := hr
      simp only [hrel] at hv
      rw [validRel_eq_seen rel _ ch hne hpe] at hv
      simp only [Sem.okEntries, hrel, Bool.and_eq_true]
      refine ⟨⟨hpe, ok_of_valid_entry v (seen rel ch) hre hv.1⟩, ?_⟩
      have hst := entries_stable r ch (alterRel rel (applyEntry v) ch) (fun b hb =>
        seen_parents_after rel b _ ch hne (mem_relsOf_ne_nil hb) hpe (hcmp b hb))
      exact ok_of_valid_entries r _ (by rw [hst.1]; exact hrr) (by rw [hst.2 hrr]; exact hv.2)
theorem ok_of_valid_content (dF fF : Option Val) (c : T) (hr : regularContent dF fF c = true)
    (hv : validContent dF fF c = true) : Sem.okContent dF fF c = true := by
  cases dF with
  | none =>
    cases fF with
    | none => simp [validContent] at hv
    | some f => simpa [Sem.okContent, validContent] using hv
  | some d =>
    have ih := ok_of_valid_dir d c (by simpa [regularContent] using hr)
    cases fF with
    | none => simp only [validContent] at hv; simpa [Sem.okContent] using ih hv
    | some f => simp [validContent] at hv
theorem ok_of_valid_entry (v : Val) (cur : T) (hr : regularEntry v cur = true) (hv : validEntry v cur = true) :
    Sem.okEntry v cur = true := by
  cases v with
  | data b bs => simpa [Sem.okEntry, validEntry] using hv
  | other _ => simp [validEntry] at hv
  | dict es =>
    cases es with
    | nil => simpa [Sem.okEntry, validEntry] using hv
    | cons e es =>
      simp only [validEntry, Bool.and_eq_true] at hv
      simp only [Sem.okEntry, Bool.and_eq_true]
      exact ⟨hv.1, ok_of_valid_entries (e :: es) (children cur) (by simpa [regularEntry] using hr) hv.2⟩
  | tup ifx dF fF =>
    have ihc := ok_of_valid_content dF fF
    cases ifx with
    | none =>
      simp only [validEntry] at hv
      simp only [Sem.okEntry]
      exact ihc cur (by simpa [regularEntry] using hr) hv
    | some c =>
      cases c with
      | merge =>
        simp only [validEntry, Bool.and_eq_true] at hv
        simp only [Sem.okEntry, Bool.and_eq_true]
        exact ⟨hv.1, ihc cur (by simpa [regularEntry] using hr) hv.2⟩
      | remove => simpa [Sem.okEntry, validEntry] using hv
      | replace =>
        simp only [validEntry] at hv
        simp only [Sem.okEntry]
        exact ihc .absent (by simpa [regularEntry] using hr) hv
      | ignore =>
        simp only [validEntry] at hv
        simp only [Sem.okEntry]
        cases hp : cur.present with
        | true => simp
        | false =>
          simp only [Bool.false_eq_true, if_false]
          exact ihc .absent (by simpa [regularEntry, hp] using hr) hv
      | fail =>
        simp only [validEntry, Bool.and_eq_true, Bool.not_eq_true'] at hv
        simp only [Sem.okEntry, Bool.and_eq_true, Bool.not_eq_true']
        exact ⟨hv.1, ihc .absent (by simpa [regularEntry, hv.1] using hr) hv.2⟩
      | invalidStr => simp [validEntry] at hv
      | notStr => simp [validEntry] at hv
end

namespace Impl
open Spec

/-! ## The validation pass, for every description -/

theorem dryDir_eq_false_of_getDirField {d : Val} {e : Err} (h : getDirField d = .err e) (c : T) :
    Sem.dryDir d c = false := by
  cases d with
  | dict es => simp [getDirField] at h
  | data b bs => cases bs <;> simp [getDirField] at h <;> simp [Sem.dryDir]
  | tup _ _ _ => simp [Sem.dryDir]
  | other _ => simp [Sem.dryDir]


theorem dryx_applyFilesFields (t : TupF) (p : Path) (fs : FS)
    (hd : ∀ d, t.dirF = some d → Runs (t.dirOut [] p true) fs (okIf (Sem.dryDir d (get p fs))) fs) :
    Runs (applyFilesFields [] t p true) fs (okIf (Sem.dryContent t.dirF t.fileF (get p fs))) fs := by
  unfold applyFilesFields
  cases hdF : t.dirF with
  | none =>
    cases hfF : t.fileF with
    | none =>
      simp only [checkDirXorFileField, hdF, hfF, Sem.dryContent]
      exact Runs.bind_err (Runs.lift _ fs)
    | some f =>
      simp only [checkDirXorFileField, hdF, hfF, Sem.dryContent]
      exact Runs.bind_ok (Runs.lift _ fs) (dry_outputFile f p fs)
  | some d =>
    cases hfF : t.fileF with
    | some f =>
      simp only [checkDirXorFileField, hdF, hfF, Sem.dryContent]
      exact Runs.bind_err (Runs.lift _ fs)
    | none =>
      simp only [checkDirXorFileField, hdF, hfF, Sem.dryContent]
      refine Runs.bind_ok (Runs.lift _ fs) ?_
      cases hg : getDirField d with
      | err e =>
        rw [dryDir_eq_false_of_getDirField hg]
        cases getDirField_err hg
        exact Runs.bind_err (Runs.lift _ fs)
      | ok es => exact Runs.bind_ok (Runs.lift _ fs) (hd d hdF)


theorem dryContent_xor (dF fF : Option Val) (c : T) :
    Sem.dryContent dF fF c = (!(dF.isSome == fF.isSome) && Sem.dryContent dF fF c) := by
  cases dF <;> cases fF <;> simp [Sem.dryContent]


theorem dryx_applyIfExistsConfig (t : TupF) (conf : IfEx) (p : Path) (fs : FS) (hp : p ≠ [])
    (hd : ∀ d, t.dirF = some d → ∀ fs', Runs (t.dirOut [] p true) fs' (okIf (Sem.dryDir d (get p fs'))) fs') :
    Runs (applyIfExistsConfig [] t conf p true) fs
      (okIf (Sem.dryEntry (.tup (some conf) t.dirF t.fileF) (get p fs))) fs := by
  have haff := fun fs' => dryx_applyFilesFields t p fs' (fun d h => hd d h fs')
  have hempty : Runs (M.onEmptyFs (applyFilesFields [] t p true)) fs
      (okIf (Sem.dryContent t.dirF t.fileF .absent)) fs := by
    have := haff (.dir fun _ => .absent)
    rw [get_emptyDir p hp] at this
    exact Runs.onEmptyFs fs this
  unfold applyIfExistsConfig
  cases conf with
  | notStr => simpa [Sem.dryEntry] using Runs.fail _ fs
  | invalidStr => simpa [Sem.dryEntry] using Runs.fail _ fs
  | merge =>
    cases hfF : t.fileF with
    | some f => simpa [Sem.dryEntry] using Runs.fail _ fs
    | none =>
      simp only [Sem.dryEntry, Option.isNone_none, Bool.true_and]
      simp
      apply Runs.stat_bind
      cases hs : statOf (get p fs) with
      | notExist => simpa [hfF] using haff fs
      | isFile =>
        simp
        cases hdF : t.dirF with
        | none => simpa [Sem.dryContent] using Runs.fail _ fs
        | some d =>
          simp only [Sem.dryContent]
          cases hg : getDirField d with
          | err e =>
            rw [dryDir_eq_false_of_getDirField hg]
            cases getDirField_err hg
            exact Runs.bind_err (Runs.lift _ fs)
          | ok es => exact Runs.bind_ok (Runs.lift _ fs) (hd d hdF fs)
      | isDir =>
        simp
        cases hdF : t.dirF with
        | none => simpa [Sem.dryContent] using Runs.fail _ fs
        | some d =>
          simp only [Sem.dryContent]
          cases hg : getDirField d with
          | err e =>
            rw [dryDir_eq_false_of_getDirField hg]
            cases getDirField_err hg
            exact Runs.bind_err (Runs.lift _ fs)
          | ok es => exact Runs.bind_ok (Runs.lift _ fs) (hd d hdF fs)
  | remove =>
    simp
    apply Runs.stat_bind
    simp only [Sem.dryEntry, checkNotDirAndNotFileField]
    cases hdF : t.dirF <;> cases hfF : t.fileF <;> simp
    · exact Runs.bind_ok (Runs.lift _ fs) (Runs.pure () fs)
    all_goals exact Runs.bind_err (Runs.lift _ fs)
  | replace =>
    simp
    apply Runs.stat_bind
    simp only [Sem.dryEntry]
    cases hs : statOf (get p fs) with
    | notExist => simpa [absent_of_notExist hs] using haff fs
    | isFile =>
      simp
      rw [dryContent_xor]
      exact Runs.seq_okIf (by simpa [checkDirXorFileField, okIf] using Runs.lift (checkDirXorFileField t) fs) hempty
    | isDir =>
      simp
      rw [dryContent_xor]
      exact Runs.seq_okIf (by simpa [checkDirXorFileField, okIf] using Runs.lift (checkDirXorFileField t) fs) hempty
  | ignore =>
    simp
    apply Runs.stat_bind
    simp only [Sem.dryEntry]
    cases hs : statOf (get p fs) with
    | notExist => simpa [absent_of_notExist hs] using haff fs
    | isFile => simpa using hempty
    | isDir => simpa using hempty
  | fail =>
    simp
    apply Runs.stat_bind
    simp only [Sem.dryEntry]
    cases hs : statOf (get p fs) with
    | notExist => simpa [absent_of_notExist hs, T.present] using haff fs
    | isFile =>
      cases hg : get p fs <;> simp [hg, statOf] at hs
      simpa [T.present] using Runs.fail _ fs
    | isDir =>
      cases hg : get p fs <;> simp [hg, statOf] at hs
      simpa [T.present] using Runs.fail _ fs


theorem dryx_configureOutput (t : TupF) (p : Path) (fs : FS) (hp : p ≠ [])
    (hd : ∀ d, t.dirF = some d → ∀ fs', Runs (t.dirOut [] p true) fs' (okIf (Sem.dryDir d (get p fs'))) fs') :
    Runs (configureOutput [] t p true) fs (okIf (Sem.dryEntry (.tup t.ifx t.dirF t.fileF) (get p fs))) fs := by
  unfold configureOutput
  cases hi : t.ifx with
  | none => simpa [Sem.dryEntry] using dryx_applyFilesFields t p fs (fun d h => hd d h fs)
  | some conf => exact dryx_applyIfExistsConfig t conf p fs hp hd


mutual
theorem dryx_dir (v : Val) (p : Path) (fs : FS) :
    Runs (outputTupleDir v [] p true) fs (okIf (Sem.dryDir v (get p fs))) fs := by
  cases v with
  | dict es =>
    simp only [outputTupleDir, Sem.dryDir]
    exact Runs.seq_okIf (dry_dirHead p fs) (dryx_entries es p fs)
  | data b bs =>
    cases bs with
    | nil => simpa [outputTupleDir, Sem.dryDir] using dry_dirHead p fs
    | cons c cs => simpa [outputTupleDir, Sem.dryDir] using Runs.fail _ fs
  | tup _ _ _ => simpa [outputTupleDir, Sem.dryDir] using Runs.fail _ fs
  | other _ => simpa [outputTupleDir, Sem.dryDir] using Runs.fail _ fs
theorem dryx_entries (es : List (Key × Val)) (p : Path) (fs : FS) :
    Runs (outputEntries es [] p true) fs (okIf (Sem.dryEntries es (children (get p fs)))) fs := by
  cases es with
  | nil => simpa [outputEntries, Sem.dryEntries] using Runs.pure () fs
  | cons e r =>
    obtain ⟨k, v⟩ := e
    simp only [outputEntries, Sem.dryEntries]
    cases hrel : k.rel with
    | none => simpa using Runs.fail _ fs
    | some rel =>
      have hne : rel ≠ [] := rel_ne_nil hrel
      simp only
      rw [seen_eq_get rel p fs hne]
      exact Runs.seq_okIf (dryx_entry v (p ++ rel) fs (by simp [hne])) (dryx_entries r p fs)
theorem dryx_entry (v : Val) (p : Path) (fs : FS) (hp : p ≠ []) :
    Runs (outputEntry v [] p true) fs (okIf (Sem.dryEntry v (get p fs))) fs := by
  cases v with
  | data b bs => simpa [outputEntry, Sem.dryEntry, bytesOf] using dry_outputFile (.data b bs) p fs
  | other _ => simpa [outputEntry, Sem.dryEntry] using Runs.fail _ fs
  | dict es =>
    cases es with
    | nil => simpa [outputEntry, Sem.dryEntry, bytesOf] using dry_outputFile (.dict []) p fs
    | cons e es =>
      simp only [outputEntry, Sem.dryEntry]
      exact Runs.seq_okIf (dry_dirHead p fs) (dryx_entries (e :: es) p fs)
  | tup ifx dF fF =>
    cases dF with
    | none =>
      simp only [outputEntry]
      refine dryx_configureOutput _ p fs hp ?_
      intro d hd
      simp at hd
    | some d' =>
      have ih := dryx_dir d' p
      simp only [outputEntry]
      refine dryx_configureOutput _ p fs hp ?_
      intro d hd fs'
      simp only [Option.some.injEq] at hd
      subst hd
      exact ih fs'
end

theorem okDir_eq_false_of_getDirField {d : Val} {e : Err} (h : getDirField d = .err e) (c : T) :
    Sem.okDir d c = false := by
  cases d with
  | dict es => simp [getDirField] at h
  | data b bs => cases bs <;> simp [getDirField] at h <;> simp [Sem.okDir]
  | tup _ _ _ => simp [Sem.okDir]
  | other _ => simp [Sem.okDir]


theorem okContent_xor (dF fF : Option Val) (c : T) :
    Sem.okContent dF fF c = (!(dF.isSome == fF.isSome) && Sem.okContent dF fF c) := by
  cases dF <;> cases fF <;> simp [Sem.okContent]


def DirOutOkX (t : TupF) (p : Path) : Prop :=
  ∀ d, t.dirF = some d → ∀ fs', parentIsDir p fs' = true → Sem.okDir d (get p fs') = true →
    Runs (t.dirOut [] p false) fs' (.ok ()) (alter p (fun _ => applyDir d (get p fs')) fs')


theorem getDirField_ok_of_okDir {d : Val} {c : T} (h : Sem.okDir d c = true) : ∃ es, getDirField d = .ok es := by
  cases hg : getDirField d with
  | ok es => exact ⟨es, rfl⟩
  | err e => rw [okDir_eq_false_of_getDirField hg] at h; simp at h


theorem realx_applyFilesFields (t : TupF) (p : Path) (fs : FS) (hd : DirOutOkX t p)
    (hpar : parentIsDir p fs = true) (hv : Sem.okContent t.dirF t.fileF (get p fs) = true) :
    Runs (applyFilesFields [] t p false) fs (.ok ())
      (alter p (fun _ => applyContent t.dirF t.fileF (get p fs)) fs) := by
  unfold applyFilesFields
  cases hdF : t.dirF with
  | none =>
    cases hfF : t.fileF with
    | none => simp [hdF, hfF, Sem.okContent] at hv
    | some f =>
      simp only [hdF, hfF, Sem.okContent, Bool.and_eq_true] at hv
      simp only [checkDirXorFileField, hdF, hfF, applyContent]
      refine Runs.bind_ok (Runs.lift _ fs) ?_
      cases hb : bytesOf f with
      | none => simp [hb] at hv
      | some bs => simpa using real_outputFile f bs p fs hb hv.2 hpar
  | some d =>
    cases hfF : t.fileF with
    | some f => simp [hdF, hfF, Sem.okContent] at hv
    | none =>
      simp only [hdF, hfF, Sem.okContent] at hv
      simp only [checkDirXorFileField, hdF, hfF, applyContent]
      refine Runs.bind_ok (Runs.lift _ fs) ?_
      obtain ⟨es, hg⟩ := getDirField_ok_of_okDir hv
      rw [hg]
      exact Runs.bind_ok (Runs.lift _ fs) (hd d hdF fs hpar hv)


theorem realx_applyIfExistsConfig (t : TupF) (conf : IfEx) (p : Path) (fs : FS) (hd : DirOutOkX t p)
    (hpar : parentIsDir p fs = true)
    (hv : Sem.okEntry (.tup (some conf) t.dirF t.fileF) (get p fs) = true) :
    Runs (applyIfExistsConfig [] t conf p false) fs (.ok ())
      (alter p (fun _ => applyEntry (.tup (some conf) t.dirF t.fileF) (get p fs)) fs) := by
  have hreach := reach_of_parentIsDir p fs hpar
  have haff := fun fs' h1 h2 => realx_applyFilesFields t p fs' hd h1 h2
  unfold applyIfExistsConfig
  cases conf with
  | notStr => simp [Sem.okEntry] at hv
  | invalidStr => simp [Sem.okEntry] at hv
  | merge =>
    simp only [Sem.okEntry, Bool.and_eq_true, Option.isNone_iff_eq_none] at hv
    obtain ⟨hfF, hv⟩ := hv
    simp [hfF]
    apply Runs.stat_bind
    simp only [applyEntry]
    cases hs : statOf (get p fs) with
    | notExist => simpa [hfF] using haff fs hpar hv
    | isFile =>
      simp
      cases hdF : t.dirF with
      | none => simp [hdF, hfF, Sem.okContent] at hv
      | some d =>
        simp only [hdF, hfF, Sem.okContent] at hv
        simp only [applyContent]
        obtain ⟨es, hg⟩ := getDirField_ok_of_okDir hv
        rw [hg]
        exact Runs.bind_ok (Runs.lift _ fs) (hd d hdF fs hpar hv)
    | isDir =>
      simp
      cases hdF : t.dirF with
      | none => simp [hdF, hfF, Sem.okContent] at hv
      | some d =>
        simp only [hdF, hfF, Sem.okContent] at hv
        simp only [applyContent]
        obtain ⟨es, hg⟩ := getDirField_ok_of_okDir hv
        rw [hg]
        exact Runs.bind_ok (Runs.lift _ fs) (hd d hdF fs hpar hv)
  | remove =>
    simp only [Sem.okEntry, Bool.and_eq_true, Option.isNone_iff_eq_none] at hv
    simp
    apply Runs.stat_bind
    simp only [applyEntry, checkNotDirAndNotFileField, hv.1, hv.2]
    exact Runs.bind_ok (Runs.lift _ fs) (Runs.removeAll_ok p fs)
  | replace =>
    simp only [Sem.okEntry] at hv
    simp
    apply Runs.stat_bind
    simp only [applyEntry]
    have hx : checkDirXorFileField t = .ok () := by
      rw [okContent_xor] at hv
      simp only [Bool.and_eq_true, Bool.not_eq_true'] at hv
      simp [checkDirXorFileField, hv.1]
    have hrm : Runs (do removeAll [] p; applyFilesFields [] t p false) fs (.ok ())
        (alter p (fun _ => applyContent t.dirF t.fileF .absent) fs) := by
      refine Runs.bind_ok (Runs.removeAll_ok p fs) ?_
      have h1 : get p (alter p (fun _ => T.absent) fs) = .absent := get_alter_self p _ fs hreach
      have := haff (alter p (fun _ => .absent) fs) (parentIsDir_alter p _ fs hpar) (by rw [h1]; exact hv)
      simpa [h1, alter_alter] using this
    cases hs : statOf (get p fs) with
    | notExist => simpa [absent_of_notExist hs] using haff fs hpar (by simpa [absent_of_notExist hs] using hv)
    | isFile => simp; rw [hx]; exact Runs.bind_ok (Runs.lift _ fs) hrm
    | isDir => simp; rw [hx]; exact Runs.bind_ok (Runs.lift _ fs) hrm
  | ignore =>
    simp only [Sem.okEntry] at hv
    simp
    apply Runs.stat_bind
    simp only [applyEntry]
    cases hg : get p fs with
    | absent => simpa [statOf, T.present, hg] using haff fs hpar (by simpa [hg, T.present] using hv)
    | file b =>
      simp [statOf, T.present]
      have : alter p (fun _ => T.file b) fs = fs := by rw [← hg]; exact alter_get_self p fs
      rw [this]; exact Runs.pure () fs
    | dir f =>
      simp [statOf, T.present]
      have : alter p (fun _ => T.dir f) fs = fs := by rw [← hg]; exact alter_get_self p fs
      rw [this]; exact Runs.pure () fs
  | fail =>
    simp only [Sem.okEntry, Bool.and_eq_true, Bool.not_eq_true'] at hv
    simp
    apply Runs.stat_bind
    simp only [applyEntry]
    cases hg : get p fs with
    | absent => simpa [statOf, hg] using haff fs hpar (by simpa [hg] using hv.2)
    | file b => simp [hg, T.present] at hv
    | dir f => simp [hg, T.present] at hv


theorem realx_configureOutput (t : TupF) (p : Path) (fs : FS) (hd : DirOutOkX t p)
    (hpar : parentIsDir p fs = true) (hv : Sem.okEntry (.tup t.ifx t.dirF t.fileF) (get p fs) = true) :
    Runs (configureOutput [] t p false) fs (.ok ())
      (alter p (fun _ => applyEntry (.tup t.ifx t.dirF t.fileF) (get p fs)) fs) := by
  unfold configureOutput
  cases hi : t.ifx with
  | none =>
    rw [hi] at hv
    simpa [applyEntry] using realx_applyFilesFields t p fs hd hpar (by simpa [Sem.okEntry] using hv)
  | some conf => rw [hi] at hv; exact realx_applyIfExistsConfig t conf p fs hd hpar hv


theorem notFile_of_okDir {v : Val} {c : T} (h : Sem.okDir v c = true) : notFile c = true := by
  cases v with
  | dict es => simp only [Sem.okDir, Bool.and_eq_true] at h; exact h.1
  | data b bs => cases bs <;> simp [Sem.okDir] at h; exact h
  | tup _ _ _ => simp [Sem.okDir] at h
  | other _ => simp [Sem.okDir] at h


/-! ### The writing pass, entry after entry -/

mutual
theorem realx_dir (v : Val) (p : Path) (fs : FS)
    (hv : Sem.okDir v (get p fs) = true) (hpar : (get p fs).present = false → parentIsDir p fs = true) :
    Runs (outputTupleDir v [] p false) fs (.ok ()) (alter p (fun _ => applyDir v (get p fs)) fs) := by
  have hreach : Reach p fs := by
    cases hg : get p fs with
    | absent => exact reach_of_parentIsDir p fs (hpar (by simp [hg, T.present]))
    | file b => have := notFile_of_okDir hv; simp [hg, notFile, statOf] at this
    | dir f => exact reach_of_dir p fs (by simp [hg, statOf])
  cases v with
  | dict es =>
    simp only [Sem.okDir, Bool.and_eq_true] at hv
    simp only [outputTupleDir, applyDir]
    refine Runs.bind_ok (real_dirHead p fs hv.1 hpar) ?_
    have h1 : get p (alter p (fun _ => T.dir (children (get p fs))) fs) = .dir (children (get p fs)) :=
      get_alter_self p _ fs hreach
    have := realx_entries es p _ (children (get p fs)) h1 hv.2
    simpa [alter_alter] using this
  | data b bs =>
    cases bs with
    | nil => simpa [outputTupleDir, applyDir] using real_dirHead p fs (by simpa [Sem.okDir] using hv) hpar
    | cons c cs => simp [Sem.okDir] at hv
  | tup _ _ _ => simp [Sem.okDir] at hv
  | other _ => simp [Sem.okDir] at hv
theorem realx_entries (es : List (Key × Val)) (p : Path) (fs : FS)
    (f : Name → T) (hg : get p fs = .dir f) (hv : Sem.okEntries es f = true) :
    Runs (outputEntries es [] p false) fs (.ok ()) (alter p (fun _ => .dir (applyEntries es f)) fs) := by
  cases es with
  | nil =>
    simp only [outputEntries, applyEntries]
    have : alter p (fun _ => T.dir f) fs = fs := by rw [← hg]; exact alter_get_self p fs
    rw [this]; exact Runs.pure () fs
  | cons e r =>
    obtain ⟨k, v⟩ := e
    simp only [outputEntries, applyEntries]
    cases hrel : k.rel with
    | none => simp [Sem.okEntries, hrel] at hv
    | some rel =>
      have hne : rel ≠ [] := rel_ne_nil hrel
      simp only [Sem.okEntries, hrel, Bool.and_eq_true] at hv
      obtain ⟨⟨hpe, hve⟩, hvr⟩ := hv
      simp only
      have hdir : statOf (get p fs) = .isDir := by simp [hg, statOf]
      have hgn : get (p ++ rel) fs = seen rel f := by rw [get_append, hg]; rfl
      have hpar : parentIsDir (p ++ rel) fs = true := parentIsDir_append p rel fs f hg hne hpe
      have h1 := realx_entry v (p ++ rel) fs hpar (by rw [hgn]; exact hve)
      rw [hgn] at h1
      refine Runs.bind_ok h1 ?_
      have hfs1 : alter (p ++ rel) (fun _ => applyEntry v (seen rel f)) fs
          = alter p (fun _ => .dir (alterRel rel (applyEntry v) f)) fs := by
        rw [alter_append]
        apply alter_congr
        rw [hg, alter_dir_eq_alterRel rel _ f hne hpe]
        congr 1
        exact alterRel_congr rel _ _ f hne hpe rfl
      rw [hfs1]
      have hg1 : get p (alter p (fun _ => T.dir (alterRel rel (applyEntry v) f)) fs)
          = .dir (alterRel rel (applyEntry v) f) := get_alter_self p _ fs (reach_of_dir p fs hdir)
      have h2 := realx_entries r p _ _ hg1 hvr
      simpa [alter_alter] using h2
theorem realx_entry (v : Val) (p : Path) (fs : FS)
    (hpar : parentIsDir p fs = true) (hv : Sem.okEntry v (get p fs) = true) :
    Runs (outputEntry v [] p false) fs (.ok ()) (alter p (fun _ => applyEntry v (get p fs)) fs) := by
  cases v with
  | data b bs =>
    simpa [outputEntry, applyEntry] using
      real_outputFile (.data b bs) bs p fs rfl (by simpa [Sem.okEntry] using hv) hpar
  | other _ => simp [Sem.okEntry] at hv
  | dict es =>
    cases es with
    | nil =>
      simpa [outputEntry, applyEntry] using
        real_outputFile (.dict []) [] p fs rfl (by simpa [Sem.okEntry] using hv) hpar
    | cons e es =>
      simp only [Sem.okEntry, Bool.and_eq_true] at hv
      simp only [outputEntry, applyEntry]
      refine Runs.bind_ok (real_dirHead p fs hv.1 (fun _ => hpar)) ?_
      have h1 : get p (alter p (fun _ => T.dir (children (get p fs))) fs) = .dir (children (get p fs)) :=
        get_alter_self p _ fs (reach_of_parentIsDir p fs hpar)
      have := realx_entries (e :: es) p _ (children (get p fs)) h1 hv.2
      simpa [alter_alter] using this
  | tup ifx dF fF =>
    cases dF with
    | none =>
      simp only [outputEntry]
      refine realx_configureOutput _ p fs ?_ hpar hv
      intro d hd
      simp at hd
    | some d' =>
      have ih := realx_dir d' p
      simp only [outputEntry]
      refine realx_configureOutput _ p fs ?_ hpar hv
      intro d hd fs' hp' hv'
      simp only [Option.some.injEq] at hd
      subst hd
      exact ih fs' hv' (fun _ => hp')
end

end Impl

/-! ## Plain keys are outside the class -/

theorem relsOf_plain (r : List (Key × Val)) (h : plainEntries r = true) :
    ∀ b ∈ relsOf r, ∃ m, b = [m] ∧ m ∈ namesOf r := by
  induction r with
  | nil => simp [relsOf]
  | cons e r ih =>
    obtain ⟨k, v⟩ := e
    simp only [plainEntries, Bool.and_eq_true] at h
    obtain ⟨⟨⟨hk, _⟩, _⟩, hr⟩ := h
    intro b hb
    simp only [relsOf, namesOf] at hb ⊢
    cases hrel : k.rel with
    | none =>
      rw [hrel] at hb
      obtain ⟨m, e1, e2⟩ := ih hr b hb
      exact ⟨m, e1, by simpa using e2⟩
    | some rel =>
      obtain ⟨n, rfl⟩ := Impl.rel_of_keyPlain hk hrel
      rw [hrel] at hb
      simp only [List.mem_cons] at hb
      rcases hb with hb | hb
      · exact ⟨n, hb, by simp⟩
      · obtain ⟨m, e1, e2⟩ := ih hr b hb
        exact ⟨m, e1, by simp [e2]⟩

mutual
theorem regular_of_plain_dir (v : Val) (cur : T) (h : v.plain = true) : regularDir v cur = true := by
  cases v with
  | dict es => simp only [regularDir]; exact regular_of_plain_entries es _ (by simpa [Val.plain] using h)
  | data _ _ => simp [regularDir]
  | tup _ _ _ => simp [regularDir]
  | other _ => simp [regularDir]
theorem regular_of_plain_entries (es : List (Key × Val)) (ch : Name → T) (h : plainEntries es = true) :
    regularEntries es ch = true := by
  cases es with
  | nil => simp [regularEntries]
  | cons e r =>
    obtain ⟨k, v⟩ := e
    have h' := h
    simp only [plainEntries, Bool.and_eq_true] at h
    obtain ⟨⟨⟨hk, hv⟩, hnd⟩, hr⟩ := h
    simp only [regularEntries, Bool.and_eq_true]
    refine ⟨?_, regular_of_plain_entries r ch hr⟩
    cases hrel : k.rel with
    | none => rfl
    | some rel =>
      obtain ⟨n, rfl⟩ := Impl.rel_of_keyPlain hk hrel
      simp only [hrel, Bool.not_eq_true'] at hnd
      simp only [Bool.and_eq_true, List.all_eq_true, Bool.not_eq_true']
      refine ⟨⟨by simp [parentsExist, parentIsDir, get, statOf], ?_⟩, regular_of_plain_entry v _ hv⟩
      intro b hb
      obtain ⟨m, rfl, hm⟩ := relsOf_plain r hr b hb
      have hne : n ≠ m := by
        intro e; subst e
        have : (namesOf r).contains n = true := by simpa using hm
        rw [this] at hnd; cases hnd
      simp [comparable, List.isPrefixOf, hne, Ne.symm hne]
theorem regular_of_plain_entry (v : Val) (cur : T) (h : v.plain = true) : regularEntry v cur = true := by
  cases v with
  | data _ _ => simp [regularEntry]
  | other _ => simp [regularEntry]
  | dict es =>
    cases es with
    | nil => simp [regularEntry]
    | cons e es =>
      simp only [regularEntry]
      exact regular_of_plain_entries (e :: es) _ (by simpa [Val.plain] using h)
  | tup ifx dF fF =>
    cases dF with
    | none =>
      cases ifx with
      | none => simp [regularEntry, regularContent]
      | some c => cases c <;> simp [regularEntry, regularContent]
    | some d =>
      have hpd : d.plain = true := by
        unfold Val.plain at h
        simp only [Bool.and_eq_true] at h
        exact h.1
      have ih := regular_of_plain_dir d
      cases ifx with
      | none => simp only [regularEntry, regularContent]; exact ih cur hpd
      | some c => cases c <;> simp [regularEntry, regularContent, ih _ hpd]
end

/-! ## What is written before a failure -/
namespace Impl

theorem parentIsDir_append_eq (p : Path) (rel : List Name) (fs : FS) (f : Name → T) (hg : get p fs = .dir f)
    (hne : rel ≠ []) : parentIsDir (p ++ rel) fs = parentsExist rel f := by
  have e : rel = rel.dropLast ++ [rel.getLast hne] := (List.dropLast_concat_getLast hne).symm
  rw [e, ← List.append_assoc, parentIsDir_snoc, get_append, hg]
  simp [parentsExist, parentIsDir_snoc]

theorem get_absent_of_no_parent (q : Path) (fs : FS) (hq : q ≠ []) (h : parentIsDir q fs = false) :
    get q fs = .absent := by
  have e : q = q.dropLast ++ [q.getLast hq] := (List.dropLast_concat_getLast hq).symm
  rw [e] at h ⊢
  rw [parentIsDir_snoc] at h
  rw [get_snoc]
  cases hg : get q.dropLast fs <;> simp [hg, statOf, children] at h ⊢

/-- an entry that has to be created: a file, or the directory of a non-empty dict -/
def needsParent : Val → Bool
  | .data _ _ => true
  | .dict _ => true
  | _ => false

theorem outputFile_no_parent (v : Val) (bs : Bytes) (q : Path) (fs : FS) (hb : bytesOf v = some bs) (hq : q ≠ [])
    (h : parentIsDir q fs = false) : Runs (outputFile [] v q false) fs (.err .io) fs := by
  have habs := get_absent_of_no_parent q fs hq h
  unfold outputFile
  rw [hb]
  apply Runs.stat_bind
  simp only [habs, statOf, if_false, Bool.false_eq_true]
  refine Runs.bind_err ?_
  simpa [create, habs, statOf, h] using Runs.fsop (fun fs => if statOf (get q fs) = .isDir || !parentIsDir q fs
    then ((.err .io : Res Unit), fs) else (.ok (), alter q (fun _ => .file []) fs)) fs

theorem dirHead_no_parent (q : Path) (fs : FS) (hq : q ≠ []) (h : parentIsDir q fs = false) :
    Runs (dirHead [] q false) fs (.err .io) fs := by
  have habs := get_absent_of_no_parent q fs hq h
  unfold dirHead
  apply Runs.stat_bind
  simp only [habs, statOf]
  simpa [mkdir, habs, T.present, h] using Runs.fsop (fun fs => if (get q fs).present || !parentIsDir q fs
    then ((.err .io : Res Unit), fs) else (.ok (), alter q (fun _ => .dir (fun _ => .absent)) fs)) fs

theorem outputEntry_no_parent (v : Val) (q : Path) (fs : FS) (hv : needsParent v = true) (hq : q ≠ [])
    (h : parentIsDir q fs = false) : Runs (outputEntry v [] q false) fs (.err .io) fs := by
  cases v with
  | data b bs => simpa [outputEntry] using outputFile_no_parent (.data b bs) bs q fs rfl hq h
  | dict es =>
    cases es with
    | nil => simpa [outputEntry] using outputFile_no_parent (.dict []) [] q fs rfl hq h
    | cons e es => simp only [outputEntry]; exact Runs.bind_err (dirHead_no_parent q fs hq h)
  | tup _ _ _ => simp [needsParent] at hv
  | other _ => simp [needsParent] at hv

/-- one entry of the writing pass, seen from the directory -/
theorem realx_step (v : Val) (rel : List Name) (p : Path) (fs : FS) (f : Name → T) (hg : get p fs = .dir f)
    (hne : rel ≠ []) (hpe : parentsExist rel f = true) (hve : Sem.okEntry v (seen rel f) = true) :
    Runs (outputEntry v [] (p ++ rel) false) fs (.ok ())
      (alter p (fun _ => .dir (alterRel rel (applyEntry v) f)) fs) ∧
    get p (alter p (fun _ => T.dir (alterRel rel (applyEntry v) f)) fs) = .dir (alterRel rel (applyEntry v) f) := by
  have hdir : statOf (get p fs) = .isDir := by simp [hg, statOf]
  have hgn : get (p ++ rel) fs = seen rel f := by rw [get_append, hg]; rfl
  have hpar : parentIsDir (p ++ rel) fs = true := parentIsDir_append p rel fs f hg hne hpe
  have h1 := realx_entry v (p ++ rel) fs hpar (by rw [hgn]; exact hve)
  rw [hgn] at h1
  have hfs1 : alter (p ++ rel) (fun _ => applyEntry v (seen rel f)) fs
      = alter p (fun _ => .dir (alterRel rel (applyEntry v) f)) fs := by
    rw [alter_append]
    apply alter_congr
    rw [hg, alter_dir_eq_alterRel rel _ f hne hpe]
    congr 1
    exact alterRel_congr rel _ _ f hne hpe rfl
  rw [hfs1] at h1
  exact ⟨h1, get_alter_self p _ fs (reach_of_dir p fs hdir)⟩

/-- the entries before the first failing one are written exactly as specified, the failing entry's own
effect follows, and nothing after it is attempted -/
theorem realx_entries_stop (pre post : List (Key × Val)) (k : Key) (v : Val) (rel : List Name) (p : Path)
    (fs fs2 : FS) (f : Name → T) (e : Err) (hg : get p fs = .dir f) (hpre : Sem.okEntries pre f = true)
    (hrel : k.rel = some rel)
    (hfail : Runs (outputEntry v [] (p ++ rel) false) (alter p (fun _ => .dir (applyEntries pre f)) fs) (.err e) fs2) :
    Runs (outputEntries (pre ++ (k, v) :: post) [] p false) fs (.err e) fs2 := by
  induction pre generalizing fs f with
  | nil =>
    simp only [List.nil_append, outputEntries, hrel]
    have : alter p (fun _ => T.dir (applyEntries [] f)) fs = fs := by
      simp only [applyEntries]; rw [← hg]; exact alter_get_self p fs
    rw [this] at hfail
    exact Runs.bind_err hfail
  | cons e0 pre ih =>
    obtain ⟨k0, v0⟩ := e0
    cases hrel0 : k0.rel with
    | none => simp [Sem.okEntries, hrel0] at hpre
    | some rel0 =>
      have hne0 := rel_ne_nil hrel0
      simp only [Sem.okEntries, hrel0, Bool.and_eq_true] at hpre
      obtain ⟨⟨hpe, hve⟩, hvr⟩ := hpre
      obtain ⟨h1, hg1⟩ := realx_step v0 rel0 p fs f hg hne0 hpe hve
      simp only [List.cons_append, outputEntries, hrel0]
      refine Runs.bind_ok h1 (ih _ _ hg1 hvr ?_)
      simpa [alter_alter, applyEntries, hrel0] using hfail

end Impl
end Arrai.C19
