import Arrai.Core.DriverMain
import Arrai.C19.Gen

def main (args : List String) : IO UInt32 := Arrai.driverMain Arrai.C19.gen args
