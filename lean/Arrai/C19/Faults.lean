/-
  C19 — fault lemmas: a run in which no fault fires is the fault-free run (`Faith`), and whatever
  fails, nothing that is not at or below PATH changes (`Within`).
-/
import Arrai.C19.Lemmas

namespace Arrai.C19

/-! ## Faults are the only source of divergence -/

/-- `m` (run under some fault oracle) against `m0` (the same code run fault-free): the fired flag never
resets, and as long as no fault fires `m` does exactly what `m0` does -/
def Faith {α} (m m0 : M α) : Prop :=
  (∀ s, s.fired = true → (m s).2.fired = true) ∧ (∀ s, (m s).2.fired = false → m s = m0 s)

theorem Faith.refl_of_keeps {α} (m : M α) (h : ∀ s, (m s).2.fired = s.fired) : Faith m m :=
  ⟨fun s hs => by rw [h s]; exact hs, fun _ _ => rfl⟩

theorem Faith.pure {α} (a : α) : Faith (Pure.pure a : M α) (Pure.pure a) := Faith.refl_of_keeps _ (fun _ => rfl)
theorem Faith.fail {α} (e : Err) : Faith (M.fail e : M α) (M.fail e) := Faith.refl_of_keeps _ (fun _ => rfl)
theorem Faith.lift {α} (r : Res α) : Faith (M.lift r) (M.lift r) := by
  cases r <;> exact Faith.refl_of_keeps _ (fun _ => rfl)
theorem Faith.onEmptyFs (m : M Unit) : Faith (M.onEmptyFs m) (M.onEmptyFs m) :=
  Faith.refl_of_keeps _ (fun _ => rfl)

theorem Faith.fsop {α} (φ : List Nat) (act : FS → Res α × FS) : Faith (fsop φ act) (fsop [] act) := by
  constructor
  · intro s hs
    unfold C19.fsop
    split <;> simp [hs]
  · intro s h
    unfold C19.fsop at h ⊢
    by_cases c : φ.contains s.n = true
    · rw [if_pos c] at h; cases h
    · rw [if_neg c]; simp

theorem Faith.bind {α β} {m m0 : M α} {f f0 : α → M β} (hm : Faith m m0) (hf : ∀ a, Faith (f a) (f0 a)) :
    Faith (m >>= f) (m0 >>= f0) := by
  have key : ∀ (m : M α) (f : α → M β) s, (m >>= f) s = match m s with
      | (.ok a, s') => f a s'
      | (.err e, s') => (.err e, s') := fun _ _ _ => rfl
  constructor
  · intro s hs
    rw [key]
    have h1 := hm.1 s hs
    revert h1
    generalize m s = ms
    obtain ⟨r, s1⟩ := ms
    intro h1
    cases r with
    | err e => exact h1
    | ok a => exact (hf a).1 s1 h1
  · intro s h
    rw [key] at h ⊢
    rw [key m0 f0]
    have h2 := hm.2 s
    revert h h2
    generalize m s = ms
    obtain ⟨r, s1⟩ := ms
    intro h h2
    have hs1 : s1.fired = false := by
      cases hf1 : s1.fired with
      | false => rfl
      | true =>
        cases r with
        | err e => simp only at h; rw [hf1] at h; cases h
        | ok a => simp only at h; rw [(hf a).1 s1 hf1] at h; cases h
    rw [← h2 hs1]
    cases r with
    | err e => rfl
    | ok a => exact (hf a).2 s1 h

theorem Faith.ite {α} {c : Prop} [Decidable c] {a a0 b b0 : M α} (ha : Faith a a0) (hb : Faith b b0) :
    Faith (if c then a else b) (if c then a0 else b0) := by
  split <;> assumption

theorem Faith.withClose {body body0 close close0 : M Unit} (hb : Faith body body0) (hc : Faith close close0) :
    Faith (M.withClose body close) (M.withClose body0 close0) := by
  constructor
  · intro s hs
    unfold M.withClose
    have h1 := hb.1 s hs
    revert h1
    generalize body s = bs
    obtain ⟨r, s1⟩ := bs
    intro h1
    simp only
    have h2 := hc.1 s1 h1
    revert h2
    generalize close s1 = cs
    obtain ⟨c, s2⟩ := cs
    intro h2
    exact h2
  · intro s h
    unfold M.withClose at h ⊢
    have h2 := hb.2 s
    have hm := hc.1
    revert h h2
    generalize body s = bs
    obtain ⟨r, s1⟩ := bs
    simp only
    intro h h2
    have h3 := hc.2 s1
    have hm1 := hm s1
    revert h h3 hm1
    generalize close s1 = cs
    obtain ⟨c, s2⟩ := cs
    simp only
    intro h h3 hm1
    have hs1 : s1.fired = false := by
      cases hf1 : s1.fired with
      | false => rfl
      | true => rw [hm1 hf1] at h; cases h
    rw [← h2 hs1]
    simp only
    rw [← h3 h]

namespace Impl

theorem faith_outputFile (φ : List Nat) (v : Val) (p : Path) (dry : Bool) :
    Faith (outputFile φ v p dry) (outputFile [] v p dry) := by
  unfold outputFile
  cases Spec.bytesOf v with
  | none => exact Faith.fail _
  | some bytes =>
    simp only
    refine Faith.bind (Faith.fsop _ _) (fun st => ?_)
    refine Faith.ite (Faith.fail _) (Faith.ite (Faith.pure _) ?_)
    refine Faith.bind (Faith.fsop _ _) (fun _ => ?_)
    exact Faith.withClose (Faith.bind (Faith.fsop _ _) (fun _ => Faith.fsop _ _)) (Faith.fsop _ _)

theorem faith_dirHead (φ : List Nat) (p : Path) (dry : Bool) : Faith (dirHead φ p dry) (dirHead [] p dry) := by
  unfold dirHead
  refine Faith.bind (Faith.fsop _ _) (fun st => ?_)
  cases st
  · exact Faith.ite (Faith.pure _) (Faith.fsop _ _)
  · exact Faith.fail _
  · exact Faith.pure _

/-- the recursive call on the `dir` field is faithful -/
def DirOutFaith (t : TupF) : Prop := ∀ φ' p' dry', Faith (t.dirOut φ' p' dry') (t.dirOut [] p' dry')

theorem faith_applyFilesFields (φ : List Nat) (t : TupF) (p : Path) (dry : Bool) (hd : DirOutFaith t) :
    Faith (applyFilesFields φ t p dry) (applyFilesFields [] t p dry) := by
  unfold applyFilesFields
  refine Faith.bind (Faith.lift _) (fun _ => ?_)
  cases t.dirF with
  | some d => exact Faith.bind (Faith.lift _) (fun _ => hd φ p dry)
  | none =>
    cases t.fileF with
    | some f => exact faith_outputFile φ f p dry
    | none => exact Faith.fail _

theorem faith_applyIfExistsConfig (φ : List Nat) (t : TupF) (conf : IfEx) (p : Path) (dry : Bool)
    (hd : DirOutFaith t) : Faith (applyIfExistsConfig φ t conf p dry) (applyIfExistsConfig [] t conf p dry) := by
  have haff := faith_applyFilesFields φ t p dry hd
  unfold applyIfExistsConfig
  refine Faith.ite (Faith.fail _) (Faith.ite (Faith.fail _) ?_)
  refine Faith.bind (Faith.fsop _ _) (fun st => ?_)
  refine Faith.ite haff ?_
  cases conf
  · simp only
    cases t.dirF with
    | some d => exact Faith.bind (Faith.lift _) (fun _ => hd φ p dry)
    | none => exact Faith.fail _
  · exact Faith.bind (Faith.lift _) (fun _ => Faith.ite (Faith.pure _) (Faith.fsop _ _))
  · exact Faith.bind (Faith.lift _) (fun _ =>
      Faith.ite (Faith.onEmptyFs _) (Faith.bind (Faith.fsop _ _) (fun _ => haff)))
  · exact Faith.ite (Faith.onEmptyFs _) (Faith.pure _)
  · exact Faith.fail _
  · exact Faith.fail _
  · exact Faith.fail _

theorem faith_configureOutput (φ : List Nat) (t : TupF) (p : Path) (dry : Bool) (hd : DirOutFaith t) :
    Faith (configureOutput φ t p dry) (configureOutput [] t p dry) := by
  unfold configureOutput
  cases t.ifx with
  | some conf => exact faith_applyIfExistsConfig φ t conf p dry hd
  | none => exact faith_applyFilesFields φ t p dry hd

mutual
theorem faith_dir (v : Val) (φ : List Nat) (p : Path) (dry : Bool) :
    Faith (outputTupleDir v φ p dry) (outputTupleDir v [] p dry) := by
  cases v with
  | dict es =>
    simp only [outputTupleDir]
    exact Faith.bind (faith_dirHead φ p dry) (fun _ => faith_entries es φ p dry)
  | data b bs =>
    cases bs with
    | nil => simpa [outputTupleDir] using faith_dirHead φ p dry
    | cons c cs => simpa [outputTupleDir] using Faith.fail (α := Unit) _
  | tup _ _ _ => simpa [outputTupleDir] using Faith.fail (α := Unit) _
  | other _ => simpa [outputTupleDir] using Faith.fail (α := Unit) _
theorem faith_entries (es : List (Key × Val)) (φ : List Nat) (p : Path) (dry : Bool) :
    Faith (outputEntries es φ p dry) (outputEntries es [] p dry) := by
  cases es with
  | nil => simpa [outputEntries] using Faith.pure ()
  | cons e r =>
    obtain ⟨k, v⟩ := e
    simp only [outputEntries]
    cases k.rel with
    | none => exact Faith.fail _
    | some rel => exact Faith.bind (faith_entry v φ _ dry) (fun _ => faith_entries r φ p dry)
theorem faith_entry (v : Val) (φ : List Nat) (p : Path) (dry : Bool) :
    Faith (outputEntry v φ p dry) (outputEntry v [] p dry) := by
  cases v with
  | data b bs => simpa [outputEntry] using faith_outputFile φ (.data b bs) p dry
  | other _ => simpa [outputEntry] using Faith.fail (α := Unit) _
  | dict es =>
    cases es with
    | nil => simpa [outputEntry] using faith_outputFile φ (.dict []) p dry
    | cons e es =>
      simp only [outputEntry]
      exact Faith.bind (faith_dirHead φ p dry) (fun _ => faith_entries (e :: es) φ p dry)
  | tup ifx dF fF =>
    cases dF with
    | none =>
      simp only [outputEntry]
      exact faith_configureOutput φ _ p dry (fun _ _ _ => Faith.fail _)
    | some d =>
      have ih := faith_dir d
      simp only [outputEntry]
      exact faith_configureOutput φ _ p dry (fun φ' p' dry' => ih φ' p' dry')
end

theorem faith_outputValue (φ : List Nat) (v : Val) (mode : Mode) (arg : Path) :
    Faith (outputValue φ v mode arg) (outputValue [] v mode arg) := by
  unfold outputValue
  cases mode
  · exact faith_outputFile φ v arg false
  · exact Faith.ite (Faith.bind (faith_dir v φ arg true) (fun _ => faith_dir v φ arg false)) (Faith.fail _)
  · exact Faith.fail _

end Impl

/-! ## Whatever fails, nothing outside PATH is touched -/

/-- `m` leaves the view of every path that is not at or below `arg` as it was -/
def Within {α} (arg : Path) (m : M α) : Prop :=
  ∀ s q, ¬ arg <+: q → view (get q (m s).2.fs) = view (get q s.fs)

theorem Within.of_keeps {α} (arg : Path) (m : M α) (h : ∀ s, (m s).2.fs = s.fs) : Within arg m :=
  fun s q _ => by rw [h s]

theorem Within.pure {α} (arg : Path) (a : α) : Within arg (Pure.pure a : M α) := Within.of_keeps _ _ (fun _ => rfl)
theorem Within.fail {α} (arg : Path) (e : Err) : Within arg (M.fail e : M α) := Within.of_keeps _ _ (fun _ => rfl)
theorem Within.lift {α} (arg : Path) (r : Res α) : Within arg (M.lift r) := by
  cases r <;> exact Within.of_keeps _ _ (fun _ => rfl)
theorem Within.onEmptyFs (arg : Path) (m : M Unit) : Within arg (M.onEmptyFs m) :=
  Within.of_keeps _ _ (fun _ => rfl)

theorem Within.bind {α β} {arg : Path} {m : M α} {f : α → M β} (hm : Within arg m) (hf : ∀ a, Within arg (f a)) :
    Within arg (m >>= f) := by
  intro s q hq
  have key : (m >>= f) s = match m s with
      | (.ok a, s') => f a s'
      | (.err e, s') => (.err e, s') := rfl
  rw [key]
  have h1 := hm s q hq
  revert h1
  generalize m s = ms
  obtain ⟨r, s1⟩ := ms
  intro h1
  cases r with
  | err e => exact h1
  | ok a => exact (hf a s1 q hq).trans h1

theorem Within.ite {α} {arg : Path} {c : Prop} [Decidable c] {a b : M α} (ha : Within arg a) (hb : Within arg b) :
    Within arg (if c then a else b) := by
  split <;> assumption

theorem Within.withClose {arg : Path} {body close : M Unit} (hb : Within arg body) (hc : Within arg close) :
    Within arg (M.withClose body close) := by
  intro s q hq
  unfold M.withClose
  have h1 := hb s q hq
  revert h1
  generalize body s = bs
  obtain ⟨r, s1⟩ := bs
  simp only
  have h2 := hc s1 q hq
  revert h2
  generalize close s1 = cs
  obtain ⟨c, s2⟩ := cs
  intro h2 h1
  exact h2.trans h1

/-- a call that replaces what is at `p` (at or below `arg`), or does nothing -/
theorem Within.fsop_alter {α} {arg p : Path} (φ : List Nat) (act : FS → Res α × FS) (hp : arg <+: p)
    (h : ∀ fs, (act fs).2 = fs ∨ ∃ g, (act fs).2 = alter p g fs) : Within arg (fsop φ act) := by
  intro s q hq
  unfold C19.fsop
  split
  · rfl
  · simp only
    rcases h s.fs with e | ⟨g, e⟩
    · rw [e]
    · rw [e]
      exact view_get_alter_outside p q g s.fs (fun hpq => hq (hp.trans hpq))

namespace Impl

theorem within_stat (arg : Path) (φ : List Nat) (p : Path) : Within arg (stat φ p) :=
  Within.fsop_alter (p := arg) φ _ (List.prefix_refl _) (fun _ => .inl rfl)
theorem within_sync (arg : Path) (φ : List Nat) : Within arg (sync φ) :=
  Within.fsop_alter (p := arg) φ _ (List.prefix_refl _) (fun _ => .inl rfl)
theorem within_close (arg : Path) (φ : List Nat) : Within arg (close φ) :=
  Within.fsop_alter (p := arg) φ _ (List.prefix_refl _) (fun _ => .inl rfl)
theorem within_mkdir {arg p : Path} (φ : List Nat) (hp : arg <+: p) : Within arg (mkdir φ p) :=
  Within.fsop_alter φ _ hp (fun fs => by
    by_cases c : ((get p fs).present || !parentIsDir p fs) = true
    · exact .inl (by simp only [c, if_true])
    · exact .inr ⟨fun _ => .dir (fun _ => .absent), by simp only [c, if_false, Bool.false_eq_true]⟩)
theorem within_create {arg p : Path} (φ : List Nat) (hp : arg <+: p) : Within arg (create φ p) :=
  Within.fsop_alter φ _ hp (fun fs => by
    by_cases c : (decide (statOf (get p fs) = .isDir) || !parentIsDir p fs) = true
    · exact .inl (by simp only [c, if_true])
    · exact .inr ⟨fun _ => .file [], by simp only [c, if_false, Bool.false_eq_true]⟩)
theorem within_write {arg p : Path} (φ : List Nat) (bs : Bytes) (hp : arg <+: p) : Within arg (write φ p bs) :=
  Within.fsop_alter φ _ hp (fun _ => .inr ⟨_, rfl⟩)
theorem within_removeAll {arg p : Path} (φ : List Nat) (hp : arg <+: p) : Within arg (removeAll φ p) :=
  Within.fsop_alter φ _ hp (fun _ => .inr ⟨_, rfl⟩)

theorem within_outputFile {arg p : Path} (φ : List Nat) (v : Val) (dry : Bool) (hp : arg <+: p) :
    Within arg (outputFile φ v p dry) := by
  unfold outputFile
  cases Spec.bytesOf v with
  | none => exact Within.fail _ _
  | some bytes =>
    simp only
    refine Within.bind (within_stat arg φ p) (fun st => ?_)
    refine Within.ite (Within.fail _ _) (Within.ite (Within.pure _ _) ?_)
    refine Within.bind (within_create φ hp) (fun _ => ?_)
    exact Within.withClose (Within.bind (within_write φ _ hp) (fun _ => within_sync arg φ)) (within_close arg φ)

theorem within_dirHead {arg p : Path} (φ : List Nat) (dry : Bool) (hp : arg <+: p) : Within arg (dirHead φ p dry) := by
  unfold dirHead
  refine Within.bind (within_stat arg φ p) (fun st => ?_)
  cases st
  · exact Within.ite (Within.pure _ _) (within_mkdir φ hp)
  · exact Within.fail _ _
  · exact Within.pure _ _

/-- the recursive call on the `dir` field stays at or below any path at or below `arg` -/
def DirOutWithin (arg : Path) (t : TupF) : Prop :=
  ∀ φ' p' dry', arg <+: p' → Within arg (t.dirOut φ' p' dry')

theorem within_applyFilesFields {arg p : Path} (φ : List Nat) (t : TupF) (dry : Bool) (hp : arg <+: p)
    (hd : DirOutWithin arg t) : Within arg (applyFilesFields φ t p dry) := by
  unfold applyFilesFields
  refine Within.bind (Within.lift _ _) (fun _ => ?_)
  cases t.dirF with
  | some d => exact Within.bind (Within.lift _ _) (fun _ => hd φ p dry hp)
  | none =>
    cases t.fileF with
    | some f => exact within_outputFile φ f dry hp
    | none => exact Within.fail _ _

theorem within_applyIfExistsConfig {arg p : Path} (φ : List Nat) (t : TupF) (conf : IfEx) (dry : Bool)
    (hp : arg <+: p) (hd : DirOutWithin arg t) : Within arg (applyIfExistsConfig φ t conf p dry) := by
  have haff := within_applyFilesFields φ t dry hp hd
  unfold applyIfExistsConfig
  refine Within.ite (Within.fail _ _) (Within.ite (Within.fail _ _) ?_)
  refine Within.bind (within_stat arg φ p) (fun st => ?_)
  refine Within.ite haff ?_
  cases conf
  · simp only
    cases t.dirF with
    | some d => exact Within.bind (Within.lift _ _) (fun _ => hd φ p dry hp)
    | none => exact Within.fail _ _
  · exact Within.bind (Within.lift _ _) (fun _ => Within.ite (Within.pure _ _) (within_removeAll φ hp))
  · exact Within.bind (Within.lift _ _) (fun _ =>
      Within.ite (Within.onEmptyFs _ _) (Within.bind (within_removeAll φ hp) (fun _ => haff)))
  · exact Within.ite (Within.onEmptyFs _ _) (Within.pure _ _)
  · exact Within.fail _ _
  · exact Within.fail _ _
  · exact Within.fail _ _

theorem within_configureOutput {arg p : Path} (φ : List Nat) (t : TupF) (dry : Bool) (hp : arg <+: p)
    (hd : DirOutWithin arg t) : Within arg (configureOutput φ t p dry) := by
  unfold configureOutput
  cases t.ifx with
  | some conf => exact within_applyIfExistsConfig φ t conf dry hp hd
  | none => exact within_applyFilesFields φ t dry hp hd

mutual
theorem within_dir (arg : Path) (v : Val) (φ : List Nat) (p : Path) (dry : Bool) (hp : arg <+: p) :
    Within arg (outputTupleDir v φ p dry) := by
  cases v with
  | dict es =>
    simp only [outputTupleDir]
    exact Within.bind (within_dirHead φ dry hp) (fun _ => within_entries arg es φ p dry hp)
  | data b bs =>
    cases bs with
    | nil => simpa [outputTupleDir] using within_dirHead φ dry hp
    | cons c cs => simpa [outputTupleDir] using Within.fail (α := Unit) arg _
  | tup _ _ _ => simpa [outputTupleDir] using Within.fail (α := Unit) arg _
  | other _ => simpa [outputTupleDir] using Within.fail (α := Unit) arg _
theorem within_entries (arg : Path) (es : List (Key × Val)) (φ : List Nat) (p : Path) (dry : Bool)
    (hp : arg <+: p) : Within arg (outputEntries es φ p dry) := by
  cases es with
  | nil => simpa [outputEntries] using Within.pure arg ()
  | cons e r =>
    obtain ⟨k, v⟩ := e
    simp only [outputEntries]
    cases k.rel with
    | none => exact Within.fail _ _
    | some rel =>
      exact Within.bind (within_entry arg v φ _ dry (hp.trans (List.prefix_append p rel)))
        (fun _ => within_entries arg r φ p dry hp)
theorem within_entry (arg : Path) (v : Val) (φ : List Nat) (p : Path) (dry : Bool) (hp : arg <+: p) :
    Within arg (outputEntry v φ p dry) := by
  cases v with
  | data b bs => simpa [outputEntry] using within_outputFile φ (.data b bs) dry hp
  | other _ => simpa [outputEntry] using Within.fail (α := Unit) arg _
  | dict es =>
    cases es with
    | nil => simpa [outputEntry] using within_outputFile φ (.dict []) dry hp
    | cons e es =>
      simp only [outputEntry]
      exact Within.bind (within_dirHead φ dry hp) (fun _ => within_entries arg (e :: es) φ p dry hp)
  | tup ifx dF fF =>
    cases dF with
    | none =>
      simp only [outputEntry]
      exact within_configureOutput φ _ dry hp (fun _ _ _ _ => Within.fail _ _)
    | some d =>
      have ih := within_dir arg d
      simp only [outputEntry]
      exact within_configureOutput φ _ dry hp (fun φ' p' dry' hp' => ih φ' p' dry' hp')
end

theorem within_outputValue (φ : List Nat) (v : Val) (mode : Mode) (arg : Path) :
    Within arg (outputValue φ v mode arg) := by
  unfold outputValue
  cases mode
  · exact within_outputFile φ v false (List.prefix_refl _)
  · exact Within.ite (Within.bind (within_dir arg v φ arg true (List.prefix_refl _))
      (fun _ => within_dir arg v φ arg false (List.prefix_refl _))) (Within.fail _ _)
  · exact Within.fail _ _

end Impl
end Arrai.C19
