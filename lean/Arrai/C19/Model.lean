/-
  C19 — `--out` writes exactly the described tree, or changes nothing.

  * file system : a tree (`T = absent | file bytes | dir (Name → T)`), addressed by paths, with
                  exactly the operations pkg/arrai/out.go uses (Stat, Mkdir, Create, Write, Sync, Close,
                  RemoveAll).  Every operation is one numbered call; the calls whose index is in the
                  fault oracle `φ` fail without effect.  Mkdir/Create have their POSIX preconditions
                  (parent is a directory, Mkdir target absent, Create target not a directory).
  * `Impl`      : transliteration of outputValue / outputTupleDir / configureOutput /
                  applyIfExistsConfig / applyFilesFields / outputFile / getDirField / entryPath
                  (as repaired in the worktree: same branches, same order of tests).
  * `Spec`      : `Spec.valid` (decidable) and `Spec.apply` by structural recursion on the description.
  Core-only.
-/
import Arrai.Core.Canon

namespace Arrai.C19

/-! ## File-system trees -/

abbrev Name := List Nat          -- the bytes of one path element
abbrev Bytes := List Nat

/-- what is at a path: nothing, a file, or a directory (a finite map given as a function from
element names; equality of trees is therefore extensional: same files, same bytes, same directories) -/
inductive T where
  | absent
  | file (b : Bytes)
  | dir (f : Name → T)
  deriving Inhabited

abbrev Path := List Name
/-- a file system (or the part of it below some path) -/
abbrev FS := T

def T.present : T → Bool
  | .absent => false
  | _ => true

def children : T → Name → T
  | .dir f => f
  | _ => fun _ => .absent

/-- replace what `k` maps to by `g` of it -/
def setKey (k : Name) (g : T → T) (f : Name → T) : Name → T :=
  fun k' => if k' = k then g (f k) else f k'

/-- what is at path `p` below `cur` -/
def get : Path → T → T
  | [], cur => cur
  | k :: p, .dir f => get p (f k)
  | _ :: _, _ => .absent

/-- replace what is at path `p` by `g` of it; no effect when the parent of `p` is not a directory -/
def alter : Path → (T → T) → T → T
  | [], g, cur => g cur
  | k :: p, g, .dir f => .dir (setKey k (alter p g) f)
  | _ :: _, _, cur => cur

/-- a directory given by an association list (first match wins) -/
def lookupL (k : Name) : List (Name × T) → T
  | [] => .absent
  | (k', v) :: r => if k' = k then v else lookupL k r
def T.ofList (es : List (Name × T)) : T := .dir (fun k => lookupL k es)

inductive StatRes | notExist | isFile | isDir
  deriving DecidableEq, Repr

def statOf : T → StatRes
  | .absent => .notExist
  | .file _ => .isFile
  | .dir _ => .isDir

/-- the observable content of a node: `none` absent, `some none` a directory, `some (some b)` a file -/
def view : T → Option (Option Bytes)
  | .absent => none
  | .dir _ => some none
  | .file b => some (some b)

def parentIsDir (p : Path) (fs : FS) : Bool :=
  match p with
  | [] => false
  | _ :: _ => statOf (get p.dropLast fs) = .isDir

/-! ## The state monad of file-system calls with a fault oracle -/

inductive Err | invalid | io
  deriving DecidableEq, Repr

inductive Res (α : Type) where
  | ok (a : α)
  | err (e : Err)
  deriving DecidableEq

def Res.isOk {α} : Res α → Bool
  | .ok _ => true
  | .err _ => false

structure St where
  fs : FS
  n : Nat          -- file-system calls made so far
  fired : Bool     -- an injected fault has fired

def M (α : Type) := St → Res α × St

namespace M
def pure {α} (a : α) : M α := fun s => (.ok a, s)
def bind {α β} (m : M α) (f : α → M β) : M β := fun s =>
  match m s with
  | (.ok a, s') => f a s'
  | (.err e, s') => (.err e, s')
def fail {α} (e : Err) : M α := fun s => (.err e, s)
def lift {α} : Res α → M α
  | .ok a => pure a
  | .err e => fail e
instance : Monad M where
  pure := M.pure
  bind := M.bind
/-- Go's `defer f.Close()` that reports the Close error when the body succeeded -/
def closeRes (r c : Res Unit) : Res Unit :=
  match r with
  | .err e => .err e
  | .ok _ => c
def withClose (body close : M Unit) : M Unit := fun s =>
  match body s with
  | (r, s1) =>
    match close s1 with
    | (c, s2) => (closeRes r c, s2)
/-- run `m` against a fresh, empty, fault-free file system and keep only its result
(`afero.NewMemMapFs()` in the dry pass of `replace`/`ignore`) -/
def onEmptyFs (m : M Unit) : M Unit := fun s =>
  ((m { fs := .dir (fun _ => .absent), n := 0, fired := false }).1, s)
end M

/-- one file-system call: fails without effect when its index is in `φ` -/
def fsop {α} (φ : List Nat) (act : FS → Res α × FS) : M α := fun s =>
  if φ.contains s.n then (.err .io, { s with n := s.n + 1, fired := true })
  else ((act s.fs).1, { s with n := s.n + 1, fs := (act s.fs).2 })

def stat (φ : List Nat) (p : Path) : M StatRes := fsop φ (fun fs => (.ok (statOf (get p fs)), fs))

def mkdir (φ : List Nat) (p : Path) : M Unit := fsop φ (fun fs =>
  if (get p fs).present || !parentIsDir p fs then (.err .io, fs)
  else (.ok (), alter p (fun _ => .dir (fun _ => .absent)) fs))

def create (φ : List Nat) (p : Path) : M Unit := fsop φ (fun fs =>
  if statOf (get p fs) = .isDir || !parentIsDir p fs then (.err .io, fs)
  else (.ok (), alter p (fun _ => .file []) fs))

/-- `f.Write(bytes)` on the handle `Create` returned for `p` -/
def write (φ : List Nat) (p : Path) (bs : Bytes) : M Unit :=
  fsop φ (fun fs => (.ok (), alter p (fun _ => .file bs) fs))
def sync (φ : List Nat) : M Unit := fsop φ (fun fs => (.ok (), fs))
def close (φ : List Nat) : M Unit := fsop φ (fun fs => (.ok (), fs))
def removeAll (φ : List Nat) (p : Path) : M Unit := fsop φ (fun fs => (.ok (), alter p (fun _ => .absent) fs))

/-! ## Output descriptions (the arr.ai result value, by dynamic Go type) -/

inductive IfEx | merge | remove | replace | ignore | fail | invalidStr | notStr
  deriving DecidableEq, Repr, Inhabited

inductive Key where
  | str (cs : List Nat)     -- a string key (`str []` is the empty set: not a rel.String)
  | nonstr                  -- any other key
  deriving DecidableEq, Repr, Inhabited

inductive Val where
  | data (isBytes : Bool) (bs : Bytes)   -- rel.String / rel.Bytes; with `bs = []` the empty set
  | dict (es : List (Key × Val))         -- rel.Dict; `dict []` is the empty set
  | tup (ifx : Option IfEx) (dir : Option Val) (file : Option Val)   -- rel.Tuple (fields ifExists, dir, file)
  | other (isSet : Bool)                 -- another non-empty set (array, true, …) / a number or function
  deriving Inhabited

/-! ### `entryPath`: `path.Join(".", key)` and the test that it stays below the directory -/

def splitSlash : List Nat → List Name
  | [] => [[]]
  | c :: cs =>
    if c = 47 then [] :: splitSlash cs
    else match splitSlash cs with
      | [] => [[c]]
      | w :: ws => (c :: w) :: ws

/-- `path.Clean` on the elements: `none` once the path has left the starting directory -/
def cleanStep (st : Option (List Name)) (c : Name) : Option (List Name) :=
  match st with
  | none => none
  | some st =>
    if c = [] || c = [46] then some st
    else if c = [46, 46] then (if st = [] then none else some st.dropLast)
    else some (st ++ [c])

/-- the cleaned relative path a key denotes, if it is a string naming something below the directory -/
def Key.rel : Key → Option (List Name)
  | .nonstr => none
  | .str [] => none
  | .str cs =>
    match (splitSlash cs).foldl cleanStep (some []) with
    | some [] => none
    | some r => some r
    | none => none

/-! ## Spec -/
namespace Spec

/-- bytes of a file description: string, byte array or the empty set -/
def bytesOf : Val → Option Bytes
  | .data _ bs => some bs
  | .dict [] => some []
  | _ => none

def isDictOrEmpty : Val → Bool
  | .dict _ => true
  | .data _ [] => true
  | _ => false

/-- apply `g` at the relative path `rel` inside a directory; missing intermediate directories appear -/
def alterRel : List Name → (T → T) → (Name → T) → (Name → T)
  | [], _, ch => ch
  | [n], g, ch => setKey n g ch
  | n :: m :: rest, g, ch => setKey n (fun cur => .dir (alterRel (m :: rest) g (children cur))) ch

/-- `g` holds of what is at `rel`, and no intermediate element is a file -/
def validRel : List Name → (T → Bool) → (Name → T) → Bool
  | [], _, _ => false
  | [n], g, ch => g (ch n)
  | n :: m :: rest, g, ch =>
    match ch n with
    | .file _ => false
    | cur => validRel (m :: rest) g (children cur)

def notDir (cur : T) : Bool := statOf cur != .isDir
def notFile (cur : T) : Bool := statOf cur != .isFile

mutual
/-- the description `v` of a directory (a dict or the empty set) is acceptable over `cur` -/
def validDir : Val → T → Bool
  | .dict es, cur => notFile cur && validEntries es (children cur)
  | .data _ [], cur => notFile cur
  | _, _ => false
/-- every entry has an acceptable key and is acceptable over what its key denotes -/
def validEntries : List (Key × Val) → (Name → T) → Bool
  | [], _ => true
  | (k, v) :: r, ch =>
    (match k.rel with
     | some rel => validRel rel (validEntry v) ch
     | none => false) && validEntries r ch
/-- exactly one of the fields dir / file, and it is acceptable over `c` -/
def validContent : Option Val → Option Val → T → Bool
  | some d, none, c => validDir d c
  | none, some f, c => (bytesOf f).isSome && notDir c
  | _, _, _ => false
/-- the entry `v` is acceptable over `cur` (what is at its path now) -/
def validEntry : Val → T → Bool
  | .data _ _, cur => notDir cur
  | .dict [], cur => notDir cur
  | .dict (e :: es), cur => notFile cur && validEntries (e :: es) (children cur)
  | .other _, _ => false
  | .tup ifx dirF fileF, cur =>
    match ifx with
    | none => validContent dirF fileF cur
    | some .merge => fileF.isNone && validContent dirF fileF cur
    | some .remove => dirF.isNone && fileF.isNone
    | some .replace => validContent dirF fileF .absent
    | some .ignore => validContent dirF fileF .absent
    | some .fail => !cur.present && validContent dirF fileF .absent
    | some .invalidStr => false
    | some .notStr => false
end

mutual
/-- the directory a directory description produces over `cur` (existing content is kept: merge) -/
def applyDir : Val → T → T
  | .dict es, cur => .dir (applyEntries es (children cur))
  | .data _ [], cur => .dir (children cur)
  | _, cur => cur
def applyEntries : List (Key × Val) → (Name → T) → (Name → T)
  | [], ch => ch
  | (k, v) :: r, ch =>
    applyEntries r (match k.rel with
      | some rel => alterRel rel (applyEntry v) ch
      | none => ch)
/-- what the field dir (or file) of a config tuple leaves over `c` -/
def applyContent : Option Val → Option Val → T → T
  | some d, none, c => applyDir d c
  | none, some f, _ => .file ((bytesOf f).getD [])
  | _, _, c => c
/-- what an entry leaves at its path: plain entries overwrite files and merge into directories;
`ifExists` = ignore keeps, replace substitutes, merge overlays, remove deletes, fail refuses -/
def applyEntry : Val → T → T
  | .data _ bs, _ => .file bs
  | .dict [], _ => .file []
  | .dict (e :: es), cur => .dir (applyEntries (e :: es) (children cur))
  | .other _, cur => cur
  | .tup ifx dirF fileF, cur =>
    match ifx with
    | none => applyContent dirF fileF cur
    | some .merge => applyContent dirF fileF cur
    | some .remove => .absent
    | some .replace => applyContent dirF fileF .absent
    | some .ignore => if cur.present then cur else applyContent dirF fileF .absent
    | some .fail => applyContent dirF fileF .absent
    | some .invalidStr => cur
    | some .notStr => cur
end

/-- `--out=dir:PATH`: the result must be a dict (or empty) and acceptable over what is at PATH -/
def valid (v : Val) (cur : T) : Bool := isDictOrEmpty v && validDir v cur
def apply (v : Val) (cur : T) : T := applyDir v cur

end Spec

/-! ## Impl: pkg/arrai/out.go -/
namespace Impl

/-- `getDirField`: a dict or the empty set -/
def getDirField : Val → Res (List (Key × Val))
  | .dict es => .ok es
  | .data _ [] => .ok []
  | _ => .err .invalid

/-- a config tuple as the non-recursive functions see it; `dirOut` is `outputTupleDir` applied to
the `dir` field (what `applyFilesFields` / `applyIfExistsConfig` call on it) -/
structure TupF where
  ifx : Option IfEx
  dirF : Option Val
  fileF : Option Val
  dirOut : List Nat → Path → Bool → M Unit

def checkNotDirAndNotFileField (t : TupF) : Res Unit :=
  if t.dirF.isSome || t.fileF.isSome then .err .invalid else .ok ()

def checkDirXorFileField (t : TupF) : Res Unit :=
  if t.dirF.isSome == t.fileF.isSome then .err .invalid else .ok ()

/-- `outputFile` -/
def outputFile (φ : List Nat) (content : Val) (p : Path) (dry : Bool) : M Unit :=
  match Spec.bytesOf content with
  | none => M.fail .invalid
  | some bytes => do
    let st ← stat φ p
    if st = .isDir then M.fail .invalid
    else if dry then pure ()
    else do
      create φ p
      M.withClose (do write φ p bytes; sync φ) (close φ)

/-- `applyFilesFields` -/
def applyFilesFields (φ : List Nat) (t : TupF) (p : Path) (dry : Bool) : M Unit := do
  M.lift (checkDirXorFileField t)
  match t.dirF with
  | some d => do
    let _ ← M.lift (getDirField d)
    t.dirOut φ p dry
  | none =>
    match t.fileF with
    | some f => outputFile φ f p dry
    | none => M.fail .invalid

/-- `applyIfExistsConfig` (`conf` = the `ifExists` field) -/
def applyIfExistsConfig (φ : List Nat) (t : TupF) (conf : IfEx) (p : Path) (dry : Bool) : M Unit :=
  if conf = .notStr || conf = .invalidStr then M.fail .invalid
  else if conf = .merge && t.fileF.isSome then M.fail .invalid
  else do
    let st ← stat φ p
    if st = .notExist && conf ≠ .remove then applyFilesFields φ t p dry
    else
      match conf with
      | .remove => do
        M.lift (checkNotDirAndNotFileField t)
        if dry then pure () else removeAll φ p
      | .replace => do
        M.lift (checkDirXorFileField t)
        if dry then M.onEmptyFs (applyFilesFields [] t p true)
        else do
          removeAll φ p
          applyFilesFields φ t p dry
      | .merge =>
        match t.dirF with
        | some d => do
          let _ ← M.lift (getDirField d)
          t.dirOut φ p dry
        | none => M.fail .invalid
      | .ignore => if dry then M.onEmptyFs (applyFilesFields [] t p true) else pure ()
      | .fail => M.fail .invalid
      | _ => M.fail .invalid

/-- `configureOutput` -/
def configureOutput (φ : List Nat) (t : TupF) (p : Path) (dry : Bool) : M Unit :=
  match t.ifx with
  | some conf => applyIfExistsConfig φ t conf p dry
  | none => applyFilesFields φ t p dry

/-- the head of `outputTupleDir`: Stat, Mkdir unless dry, refuse a file -/
def dirHead (φ : List Nat) (dir : Path) (dry : Bool) : M Unit := do
  let st ← stat φ dir
  match st with
  | .notExist => if dry then pure () else mkdir φ dir
  | .isFile => M.fail .invalid
  | .isDir => pure ()

mutual
/-- `outputTupleDir` -/
def outputTupleDir : Val → List Nat → Path → Bool → M Unit
  | .dict es, φ, dir, dry => do dirHead φ dir dry; outputEntries es φ dir dry
  | .data _ [], φ, dir, dry => dirHead φ dir dry
  | _, _, _, _ => M.fail .invalid
/-- the loop over the dict entries -/
def outputEntries : List (Key × Val) → List Nat → Path → Bool → M Unit
  | [], _, _, _ => pure ()
  | (k, v) :: r, φ, dir, dry =>
    match k.rel with
    | none => M.fail .invalid
    | some rel => do outputEntry v φ (dir ++ rel) dry; outputEntries r φ dir dry
/-- the type switch on an entry's value (`case rel.Dict` is `outputTupleDir` of it, inlined) -/
def outputEntry : Val → List Nat → Path → Bool → M Unit
  | .tup ifx dirF fileF, φ, p, dry =>
    configureOutput φ
      { ifx := ifx, dirF := dirF, fileF := fileF,
        dirOut := match dirF with
          | some d => outputTupleDir d
          | none => fun _ _ _ => M.fail .invalid } p dry
  | .dict (e :: es), φ, p, dry => do dirHead φ p dry; outputEntries (e :: es) φ p dry
  | .dict [], φ, p, dry => outputFile φ (.dict []) p dry
  | .data b bs, φ, p, dry => outputFile φ (.data b bs) p dry
  | .other _, _, _, _ => M.fail .invalid
end

inductive Mode | file | dir | bad
  deriving DecidableEq, Repr, Inhabited

/-- `outputValue` after the flag has been split into mode and path -/
def outputValue (φ : List Nat) (v : Val) (mode : Mode) (arg : Path) : M Unit :=
  match mode with
  | .file => outputFile φ v arg false
  | .dir =>
    if Spec.isDictOrEmpty v then do
      outputTupleDir v φ arg true
      outputTupleDir v φ arg false
    else M.fail .invalid
  | .bad => M.fail .invalid

/-- run from a file system with no call made yet -/
def run (φ : List Nat) (v : Val) (mode : Mode) (arg : Path) (fs : FS) : Res Unit × St :=
  outputValue φ v mode arg { fs := fs, n := 0, fired := false }

end Impl

/-! ## Classes -/

/-- keys that are refused, or denote a single element; sibling elements pairwise distinct -/
def namesOf : List (Key × Val) → List Name
  | [] => []
  | (k, _) :: r =>
    match k.rel with
    | some [n] => n :: namesOf r
    | _ => namesOf r

def keyPlain (k : Key) : Bool :=
  match k.rel with
  | none => true
  | some [_] => true
  | some _ => false

mutual
def Val.plain : Val → Bool
  | .dict es => plainEntries es
  | .tup _ dirF fileF =>
    (match dirF with | some d => d.plain | none => true) &&
    (match fileF with | some f => f.plain | none => true)
  | _ => true
def plainEntries : List (Key × Val) → Bool
  | [] => true
  | (k, v) :: r =>
    keyPlain k && v.plain &&
    (match k.rel with | some [n] => !(namesOf r).contains n | _ => true) && plainEntries r
end

end Arrai.C19
