/-
  C09 — pattern matching binds exactly what construction would produce.

  Property theorems only (helper lemmas: Arrai/C09/Lemmas.lean, Arrai/C09/Refine.lean).
  Part 1: the specification.  `Matches ρ p v σ` = the pattern `p`, read as an expression with the names bound as in
          `σ`, rebuilds `v`, and `σ` binds exactly the names of `p`.  `Spec.bind` decides it; matches are unique.
  Part 2: the transliterated Go matcher (`Impl.bind`: ArrayPattern/TuplePattern/DictPattern/SetPattern/ExprPattern/
          ExprsPattern/IdentPattern/ExtraElementPattern.Bind + Scope.MatchedUpdate, as repaired) computes `Spec.bind`
          on supported patterns; hence it is sound and complete for `Matches`, never panics there, a non-matching
          `let`/call is an error, and `cond` takes the first matching arm.
  Part 3: what is not repaired — decidable classes, partial theorems and refutations of the full statements.
-/
import Arrai.C09.Refine

namespace Arrai.C09.Theorems
open Arrai Arrai.C09

/-! ### Part 1 — the specification -/

/-- matching inverts construction: the array view of a constructed array gives its items back -/
theorem array_view_inverts_construction (xs : List V) : asArr (mkArr xs) = some xs := asArr_mkArr xs

theorem array_view_only_constructed (v : V) (xs : List V) : asArr v = some xs ↔ v = mkArr xs := asArr_iff v xs

theorem dict_view_only_constructed (v : V) (kvs : List (V × V)) :
    asDict v = some kvs ↔ (v = mkDict kvs ∧ (kvs.map (·.1)).Nodup) := asDict_iff v kvs

theorem matches_respects_equiv {ρ σ τ : Env} {p : Pat} {v : V} (h : Matches ρ p v σ) (he : Env.equiv σ τ) :
    Matches ρ p v τ := by
  refine ⟨Rebuilds_mono (fun x w hx => by rw [← he x]; exact hx) p v h.1, fun x => ?_⟩
  rw [← he x]; exact h.2 x

/-- what `Spec.bind` returns is a match -/
theorem spec_bind_sound (ρ : Env) (p : Pat) (v : V) (σ : Env) (h : Spec.bind ρ p v = some σ) : Matches ρ p v σ :=
  bind_sound ρ p v σ h

/-- every match of a deterministic pattern is found by `Spec.bind` (up to the order of the bindings) -/
theorem spec_bind_complete (ρ : Env) (p : Pat) (v : V) (σ : Env) (hd : det p = true) (h : Matches ρ p v σ) :
    ∃ σ', Spec.bind ρ p v = some σ' ∧ Env.equiv σ' σ := by
  obtain ⟨s, hb, hle⟩ := bind_complete ρ σ p v hd h.1
  refine ⟨s, hb, fun x => ?_⟩
  have hdom := (bind_sound ρ p v s hb).2 x
  cases hs : s.lookup x with
  | some w => exact (hle x w hs).symm
  | none =>
    rw [hs] at hdom
    cases hσ : σ.lookup x with
    | none => rfl
    | some w =>
      have := (h.2 x).1 (by simp [hσ])
      have := hdom.2 this
      simp at this

theorem spec_bind_iff (ρ : Env) (p : Pat) (v : V) (σ : Env) (hd : det p = true) :
    (∃ σ', Spec.bind ρ p v = some σ' ∧ Env.equiv σ' σ) ↔ Matches ρ p v σ := by
  constructor
  · rintro ⟨σ', hb, he⟩
    exact matches_respects_equiv (spec_bind_sound ρ p v σ' hb) he
  · exact spec_bind_complete ρ p v σ hd

/-- a deterministic pattern matches a value in at most one way -/
theorem bind_unique (ρ : Env) (p : Pat) (v : V) (σ₁ σ₂ : Env) (hd : det p = true)
    (h₁ : Matches ρ p v σ₁) (h₂ : Matches ρ p v σ₂) : Env.equiv σ₁ σ₂ := by
  obtain ⟨s₁, hb₁, he₁⟩ := spec_bind_complete ρ p v σ₁ hd h₁
  obtain ⟨s₂, hb₂, he₂⟩ := spec_bind_complete ρ p v σ₂ hd h₂
  rw [hb₁] at hb₂
  cases hb₂
  intro x
  rw [← he₁ x, he₂ x]

/-- no match at all when `Spec.bind` finds none -/
theorem spec_bind_none (ρ : Env) (p : Pat) (v : V) (hd : det p = true) (h : Spec.bind ρ p v = none) :
    ¬ ∃ σ, Matches ρ p v σ := by
  rintro ⟨σ, hm⟩
  obtain ⟨σ', hb, _⟩ := spec_bind_complete ρ p v σ hd hm
  rw [h] at hb; cases hb

/-- repeated names must agree: `[x, x]` matches `[a, b]` only when `a = b` -/
theorem repeated_names_agree (ρ σ : Env) (x : String) (a b : V) (hx : x ≠ "_")
    (h : Matches ρ (.arr [(.name x, none), (.name x, none)]) (mkArr [a, b]) σ) : a = b := by
  obtain ⟨xs, hv, hi⟩ := (by simpa only [Rebuilds] using h.1 : ∃ xs, mkArr [a, b] = mkArr xs ∧ RItems ρ σ _ xs)
  have hxs := mkArr_inj hv
  subst hxs
  simp only [RItems, restName, Rebuilds, hx, false_or] at hi
  rcases hi with ⟨x1, t1, h1, ha, hi⟩ | ⟨d, hd, _⟩
  · simp only [List.cons.injEq] at h1
    obtain ⟨rfl, rfl⟩ := h1
    rcases hi with ⟨x2, t2, h2, hb, _⟩ | ⟨d, hd, _⟩
    · simp only [List.cons.injEq] at h2
      obtain ⟨rfl, _⟩ := h2
      rw [ha] at hb
      exact Option.some.inj hb
    · cases hd
  · cases hd

/-! ### Part 2 — the code's matcher on supported patterns -/

/-- supported patterns are deterministic -/
theorem supported_is_det (ρ : Env) (p : Pat) (h : supported ρ p = true) : det p = true := supported_det ρ p h

/-- the transliterated Go matcher computes the decision procedure of the specification -/
theorem impl_refines_spec (ρ : Env) (p : Pat) (v : V) (h : supported ρ p = true) :
    Impl.bind ρ p v = Res.ofOption (Spec.bind ρ p v) := impl_eq ρ p h v

theorem bind_sound_partial (ρ : Env) (p : Pat) (v : V) (σ : Env) (hs : supported ρ p = true)
    (h : Impl.bind ρ p v = .ok σ) : Matches ρ p v σ := by
  rw [impl_refines_spec ρ p v hs] at h
  cases hb : Spec.bind ρ p v with
  | none => rw [hb] at h; cases h
  | some s =>
    rw [hb] at h
    cases h
    exact spec_bind_sound ρ p v _ hb

theorem bind_complete_partial (ρ : Env) (p : Pat) (v : V) (σ : Env) (hs : supported ρ p = true)
    (h : Matches ρ p v σ) : ∃ σ', Impl.bind ρ p v = .ok σ' ∧ Env.equiv σ' σ := by
  obtain ⟨σ', hb, he⟩ := spec_bind_complete ρ p v σ (supported_det ρ p hs) h
  exact ⟨σ', by rw [impl_refines_spec ρ p v hs, hb]; rfl, he⟩

/-- no panic on supported patterns -/
theorem no_panic_partial (ρ : Env) (p : Pat) (v : V) (hs : supported ρ p = true) : Impl.bind ρ p v ≠ .panic := by
  rw [impl_refines_spec ρ p v hs]
  cases Spec.bind ρ p v <;> simp [Res.ofOption]

/-- a `let` / call whose pattern does not match is an error — never a value, never a panic -/
theorem let_mismatch (ρ : Env) (p : Pat) (v : V) (hs : supported ρ p = true) (h : ¬ ∃ σ, Matches ρ p v σ) :
    Impl.evalLet ρ p v = .err := by
  unfold Impl.evalLet
  rw [impl_refines_spec ρ p v hs]
  cases hb : Spec.bind ρ p v with
  | none => rfl
  | some s => exact absurd ⟨s, spec_bind_sound ρ p v s hb⟩ h

theorem bodyVal_equiv {ρ σ τ : Env} (he : Env.equiv σ τ) (ns : List String) : bodyVal ρ σ ns = bodyVal ρ τ ns := by
  unfold bodyVal
  have : (fun n => ((σ ++ ρ).lookup n).map (fun v => (n, v))) = (fun n => ((τ ++ ρ).lookup n).map (fun v => (n, v))) := by
    funext n
    rw [lookup_append', lookup_append', he n]
  rw [this]

/-- a `let` / call whose pattern matches evaluates its body under exactly the matching bindings -/
theorem let_match (ρ : Env) (p : Pat) (v : V) (σ : Env) (hs : supported ρ p = true) (h : Matches ρ p v σ) :
    Impl.evalLet ρ p v = Res.ofOption (bodyVal ρ σ (bodyNames p)) := by
  obtain ⟨σ', hb, he⟩ := bind_complete_partial ρ p v σ hs h
  unfold Impl.evalLet
  rw [hb]
  simp only
  rw [bodyVal_equiv he]

/-- `cond` takes the first arm that matches, with a matching scope; with no matching arm it gives `{}` -/
theorem cond_first (ρ : Env) (v : V) : ∀ (arms : List Pat) (i : Nat), (∀ p, p ∈ arms → supported ρ p = true) →
    (∃ pre p post σ, arms = pre ++ p :: post ∧ (∀ q, q ∈ pre → ¬ ∃ τ, Matches ρ q v τ) ∧ Matches ρ p v σ ∧
        Impl.evalCond ρ v arms i = .ok (some (i + pre.length, σ))) ∨
    ((∀ q, q ∈ arms → ¬ ∃ τ, Matches ρ q v τ) ∧ Impl.evalCond ρ v arms i = .ok none)
  | [], i, _ => Or.inr ⟨by simp, rfl⟩
  | p :: r, i, hs => by
    have hp := hs p (by simp)
    have hr : ∀ q, q ∈ r → supported ρ q = true := fun q hq => hs q (List.mem_cons_of_mem _ hq)
    simp only [Impl.evalCond]
    rw [impl_refines_spec ρ p v hp]
    cases hb : Spec.bind ρ p v with
    | some σ =>
      left
      exact ⟨[], p, r, σ, rfl, by simp, spec_bind_sound ρ p v σ hb, by simp [Res.ofOption]⟩
    | none =>
      have hno := spec_bind_none ρ p v (supported_det ρ p hp) hb
      simp only [Res.ofOption]
      rcases cond_first ρ v r (i + 1) hr with ⟨pre, q, post, σ, he, hpre, hm, hev⟩ | ⟨hall, hev⟩
      · left
        refine ⟨p :: pre, q, post, σ, by rw [he]; rfl, ?_, hm, ?_⟩
        · intro q' hq'
          rcases List.mem_cons.1 hq' with rfl | hq'
          · exact hno
          · exact hpre q' hq'
        · rw [hev]; simp only [List.length_cons]; congr 3; omega
      · right
        refine ⟨?_, hev⟩
        intro q' hq'
        rcases List.mem_cons.1 hq' with rfl | hq'
        · exact hno
        · exact hall q' hq'

/-- on supported (hence closed) arms the code's `cond` is the specification's -/
theorem cond_agrees_partial (ρ : Env) (v : V) : ∀ (arms : List Pat) (i : Nat),
    (∀ p, p ∈ arms → supported ρ p = true ∧ closed ρ p = true) →
    Impl.evalCond ρ v arms i = Spec.evalCond ρ v arms i
  | [], _, _ => rfl
  | p :: r, i, hs => by
    obtain ⟨hp, hc⟩ := hs p (by simp)
    simp only [Impl.evalCond, Spec.evalCond, hc, if_true]
    rw [impl_refines_spec ρ p v hp]
    cases hb : Spec.bind ρ p v with
    | some σ => rfl
    | none =>
      simp only [Res.ofOption]
      exact cond_agrees_partial ρ v r (i + 1) (fun q hq => hs q (List.mem_cons_of_mem _ hq))

/-! ### Part 3 — what is not repaired: the full statements fail, with witnesses -/

def bind_sound_full : Prop := ∀ (ρ : Env) (p : Pat) (v : V) (σ : Env), Impl.bind ρ p v = .ok σ → Matches ρ p v σ
def bind_complete_full : Prop := ∀ (ρ : Env) (p : Pat) (v : V) (σ : Env), det p = true → Matches ρ p v σ →
  ∃ σ', Impl.bind ρ p v = .ok σ' ∧ Env.equiv σ' σ
def no_panic_full : Prop := ∀ (ρ : Env) (p : Pat) (v : V), Impl.bind ρ p v ≠ .panic
def cond_agrees_full : Prop := ∀ (ρ : Env) (v : V) (arms : List Pat), Impl.evalCond ρ v arms 0 = Spec.evalCond ρ v arms 0

/-- KF-dict-fallback-open: `let {2?: y:5} = {1: 1}` binds y = 5 although no reading of the pattern gives `{1: 1}` -/
theorem bind_sound_full_false : ¬ bind_sound_full := by
  intro h
  have hm := h [] (.dict [(.num 2, .name "y", some (.lit (.num 5)))]) (mkDict [(.num 1, .num 1)]) [("y", .num 5)] (by decide)
  exact spec_bind_none [] _ _ (by decide) (by decide) ⟨_, hm⟩

/-- KF-pattern-multi-optional: `let [?x:4, ?y:5] = [1]` is rejected although x = 1, y = 5 is its one match -/
theorem bind_complete_full_false : ¬ bind_complete_full := by
  intro h
  have hm : Matches [] (.arr [(.name "x", some (.lit (.num 4))), (.name "y", some (.lit (.num 5)))]) (mkArr [.num 1])
      [("y", .num 5), ("x", .num 1)] := spec_bind_sound [] _ _ _ (by decide)
  obtain ⟨σ', hb, _⟩ := h [] _ _ _ (by decide) hm
  have : Impl.bind [] (.arr [(.name "x", some (.lit (.num 4))), (.name "y", some (.lit (.num 5)))]) (mkArr [.num 1]) = .err := by
    decide
  rw [this] at hb; cases hb

/-- KF-setpattern-panic: `let {[x], 2} = {[1], 2}` panics -/
theorem no_panic_full_false : ¬ no_panic_full := by
  intro h
  exact h [] (.set [.arr [(.name "x", none)], .lit (.num 2)]) (.set [mkArr [.num 1], .num 2]) (by decide)

/-- KF-cond-swallows-errors: `cond 5 {(zz): …, _: …}` takes the second arm although `zz` is not defined -/
theorem cond_agrees_full_false : ¬ cond_agrees_full := by
  intro h
  have := h [] (.num 5) [.exprs [.var "zz"], .name "_"]
  revert this
  decide

/-- before the repair, `Scope.MatchedUpdate` compared printed forms: whenever two different values print alike
(as `1` and `'1'` do), a repeated name was accepted with both; the repaired test rejects it -/
theorem repeated_names_false_before_repair (str : V → String) (a b : V) (hab : a ≠ b) (hstr : str a = str b) :
    matchedUpdateOld str [("x", a)] [("x", b)] = some [("x", b), ("x", a)] ∧
    matchedUpdate [("x", a)] [("x", b)] = none := by
  constructor
  · simp [matchedUpdateOld, List.lookup, hstr]
  · rw [matchedUpdate_none_iff]
    intro hag
    have := hag "x" a b (by simp [List.lookup]) (by simp [List.lookup])
    exact hab this.symm

/-- a `?:` fallback — also one nested inside the pattern that another fallback supplies the value for — is evaluated
in the scope that encloses the whole pattern: `let n = 3; let (a?: (b?: x:n):()) = (); x` is 3 -/
theorem nested_fallback_sees_enclosing_scope :
    Impl.bind [("n", .num 3)]
      (.tup [("a", .tup [("b", .name "x", some (.var "n"))], some (.lit (.tup [])))]) (.tup []) = .ok [("x", .num 3)] ∧
    Spec.bind [("n", .num 3)]
      (.tup [("a", .tup [("b", .name "x", some (.var "n"))], some (.lit (.tup [])))]) (.tup []) = some [("x", .num 3)] ∧
    Impl.bind [("n", .num 3)]
      (.arr [(.name "y", none), (.arr [(.name "x", some (.add "n" 1))], some (.lit (.arr 0 [])))]) (mkArr [.num 7])
        = .ok [("x", .num 4), ("y", .num 7)] := by decide

/-! the hypotheses are satisfiable by non-trivial patterns -/
example : supported [("o", .num 7)]
    (.arr [(.name "x", none), (.rest "t", none),
           (.tup [("a", .name "x", none), ("b", .name "y", some (.lit (.num 2))), ("", .rest "", none)], none),
           (.dict [(.num 1, .exprs [.var "o"], none), (.ff, .rest "r", none)], none),
           (.set [.lit (.num 1), .name "z"], none)]) = true := by decide

example : ∃ σ, Matches [] (.arr [(.name "x", none), (.rest "t", none), (.name "y", none)])
    (mkArr [.num 1, .num 2, .num 3, .num 4]) σ :=
  ⟨_, spec_bind_sound [] _ _ _ (by decide : Spec.bind [] _ _ = some [("y", .num 4), ("t", mkArr [.num 2, .num 3]), ("x", .num 1)])⟩

example : ¬ ∃ σ, Matches [] (.arr [(.name "x", none), (.name "x", none)]) (mkArr [.num 1, .num 2]) σ :=
  spec_bind_none [] _ _ (by decide) (by decide)

end Arrai.C09.Theorems
