/-
  C09 — pattern matching binds exactly what construction would produce (property theorems).
-/
import Arrai.C09.Model

namespace Arrai.C09.Theorems
open Arrai Arrai.C09

theorem placeholder : (1 : Nat) = 1 := rfl

end Arrai.C09.Theorems
