/-
  C14 — //seq functions give the same answer for strings, byte arrays and arrays.

  Property theorems only (helper lemmas: Arrai/C14/Lemmas.lean).
  Part 1: the specification functions are the textbook ones (window / append characterisations,
          join inverts split, trim removes exactly a present prefix/suffix).
  Part 2: the transliterated Go helpers (`Impl`) compute the specification functions.
  Part 3: the dispatch of std_seq.go (`Model`) returns, for kind-consistent arguments of any of
          the three representations, exactly what the specification demands (`SpecRes`) — hence
          the three representations give corresponding results.
-/
import Arrai.C14.Lemmas

namespace Arrai.C14.Theorems
open Arrai.C14

variable {α : Type} [DecidableEq α]

/-! ### Part 1 — the specification is the textbook definition -/

theorem contains_iff_window (p s : List α) : Spec.contains p s = true ↔ ∃ a b, s = a ++ p ++ b :=
  Spec.contains_iff p s

theorem hasPrefix_iff_append (p s : List α) : Spec.hasPrefix p s = true ↔ ∃ t, s = p ++ t :=
  Spec.hasPrefix_iff p s

theorem hasSuffix_iff_append (p s : List α) : Spec.hasSuffix p s = true ↔ ∃ t, s = t ++ p :=
  Spec.hasSuffix_iff p s

theorem join_inverts_split (d s : List α) (hd : d ≠ []) : Spec.join d (Spec.split d s) = s :=
  Spec.join_split d s hd

theorem trimPrefix_exact (p t : List α) : Spec.trimPrefix p (p ++ t) = t := by
  simp [Spec.trimPrefix, Spec.hasPrefix_append]

theorem trimPrefix_absent (p s : List α) (h : ¬ ∃ t, s = p ++ t) : Spec.trimPrefix p s = s := by
  have : Spec.hasPrefix p s = false := by
    cases hh : Spec.hasPrefix p s with
    | false => rfl
    | true => exact absurd ((Spec.hasPrefix_iff p s).1 hh) h
  simp [Spec.trimPrefix, this]

theorem trimSuffix_exact (p t : List α) : Spec.trimSuffix p (t ++ p) = t := by
  have : Spec.hasSuffix p (t ++ p) = true := (Spec.hasSuffix_iff p _).2 ⟨t, rfl⟩
  simp [Spec.trimSuffix, this]

theorem trimSuffix_absent (p s : List α) (h : ¬ ∃ t, s = t ++ p) : Spec.trimSuffix p s = s := by
  have : Spec.hasSuffix p s = false := by
    cases hh : Spec.hasSuffix p s with
    | false => rfl
    | true => exact absurd ((Spec.hasSuffix_iff p s).1 hh) h
  simp [Spec.trimSuffix, this]

theorem sub_is_join_split (old new s : List α) (h : old ≠ []) :
    Spec.sub old new s = Spec.join new (Spec.split old s) := by
  have : old.isEmpty = false := by cases old <;> simp_all
  simp [Spec.sub, Spec.split, this]

theorem repeat_zero (s : List α) : Spec.repeat_ 0 s = [] := rfl
theorem repeat_succ (n : Nat) (s : List α) : Spec.repeat_ (n + 1) s = s ++ Spec.repeat_ n s := by
  simp [Spec.repeat_, List.replicate_succ]

/-! ### Part 2 — the Go array helpers refine the specification -/

theorem search_finds_iff_contains (s sub : List α) : (Impl.search s sub).isSome = Spec.contains sub s :=
  Impl.search_isSome s sub

theorem arraySplit_refines (d s : List α) : Impl.arraySplit d s = Spec.split d s := Impl.arraySplit_eq d s
theorem arraySub_refines (old new s : List α) : Impl.arraySub old new s = Spec.sub old new s :=
  Impl.arraySub_eq old new s
theorem arrayHasPrefix_refines (p s : List α) : Impl.arrayHasPrefix p s = Spec.hasPrefix p s :=
  Impl.arrayHasPrefix_eq p s
theorem arrayHasSuffix_refines (p s : List α) : Impl.arrayHasSuffix p s = Spec.hasSuffix p s :=
  Impl.arrayHasSuffix_eq p s
theorem arrayJoin_refines (d : List α) (xss : List (List α)) : Impl.arrayJoin d xss = Spec.join d xss :=
  Impl.arrayJoin_eq d xss
theorem arrayTrimPrefix_refines (p s : List α) : Impl.arrayTrimPrefix p s = Spec.trimPrefix p s :=
  Impl.arrayTrimPrefix_eq p s
theorem arrayTrimSuffix_refines (p s : List α) : Impl.arrayTrimSuffix p s = Spec.trimSuffix p s :=
  Impl.arrayTrimSuffix_eq p s
theorem repeatLoop_refines (s : List α) (n : Nat) : Impl.repeatLoop s n = Spec.repeat_ n s :=
  Impl.repeatLoop_eq s n

/-! ### Part 3 — the three representations agree with the specification -/

private theorem hasPrefix_nil_right (p : List α) : Spec.hasPrefix p [] = p.isEmpty := by
  cases p <;> rfl
private theorem hasSuffix_nil_right (p : List α) : Spec.hasSuffix p [] = p.isEmpty := by
  simp [Spec.hasSuffix, hasPrefix_nil_right]

theorem contains_three_reprs (p subject : Sq) (h : consistent p subject = true) :
    (Model.contains p subject).norm = (SpecRes.contains p subject).norm := by
  obtain ⟨pk, pxs⟩ := p
  obtain ⟨sk, sxs⟩ := subject
  simp only [consistent, Sq.isE, Bool.or_eq_true, decide_eq_true_eq] at h
  cases sxs with
  | nil => cases pxs <;> simp [Model.contains, SpecRes.contains, Sq.isE, Spec.contains]
  | cons x xs =>
    cases pxs with
    | nil => cases sk <;> simp [Model.contains, SpecRes.contains, Sq.isE, Sq.as, Impl.search_isSome]
    | cons y ys =>
      simp at h; subst h
      cases pk <;> simp [Model.contains, SpecRes.contains, Sq.isE, Sq.as, Impl.search_isSome]

theorem hasPrefix_three_reprs (p subject : Sq) (h : consistent p subject = true) :
    (Model.hasPrefix p subject).norm = (SpecRes.hasPrefix p subject).norm := by
  obtain ⟨pk, pxs⟩ := p
  obtain ⟨sk, sxs⟩ := subject
  simp only [consistent, Sq.isE, Bool.or_eq_true, decide_eq_true_eq] at h
  cases sxs with
  | nil => cases pxs <;> simp [Model.hasPrefix, SpecRes.hasPrefix, Sq.isE, Spec.hasPrefix]
  | cons x xs =>
    cases pxs with
    | nil => cases sk <;> simp [Model.hasPrefix, SpecRes.hasPrefix, Sq.isE, Sq.as, Spec.hasPrefix]
    | cons y ys =>
      simp at h; subst h
      cases pk <;> simp [Model.hasPrefix, SpecRes.hasPrefix, Sq.isE, Sq.as, Impl.arrayHasPrefix_eq]

theorem hasSuffix_three_reprs (p subject : Sq) (h : consistent p subject = true) :
    (Model.hasSuffix p subject).norm = (SpecRes.hasSuffix p subject).norm := by
  obtain ⟨pk, pxs⟩ := p
  obtain ⟨sk, sxs⟩ := subject
  simp only [consistent, Sq.isE, Bool.or_eq_true, decide_eq_true_eq] at h
  cases sxs with
  | nil => cases pxs <;> simp [Model.hasSuffix, SpecRes.hasSuffix, Sq.isE, hasSuffix_nil_right]
  | cons x xs =>
    cases pxs with
    | nil => cases sk <;> simp [Model.hasSuffix, SpecRes.hasSuffix, Sq.isE, Sq.as, Impl.arrayHasSuffix_eq]
    | cons y ys =>
      simp at h; subst h
      cases pk <;> simp [Model.hasSuffix, SpecRes.hasSuffix, Sq.isE, Sq.as, Impl.arrayHasSuffix_eq]

theorem split_three_reprs (d subject : Sq) (h : consistent d subject = true) :
    (Model.split d subject).norm = (SpecRes.split d subject).norm := by
  obtain ⟨pk, pxs⟩ := d
  obtain ⟨sk, sxs⟩ := subject
  simp only [consistent, Sq.isE, Bool.or_eq_true, decide_eq_true_eq] at h
  cases sxs with
  | nil => simp [Model.split, SpecRes.split, Sq.isE]
  | cons x xs =>
    cases pxs with
    | nil => cases sk <;> simp [Model.split, SpecRes.split, Sq.isE, Sq.as, Impl.arraySplit_eq]
    | cons y ys =>
      simp at h; subst h
      cases pk <;> simp [Model.split, SpecRes.split, Sq.isE, Sq.as, Impl.arraySplit_eq]

theorem sub_three_reprs (old new subject : Sq)
    (h₁ : consistent old subject = true) (h₂ : consistent new subject = true) :
    (Model.sub old new subject).norm = (SpecRes.sub old new subject).norm := by
  obtain ⟨ok, oxs⟩ := old
  obtain ⟨nk, nxs⟩ := new
  obtain ⟨sk, sxs⟩ := subject
  simp only [consistent, Sq.isE, Bool.or_eq_true, decide_eq_true_eq] at h₁ h₂
  cases sxs with
  | nil => simp [Model.sub, SpecRes.sub, Sq.isE]
  | cons x xs =>
    have ho : oxs = [] ∨ ok = sk := by simpa using h₁
    have hn : nxs = [] ∨ nk = sk := by simpa using h₂
    have eo : (Sq.mk ok oxs).as sk = true := by
      rcases ho with rfl | rfl <;> simp [Sq.as, Sq.isE]
    have en : (Sq.mk nk nxs).as sk = true := by
      rcases hn with rfl | rfl <;> simp [Sq.as, Sq.isE]
    cases sk <;> simp [Model.sub, SpecRes.sub, Sq.isE, eo, en, Impl.arraySub_eq]

theorem trimPrefix_three_reprs (p subject : Sq) (h : consistent p subject = true) :
    (Model.trimPrefix p subject).norm = (SpecRes.trimPrefix p subject).norm := by
  obtain ⟨pk, pxs⟩ := p
  obtain ⟨sk, sxs⟩ := subject
  simp only [consistent, Sq.isE, Bool.or_eq_true, decide_eq_true_eq] at h
  cases sxs with
  | nil =>
    cases pxs <;>
      simp [Model.trimPrefix, Model.hasPrefix, SpecRes.trimPrefix, Sq.isE, Spec.trimPrefix, Spec.hasPrefix, Res.norm]
  | cons x xs =>
    have hp : pxs = [] ∨ pk = sk := by simpa using h
    rcases hp with rfl | rfl
    · cases sk <;>
        simp [Model.trimPrefix, Model.hasPrefix, SpecRes.trimPrefix, Sq.isE, Sq.as, Spec.trimPrefix,
          Spec.hasPrefix, Impl.arrayTrimPrefix_eq]
    · cases pxs with
      | nil =>
        cases pk <;>
          simp [Model.trimPrefix, Model.hasPrefix, SpecRes.trimPrefix, Sq.isE, Sq.as, Spec.trimPrefix,
            Spec.hasPrefix, Impl.arrayTrimPrefix_eq]
      | cons y ys =>
        cases hb : Spec.hasPrefix (y :: ys) (x :: xs) <;> cases pk <;>
          simp [Model.trimPrefix, Model.hasPrefix, SpecRes.trimPrefix, Sq.isE, Sq.as, Spec.trimPrefix,
            Impl.arrayTrimPrefix_eq, Impl.arrayHasPrefix_eq, hb]

theorem trimSuffix_three_reprs (p subject : Sq) (h : consistent p subject = true) :
    (Model.trimSuffix p subject).norm = (SpecRes.trimSuffix p subject).norm := by
  obtain ⟨pk, pxs⟩ := p
  obtain ⟨sk, sxs⟩ := subject
  simp only [consistent, Sq.isE, Bool.or_eq_true, decide_eq_true_eq] at h
  cases sxs with
  | nil =>
    cases pxs <;>
      simp [Model.trimSuffix, SpecRes.trimSuffix, Sq.isE, Spec.trimSuffix, Spec.hasSuffix, Spec.hasPrefix, Res.norm]
  | cons x xs =>
    have hp : pxs = [] ∨ pk = sk := by simpa using h
    rcases hp with rfl | rfl
    · cases sk <;>
        simp [Model.trimSuffix, SpecRes.trimSuffix, Sq.isE, Sq.as, Spec.trimSuffix, Spec.hasSuffix, Spec.hasPrefix]
    · cases pk <;> cases pxs <;>
        simp [Model.trimSuffix, SpecRes.trimSuffix, Sq.isE, Sq.as, Impl.arrayTrimSuffix_eq,
          Spec.trimSuffix, Spec.hasSuffix, Spec.hasPrefix]

/-- repeat: strings and arrays (byte arrays are rejected by today's code: KF-seq-bytes-repeat) -/
theorem repeat_reprs_partial (n : Nat) (s : Sq) (h : s.kind ≠ .B ∨ s.isE = true) :
    (Model.repeat_ n s).norm = (SpecRes.repeat_ n s).norm := by
  obtain ⟨k, xs⟩ := s
  cases xs with
  | nil => simp [Model.repeat_, SpecRes.repeat_, Sq.isE, Spec.repeat_, Res.norm]
  | cons x xs =>
    cases k <;> simp_all [Model.repeat_, SpecRes.repeat_, Sq.isE, Impl.repeatLoop_eq]

/-- the full-strength statement that `repeat_reprs_partial` falls short of -/
def repeat_full : Prop := ∀ (n : Nat) (s : Sq), (Model.repeat_ n s).norm = (SpecRes.repeat_ n s).norm

/-- … and it is false of today's code: a byte array is rejected -/
theorem repeat_full_false : ¬ repeat_full := by
  intro h
  exact absurd (h 1 ⟨.B, [0]⟩) (by decide)

theorem join_reprs_partial (d : Sq) (k : Kind) (xss : List (List Nat)) (h : joinGood d k xss = true) :
    (Model.join d k xss).norm = (SpecRes.join d k xss).norm := by
  obtain ⟨dk, dxs⟩ := d
  cases xss with
  | nil => simp [Model.join, SpecRes.join, Spec.join, Res.norm]
  | cons x0 r =>
    simp only [joinGood, Sq.isE, Bool.and_eq_true, Bool.or_eq_true, decide_eq_true_eq] at h
    obtain ⟨hd, hk⟩ := h
    cases k with
    | A =>
      have : (Sq.mk dk dxs).as .A = true := by
        rcases hd with hd | hd <;> simp_all [Sq.as, Sq.isE]
      have h2 : ¬ (dxs.isEmpty = false ∧ dk = Kind.S) := by
        rintro ⟨h1, h2⟩; rcases hd with hd | hd <;> simp_all
      simp [Model.join, SpecRes.join, this, Impl.arrayJoin_eq, Sq.isE]
      split
      · rename_i hc
        obtain ⟨h1, h2'⟩ := hc
        rcases hd with hd | hd <;> simp_all
      · rfl
    | S =>
      have das : (Sq.mk dk dxs).as .S = true := by
        rcases hd with hd | hd <;> simp_all [Sq.as, Sq.isE]
      cases x0 with
      | cons a x0 => simp [Model.join, SpecRes.join, das]
      | nil =>
        simp only [List.head?_cons, Option.map_some, List.isEmpty_nil, Option.getD_some,
          Bool.true_and, Bool.not_eq_true', Bool.and_eq_false_iff, Bool.not_eq_false'] at hk
        rcases hk with hk | hk
        · -- the joiner is a non-empty string
          have hne : dxs.isEmpty = false := by simpa using hk
          have hdk : dk = .S := by rcases hd with hd | hd <;> simp_all
          subst hdk
          simp [Model.join, SpecRes.join, Sq.isE, hne]
        · -- every element is empty: the result is empty whatever the path
          have hall : (([] : List Nat) :: r).all (·.isEmpty) = true := by simpa using hk
          by_cases hne : dxs.isEmpty = true
          · have : dxs = [] := by simpa using hne
            subst this
            simp only [List.all_cons, List.isEmpty_nil, Bool.true_and] at hall
            have hj : ∀ (r : List (List Nat)), r.all (·.isEmpty) = true → Spec.join ([] : List Nat) ([] :: r) = [] := by
              intro r
              induction r with
              | nil => intro _; rfl
              | cons y r ih =>
                intro h
                simp only [List.all_cons, Bool.and_eq_true, List.isEmpty_iff] at h
                obtain ⟨rfl, h⟩ := h
                simp [Spec.join, ih h]
            simp [Model.join, SpecRes.join, Sq.isE, Sq.as, hall, Impl.arrayJoin_eq, hj r hall, Res.norm]
          · have hne' : dxs.isEmpty = false := by simpa using hne
            have hdk : dk = .S := by rcases hd with hd | hd <;> simp_all
            subst hdk
            simp [Model.join, SpecRes.join, Sq.isE, hne']
    | B =>
      -- byte-array elements: only the all-empty case is admitted
      have hall : (x0 :: r).all (·.isEmpty) = true := by simp at hk; simpa using hk.1
      have hx0 : x0 = [] := by simp at hall; exact hall.1
      subst hx0
      have hj : ∀ (d : List Nat) (r : List (List Nat)), d = [] → r.all (·.isEmpty) = true →
          Spec.join d ([] :: r) = [] := by
        intro d r hd0
        subst hd0
        induction r with
        | nil => intro _; rfl
        | cons y r ih =>
          intro h
          simp only [List.all_cons, Bool.and_eq_true, List.isEmpty_iff] at h
          obtain ⟨rfl, h⟩ := h
          simp [Spec.join, ih h]
      have hdE : dxs = [] := by simp at hk; exact hk.2
      subst hdE
      simp only [List.all_cons, List.isEmpty_nil, Bool.true_and] at hall
      simp [Model.join, SpecRes.join, Sq.isE, Sq.as, hall, Impl.arrayJoin_eq, hj [] r rfl hall, Res.norm]

theorem concat_three_reprs (k : Kind) (xss : List (List Nat)) :
    (Model.concat k xss).norm = (SpecRes.concat k xss).norm := by
  cases xss <;> simp [Model.concat, SpecRes.concat, Spec.concat, Res.norm]

/-- non-vacuity: kind-consistent, non-trivial arguments exist for every representation -/
example : consistent ⟨.A, [1, 1, 2]⟩ ⟨.A, [1, 1, 1, 2]⟩ = true ∧ consistent ⟨.S, [0]⟩ ⟨.S, [1, 0]⟩ = true
    ∧ consistent ⟨.B, []⟩ ⟨.B, [1]⟩ = true ∧ joinGood ⟨.A, [0]⟩ .A [[1], [2]] = true := by decide

end Arrai.C14.Theorems
