/-
  C08 — documented source-level equivalences preserve meaning (property theorems only).
-/
import Arrai.C08.Model
import Arrai.C08.Expected
import Arrai.Facts.Generated

namespace Arrai.C08.Theorems
open Arrai.C08

/-- layer 2 obligation: the precedence tower regenerated from syntax/arrai.wbnf is the documented one -/
theorem precLevels_regenerated : Arrai.Facts.Generated.precLevels = Expected.precLevels := by decide

end Arrai.C08.Theorems
