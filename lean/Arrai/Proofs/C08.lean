/-
  C08 — documented source-level equivalences preserve meaning.

  Property theorems only (definitions and lemmas: Arrai/C08/{Model,Lemmas,Rewrite}.lean).

  Layer 1 (proved here).  `SameResult r₁ r₂` = "if both evaluations return (neither ran out of its
  closure-call budget) they return the same thing": equal data values, related closures (bodies and
  captured scopes related by the same rewrites), both an error, or both outside the model.
  `rewrite_inert` is the master statement: two programs related by `AR` — the congruence closure of the
  documented rewrites, so the rewrites may be applied at any positions, any number of them at once —
  have the same result, for every pair of budgets.  The named theorems are the single rewrites.
  Theorems are stated for `Spec.run` (the compiler that never fails at compile time) and transferred to
  `Impl.run` (today's compiler) under the decidable hypothesis that compile-time folding of literal
  collections did not fail (`Impl.compile a = Spec.compile a`); `fold_inert_full_false` shows that the
  hypothesis cannot be dropped (known finding KF-fold-unselected).

  Layer 2 (facts, not proof of the parser): `precLevels_regenerated`.
-/
import Arrai.C08.Rewrite
import Arrai.C08.Sugar
import Arrai.C08.Expected
import Arrai.Facts.Generated

namespace Arrai.C08.Theorems
open Arrai.C08 Arrai.C08.Impl

/-- both evaluations returned ⇒ same value / both failed (`oof` on either side relates to everything) -/
abbrev SameResult (r₁ r₂ : Res Val) : Prop := ResR ValR r₁ r₂

/-- `SameResult` is what the harness observes: equal canonical text whenever both sides return -/
theorem sameResult_observable {r₁ r₂ : Res Val} (h : SameResult r₁ r₂) (h₁ : r₁ ≠ .oof) (h₂ : r₂ ≠ .oof) :
    r₁.obs = r₂.obs := obs_eq_of_rel h h₁ h₂

/-- data results are literally equal -/
theorem sameResult_data {v : V} {r : Res Val} (h : SameResult (.ok (.data v)) r) (hr : r ≠ .oof) :
    r = .ok (.data v) := by
  cases r <;> simp_all [SameResult]
  exact h.data_left

/-! ### the master theorem -/

/-- rewriting a program by the documented equivalences, at any positions, never changes its value or
whether it fails -/
theorem rewrite_inert {a a' : Ast} (h : AR .expr [] a a') (n m : Nat) :
    SameResult (Spec.run n a) (Spec.run m a') :=
  sim_closed (compile_rel h true) n m

/-- … and the same in any pair of related environments, for the unfolded or the folded left program -/
theorem rewrite_inert_env {σ : Sub} {a a' : Ast} (h : AR .expr σ a a') (fo : Bool) (n m : Nat)
    {envL envR : Env} (henv : EnvR σ envL envR) :
    SameResult (eval n (compileG fo false a) envL) (eval m (compileG true false a') envR) :=
  sim n (compile_rel h fo) m envL envR henv

/-- every program is related to itself (so `AR` contains every context around a rewrite) -/
theorem rewrite_refl (a : Ast) : AR .expr [] a a := (AR.refl a).1

/-! ### let / arrow / call -/

/-- `let p = e; b` and `e -> \p b` compile to the same expression -/
theorem let_is_arrow (fo po : Bool) (p : Pat) (e b : Ast) :
    compileG fo po (.let_ p e b) = compileG fo po (.opFn .arrow e p b) := rfl

/-- `let p = e; b`  =  `e -> \p b`  =  `(\p b)(e)` -/
theorem let_arrow_call (p : Pat) (e b : Ast) (n m : Nat) :
    SameResult (Spec.run n (.let_ p e b)) (Spec.run m (.opFn .arrow e p b)) ∧
    SameResult (Spec.run n (.call (.fn p b) e)) (Spec.run m (.opFn .arrow e p b)) ∧
    SameResult (Spec.run n (.let_ p e b)) (Spec.run m (.call (.fn p b) e)) :=
  ⟨rewrite_inert (AR.letL (rewrite_refl _)) n m,
   rewrite_inert (AR.callArrow (rewrite_refl e) (by rw [Sub.erase_nil]; exact rewrite_refl b)) n m,
   rewrite_inert (AR.letL (AR.arrowCall (rewrite_refl e) (by rw [Sub.erase_nil]; exact rewrite_refl b))) n m⟩

/-! ### sugared literals and constructors = their spelled-out sets of tuples -/

/-- `[e₀, e₁, …]` = `{(@: 0, @item: e₀), (@: 1, @item: e₁), …}` for arbitrary element expressions
(same value, same failure) -/
theorem sugar_desugar_array (c : Caller) (env : Env) (es : List Expr) :
    evalE c (.coll .arr (elems es)) env = evalE c (.coll .set (spelled "@item" (indexed es 0))) env :=
  sugar_array_eval c env es

/-- `{k₀: v₀, …}` = `{(@: k₀, @value: v₀), …}` whenever the dict can be built (no repeated key) -/
theorem sugar_desugar_dict (c : Caller) (env : Env) (kvs : List (Expr × Expr))
    (hk : ∀ kv ∈ kvs, isNil kv.1 = false) (r : Val)
    (hr : evalE c (.coll .dict (entriesE kvs)) env = .ok r) :
    evalE c (.coll .set (spelled "@value" kvs)) env = .ok r :=
  sugar_dict_eval c env kvs hk r hr

/-- a string literal = its spelled-out set of `(@: i, @char: c)` tuples = `Lit.den` of the literal -/
theorem sugar_desugar_string (c : Caller) (env : Env) (cs : List Nat) :
    evalE c (.coll .set (spelled "@char" (indexed (cs.map fun ch => .lit (.num (Int.ofNat ch))) 0))) env =
      evalE c (compile (.str cs)) env ∧
    evalE c (compile (.str cs)) env = .ok (.data (Lit.den (.str 0 cs))) := by
  refine ⟨?_, rfl⟩
  rw [sugar_string_eval]; rfl

/-- `true` = `{()}` and `false` = `{}` (the compiler produces the same literal) -/
theorem sugar_desugar_bool :
    compile .tt = compile (.coll .set (.cons "" .nil (.coll .tup .nil) .nil)) ∧
    compile .ff = compile (.coll .set .nil) ∧
    compile .tt = .lit (Lit.den .tt) ∧ compile .ff = .lit (Lit.den .ff) := by decide

/-- a relation literal `{|n₁, n₂, …| (c₁, c₂, …), …}` is the set of its rows as tuples -/
theorem sugar_desugar_rel (c : Caller) (env : Env) (rows : Expr) :
    evalE c (.coll .rel rows) env = evalE c (.coll .set rows) env := rel_is_set_eval c env rows

/-- … and neither the order in which a tuple's attributes are written nor the order of a relation's heading
matters: `(nm: v, @: k)` = `(@: k, nm: v)` and `{|@, nm| (k, v), …}` = `{|nm, @| (v, k), …}` (`Lit.den`) -/
theorem sugar_desugar_heading_order (nm : String) (h : "@" < nm) :
    (∀ (c : Caller) (env : Env) (k v : Expr) (r : Val), evalE c (tupleOf nm k v) env = .ok r →
      evalE c (.coll .tup (.cons nm .nil v (.cons "@" .nil k .nil))) env = .ok r) ∧
    (∀ rows : List (Lit × Lit),
      Lit.den (.rel ["@", nm] (rows.map fun r => [r.1, r.2])) = Lit.den (.rel [nm, "@"] (rows.map fun r => [r.2, r.1]))) :=
  ⟨fun c env k v r hr => tuple_attr_order_eval c env nm h k v r hr, rel_heading_order_den nm h⟩

/-- instances: `@item`, `@char`, `@value`, `@byte` -/
example : "@" < "@item" ∧ "@" < "@char" ∧ "@" < "@value" ∧ "@" < "@byte" := by decide

/-! ### the default binder -/

/-- `lhs op f` (f not a function literal) is `lhs op \. f` -/
theorem default_binder (op : ArrOp) (l f : Ast) (hf : isFnA f = false) (n m : Nat) :
    compile (.opDot op l f) = compile (.opFn op l (.ident ".") f) ∧
    SameResult (Spec.run n (.opDot op l f)) (Spec.run m (.opFn op l (.ident ".") f)) :=
  ⟨compile_opDot_dot hf, rewrite_inert (AR.dotL hf (rewrite_refl _)) n m⟩

/-! ### parentheses -/

/-- redundant parentheses are inert -/
theorem paren_inert (a : Ast) (n m : Nat) : SameResult (Spec.run n (.paren a)) (Spec.run m a) :=
  rewrite_inert (AR.parenL (rewrite_refl a)) n m

/-- … also around a function literal that is the right operand of `->`, `=>`, `>>`, `where`, `orderby`
(the repaired `ExprAsFunction`) -/
theorem paren_fn_operand (op : ArrOp) (l : Ast) (p : Pat) (b : Ast) (n m : Nat) :
    SameResult (Spec.run n (.opDot op l (.paren (.fn p b)))) (Spec.run m (.opFn op l p b)) :=
  rewrite_inert (AR.dotFnL (f := .paren (.fn p b)) rfl (rewrite_refl _)) n m

/-! ### constant folding -/

/-- folding literal collections while compiling changes neither the value nor the error behaviour — for
the compiler that keeps the unfolded expression when folding fails -/
theorem fold_inert (a : Ast) (n m : Nat) :
    SameResult (eval n (compileG false false a) []) (Spec.run m a) :=
  sim_closed (compile_rel (rewrite_refl a) false) n m

/-- the compiler without compile-time failure never produces a compile-time failure -/
theorem spec_unpoisoned (fo : Bool) (a : Ast) : poisoned (compileG fo false a) = false := by
  induction a with
  | coll k items ih =>
    cases fo with
    | false => rw [compileG_coll_false]; simpa [poisoned] using ih
    | true =>
      rw [compileG_coll_true]
      rcases foldColl_false_cases k (compileG true false items) with ⟨es, v, _, _, h⟩ | h <;> rw [h]
      · rfl
      · simpa [poisoned] using ih
  | opDot op l f ihl ihf => simp [compileG, poisoned, ihl, poisoned_asFunction, ihf]
  | _ => simp_all [compileG, poisoned]

/-- the hypothesis of the partial theorems is exactly the class predicate the generator uses: today's
compiler agrees with the never-failing compiler iff it raises no compile-time failure -/
theorem compile_agree_iff (a : Ast) : Impl.compile a = Spec.compile a ↔ poisoned (Impl.compile a) = false :=
  ⟨fun h => by rw [h]; exact spec_unpoisoned true a, compile_eq_of_unpoisoned a⟩

/-- today's compiler agrees with the specification wherever its compile-time folding does not fail -/
theorem impl_run_eq_spec {a : Ast} (h : Impl.compile a = Spec.compile a) (n : Nat) :
    Impl.run n a = Spec.run n a := by
  unfold Impl.run Spec.run
  rw [h]
  simp [Spec.compile, spec_unpoisoned]

/-- `fold_inert` for today's compiler, where its compile-time folding does not fail -/
theorem fold_inert_partial (a : Ast) (h : Impl.compile a = Spec.compile a) (n m : Nat) :
    SameResult (eval n (compileG false false a) []) (Impl.run m a) := by
  rw [impl_run_eq_spec h]; exact fold_inert a n m

/-- the same transfer for every rewrite -/
theorem rewrite_inert_partial {a a' : Ast} (h : AR .expr [] a a')
    (ha : Impl.compile a = Spec.compile a) (ha' : Impl.compile a' = Spec.compile a') (n m : Nat) :
    SameResult (Impl.run n a) (Impl.run m a') := by
  rw [impl_run_eq_spec ha, impl_run_eq_spec ha']; exact rewrite_inert h n m

/-- full-strength statement for today's compiler -/
def fold_inert_full : Prop :=
  ∀ (a : Ast) (n m : Nat), SameResult (eval n (compileG false false a) []) (Impl.run m a)

/-- `cond {false: {1: 2, 1: 3}, _: 0}`: unfolded it is `0`; today's compiler fails on it (KF-fold-unselected) -/
def foldWitness : Ast :=
  .cond (.cons "" .ff (.coll .dict (.cons "" (.num 1) (.num 2) (.cons "" (.num 1) (.num 3) .nil)))
    (.cons "" (.ident "_") (.num 0) .nil))

theorem fold_inert_full_false : ¬ fold_inert_full := by
  intro h
  have := h foldWitness 0 0
  have h1 : eval 0 (compileG false false foldWitness) [] = .ok (.data (.num 0)) := rfl
  have h2 : Impl.run 0 foldWitness = .err := rfl
  rw [h1, h2] at this
  simp [SameResult] at this

/-- the hypothesis of the partial theorems is satisfiable by a non-trivial program -/
example : Impl.compile (.coll .dict (.cons "" (.num 1) (.num 2) (.cons "" (.num 2) (.num 3) .nil)))
    = Spec.compile (.coll .dict (.cons "" (.num 1) (.num 2) (.cons "" (.num 2) (.num 3) .nil))) := by decide

/-! ### substitution -/

/-- replacing a let-bound name by its (atomic literal) value, capture-avoiding, is inert -/
theorem subst_inert (x : String) (lv : Ast) (v : V) (b : Ast) (hl : leafLit lv = some v) (hx : x ≠ "_")
    (hb : isUnderscoreA (substA x lv b) = false) (n m : Nat) :
    SameResult (Spec.run n (.let_ (.ident x) lv b)) (Spec.run m (substA x lv b)) :=
  rewrite_inert (AR.letSubst hl hx hb (by rw [Sub.erase_nil]; exact (substA_rel x hl hx b).1)) n m

/-- the hypotheses of `subst_inert` are satisfiable: `let x = 1; x + (let x = 5; x)` ↦ `1 + (let x = 5; x)` -/
example : leafLit (.num 1) = some (.num 1) ∧ "x" ≠ "_" ∧
    substA "x" (.num 1) (.bin .add (.ident "x") (.let_ (.ident "x") (.num 5) (.ident "x"))) =
      .bin .add (.num 1) (.let_ (.ident "x") (.num 5) (.ident "x")) ∧
    isUnderscoreA (substA "x" (.num 1) (.bin .add (.ident "x") (.let_ (.ident "x") (.num 5) (.ident "x")))) = false := by
  decide

/-! ### cond / && / || evaluate only the branches they select -/

/-- `&&` and `||` return an OPERAND, not a boolean: `a && b` is `a` when `a` is false-like and `b` otherwise;
`a || b` is `a` when `a` is true-like and `b` otherwise; `a` is always evaluated (so it is never dropped,
whatever `b` is - e.g. a literal) -/
theorem and_or_value (c : Caller) (a b : Expr) (env : Env) :
    evalE c (.and_ a b) env = (evalE c a env >>= fun va => if isTrue va then evalE c b env else .ok va) ∧
    evalE c (.or_ a b) env = (evalE c a env >>= fun va => if isTrue va then .ok va else evalE c b env) ∧
    (∀ r, r ≠ .oof → (∀ v, r ≠ .ok v) → evalE c a env = r → evalE c (.and_ a b) env = r ∧ evalE c (.or_ a b) env = r) := by
  refine ⟨by simp [evalE], by simp [evalE], ?_⟩
  intro r _ hv h
  cases r with
  | ok v => exact absurd rfl (hv v)
  | _ => simp [evalE, h]

/-- `a && b` with `a` false: `b` is not evaluated -/
theorem and_short_circuit (c : Caller) (a b b' : Expr) (env : Env) (va : Val)
    (ha : evalE c a env = .ok va) (hf : isTrue va = false) :
    evalE c (.and_ a b) env = .ok va ∧ evalE c (.and_ a b) env = evalE c (.and_ a b') env := by
  simp [evalE, ha, hf]

/-- `a || b` with `a` true: `b` is not evaluated -/
theorem or_short_circuit (c : Caller) (a b b' : Expr) (env : Env) (va : Val)
    (ha : evalE c a env = .ok va) (ht : isTrue va = true) :
    evalE c (.or_ a b) env = .ok va ∧ evalE c (.or_ a b) env = evalE c (.or_ a b') env := by
  simp [evalE, ha, ht]

/-- `cond`: the value of an entry whose condition is false is not evaluated -/
theorem cond_skips_false (c : Caller) (n n' : String) (k x x' rest : Expr) (env : Env) (vk : Val)
    (hu : isUnderscore k = false) (hk : evalE c k env = .ok vk) (hf : isTrue vk = false) :
    evalE c (.cond (.cons n k x rest)) env = evalE c (.cond rest) env ∧
    evalE c (.cond (.cons n k x rest)) env = evalE c (.cond (.cons n' k x' rest)) env := by
  simp [evalE, evalCond, hu, hk, hf]

/-- `cond`: after the selected entry nothing is evaluated -/
theorem cond_stops_at_true (c : Caller) (n n' : String) (k x rest rest' : Expr) (env : Env) (vk : Val)
    (hu : isUnderscore k = false) (hk : evalE c k env = .ok vk) (ht : isTrue vk = true) :
    evalE c (.cond (.cons n k x rest)) env = evalE c x env ∧
    evalE c (.cond (.cons n k x rest)) env = evalE c (.cond (.cons n' k x rest')) env := by
  simp [evalE, evalCond, hu, hk, ht]

/-- the same at any position of a program, for literal guards: the unselected branch (`b`, `x`, the entries
after the selected one) may be replaced by anything, including a failing term -/
theorem short_circuit {g : Ast} {v : V} (hg : leafLit g = some v) (b b' x r r' : Ast) (n m : Nat) :
    (Impl.isTrue (Val.data v) = false → SameResult (Spec.run n (.and_ g b)) (Spec.run m (.and_ g b'))) ∧
    (Impl.isTrue (Val.data v) = true → SameResult (Spec.run n (.or_ g b)) (Spec.run m (.or_ g b'))) ∧
    (Impl.isTrue (Val.data v) = false → SameResult (Spec.run n (.cond (.cons "" g b r))) (Spec.run m (.cond (.cons "" g b' r)))) ∧
    (Impl.isTrue (Val.data v) = true → SameResult (Spec.run n (.cond (.cons "" g x r))) (Spec.run m (.cond (.cons "" g x r')))) :=
  ⟨fun h => rewrite_inert (AR.andDead b b' hg h) n m,
   fun h => rewrite_inert (AR.orDead b b' hg h) n m,
   fun h => rewrite_inert (AR.cond (AR.condDead "" "" b b' hg h (AR.refl r).2.2.1)) n m,
   fun h => rewrite_inert (AR.cond (AR.condTaken "" "" r r' hg h (rewrite_refl x))) n m⟩

/-- the hypotheses of `short_circuit` are satisfiable (`false && …`, `1 || …`) -/
example : leafLit .ff = some V.none ∧ Impl.isTrue (Val.data V.none) = false ∧
    leafLit (.num 1) = some (.num 1) ∧ Impl.isTrue (Val.data (.num 1)) = true := by decide

/-! ### lexical scope -/

/-- a closure sees the bindings at its creation: re-binding a captured name before the call is invisible.
`let x = u; let f = \y b; let x = w; f(d)`  =  `let x = u; let f = \y b; f(d)` (exactly, for every budget) -/
theorem lexical_scope (fo po : Bool) (x f y : String) (u w d : Ast) (vu vw vd : V) (b : Ast)
    (hu : leafLit u = some vu) (hw : leafLit w = some vw) (hd : leafLit d = some vd)
    (hfx : f ≠ x) (hx : x ≠ "_") (hf : f ≠ "_") (n : Nat) (env : Env) :
    eval n (compileG fo po (.let_ (.ident x) u (.let_ (.ident f) (.fn (.ident y) b)
      (.let_ (.ident x) w (.call (.ident f) d))))) env =
    eval n (compileG fo po (.let_ (.ident x) u (.let_ (.ident f) (.fn (.ident y) b) (.call (.ident f) d)))) env := by
  simp [eval, compileG, compile_leaf hu, compile_leaf hw, compile_leaf hd, evalE, Impl.bind, lookup, hfx, hx, hf]

/-- the documented instance: `let x = 1; let f = \y x + y; let x = 10; f(1)` is `2` -/
theorem lexical_scope_example :
    Impl.run 1 (.let_ (.ident "x") (.num 1) (.let_ (.ident "f")
      (.fn (.ident "y") (.bin .add (.ident "x") (.ident "y")))
      (.let_ (.ident "x") (.num 10) (.call (.ident "f") (.num 1))))) = .ok (.data (.num 2)) := rfl

/-- a name bound to a bare identifier is bound to that identifier's VALUE at the binding (not to the
identifier): `let x = u; let y = x; let x = w; y`, `let x = u; x -> \y let x = w; y` and
`let x = u; (\y let x = w; y)(x)` all are `u`, for every budget that lets the call happen -/
theorem alias_binds_value (fo po : Bool) (x y : String) (u w : Ast) (vu vw : V)
    (hu : leafLit u = some vu) (hw : leafLit w = some vw) (hxy : y ≠ x) (hx : x ≠ "_") (hy : y ≠ "_")
    (n : Nat) (env : Env) :
    eval n (compileG fo po (.let_ (.ident x) u (.let_ (.ident y) (.ident x) (.let_ (.ident x) w (.ident y))))) env
      = .ok (.data vu) ∧
    eval n (compileG fo po (.let_ (.ident x) u (.opFn .arrow (.ident x) (.ident y) (.let_ (.ident x) w (.ident y))))) env
      = .ok (.data vu) ∧
    eval (n + 1) (compileG fo po (.let_ (.ident x) u (.call (.fn (.ident y) (.let_ (.ident x) w (.ident y))) (.ident x)))) env
      = .ok (.data vu) := by
  simp [eval, compileG, compile_leaf hu, compile_leaf hw, evalE, Impl.bind, lookup, callAt, hxy, hx, hy]

/-- an inner default binder wins over an outer one: `{3, 1, 2} -> ((.) orderby -.)` is `[3, 2, 1]` and
`{{3, 1, 2}} => ((.) orderby -.)` is `{[3, 2, 1]}` -/
theorem nested_default_binder_example :
    Impl.run 0 (.opDot .arrow (.coll .set (.cons "" .nil (.num 3) (.cons "" .nil (.num 1) (.cons "" .nil (.num 2) .nil))))
      (.opDot .orderby (.ident ".") (.neg (.ident ".")))) = .ok (.data (V.mkArr [.num 3, .num 2, .num 1])) ∧
    Impl.run 0 (.opDot .darrow (.coll .set (.cons "" .nil
        (.coll .set (.cons "" .nil (.num 3) (.cons "" .nil (.num 1) (.cons "" .nil (.num 2) .nil)))) .nil))
      (.opDot .orderby (.ident ".") (.neg (.ident ".")))) = .ok (.data (V.mkSet [V.mkArr [.num 3, .num 2, .num 1]])) :=
  ⟨rfl, rfl⟩

/-- `Value.Negate` as the model pins it: a number is negated arithmetically, `(@neg: x)` is `x`, a set `s` becomes
`(@neg: s)`; so `-` is not an involution on `(@neg: n)`: `let w = (@neg: 2); - -w` is `-2` (= `-(-w)`), not `w` -/
theorem negate_semantics (n : Int) (x : V) (xs : List V) :
    negV (.data (.num n)) = mkNum (-n) ∧
    negV (.data (.tup [("@neg", x)])) = .ok (.data x) ∧
    negV (.data (.set xs)) = .ok (.data (.tup [("@neg", .set xs)])) ∧
    Impl.run 0 (.let_ (.ident "w") (.coll .tup (.cons "@neg" .nil (.num 2) .nil)) (.neg (.neg (.ident "w"))))
      = .ok (.data (.num (-2))) ∧
    Impl.run 0 (.let_ (.ident "w") (.coll .tup (.cons "@neg" .nil (.num 2) .nil)) (.neg (.paren (.neg (.ident "w")))))
      = .ok (.data (.num (-2))) :=
  ⟨rfl, rfl, rfl, rfl, rfl⟩

/-! ### layer 2: the precedence tower is the documented one -/

/-- the `>`-separated alternatives of rule `expr` regenerated from syntax/arrai.wbnf are the documented
precedence levels (the printers `Ast.toSource`/`toSourceFull` take their level numbers from this table) -/
theorem precLevels_regenerated : Arrai.Facts.Generated.precLevels = Expected.precLevels := by decide

/-- the level numbers the printers use -/
theorem precLevels_numbers :
    Expected.lvArrow = 0 ∧ Expected.lvOr = 4 ∧ Expected.lvAnd = 5 ∧ Expected.lvCompare = 7 ∧ Expected.lvAdd = 9 ∧
    Expected.lvMul = 11 ∧ Expected.lvPow = 12 ∧ Expected.lvUnary = 13 ∧ Expected.lvTail = 15 ∧ Expected.lvAtom = 16 := by
  decide

end Arrai.C08.Theorems
