/-
  C16 — local imports stay inside the module, are consistent, and cycles fail fast.

  Property theorems only (helpers: Arrai/C16/Lemmas.lean, Arrai/C16/CacheLemmas.lean).
  Part 1: confinement — for ALL path strings, working directories, source directories and file systems,
          the file a local import reads lies beneath the module root (or the source directory).
  Part 2: consistency — the resolved file name is a canonical spelling, so one file has one cache key.
  Part 3: the import cache — compilation terminates for every import graph, the cache is transparent,
          acyclic graphs compile to their unfolding, a reachable cycle is reported as `importCycle`.
  Part 4: what was wrong before the repairs (witnesses).
-/
import Arrai.C16.Lemmas
import Arrai.C16.CacheLemmas

namespace Arrai.C16.Theorems
open Arrai.C16 Impl Impl.Strs Impl.Path Impl.Cache Spec

/-! ### Part 1 — confinement -/

/-- cleaning a path string does not change the file it denotes (ties `path.Clean` to `comps`) -/
theorem clean_same_file (cwd z : Str) : comps cwd (clean z) = comps cwd z := comps_clean cwd z

/-- `strings.ReplaceAll(p, "../", "")` is the three-rune scan used in the proofs -/
theorem replaceAll_is_scan (s : Str) : replaceAll s ['.', '.', '/'] [] = removeDDS s := replaceAll_dds s

/-- `//{./p}`: the file read is the source directory followed by Normal components only
(no "..", no ".", no empty component) -/
theorem dot_import_under_source_dir (w : World) (srcDir raw f : Str)
    (h : resolve w srcDir true raw = .ok f) :
    ∃ ns, ns ≠ [] ∧ (∀ c ∈ ns, Normal c) ∧ comps w.cwd f = comps w.cwd srcDir ++ ns := by
  obtain ⟨_, ns, hne, hn, _, hc⟩ := resolve_dot w srcDir raw f h
  exact ⟨ns, hne, hn, hc⟩

/-- `//{/p}`: the file read is the module root followed by Normal components only -/
theorem root_import_under_root (w : World) (srcDir raw f : Str)
    (h : resolve w srcDir false raw = .ok f) :
    ∃ root ns, findRoot w srcDir = some root ∧ ns ≠ [] ∧ (∀ c ∈ ns, Normal c) ∧ comps w.cwd f = root ++ ns := by
  obtain ⟨root, ms, hr, hne, hn, _, hc⟩ := resolve_root w srcDir raw f h
  exact ⟨root, ms, hr, hne, hn, hc⟩

/-- the module root found by `findRootFromModule` is an ancestor of the source directory -/
theorem root_above_source_dir (w : World) (srcDir : Str) (root : List Str) (h : findRoot w srcDir = some root) :
    Under root (comps w.cwd srcDir) := findRoot_prefix w srcDir root h

/-- **confined**: whatever the import path string, a local import that resolves reads a file beneath
the importing script's module root -/
theorem confined (w : World) (srcDir raw f : Str) (dot : Bool) (root : List Str)
    (h : resolve w srcDir dot raw = .ok f) (hroot : findRoot w srcDir = some root) :
    Under root (comps w.cwd f) := by
  cases dot with
  | true =>
    obtain ⟨ns, _, _, hc⟩ := dot_import_under_source_dir w srcDir raw f h
    rw [hc]
    exact List.IsPrefix.trans (findRoot_prefix w srcDir root hroot) (List.prefix_append _ _)
  | false =>
    obtain ⟨root', ns, hr, _, _, hc⟩ := root_import_under_root w srcDir raw f h
    rw [hroot] at hr
    injection hr with hr
    subst hr
    rw [hc]
    exact List.prefix_append _ _

/-- **confined_nomod**: without a module, a local import that resolves reads beneath the source directory -/
theorem confined_nomod (w : World) (srcDir raw f : Str) (dot : Bool)
    (h : resolve w srcDir dot raw = .ok f) (hroot : findRoot w srcDir = none) :
    Under (comps w.cwd srcDir) (comps w.cwd f) := by
  cases dot with
  | true =>
    obtain ⟨ns, _, _, hc⟩ := dot_import_under_source_dir w srcDir raw f h
    rw [hc]
    exact List.prefix_append _ _
  | false =>
    obtain ⟨root', ns, hr, _⟩ := root_import_under_root w srcDir raw f h
    rw [hroot] at hr
    cases hr

/-- the hypotheses of `confined` are satisfiable: a module at /m, script in /m/d (relative source
directory), import `//{./x/../ y }` -/
example :
    let w : World := { cwd := "/m".toList, files := [["m".toList, "go.mod".toList]] }
    (resolve w "d".toList true "/x/../ y \t".toList).toOption = some "d/ y.arrai".toList ∧
    findRoot w "d".toList = some ["m".toList] := by decide

/-- the factored form used by the bundle model (C15): what `//{./raw}` appends to the source directory
is a function of `raw` alone -/
theorem dot_import_factored (w : World) (srcDir raw f : Str) (h : resolve w srcDir true raw = .ok f) :
    ∃ ns, dotRel raw = .ok ns ∧ comps w.cwd f = comps w.cwd srcDir ++ ns := resolve_dot_rel w srcDir raw f h

/-- …and what `//{raw}` appends to the module root is a function of `raw` alone -/
theorem root_import_factored (w : World) (srcDir raw f : Str) (h : resolve w srcDir false raw = .ok f) :
    ∃ ms root, rootRel raw = .ok ms ∧ findRoot w srcDir = some root ∧ comps w.cwd f = root ++ ms :=
  resolve_root_rel w srcDir raw f h

/-! ### Part 2 — one file, one key -/

/-- the directories `findRootFromModule` stores in the root cache (every directory visited on the way
up) all have the root it found: the cache cannot change an answer -/
theorem root_cache_sound (w : World) (up : List Str) (r : List Str) (h : findRootUp w up = some r) :
    ∀ s, s <:+ up → r.length ≤ s.length → findRootUp w s = some r := by
  induction up with
  | nil =>
    intro s hs _
    have : s = [] := List.eq_nil_of_suffix_nil hs
    rw [this]; exact h
  | cons c up ih =>
    intro s hs hl
    rcases List.suffix_cons_iff.1 hs with rfl | hs'
    · exact h
    · simp only [findRootUp] at h
      split at h
      · injection h with h
        have hlen := List.IsSuffix.length_le hs'
        rw [← h] at hl
        simp at hl
        omega
      · exact ih h s hs' hl

/-- two `//{./…}` imports from the same source directory that denote the same file have the same key -/
theorem same_file_dot (w : World) (srcDir raw1 raw2 f1 f2 : Str)
    (h1 : resolve w srcDir true raw1 = .ok f1) (h2 : resolve w srcDir true raw2 = .ok f2)
    (hc : comps w.cwd f1 = comps w.cwd f2) : f1 = f2 := by
  obtain ⟨_, ns1, _, _, e1, c1⟩ := resolve_dot w srcDir raw1 f1 h1
  obtain ⟨_, ns2, _, _, e2, c2⟩ := resolve_dot w srcDir raw2 f2 h2
  rw [c1, c2] at hc
  have : ns1 = ns2 := List.append_cancel_left hc
  rw [e1, e2, this]

/-- with an absolute source directory the resolved file name is the canonical spelling of the file
it denotes (for `//{/…}`: when the module root is not the file-system root, where Go yields "//p") -/
theorem resolved_key_canonical (w : World) (srcDir raw f : Str) (dot : Bool)
    (habs : isAbs srcDir = true) (hroot : findRoot w srcDir ≠ some [])
    (h : resolve w srcDir dot raw = .ok f) : f = render true (comps w.cwd f) := by
  cases dot with
  | true =>
    obtain ⟨hsd, ns, hne, hn, e, c⟩ := resolve_dot w srcDir raw f h
    rw [c, e, clean_append_normal srcDir ns hsd hne hn, habs, comps_abs _ _ habs]
  | false =>
    obtain ⟨root, ms, hr, hne, hn, e, c⟩ := resolve_root w srcDir raw f h
    rw [c, e]
    have hrne : root ≠ [] := fun e => hroot (by rw [hr, e])
    simp only [render, if_true]
    rw [joinSlash_append root ms hrne hne]
    simp

/-- **same_file**: two spellings (from any importers with absolute source directories, `./` or `/`
form) that resolve to the same file get the same cache key — hence the same compiled expression -/
theorem same_file (w : World) (srcDir1 srcDir2 raw1 raw2 f1 f2 : Str) (dot1 dot2 : Bool)
    (ha1 : isAbs srcDir1 = true) (ha2 : isAbs srcDir2 = true)
    (hr1 : findRoot w srcDir1 ≠ some []) (hr2 : findRoot w srcDir2 ≠ some [])
    (h1 : resolve w srcDir1 dot1 raw1 = .ok f1) (h2 : resolve w srcDir2 dot2 raw2 = .ok f2)
    (hc : comps w.cwd f1 = comps w.cwd f2) : f1 = f2 := by
  rw [resolved_key_canonical w srcDir1 raw1 f1 dot1 ha1 hr1 h1,
    resolved_key_canonical w srcDir2 raw2 f2 dot2 ha2 hr2 h2, hc]

/-! ### Part 3 — the import cache: termination, transparency, cycles -/
section cache
variable {κ : Type} [DecidableEq κ]

/-- compiling terminates for EVERY import graph: it never waits for itself and never runs out of fuel -/
theorem terminates (g : Graph κ) (imps : List (Option κ)) :
    compileMain g imps ≠ .error .hang ∧ compileMain g imps ≠ .error .fuel :=
  ⟨(compileMain_spec g (fun _ => 0) imps).noHang, (compileMain_spec g (fun _ => 0) imps).noFuel⟩

/-- the cache is transparent: whatever is returned is the unfolding (the recursive definition), so the
same file reached by two routes has equal compiled forms -/
theorem cache_transparent (g : Graph κ) (imps : List (Option κ)) (ts : List (Tree κ))
    (h : compileMain g imps = .ok ts) : UnfoldsL g imps ts :=
  (compileMain_spec g (fun _ => 0) imps).sound ts h

/-- the only failures are a missing file and an import cycle -/
theorem failure_kinds (g : Graph κ) (imps : List (Option κ)) :
    (∃ ts, compileMain g imps = .ok ts) ∨ compileMain g imps = .error (.err .notFound) ∨
      compileMain g imps = .error (.err .importCycle) := by
  have hs := compileMain_spec g (fun _ => 0) imps
  cases h : compileMain g imps with
  | ok ts => exact Or.inl ⟨ts, rfl⟩
  | error f =>
    cases f with
    | hang => exact absurd h hs.noHang
    | fuel => exact absurd h hs.noFuel
    | err e =>
      rcases hs.kinds e h with rfl | rfl
      · exact Or.inr (Or.inl rfl)
      · exact Or.inr (Or.inr rfl)

/-- **acyclic_ok**: on an acyclic graph whose imports all exist, compilation succeeds and yields the
unfolding -/
theorem acyclic_ok (g : Graph κ) (rank : κ → Nat) (imps : List (Option κ))
    (hc : Closed g) (hr : Ranked g rank)
    (hm : ∀ o ∈ imps, ∃ k', o = some k' ∧ Graph.lookup g k' ≠ none) :
    ∃ ts, compileMain g imps = .ok ts ∧ UnfoldsL g imps ts := by
  have hs := compileMain_spec g rank imps
  rcases failure_kinds g imps with ⟨ts, h⟩ | h | h
  · exact ⟨ts, h, hs.sound ts h⟩
  · exact absurd h (hs.closed hc hm)
  · exact absurd h (hs.dag hr (by simp))

/-- **cycle_error**: if every import exists and an import cycle is reachable from the main script,
compilation reports `importCycle` (in particular it returns) -/
theorem cycle_error (g : Graph κ) (imps : List (Option κ))
    (hc : Closed g) (hm : ∀ o ∈ imps, ∃ k', o = some k' ∧ Graph.lookup g k' ≠ none)
    (k0 k k' : κ) (h0 : some k0 ∈ imps) (hreach : Reach g k0 k) (he : Edge g k k') (hback : Reach g k' k) :
    compileMain g imps = .error (.err .importCycle) := by
  have hs := compileMain_spec g (fun _ => 0) imps
  rcases failure_kinds g imps with ⟨ts, h⟩ | h | h
  · exfalso
    obtain ⟨t0, hu0, _⟩ := unfoldsL_mem g imps ts (hs.sound ts h) k0 h0
    obtain ⟨t, hu, _⟩ := unfolds_reach g k0 k hreach t0 hu0
    exact no_unfold_on_cycle g k k' he hback _ t rfl hu
  · exact absurd h (hs.closed hc hm)
  · exact h

end cache

/-- a decidable sufficient condition for `Closed` (used for the examples) -/
def closedB (g : Graph Nat) : Bool :=
  g.files.all (fun p => p.2.all (fun o => match o with
    | some k' => (Graph.lookup g k').isSome
    | none => false))

theorem closed_of_closedB (g : Graph Nat) (h : closedB g = true) : Closed g := by
  intro k imps hl o ho
  have hmem := (lookup_mem_keys g.files k imps hl).2
  simp only [closedB, List.all_eq_true] at h
  have := h (k, imps) hmem o ho
  cases o with
  | none => simp at this
  | some k' =>
    refine ⟨k', rfl, ?_⟩
    simp at this
    intro e
    rw [e] at this
    simp at this

/-- the hypotheses of `cycle_error` are satisfiable: main → 0 → 1 → 2 → 1 -/
example :
    let g : Graph Nat := ⟨[(0, [some 1]), (1, [some 2]), (2, [some 1])]⟩
    closedB g = true ∧ compileMain g [some 0] = .error (.err .importCycle) := ⟨by decide, rfl⟩

/-- a script that imports itself: reported, not waited for -/
theorem self_import_error : compileMain (⟨[(0, [some 0])]⟩ : Graph Nat) [some 0] = .error (.err .importCycle) := rfl

/-- a diamond compiles to its unfolding, the shared script compiled once and used twice -/
theorem diamond_ok :
    compileMain (⟨[(0, [some 1, some 2]), (1, [some 3]), (2, [some 3]), (3, [])]⟩ : Graph Nat) [some 0] =
      .ok [.node 0 [.node 1 [.node 3 []], .node 2 [.node 3 []]]] := rfl

/-! ### Part 4 — what was wrong before the repairs -/

/-- **confined_false_before_repair**: with the relative source directory "." of a script in the module
root /m, `//{./ ../secret}` resolved to "../secret.arrai", which is /secret.arrai — not under /m -/
theorem confined_false_before_repair :
    let w : World := { cwd := "/m".toList, files := [["m".toList, "go.mod".toList]] }
    (Unrepaired.resolve w ".".toList true "/ ../secret".toList).toOption = some "../secret.arrai".toList ∧
    findRoot w ".".toList = some ["m".toList] ∧
    ¬ Under ["m".toList] (comps w.cwd "../secret.arrai".toList) := by decide

/-- the repaired pipeline reads a file in a directory literally called " .." inside /m instead -/
theorem escape_repaired :
    let w : World := { cwd := "/m".toList, files := [["m".toList, "go.mod".toList]] }
    (resolve w ".".toList true "/ ../secret".toList).toOption = some " ../secret.arrai".toList ∧
    Under ["m".toList] (comps w.cwd " ../secret.arrai".toList) := by decide

/-- before the repair `//{./}` in /m/main.arrai read /m.arrai, a file next to the module root -/
theorem dir_import_before_repair :
    let w : World := { cwd := "/".toList, files := [["m".toList, "go.mod".toList]] }
    (Unrepaired.resolve w "/m".toList true "/".toList).toOption = some "/m.arrai".toList ∧
    findRoot w "/m".toList = some ["m".toList] ∧
    ¬ Under ["m".toList] (comps w.cwd "/m.arrai".toList) ∧
    (resolve w "/m".toList true "/".toList).toOption = none := by decide

/-- before the repair a script importing itself made `getOrAdd` wait for its own entry -/
theorem hang_before_repair : compileMainU (⟨[(0, [some 0])]⟩ : Graph Nat) [some 0] = .error .hang := rfl

end Arrai.C16.Theorems
