/-
  C03 — values are immutable: deriving new values never changes existing ones.

  Property theorems only (helper lemmas: Arrai/C03/Lemmas.lean; heap of Go backing arrays:
  Arrai/C03/Heap.lean; transliterated operations: Arrai/C03/Model.lean).

  The model runs HISTORIES: lists of operations, each naming earlier values as operands, so the
  same parent may be extended several times in different ways (branching).  Values are slice
  headers into a heap of backing arrays; `append` writes in place when `len < cap` and otherwise
  moves to a fresh array whose capacity an ORACLE chooses — every theorem is for all oracles, so
  none depends on Go's growth policy.

  Part 1: one step (`step_frame`, `step_writes_only_fresh`).
  Part 2: all histories (`C03_history`, `C03_let`, `C03_heap_prefix`).
  Part 3: the code as found (`append(s.s, c)`) violates all of this — concrete histories.
  Part 4: what the repaired `with` computes (the copy really is a copy of the old contents).
  Part 5: the write sites of rel/ and syntax/std_seq*.go are the ones this model was written against, and the
          callees they rely on still return slices of their own.
  Part 7: in-bounds well-formedness of every slice of every value (sequences and relations).
  Part 9: refinement — with / without / offset / builder-made results denote what `Spec` says.
  Part 8: nested payloads — why array items may be held as denotations (reference-following view, reduction theorem).
  Part 6: relations — headings (NamesSlice) and rows (Values) are slices too: the same theorems for histories of
          joins (all eight operators, on results of earlier joins), with/without/where/|/nest/unnest/rank/=>.
-/
import Arrai.C03.Lemmas
import Arrai.C03.RelLemmas
import Arrai.C03.WF
import Arrai.C03.RelWF
import Arrai.C03.Nested
import Arrai.C03.RefineOps
import Arrai.C03.RefineSeq
import Arrai.C03.Expected
import Arrai.Facts.Generated

namespace Arrai.C03.Theorems
open Arrai.C03 Arrai.C03.Impl Arrai.C03.Rel

/-! ### Part 1 — one operation -/

/-- Ownership invariant `Inv`: every value created so far has its slice inside the heap.
One (repaired) operation keeps it, and leaves the snapshot — the denotation read through the heap —
of EVERY value created so far unchanged, whatever capacities the runtime chooses. -/
theorem step_frame (orc : Oracle) (st : St) (inv : Inv st) (op : Op) :
    Inv (step true orc st op) ∧ ∀ x, x ∈ st.vals → snap (step true orc st op).h x = snap st.h x := by
  have ok := opOK_run1 orc st inv op
  constructor
  · intro x hx
    simp only [step, List.mem_append, List.mem_singleton] at hx
    rcases hx with hx | rfl
    · exact (inv x hx).mono ok.1.1
    · exact ok.2
  · intro x hx
    exact snap_frame ok.1 (inv x hx)

/-- … because it stores only into backing arrays it allocated itself: no cell of an array that
existed before the operation is written — neither inside `[lo, lo+len)` of a live slice nor in the
spare capacity `[lo+len, lo+cap)` behind it. -/
theorem step_writes_only_fresh (orc : Oracle) (st : St) (inv : Inv st) (op : Op) (a : Nat) (ha : a < st.h.length) :
    (step true orc st op).h.getD a [] = st.h.getD a [] :=
  (opOK_run1 orc st inv op).1.2 a ha

/-! ### Part 2 — all branching histories -/

private theorem runAll_append (rep : Bool) (orc : Oracle) (pre post : List Op) (st : St) :
    runAll rep orc (pre ++ post) st = runAll rep orc post (runAll rep orc pre st) := by
  simp [runAll, List.foldl_append]

private theorem history_from (orc : Oracle) (post : List Op) (st : St) (inv : Inv st) :
    Inv (runAll true orc post st) ∧
      ∀ (k : Nat) (x : HVal), st.vals[k]? = some x →
        (runAll true orc post st).vals[k]? = some x ∧ snap (runAll true orc post st).h x = snap st.h x := by
  induction post generalizing st with
  | nil => exact ⟨inv, fun k x hk => ⟨hk, rfl⟩⟩
  | cons op r ih =>
    have sf := step_frame orc st inv op
    have := ih (step true orc st op) sf.1
    refine ⟨this.1, fun k x hk => ?_⟩
    have hk' : (step true orc st op).vals[k]? = some x := by
      simp only [step]
      rw [List.getElem?_append_left (by
        have := (List.getElem?_eq_some_iff.1 hk).1; exact this)]
      exact hk
    have h2 := this.2 k x hk'
    refine ⟨h2.1, ?_⟩
    have : runAll true orc (op :: r) st = runAll true orc r (step true orc st op) := rfl
    rw [this, h2.2]
    exact sf.2 x (List.mem_of_getElem? hk)

/-- For ALL histories `pre ++ post` and ALL capacity oracles: a value that exists after `pre` is still the
k-th value after any continuation `post`, and its snapshot then is the snapshot it had when `pre` ended —
in particular (take `pre` ending with its creation) the one it had when it was created. -/
theorem C03_history (orc : Oracle) (pre post : List Op) (k : Nat) (x : HVal)
    (hk : (runAll true orc pre init).vals[k]? = some x) :
    (runAll true orc (pre ++ post) init).vals[k]? = some x ∧
      snap (runAll true orc (pre ++ post) init).h x = snap (runAll true orc pre init).h x := by
  rw [runAll_append]
  have inv := (history_from orc pre init inv_init).1
  exact (history_from orc post _ inv).2 k x hk

/-- A `let`-bound name denotes the same value at every use: reading value `k` after `pre ++ mid` and
after `pre ++ mid ++ post` (two uses, with arbitrary derivations from it or anything else in between) gives
the same `V`. -/
theorem C03_let (orc : Oracle) (pre mid post : List Op) (k : Nat) (x : HVal)
    (hk : (runAll true orc pre init).vals[k]? = some x) :
    snap (runAll true orc (pre ++ mid ++ post) init).h x = snap (runAll true orc (pre ++ mid) init).h x := by
  have a := (C03_history orc pre mid k x hk).2
  have b := (C03_history orc pre (mid ++ post) k x hk).2
  rw [← List.append_assoc] at b
  rw [a, b]

/-- the heap only grows: the backing arrays present after `pre` are bit-for-bit the same after `pre ++ post` -/
theorem C03_heap_prefix (orc : Oracle) (pre post : List Op) (a : Nat) (ha : a < (runAll true orc pre init).h.length) :
    (runAll true orc (pre ++ post) init).h.getD a [] = (runAll true orc pre init).h.getD a [] := by
  rw [runAll_append]
  have inv := (history_from orc pre init inv_init).1
  generalize runAll true orc pre init = st at inv ha
  induction post generalizing st with
  | nil => rfl
  | cons op r ih =>
    have sf := step_frame orc st inv op
    have f := (opOK_run1 orc st inv op).1
    have : runAll true orc (op :: r) st = runAll true orc r (step true orc st op) := rfl
    rw [this, ih _ sf.1 (Nat.lt_of_lt_of_le ha f.1)]
    exact f.2 a ha

/-- non-vacuity: the hypotheses are met by a real branching history (one parent extended twice, then the
first child extended) and the conclusion talks about a slice-backed value -/
example : ∃ x, (runAll true (fun _ => 1)
      [.root .S 0 [some (.num 97), some (.num 98)], .with_ 0 .S 2 (.num 99), .with_ 0 .S 2 (.num 100)] init).vals[1]?
      = some x ∧ x.slice?.isSome = true := ⟨_, rfl, rfl⟩

/-! ### Part 3 — the code as found: `append(s.s, c)` onto a shared backing array -/

def abc : List Cell := [some (.num 97), some (.num 98), some (.num 99)]

/-- `let a = 'abc'; let b = a with (@:3,@char:100); let c = a with (@:3,@char:101); [b, c]` -/
def siblings : List Op := [.root .S 0 abc, .with_ 0 .S 3 (.num 100), .with_ 0 .S 3 (.num 101)]

/-- `let a = 'abc'; let b = a without (@:2,@char:99); let c = b with (@:2,@char:100); [a, b, c]` -/
def ancestor : List Op := [.root .S 0 abc, .without 0 .S 2 (.num 99), .with_ 1 .S 2 (.num 100)]

/-- `let a = <<1,2,3>>; let b = a without (@:2,@byte:3); let c = b with (@:2,@byte:9); [a, b, c]` -/
def ancestorBytes : List Op :=
  [.root .B 0 [some (.num 1), some (.num 2), some (.num 3)], .without 0 .B 2 (.num 3), .with_ 1 .B 2 (.num 9)]

/-- the runtime gave the literal one spare cell (`[]rune("abc")` has capacity 4) -/
def spare1 : Oracle := fun _ => 1

/-- siblings alias: `b` was 'abcd' when it was created and is 'abce' once `c` exists -/
theorem alias_before_repair_siblings :
    cells (runAll false spare1 (siblings.take 2) init).h ((runAll false spare1 (siblings.take 2) init).vals.getD 1 .err)
      = abc ++ [some (.num 100)] ∧
    cells (runAll false spare1 siblings init).h ((runAll false spare1 siblings init).vals.getD 1 .err)
      = abc ++ [some (.num 101)] := by decide

/-- a descendant overwrites its ANCESTOR: `a` itself changes from 'abc' to 'abd' -/
theorem alias_before_repair_ancestor :
    cells (runAll false spare1 (ancestor.take 1) init).h ((runAll false spare1 (ancestor.take 1) init).vals.getD 0 .err)
      = abc ∧
    cells (runAll false spare1 ancestor init).h ((runAll false spare1 ancestor init).vals.getD 0 .err)
      = [some (.num 97), some (.num 98), some (.num 100)] := by decide

/-- the same through `Bytes.Without`'s re-slice `b.b[:len-1]` (needs no spare capacity at all) -/
theorem alias_before_repair_bytes :
    cells (runAll false (fun _ => 0) ancestorBytes init).h ((runAll false (fun _ => 0) ancestorBytes init).vals.getD 0 .err)
      = [some (.num 1), some (.num 2), some (.num 9)] := by decide

/-- the full-strength statement about the code as found … -/
def C03_history_unrepaired : Prop :=
  ∀ (orc : Oracle) (pre post : List Op) (k : Nat) (x : HVal), (runAll false orc pre init).vals[k]? = some x →
    cells (runAll false orc (pre ++ post) init).h x = cells (runAll false orc pre init).h x

/-- … is false -/
theorem C03_history_unrepaired_false : ¬ C03_history_unrepaired := by
  intro h
  have := h spare1 (siblings.take 2) (siblings.drop 2) 1 _ rfl
  revert this
  decide

/-- with the repair the three histories leave every earlier value as it was (instances of `C03_history`,
re-checked by evaluation) -/
theorem witnesses_after_repair :
    cells (runAll true spare1 siblings init).h ((runAll true spare1 siblings init).vals.getD 1 .err)
      = abc ++ [some (.num 100)] ∧
    cells (runAll true spare1 ancestor init).h ((runAll true spare1 ancestor init).vals.getD 0 .err) = abc ∧
    cells (runAll true (fun _ => 0) ancestorBytes init).h ((runAll true (fun _ => 0) ancestorBytes init).vals.getD 0 .err)
      = [some (.num 1), some (.num 2), some (.num 3)] := by decide

/-! ### Part 4 — the repaired `with` computes the right value -/

/-- `String.with` / `Bytes.with` at the end, as repaired: the new value reads as the old contents followed by the new
element (for any in-bounds slice, any oracle) — the copy is a copy, and it is the parent that stays untouched -/
theorem with_at_end_appends (orc : Oracle) (k : Kind) (h : Heap) (s : Slice) (off : Int) (aux : Nat) (c : V)
    (w : s.WF h) :
    cells (seqWith true orc k h s off aux (off + s.len) c).1 (seqWith true orc k h s off aux (off + s.len) c).2
      = read h s ++ [some c] ∧
    read (seqWith true orc k h s off aux (off + s.len) c).1 s = read h s :=
  ⟨seqWith_end_cells orc k h s off aux c (read_length w),
   read_frame (opOK_seqWith orc k h s off aux _ c w.arr).1 s w.arr⟩

/-! ### Part 6 — relations: headings and rows are slices too -/

/-- one repaired operation on relations keeps the invariant (heading and every row of every value created so far lie in
the heap) and leaves what EVERY earlier relation denotes — heading and rows, read through the heap — unchanged -/
theorem rel_step_frame (orc : Oracle) (st : Rel.Impl.St) (inv : InvR st) (op : ROp) :
    InvR (Rel.Impl.step Rel.Impl.repaired orc st op) ∧
      ∀ x, x ∈ st.vals → snapR (Rel.Impl.step Rel.Impl.repaired orc st op).h x = snapR st.h x := by
  have ok := opOKR_run1 orc st inv op
  constructor
  · intro x hx
    simp only [Rel.Impl.step, List.mem_append, List.mem_singleton] at hx
    rcases hx with hx | rfl
    · exact (inv x hx).mono ok.1.1
    · exact ok.2
  · intro x hx
    exact snapR_frame ok.1 (inv x hx)

/-- … because it stores only into arrays it allocated itself: the joins' `append`s (row and heading) included -/
theorem rel_step_writes_only_fresh (orc : Oracle) (st : Rel.Impl.St) (inv : InvR st) (op : ROp) (a : Nat)
    (ha : a < st.h.length) : (Rel.Impl.step Rel.Impl.repaired orc st op).h.getD a [] = st.h.getD a [] :=
  (opOKR_run1 orc st inv op).1.2 a ha

private theorem rrunAll_append (cfg : Rel.Impl.Cfg) (orc : Oracle) (pre post : List ROp) (st : Rel.Impl.St) :
    Rel.Impl.runAll cfg orc (pre ++ post) st = Rel.Impl.runAll cfg orc post (Rel.Impl.runAll cfg orc pre st) := by
  simp [Rel.Impl.runAll, List.foldl_append]

private theorem rel_history_from (orc : Oracle) (post : List ROp) (st : Rel.Impl.St) (inv : InvR st) :
    InvR (Rel.Impl.runAll Rel.Impl.repaired orc post st) ∧
      ∀ (k : Nat) (x : RVal), st.vals[k]? = some x →
        (Rel.Impl.runAll Rel.Impl.repaired orc post st).vals[k]? = some x ∧
          snapR (Rel.Impl.runAll Rel.Impl.repaired orc post st).h x = snapR st.h x := by
  induction post generalizing st with
  | nil => exact ⟨inv, fun k x hk => ⟨hk, rfl⟩⟩
  | cons op r ih =>
    have sf := rel_step_frame orc st inv op
    have := ih (Rel.Impl.step Rel.Impl.repaired orc st op) sf.1
    refine ⟨this.1, fun k x hk => ?_⟩
    have hk' : (Rel.Impl.step Rel.Impl.repaired orc st op).vals[k]? = some x := by
      simp only [Rel.Impl.step]
      rw [List.getElem?_append_left (List.getElem?_eq_some_iff.1 hk).1]
      exact hk
    have h2 := this.2 k x hk'
    refine ⟨h2.1, ?_⟩
    have e : Rel.Impl.runAll Rel.Impl.repaired orc (op :: r) st =
        Rel.Impl.runAll Rel.Impl.repaired orc r (Rel.Impl.step Rel.Impl.repaired orc st op) := rfl
    rw [e, h2.2]
    exact sf.2 x (List.mem_of_getElem? hk)

/-- For ALL histories of relational operations (literals, the eight joins on any earlier values — results of earlier
joins included, the same parent joined any number of times —, with, without, where, |, nest, unnest, rank, =>) and ALL
capacity oracles: a relation that exists after `pre` denotes after any continuation what it denoted then -/
theorem C03_rel_history (orc : Oracle) (pre post : List ROp) (k : Nat) (x : RVal)
    (hk : (Rel.Impl.runAll Rel.Impl.repaired orc pre Rel.Impl.init).vals[k]? = some x) :
    (Rel.Impl.runAll Rel.Impl.repaired orc (pre ++ post) Rel.Impl.init).vals[k]? = some x ∧
      snapR (Rel.Impl.runAll Rel.Impl.repaired orc (pre ++ post) Rel.Impl.init).h x =
        snapR (Rel.Impl.runAll Rel.Impl.repaired orc pre Rel.Impl.init).h x := by
  rw [rrunAll_append]
  have inv := (rel_history_from orc pre Rel.Impl.init invR_init).1
  exact (rel_history_from orc post _ inv).2 k x hk

def n1 (n : Int) : V := .num n

/-- `let A = {|a,b,c| (1,2,3)}; let x = A <&> {|a,d| (1,4)}; let y = A <&> {|a,e| (1,5)}; x` -/
def relHeading : List ROp :=
  [.lit [0, 1, 2] [[n1 1, n1 2, n1 3]], .lit [0, 3] [[n1 1, n1 4]], .lit [0, 4] [[n1 1, n1 5]],
   .join .join 0 1, .join .join 0 2]

/-- `let x = {|a,b| (1,2)} <&> {|c| (3)}; let y = x <&> {|d| (4)}; let z = x <&> {|d| (5)}; y` -/
def relRows : List ROp :=
  [.lit [0, 1] [[n1 1, n1 2]], .lit [2] [[n1 3]], .join .join 0 1, .lit [3] [[n1 4]], .lit [3] [[n1 5]],
   .join .join 2 3, .join .join 2 4]

/-- the heading as found (`append(leftOutput, rightOutput...)`): `x`'s heading a,b,c,d turns into a,b,c,e when `y` is made -/
theorem rel_alias_heading_before_repair :
    (rcells (Rel.Impl.runAll ⟨false, true⟩ (fun _ => 1) (relHeading.take 4) Rel.Impl.init).h
      ((Rel.Impl.runAll ⟨false, true⟩ (fun _ => 1) (relHeading.take 4) Rel.Impl.init).vals.getD 3 .err)).head?
      = some [nameCell 0, nameCell 1, nameCell 2, nameCell 3] ∧
    (rcells (Rel.Impl.runAll ⟨false, true⟩ (fun _ => 1) relHeading Rel.Impl.init).h
      ((Rel.Impl.runAll ⟨false, true⟩ (fun _ => 1) relHeading Rel.Impl.init).vals.getD 3 .err)).head?
      = some [nameCell 0, nameCell 1, nameCell 2, nameCell 4] := by decide

/-- if `projectedValues.values()` handed out the row itself for an identity projection, `JoinKeepEverything` would append in
place into a row that an earlier join left with spare capacity: `y`'s row 1,2,3,4 turns into 1,2,3,5 when `z` is made -/
theorem rel_alias_rows_if_values_returns_row :
    (rcells (Rel.Impl.runAll ⟨true, false⟩ (fun _ => 1) (relRows.take 6) Rel.Impl.init).h
      ((Rel.Impl.runAll ⟨true, false⟩ (fun _ => 1) (relRows.take 6) Rel.Impl.init).vals.getD 5 .err)).tail
      = [[some (n1 1), some (n1 2), some (n1 3), some (n1 4)]] ∧
    (rcells (Rel.Impl.runAll ⟨true, false⟩ (fun _ => 1) relRows Rel.Impl.init).h
      ((Rel.Impl.runAll ⟨true, false⟩ (fun _ => 1) relRows Rel.Impl.init).vals.getD 5 .err)).tail
      = [[some (n1 1), some (n1 2), some (n1 3), some (n1 5)]] := by decide

/-- with the code as it is now both histories leave `x` / `y` as they were -/
theorem rel_witnesses_after_repair :
    (rcells (Rel.Impl.runAll Rel.Impl.repaired (fun _ => 1) relHeading Rel.Impl.init).h
      ((Rel.Impl.runAll Rel.Impl.repaired (fun _ => 1) relHeading Rel.Impl.init).vals.getD 3 .err)).head?
      = some [nameCell 0, nameCell 1, nameCell 2, nameCell 3] ∧
    (rcells (Rel.Impl.runAll Rel.Impl.repaired (fun _ => 1) relRows Rel.Impl.init).h
      ((Rel.Impl.runAll Rel.Impl.repaired (fun _ => 1) relRows Rel.Impl.init).vals.getD 5 .err)).tail
      = [[some (n1 1), some (n1 2), some (n1 3), some (n1 4)]] := by decide


/-! ### Part 7 — in-bounds well-formedness: every slice of every value lies inside its backing array -/

/-- one (repaired) operation keeps every existing value's slice inside its array — it never changes the length of an
array — and yields a value whose slice `[lo, lo+len) ⊆ [lo, lo+cap)` lies inside its array: none of the model's
re-slices (`s[1:]`, `s[:len-1]`, `b.b[:i]`, `values[i:j]` of patterns, //seq.split pieces, trim_prefix/suffix) goes out
of bounds, so Go would not have panicked where the model goes on -/
theorem wf_step (orc : Oracle) (st : St) (inv : InvWF st) (op : Op) : InvWF (step true orc st op) := by
  have ok := wfok_run1 orc st inv op
  intro x hx
  simp only [step, List.mem_append, List.mem_singleton] at hx
  rcases hx with hx | rfl
  · exact (inv x hx).shape ok.1
  · exact ok.2

/-- in every history, from the empty heap, for every oracle, every value is well-formed at every later time -/
theorem C03_wf_history (orc : Oracle) (ops : List Op) : InvWF (runAll true orc ops init) := by
  have : ∀ (ops : List Op) (st : St), InvWF st → InvWF (runAll true orc ops st) := by
    intro ops
    induction ops with
    | nil => intro st inv; exact inv
    | cons op r ih => intro st inv; exact ih _ (wf_step orc st inv op)
  exact this ops init invWF_init

/-- `with` at the end on any value of any history: no hypothesis left — the value's slice is in bounds because the
history made it -/
theorem with_at_end_appends_in_history (orc : Oracle) (ops : List Op) (i : Nat) (k : Kind) (s : Slice) (off : Int)
    (aux : Nat) (c : V) (hx : (runAll true orc ops init).vals[i]? = some (.seq k s off aux)) :
    cells (seqWith true orc k (runAll true orc ops init).h s off aux (off + s.len) c).1
        (seqWith true orc k (runAll true orc ops init).h s off aux (off + s.len) c).2
      = read (runAll true orc ops init).h s ++ [some c] :=
  (with_at_end_appends orc k _ s off aux c (C03_wf_history orc ops _ (List.mem_of_getElem? hx))).1

/-- the same for relations: heading and every row of every relation of every history lie inside their arrays -/
theorem rel_wf_step (orc : Oracle) (st : Rel.Impl.St) (inv : InvWFR st) (op : ROp) :
    InvWFR (Rel.Impl.step Rel.Impl.repaired orc st op) := by
  have ok := wfokr_run1 orc st inv op
  intro x hx
  simp only [Rel.Impl.step, List.mem_append, List.mem_singleton] at hx
  rcases hx with hx | rfl
  · exact (inv x hx).shape ok.1
  · exact ok.2

theorem C03_rel_wf_history (orc : Oracle) (ops : List ROp) :
    InvWFR (Rel.Impl.runAll Rel.Impl.repaired orc ops Rel.Impl.init) := by
  have : ∀ (ops : List ROp) (st : Rel.Impl.St), InvWFR st → InvWFR (Rel.Impl.runAll Rel.Impl.repaired orc ops st) := by
    intro ops
    induction ops with
    | nil => intro st inv; exact inv
    | cons op r ih => intro st inv; exact ih _ (rel_wf_step orc st inv op)
  exact this ops Rel.Impl.init invWFR_init

/-! ### Part 8 — nested payloads: array items held as denotations vs. references followed through the heap -/

private theorem frame_from (orc : Oracle) (post : List Op) (st : St) (inv : Inv st) :
    Frame st.h.length st.h (runAll true orc post st).h := by
  induction post generalizing st with
  | nil => exact Frame.refl _ _
  | cons op r ih =>
    have f1 := (opOK_run1 orc st inv op).1
    have f2 := ih (step true orc st op) (step_frame orc st inv op).1
    have e : runAll true orc (op :: r) st = runAll true orc r (step true orc st op) := rfl
    rw [e]
    exact ⟨Nat.le_trans f1.1 f2.1, fun a ha => (f2.2 a (Nat.lt_of_lt_of_le ha f1.1)).trans (f1.2 a ha)⟩

/-- The reduction behind "array items are denotations".  Take ANY tree of payload slices `x` (an array whose cells refer
to strings, to arrays of strings, …, to any depth) that lies in the heap after `pre` and whose array cells, in the model,
hold the denotations of the items referred to.  After ANY continuation `post`, for ANY oracle:
(1) the model's snapshot of the root equals the denotation obtained by FOLLOWING the references through the current heap;
(2) that denotation is the one it had after `pre` — no operation wrote into an item's payload, because operations only read
or copy item references and store only into arrays they allocated themselves (`step_writes_only_fresh`). -/
theorem C03_nested_history (orc : Oracle) (pre post : List Op) (x : NVal)
    (l : NLive (runAll true orc pre init).h x) (a : Agrees (runAll true orc pre init).h x) :
    snap (runAll true orc (pre ++ post) init).h x.toH = nden (runAll true orc (pre ++ post) init).h x ∧
      nden (runAll true orc (pre ++ post) init).h x = nden (runAll true orc pre init).h x ∧
      Agrees (runAll true orc (pre ++ post) init).h x := by
  rw [runAll_append]
  have inv := (history_from orc pre init inv_init).1
  have f := frame_from orc post _ inv
  exact ⟨(abstraction_sound f x l a).1, (abstraction_sound f x l a).2.1, agrees_frame f x l a⟩

/-- non-vacuity: `let s = 'abc'; let a = [s]` — the array's cell holds the string's denotation; the tree
`arr (slice of a) [flat (slice of s)]` is live and agrees with the model in the heap the history built -/
example :
    let st := runAll true spare1 [.root .S 0 abc, .root .A 0 [some (V.mkSeq "@char" 0 abc)]] init
    NLive st.h (.arr ⟨1, 0, 1, 2⟩ 0 [some (.flat .S ⟨0, 0, 3, 4⟩ 0)]) ∧
      Agrees st.h (.arr ⟨1, 0, 1, 2⟩ 0 [some (.flat .S ⟨0, 0, 3, 4⟩ 0)]) := by
  refine ⟨⟨by decide, by (show (0 : Nat) < _; decide), trivial⟩, ⟨rfl, trivial, trivial⟩⟩

/-! ### Part 9 — refinement: what an operation yields over the heap DENOTES what the specification says -/

/-- the values so far as the specification sees them: their snapshots (`none` for a failed step) -/
def specVals (st : St) : List (Option V) := st.vals.map (fun x => snapO (st.h, x))

private theorem getV_specVals (st : St) (i : Nat) : Spec.getV (specVals st) i = snapO (st.h, st.vals.getD i .err) := by
  unfold Spec.getV specVals List.getD
  rw [List.getElem?_map]
  cases st.vals[i]? with
  | none => rfl
  | some x => simp

/-- `vI with (@: at, @char|@byte|@item: c)`, whatever `vI` is (String, Bytes, Array — at an end, on a present element, into
a hole, beyond an end, onto an occupied index —, a generic set, the empty set, a failed value): the result read through
the heap is `Spec.with_` of the operand's snapshot.  No hypothesis beyond the history's own invariant. -/
theorem with_refines_spec (orc : Oracle) (st : St) (inv : InvWF st) (i : Nat) (k : Kind) (at_ : Int) (c : V) :
    snapO (run1 true orc st (.with_ i k at_ c)) = Spec.step (specVals st) (.with_ i k at_ c) := by
  simp only [run1, Spec.step, getV_specVals]
  exact withV_refines orc st.h _ k at_ c (inv.getD i)

/-- `vI without (…)` for an operand of the tuple's kind (or a generic set) whose cached count agrees with its cells -/
theorem without_refines_spec (orc : Oracle) (st : St) (inv : InvWF st) (i : Nat) (k : Kind) (at_ : Int) (c : V)
    (haux : AuxOK st.h (st.vals.getD i .err))
    (hkind : ∀ k' s off aux, st.vals.getD i .err = .seq k' s off aux → k' = k) :
    snapO (run1 true orc st (.without i k at_ c)) = Spec.step (specVals st) (.without i k at_ c) := by
  simp only [run1, Spec.step, getV_specVals]
  exact withoutV_refines st.h _ k at_ c (inv.getD i) haux hkind

/-- `n\vI` for a String, Bytes or Array that the specification recognises as a sequence -/
theorem offset_refines_spec (orc : Oracle) (st : St) (inv : InvWF st) (i : Nat) (n : Int) (k : Kind) (s : Slice) (off : Int)
    (aux : Nat) (hx : st.vals.getD i .err = .seq k s off aux)
    (hseq : Spec.isSeqOrEmpty (snap st.h (.seq k s off aux)) = true) :
    snapO (run1 true orc st (.offset i n)) = Spec.step (specVals st) (.offset i n) := by
  have w : s.WF st.h := by have := inv.getD i; rw [hx] at this; exact this
  simp only [run1, Spec.step, getV_specVals, hx, snapO_seq, Option.bind_some]
  have hne : offsetV st.h (.seq k s off aux) n ≠ .err := by
    cases k with
    | S => simp only [offsetV, newOffsetString]; split <;> simp [hnone]
    | B => simp only [offsetV, newOffsetBytes]; split <;> simp [hnone]
    | A => exact newOffsetArray_ne_err _ _ _
  have e := offsetV_refines st.h k s off aux n w
  have hs : snapO (st.h, offsetV st.h (.seq k s off aux) n) = some (snap st.h (offsetV st.h (.seq k s off aux) n)) := by
    unfold snapO
    split
    · rename_i he; exact absurd he hne
    · rfl
  rw [hs, e]
  simp only [snap] at hseq
  simp [Spec.offset, hseq]

/-- `vI ++ vJ` (and every other operation the model computes as "specification, then the set builder": Where/Map on
strings and bytes, joins of arrays, Difference in //seq.trim_* of arrays, //seq.concat of arrays): the result denotes the
specified set whenever the builder can hold it — no two members at one index with different values, byte tuples without gaps -/
theorem concat_refines_spec (orc : Oracle) (st : St) (i j : Nat)
    (hi : st.vals.getD i .err ≠ .err) (hj : st.vals.getD j .err ≠ .err)
    (hf : ∀ v, Spec.concat (snap st.h (st.vals.getD i .err)) (snap st.h (st.vals.getD j .err)) = some v →
      ∀ k ps, decodeSeq v = some (k, ps) → Functional ps ∧ (k = .B → Gapless ps)) :
    snapO (run1 true orc st (.concat i j)) = Spec.step (specVals st) (.concat i j) := by
  have si : snapO (st.h, st.vals.getD i .err) = some (snap st.h (st.vals.getD i .err)) := by
    unfold snapO; split
    · rename_i he; exact absurd he hi
    · rfl
  have sj : snapO (st.h, st.vals.getD j .err) = some (snap st.h (st.vals.getD j .err)) := by
    unfold snapO; split
    · rename_i he; exact absurd he hj
    · rfl
  simp only [run1, Spec.step, getV_specVals, si, sj, Option.bind_some]
  apply viaBuilder_refines _ _ _ hf
  intro v hv
  unfold Spec.concat at hv
  split at hv
  · simp at hv; exact ⟨_, hv.symm⟩
  · simp at hv

/-- the //seq functions on strings and byte arrays (and `repeat` on arrays, `split` on all three): for dense, non-empty
operands of admissible elements (chars are non-negative numbers, bytes are bytes) the value the model yields — a re-slice of
the subject for bytes' trim_prefix / trim_suffix, a fresh array otherwise — denotes what the specification says -/
theorem seq_trimPrefix_refines_spec (orc : Oracle) (st : St) (inv : InvWF st) (p s : Nat) {kp ks : Kind} {sp ss : Slice}
    {xp xs : List V} (hp : denseCells st.h (st.vals.getD p .err) = some (kp, sp, xp))
    (hs : denseCells st.h (st.vals.getD s .err) = some (ks, ss, xs)) (hk : ks ≠ .A) (hnp : xp ≠ []) (hns : xs ≠ [])
    (hvp : ∀ y, y ∈ xp → validElem kp y = true) (hvs : ∀ y, y ∈ xs → validElem ks y = true) :
    snapO (run1 true orc st (.trimPrefix p s)) = Spec.step (specVals st) (.trimPrefix p s) := by
  rw [trimPrefix_refines orc st inv p s hp hs hk hnp hns hvp hvs]
  simp only [Spec.step, getV_specVals, snapO_of_ne_err (snap_dense hp).2, snapO_of_ne_err (snap_dense hs).2, Option.bind_some]

theorem seq_trimSuffix_refines_spec (orc : Oracle) (st : St) (inv : InvWF st) (p s : Nat) {kp ks : Kind} {sp ss : Slice}
    {xp xs : List V} (hp : denseCells st.h (st.vals.getD p .err) = some (kp, sp, xp))
    (hs : denseCells st.h (st.vals.getD s .err) = some (ks, ss, xs)) (hk : ks ≠ .A) (hnp : xp ≠ []) (hns : xs ≠ [])
    (hvp : ∀ y, y ∈ xp → validElem kp y = true) (hvs : ∀ y, y ∈ xs → validElem ks y = true) :
    snapO (run1 true orc st (.trimSuffix p s)) = Spec.step (specVals st) (.trimSuffix p s) := by
  rw [trimSuffix_refines orc st inv p s hp hs hk hnp hns hvp hvs]
  simp only [Spec.step, getV_specVals, snapO_of_ne_err (snap_dense hp).2, snapO_of_ne_err (snap_dense hs).2, Option.bind_some]

theorem seq_sub_refines_spec (orc : Oracle) (st : St) (o n s : Nat) {ko kn ks : Kind} {so sn ss : Slice} {xo xn xs : List V}
    (ho : denseCells st.h (st.vals.getD o .err) = some (ko, so, xo)) (hn : denseCells st.h (st.vals.getD n .err) = some (kn, sn, xn))
    (hs : denseCells st.h (st.vals.getD s .err) = some (ks, ss, xs)) (hk : ks ≠ .A)
    (hno : xo ≠ []) (hnn : xn ≠ []) (hns : xs ≠ [])
    (hvo : ∀ y, y ∈ xo → validElem ko y = true) (hvn : ∀ y, y ∈ xn → validElem kn y = true) (hvs : ∀ y, y ∈ xs → validElem ks y = true) :
    snapO (run1 true orc st (.sub o n s)) = Spec.step (specVals st) (.sub o n s) := by
  rw [sub_refines orc st o n s ho hn hs hk hno hnn hns hvo hvn hvs]
  simp only [Spec.step, getV_specVals, snapO_of_ne_err (snap_dense ho).2, snapO_of_ne_err (snap_dense hn).2,
    snapO_of_ne_err (snap_dense hs).2, Option.bind_some]

theorem seq_split_refines_spec (orc : Oracle) (st : St) (d s : Nat) {kd ks : Kind} {sd ss : Slice} {xd xs : List V}
    (hd : denseCells st.h (st.vals.getD d .err) = some (kd, sd, xd)) (hs : denseCells st.h (st.vals.getD s .err) = some (ks, ss, xs))
    (hnd : xd ≠ []) (hns : xs ≠ []) (hvd : ∀ y, y ∈ xd → validElem kd y = true) (hvs : ∀ y, y ∈ xs → validElem ks y = true) :
    snapO (run1 true orc st (.split d s)) = Spec.step (specVals st) (.split d s) := by
  rw [split_refines orc st d s hd hs hnd hns hvd hvs]
  simp only [Spec.step, getV_specVals, snapO_of_ne_err (snap_dense hd).2, snapO_of_ne_err (snap_dense hs).2, Option.bind_some]

theorem seq_repeat_refines_spec (orc : Oracle) (st : St) (n i : Nat) {k : Kind} {s : Slice} {xs : List V}
    (hs : denseCells st.h (st.vals.getD i .err) = some (k, s, xs)) (hk : k ≠ .B) (hns : xs ≠ [])
    (hvs : ∀ y, y ∈ xs → validElem k y = true) :
    snapO (run1 true orc st (.repeat_ n i)) = Spec.step (specVals st) (.repeat_ n i) := by
  rw [repeat_refines orc st n i hs hk hns hvs]
  simp only [Spec.step, getV_specVals, snapO_of_ne_err (snap_dense hs).2, Option.bind_some]

theorem seq_concat_refines_spec (orc : Oracle) (st : St) (i j : Nat) {si sj : Slice} {xi xj : List V}
    (hi : denseCells st.h (st.vals.getD i .err) = some (.S, si, xi)) (hj : denseCells st.h (st.vals.getD j .err) = some (.S, sj, xj))
    (hni : xi ≠ []) (hnj : xj ≠ []) (hvi : ∀ y, y ∈ xi → validElem .S y = true) (hvj : ∀ y, y ∈ xj → validElem .S y = true) :
    snapO (run1 true orc st (.sconcat i j)) = Spec.step (specVals st) (.sconcat i j) := by
  rw [sconcat_refines orc st i j hi hj hni hnj hvi hvj]
  simp only [Spec.step, getV_specVals, snapO_of_ne_err (snap_dense hi).2, snapO_of_ne_err (snap_dense hj).2, Option.bind_some]

/-! ### Part 5 — regenerated facts: the write sites of rel/ and syntax/std_seq*.go -/

/-- every `x[i] = v`, `append(x, …)`, `copy(x, …)` whose destination is not a slice made in the same function:
the inventory the model was written against (a new in-place write in rel/ breaks this) -/
theorem writeSites_nonfresh_as_expected : Facts.Generated.c03_nonfresh = Expected.nonfresh := by decide

/-- the number of write sites per file and root class is the expected one -/
theorem writeSites_summary_as_expected : Facts.Generated.c03_summary = Expected.summary := by decide

/-- each non-fresh site carries its accounting (`Cover`) by construction; the ones the heap model covers are
these six: the stores of `Array.Where`/`Array.Without` (into a clone), the set builder's list, the join's
`append(values(), …)` and the two nested appends of `arraySub` -/
theorem writeSites_model_covered :
    (Expected.nonfreshNoted.filter (·.2.isModel)).map (·.1.2.1) =
      ["Array.Where", "Array.Without", "genericSetBuilder.Add", "positionalRelation.JoinKeepEverything",
       "arraySub", "arraySub"] := by decide

/-- the classification of every return statement of the callees that write sites and the heap model depend on is the
expected one: a callee that starts returning a field or a parameter (`return pv.v`) changes its row -/
theorem callees_as_expected : Facts.Generated.c03_callees = Expected.callees := by decide

/-- … and the ones assumed to return storage of their own do so on every return path -/
theorem callees_assumed_fresh :
    Expected.assumedFresh.all (fun n => Expected.callees.any (fun r => r.2.1 = n && r.2.2 = "fresh")) = true := by decide

/-- the copy constructors of rel/ and the reference fields each leaves shared with the value it copies are the reviewed ones:
a new lazily filled pointer/map/sync field that a `newBody`-style constructor does not reset changes its row -/
theorem copyCtors_as_expected : Facts.Generated.c03_copyCtors = Expected.copyCtors := by decide

end Arrai.C03.Theorems
