/-
  C10 "Every program ends in a value or an error, never a crash or a hang".

  (a) modelled fragment: the transliterated first-order evaluator (`Arrai.C10.eval`, with the compile-time
      folding order `run`) reaches a panic site only on expressions that have one of the decidable shapes of
      the open known findings (`trig`); termination is structural (all functions are total Lean functions).
  (b) inventory: the panic sites regenerated from the Go sources are the expected, classified ones.
  (c) arbitrary source text, the standard library and hangs are validated by fuzzing only (lib/props_c10.py).
-/
import Arrai.Facts.Generated
import Arrai.C10.Expected
import Arrai.C10.Lemmas

namespace Arrai.C10
open Arrai Outcome

/-! ## (a) no panic outside the open shapes -/

theorem or_false_split {a b : Bool} (h : (a || b) = false) : a = false ∧ b = false := by
  cases a <;> cases b <;> simp_all

theorem no_clash_relAdd {vs : List V} (h : bucketClash vs = false) : ∀ t, relAdd [] vs ≠ .panic t := by
  intro t ht
  rw [relAdd_nil_panic ht] at h
  cases h

mutual
theorem eval_safe : ∀ (e : E), trig e = false → ∀ s, eval e ≠ .panic s
  | .num _, _, s => by simp [eval]
  | .str _, _, s => by simp [eval]
  | .tuple kvs, h, s => by
    simp only [trig] at h
    obtain ⟨h1, h2⟩ := or_false_split h
    intro hp
    simp only [eval] at hp
    rcases bind_panic hp with h' | ⟨as, has, h'⟩
    · exact evalAttrs_safe kvs h1 s h'
    · rw [has] at h2
      simp [newTuple_panic h'] at h2
  | .set xs, h, s => by
    simp only [trig] at h
    obtain ⟨h1, h2⟩ := or_false_split h
    intro hp
    simp only [eval] at hp
    rcases bind_panic hp with h' | ⟨vs, _, h'⟩
    · exact evalSetFrom_safe xs [] h1 (no_clash_relAdd h2) s h'
    · simp at h'
  | .arr xs, h, s => by
    simp only [trig] at h
    intro hp
    simp only [eval] at hp
    rcases bind_panic hp with h' | ⟨vs, _, h'⟩
    · exact evalList_safe xs h s h'
    · simp at h'
  | .dict kvs, h, s => by
    simp only [trig] at h
    intro hp
    simp only [eval] at hp
    rcases bind_panic hp with h' | ⟨vs, _, h'⟩
    · exact evalPairs_safe kvs h s h'
    · exact newDictLit_no_panic vs s h'
  | .rel hd rows, h, s => by
    simp only [trig] at h
    obtain ⟨h12, h3⟩ := or_false_split h
    obtain ⟨h1, h2⟩ := or_false_split h12
    intro hp
    simp only [eval] at hp
    rcases bind_panic hp with h' | ⟨ts, _, h'⟩
    · exact evalRelFrom_safe hd rows [] h1 h2 (no_clash_relAdd h3) s h'
    · simp at h'
  | .bin op a b, h, s => by
    simp only [trig] at h
    obtain ⟨h12, h3⟩ := or_false_split h
    obtain ⟨h1, h2⟩ := or_false_split h12
    intro hp
    simp only [eval] at hp
    rcases bind_panic hp with h' | ⟨va, hva, h'⟩
    · exact eval_safe a h1 s h'
    · split at h'
      · simp at h'
      · rcases bind_panic h' with h'' | ⟨vb, hvb, h''⟩
        · exact eval_safe b h2 s h''
        · rw [hva, hvb] at h3
          simp [binVals_panic h''] at h3
  | .cmp op a b, h, s => by
    simp only [trig] at h
    obtain ⟨h1, h2⟩ := or_false_split h
    intro hp
    simp only [eval] at hp
    rcases bind_panic hp with h' | ⟨va, _, h'⟩
    · exact eval_safe a h1 s h'
    · rcases bind_panic h' with h'' | ⟨vb, _, h''⟩
      · exact eval_safe b h2 s h''
      · exact cmpVals_no_panic op va vb s h''
  | .un op a, h, s => by
    simp only [trig] at h
    intro hp
    simp only [eval] at hp
    rcases bind_panic hp with h' | ⟨va, _, h'⟩
    · exact eval_safe a h s h'
    · exact unVals_no_panic op va s h'
  | .dot a name, h, s => by
    simp only [trig] at h
    intro hp
    simp only [eval] at hp
    rcases bind_panic hp with h' | ⟨va, _, h'⟩
    · exact eval_safe a h s h'
    · exact dotVal_no_panic va name s h'
  | .seqmap a c, h, s => by
    simp only [trig] at h
    obtain ⟨h12, h3⟩ := or_false_split h
    obtain ⟨h1, h2⟩ := or_false_split h12
    intro hp
    simp only [eval] at hp
    rcases bind_panic hp with h' | ⟨va, hva, h'⟩
    · exact eval_safe a h1 s h'
    · cases va with
      | num _ => simp at h'
      | tup _ => simp at h'
      | set xs =>
        cases xs with
        | nil => simp at h'
        | cons x t =>
          simp only at h'
          rcases bind_panic h' with h'' | ⟨vc, hvc, h''⟩
          · exact eval_safe c h2 s h''
          · rw [hva, hvc] at h3
            simp [seqMapConst_panic h''] at h3
theorem evalList_safe : ∀ (xs : List E), trigList xs = false → ∀ s, evalList xs ≠ .panic s
  | [], _, s => by simp [evalList]
  | e :: rest, h, s => by
    simp only [trigList] at h
    obtain ⟨h1, h2⟩ := or_false_split h
    intro hp
    simp only [evalList] at hp
    rcases bind_panic hp with h' | ⟨v, _, h'⟩
    · exact eval_safe e h1 s h'
    · rcases bind_panic h' with h'' | ⟨vs, _, h''⟩
      · exact evalList_safe rest h2 s h''
      · simp at h''
theorem evalAttrs_safe : ∀ (kvs : List (String × E)), trigAttrs kvs = false → ∀ s, evalAttrs kvs ≠ .panic s
  | [], _, s => by simp [evalAttrs]
  | (n, e) :: rest, h, s => by
    simp only [trigAttrs] at h
    obtain ⟨h1, h2⟩ := or_false_split h
    intro hp
    simp only [evalAttrs] at hp
    rcases bind_panic hp with h' | ⟨v, _, h'⟩
    · exact eval_safe e h1 s h'
    · rcases bind_panic h' with h'' | ⟨vs, _, h''⟩
      · exact evalAttrs_safe rest h2 s h''
      · simp at h''
theorem evalPairs_safe : ∀ (kvs : List (E × E)), trigPairs kvs = false → ∀ s, evalPairs kvs ≠ .panic s
  | [], _, s => by simp [evalPairs]
  | (k, e) :: rest, h, s => by
    simp only [trigPairs] at h
    obtain ⟨h12, h3⟩ := or_false_split h
    obtain ⟨h1, h2⟩ := or_false_split h12
    intro hp
    simp only [evalPairs] at hp
    rcases bind_panic hp with h' | ⟨kv, _, h'⟩
    · exact eval_safe k h1 s h'
    · rcases bind_panic h' with h'' | ⟨v, _, h''⟩
      · exact eval_safe e h2 s h''
      · rcases bind_panic h'' with h''' | ⟨vs, _, h'''⟩
        · exact evalPairs_safe rest h3 s h'''
        · simp at h'''
theorem evalSetFrom_safe : ∀ (xs : List E) (seen : List (String × List String)), trigList xs = false →
    (∀ t, relAdd seen (okPrefix xs) ≠ .panic t) → ∀ s, evalSetFrom seen xs ≠ .panic s
  | [], _, _, _, s => by simp [evalSetFrom]
  | e :: rest, seen, h, hr, s => by
    simp only [trigList] at h
    obtain ⟨h1, h2⟩ := or_false_split h
    intro hp
    simp only [evalSetFrom] at hp
    rcases bind_panic hp with h' | ⟨v, hv, h'⟩
    · exact eval_safe e h1 s h'
    · have hpre : okPrefix (e :: rest) = v :: okPrefix rest := by simp [okPrefix, hv]
      rw [hpre] at hr
      simp only [relAdd] at hr
      rcases bind_panic h' with h'' | ⟨seen', hs, h''⟩
      · exact hr s (by rw [h'']; rfl)
      · rcases bind_panic h'' with h3 | ⟨vs, _, h3⟩
        · exact evalSetFrom_safe rest seen' h2 (fun t ht => hr t (by rw [hs]; exact ht)) s h3
        · simp at h3
theorem evalRelFrom_safe : ∀ (hd : List String) (rows : List (List E)) (seen : List (String × List String)),
    trigRows rows = false → pinnedRows hd rows = false → (∀ t, relAdd seen (okRows hd rows) ≠ .panic t) →
    ∀ s, evalRelFrom hd seen rows ≠ .panic s
  | _, [], _, _, _, _, s => by simp [evalRelFrom]
  | hd, r :: rest, seen, h, hpin, hr, s => by
    simp only [trigRows] at h
    obtain ⟨h1, h2⟩ := or_false_split h
    simp only [pinnedRows] at hpin
    obtain ⟨p1, p2⟩ := or_false_split hpin
    intro hp
    simp only [evalRelFrom] at hp
    rcases bind_panic hp with h' | ⟨vs, hvs, h'⟩
    · exact evalList_safe r h1 s h'
    · rcases bind_panic h' with h'' | ⟨t, ht, h''⟩
      · rw [hvs] at p1
        exact relRow_no_panic hd vs s (by simpa using p1) h''
      · have hpre : okRows hd (r :: rest) = t :: okRows hd rest := by
          simp [okRows, hvs, Outcome.bind, ht]
        rw [hpre] at hr
        simp only [relAdd] at hr
        rcases bind_panic h'' with h3 | ⟨seen', hs, h3⟩
        · exact hr s (by rw [h3]; rfl)
        · rcases bind_panic h3 with h4 | ⟨ts, _, h4⟩
          · exact evalRelFrom_safe hd rest seen' h2 p2 (fun u hu => hr u (by rw [hs]; exact hu)) s h4
          · simp at h4
end

/-- **no_panic**: an admissible expression of the modelled fragment never evaluates to a panic: every panic call,
unchecked assertion and Must* call inside the transliterated functions is unreachable unless a node of the expression
is applied to operands of one of the open shapes (pinned sugar-headed tuple, relation-bucket clash) -/
theorem no_panic (e : E) (h : Adm e) : ∀ s, eval e ≠ .panic s := eval_safe e h

end Arrai.C10

namespace Arrai.C10
open Arrai Outcome

/-! ### compile phase: constant folding runs the same constructors earlier, never other ones -/

theorem orElse_some {a b : Option (Outcome V)} {o : Outcome V} (h : orElse a b = some o) : a = some o ∨ b = some o := by
  cases a with
  | none => exact Or.inr h
  | some x => exact Or.inl h

theorem failOf_panic {o : Outcome V} {s : Site} (h : failOf o = some (.panic s)) : o = .panic s := by
  cases o with
  | ok v => simp [failOf] at h
  | err => simp [failOf] at h
  | panic t => simpa [failOf] using h

theorem relBuild_panic : ∀ (hd : List String) (rows : List (List E)) (s : Site),
    relBuild hd rows = some (.panic s) → pinnedRows hd rows = true
  | _, [], s, h => by simp [relBuild] at h
  | hd, r :: rest, s, h => by
    simp only [relBuild] at h
    split at h
    · simp at h
    · rcases orElse_some h with h' | h'
      · split at h'
        · cases hv : evalList r with
          | ok vs =>
            rw [hv] at h'
            simp only at h'
            have hp := failOf_panic h'
            simp only [pinnedRows, hv]
            by_cases hc : (hd.length == vs.length && pinnedTuple (Lit.zipAttrs hd vs)) = true
            · simp [hc]
            · exact absurd hp (relRow_no_panic hd vs s (by simpa using hc))
          | err => rw [hv] at h'; simp at h'
          | panic t => rw [hv] at h'; simp at h'
        · simp at h'
      · simp only [pinnedRows, relBuild_panic hd rest s h', Bool.or_true]

mutual
theorem cfail_panic : ∀ (e : E) (s : Site), cfail e = some (.panic s) → trig e = true
  | .num _, s, h => by simp [cfail] at h
  | .str _, s, h => by simp [cfail] at h
  | .tuple kvs, s, h => by
    simp only [cfail] at h
    rcases orElse_some h with h' | h'
    · simp only [trig, cfailAttrs_panic kvs s h', Bool.true_or]
    · split at h'
      · apply Classical.byContradiction
        intro hn
        exact eval_safe (.tuple kvs) (by simpa using hn) s (failOf_panic h')
      · simp at h'
  | .set xs, s, h => by
    simp only [cfail] at h
    rcases orElse_some h with h' | h'
    · simp only [trig, cfailList_panic xs s h', Bool.true_or]
    · split at h'
      · apply Classical.byContradiction
        intro hn
        exact eval_safe (.set xs) (by simpa using hn) s (failOf_panic h')
      · simp at h'
  | .arr xs, s, h => by
    simp only [cfail] at h
    simp only [trig, cfailList_panic xs s h]
  | .dict kvs, s, h => by
    simp only [cfail] at h
    rcases orElse_some h with h' | h'
    · simp only [trig, cfailPairs_panic kvs s h']
    · split at h'
      · apply Classical.byContradiction
        intro hn
        exact eval_safe (.dict kvs) (by simpa using hn) s (failOf_panic h')
      · simp at h'
  | .rel hd rows, s, h => by
    simp only [cfail] at h
    rcases orElse_some h with h' | h'
    · simp only [trig, cfailRows_panic rows s h', Bool.true_or]
    · rcases orElse_some h' with h'' | h''
      · simp only [trig, relBuild_panic hd rows s h'', Bool.or_true, Bool.true_or]
      · split at h''
        · apply Classical.byContradiction
          intro hn
          exact eval_safe (.rel hd rows) (by simpa using hn) s (failOf_panic h'')
        · simp at h''
  | .bin _ a b, s, h => by
    simp only [cfail] at h
    rcases orElse_some h with h' | h'
    · simp only [trig, cfail_panic a s h', Bool.true_or]
    · simp only [trig, cfail_panic b s h', Bool.or_true, Bool.true_or]
  | .cmp _ a b, s, h => by
    simp only [cfail] at h
    rcases orElse_some h with h' | h'
    · simp only [trig, cfail_panic a s h', Bool.true_or]
    · simp only [trig, cfail_panic b s h', Bool.or_true]
  | .un _ a, s, h => by
    simp only [cfail] at h
    simp only [trig, cfail_panic a s h]
  | .dot a _, s, h => by
    simp only [cfail] at h
    simp only [trig, cfail_panic a s h]
  | .seqmap a c, s, h => by
    simp only [cfail] at h
    rcases orElse_some h with h' | h'
    · simp only [trig, cfail_panic a s h', Bool.true_or]
    · simp only [trig, cfail_panic c s h', Bool.or_true, Bool.true_or]
theorem cfailList_panic : ∀ (xs : List E) (s : Site), cfailList xs = some (.panic s) → trigList xs = true
  | [], s, h => by simp [cfailList] at h
  | e :: rest, s, h => by
    simp only [cfailList] at h
    rcases orElse_some h with h' | h'
    · simp only [trigList, cfail_panic e s h', Bool.true_or]
    · simp only [trigList, cfailList_panic rest s h', Bool.or_true]
theorem cfailAttrs_panic : ∀ (kvs : List (String × E)) (s : Site), cfailAttrs kvs = some (.panic s) → trigAttrs kvs = true
  | [], s, h => by simp [cfailAttrs] at h
  | (_, e) :: rest, s, h => by
    simp only [cfailAttrs] at h
    rcases orElse_some h with h' | h'
    · simp only [trigAttrs, cfail_panic e s h', Bool.true_or]
    · simp only [trigAttrs, cfailAttrs_panic rest s h', Bool.or_true]
theorem cfailPairs_panic : ∀ (kvs : List (E × E)) (s : Site), cfailPairs kvs = some (.panic s) → trigPairs kvs = true
  | [], s, h => by simp [cfailPairs] at h
  | (k, e) :: rest, s, h => by
    simp only [cfailPairs] at h
    rcases orElse_some h with h' | h'
    · simp only [trigPairs, cfail_panic k s h', Bool.true_or]
    · rcases orElse_some h' with h'' | h''
      · simp only [trigPairs, cfail_panic e s h'', Bool.or_true, Bool.true_or]
      · simp only [trigPairs, cfailPairs_panic rest s h'', Bool.or_true]
theorem cfailRows_panic : ∀ (rows : List (List E)) (s : Site), cfailRows rows = some (.panic s) → trigRows rows = true
  | [], s, h => by simp [cfailRows] at h
  | r :: rest, s, h => by
    simp only [cfailRows] at h
    rcases orElse_some h with h' | h'
    · simp only [trigRows, cfailList_panic r s h', Bool.true_or]
    · simp only [trigRows, cfailRows_panic rest s h', Bool.or_true]
end

/-- **run_no_panic**: compiling (with constant folding) and then evaluating an admissible expression ends in a value or
an error — in the model of `syntax.EvaluateExpr` for the fragment -/
theorem run_no_panic (e : E) (h : Adm e) : ∀ s, run e ≠ .panic s := by
  intro s hr
  unfold run at hr
  cases hc : cfail e with
  | none => rw [hc] at hr; exact eval_safe e h s hr
  | some o =>
    rw [hc] at hr
    simp only at hr
    rw [hr] at hc
    have := cfail_panic e s hc
    rw [h] at this
    cases this

/-- every outcome of an admissible expression is a value or an ordinary error -/
theorem run_value_or_error (e : E) (h : Adm e) : (∃ v, run e = .ok v) ∨ run e = .err := by
  cases hr : run e with
  | ok v => exact Or.inl ⟨v, rfl⟩
  | err => exact Or.inr rfl
  | panic s => exact absurd hr (run_no_panic e h s)

end Arrai.C10

namespace Arrai.C10
open Arrai Outcome

/-! ### the guard `Adm` is needed: one witness per open class -/

/-- the full-strength statement: no expression of the fragment panics -/
def no_panic_full : Prop := ∀ (e : E) (s : Site), run e ≠ .panic s

/-- `(@: {}, @item: 2)`: asserted to panic by syntax/expr_tuple_test.go (KF-pinned-panics) -/
def wPinnedIndex : E := .tuple [("@", .set []), ("@item", .num 2)]
/-- `(@: 1, @char: 'x')`: asserted to panic by syntax/expr_tuple_test.go (KF-pinned-panics) -/
def wPinnedElem : E := .tuple [("@", .num 1), ("@char", .str [120])]
/-- `{('a, b': 1), (a: 1, b: 2)}` (KF-relation-bucket, relationBuilder.Add) -/
def wBucket : E := .set [.tuple [("a, b", .num 1)], .tuple [("a", .num 1), ("b", .num 2)]]
/-- `{(a: 1, b: 2)} with ('a, b': 1)` (KF-relation-bucket, toUnionSetWithItem) -/
def wBucketWith : E := .bin .with_ (.set [.tuple [("a", .num 1), ("b", .num 2)]]) (.tuple [("a, b", .num 1)])
/-- `{(@: 0, @char: 97), (@: 0, @item: 1)} >> \z 'a'`: no ill-typed tuple is written, `>>` builds it (KF-pinned-panics) -/
def wSeqmap : E :=
  .seqmap (.set [.tuple [("@", .num 0), ("@char", .num 97)], .tuple [("@", .num 0), ("@item", .num 1)]]) (.str [97])

theorem wPinnedIndex_panics : run wPinnedIndex = .panic .newTupleIndex := by decide
theorem wPinnedElem_panics : run wPinnedElem = .panic .newTupleElem := by decide
theorem wBucket_panics : run wBucket = .panic .relBuilderGet := by decide
theorem wBucketWith_panics : run wBucketWith = .panic .unionSetItem := by decide
theorem wSeqmap_panics : run wSeqmap = .panic .newTupleElem := by decide

theorem no_panic_full_false : ¬ no_panic_full := fun h => h wPinnedIndex .newTupleIndex wPinnedIndex_panics

/-- the hypothesis of `no_panic` is satisfiable by non-trivial expressions:
`({(a: 1, b: 'x'), (a: 2, b: {})} with (a: 3, b: ())) count` is admissible and evaluates to 3,
`1 (<) {2}` is admissible and is an (ordinary) error -/
def okExample : E :=
  .un .count (.bin .with_
    (.set [.tuple [("a", .num 1), ("b", .str [120])], .tuple [("a", .num 2), ("b", .set [])]])
    (.tuple [("a", .num 3), ("b", .tuple [])]))

example : Adm okExample ∧ run okExample = .ok (.num 3) := by decide
example : Adm (.cmp .sub (.num 1) (.set [.num 2])) ∧ run (.cmp .sub (.num 1) (.set [.num 2])) = .err := by decide

/-! ## (b) inventory -/

set_option maxRecDepth 8000 in
/-- every function of rel/, syntax/, engine/, translate/, tools/, pkg/*, cmd/arrai has exactly the expected number of
`panic(` calls, unchecked type assertions and `Must*` calls (identified by the crc32 of its qualified name) -/
theorem panicSites_expected : Arrai.Facts.Generated.panicSites = Expected.panicSites := by decide

theorem panicSiteTotals_expected : Arrai.Facts.Generated.panicSiteTotals = Expected.panicSiteTotals := by decide

end Arrai.C10
