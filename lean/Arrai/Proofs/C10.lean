/-
  C10 "Every program ends in a value or an error, never a crash or a hang".
  (b) inventory obligations: the panic sites regenerated from the Go sources are the expected ones.
-/
import Arrai.Facts.Generated
import Arrai.C10.Expected

namespace Arrai.C10

set_option maxRecDepth 8000 in
/-- every function of rel/, syntax/, engine/, translate/, tools/, pkg/*, cmd/arrai has exactly the expected number of
`panic(` calls, unchecked type assertions and `Must*` calls (identified by the crc32 of its qualified name) -/
theorem panicSites_expected : Arrai.Facts.Generated.panicSites = Expected.panicSites := by decide

theorem panicSiteTotals_expected : Arrai.Facts.Generated.panicSiteTotals = Expected.panicSiteTotals := by decide

end Arrai.C10
