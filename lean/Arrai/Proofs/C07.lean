/-
  C07 — evaluation is deterministic across processes and hash seeds.

  Property theorems only (helper lemmas: Arrai/C07/Lemmas.lean, Arrai/C06/{Lemmas,Embed,Clients}.lean).
  The per-process hash seeds decide in which order every frozen set, frozen map and Go map is
  enumerated; in the model every such collection is a list in that order (`C06.Rep`) and an
  enumeration order is any permutation (`List.Perm`).  The theorems say that what can be observed —
  the canonical form of a value (`key`, which determines `=` and `<`), the order in which members
  are printed, the result of `orderby` without ties — is the same for every such order.
-/
import Arrai.C07.Nested

namespace Arrai.C07.Theorems
open Arrai.C06 Arrai.C07

/-- sorting by the C06 order does not depend on the order in which the members are enumerated -/
theorem sort_perm_invariant (xs ys : List Rep) (hn : NoTies id xs) (hp : xs.Perm ys) :
    isort C06.Impl.less xs = isort C06.Impl.less ys :=
  orderBy_perm_invariant (f := id) hn hp

/-- … and even when some members are equal, the sequence of canonical forms that is printed is the same -/
theorem print_order_invariant (xs ys : List Rep) (h : KP xs ys) :
    (C06.Impl.orderedValues xs).map key = (C06.Impl.orderedValues ys).map key :=
  orderedValues_keys_congr h

/-- the canonical form (hence `=`, `<`, and every function of them) of a generic set, a union set and a relation
depends only on the multiset of canonical forms of the members, not on the enumeration order -/
theorem set_key_order_independent (xs ys : List Rep) (h : KP xs ys) :
    key (.generic xs) = key (.generic ys) ∧ key (.union xs) = key (.union ys) :=
  ⟨key_generic_congr h, key_union_congr h⟩

theorem relation_key_order_independent (ns : List String) (rows rows' : List (List Rep)) (h : rows.Perm rows') :
    key (.relation ns rows) = key (.relation ns rows') :=
  key_relation_congr ns (h.map _)

/-- `orderby` without tied keys returns the same array for every enumeration order of the set -/
theorem orderby_order_independent (keyf : Rep → Rep) (xs ys : List Rep) (hn : NoTies keyf xs) (hp : xs.Perm ys) :
    C06.Impl.orderBy keyf xs = C06.Impl.orderBy keyf ys := orderBy_perm_invariant hn hp

/-- with tied keys (the documented exemption) only tied members can trade places -/
theorem orderby_ties_only (keyf : Rep → Rep) (xs ys : List Rep) (hp : xs.Perm ys) :
    (C06.Impl.orderBy keyf xs).map (fun x => key (keyf x)) = (C06.Impl.orderBy keyf ys).map (fun x => key (keyf x)) :=
  orderBy_keys_perm_invariant keyf hp

/-! ### the set builder -/

/-- FULL statement (not proved in this round): the set builder is order-independent on every list of values that
does not superimpose two sugar tuples at one index -/
def build_order_independent_full : Prop :=
  ∀ xs ys : List Rep, Impl.superimposedL xs = false → KP xs ys →
    key (C06.Impl.build xs) = key (C06.Impl.build ys)

/-- proved part: values that fall into the generic bucket of `SetBuilder` (numbers, sets of every representation,
the empty tuple): the canonical form of the result depends only on the multiset of canonical forms added -/
theorem build_order_independent_partial (xs ys : List Rep) (hx : allGeneric xs) (hy : allGeneric ys) (h : KP xs ys) :
    key (C06.Impl.build xs) = key (C06.Impl.build ys) := build_order_independent_generic hx hy h

/-- the hypotheses of the partial theorem are satisfiable by a non-trivial input: `{1, {2}, 'a', ()}` in two orders -/
example : allGeneric [.num 1, .generic [.num 2], .str [97] 0, .gtuple []] ∧
    KP [.num 1, .generic [.num 2], .str [97] 0, .gtuple []] [.gtuple [], .str [97] 0, .num 1, .generic [.num 2]] := by
  refine ⟨?_, ?_⟩
  · intro x hx
    simp only [List.mem_cons, List.not_mem_nil, or_false] at hx
    rcases hx with rfl | rfl | rfl | rfl <;> rfl
  · apply KP.of_perm
    -- [a, b, c, d] ~ [d, c, a, b]
    have h1 : [Rep.num 1, Rep.generic [Rep.num 2], Rep.str [97] 0, Rep.gtuple []].Perm
        ([Rep.gtuple [], Rep.str [97] 0] ++ [Rep.num 1, Rep.generic [Rep.num 2]]) :=
      (List.perm_append_comm (l₁ := [Rep.num 1, Rep.generic [Rep.num 2]]) (l₂ := [Rep.str [97] 0, Rep.gtuple []])).trans
        ((List.Perm.swap _ _ _).append_right _)
    exact h1

/-- without the admissibility hypothesis the statement is false (see `superimposed_order_dependent`) -/
theorem build_order_dependent_when_superimposed :
    ¬ (∀ xs ys : List Rep, xs.Perm ys → key (C06.Impl.build xs) = key (C06.Impl.build ys)) := by
  intro h
  have := h [.charT 0 97, .charT 0 98] [.charT 0 98, .charT 0 97] (List.Perm.swap _ _ _)
  have hne : C06.Impl.equal (C06.Impl.build [.charT 0 97, .charT 0 98]) (C06.Impl.build [.charT 0 98, .charT 0 97]) = false := by
    decide
  rw [C06.Impl.equal, this, (K.beq_iff _ _).2 rfl] at hne
  cases hne

/-! ### programs -/

/-- C07 for single-operator programs over literal operands (any operator of the fragment: `|`, `&`, `&~`, `=>`, `where`,
`orderby`, `with`, `without`, `count`, `{x}`): whatever order the process enumerates the operands in, the result has
the same canonical form (hence the same printed text, `=` and `<` behaviour) or is the same error.
Admissible (`Adm1`): the values handed to the set builder fall into the generic bucket; `orderby` keys do not tie. -/
theorem C07_partial (e : Ex) (π₁ π₂ : EnumOrder) (h₁ : PermValued π₁) (h₂ : PermValued π₂) (ha : Adm1 e) :
    keyRes (Impl.evalUnder π₁ e) = keyRes (Impl.evalUnder π₂ e) :=
  evalUnder_order_independent_1 e π₁ π₂ h₁ h₂ ha

/-- `Adm1` and `PermValued` are satisfiable non-trivially: `{1, {2}, 'a'} | {(), 3}` under the reversing order -/
example : Adm1 (.union (.lit "{1, {2}, 'a'}" (.generic [.num 1, .generic [.num 2], .str [97] 0]))
                       (.lit "{(), 3}" (.generic [.gtuple [], .num 3]))) ∧ PermValued List.reverse := by
  refine ⟨?_, fun l => List.reverse_perm l⟩
  intro x hx
  simp only [members, members1, List.cons_append, List.nil_append, List.mem_cons, List.not_mem_nil, or_false] at hx
  rcases hx with rfl | rfl | rfl | rfl | rfl <;> rfl

/-- C07 for NESTED programs of the generic fragment (`GenEx`): literals are sets of generic-bucket values (numbers,
sets of any representation, the empty tuple), combined to any depth with `|`, `&`, `&~`, `where`, `with`, `without`, `{x}`
and `=>` with an element function that yields such values again (`.`, a constant, `[.]`, `{.}`).  Every enumeration order
yields a value (never an error) with the same canonical form. -/
theorem C07_nested_partial (e : Ex) (he : GenEx e = true) (π₁ π₂ : EnumOrder) (h₁ : PermValued π₁) (h₂ : PermValued π₂) :
    keyRes (Impl.evalUnder π₁ e) = keyRes (Impl.evalUnder π₂ e) ∧ (∃ r, Impl.evalUnder π₁ e = .ok r) := by
  obtain ⟨r₁, r₂, e₁, e₂, _, _, hk⟩ := nested_order_independent π₁ π₂ h₁ h₂ e he
  exact ⟨by rw [e₁, e₂]; simp [keyRes, hk], r₁, e₁⟩

/-- `GenEx` is satisfiable by a non-trivial nested program:
`(({1, {2}, 'a'} | {(), 3}) => [.]) &~ ({[1]} with 'b') where . != 0` -/
example : GenEx (.filter (.diff (.map (.union (.lit "{1, {2}, 'a'}" (.generic [.num 1, .generic [.num 2], .str [97] 0]))
                                             (.lit "{(), 3}" (.generic [.gtuple [], .num 3]))) .arr1)
                              (.with_ (.lit "{[1]}" (.generic [.array [some (.num 1)] 0])) (.lit "'b'" (.str [98] 0))))
                       (.neNum 0)) = true := by decide

/-! ### printed text -/

/-- FULL statement (not proved in this round): the printed text is a function of the canonical form -/
def printed_text_function_of_key_full : Prop := ∀ a b : Rep, key a = key b → Impl.repr a = Impl.repr b

/-- proved part: values without a dictionary, relation or union set anywhere inside (numbers, all tuples and wrappers,
strings, byte arrays, arrays, generic sets, nested arbitrarily): two representations with the same canonical form —
in particular the same value enumerated in two different orders at any depth — print the same text -/
theorem printed_text_function_of_key_partial (a b : Rep) (sa : simple a = true) (sb : simple b = true)
    (hk : key a = key b) : Impl.repr a = Impl.repr b := repr_congr a b sa sb hk

/-- non-trivial instance: `{[1, {2, 3}], 'a', (x: {4, 5})}` with every enumeration reversed -/
example :
    simple (.generic [.array [some (.num 1), some (.generic [.num 2, .num 3])] 0, .str [97] 0,
      .gtuple [("x", .generic [.num 4, .num 5])]]) = true ∧
    key (.generic [.array [some (.num 1), some (.generic [.num 2, .num 3])] 0, .str [97] 0,
      .gtuple [("x", .generic [.num 4, .num 5])]]) =
    key (.generic [.gtuple [("x", .generic [.num 5, .num 4])], .str [97] 0,
      .array [some (.num 1), some (.generic [.num 3, .num 2])] 0]) := by
  refine ⟨by decide, ?_⟩
  have h : C06.Impl.equal
      (.generic [.array [some (.num 1), some (.generic [.num 2, .num 3])] 0, .str [97] 0,
        .gtuple [("x", .generic [.num 4, .num 5])]])
      (.generic [.gtuple [("x", .generic [.num 5, .num 4])], .str [97] 0,
        .array [some (.num 1), some (.generic [.num 3, .num 2])] 0]) = true := by decide
  simpa [C06.Impl.equal, K.beq_iff] using h

/-- corollary for admissible single-operator programs: the same printed text under every enumeration order -/
theorem C07_partial_printed (e : Ex) (π₁ π₂ : EnumOrder) (h₁ : PermValued π₁) (h₂ : PermValued π₂) (ha : Adm1 e)
    (r₁ r₂ : Rep) (e₁ : Impl.evalUnder π₁ e = .ok r₁) (e₂ : Impl.evalUnder π₂ e = .ok r₂)
    (s₁ : simple r₁ = true) (s₂ : simple r₂ = true) : Impl.repr r₁ = Impl.repr r₂ := by
  have h := C07_partial e π₁ π₂ h₁ h₂ ha
  rw [e₁, e₂] at h
  simp only [keyRes, Option.some.injEq] at h
  exact repr_congr r₁ r₂ s₁ s₂ h

/-- FULL statement (not proved in this round): every program of the fragment, nested, all admissible member lists -/
def C07_full : Prop :=
  ∀ (e : Ex) (π₁ π₂ : EnumOrder), PermValued π₁ → PermValued π₂ →
    keyRes (Impl.evalUnder π₁ e) = keyRes (Impl.evalUnder π₂ e)

/-- `KF-superimposed`: genuine order dependence. Two enumeration orders of the same two members build different
strings (`'b'` resp. `'a'`): the set builder keeps the tuple it sees last. -/
theorem superimposed_order_dependent :
    C06.Impl.equal (C06.Impl.build [.charT 0 97, .charT 0 98]) (C06.Impl.build [.charT 0 98, .charT 0 97]) = false ∧
    C06.Impl.build [.charT 0 97, .charT 0 98] = .str [98] 0 ∧
    C06.Impl.build [.charT 0 98, .charT 0 97] = .str [97] 0 := ⟨by decide, by rfl, by rfl⟩

end Arrai.C07.Theorems
