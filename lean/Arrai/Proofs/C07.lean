/-
  C07 — evaluation is deterministic across processes and hash seeds.

  Property theorems only (helper lemmas: Arrai/C07/*.lean, Arrai/C06/{Lemmas,Embed,Clients,Den}.lean).
  The per-process hash seeds decide in which order every frozen set, frozen map and Go map is enumerated; in the model
  every such collection is a list in that order (`C06.Rep`) and an enumeration order is any permutation-valued function
  on member lists (`EnumOrder`, `PermValued`).  The theorems say that what can be observed — the canonical form of a value
  (`key`, which determines `=` and `<`), the text printed for it, the result of `orderby` without ties, ranks, the member
  bound by a set pattern — is the same for every such order.

  WHAT THE FINAL THEOREMS COVER
  * `C07` (values) and `C07_printed` (printed text: `fu.Repr` and what `OutputValue` writes): programs `Ex`, nested to any
    depth, over literals of EVERY representation (numbers, tuples, sugar tuples, strings, byte arrays, arrays, dictionaries,
    relations, generic and union sets), built from
      `|`  `&`  `&~`  `where` (`. < n`, `. != n`, `. >= {}`, `true`)  `with`  `without`  `count`  `{x}`
      `=>` with `.`, a constant, `(a: .)`, `(a: ., b: n)`, `[.]`
      `orderby` (same element functions) — under NoTies, the documented exemption
      `rank (r₁: .a₁, …)` — rank = number of rows with a strictly smaller key (C06 `rank_by_less`), any number of ranking
        attributes, ties included
      `let {l₁, …, ...t} = s; t`  (`C07`)  and  `let {l₁, …, a} = s; a`  (`C07_setpat`, the "pick an element" construct).
    Hypothesis `Adm`, decided on the run under the identity order: no set-builder call receives two sugar tuples at one
    index (`NoSuper` — otherwise KF-superimposed, a genuine order dependence: `superimposed_order_dependent`,
    `C07_full_false`), `orderby` keys do not tie, literals and ranking attributes do not repeat an attribute name.
  * `build_order_independent`: `SetBuilder.Add`* ; `Finish` for ALL buckets (generic, string, bytes, array, dict, relation)
    and the assembly of a union set from several buckets.
  * `printed_text_function_of_key`: `key a = key b → repr a = repr b` for ALL well-named values (dict, relation and union
    included) — two processes that hold the same value in different internal orders print the same text.

  WHAT STILL RESTS ON THE N-PROCESS RUNS (4 processes in quick, 16 in thorough, different hash seeds, compared byte for byte
  and with the model): the element functions `-.` and `{.}` inside `=>`/`orderby`; the generated `Pg` program shapes that are
  not `Ex` terms (set patterns with a conditional body, `rank` over a computed attribute `.i % 3`, `nest`, `max`/`min`
  reducers, `orderby` with TIED keys where only the key sequence is predicted — `orderby_ties_only`); error MESSAGES
  (the model has one `err`); parsing and the text → `Rep` reading of literals; and that the Go code is what the model says
  (`members`, `build`, `Less`, `Format`) — the model-vs-Go comparison of every generated case is that tie.
-/
import Arrai.C07.Printed

namespace Arrai.C07.Theorems
open Arrai.C06 Arrai.C07

/-- sorting by the C06 order does not depend on the order in which the members are enumerated -/
theorem sort_perm_invariant (xs ys : List Rep) (hn : NoTies id xs) (hp : xs.Perm ys) :
    isort C06.Impl.less xs = isort C06.Impl.less ys :=
  orderBy_perm_invariant (f := id) hn hp

/-- … and even when some members are equal, the sequence of canonical forms that is printed is the same -/
theorem print_order_invariant (xs ys : List Rep) (h : KP xs ys) :
    (C06.Impl.orderedValues xs).map key = (C06.Impl.orderedValues ys).map key :=
  orderedValues_keys_congr h

/-- the canonical form (hence `=`, `<`, and every function of them) of a generic set, a union set and a relation
depends only on the multiset of canonical forms of the members, not on the enumeration order -/
theorem set_key_order_independent (xs ys : List Rep) (h : KP xs ys) :
    key (.generic xs) = key (.generic ys) ∧ key (.union xs) = key (.union ys) :=
  ⟨key_generic_congr h, key_union_congr h⟩

theorem relation_key_order_independent (ns : List String) (rows rows' : List (List Rep)) (h : rows.Perm rows') :
    key (.relation ns rows) = key (.relation ns rows') :=
  key_relation_congr ns (h.map _)

/-- `orderby` without tied keys returns the same array for every enumeration order of the set -/
theorem orderby_order_independent (keyf : Rep → Rep) (xs ys : List Rep) (hn : NoTies keyf xs) (hp : xs.Perm ys) :
    C06.Impl.orderBy keyf xs = C06.Impl.orderBy keyf ys := orderBy_perm_invariant hn hp

/-- with tied keys (the documented exemption) only tied members can trade places -/
theorem orderby_ties_only (keyf : Rep → Rep) (xs ys : List Rep) (hp : xs.Perm ys) :
    (C06.Impl.orderBy keyf xs).map (fun x => key (keyf x)) = (C06.Impl.orderBy keyf ys).map (fun x => key (keyf x)) :=
  orderBy_keys_perm_invariant keyf hp

/-! ### the set builder -/

/-- THE SET BUILDER IS ORDER-INDEPENDENT (all buckets: generic, string, bytes, array, dict, relation, and the assembly of a
union set from the bucket map): if the values added do not superimpose two sugar tuples at one index (`NoSuper`) and no
tuple repeats an attribute name (a frozen map cannot), the canonical form of `SetBuilder.Add`* ; `Finish` depends only on
the multiset of canonical forms added — not on the order of the `Add` calls, nor on the enumeration orders inside the
values added. The overwrite loops of asString/asBytes/asArray are order-independent exactly under `NoSuper`
(see `superimposed_order_dependent` for the converse). -/
theorem build_order_independent (xs ys : List Rep) (hn : NoSuper xs)
    (tx : ∀ v ∈ xs, tupleNodup v) (ty : ∀ w ∈ ys, tupleNodup w) (h : KP xs ys) :
    key (C06.Impl.build xs) = key (C06.Impl.build ys) := Arrai.C07.build_order_independent hn tx ty h

/-- the hypotheses are satisfiable non-trivially: `{(@:0,@char:97), (@:2,@char:98), (a:1,b:2), (@:1,@value:2), [3], 4}`
in two orders (a string with a hole, a relation, a dict, a generic bucket: four buckets) -/
example : NoSuper [.charT 0 97, .charT 2 98, .gtuple [("a", .num 1), ("b", .num 2)], .entryT (.num 1) (.num 2),
      .array [some (.num 3)] 0, .num 4] ∧
    (∀ v ∈ [Rep.charT 0 97, .charT 2 98, .gtuple [("a", .num 1), ("b", .num 2)], .entryT (.num 1) (.num 2),
      .array [some (.num 3)] 0, .num 4], tupleNodup v) := by
  refine ⟨⟨by decide, by decide, by decide⟩, ?_⟩
  intro v hv
  simp only [List.mem_cons, List.not_mem_nil, or_false] at hv
  rcases hv with rfl | rfl | rfl | rfl | rfl | rfl <;> simp [tupleNodup]

/-- special case (no hypothesis on names needed): values that fall into the generic bucket -/
theorem build_order_independent_partial (xs ys : List Rep) (hx : allGeneric xs) (hy : allGeneric ys) (h : KP xs ys) :
    key (C06.Impl.build xs) = key (C06.Impl.build ys) := build_order_independent_generic hx hy h

/-- the hypotheses of the partial theorem are satisfiable by a non-trivial input: `{1, {2}, 'a', ()}` in two orders -/
example : allGeneric [.num 1, .generic [.num 2], .str [97] 0, .gtuple []] ∧
    KP [.num 1, .generic [.num 2], .str [97] 0, .gtuple []] [.gtuple [], .str [97] 0, .num 1, .generic [.num 2]] := by
  refine ⟨?_, ?_⟩
  · intro x hx
    simp only [List.mem_cons, List.not_mem_nil, or_false] at hx
    rcases hx with rfl | rfl | rfl | rfl <;> rfl
  · apply KP.of_perm
    -- [a, b, c, d] ~ [d, c, a, b]
    have h1 : [Rep.num 1, Rep.generic [Rep.num 2], Rep.str [97] 0, Rep.gtuple []].Perm
        ([Rep.gtuple [], Rep.str [97] 0] ++ [Rep.num 1, Rep.generic [Rep.num 2]]) :=
      (List.perm_append_comm (l₁ := [Rep.num 1, Rep.generic [Rep.num 2]]) (l₂ := [Rep.str [97] 0, Rep.gtuple []])).trans
        ((List.Perm.swap _ _ _).append_right _)
    exact h1

/-- without the admissibility hypothesis the statement is false (see `superimposed_order_dependent`) -/
theorem build_order_dependent_when_superimposed :
    ¬ (∀ xs ys : List Rep, xs.Perm ys → key (C06.Impl.build xs) = key (C06.Impl.build ys)) := by
  intro h
  have := h [.charT 0 97, .charT 0 98] [.charT 0 98, .charT 0 97] (List.Perm.swap _ _ _)
  have hne : C06.Impl.equal (C06.Impl.build [.charT 0 97, .charT 0 98]) (C06.Impl.build [.charT 0 98, .charT 0 97]) = false := by
    decide
  rw [C06.Impl.equal, this, (K.beq_iff _ _).2 rfl] at hne
  cases hne

/-! ### programs -/

/-- C07 for single-operator programs over literal operands (any operator of the fragment: `|`, `&`, `&~`, `=>`, `where`,
`orderby`, `with`, `without`, `count`, `{x}`): whatever order the process enumerates the operands in, the result has
the same canonical form (hence the same printed text, `=` and `<` behaviour) or is the same error.
Admissible (`Adm1`): the values handed to the set builder fall into the generic bucket; `orderby` keys do not tie. -/
theorem C07_partial (e : Ex) (π₁ π₂ : EnumOrder) (h₁ : PermValued π₁) (h₂ : PermValued π₂) (ha : Adm1 e) :
    keyRes (Impl.evalUnder π₁ e) = keyRes (Impl.evalUnder π₂ e) :=
  evalUnder_order_independent_1 e π₁ π₂ h₁ h₂ ha

/-- `Adm1` and `PermValued` are satisfiable non-trivially: `{1, {2}, 'a'} | {(), 3}` under the reversing order -/
example : Adm1 (.union (.lit "{1, {2}, 'a'}" (.generic [.num 1, .generic [.num 2], .str [97] 0]))
                       (.lit "{(), 3}" (.generic [.gtuple [], .num 3]))) ∧ PermValued List.reverse := by
  refine ⟨?_, fun l => List.reverse_perm l⟩
  intro x hx
  simp only [members, members1, List.cons_append, List.nil_append, List.mem_cons, List.not_mem_nil, or_false] at hx
  rcases hx with rfl | rfl | rfl | rfl | rfl <;> rfl

/-- C07 for NESTED programs of the generic fragment (`GenEx`): literals are sets of generic-bucket values (numbers,
sets of any representation, the empty tuple), combined to any depth with `|`, `&`, `&~`, `where`, `with`, `without`, `{x}`
and `=>` with an element function that yields such values again (`.`, a constant, `[.]`, `{.}`).  Every enumeration order
yields a value (never an error) with the same canonical form. -/
theorem C07_nested_partial (e : Ex) (he : GenEx e = true) (π₁ π₂ : EnumOrder) (h₁ : PermValued π₁) (h₂ : PermValued π₂) :
    keyRes (Impl.evalUnder π₁ e) = keyRes (Impl.evalUnder π₂ e) ∧ (∃ r, Impl.evalUnder π₁ e = .ok r) := by
  obtain ⟨r₁, r₂, e₁, e₂, _, _, hk⟩ := nested_order_independent π₁ π₂ h₁ h₂ e he
  exact ⟨by rw [e₁, e₂]; simp [keyRes, hk], r₁, e₁⟩

/-- `GenEx` is satisfiable by a non-trivial nested program:
`(({1, {2}, 'a'} | {(), 3}) => [.]) &~ ({[1]} with 'b') where . != 0` -/
example : GenEx (.filter (.diff (.map (.union (.lit "{1, {2}, 'a'}" (.generic [.num 1, .generic [.num 2], .str [97] 0]))
                                             (.lit "{(), 3}" (.generic [.gtuple [], .num 3]))) .arr1)
                              (.with_ (.lit "{[1]}" (.generic [.array [some (.num 1)] 0])) (.lit "'b'" (.str [98] 0))))
                       (.neNum 0)) = true := by decide

/-- THEOREM C07 (values): every admissible program — nested to any depth over `|`, `&`, `&~`, `=>` (with `.`, a constant,
`(a: .)`, `(a: ., b: n)`, `[.]`), `where`, `orderby` (keys must not tie: the documented exemption), `rank` (any ranking
attributes, ties included), `with`, `without`, `count`, `{x}` and `let {l₁, …, ...t} = s; t`, over literals of every
representation (strings, byte arrays, arrays, dictionaries, relations, union sets, …) — evaluates to a value with the same
canonical form (hence the same `=`/`<` behaviour), or to the same error, under every enumeration order of every set, map
and tuple it walks.
`Adm` (decided on the evaluation under the identity order): no set-builder call receives two sugar tuples at one index
(`KF-superimposed`), `orderby` keys do not tie, no tuple of a literal and no `rank` clause repeats an attribute name. -/
theorem C07 (e : Ex) (h : Adm e) (π₁ π₂ : EnumOrder) (h₁ : PermValued π₁) (h₂ : PermValued π₂) :
    keyRes (Impl.evalUnder π₁ e) = keyRes (Impl.evalUnder π₂ e) := eval_order_independent e h π₁ π₂ h₁ h₂

/-- set patterns that bind an identifier, `let {l₁, …, a} = s; a` (the construct that "picks an element"): whatever the
enumeration order, the same member is bound, or the same error is raised (no member, or several members, left) -/
theorem C07_setpat (lits : List (String × Rep)) (a : Ex) (h : Adm a) (π₁ π₂ : EnumOrder)
    (h₁ : PermValued π₁) (h₂ : PermValued π₂) :
    keyRes (Impl.evalUnder π₁ (.setpat lits false a)) = keyRes (Impl.evalUnder π₂ (.setpat lits false a)) :=
  setpat_order_independent lits a h π₁ π₂ h₁ h₂

/-- `Adm` is satisfiable by a non-trivial program mixing buckets: `({(a: 1), 'x', 2} | {[3]}) => (a: .)` -/
example : Adm (.map (.union (.lit "{(a: 1), 'x', 2}" (.union [.relation ["a"] [[.num 1]], .generic [.str [120] 0, .num 2]]))
                            (.lit "{[3]}" (.generic [.array [some (.num 3)] 0]))) .wrapA) := by
  refine ⟨⟨⟨trivial, ?_⟩, ⟨trivial, ?_⟩, ?_⟩, rfl, ?_⟩
  · intro v hv
    simp only [members, members1, C06.Impl.rowTuple, zipNames, List.flatMap_cons, List.flatMap_nil, List.map_cons,
      List.map_nil, List.append_nil, List.cons_append, List.nil_append, List.mem_cons, List.not_mem_nil, or_false] at hv
    rcases hv with rfl | rfl | rfl <;> simp [tupleNodup]
  · intro v hv
    simp only [members, members1, List.mem_cons, List.not_mem_nil, or_false] at hv
    subst hv; trivial
  · exact ⟨by decide, by decide, by decide⟩
  · exact ⟨by decide, by decide, by decide⟩

/-- `Adm` holds for `rank` over a relation with tied keys: `{(k: 1, v: 2), (k: 1, v: 1)} rank (rk: .k, rv: .v)` -/
example : Adm (.rank (.lit "{(k: 1, v: 2), (k: 1, v: 1)}" (.relation ["k", "v"] [[.num 1, .num 2], [.num 1, .num 1]]))
    [("rk", "k"), ("rv", "v")]) := by
  refine ⟨⟨trivial, ?_⟩, by decide⟩
  intro v hv
  simp only [members, members1, C06.Impl.rowTuple, zipNames, List.map_cons, List.map_nil, List.mem_cons, List.not_mem_nil,
    or_false] at hv
  rcases hv with rfl | rfl <;> simp [tupleNodup]

/-! ### printed text -/

/-- THE PRINTED TEXT IS A FUNCTION OF THE CANONICAL FORM, for every representation (dictionaries, relations and union sets
included; their entries / rows / members are printed in the C06 order, whose sorted arrangement is unique). `nodupNames`: no
tuple and no relation heading repeats an attribute name (a frozen map cannot). Two processes that hold the same value with
different internal enumeration orders, at any depth, print the same text. -/
theorem printed_text_function_of_key (a b : Rep) (sa : nodupNames a = true) (sb : nodupNames b = true)
    (hk : key a = key b) : Impl.repr a = Impl.repr b ∧ Impl.outText a = Impl.outText b :=
  ⟨Full.repr_congr a b sa sb hk, Full.outText_congr a b sa sb hk⟩

/-- non-trivial instance: the dict `{1: {2, 3}, 'k': (x: 4)}`, the relation `{|a, b| (1, 'x'), (2, 'y')}` and a union set, each
held in two different internal orders -/
example :
    nodupNames (.union [.dict [[.num 1, .generic [.num 2, .num 3]], [.str [107] 0, .gtuple [("x", .num 4)]]],
      .relation ["a", "b"] [[.num 1, .str [120] 0], [.num 2, .str [121] 0]]]) = true ∧
    key (.union [.dict [[.num 1, .generic [.num 2, .num 3]], [.str [107] 0, .gtuple [("x", .num 4)]]],
      .relation ["a", "b"] [[.num 1, .str [120] 0], [.num 2, .str [121] 0]]]) =
    key (.union [.relation ["b", "a"] [[.str [121] 0, .num 2], [.str [120] 0, .num 1]],
      .dict [[.str [107] 0, .gtuple [("x", .num 4)]], [.num 1, .generic [.num 3, .num 2]]]]) := by
  refine ⟨by decide, ?_⟩
  have h : C06.Impl.equal
      (.union [.dict [[.num 1, .generic [.num 2, .num 3]], [.str [107] 0, .gtuple [("x", .num 4)]]],
        .relation ["a", "b"] [[.num 1, .str [120] 0], [.num 2, .str [121] 0]]])
      (.union [.relation ["b", "a"] [[.str [121] 0, .num 2], [.str [120] 0, .num 1]],
        .dict [[.str [107] 0, .gtuple [("x", .num 4)]], [.num 1, .generic [.num 3, .num 2]]]]) = true := by decide
  simpa [C06.Impl.equal, K.beq_iff] using h

/-- earlier special case (no hypothesis on names): values without a dictionary, relation or union set anywhere inside (numbers, all tuples and wrappers,
strings, byte arrays, arrays, generic sets, nested arbitrarily): two representations with the same canonical form —
in particular the same value enumerated in two different orders at any depth — print the same text -/
theorem printed_text_function_of_key_partial (a b : Rep) (sa : simple a = true) (sb : simple b = true)
    (hk : key a = key b) : Impl.repr a = Impl.repr b := repr_congr a b sa sb hk

/-- non-trivial instance: `{[1, {2, 3}], 'a', (x: {4, 5})}` with every enumeration reversed -/
example :
    simple (.generic [.array [some (.num 1), some (.generic [.num 2, .num 3])] 0, .str [97] 0,
      .gtuple [("x", .generic [.num 4, .num 5])]]) = true ∧
    key (.generic [.array [some (.num 1), some (.generic [.num 2, .num 3])] 0, .str [97] 0,
      .gtuple [("x", .generic [.num 4, .num 5])]]) =
    key (.generic [.gtuple [("x", .generic [.num 5, .num 4])], .str [97] 0,
      .array [some (.num 1), some (.generic [.num 3, .num 2])] 0]) := by
  refine ⟨by decide, ?_⟩
  have h : C06.Impl.equal
      (.generic [.array [some (.num 1), some (.generic [.num 2, .num 3])] 0, .str [97] 0,
        .gtuple [("x", .generic [.num 4, .num 5])]])
      (.generic [.gtuple [("x", .generic [.num 5, .num 4])], .str [97] 0,
        .array [some (.num 1), some (.generic [.num 3, .num 2])] 0]) = true := by decide
  simpa [C06.Impl.equal, K.beq_iff] using h

/-- corollary for admissible single-operator programs: the same printed text under every enumeration order -/
theorem C07_partial_printed (e : Ex) (π₁ π₂ : EnumOrder) (h₁ : PermValued π₁) (h₂ : PermValued π₂) (ha : Adm1 e)
    (r₁ r₂ : Rep) (e₁ : Impl.evalUnder π₁ e = .ok r₁) (e₂ : Impl.evalUnder π₂ e = .ok r₂)
    (s₁ : simple r₁ = true) (s₂ : simple r₂ = true) : Impl.repr r₁ = Impl.repr r₂ := by
  have h := C07_partial e π₁ π₂ h₁ h₂ ha
  rw [e₁, e₂] at h
  simp only [keyRes, Option.some.injEq] at h
  exact repr_congr r₁ r₂ s₁ s₂ h

/-- THEOREM C07 (printed text): an admissible program over well-named literals (`litsNN`) prints the same text — `fu.Repr`
and what `OutputValue` writes — or fails alike, under every enumeration order. (Every value such a program computes is
well named: `nn_eval`; then `printed_text_function_of_key`.) -/
theorem C07_printed (e : Ex) (h : Adm e) (hl : litsNN e) (π₁ π₂ : EnumOrder) (h₁ : PermValued π₁) (h₂ : PermValued π₂) :
    printedRes (Impl.evalUnder π₁ e) = printedRes (Impl.evalUnder π₂ e) := printed_order_independent e h hl π₁ π₂ h₁ h₂

/-- the statement WITHOUT the admissibility hypothesis -/
def C07_full : Prop :=
  ∀ (e : Ex) (π₁ π₂ : EnumOrder), PermValued π₁ → PermValued π₂ →
    keyRes (Impl.evalUnder π₁ e) = keyRes (Impl.evalUnder π₂ e)

/-- … is false: `{(@: 0, @char: 97), (@: 0, @char: 98)} => .` is `'b'` under one enumeration order and `'a'` under the
reverse (`KF-superimposed`, a known finding: the set builder keeps the tuple it sees last) -/
theorem C07_full_false : ¬ C07_full := by
  intro h
  have := h (.map (.lit "" (.generic [.charT 0 97, .charT 0 98])) .ident) (fun l => l) List.reverse
    (fun l => List.Perm.refl l) (fun l => List.reverse_perm l)
  have e₁ : Impl.evalUnder (fun l => l) (.map (.lit "" (.generic [.charT 0 97, .charT 0 98])) .ident) = .ok (.str [98] 0) := by rfl
  have e₂ : Impl.evalUnder List.reverse (.map (.lit "" (.generic [.charT 0 97, .charT 0 98])) .ident) = .ok (.str [97] 0) := by rfl
  rw [e₁, e₂] at this
  simp [keyRes] at this

/-- `KF-superimposed`: genuine order dependence. Two enumeration orders of the same two members build different
strings (`'b'` resp. `'a'`): the set builder keeps the tuple it sees last. -/
theorem superimposed_order_dependent :
    C06.Impl.equal (C06.Impl.build [.charT 0 97, .charT 0 98]) (C06.Impl.build [.charT 0 98, .charT 0 97]) = false ∧
    C06.Impl.build [.charT 0 97, .charT 0 98] = .str [98] 0 ∧
    C06.Impl.build [.charT 0 98, .charT 0 97] = .str [97] 0 := ⟨by decide, by rfl, by rfl⟩

end Arrai.C07.Theorems
