/-
  C07 — evaluation is deterministic across processes and hash seeds.

  Property theorems only (helper lemmas: Arrai/C07/Lemmas.lean, Arrai/C06/{Lemmas,Embed,Clients}.lean).
  The per-process hash seeds decide in which order every frozen set, frozen map and Go map is
  enumerated; in the model every such collection is a list in that order (`C06.Rep`) and an
  enumeration order is any permutation (`List.Perm`).  The theorems say that what can be observed —
  the canonical form of a value (`key`, which determines `=` and `<`), the order in which members
  are printed, the result of `orderby` without ties — is the same for every such order.
-/
import Arrai.C07.Lemmas

namespace Arrai.C07.Theorems
open Arrai.C06 Arrai.C07

/-- sorting by the C06 order does not depend on the order in which the members are enumerated -/
theorem sort_perm_invariant (xs ys : List Rep) (hn : NoTies id xs) (hp : xs.Perm ys) :
    isort C06.Impl.less xs = isort C06.Impl.less ys :=
  orderBy_perm_invariant (f := id) hn hp

/-- … and even when some members are equal, the sequence of canonical forms that is printed is the same -/
theorem print_order_invariant (xs ys : List Rep) (h : KP xs ys) :
    (C06.Impl.orderedValues xs).map key = (C06.Impl.orderedValues ys).map key :=
  orderedValues_keys_congr h

/-- the canonical form (hence `=`, `<`, and every function of them) of a generic set, a union set and a relation
depends only on the multiset of canonical forms of the members, not on the enumeration order -/
theorem set_key_order_independent (xs ys : List Rep) (h : KP xs ys) :
    key (.generic xs) = key (.generic ys) ∧ key (.union xs) = key (.union ys) :=
  ⟨key_generic_congr h, key_union_congr h⟩

theorem relation_key_order_independent (ns : List String) (rows rows' : List (List Rep)) (h : rows.Perm rows') :
    key (.relation ns rows) = key (.relation ns rows') :=
  key_relation_congr ns (h.map _)

/-- `orderby` without tied keys returns the same array for every enumeration order of the set -/
theorem orderby_order_independent (keyf : Rep → Rep) (xs ys : List Rep) (hn : NoTies keyf xs) (hp : xs.Perm ys) :
    C06.Impl.orderBy keyf xs = C06.Impl.orderBy keyf ys := orderBy_perm_invariant hn hp

/-- with tied keys (the documented exemption) only tied members can trade places -/
theorem orderby_ties_only (keyf : Rep → Rep) (xs ys : List Rep) (hp : xs.Perm ys) :
    (C06.Impl.orderBy keyf xs).map (fun x => key (keyf x)) = (C06.Impl.orderBy keyf ys).map (fun x => key (keyf x)) :=
  orderBy_keys_perm_invariant keyf hp

/-- `KF-superimposed`: genuine order dependence. Two enumeration orders of the same two members build different
strings (`'b'` resp. `'a'`): the set builder keeps the tuple it sees last. -/
theorem superimposed_order_dependent :
    C06.Impl.equal (C06.Impl.build [.charT 0 97, .charT 0 98]) (C06.Impl.build [.charT 0 98, .charT 0 97]) = false ∧
    C06.Impl.build [.charT 0 97, .charT 0 98] = .str [98] 0 ∧
    C06.Impl.build [.charT 0 98, .charT 0 97] = .str [97] 0 := by decide

end Arrai.C07.Theorems
