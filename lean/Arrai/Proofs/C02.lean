/-
  C02 — equality is extensional; equal values are interchangeable.

  Property theorems only (helper lemmas: Arrai/C02/Lemmas.lean; model: Arrai/C02/Model.lean).

  `Rep` has one constructor per Go value type, `den : Rep → V` is the denotation, `wf` the canonical-form
  invariant the Go constructors are supposed to establish, `Impl.equal` the transliteration of every `Equal`
  method and `hashKey` the (symbolic) value of the repaired `Hash` methods — frozen identifies the elements
  of a set by their full hash, so `Equal` on sets is decided by `hashKey`.

  Full statements are kept as `def …_full : Prop`; what is proved is `…_partial` for the fragment
  `frag` (numbers, the empty tuple, character and byte tuples, strings and byte arrays with offsets and
  holes, booleans and generic sets of all these nested arbitrarily).  Arrays, non-empty generic tuples,
  dictionaries, relations and union sets are covered by the correspondence run only.
-/
import Arrai.C02.Lemmas

namespace Arrai.C02.Theorems
open Arrai Arrai.C02 Arrai.C02.Rep Arrai.C02.Impl

/-! ### Part 1 — `Equal` is equality of denotations on canonical forms -/

def equal_iff_den_full : Prop :=
  ∀ a b : Rep, wf a = true → wf b = true → (equal a b = true ↔ den a = den b)

theorem equal_iff_den_partial (a b : Rep) (ha : wf a = true) (hb : wf b = true)
    (fa : frag a = true) (fb : frag b = true) : equal a b = true ↔ den a = den b :=
  (main_frag (depth a + depth b + 1) a b (by omega) (by omega) ha hb fa fb).1

def equal_symm_full : Prop :=
  ∀ a b : Rep, wf a = true → wf b = true → equal a b = equal b a

theorem equal_symm_partial (a b : Rep) (ha : wf a = true) (hb : wf b = true)
    (fa : frag a = true) (fb : frag b = true) : equal a b = equal b a := by
  have h1 := equal_iff_den_partial a b ha hb fa fb
  have h2 := equal_iff_den_partial b a hb ha fb fa
  cases h : equal a b <;> cases h' : equal b a
  · rfl
  · exact absurd (h1.2 (h2.1 h').symm) (by simp [h])
  · exact absurd (h2.2 (h1.1 h).symm) (by simp [h'])
  · rfl

/-- `GenericTuple.Equal` accepts any `Tuple`: outside canonical forms `Equal` is not symmetric -/
theorem equal_symm_needs_wf :
    equal (.gtuple [("@", .num 0), ("@char", .num 97)]) (.charT 0 97) = true ∧
    equal (.charT 0 97) (.gtuple [("@", .num 0), ("@char", .num 97)]) = false := by decide

/-! ### Part 2 — the hash contract, in both directions (frozen trusts hashes) -/

def hash_contract_full : Prop :=
  ∀ a b : Rep, wf a = true → wf b = true → equal a b = true → hashKey a = hashKey b

theorem hash_contract_partial (a b : Rep) (ha : wf a = true) (hb : wf b = true)
    (fa : frag a = true) (fb : frag b = true) (h : equal a b = true) : hashKey a = hashKey b := by
  have m := main_frag (depth a + depth b + 1) a b (by omega) (by omega) ha hb fa fb
  exact (m.2 [] []).2 ⟨rfl, m.1.1 h⟩

def hash_injective_full : Prop :=
  ∀ a b : Rep, wf a = true → wf b = true → hashKey a = hashKey b → den a = den b

/-- different values have different (symbolic) hashes: what frozen's hash-trusting `Set.Equal` needs -/
theorem hash_injective_partial (a b : Rep) (ha : wf a = true) (hb : wf b = true)
    (fa : frag a = true) (fb : frag b = true) (h : hashKey a = hashKey b) : den a = den b :=
  (((main_frag (depth a + depth b + 1) a b (by omega) (by omega) ha hb fa fb).2 [] []).1 h).2

/-- under any seed (hashes are also used as seeds of the hashes of enclosing tuples and arrays) -/
theorem hash_seeded_partial (a b : Rep) (ha : wf a = true) (hb : wf b = true)
    (fa : frag a = true) (fb : frag b = true) (s s' : HV) :
    hashG true a s = hashG true b s' ↔ (s = s' ∧ den a = den b) :=
  (main_frag (depth a + depth b + 1) a b (by omega) (by omega) ha hb fa fb).2 s s'

/-! ### Part 3 — canonical forms are unique -/

/-- same constructor, same scalar fields; collections up to enumeration order -/
def sameRep : Rep → Rep → Prop
  | .num a, .num b => a = b
  | .gtuple [], .gtuple [] => True
  | .charT i c, .charT j d => i = j ∧ c = d
  | .byteT i c, .byteT j d => i = j ∧ c = d
  | .empty, .empty => True
  | .true_, .true_ => True
  | .str s o h, .str s' o' h' => s = s' ∧ o = o' ∧ h = h'
  | .bytes b o, .bytes b' o' => b = b' ∧ o = o'
  | .generic xs, .generic ys =>
    xs.length = ys.length ∧ ∀ v, v ∈ denList xs ↔ v ∈ denList ys   -- a permutation up to member denotation
  | _, _ => False

def wf_unique_full : Prop :=
  ∀ a b : Rep, wf a = true → wf b = true → den a = den b → ctorTag a = ctorTag b

theorem wf_unique_partial (a b : Rep) (ha : wf a = true) (hb : wf b = true)
    (fa : frag a = true) (fb : frag b = true) (h : den a = den b) : sameRep a b := by
  have htag : ctorTag a = ctorTag b := by rw [← vtag_den a ha fa, ← vtag_den b hb fb, h]
  cases a <;> cases b <;> simp [ctorTag] at htag <;> simp [frag] at fa fb
  case num.num x y => simpa [den, sameRep] using h
  case gtuple.gtuple as bs => subst fa; subst fb; trivial
  case charT.charT i c j d => simpa [den, vpair, sameRep] using h
  case byteT.byteT i c j d => simpa [den, vpair, sameRep] using h
  case empty.empty => trivial
  case true_.true_ => trivial
  case str.str s o h1 s' o' h2 =>
    obtain ⟨e1, e2, e3⟩ := (str_den_inj s s' o o' h1 h2 ha hb).1 h
    exact ⟨e2, e1, e3⟩
  case bytes.bytes b o b' o' =>
    obtain ⟨e1, e2⟩ := (bytes_den_inj b b' o o' ha hb).1 h
    exact ⟨e2, e1⟩
  case generic.generic xs ys =>
    simp only [den, V.mkSet, V.set.injEq] at h
    have hm := (FinSet.mk_eq_iff _ _).1 h
    simp only [wf, Bool.and_eq_true, decide_eq_true_eq] at ha hb
    refine ⟨?_, hm⟩
    have := FinSet.length_eq_of_same_members (denList xs) (denList ys) ha.1.2 hb.1.2 hm
    rwa [denList_length, denList_length] at this

/-! ### Part 4 — equal values collapse: one member of a built set, the same dictionary entry -/

def collapse_full : Prop :=
  ∀ x y : Rep, wf x = true → wf y = true → den x = den y →
    dedupFrozen [x, y] = [x] ∧ ∀ v, dictGet (newDict [(x, v)]) y = [v]

theorem collapse_partial (x y : Rep) (hx : wf x = true) (hy : wf y = true)
    (fx : frag x = true) (fy : frag y = true) (h : den x = den y) :
    dedupFrozen [x, y] = [x] ∧ ∀ v, dictGet (newDict [(x, v)]) y = [v] := by
  have he : equal x y = true := (equal_iff_den_partial x y hx hy fx fy).2 h
  have hh : hashKey x = hashKey y := hash_contract_partial x y hx hy fx fy he
  constructor
  · simp [dedupFrozen, memFrozen, hh, he]
  · intro v
    simp [newDict, dictGet, hh, he]

/-- and different values stay apart -/
theorem no_collapse_partial (x y : Rep) (hx : wf x = true) (hy : wf y = true)
    (fx : frag x = true) (fy : frag y = true) (h : den x ≠ den y) :
    dedupFrozen [x, y] = [x, y] ∧ ∀ v, dictGet (newDict [(x, v)]) y = [] := by
  have he : equal x y = false := by
    cases e : equal x y with
    | false => rfl
    | true => exact absurd ((equal_iff_den_partial x y hx hy fx fy).1 e) h
  constructor
  · simp [dedupFrozen, memFrozen, he]
  · intro v
    simp [newDict, dictGet, he]

/-! ### Part 5 — behaviour before the repairs (each witness is also a corpus case of the check) -/

/-- `+>` left a generic tuple with heading (@, @char): not canonical, and not `Equal` to the character tuple
from the other side -/
theorem merge_false_before_repair :
    wf (mergeLeftToRightOld (.gtuple [("@", .num 0)]) (.gtuple [("@char", .num 97)])) = false ∧
    equal (.charT 0 97) (mergeLeftToRightOld (.gtuple [("@", .num 0)]) (.gtuple [("@char", .num 97)])) = false := by
  decide

theorem merge_repaired :
    mergeLeftToRight (.gtuple [("@", .num 0)]) (.gtuple [("@char", .num 97)]) = .ok (.charT 0 97) := by rfl

/-- `[1, , 3] without (@: 0, @item: 1)` kept the leading hole -/
theorem array_without_false_before_repair :
    wf (arrWithoutOld [some (.num 1), none, some (.num 3)] 0 2 0 (.num 1)) = false ∧
    equal (arrWithoutOld [some (.num 1), none, some (.num 3)] 0 2 0 (.num 1)) (.array [some (.num 3)] 2 1) = false := by
  decide

theorem array_without_repaired :
    arrWithout [some (.num 1), none, some (.num 3)] 0 2 0 (.num 1) = .array [some (.num 3)] 2 1 := by rfl

/-- `('a' ++ 1\'c') without (@: 0, @char: 97)` kept the leading hole -/
theorem string_without_false_before_repair :
    wf (strWithoutOld [97, -1, 99] 0 1 0 97) = false ∧
    equal (strWithoutOld [97, -1, 99] 0 1 0 97) (.str [99] 2 0) = false := by decide

theorem string_without_repaired : strWithout [97, -1, 99] 0 1 0 97 = .str [99] 2 0 := by rfl

/-- `(@: 0, @byte: 300)` became `(@: 0, @byte: 44)` -/
theorem special_tuple_false_before_repair :
    newTupleOld [("@", .num 0), ("@byte", .num 300)] = .ok (.byteT 0 44) ∧
    newTuple [("@", .num 0), ("@byte", .num 300)] = .ok (.gtuple [("@", .num 0), ("@byte", .num 300)]) := by
  constructor <;> rfl

/-- XOR-linear set hashes: `{{1, 2}, {3}} = {{1, 3}, {2}}` was true -/
theorem nested_set_hash_false_before_repair :
    equalOld (.generic [.generic [.num 1, .num 2], .generic [.num 3]])
             (.generic [.generic [.num 1, .num 3], .generic [.num 2]]) = true ∧
    equal (.generic [.generic [.num 1, .num 2], .generic [.num 3]])
          (.generic [.generic [.num 1, .num 3], .generic [.num 2]]) = false := by decide

/-- offset-blind string hash: `{'a'} = {1\'a'}` was true; `{'a'} = {<<97>>}` too -/
theorem string_hash_false_before_repair :
    equalOld (.generic [.str [97] 0 0]) (.generic [.str [97] 1 0]) = true ∧
    equal (.generic [.str [97] 0 0]) (.generic [.str [97] 1 0]) = false ∧
    equalOld (.generic [.str [97] 0 0]) (.generic [.bytes [97] 0]) = true ∧
    equal (.generic [.str [97] 0 0]) (.generic [.bytes [97] 0]) = false := by decide

/-! ### every hypothesis is satisfiable by non-trivial values -/

example : let a : Rep := .generic [.generic [.num 1, .str [97, -1, 99] 2 1], .true_, .gtuple []]
    wf a = true ∧ frag a = true := by decide

example : let a : Rep := .generic [.num 1, .bytes [1, 2] 3]
          let b : Rep := .generic [.bytes [1, 2] 3, .num 1]
    wf a = true ∧ wf b = true ∧ frag a = true ∧ frag b = true ∧ den a = den b ∧ equal a b = true := by decide

end Arrai.C02.Theorems
