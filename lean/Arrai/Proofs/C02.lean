/-
  C02 — equality is extensional; equal values are interchangeable.  (placeholder while the pipeline is wired)
-/
import Arrai.C02.Model

namespace Arrai.C02.Theorems
open Arrai Arrai.C02 Arrai.C02.Rep Arrai.C02.Impl

theorem merge_noncanonical_before_repair :
    wf (mergeLeftToRightOld (.gtuple [("@", .num 0)]) (.gtuple [("@char", .num 97)])) = false := by decide

end Arrai.C02.Theorems
