/-
  C02 — equality is extensional; equal values are interchangeable.

  Property theorems only (helper lemmas: Arrai/C02/{Assoc,SortNames,Lemmas,Ctors,CtorsGen}.lean; model:
  Arrai/C02/Model.lean).

  `Rep` has one constructor per Go value type, `den : Rep → V` is the denotation, `wf` the canonical-form
  invariant the Go constructors are supposed to establish, `Impl.equal` the transliteration of every `Equal`
  method and `hashG true`/`hashKey` the symbolic value of the (repaired) `Hash` methods.  frozen identifies
  the elements of a set by their full hash (`Set.Equal` = same count and same XOR of element hashes), so
  `Equal` of every set nested in a set is decided by `Hash`: the hash has to be *injective* up to
  denotation, not only to respect `Equal`.

  All property theorems are full statements: they hold for ALL canonical representations (`wf`), every
  constructor of `Rep` nested arbitrarily - numbers, generic tuples, character/byte/item/entry tuples, strings
  and byte arrays (offsets, holes), arrays (offsets, holes), dictionaries (keys with one or several values,
  incl. `Dict.Equal` against any other set), relations (column order irrelevant), union sets (one subset per
  bucket), booleans and generic sets.  This needed the seventh repair: `ArrayItemTuple.Hash` and
  `DictEntryTuple.Hash` used to return the item's/value's hash under the derived seed unfinished, which made
  differently nested tuples hash alike (`seed_threading_false_before_repair`); the only statement still
  bounded is the set builder (`set_builder_wf_small`).
-/
import Arrai.C02.Lemmas
import Arrai.C02.Ctors
import Arrai.C02.CtorsGen

namespace Arrai.C02.Theorems
open Arrai Arrai.C02 Arrai.C02.Rep Arrai.C02.Impl

/-! ### Part 1 — `Equal` is equality of denotations on canonical forms -/

theorem equal_iff_den (a b : Rep) (ha : wf a = true) (hb : wf b = true) : equal a b = true ↔ den a = den b :=
  (main_all a b ha hb).1

theorem equal_symm (a b : Rep) (ha : wf a = true) (hb : wf b = true) : equal a b = equal b a := by
  have h1 := equal_iff_den a b ha hb
  have h2 := equal_iff_den b a hb ha
  cases h : equal a b <;> cases h' : equal b a
  · rfl
  · exact absurd (h1.2 (h2.1 h').symm) (by simp [h])
  · exact absurd (h2.2 (h1.1 h).symm) (by simp [h'])
  · rfl

/-- `GenericTuple.Equal` accepts any `Tuple`: outside canonical forms `Equal` is not symmetric -/
theorem equal_symm_needs_wf :
    equal (.gtuple [("@", .num 0), ("@char", .num 97)]) (.charT 0 97) = true ∧
    equal (.charT 0 97) (.gtuple [("@", .num 0), ("@char", .num 97)]) = false := by decide

/-! ### Part 2 — the hash contract, in both directions (frozen trusts hashes) -/

theorem hash_contract (a b : Rep) (ha : wf a = true) (hb : wf b = true) (h : equal a b = true) :
    hashKey a = hashKey b := by
  have m := main_all a b ha hb
  exact (m.2 rfl rfl [] []).2 ⟨rfl, m.1.1 h⟩

/-- different values have different (symbolic) hashes: what frozen's hash-trusting `Set.Equal` needs -/
theorem hash_injective (a b : Rep) (ha : wf a = true) (hb : wf b = true) (h : hashKey a = hashKey b) :
    den a = den b :=
  (((main_all a b ha hb).2 rfl rfl [] []).1 h).2

/-- under any seed (hashes are also used as seeds of the hashes of enclosing tuples and arrays) -/
theorem hash_seeded (a b : Rep) (ha : wf a = true) (hb : wf b = true) (s s' : HV) :
    hashG true a s = hashG true b s' ↔ (s = s' ∧ den a = den b) :=
  (main_all a b ha hb).2 rfl rfl s s'

/-! ### Part 3 — canonical forms are unique -/

/-- same constructor, same scalar fields, same hole pattern; children and collections compared up to
enumeration order and the representation of the children (by denotation) -/
def sameRep : Rep → Rep → Prop
  | .num a, .num b => a = b
  | .gtuple as, .gtuple bs => as.length = bs.length ∧ ∀ k, lookupV k (denAttrs as) = lookupV k (denAttrs bs)
  | .charT i c, .charT j d => i = j ∧ c = d
  | .byteT i c, .byteT j d => i = j ∧ c = d
  | .itemT i x, .itemT j y => i = j ∧ den x = den y
  | .entryT k v, .entryT k' v' => den k = den k' ∧ den v = den v'
  | .empty, .empty => True
  | .true_, .true_ => True
  | .str s o h, .str s' o' h' => s = s' ∧ o = o' ∧ h = h'
  | .bytes b o, .bytes b' o' => b = b' ∧ o = o'
  | .array vs o c, .array vs' o' c' => o = o' ∧ c = c' ∧ denOpts vs = denOpts vs'
  | .generic xs, .generic ys =>
    xs.length = ys.length ∧ ∀ v, v ∈ denList xs ↔ v ∈ denList ys   -- a permutation up to member denotation
  | .dict m, .dict m' => m.length = m'.length ∧ ∀ v, v ∈ denDict m ↔ v ∈ denDict m'
  | .relation ns rows, .relation ns' rows' =>
    sortStrs ns = sortStrs ns' ∧ rows.length = rows'.length ∧ ∀ v, v ∈ denRows ns rows ↔ v ∈ denRows ns' rows'
  | .union bs, .union bs' =>
    bs.length = bs'.length ∧ ∀ k, (lookupAttr k bs).map den = (lookupAttr k bs').map den
  | _, _ => False

/-- canonical forms are unique — for ALL representations (no fragment restriction): two canonical
representations with the same denotation have the same constructor, the same scalar fields and children
and collections that agree up to denotation and enumeration order -/
theorem wf_unique (a b : Rep) (ha : wf a = true) (hb : wf b = true) (h : den a = den b) : sameRep a b := by
  have htag : ctorTag a = ctorTag b := by rw [← vtag_den_wf a ha, ← vtag_den_wf b hb, h]
  cases a <;> cases b <;> simp [ctorTag] at htag
  case num.num x y => simpa [den, sameRep] using h
  case gtuple.gtuple as bs =>
    simp only [den] at h
    have hl := (mkTup_eq_iff _ _).1 h
    refine ⟨?_, hl⟩
    simp only [wf, Bool.and_eq_true, decide_eq_true_eq] at ha hb
    have l1 := length_mkAttrs (denAttrs as) (by rw [denAttrs_names]; exact ha.1.1)
    have l2 := length_mkAttrs (denAttrs bs) (by rw [denAttrs_names]; exact hb.1.1)
    rw [mkTup_eq, mkTup_eq] at h
    have h' : mkAttrs (denAttrs as) = mkAttrs (denAttrs bs) := by simpa using h
    rw [h', l2, denAttrs_length, denAttrs_length] at l1
    exact l1.symm
  case charT.charT i c j d => simpa [den, vpair, sameRep] using h
  case byteT.byteT i c j d => simpa [den, vpair, sameRep] using h
  case itemT.itemT i x j y => simpa [den, vpair, sameRep] using h
  case entryT.entryT k v k' v' => simpa [den, vpair, sameRep] using h
  case empty.empty => trivial
  case true_.true_ => trivial
  case str.str s o h1 s' o' h2 =>
    obtain ⟨e1, e2, e3⟩ := (str_den_inj s s' o o' h1 h2 ha hb).1 h
    exact ⟨e2, e1, e3⟩
  case bytes.bytes b o b' o' =>
    obtain ⟨e1, e2⟩ := (bytes_den_inj b b' o o' ha hb).1 h
    exact ⟨e2, e1⟩
  case array.array vs o c vs' o' c' =>
    obtain ⟨e1, e2⟩ := (array_den_inj vs vs' o o' c c' ha hb).1 h
    simp only [wf, Bool.and_eq_true, beq_iff_eq] at ha hb
    refine ⟨e1, ?_, e2⟩
    rw [ha.2, hb.2, ← optCount_denOpts vs, ← optCount_denOpts vs', e2]
  case dict.dict m m' =>
    simp only [den, V.mkSet, V.set.injEq] at h
    simp only [wf, Bool.and_eq_true, decide_eq_true_eq] at ha hb
    exact ⟨((dict_den_iff m m' ha.1.2 hb.1.2 ha.2 hb.2).1 h).1, (FinSet.mk_eq_iff _ _).1 h⟩
  case relation.relation ns rows ns' rows' => exact relation_den_inj ns ns' rows rows' ha hb h
  case union.union bs bs' => exact union_den_inj bs bs' ha hb h
  case generic.generic xs ys =>
    simp only [den, V.mkSet, V.set.injEq] at h
    have hm := (FinSet.mk_eq_iff _ _).1 h
    simp only [wf, Bool.and_eq_true, decide_eq_true_eq] at ha hb
    refine ⟨?_, hm⟩
    have := FinSet.length_eq_of_same_members (denList xs) (denList ys) ha.1.2 hb.1.2 hm
    rwa [denList_length, denList_length] at this

/-! ### Part 4 — equal values collapse: one member of a built set, the same dictionary entry -/

theorem collapse (x y : Rep) (hx : wf x = true) (hy : wf y = true) (h : den x = den y) :
    dedupFrozen [x, y] = [x] ∧ ∀ v, dictGet (newDict [(x, v)]) y = [v] := by
  have he : equal x y = true := (equal_iff_den x y hx hy).2 h
  have hh : hashKey x = hashKey y := hash_contract x y hx hy he
  constructor
  · simp [dedupFrozen, memFrozen, hh, he]
  · intro v
    simp [newDict, dictGet, hh, he]

/-- and different values stay apart -/
theorem no_collapse (x y : Rep) (hx : wf x = true) (hy : wf y = true) (h : den x ≠ den y) :
    dedupFrozen [x, y] = [x, y] ∧ ∀ v, dictGet (newDict [(x, v)]) y = [] := by
  have he : equal x y = false := by
    cases e : equal x y with
    | false => rfl
    | true => exact absurd ((equal_iff_den x y hx hy).1 e) h
  constructor
  · simp [dedupFrozen, memFrozen, he]
  · intro v
    simp [newDict, dictGet, he]

/-! ### Part 5 — the modelled constructors return canonical forms of the intended denotation
(general: every input; `NewSet`/`SetBuilder` bounded-exhaustive) -/

/-- `NewOffsetString(s, off)` for a rune list without holes at its ends (what its callers pass) -/
theorem new_offset_string_wf (s : List Int) (off : Int)
    (hends : s = [] ∨ (headNonneg s = true ∧ lastNonneg s = true)) (hr : runesOk s = true) :
    wf (newOffsetString s off) = true ∧ den (newOffsetString s off) = .set (strMembers off s) :=
  new_offset_string_wf_den s off hends hr

/-- `NewOffsetArray(off, vs)` trims holes at both ends and counts: canonical, denotes the present items -/
theorem new_offset_array_wf (off : Int) (vs : List (Option Rep)) (hw : wfOpts vs = true) :
    wf (newOffsetArray off vs) = true ∧
    den (newOffsetArray off vs) = V.mkSet (arrMembers off (denOpts vs)) := by
  obtain ⟨h1, h2⟩ := new_offset_array_wf_den off vs hw
  refine ⟨h1, ?_⟩
  rw [h2, arrMembers_eq, V.mkSet, FinSet.mk_of_sorted _ (seqM_sorted _ _ _)]

/-- `String.Without` (repaired), every string, index and character: canonical result, exactly that member removed -/
theorem string_without_wf (s : List Int) (off holes ix ch : Int)
    (hw : wf (.str s off holes) = true) (hc : inRune ch = true) :
    wf (strWithout s off holes ix ch) = true ∧
    den (strWithout s off holes ix ch) = specWithout (strMembers off s) (vpair "@char" (.num ix) (.num ch)) :=
  string_without_wf_den s off holes ix ch hw hc

/-- `Array.Without` (repaired), every canonical array, index and canonical item: canonical result, exactly that
member removed -/
theorem array_without_wf (vs : List (Option Rep)) (off c ix : Int) (item : Rep)
    (hw : wf (.array vs off c) = true) (wi : wf item = true) :
    wf (arrWithout vs off c ix item) = true ∧
    den (arrWithout vs off c ix item) =
      specWithout (arrMembers off (denOpts vs)) (vpair "@item" (.num ix) (den item)) := by
  apply array_without_wf_den vs off c ix item hw
  intro v hv
  simp only [wf, Bool.and_eq_true] at hw
  exact equal_iff_den v item (wfOpts_mem vs v hw.1.2 hv) wi

/-- `NewTuple`/`TupleBuilder.Finish` (repair #20): unless Go panics (non-number under a sugar heading, pinned by the
suite) the result is canonical and denotes the attributes given -/
theorem new_tuple_wf (as : List (String × Rep)) (r : Rep) (hn : (namesOf as).Nodup) (hw : wfAttrs as = true)
    (h : newTuple as = .ok r) : wf r = true ∧ den r = V.mkTup (denAttrs as) :=
  new_tuple_wf_den as r hn hw h

/-- `+>` (repaired) on canonical tuples of any representation: canonical result, right operand wins -/
theorem merge_wf (t u r : Rep) (ht : isTuple t = true) (hu : isTuple u = true)
    (wt : wf t = true) (wu : wf u = true) (h : mergeLeftToRight t u = .ok r) :
    wf r = true ∧ den r = V.mkTup (denAttrs (mergeAttrs (attrsOf t) (attrsOf u))) :=
  merge_wf_den t u r ht hu wt wu h

def set_builder_wf_full : Prop := ∀ n, setBuilderOk n = true

set_option maxRecDepth 1000000 in
/-- `NewSet` (bucket routing, asString/asArray/asBytes/NewDict, union of buckets) on ≤ 2 members -/
theorem set_builder_wf_small : setBuilderOk 2 = true := by decide

/-! ### Part 6 — behaviour before the repairs (each witness is also a corpus case of the check) -/

set_option maxRecDepth 1000000 in
/-- without the trim, `String.Without`/`Array.Without` break the invariant already on length ≤ 3 -/
theorem without_false_before_repair : strWithoutOk false 3 = false ∧ arrWithoutOk false 3 = false := by decide

/-- `+>` left a generic tuple with heading (@, @char): not canonical, and not `Equal` to the character tuple
from the other side -/
theorem merge_false_before_repair :
    wf (mergeLeftToRightOld (.gtuple [("@", .num 0)]) (.gtuple [("@char", .num 97)])) = false ∧
    equal (.charT 0 97) (mergeLeftToRightOld (.gtuple [("@", .num 0)]) (.gtuple [("@char", .num 97)])) = false := by
  decide

theorem merge_repaired :
    mergeLeftToRight (.gtuple [("@", .num 0)]) (.gtuple [("@char", .num 97)]) = .ok (.charT 0 97) := by rfl

/-- `[1, , 3] without (@: 0, @item: 1)` kept the leading hole -/
theorem array_without_false_before_repair :
    wf (arrWithoutOld [some (.num 1), none, some (.num 3)] 0 2 0 (.num 1)) = false ∧
    equal (arrWithoutOld [some (.num 1), none, some (.num 3)] 0 2 0 (.num 1)) (.array [some (.num 3)] 2 1) = false := by
  decide

theorem array_without_repaired :
    arrWithout [some (.num 1), none, some (.num 3)] 0 2 0 (.num 1) = .array [some (.num 3)] 2 1 := by rfl

/-- `('a' ++ 1\'c') without (@: 0, @char: 97)` kept the leading hole -/
theorem string_without_false_before_repair :
    wf (strWithoutOld [97, -1, 99] 0 1 0 97) = false ∧
    equal (strWithoutOld [97, -1, 99] 0 1 0 97) (.str [99] 2 0) = false := by decide

theorem string_without_repaired : strWithout [97, -1, 99] 0 1 0 97 = .str [99] 2 0 := by rfl

/-- `(@: 0, @byte: 300)` became `(@: 0, @byte: 44)` -/
theorem special_tuple_false_before_repair :
    newTupleOld [("@", .num 0), ("@byte", .num 300)] = .ok (.byteT 0 44) ∧
    newTuple [("@", .num 0), ("@byte", .num 300)] = .ok (.gtuple [("@", .num 0), ("@byte", .num 300)]) := by
  constructor <;> rfl

/-- XOR-linear set hashes: `{{1, 2}, {3}} = {{1, 3}, {2}}` was true -/
theorem nested_set_hash_false_before_repair :
    equalOld (.generic [.generic [.num 1, .num 2], .generic [.num 3]])
             (.generic [.generic [.num 1, .num 3], .generic [.num 2]]) = true ∧
    equal (.generic [.generic [.num 1, .num 2], .generic [.num 3]])
          (.generic [.generic [.num 1, .num 3], .generic [.num 2]]) = false := by decide

/-- the same regrouping inside arrays: `{[{1, 2}, {3}]} = {[{1, 3}, {2}]}` was true -/
theorem nested_array_hash_false_before_repair :
    equalOld (.generic [.array [some (.generic [.num 1, .num 2]), some (.generic [.num 3])] 0 2])
             (.generic [.array [some (.generic [.num 1, .num 3]), some (.generic [.num 2])] 0 2]) = true ∧
    equal (.generic [.array [some (.generic [.num 1, .num 2]), some (.generic [.num 3])] 0 2])
          (.generic [.array [some (.generic [.num 1, .num 3]), some (.generic [.num 2])] 0 2]) = false := by decide

/-- offset-blind string hash: `{'a'} = {1\'a'}` was true; `{'a'} = {<<97>>}` too -/
theorem string_hash_false_before_repair :
    equalOld (.generic [.str [97] 0 0]) (.generic [.str [97] 1 0]) = true ∧
    equal (.generic [.str [97] 0 0]) (.generic [.str [97] 1 0]) = false ∧
    equalOld (.generic [.str [97] 0 0]) (.generic [.bytes [97] 0]) = true ∧
    equal (.generic [.str [97] 0 0]) (.generic [.bytes [97] 0]) = false := by decide

/-- #7 `ArrayItemTuple.Hash`/`DictEntryTuple.Hash` returned the item's/value's hash under the seed derived from
the index/key, unfinished: the same chain of seeds arises when such tuples are nested the other way round, for
all components and under every seed -/
theorem seed_threading_false_before_repair (i : Int) (a b : Rep) (s : HV) :
    hashG false (.entryT (.itemT i a) b) s = hashG false (.itemT i (.entryT a b)) s := by
  simp [hashG, tfin]

/-- … so arrays holding them hashed alike and sets of such arrays compared equal (frozen trusts hashes); on the
unrepaired tree `{[(@: (@: 1, @item: 5), @value: 7)]} = {[(@: 1, @item: (@: 5, @value: 7))]}` was true -/
theorem seed_threading_sets_false_before_repair :
    let a : Rep := .generic [.array [some (.entryT (.itemT 1 (.num 5)) (.num 7))] 0 1]
    let b : Rep := .generic [.array [some (.itemT 1 (.entryT (.num 5) (.num 7)))] 0 1]
    wf a = true ∧ wf b = true ∧ den a ≠ den b ∧ equalOld a b = true := by decide

theorem seed_threading_repaired :
    let x : Rep := .entryT (.itemT 1 (.num 5)) (.num 7)
    let y : Rep := .itemT 1 (.entryT (.num 5) (.num 7))
    hashKey x ≠ hashKey y ∧
    equal (.generic [.array [some x] 0 1]) (.generic [.array [some y] 0 1]) = false := by decide

/-! ### every hypothesis is satisfiable by non-trivial values -/

example : let a : Rep := .generic [.generic [.num 1, .str [97, -1, 99] 2 1], .true_, .gtuple [],
                                   .array [some (.gtuple [("a", .num 1), ("b", .bytes [7] 1)]), none, some .empty] (-1) 2]
    wf a = true := by decide

example : let a : Rep := .generic [.num 1, .bytes [1, 2] 3]
          let b : Rep := .generic [.bytes [1, 2] 3, .num 1]
    wf a = true ∧ wf b = true ∧ den a = den b ∧ equal a b = true := by decide

example : let a : Rep := .union [("rel.generic", .generic [.num 1, .num 2]),
      ("rel.DictEntryTuple", .dict [(.num 1, [.num 2]), (.str [97] 0 0, [.num 3, .true_])]),
      ("rel.StringCharTuple", .str [97, -1, 98] 4 1)]
    wf a = true := by decide

example : let a : Rep := .relation ["b", "a"] [[.num 1, .gtuple [("x", .num 2)]], [.num 2, .empty]]
          let b : Rep := .relation ["a", "b"] [[.empty, .num 2], [.gtuple [("x", .num 2)], .num 1]]
    wf a = true ∧ wf b = true ∧ den a = den b := by decide

end Arrai.C02.Theorems
