/-
  C18 — sandboxed evaluation reaches only the scope and library it was given.

  Property theorems only (model: Arrai/C18/Model.lean, invariant: Arrai/C18/Lemmas.lean,
  tables: Arrai/C18/Expected.lean).
  Part 1: obligations — the facts regenerated from /repo equal the expected tables.
  Part 2: the library tables: the safe library has no file-reading, network or command function.
  Part 3: confinement of the transliterated evaluator (Impl) for every source, configuration and fuel.
  Part 4: every repair is necessary: with any one of them switched off the model escapes (including the
          parse-time scope seeded empty, reached through a name the `bind` hook pushed).
  The last route (the caller's dynamic variables `@{x}`, KF-dynvar-leak) is closed by a barrier in withSandbox:
  `confinement` holds for every calling context; `unrepaired_dynvar_*` show what happened without it.
-/
import Arrai.C18.Lemmas
import Arrai.C18.Expected
import Arrai.Facts.Generated

namespace Arrai.C18.Theorems
open Arrai.C18 Arrai.C18.Impl Arrai.C18.Expected
open Arrai.Facts

/-! ### Part 1 — regenerated facts = expected tables (re-checked on every run) -/

/-- the attribute paths and constructor shapes of the Go tuple built by SafeStdScopeTuple -/
theorem facts_safe_tuple : Generated.c18SafeGo = facts safeGo := by decide

/-- what SafeStdScopeTuple merges on top: //std.safe, the tuple itself -/
theorem facts_safe_merged : Generated.c18SafeMerged = facts safeMerged := by decide

/-- what StdScope adds to `SafeStdScopeTuple()`: //os.file, //net.http.*, //deprecated.exec and nothing else -/
theorem facts_unsafe_only :
    Generated.c18UnsafeOnly = facts unsafeOnly ∧ Generated.c18StdScopeBase = stdScopeBase := by decide

/-- the embedded arr.ai wrapper scripts are the ones `wrapSafe`/`fullLib` transliterate, and the bundled
scripts refer to no library member except //seq.split -/
theorem facts_wrappers :
    Generated.c18SafeWrapper = safeWrapper ∧ Generated.c18UnsafeWrapper = unsafeWrapper ∧
    Generated.c18WrapperPkgRefs = wrapperPkgRefs := ⟨rfl, rfl, rfl⟩

/-- every call site that evaluates source, resets a scope or reaches the outside world is one the model
knows (a new route — say a new library function that evaluates strings — breaks this) -/
theorem facts_sites : Generated.c18Sites = siteFacts := by decide

/-- the primitives behind library members (exec.Command, http, ReadFile, Getenv, Walk) sit behind members
carrying exactly that capability tag -/
theorem site_tags_agree : siteTagsAgree = true := by decide

/-! ### Part 2 — the libraries -/

open Arrai.C18.Spec

set_option maxRecDepth 100000 in
/-- the safe library — its members, the closures of the wrapper script, their environments, //std.safe —
stays within the capabilities that holding the evaluator stands for (decided over the whole table) -/
theorem safe_within_safeCaps : safeLib.reach ⊆ safeCaps := by decide

/-- no file-reading, network or command-execution capability is reachable from the safe library -/
theorem safe_is_safe : ∀ c ∈ safeLib.reach, c ∉ dangerous :=
  fun c hc => (by decide : ∀ c ∈ safeCaps, c ∉ dangerous) c (safe_within_safeCaps hc)

set_option maxRecDepth 100000 in
/-- the tags are not vacuous: the full library does reach all three -/
theorem full_reaches_dangerous : ∀ c ∈ dangerous, c ∈ fullLib.reach := by decide

set_option maxRecDepth 100000 in
/-- before the repair (//deprecated.exec built into the safe tuple) the safe library reached `exec` -/
theorem unrepaired_safe_has_exec : Cap.exec ∈ (safeLibOf safeGoUnrepaired).reach := by decide

/-! ### Part 3 — confinement -/

/-- **Confinement.** For every file system, configuration `ec`, capability set `C` containing what the
configuration hands over (its stdlib — the safe library when absent — and its scope), every source `a`,
every fuel and every calling context (whatever dynamic variables the caller bound): the value returned by
sandboxed evaluation reaches only capabilities in `C`, and every effect performed on the way exercises a
capability in `C`. -/
theorem confinement (fs : List (String × File)) (ec : EvalConfig) (C : List Cap)
    (hC : cfgCaps (world fs) ec ⊆ C) (a : Ast) (ha : a.isSource = true) (fuel : Nat) (c : Ctx) :
    Spec.Confined C (sandboxEval (world fs) fuel c ec a) :=
  confinement_general (world fs) ⟨rfl, rfl, rfl, rfl⟩ safe_within_safeCaps ec C hC a ha fuel c (Or.inl rfl)

/-- the context of `(\@{x} //eval.eval("…"))(//os.file)`: the caller bound `@{x}` to the file function -/
def leakCtx : Ctx := { ctx0 with dyn := .cons "@{x}" (.nat ["file"] .readFile .nil) .nil }

/-- the hypotheses of `confinement` are satisfiable by non-trivial values: a configuration handing over
//os.file, the escape attempt of the original probe as source (and the context may bind dynamic variables) -/
example : cfgCaps (world []) ⟨some (.cons "os" (.cons "file" (.nat ["file"] .readFile .nil) .nil) .nil), .nil⟩
      ⊆ [.readFile] ∧
    Ast.isSource (.app (.dot (.pkg "eval") "value") (.quote (.dot (.pkg "os") "file"))) = true := by decide

/-- //eval.eval (empty configuration): nothing dangerous is reachable from the result and no file is
read, no request sent, no command run — whatever the source does -/
theorem default_sandbox_is_safe (fs : List (String × File)) (a : Ast) (ha : a.isSource = true)
    (fuel : Nat) (c : Ctx) :
    (∀ v, (sandboxEval (world fs) fuel c ⟨none, .nil⟩ a).1 = some v → ∀ d ∈ dangerous, d ∉ v.reach) ∧
    (∀ cap arg, Eff.did cap arg ∈ (sandboxEval (world fs) fuel c ⟨none, .nil⟩ a).2 → cap ∉ dangerous) := by
  have h := confinement fs ⟨none, .nil⟩ safeLib.reach (by simp [cfgCaps, world, Val.reach]) a ha fuel c
  constructor
  · intro v hv d hd hin
    exact safe_is_safe d (h.1 v hv hin) hd
  · intro cap arg he hd
    exact safe_is_safe cap (h.2 cap arg he) hd

/-- a configuration that hands over nothing dangerous gets nothing dangerous back -/
theorem harmless_config_stays_harmless (fs : List (String × File)) (ec : EvalConfig)
    (hcfg : ∀ d ∈ dangerous, d ∉ cfgCaps (world fs) ec) (a : Ast) (ha : a.isSource = true)
    (fuel : Nat) (c : Ctx) :
    ∀ v, (sandboxEval (world fs) fuel c ec a).1 = some v → ∀ d ∈ dangerous, d ∉ v.reach := by
  intro v hv d hd hin
  exact hcfg d hd ((confinement fs ec _ (fun _ h => h) a ha fuel c).1 v hv hin)

/-- **Unbound references fail.** `//x` with `x` not a member of the library in effect fails. -/
theorem unbound_fails (fs : List (String × File)) (ec : EvalConfig) (l : Val) (x : String)
    (hl : (sandboxScope (world fs) ec).get "//" = some l) (hx : l.get x = none) (fuel : Nat) (c : Ctx) :
    (sandboxEval (world fs) fuel c ec (.pkg x)).1 = none :=
  unbound_fails_general (world fs) ec l x hl hx fuel c

/-- the hypotheses of `unbound_fails` are satisfiable by a non-trivial value: a one-member library -/
example : ∃ l, (sandboxScope (world []) ⟨some (.cons "str" .data .nil), .nil⟩).get "//" = some l ∧
    l.get "os" = none := ⟨_, rfl, rfl⟩

/-- **No import reads in a sandbox.** Whatever the source does — nested //eval.*, macros, functions called
later — sandboxed evaluation never opens a file through import syntax. -/
theorem sandbox_never_imports (fs : List (String × File)) (ec : EvalConfig) (a : Ast) (ha : a.isSource = true)
    (fuel : Nat) (c : Ctx) (p : String) : Eff.imported p ∉ (sandboxEval (world fs) fuel c ec a).2 :=
  sandbox_never_imports_general (world fs) ⟨rfl, rfl, rfl, rfl⟩ safe_within_safeCaps ec a ha fuel c p

/-- **The direct entry.** `syntax.EvalWithScope(ctx, "", src, syntax.SafeStdScope())` outside any sandbox: import
syntax is allowed and reads files (the one effect this entry permits beyond the library's own), imported code
runs under the importer's `//` (the safe library).  For every file system of source text, source, fuel and
context whose dynamic variables are within bounds:
 (a) the result reaches only capabilities of the safe library — hence nothing that reads files, talks to the
     network or runs commands;
 (b) every capability exercised by a call is one of the safe library;
 (c) the importer opens only files named by import syntax in the source or (transitively) in a file it imports. -/
theorem direct_confinement (fs : List (String × File)) (hfs : FsSource fs) (a : Ast) (ha : a.isSource = true)
    (fuel : Nat) (c : Ctx) (hd : c.dyn.reach ⊆ safeLib.reach) :
    Spec.Confined safeLib.reach (evalWithScope (world fs) fuel c a (.cons "//" safeLib .nil)) ∧
    (∀ p, Eff.imported p ∈ (evalWithScope (world fs) fuel c a (.cons "//" safeLib .nil)).2 →
      p ∈ a.imports ++ fsImports fs) :=
  direct_general (world fs) ⟨rfl, rfl, rfl, rfl⟩ safe_within_safeCaps hfs _
    (by simp [Val.hasLib, Val.hasKey, Val.get]) safeLib.reach (by simp [Val.reach]) a ha fuel c hd

/-- corollary of (a): no imported file, however written, hands the direct entry a dangerous function -/
theorem direct_result_not_dangerous (fs : List (String × File)) (hfs : FsSource fs) (a : Ast)
    (ha : a.isSource = true) (fuel : Nat) :
    ∀ v, (evalWithScope (world fs) fuel ctx0 a (.cons "//" safeLib .nil)).1 = some v →
      ∀ d ∈ dangerous, d ∉ v.reach := by
  intro v hv d hd hin
  exact safe_is_safe d ((direct_confinement fs hfs a ha fuel ctx0 (by simp [ctx0, Val.reach])).1.1 v hv hin) hd

/-- the hypotheses of `direct_confinement` are satisfiable by non-trivial values: a file that tries to hand
out //os.file, a source that imports and calls it -/
example : FsSource [("lib.arrai", .code (.lam "u" (.dot (.pkg "os") "file"))), ("canary.txt", .bytes)] ∧
    Ast.isSource (.app (.imp "lib.arrai") (.num 0)) = true := by
  refine ⟨?_, by decide⟩
  intro p a h
  simp only [lookupFile] at h
  split at h
  · cases h; decide
  · split at h <;> simp at h

/-- import syntax in sandboxed source fails at compile time and touches nothing -/
theorem import_rejected_in_sandbox (fs : List (String × File)) (ec : EvalConfig) (p : String)
    (fuel : Nat) (c : Ctx) : sandboxEval (world fs) fuel c ec (.imp p) = (none, []) :=
  import_rejected_general (world fs) rfl ec p fuel c

/-! ### Part 4 — each repair is necessary (the defects of the unrepaired tree, in the model) -/

/-- a small world: the safe library has //eval.value and the grammar, the full one also //os.file -/
def tinySafe : Val :=
  .cons "eval" (.cons "value" (.nat ["value"] .eval .nil) .nil)
    (.cons "grammar" (.cons "lang" (.cons "wbnf" .data .nil) .nil)
      (.cons "os" (.cons "cwd" .data .nil) .nil))
def tinyFull : Val := .cons "os" (.cons "file" (.nat ["file"] .readFile .nil) (.cons "cwd" .data .nil)) tinySafe
def osFile : Ast := .dot (.pkg "os") "file"
def tinyWorld (fx : Fixes) : World :=
  ⟨tinySafe, tinyFull, [("lib.arrai", .code osFile), ("secret.txt", .bytes)], fx, []⟩

def reaches (r : Res) (c : Cap) : Bool :=
  match r.1 with
  | some v => v.reach.contains c
  | none => false

def did (r : Res) (c : Cap) : Bool :=
  r.2.any fun e => match e with | .did c' _ => c' == c | _ => false

def importedFile (r : Res) (f : String) : Bool :=
  r.2.any fun e => match e with | .imported f' => f' == f | _ => false

/-- before the barrier: `(\@{x} //eval.eval("@{x}"))(//os.file)` handed the sandboxed source a file-reading
function that is neither in its scope nor in its library; with the barrier the dynamic variable is unbound -/
theorem unrepaired_dynvar_leaks :
    reaches (sandboxEval (tinyWorld Fixes.beforeDynBarrier) 8 leakCtx ⟨none, .nil⟩ (.var "@{x}")) .readFile = true ∧
    (sandboxEval (tinyWorld Fixes.tree) 8 leakCtx ⟨none, .nil⟩ (.var "@{x}")).1 = none := by decide

/-- … so without the barrier, confinement as stated (for every calling context) is false of the real libraries -/
theorem unrepaired_dynvar_breaks_confinement :
    ¬ (∀ (C : List Cap), cfgCaps (world []) ⟨none, .nil⟩ ⊆ C → ∀ (c : Ctx),
        Spec.Confined C (sandboxEval { world [] with fixes := Fixes.beforeDynBarrier } 8 c ⟨none, .nil⟩ (.var "@{x}"))) := by
  intro h
  have h1 := (h safeLib.reach (by simp [cfgCaps, world, Val.reach]) leakCtx).1 (.nat ["file"] .readFile .nil) rfl
  exact safe_is_safe .readFile (h1 (by simp [Val.reach, capClosure])) (by decide)

/-- `//eval.eval("//eval.value(\"//os.file\")")` -/
def valueEscape : Ast := .app (.dot (.pkg "eval") "value") (.quote osFile)
/-- `//eval.eval("{:(@grammar: …, @transform: (r: \\a //os.file)):x:}")` -/
def macroEscape : Ast := .mac (.lam "a" osFile)
/-- `//eval.eval("//{./lib.arrai}")` where lib.arrai is `//os.file` -/
def importEscape : Ast := .imp "lib.arrai"

theorem unrepaired_value_escapes :
    reaches (sandboxEval (tinyWorld { Fixes.tree with valueEmpty := false }) 12 ctx0 ⟨none, .nil⟩ valueEscape)
      .readFile = true := by decide

theorem unrepaired_macro_escapes :
    reaches (sandboxEval (tinyWorld { Fixes.tree with macroLib := false }) 12 ctx0 ⟨none, .nil⟩ macroEscape)
      .readFile = true := by decide

theorem unrepaired_import_escapes :
    reaches (sandboxEval (tinyWorld { Fixes.tree with importReject := false, importLib := false }) 12 ctx0
      ⟨none, .nil⟩ importEscape) .readFile = true := by decide

/-- `//eval.eval("let x = //os; {:(@grammar: …, @transform: (r: \\a (.).file)):x:}")`: the transform mentions `.`,
which the parser's `bind` hook bound to an ExprClosure over the parse-time scope -/
def letDotEscape : Ast := .letE "x" (.pkg "os") (.mac (.lam "a" (.dot (.var ".") "file")))
/-- the same through the name the `let` binds -/
def letNameEscape : Ast := .letE "x" (.pkg "os") (.mac (.lam "a" (.dot (.var "x") "file")))

/-- **The parse-time scope must start from the library in effect.** On the model variant in which Parse seeds
its scope stack with the empty scope, an ExprClosure pushed by the `bind` hook closes over a scope without
`//`, PackageExpr falls back to the full library when the macro looks the name up, and confinement is false:
the sandboxed source obtains the file-reading function. -/
theorem confinement_false_if_parse_scope_empty :
    reaches (sandboxEval (tinyWorld { Fixes.tree with macroLib := false }) 14 ctx0 ⟨none, .nil⟩ letDotEscape)
      .readFile = true ∧
    reaches (sandboxEval (tinyWorld { Fixes.tree with macroLib := false }) 14 ctx0 ⟨none, .nil⟩ letNameEscape)
      .readFile = true ∧
    ¬ Spec.Confined safeCaps
      (sandboxEval (tinyWorld { Fixes.tree with macroLib := false }) 14 ctx0 ⟨none, .nil⟩ letDotEscape) := by
  refine ⟨by decide, by decide, ?_⟩
  intro h
  have h1 := h.1 (.nat ["file"] .readFile .nil) rfl
  have h2 : Cap.readFile ∈ safeCaps := h1 (by simp [Val.reach, capClosure])
  exact absurd h2 (by decide)

/-- with the parse-time scope seeded from the library in effect, a transform may use names bound by enclosing
`let`s — and reaches through them exactly what the sandbox's library has: the escape attempts fail, a
library member that is there is found -/
theorem let_bound_names_in_macros :
    (sandboxEval (tinyWorld Fixes.tree) 14 ctx0 ⟨none, .nil⟩ letDotEscape).1 = none ∧
    (sandboxEval (tinyWorld Fixes.tree) 14 ctx0 ⟨none, .nil⟩ letNameEscape).1 = none ∧
    reaches (sandboxEval (tinyWorld Fixes.tree) 14 ctx0 ⟨none, .nil⟩
      (.letE "x" (.dot (.pkg "eval") "value") (.mac (.lam "a" (.var "x"))))) .eval = true := by decide

/-- even with imported code confined, import syntax in a sandbox reads a file it was not given -/
theorem unrepaired_import_reads :
    importedFile (sandboxEval (tinyWorld { Fixes.tree with importReject := false }) 12 ctx0 ⟨none, .nil⟩
      (.imp "secret.txt")) "secret.txt" = true := by decide

/-- with all repairs the three witnesses fail -/
theorem repaired_witnesses_fail :
    (sandboxEval (tinyWorld Fixes.tree) 12 ctx0 ⟨none, .nil⟩ valueEscape).1 = none ∧
    (sandboxEval (tinyWorld Fixes.tree) 12 ctx0 ⟨none, .nil⟩ macroEscape).1 = none ∧
    sandboxEval (tinyWorld Fixes.tree) 12 ctx0 ⟨none, .nil⟩ importEscape = (none, []) := by
  refine ⟨?_, ?_, ?_⟩
  · decide
  · decide
  · exact import_rejected_general (tinyWorld Fixes.tree) rfl _ _ _ _

end Arrai.C18.Theorems
