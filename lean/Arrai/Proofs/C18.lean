/-
  C18 — sandboxed evaluation reaches only the scope and library it was given.

  Property theorems only (model: Arrai/C18/Model.lean, invariant: Arrai/C18/Lemmas.lean,
  tables: Arrai/C18/Expected.lean).
  Part 1: obligations — the facts regenerated from /repo equal the expected tables.
  Part 2: the library tables: the safe library has no file-reading, network or command function.
  Part 3: confinement of the transliterated evaluator (Impl) for every source, configuration and fuel.
  Part 4: every repair is necessary: with any one of them switched off the model escapes.
  One route is left open in the tree (KF-dynvar-leak): `confinement` is proved for the specification
  semantics, `confinement_partial` for the tree, `confinement_full_false` shows the difference is real.
-/
import Arrai.C18.Lemmas
import Arrai.C18.Expected
import Arrai.Facts.Generated

namespace Arrai.C18.Theorems
open Arrai.C18 Arrai.C18.Impl Arrai.C18.Expected
open Arrai.Facts

/-! ### Part 1 — regenerated facts = expected tables (re-checked on every run) -/

/-- the attribute paths and constructor shapes of the Go tuple built by SafeStdScopeTuple -/
theorem facts_safe_tuple : Generated.c18SafeGo = facts safeGo := by decide

/-- what SafeStdScopeTuple merges on top: //std.safe, the tuple itself -/
theorem facts_safe_merged : Generated.c18SafeMerged = facts safeMerged := by decide

/-- what StdScope adds to `SafeStdScopeTuple()`: //os.file, //net.http.*, //deprecated.exec and nothing else -/
theorem facts_unsafe_only :
    Generated.c18UnsafeOnly = facts unsafeOnly ∧ Generated.c18StdScopeBase = stdScopeBase := by decide

/-- the embedded arr.ai wrapper scripts are the ones `wrapSafe`/`fullLib` transliterate, and the bundled
scripts refer to no library member except //seq.split -/
theorem facts_wrappers :
    Generated.c18SafeWrapper = safeWrapper ∧ Generated.c18UnsafeWrapper = unsafeWrapper ∧
    Generated.c18WrapperPkgRefs = wrapperPkgRefs := ⟨rfl, rfl, rfl⟩

/-- every call site that evaluates source, resets a scope or reaches the outside world is one the model
knows (a new route — say a new library function that evaluates strings — breaks this) -/
theorem facts_sites : Generated.c18Sites = siteFacts := by decide

/-- the primitives behind library members (exec.Command, http, ReadFile, Getenv, Walk) sit behind members
carrying exactly that capability tag -/
theorem site_tags_agree : siteTagsAgree = true := by decide

/-! ### Part 2 — the libraries -/

open Arrai.C18.Spec

set_option maxRecDepth 100000 in
/-- the safe library — its members, the closures of the wrapper script, their environments, //std.safe —
stays within the capabilities that holding the evaluator stands for (decided over the whole table) -/
theorem safe_within_safeCaps : safeLib.reach ⊆ safeCaps := by decide

/-- no file-reading, network or command-execution capability is reachable from the safe library -/
theorem safe_is_safe : ∀ c ∈ safeLib.reach, c ∉ dangerous :=
  fun c hc => (by decide : ∀ c ∈ safeCaps, c ∉ dangerous) c (safe_within_safeCaps hc)

set_option maxRecDepth 100000 in
/-- the tags are not vacuous: the full library does reach all three -/
theorem full_reaches_dangerous : ∀ c ∈ dangerous, c ∈ fullLib.reach := by decide

set_option maxRecDepth 100000 in
/-- before the repair (//deprecated.exec built into the safe tuple) the safe library reached `exec` -/
theorem unrepaired_safe_has_exec : Cap.exec ∈ (safeLibOf safeGoUnrepaired).reach := by decide

/-! ### Part 3 — confinement -/

/-- **Confinement (specification semantics).** With the sandbox boundary also closed to dynamic variables
(`specWorld`): for every file system, configuration `ec`, capability set `C` containing what the
configuration hands over (its stdlib — the safe library when absent — and its scope), every source `a`,
every fuel and every calling context, the value returned by sandboxed evaluation reaches only
capabilities in `C`, and every effect performed on the way exercises a capability in `C`. -/
theorem confinement (fs : List (String × File)) (ec : EvalConfig) (C : List Cap)
    (hC : cfgCaps (specWorld fs) ec ⊆ C) (a : Ast) (ha : a.isSource = true) (fuel : Nat) (c : Ctx) :
    Spec.Confined C (sandboxEval (specWorld fs) fuel c ec a) :=
  confinement_general (specWorld fs) ⟨rfl, rfl, rfl, rfl⟩ safe_within_safeCaps ec C hC a ha fuel c (Or.inl rfl)

/-- what full strength would mean for the tree as it is (`world`: the five repairs committed, the Go context
passed into the sandbox unchanged) -/
def confinement_full : Prop :=
  ∀ (fs : List (String × File)) (ec : EvalConfig) (C : List Cap), cfgCaps (world fs) ec ⊆ C →
    ∀ (a : Ast), a.isSource = true → ∀ (fuel : Nat) (c : Ctx), Spec.Confined C (sandboxEval (world fs) fuel c ec a)

/-- **Confinement of the tree (partial).** The same statement for the transliteration of the tree, for every
calling context whose dynamic variables `@{x}` reach only `C` (in particular: none bound) — the one route
left open is `KF-dynvar-leak`. -/
theorem confinement_partial (fs : List (String × File)) (ec : EvalConfig) (C : List Cap)
    (hC : cfgCaps (world fs) ec ⊆ C) (a : Ast) (ha : a.isSource = true) (fuel : Nat) (c : Ctx)
    (hdyn : c.dyn.reach ⊆ C) : Spec.Confined C (sandboxEval (world fs) fuel c ec a) :=
  confinement_general (world fs) ⟨rfl, rfl, rfl, rfl⟩ safe_within_safeCaps ec C hC a ha fuel c (Or.inr hdyn)

/-- the context of `(\@{x} //eval.eval("…"))(//os.file)`: the caller bound `@{x}` to the file function -/
def leakCtx : Ctx := { ctx0 with dyn := .cons "@{x}" (.nat ["file"] .readFile .nil) .nil }

/-- full strength is false of the tree: `(\@{x} //eval.eval("@{x}"))(//os.file)` hands the sandboxed source
a file-reading function that is neither in its scope nor in its library -/
theorem confinement_full_false : ¬ confinement_full := by
  intro h
  have h1 := (h [] ⟨none, .nil⟩ safeLib.reach (by simp [cfgCaps, world, Val.reach]) (.var "@{x}") rfl 8 leakCtx).1
    (.nat ["file"] .readFile .nil) rfl
  exact safe_is_safe .readFile (h1 (by simp [Val.reach, capClosure])) (by decide)

/-- the hypotheses of `confinement_partial` are satisfiable by non-trivial values: a configuration handing
over //os.file, the escape attempt of the original probe as source, a context that binds a dynamic variable -/
example : cfgCaps (world []) ⟨some (.cons "os" (.cons "file" (.nat ["file"] .readFile .nil) .nil) .nil), .nil⟩
      ⊆ [.readFile] ∧
    Ast.isSource (.app (.dot (.pkg "eval") "value") (.quote (.dot (.pkg "os") "file"))) = true ∧
    leakCtx.dyn.reach ⊆ [.readFile] := by decide

/-- //eval.eval (empty configuration): nothing dangerous is reachable from the result and no file is
read, no request sent, no command run — whatever the source does -/
theorem default_sandbox_is_safe (fs : List (String × File)) (a : Ast) (ha : a.isSource = true)
    (fuel : Nat) (c : Ctx) (hdyn : c.dyn.reach ⊆ safeLib.reach) :
    (∀ v, (sandboxEval (world fs) fuel c ⟨none, .nil⟩ a).1 = some v → ∀ d ∈ dangerous, d ∉ v.reach) ∧
    (∀ cap arg, Eff.did cap arg ∈ (sandboxEval (world fs) fuel c ⟨none, .nil⟩ a).2 → cap ∉ dangerous) := by
  have h := confinement_partial fs ⟨none, .nil⟩ safeLib.reach (by simp [cfgCaps, world, Val.reach]) a ha fuel c
    hdyn
  constructor
  · intro v hv d hd hin
    exact safe_is_safe d (h.1 v hv hin) hd
  · intro cap arg he hd
    exact safe_is_safe cap (h.2 cap arg he) hd

/-- a configuration that hands over nothing dangerous gets nothing dangerous back -/
theorem harmless_config_stays_harmless (fs : List (String × File)) (ec : EvalConfig)
    (hcfg : ∀ d ∈ dangerous, d ∉ cfgCaps (world fs) ec) (a : Ast) (ha : a.isSource = true)
    (fuel : Nat) (c : Ctx) (hdyn : c.dyn = .nil) :
    ∀ v, (sandboxEval (world fs) fuel c ec a).1 = some v → ∀ d ∈ dangerous, d ∉ v.reach := by
  intro v hv d hd hin
  exact hcfg d hd ((confinement_partial fs ec _ (fun _ h => h) a ha fuel c
    (by simp [hdyn, Val.reach])).1 v hv hin)

/-- **Unbound references fail.** `//x` with `x` not a member of the library in effect fails. -/
theorem unbound_fails (fs : List (String × File)) (ec : EvalConfig) (l : Val) (x : String)
    (hl : (sandboxScope (world fs) ec).get "//" = some l) (hx : l.get x = none) (fuel : Nat) (c : Ctx) :
    (sandboxEval (world fs) fuel c ec (.pkg x)).1 = none :=
  unbound_fails_general (world fs) ec l x hl hx fuel c

/-- the hypotheses of `unbound_fails` are satisfiable by a non-trivial value: a one-member library -/
example : ∃ l, (sandboxScope (world []) ⟨some (.cons "str" .data .nil), .nil⟩).get "//" = some l ∧
    l.get "os" = none := ⟨_, rfl, rfl⟩

/-- import syntax in sandboxed source fails at compile time and touches nothing -/
theorem import_rejected_in_sandbox (fs : List (String × File)) (ec : EvalConfig) (p : String)
    (fuel : Nat) (c : Ctx) : sandboxEval (world fs) fuel c ec (.imp p) = (none, []) :=
  import_rejected_general (world fs) rfl ec p fuel c

/-! ### Part 4 — each repair is necessary (the defects of the unrepaired tree, in the model) -/

/-- a small world: the safe library has //eval.value and the grammar, the full one also //os.file -/
def tinySafe : Val :=
  .cons "eval" (.cons "value" (.nat ["value"] .eval .nil) .nil)
    (.cons "grammar" (.cons "lang" (.cons "wbnf" .data .nil) .nil) .nil)
def tinyFull : Val := .cons "os" (.cons "file" (.nat ["file"] .readFile .nil) .nil) tinySafe
def osFile : Ast := .dot (.pkg "os") "file"
def tinyWorld (fx : Fixes) : World :=
  ⟨tinySafe, tinyFull, [("lib.arrai", .code osFile), ("secret.txt", .bytes)], fx, []⟩

def reaches (r : Res) (c : Cap) : Bool :=
  match r.1 with
  | some v => v.reach.contains c
  | none => false

def did (r : Res) (c : Cap) : Bool :=
  r.2.any fun e => match e with | .did c' _ => c' == c | .unmodelled => false

/-- the dynamic-variable leak in the small world, and its absence under the specification semantics -/
theorem dynvar_leaks_in_tree_not_in_spec :
    reaches (sandboxEval (tinyWorld Fixes.tree) 8 leakCtx ⟨none, .nil⟩ (.var "@{x}")) .readFile = true ∧
    (sandboxEval (tinyWorld Fixes.all) 8 leakCtx ⟨none, .nil⟩ (.var "@{x}")).1 = none := by decide

/-- `//eval.eval("//eval.value(\"//os.file\")")` -/
def valueEscape : Ast := .app (.dot (.pkg "eval") "value") (.quote osFile)
/-- `//eval.eval("{:(@grammar: …, @transform: (r: \\a //os.file)):x:}")` -/
def macroEscape : Ast := .mac (.lam "a" osFile)
/-- `//eval.eval("//{./lib.arrai}")` where lib.arrai is `//os.file` -/
def importEscape : Ast := .imp "lib.arrai"

theorem unrepaired_value_escapes :
    reaches (sandboxEval (tinyWorld { Fixes.tree with valueEmpty := false }) 12 ctx0 ⟨none, .nil⟩ valueEscape)
      .readFile = true := by decide

theorem unrepaired_macro_escapes :
    reaches (sandboxEval (tinyWorld { Fixes.tree with macroLib := false }) 12 ctx0 ⟨none, .nil⟩ macroEscape)
      .readFile = true := by decide

theorem unrepaired_import_escapes :
    reaches (sandboxEval (tinyWorld { Fixes.tree with importReject := false, importLib := false }) 12 ctx0
      ⟨none, .nil⟩ importEscape) .readFile = true := by decide

/-- even with imported code confined, import syntax in a sandbox reads a file it was not given -/
theorem unrepaired_import_reads :
    did (sandboxEval (tinyWorld { Fixes.tree with importReject := false }) 12 ctx0 ⟨none, .nil⟩
      (.imp "secret.txt")) .readFile = true := by decide

/-- with all repairs the three witnesses fail -/
theorem repaired_witnesses_fail :
    (sandboxEval (tinyWorld Fixes.tree) 12 ctx0 ⟨none, .nil⟩ valueEscape).1 = none ∧
    (sandboxEval (tinyWorld Fixes.tree) 12 ctx0 ⟨none, .nil⟩ macroEscape).1 = none ∧
    sandboxEval (tinyWorld Fixes.tree) 12 ctx0 ⟨none, .nil⟩ importEscape = (none, []) := by
  refine ⟨?_, ?_, ?_⟩
  · decide
  · decide
  · exact import_rejected_general (tinyWorld Fixes.tree) rfl _ _ _ _

end Arrai.C18.Theorems
