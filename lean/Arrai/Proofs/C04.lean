import Arrai.C04.Model

namespace Arrai.C04.Theorems
open Arrai.C04

theorem placeholder : True := trivial

end Arrai.C04.Theorems
